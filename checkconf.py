"""Per-property configuration of ./check (case sets, Lean targets, oracle clauses)."""
import re

TRUSTED_BASE = [
    "Lean 4.33 kernel (thorough tier re-checks the compiled modules with leanchecker)",
    "axioms allowed in property theorems: propext, Classical.choice, Quot.sound; no sorry/admit/native_decide/bv_decide/own axioms (grep + #print axioms on every run)",
    "hand-written Lean model of the Go control flow, tied to /repo by the correspondence run of this check (bounded, generator quality bounds what it sees)",
    "facts extractor harness/extract.go (go/ast) regenerating Generated/Facts.lean from /repo on every run",
    "Go toolchain, strconv, unicode, bufio, sync.Once",
]

PROPS = {
    "C09": {
        "case_sets": ["lex"],
        "ops": ["SCAN", "NUM"],
        "lean_targets": ["PqlModel.Props.C09", "PqlModel.Props.C09b", "PqlModel.Props.C09Gaps", "PqlModel.Props.C09Dispatch", "PqlModel.Props.C09NumberIR", "PqlModel.Props.IRHeadlinesD", "PqlModel.Props.C09ScanIR"],
        "facts": ["keywords", "isAlphaRanges", "isDigitRanges", "isHexDigitRanges", "tokenKinds", "scanCases", "scanDefault", "identCont", "identKind", "identKeywordClearsValue", "stringQuotes", "stringCases", "stringDefault", "stringEscapes", "stringEscapeDefault", "quotedIdentShape", "lexNumberIR", "litAccessIR", "lexScanIR"],
        "rule": "SCAN: every string over the 25-symbol scanner alphabet up to length 3 (quick) / 4 (thorough), "
                "plus random concatenations of lexeme fragments and raw bytes; non-trivial = distinct source "
                "with at least two tokens or an error token. RESCAN/NUM: every token text met on the way.",
        "assumptions": ["Float64() relies on strconv.ParseFloat: differentially tested against exact rational rounding in the harness, not proved"],
    },
    "C15": {
        "case_sets": ["lex", "parse"],
        "ops": ["SPLIT", "PIECES"],
        "lean_targets": ["PqlModel.Props.C15", "PqlModel.Props.C15Parse", "PqlModel.Props.C16Semantics", "PqlModel.Props.C09Dispatch", "PqlModel.Props.C15SplitIR", "PqlModel.Props.C07OperatorIRParse", "PqlModel.Props.IRHeadlinesD", "PqlModel.Props.C09ScanIR"],
        "facts": ["keywords", "lexSplitIR", "parseIR", "lexScanIR"],
        "rule": "SPLIT: same sources as C09 (exhaustive short strings over the scanner alphabet, which contains ';', all "
                "three quote characters, backslash, newline and the comment opener, plus random fragment concatenations); "
                "non-trivial = distinct source that splits into at least two pieces or contains a semicolon that does not split",
    },
    "C07": {
        "case_sets": ["parse"],
        "ops": ["PARSE", "PARSEV"],
        "oracle_clauses": [r"c07-.*", r"c08-unaccounted", r"c15-statement-count", r"unreadable-.*"],
        "lean_targets": ["PqlModel.Props.C07", "PqlModel.Props.C07Full", "PqlModel.Props.C07Layout", "PqlModel.Props.C07Keywords", "PqlModel.Props.C07Defaults", "PqlModel.Props.C07OperatorIRTreesA", "PqlModel.Props.C07OperatorIRTreesB", "PqlModel.Props.C07OperatorIR", "PqlModel.Props.C07OperatorIRSort", "PqlModel.Props.C07OperatorIRExtend", "PqlModel.Props.C07OperatorIRProject", "PqlModel.Props.C07OperatorIRLet", "PqlModel.Props.C07OperatorIRTabular", "PqlModel.Props.C07OperatorIRSummarize", "PqlModel.Props.C07OperatorIRRender", "PqlModel.Props.C07OperatorIRJoin", "PqlModel.Props.C07OperatorIRParse", "PqlModel.Props.C07ExprIR", "PqlModel.Props.C07ParserIR", "PqlModel.Props.C07OperatorIRTerm", "PqlModel.Props.C08ErrIRUnits", "PqlModel.Props.C08ErrIRAlgebra", "PqlModel.Props.C08ErrIRShape", "PqlModel.Props.C08ErrIR", "PqlModel.Props.IRHeadlinesC"],
        "facts": ["precedence", "keywords", "joinTypes", "operatorKeywords", "sortTermInit", "sortTermFirst", "sortTermNullsKeyword", "sortTermNulls", "rowCountCheck", "joinInit", "joinKindKeyword", "joinKindSets", "joinUnknownFlavorContinues", "parseIR", "exprParseIR", "exprParseParams", "exprParseResults", "errIR", "errTypes", "errSites"],
        "rule": "PARSEV: programs generated from the grammar (every operator, every expression form incl. the `in` rule, "
                "nested joins, lets, render; random layout, comments, keyword synonyms, redundant and required parentheses); "
                "PARSE: hand-written corpus, token- and byte-level corruptions, token soups, pathological nesting. "
                "non-trivial = distinct source that parses successfully (so the grouping oracle ran on a tree)",
    },
    "C08": {
        "case_sets": ["parse"],
        "ops": ["PARSE", "PARSEV"],
        "oracle_clauses": [r"c08-.*", r"unreadable-.*"],
        "lean_targets": ["PqlModel.Props.C08", "PqlModel.Props.C08Full", "PqlModel.Props.C08Reject", "PqlModel.Props.C08RejectCx", "PqlModel.Props.C07OperatorIRTreesA", "PqlModel.Props.C07OperatorIRTreesB", "PqlModel.Props.C07OperatorIR", "PqlModel.Props.C07OperatorIRSort", "PqlModel.Props.C07OperatorIRExtend", "PqlModel.Props.C07OperatorIRProject", "PqlModel.Props.C07OperatorIRLet", "PqlModel.Props.C07OperatorIRTabular", "PqlModel.Props.C07OperatorIRSummarize", "PqlModel.Props.C07OperatorIRRender", "PqlModel.Props.C07OperatorIRJoin", "PqlModel.Props.C07OperatorIRParse", "PqlModel.Props.C07ExprIR", "PqlModel.Props.C08ErrIRUnits", "PqlModel.Props.C08ErrIRAlgebra", "PqlModel.Props.C08ErrIRShape", "PqlModel.Props.C08ErrIR", "PqlModel.Props.IRHeadlinesC"],
        "facts": ["parseIR", "exprParseIR", "exprParseParams", "exprParseResults", "errIR", "errTypes", "errSites"],
        "rule": "same sources as C07; the oracle re-prints the implementation's tree and compares it with the reference "
                "tokenizer's tokens of the source; non-trivial = distinct corrupted or generated source, accepted or rejected",
    },
    "C10": {
        "case_sets": ["parse"],
        "ops": ["PARSE", "PARSEV", "LINECOL"],
        "oracle_clauses": [r"c10-.*", r"unreadable-.*"],
        "lean_targets": ["PqlModel.Props.C10", "PqlModel.Props.C08Full", "PqlModel.Props.C10Linecol", "PqlModel.Props.C10Failed", "PqlModel.Props.C10Extent", "PqlModel.Props.C10Compile", "PqlModel.Props.C10SpanIR", "PqlModel.Props.C10SpanIRNodes", "PqlModel.Props.C10LinecolIR", "PqlModel.Props.C07OperatorIRTreesA", "PqlModel.Props.C07OperatorIRTreesB", "PqlModel.Props.C07OperatorIR", "PqlModel.Props.C07OperatorIRSort", "PqlModel.Props.C07OperatorIRExtend", "PqlModel.Props.C07OperatorIRProject", "PqlModel.Props.C07OperatorIRLet", "PqlModel.Props.C07OperatorIRTabular", "PqlModel.Props.C07OperatorIRSummarize", "PqlModel.Props.C07OperatorIRRender", "PqlModel.Props.C07OperatorIRJoin", "PqlModel.Props.C07OperatorIRParse", "PqlModel.Props.C08ErrIRUnits", "PqlModel.Props.C08ErrIRAlgebra", "PqlModel.Props.C08ErrIRShape", "PqlModel.Props.C08ErrIR", "PqlModel.Props.IRHeadlinesD"],
        "facts": ["structFields", "spanUnion", "astIR", "astSpanReturns", "linecolIR", "parseIR", "errIR", "errTypes", "errSites"],
        "rule": "same sources as C07 in multi-line / tab / comment / non-ASCII layouts; every span field and every Span() "
                "result of every node (reflection) is compared with the model and checked against the token positions; "
                "failed parses: every reported span must be invalid-marked or inside the source",
    },
    "C11": {
        "case_sets": ["walk"],
        "ops": ["WALK"],
        "oracle_clauses": [r"c11-.*", r"unreadable-.*"],
        "lean_targets": ["PqlModel.Props.C11", "PqlModel.Props.C11b", "PqlModel.Props.C11Compile", "PqlModel.Props.C11WalkIRPushes", "PqlModel.Props.C11WalkIR", "PqlModel.Props.IRHeadlinesD"],
        "facts": ["structFields", "walkCases", "walkLoops", "walkDefaultPanics", "astIR", "astWalkCases", "astWalkLoops"],
        "rule": "WALK: grammar-generated programs (every node type in every child position) walked with a visitor that "
                "always returns true and with pseudo-random pruning masks; non-trivial = distinct (source, mask) that parses",
    },
    "C12": {
        "case_sets": ["parse", "compile", "walk", "lex", "weirdparams"],
        "ops": ["PARSE", "PARSEV", "SCAN", "SPLIT", "WALK", "COMPILE", "COMPILESEQ"],
        "oracle_clauses": [r"c12-.*"],
        "lean_targets": ["PqlModel.Props.C12", "PqlModel.Props.C12Fuel", "PqlModel.Props.C13Exact", "PqlModel.Props.C10SpanIR", "PqlModel.Props.C11WalkIR", "PqlModel.Props.C12NoPanicIR", "PqlModel.Props.IRHeadlines", "PqlModel.Props.C09ScanIR"],
        "facts": ["astIR", "parseIR", "lexNumberIR", "lexSplitIR", "linecolIR", "exprIR", "writeIR", "splitIR", "joinCondIR", "cliIR", "lexScanIR"],
        "rule": "every case of the lexer, parser and walk sets runs under recover and a watchdog (5 s in the parallel pool, then 10 s alone before HANG is reported), including pathological "
                "nesting of brackets, calls, indexes, signs, joins and error cascades up to a few KiB; non-trivial = distinct input",
        "assumptions": ["wall-clock time and stack exhaustion belong to the Go runtime: measured by the watchdog, not proved"],
    },
    "C01": {
        "case_sets": ["compile"],
        "ops": ["COMPILE"],
        "oracle_clauses": [r"c01-.*", r"c05-lex", r"c05-parse", r"c05-brackets", r"c12-.*", r"unreadable-.*"],
        "lean_targets": ["PqlModel.Props.C01", "PqlModel.Props.C01LexRender", "PqlModel.Props.C01Sem", "PqlModel.Props.C01Syntactic", "PqlModel.Props.C06Operand", "PqlModel.Props.C05ParseStatement", "PqlModel.Props.C01Templates", "PqlModel.Props.C02EndToEnd", "PqlModel.Props.C05Parsed", "PqlModel.Props.C02EndToEndSource", "PqlModel.Props.C05NoPlaceholder", "PqlModel.Props.C01WriteExprIR", "PqlModel.Props.C01WriteExprIRCases", "PqlModel.Props.C01WriteExprIRAll", "PqlModel.Props.C07ExprIR", "PqlModel.Props.IRHeadlinesA"],
        "facts": ["binaryOps", "builtinIdentifiers", "knownFunctions", "writerArityGuard", "writeTemplates", "maybeParenBare", "precedence", "exprIR", "exprFns", "exprParseIR", "exprParseParams", "exprParseResults"],
        "rule": "COMPILE: hand-written corpus of expression shapes (parentheses, signs, index, in, every built-in as operand of "
                "every operator class) + grammar-generated programs with expressions in every position; the oracle re-reads "
                "the emitted SQL with the independent SQL reader and compares WHERE expressions with the intended translation; "
                "non-trivial = distinct source that compiles",
    },
    "C04": {
        "case_sets": ["content"],
        "ops": ["COMPILE", "COMPILE2", "QUOTE"],
        "oracle_clauses": [r"c04-.*", r"c05-lex", r"unreadable-.*"],
        "lean_targets": ["PqlModel.Props.C04", "PqlModel.Props.C05LexStatement", "PqlModel.Props.C04Shape", "PqlModel.Props.C04ShapeQuery", "PqlModel.Props.C04ShapeCx", "PqlModel.Props.C04Numbers", "PqlModel.Props.C09NumberIR", "PqlModel.Props.IRHeadlinesB"],
        "facts": ["litAccessIR", "lexNumberIR"],
        "rule": "QUOTE: both quoting functions on every string over a 13-symbol adversarial alphabet up to length 3 (quick) / 4 "
                "(thorough) and random longer ones; COMPILE2: generated programs compiled twice with the contents of all string "
                "literals, quoted names and numbers replaced by adversarial contents — token shapes must coincide; "
                "non-trivial = distinct case",
    },
    "C05": {
        "case_sets": ["compile", "content"],
        "ops": ["COMPILE", "COMPILESEQ"],
        "oracle_clauses": [r"c05-.*", r"c01-keyword-function-name", r"unreadable-.*"],
        "lean_targets": ["PqlModel.Props.C05", "PqlModel.Props.C02Split", "PqlModel.Props.C05SplitRefines", "PqlModel.Props.C05LexStatement", "PqlModel.Props.C02Semantics", "PqlModel.Props.C02Statement", "PqlModel.Props.C05ParseStatement", "PqlModel.Props.C02EndToEnd", "PqlModel.Props.C05Parsed", "PqlModel.Props.C02EndToEndSource", "PqlModel.Props.C05WriteIR", "PqlModel.Props.C05WriteIROps", "PqlModel.Props.C05WriteIRAll", "PqlModel.Props.C05WriteIRStmt", "PqlModel.Props.C02SplitImperative", "PqlModel.Props.C05NoPlaceholder", "PqlModel.Props.C05NoPlaceholderCli", "PqlModel.Props.C02SplitIR", "PqlModel.Props.IRHeadlinesB"],
        "facts": ["writeIR", "writeSwitches", "splitIR", "splitLoop", "splitCases", "splitParams"],
        "rule": "COMPILE on generated, corrupted-but-accepted and adversarial-content programs; the output must lex, end in one ';', "
                "balance brackets, parse as [WITH …] select, read only source tables or earlier CTEs, have unique generated names, "
                "no unused CTE and no comment/placeholder; non-trivial = distinct source that compiles",
    },
    "C06": {
        "case_sets": ["compile"],
        "ops": ["COMPILE", "COMPILESEQ"],
        "oracle_clauses": [r"c06-.*", r"unreadable-.*"],
        "lean_targets": ["PqlModel.Props.C06", "PqlModel.Props.C06Subst", "PqlModel.Props.C14Order", "PqlModel.Props.C06Operand", "PqlModel.Props.C02EndToEndSource", "PqlModel.Props.C06Params", "PqlModel.Props.C06ParamsAtomic", "PqlModel.Props.C06ParamsExamples", "PqlModel.Props.C06Placeholders", "PqlModel.Props.C02ProgramNames", "PqlModel.Props.C06CompileIR", "PqlModel.Props.IRHeadlinesB"],
        "facts": ["builtinIdentifiers", "exprIR", "exprFns", "writeIR"],
        "rule": "COMPILE with parameter maps (names colliding with columns, constants, let names) and let chains (shadowing, "
                "redefinition, lets after the query, uses under signs, before [, in in-lists, join conditions, row counts); the "
                "output is read and compared with the reference reading of the program with all lets substituted; "
                "non-trivial = distinct (source, parameters) with at least one let or parameter",
    },
    "C13": {
        "case_sets": ["compile"],
        "ops": ["COMPILE", "COMPILESEQ"],
        "oracle_clauses": [r"c13-.*", r"unreadable-.*"],
        "lean_targets": ["PqlModel.Props.C13", "PqlModel.Props.C13Exact", "PqlModel.Props.C13Arity", "PqlModel.Props.C01WriteExprIRAll", "PqlModel.Props.C06CompileIR", "PqlModel.Props.C07OperatorIRTreesA", "PqlModel.Props.C07OperatorIRTreesB", "PqlModel.Props.C07OperatorIR", "PqlModel.Props.C07OperatorIRSort", "PqlModel.Props.C07OperatorIRExtend", "PqlModel.Props.C07OperatorIRProject", "PqlModel.Props.C07OperatorIRLet", "PqlModel.Props.C07OperatorIRTabular", "PqlModel.Props.C07OperatorIRSummarize", "PqlModel.Props.C07OperatorIRRender", "PqlModel.Props.C07OperatorIRJoin", "PqlModel.Props.C07OperatorIRParse", "PqlModel.Props.IRHeadlinesC"],
        "facts": ["writerArityGuard", "knownFunctions", "joinTypes", "exprIR", "parseIR"],
        "rule": "COMPILE on generated programs, the same with a token corrupted, and a corpus of every documented misuse; the oracle "
                "evaluates the Misuse predicate on the parsed program and requires error iff (parse error or misuse); "
                "non-trivial = distinct (source, parameters)",
    },
    "C14": {
        "case_sets": ["hist", "compile"],
        "ops": ["HIST", "FIRSTUSE", "COMPILESEQ"],
        "race": True,
        "oracle_clauses": [r"c14-.*", r"unreadable-.*"],
        "lean_targets": ["PqlModel.Props.C14", "PqlModel.Props.C14Order", "PqlModel.Props.C06Params", "PqlModel.Props.IRHeadlines"],
        "facts": ["pkgVars", "pkgVarWrites", "parameterMapWrites"],
        "rule": "HIST: one (source, parameters) pair compiled k times from each of 2-64 goroutines, interleaved with Parse/Scan "
                "of the same source and Compile of other sources, in a race-detector build; every result must equal the model's "
                "function value and the caller's map must be unchanged. FIRSTUSE: a fresh process whose first library calls are "
                "2-32 simultaneous Compile calls. non-trivial = distinct history",
        "assumptions": ["real schedules, the Go memory model and the race detector are runtime: the -race runs are supporting evidence, "
                        "the theorem covers the abstract sync.Once protocol and the write-site facts"],
    },
    "C16": {
        "case_sets": ["cli"],
        "ops": ["CLI"],
        "oracle_clauses": [r"c16-.*", r"unreadable-.*"],
        "lean_targets": ["PqlModel.Props.C16a", "PqlModel.Props.C16", "PqlModel.Props.C16IO", "PqlModel.Props.C16Semantics", "PqlModel.Props.C05NoPlaceholderCli", "PqlModel.Props.C16RunIR", "PqlModel.Props.C16IOIRTrees", "PqlModel.Props.C16IOIR", "PqlModel.Props.C16IOIRMake", "PqlModel.Props.IRHeadlines", "PqlModel.Props.IRHeadlinesIO", "PqlModel.Props.C16StreamIR", "PqlModel.Props.C16MainIR"],
        "facts": ["cliIR", "cliRunParams", "cliIOIR", "cliMainIR", "cliMainCommand", "cliMainFlags"],
        "rule": "CLI: the built cmd/pql binary on scripts (sequences of let / query / invalid statements, several per line, across "
                "lines, comments, blank lines, CRLF, final statement terminated or not, lines around the 64 KiB limit) via stdin, "
                "one file, several files (statements spanning file boundaries) and -o; stdout, exit status and error count are "
                "compared with the loop model and with the whole-input specification; non-trivial = distinct (script, mode)",
        "assumptions": ["bufio, file opening, partial writes and terminal detection are OS plumbing: modelled as in Model/Cli.lean"],
    },
    "C02": {
        "case_sets": ["eval"],
        "ops": ["EVAL"],
        "oracle_clauses": [r"c02-.*", r"c05-parse", r"c05-name-capture", r"unreadable-.*"],
        "lean_targets": ["PqlModel.Props.C02", "PqlModel.Props.C02Split", "PqlModel.Props.C05SplitRefines", "PqlModel.Props.C02Semantics", "PqlModel.Props.C02Statement", "PqlModel.Props.C02SemanticsCex", "PqlModel.Props.C05ParseStatement", "PqlModel.Props.C03Full", "PqlModel.Props.C02EndToEnd", "PqlModel.Props.C05Parsed", "PqlModel.Props.C02EndToEndSource", "PqlModel.Props.C05WriteIR", "PqlModel.Props.C05WriteIROps", "PqlModel.Props.C05WriteIRAll", "PqlModel.Props.C05WriteIRStmt", "PqlModel.Props.C07Defaults", "PqlModel.Props.C02SplitImperative", "PqlModel.Props.C06Placeholders", "PqlModel.Props.C02ProgramNames", "PqlModel.Props.C02SplitIR", "PqlModel.Props.C03JoinCondIR", "PqlModel.Props.C07OperatorIRTerm", "PqlModel.Props.IRHeadlinesA"],
        "facts": ["canAttachSortFalse", "writeIR", "writeSwitches", "sortTermInit", "sortTermFirst", "sortTermNullsKeyword", "sortTermNulls", "rowCountCheck", "splitIR", "splitLoop", "splitCases", "splitParams", "joinCondIR", "parseIR"],
        "rule": "EVAL: every sequence of up to 3 (quick) / 4 (thorough) of the eleven operators with fixed small arguments, a corpus of "
                "order-sensitive pipelines and random generated pipelines over tables T U V; the emitted SQL is evaluated by the "
                "reference SQL evaluator and compared (as lists: columns, names, rows, order) with the left-to-right pipeline "
                "interpreter on 4 small databases per case (duplicates, ties, NULLs, empty tables); non-trivial = distinct pipeline that compiles",
        "assumptions": ["derived tables keep their order unless re-sorted (engine convention shared by both evaluators)",
                        "aggregates other than count/sum/min/max and unknown functions are uninterpreted (symbolic terms)"],
    },
    "C03": {
        "case_sets": ["eval"],
        "ops": ["EVAL"],
        "line_regex": r"6a6f696e",      # only pipelines that contain a join
        "oracle_clauses": [r"c03-.*", r"c05-parse", r"c05-name-capture", r"unreadable-.*", r"c06-let-named-join-alias"],
        "lean_targets": ["PqlModel.Props.C03", "PqlModel.Props.C02Split", "PqlModel.Props.C05SplitRefines", "PqlModel.Props.C03Semantics", "PqlModel.Props.C03Chain", "PqlModel.Props.C03ChainTake", "PqlModel.Props.C05ParseStatement", "PqlModel.Props.C03Full", "PqlModel.Props.C02EndToEnd", "PqlModel.Props.C05Parsed", "PqlModel.Props.C11Compile", "PqlModel.Props.C02EndToEndSource", "PqlModel.Props.C02SplitImperative", "PqlModel.Props.C02ProgramNames", "PqlModel.Props.C02SplitIR", "PqlModel.Props.C03JoinCondIR", "PqlModel.Props.IRHeadlinesA"],
        "facts": ["joinTypes", "leftJoinTableAlias", "rightJoinTableAlias", "splitIR", "splitLoop", "splitCases", "splitParams", "joinCondIR"],
        "rule": "EVAL on pipelines with joins: all three kinds, bare / explicit / mixed conditions, operators before the join, "
                "multi-operator right sides, nested and sequential joins (depth <= 2 random, corpus of shapes); evaluated as for C02; "
                "non-trivial = distinct pipeline with at least one join that compiles",
        "assumptions": ["as C02; equalities between the two sides are plain '=' in ON (ClickHouse restriction), compared under is-TRUE"],
    },
}


def nontrivial(op, lhs, impl):
    head = impl.split(" ", 1)[0]
    if op == "SCAN":
        return (head.isdigit() and int(head) >= 2) or "TokenError" in impl
    if op == "SPLIT":
        return (head.isdigit() and int(head) >= 2) or "3b" in lhs
    if op == "EVAL":
        return head == "OK"
    if op == "COMPILESEQ":
        return True
    if op in ("COMPILE", "COMPILE2"):
        return head == "OK" or op == "COMPILE2"
    if op == "QUOTE":
        return True
    if op in ("PARSE", "PARSEV"):
        return True
    if op == "WALK":
        return head != "NOPARSE"
    return head not in ("ERR", "PANIC", "HANG", "SKIPPED")
