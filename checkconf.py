"""Per-property configuration of ./check (case sets, Lean targets, oracle clauses)."""
import re

TRUSTED_BASE = [
    "Lean 4.33 kernel (thorough tier re-checks the compiled modules with leanchecker)",
    "axioms allowed in property theorems: propext, Classical.choice, Quot.sound; no sorry/admit/native_decide/bv_decide/own axioms (grep + #print axioms on every run)",
    "hand-written Lean model of the Go control flow, tied to /repo by the correspondence run of this check (bounded, generator quality bounds what it sees)",
    "facts extractor harness/extract.go (go/ast) regenerating Generated/Facts.lean from /repo on every run",
    "Go toolchain, strconv, unicode, bufio, sync.Once",
]

PROPS = {
    "C09": {
        "case_sets": ["lex"],
        "ops": ["SCAN", "RESCAN", "NUM"],
        "lean_targets": ["PqlModel.Props.C09"],
        "facts": ["keywords", "isAlphaRanges", "isDigitRanges", "isHexDigitRanges", "tokenKinds"],
        "rule": "SCAN: every string over the 25-symbol scanner alphabet up to length 3 (quick) / 4 (thorough), "
                "plus random concatenations of lexeme fragments and raw bytes; non-trivial = distinct source "
                "with at least two tokens or an error token. RESCAN/NUM: every token text met on the way.",
        "assumptions": ["Float64() relies on strconv.ParseFloat: differentially tested against exact rational rounding in the harness, not proved"],
    },
    "C15": {
        "case_sets": ["lex"],
        "ops": ["SPLIT"],
        "lean_targets": ["PqlModel.Props.C15"],
        "facts": ["keywords"],
        "rule": "SPLIT: same sources as C09 (exhaustive short strings over the scanner alphabet, which contains ';', all "
                "three quote characters, backslash, newline and the comment opener, plus random fragment concatenations); "
                "non-trivial = distinct source that splits into at least two pieces or contains a semicolon that does not split",
    },
}


def nontrivial(op, lhs, impl):
    head = impl.split(" ", 1)[0]
    if op == "SCAN":
        return (head.isdigit() and int(head) >= 2) or "TokenError" in impl
    if op == "SPLIT":
        return (head.isdigit() and int(head) >= 2) or "3b" in lhs
    return head not in ("ERR", "PANIC", "HANG", "SKIPPED")
