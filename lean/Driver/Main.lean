/-
Line-protocol driver.  Reads `OP field… | impl-result` lines on stdin; for each line
prints one verdict line:

  ok                          model result = implementation result, all oracles pass
  DIFF <model result>         correspondence broken at this case
  ORACLE <clause> <detail>    spec oracle rejects the implementation's own output

(both DIFF and ORACLE parts may appear on one line, separated by " ;; ").
Imports model and spec only — no proof modules, no Mathlib — so that it links.
-/
import PqlModel.Spec.ExpandAs
import PqlModel.Model.Lex
import PqlModel.Model.Parse
import PqlModel.Model.Walk
import PqlModel.Model.Compile
import PqlModel.Spec.LexOracle
import PqlModel.Spec.ParseOracle
import PqlModel.Spec.WalkOracle
import PqlModel.Spec.CompileOracle
import PqlModel.Spec.Intended
import PqlModel.Spec.CliSpec
import PqlModel.Spec.Rel
import Driver.Proto
open Pql

def fmtTokens (ts : List Token) : String :=
  ts.foldl (fun acc t =>
    acc ++ " " ++ t.kind.goName ++ " " ++ toString t.start ++ " " ++ toString t.stop ++ " " ++
      (if t.kind == .error then "-" else Bytes.toHexField t.value))
    (toString ts.length)

def fmtPieces (ps : List Bytes) : String :=
  ps.foldl (fun acc p => acc ++ " " ++ Bytes.toHexField p) (toString ps.length)

def fmtErr (e : PErr) : String :=
  if e.fuel then "FUEL" else
  match e.span with
  | some sp => toString sp.start ++ " " ++ toString sp.stop ++ " t " ++ dumpBool e.notFound
  | none => "-1 -1 f " ++ dumpBool e.notFound

def fmtParse (r : List Stmt × Errs) : String :=
  let head := if r.2.isEmpty then "OK 0"
    else r.2.foldl (fun acc e => acc ++ " " ++ fmtErr e) ("ERR " ++ toString r.2.length)
  r.1.foldl (fun acc s => acc ++ " ;; " ++ s.dump) head

def fmtEvent : WalkEvent → String
  | .visit ty sp => ty ++ ":" ++ toString sp.start ++ ":" ++ toString sp.stop
  | .visitNil => "NIL"
  | .panic => "PANIC"

def maskDecide (mask : String) : Nat → Bool :=
  let bits := mask.toList.map (· == '1')
  fun i => if bits.isEmpty then true else bits.getD (i % bits.length) true

def fmtWalk (src : Bytes) (mask : String) : String :=
  let r := parse src
  if !r.2.isEmpty then "NOPARSE"
  else
    let traces := r.1.map fun st => " ".intercalate ((walk (maskDecide mask) (Node.ofStmt st)).map fmtEvent)
    toString r.1.length ++ (if traces.isEmpty then "" else " ;; " ++ " ;; ".intercalate traces)

/-- "khex:vhex,…", "-" (nil options) or "=" (empty map) -/
def parseParams (f : String) : Option (List (Bytes × Bytes)) :=
  if f == "-" || f == "=" || f == "0" then some []
  else (f.splitOn ",").mapM fun kv =>
    match kv.splitOn ":" with
    | [k, v] => do
      let k ← Bytes.ofHex k
      let v ← Bytes.ofHex v
      pure (k, v)
    | _ => none

def fmtCompile : CompileResult → String
  | .ok sql => "OK " ++ Bytes.toHexField sql
  | .error => "ERR"
  | .panic => "PANIC"

/-- the implementation's compile result with positions and panic text dropped -/
def normCompile (impl : String) : String :=
  if impl.startsWith "ERR" then "ERR" else if impl.startsWith "PANIC" then "PANIC" else impl

def fmtCli (r : CliResult) : String :=
  "EXIT " ++ (if r.exitNonZero then "1" else "0") ++ " NERR " ++ toString r.nErrors ++ " OUT " ++ Bytes.toHexField r.out

def modelCompileOpt (src : Bytes) : Option Bytes :=
  match compile [] src with
  | .ok sql => some sql
  | _ => none

/-- drop the position of a compile error at the head of a result ("ERR 3 5 …" ↦ "ERR …") -/
def normHead (impl : String) : String :=
  match impl.splitOn " " with
  | "ERR" :: a :: b :: rest => if a.toInt?.isSome && b.toInt?.isSome then " ".intercalate ("ERR" :: rest) else impl
  | _ => impl

def histOracle (impl : String) : List String :=
  (if (impl.splitOn " ").contains "NONDET" then ["c14-result-depends-on-history"] else []) ++
  (if (impl.splitOn " ").contains "PS-NONDET" then ["c14-parse-or-scan-nondeterministic"] else []) ++
  (if (impl.splitOn " ").contains "PARAMS-CHANGED" then ["c14-parameter-map-modified"] else []) ++
  (if (impl.splitOn " ").contains "RACE" then ["c14-data-race"] else []) ++
  (if (impl.splitOn " ").contains "PANIC" then ["c12-panic"] else [])

def showTable (t : Sql.Table) : String :=
  "cols=" ++ toString (t.cols.map Bytes.toStringLossy) ++ " rows=" ++
    toString (t.rows.map fun r => r.map fun v => Bytes.toStringLossy (Sql.showVal v))

mutual
def tabularHasJoin : Tabular → Bool
  | .nil => false
  | .mk _ ops => opsHaveJoin ops
def opsHaveJoin : OpList → Bool
  | .nil => false
  | .cons (.join ..) _ => true
  | .cons _ os => opsHaveJoin os
end

/-- the pipeline interpreter on the program with sources that name an earlier `as` result expanded
    (`Spec/ExpandAs.lean`) -/
def interpProgramX (src : Bytes) (db : Sql.DB) (stmts : List Stmt) : Option Sql.Table :=
  let named := stmts.map fun | .tabular t => Stmt.tabular (Rel.nameTabular src t) | s => s
  (CompileOracle.resolveLets named []).map fun t => Rel.interp src db (ExpandAs.expand t)

/-- C02 / C03: evaluate the emitted SQL and the pipeline on small databases -/
def evalOracle (src : Bytes) (seed : Nat) (impl : String) : List String :=
  match impl.splitOn " " with
  | ["OK", h] =>
    match Bytes.ofHex h with
    | none => ["unreadable-result"]
    | some sql =>
      let parsed := parse src
      if !parsed.2.isEmpty then [] else
      match CompileOracle.readSqlAny sql with
      | none => ["c05-parse"]
      | some st =>
        let isJoin := parsed.1.any fun | .tabular t => tabularHasJoin t | _ => false
        -- known finding K5: a let named like a join alias is resolved by the writer but still
        -- counted as "mentions that side" when the join-mode plain equality is chosen
        let letNamedAlias := parsed.1.any fun
          | .let_ _ (some n) _ _ => n.name == leftAlias || n.name == rightAlias
          | _ => false
        let tag := if ExpandAs.nameCapture parsed.1 then "c05-name-capture"
          else if letNamedAlias && isJoin then "c06-let-named-join-alias" else if isJoin then "c03" else "c02"
        let bad := (List.range 4).filterMap fun i =>
          let db := Rel.mkDB (seed + 1000 * i)
          match interpProgramX src db parsed.1 with
          | none => none
          | some want =>
            let got := Sql.evalStatement db st
            if got == want then none else some (i, want, got)
        match bad with
        | [] => []
        | (i, want, got) :: _ =>
          [(if tag == "c05-name-capture" || tag == "c06-let-named-join-alias" then tag else tag ++ "-result-differs") ++ " db=" ++ toString (seed + 1000 * i) ++ " pipeline:" ++ (showTable want).replace " " "_" ++
            " sql:" ++ (showTable got).replace " " "_"]
  | _ => []

structure Verdict where
  model : String
  oracle : List String := []

def fmtSplitX (src : Bytes) : String :=
  let pieces := splitStatements src
  " ;; ".intercalate (fmtPieces pieces :: fmtTokens (scan src) :: pieces.map (fun p => fmtTokens (scan p)))

def runOp (op : String) (fields : List String) (impl : String) : Option Verdict :=
  match op, fields with
  | "SCAN", [h] => do
    let s ← Bytes.ofHex h
    let oracle := match Proto.parseTokens impl with
      | some ts => LexOracle.scanClauses s ts
      | none => ["unparseable-result"]
    pure { model := fmtTokens (scan s), oracle }
  | "SPLIT", [h] => do
    -- result: pieces ;; tokens(whole) ;; tokens(piece 1) ;; …
    let s ← Bytes.ofHex h
    let oracle := match impl.splitOn " ;; " with
      | ps :: whole :: per =>
        match Proto.parsePieces ps, Proto.parseTokens whole, per.mapM Proto.parseTokens with
        | some ps, some whole, some per => LexOracle.splitClauses s ps whole per
        | _, _, _ => ["unparseable-result"]
      | _ => ["unparseable-result"]
    pure { model := fmtSplitX s, oracle }
  | "PARSE", [h] => do
    let s ← Bytes.ofHex h
    pure { model := fmtParse (parse s), oracle := ParseOracle.clauses s impl false }
  | "PIECES", [h] => do
    -- Parse of the whole source next to Parse of every piece of SplitStatements:
    -- `kinds e|o` for the whole, then for every piece (L let, T tabular, - none)
    let s ← Bytes.ofHex h
    let kinds (r : List Stmt × Errs) : String :=
      let k := String.join (r.1.map fun | .let_ .. => "L" | .tabular _ => "T")
      (if k.isEmpty then "-" else k) ++ (if r.2.isEmpty then " o" else " e")
    let model := " ;; ".intercalate (kinds (parse s) :: (splitStatements s).map fun p => kinds (parse p))
    -- oracle on the implementation's own answers (C15): statements of the whole = statements of
    -- the pieces in order; an error in the whole iff in some piece; pieces yield at most one
    let oracle : List String :=
      match (impl.splitOn " ;; ").map (fun x => x.splitOn " ") with
      | [w, we] :: ps =>
        if !(ps.all fun p => p.length == 2) then ["unparseable-result"] else
        let pk := String.join (ps.map fun p => if p.headD "" == "-" then "" else p.headD "")
        let wk := if w == "-" then "" else w
        (if wk != pk then ["c15-parse-disagrees-with-pieces"] else []) ++
        (if (we == "e") != (ps.any fun p => p.getD 1 "" == "e") then ["c15-error-disagrees-with-pieces"] else []) ++
        (if ps.any (fun p => (p.headD "").length > 1) then ["c15-piece-yields-several-statements"] else [])
      | _ => ["unparseable-result"]
    pure { model, oracle }
  | "WALK", [h, mask] => do
    let s ← Bytes.ofHex h
    -- oracle (unpruned walks only): the implementation's trace against the nodes of the tree
    let oracle : List String :=
      if impl == "HANG" then ["c12-hang"]
      else if impl.startsWith "PANIC" then ["c12-panic"]
      else if mask != "-" then
        let r := parse s
        match impl.splitOn " ;; " with
        | _ :: traces =>
          if traces.length != r.1.length then []
          else (r.1.zip traces).flatMap fun (st, tr) =>
            WalkOracle.prunedClauses st.dump tr mask ++ (if (tr.splitOn " ").contains "PANIC" then ["c12-panic"] else [])
        | [] => []
      else if impl == "HANG" then ["c12-hang"]
      else if impl.startsWith "PANIC" then ["c12-panic"]
      else
        let r := parse s
        match impl.splitOn " ;; " with
        | _ :: traces =>
          if traces.length != r.1.length then []
          else (r.1.zip traces).flatMap fun (st, tr) =>
            WalkOracle.clauses st.dump tr ++ (if (tr.splitOn " ").contains "PANIC" then ["c12-panic"] else [])
        | [] => []
    pure { model := fmtWalk s (if mask == "-" then "" else mask), oracle }
  | "COMPILE", [h, ps] => do
    let s ← Bytes.ofHex h
    let params ← parseParams ps
    let m := fmtCompile (compile params s)
    -- the model's text is compared with the normalised implementation result
    pure { model := if m == normCompile impl then impl else m, oracle := CompileOracle.clauses s params impl ++ Intended.intendedClauses s params impl }
  | "EVAL", [h, seed] => do
    let s ← Bytes.ofHex h
    let sd ← seed.toNat?
    let m := fmtCompile (compile [] s)
    pure { model := if m == normCompile impl then impl else m, oracle := evalOracle s sd impl }
  | "COMPILESEQ", [ha, hb, ps] => do
    let a ← Bytes.ofHex ha
    let b ← Bytes.ofHex hb
    let params ← parseParams ps
    let ma := fmtCompile (compile params a)
    let mb := fmtCompile (compile params b)
    -- the position an error message may name: of a compile error, the line and column of ITS OWN span in THIS
    -- source; of a parse error, those of the first positioned error the model's Parse reports for this source
    let posOk (src : Bytes) (i : String) (pos : String) : Bool :=
      let fmtLC (p : Nat × Nat) : String := toString p.1 ++ ":" ++ toString p.2
      match i.splitOn " " with
      -- a message that names no position in the `line:column: ` form cannot be judged here
      | ["ERR", sa, _] => pos == "-" || (match sa.toNat? with | some st => pos == fmtLC (linecol src st) | none => true)
      | ["ERR"] =>
        pos == "-" ||
        (match (parse src).2.filterMap (·.span) with
         | sp :: _ => pos == fmtLC (linecol src sp.start.toNat)
         | [] => true)
      | _ => pos == "-"
    match impl.splitOn " ;; " with
    | [ia, ib, st, ps, al] =>
      let posClauses : List String :=
        match ps.splitOn " " with
        | ["POS", pa, pb] =>
          (if posOk a ia pa then [] else ["c14-error-position-not-of-this-source"]) ++
          (if posOk b ib pb then [] else ["c14-error-position-not-of-this-source", "c14-result-depends-on-history"])
        | _ => ["unreadable-result"]
      -- each call is the function value for its own (source, parameters): no history
      -- the second call of the sequence against the SAME program compiled on its own by the implementation: a
      -- let of the first program visible in the second, or any other dependence on history, shows as a difference
      -- between these two answers (a difference from the MODEL would only say that the compiler changed)
      let alone := (al.splitOn " ").drop 1 |> " ".intercalate
      pure { model := (if ma == normCompile ia then ia else ma) ++ " ;; " ++ (if mb == normCompile ib then ib else mb) ++ " ;; PARAMS-OK ;; " ++ ps ++ " ;; " ++ al,
             oracle := posClauses ++ (if st != "PARAMS-OK" then ["c14-parameter-map-modified", "c06-let-escapes-its-program"] else []) ++
                       (if ib != alone then ["c06-let-escapes-its-program", "c14-result-depends-on-history"] else []) ++
                       -- C13 / C05 on each call of the sequence: fails exactly on parse error or misuse, whatever was compiled before
                       ((CompileOracle.clauses a params ia ++ CompileOracle.clauses b params ib).filter
                          fun c => c.startsWith "c13-" || c.startsWith "c05-") }
    | _ => pure { model := ma ++ " ;; " ++ mb ++ " ;; PARAMS-OK ;; POS - - ;; ALONE " ++ mb, oracle := ["unreadable-result"] }
  | "COMPILE2", [ha, hb, ps] => do
    let a ← Bytes.ofHex ha
    let b ← Bytes.ofHex hb
    let params ← parseParams ps
    let ma := fmtCompile (compile params a)
    let mb := fmtCompile (compile params b)
    match impl.splitOn " ;; " with
    | [ia, ib] =>
      pure { model := (if ma == normCompile ia then ia else ma) ++ " ;; " ++ (if mb == normCompile ib then ib else mb),
             oracle := CompileOracle.twinClauses ia ib }
    | _ => pure { model := ma ++ " ;; " ++ mb, oracle := ["unreadable-result"] }
  | "QUOTE", [which, h] => do
    let s ← Bytes.ofHex h
    pure { model := Bytes.toHexField (if which == "s" then quoteSQLString s else quoteIdentifier s),
           oracle := CompileOracle.quoteClauses (which == "s") s impl }
  | "CLI", [h, mode] => do
    let input0 ← Bytes.ofHex h
    -- mode filesX:k:j: a directory is named as an input before piece j of k (every Read of it fails): what the
    -- tool reads is the first j pieces, and the input could not be read completely
    let (input, readFails) :=
      match mode.splitOn ":" with
      | ["filesX", ks, js] =>
        match ks.toNat?, js.toNat? with
        | some k, some j => (if k == 0 then [] else input0.take (input0.length * j / k), true)
        | _, _ => (input0, false)
      | _ => (input0, false)
    let lines := let r := bufioLines input; (r.1, r.2 || readFails)
    let spec := CliSpec.run modelCompileOpt lines.1 lines.2
    -- oracle: the tool's observable behaviour is the whole-input specification's
    let oracle : List String :=
      if impl == "HANG" then ["c12-hang"]
      else if impl.startsWith "PANIC" then ["c12-panic"]
      else
        match impl.splitOn " " with
        | ["EXIT", code, "NERR", _, "OUT", out, "ELINES", nerr] =>
          (if out != Bytes.toHexField spec.out then ["c16-stdout-differs-from-specification"] else []) ++
          (if (code != "0") != spec.exitNonZero then ["c16-exit-status-differs-from-specification"] else []) ++
          -- "a statement that fails is reported on standard error … nothing is ever dropped silently": FEWER report
          -- lines than failures is a violation; more lines (a note, a two-line report) are not the property's business
          (match nerr.toNat? with
           | some n => if n < spec.nErrors then ["c16-failure-not-reported"] else []
           | none => ["unreadable-result"])
        | _ => ["unreadable-result"]
    -- the correspondence compares status, the number of `pql:` report lines and standard output; the raw count
    -- of standard-error lines (ELINES) is for the oracle only
    let m := fmtCli (cliRun modelCompileOpt lines.1 lines.2)
    let core := " ".intercalate ((impl.splitOn " ").take 6)
    pure { model := if m == core then impl else m, oracle }
  | "HIST", [h, ps, _g, _k] => do
    let s ← Bytes.ofHex h
    let params ← parseParams ps
    let m := fmtCompile (compile params s) ++ " SAME PARAMS-OK PS-SAME"
    pure { model := if m == normHead impl then impl else m, oracle := histOracle impl }
  | "FIRSTUSE", [h, ps, _n] => do
    let s ← Bytes.ofHex h
    let params ← parseParams ps
    let m := fmtCompile (compile params s) ++ " SAME"
    pure { model := if m == normHead impl then impl else m, oracle := histOracle impl }
  | "LINECOL", [h, ps] => do
    let s ← Bytes.ofHex h
    let pos ← ps.toNat?
    let (l, c) := linecol s pos
    -- oracle: the position points into the source: line ≤ 1 + number of newlines before pos, column ≥ 1
    let nl := ((s.take pos).filter (· == 10)).length
    let oracle : List String :=
      match impl.splitOn " " with
      | [a, b, x, y] =>
        match a.toNat?, b.toNat?, x.toNat?, y.toNat? with
        | some l1, some c1, some l2, some c2 =>
          (if l1 == nl + 1 && l2 == nl + 1 && c1 ≥ 1 && c2 ≥ 1 then [] else ["c10-linecol-outside-source"]) ++
          (if l1 == l2 && c1 == c2 then [] else ["c10-linecol-copies-differ"])
        | _, _, _, _ => ["unreadable-result"]
      | _ => ["unreadable-result"]
    pure { model := toString l ++ " " ++ toString c ++ " " ++ toString l ++ " " ++ toString c, oracle }
  | "NUM", [h] => do
    let s ← Bytes.ofHex h
    match scan s with
    | [t] =>
      if t.kind != .number then pure { model := "NOTNUM" } else
      let isF := litIsFloat t.kind t.value
      let isI := litIsInteger t.kind t.value
      -- Uint64 of an integer literal: its value when it fits in 64 bits, else 0
      let v := t.value.foldl (fun acc c => acc * 10 + (c.toNat - 48)) 0
      let u := if isI then toString (if v < 18446744073709551616 then v else 0) else "-"
      -- oracle (C09 accessors): the literal is a float iff its *source spelling* has a '.', 'e' or 'E'
      -- (hexadecimal spellings are integers)
      let isHex := match s with | 48 :: x :: _ => x == 120 || x == 88 | _ => false
      let spellFloat := !isHex && s.any (fun c => c == 46 || c == 101 || c == 69)
      let oracle : List String :=
        match impl.splitOn " " with
        | [_, f, i, _, f64] =>
          (if (f == "t") == spellFloat then [] else ["accessor-isfloat-disagrees-with-spelling"]) ++
          (if (i == "t") == !spellFloat then [] else ["accessor-isinteger-disagrees-with-spelling"]) ++
          -- Float64 of the literal against the nearest float64 of the value its spelling denotes (computed by the
          -- harness with exact rational arithmetic; not judged beyond the float64 range)
          (if f64 == "F64BAD" then ["accessor-float64-disagrees-with-spelling"] else [])
        | _ => if impl == "NOTNUM" then ["number-spelling-not-one-number-token"] else ["unreadable-result"]
      -- the model does not compute floats: the last field (the harness's own Float64 verdict) is echoed
      let m := Bytes.toHexField t.value ++ " " ++ dumpBool isF ++ " " ++ dumpBool isI ++ " " ++ u
      let core := " ".intercalate ((impl.splitOn " ").take 4)
      pure { model := if m == core then impl else m ++ " F64-", oracle }
    | _ => pure { model := "NOTNUM" }
  | "PARSEV", [h] => do
    let s ← Bytes.ofHex h
    pure { model := fmtParse (parse s), oracle := ParseOracle.clauses s impl true }
  | _, _ => none

/-! ### SQLDUMP: the reference SQL reading in machine-readable form (for tools/sqlite_crosscheck.py)

`SQLDUMP sqlhex dbseed | -` answers one line `DUMP {json}` with the database `Rel.mkDB dbseed`,
the statement as `Sql.lex .standard` / `parseStatement` read it, every SELECT of the statement
(the CTEs in order, then the body) evaluated by `Sql.evalSelect`, and the table
`Sql.evalStatement` returns.  Byte strings are lower-case hex inside JSON strings; values are
`null`, an integer, `true` / `false`, `"s:<hex>"` (string) or `"t:<hex>"` (symbolic term of an
uninterpreted application).  Per SELECT it also says: the number of rows before LIMIT and the
limit value; whether there is an ORDER BY and whether its keys order the rows totally (every
two rows that differ as output rows have different keys).  Unreadable SQL: `{"readable":false}`. -/
namespace SqlDump
open Pql Sql

def jStr (s : String) : String := "\"" ++ s ++ "\""
def jHex (b : Bytes) : String := jStr (Bytes.toHex b)
def jBool (b : Bool) : String := if b then "true" else "false"
def jArr (xs : List String) : String := "[" ++ ",".intercalate xs ++ "]"
def jObj (kvs : List (String × String)) : String :=
  "{" ++ ",".intercalate (kvs.map fun (k, v) => jStr k ++ ":" ++ v) ++ "}"
def jOpt {α} (f : α → String) : Option α → String
  | some a => f a
  | none => "null"

def jVal : Val → String
  | .null => "null"
  | .bool b => jBool b
  | .int n => toString n
  | .str s => jStr ("s:" ++ Bytes.toHex s)
  | .term t => jStr ("t:" ++ Bytes.toHex t)

def jTable (t : Table) : List (String × String) :=
  [("cols", jArr (t.cols.map jHex)), ("rows", jArr (t.rows.map fun r => jArr (r.map jVal)))]

mutual
def jExpr : SExpr → String
  | .col parts => jObj [("k", jStr "col"), ("parts", jArr (parts.map jHex))]
  | .str v => jObj [("k", jStr "str"), ("v", jHex v)]
  | .num t => jObj [("k", jStr "num"), ("v", jHex t)]
  | .param t => jObj [("k", jStr "param"), ("v", jHex t)]
  | .const w => jObj [("k", jStr "const"), ("v", jStr w)]
  | .call fn star args filter =>
    jObj [("k", jStr "call"), ("fn", jHex fn), ("star", jBool star), ("args", jArr (jExprs args)), ("filter", jExpr filter)]
  | .case_ c t e => jObj [("k", jStr "case"), ("c", jExpr c), ("t", jExpr t), ("e", jExpr e)]
  | .neg x => jObj [("k", jStr "neg"), ("x", jExpr x)]
  | .pos x => jObj [("k", jStr "pos"), ("x", jExpr x)]
  | .not_ x => jObj [("k", jStr "not"), ("x", jExpr x)]
  | .bin op x y => jObj [("k", jStr "bin"), ("op", jStr op), ("x", jExpr x), ("y", jExpr y)]
  | .isNull x n => jObj [("k", jStr "isnull"), ("x", jExpr x), ("neg", jBool n)]
  | .inList x vs => jObj [("k", jStr "in"), ("x", jExpr x), ("vals", jArr (jExprs vs))]
  | .index x i => jObj [("k", jStr "index"), ("x", jExpr x), ("i", jExpr i)]
  | .none_ => "null"
def jExprs : SExprList → List String
  | .nil => []
  | .cons e es => jExpr e :: jExprs es
end

def jRef : TableRef → String
  | .named n a => jObj [("k", jStr "named"), ("name", jHex n), ("alias", jOpt jHex a)]
  | .distinctOf n a => jObj [("k", jStr "distinct"), ("name", jHex n), ("alias", jOpt jHex a)]

def jSelect (s : Select) : String :=
  jObj [("distinct", jBool s.distinct),
    ("items", jArr (s.items.map fun it => jObj [("star", jBool it.star), ("expr", jExpr it.expr), ("alias", jOpt jHex it.alias)])),
    ("source", jRef s.source),
    ("join", jOpt (fun (j : JoinClause) => jObj [("left", jBool j.left), ("table", jRef j.table), ("on", jExpr j.on)]) s.join),
    ("where", jOpt jExpr s.where_),
    ("groupBy", jArr (s.groupBy.map jExpr)),
    ("orderBy", jArr (s.orderBy.map fun o => jObj [("expr", jExpr o.expr), ("asc", jBool o.asc), ("nullsFirst", jBool o.nullsFirst)])),
    ("limit", jOpt jExpr s.limit)]

/-- the item an unqualified name in ORDER BY stands for: `evalSelect` looks a name up among the
    output columns first (in order), then in the source row -/
def provider (items : List SelectItem) (srcCols : List Bytes) (n : Bytes) : Option SExpr :=
  match items with
  | [] => none
  | it :: rest =>
    if it.star then (if srcCols.contains n then none else provider rest srcCols n)
    else if it.alias == some n then some it.expr
    else provider rest srcCols n

mutual
def substAlias (items : List SelectItem) (srcCols : List Bytes) : SExpr → SExpr
  | .col [n] => match provider items srcCols n with | some e => e | none => .col [n]
  | .call fn star args filter => .call fn star (substAliasL items srcCols args) (substAlias items srcCols filter)
  | .case_ c t e => .case_ (substAlias items srcCols c) (substAlias items srcCols t) (substAlias items srcCols e)
  | .neg x => .neg (substAlias items srcCols x)
  | .pos x => .pos (substAlias items srcCols x)
  | .not_ x => .not_ (substAlias items srcCols x)
  | .bin op x y => .bin op (substAlias items srcCols x) (substAlias items srcCols y)
  | .isNull x n => .isNull (substAlias items srcCols x) n
  | .inList x vs => .inList (substAlias items srcCols x) (substAliasL items srcCols vs)
  | .index x i => .index (substAlias items srcCols x) (substAlias items srcCols i)
  | e => e
def substAliasL (items : List SelectItem) (srcCols : List Bytes) : SExprList → SExprList
  | .nil => .nil
  | .cons e es => .cons (substAlias items srcCols e) (substAliasL items srcCols es)
end

/-- do the ORDER BY keys of `s` order its rows totally (up to rows that are equal as output
    rows)?  `none`: not decided here (an aggregate only in ORDER BY) -/
def orderTotal (db : DB) (ctes : List (Bytes × Table)) (s : Select) (nOut : Nat) : Option Bool :=
  let srcCols := (evalSelect db ctes { s with items := [⟨true, .none_, none⟩], where_ := none, groupBy := [], orderBy := [], limit := none }).cols
  let keys := s.orderBy.map fun o => substAlias s.items srcCols o.expr
  let isAgg := !s.groupBy.isEmpty || s.items.any fun it => !it.star && hasAgg it.expr
  if !isAgg && keys.any hasAgg then none else
  let keyed := evalSelect db ctes { s with items := s.items ++ keys.map (fun e => ⟨false, e, some (Bytes.ofString "__key")⟩), orderBy := [], limit := none }
  let dirs := s.orderBy.map fun o => (o.asc, o.nullsFirst)
  let rows := keyed.rows.map fun r => (r.take nOut, r.drop nOut)
  let rec go : List (List Val × List Val) → Bool
    | [] => true
    | x :: rest => rest.all (fun y => x.1 == y.1 || keysLt dirs x.2 y.2 || keysLt dirs y.2 x.2) && go rest
  some (go rows)

def jSelectInfo (db : DB) (ctes : List (Bytes × Table)) (name : Bytes) (s : Select) (t : Table) : String :=
  let lim : List (String × String) :=
    match s.limit with
    | none => [("limit", "null")]
    | some l =>
      [("limit", jObj [("value", jVal (evalS [] [] l)), ("n", jOpt toString (limitOf (evalS [] [] l))),
         ("rowsBefore", toString (evalSelect db ctes { s with limit := none }).rows.length)])]
  let ord : List (String × String) :=
    if s.orderBy.isEmpty then [("order", "null")]
    else [("order", jObj [("total", jOpt jBool (orderTotal db ctes s t.cols.length))])]
  jObj ([("name", jHex name)] ++ jTable t ++ lim ++ ord)

def dump (sql : Bytes) (seed : Nat) : String :=
  let db := Rel.mkDB seed
  let jdb := jArr (db.map fun (n, t) => jObj (("name", jHex n) :: jTable t))
  match CompileOracle.readSql sql with
  | none => jObj [("readable", "false"), ("seed", toString seed), ("db", jdb)]
  | some st =>
    -- the CTE tables exactly as `evalStatement` builds them
    let step (acc : List (Bytes × Table) × List String) (c : Bytes × Select) : List (Bytes × Table) × List String :=
      let t := evalSelect db acc.1 c.2
      (acc.1 ++ [(c.1, t)], acc.2 ++ [jSelectInfo db acc.1 c.1 c.2 t])
    let (ctes, infos) := st.ctes.foldl step ([], [])
    let res := evalStatement db st
    jObj [("readable", "true"), ("seed", toString seed), ("db", jdb),
      ("stmt", jObj [("ctes", jArr (st.ctes.map fun (n, s) => jObj [("name", jHex n), ("select", jSelect s)])), ("body", jSelect st.body)]),
      ("selects", jArr (infos ++ [jSelectInfo db ctes [] st.body res])),
      ("result", jObj (jTable res))]

end SqlDump

def processLine (line : String) : String :=
  match line.splitOn " | " with
  | [lhs, impl] =>
    match lhs.splitOn " " with
    | ["SQLDUMP", h, seed] =>
      -- not a comparison: prints the reference reading of the SQL text on the seed's database
      match Bytes.ofHex h, seed.toNat? with
      | some sql, some sd => "DUMP " ++ SqlDump.dump sql sd
      | _, _ => "BADCASE"
    | op :: fields =>
      match runOp op fields impl with
      | some v =>
        let parts := (if v.model == impl then [] else ["DIFF " ++ v.model]) ++ v.oracle.map ("ORACLE " ++ ·)
        if parts.isEmpty then "ok" else " ;; ".intercalate parts
      | none => "BADCASE"
    | [] => "BADLINE"
  | _ => "BADLINE"

partial def loop (h : IO.FS.Stream) (out : IO.FS.Stream) : IO Unit := do
  let line ← h.getLine
  if line.isEmpty then return ()
  let line := if line.back == '\n' then line.dropRight 1 else line
  out.putStrLn (processLine line)
  loop h out

def main : IO Unit := do
  let stdin ← IO.getStdin
  let stdout ← IO.getStdout
  loop stdin stdout
