/-
Line-protocol driver.  Reads `OP field… | impl-result` lines on stdin; for each line
prints one verdict line:

  ok                          model result = implementation result, all oracles pass
  DIFF <model result>         correspondence broken at this case
  ORACLE <clause> <detail>    spec oracle rejects the implementation's own output

(both DIFF and ORACLE parts may appear on one line, separated by " ;; ").
Imports model and spec only — no proof modules, no Mathlib — so that it links.
-/
import PqlModel.Model.Lex
import PqlModel.Model.Parse
import PqlModel.Model.Walk
import PqlModel.Model.Compile
import PqlModel.Spec.LexOracle
import PqlModel.Spec.ParseOracle
import PqlModel.Spec.WalkOracle
import PqlModel.Spec.CompileOracle
import PqlModel.Spec.Intended
import PqlModel.Spec.CliSpec
import PqlModel.Spec.Rel
import Driver.Proto
open Pql

def fmtTokens (ts : List Token) : String :=
  ts.foldl (fun acc t =>
    acc ++ " " ++ t.kind.goName ++ " " ++ toString t.start ++ " " ++ toString t.stop ++ " " ++
      (if t.kind == .error then "-" else Bytes.toHexField t.value))
    (toString ts.length)

def fmtPieces (ps : List Bytes) : String :=
  ps.foldl (fun acc p => acc ++ " " ++ Bytes.toHexField p) (toString ps.length)

def fmtErr (e : PErr) : String :=
  if e.fuel then "FUEL" else
  match e.span with
  | some sp => toString sp.start ++ " " ++ toString sp.stop ++ " t " ++ dumpBool e.notFound
  | none => "-1 -1 f " ++ dumpBool e.notFound

def fmtParse (r : List Stmt × Errs) : String :=
  let head := if r.2.isEmpty then "OK 0"
    else r.2.foldl (fun acc e => acc ++ " " ++ fmtErr e) ("ERR " ++ toString r.2.length)
  r.1.foldl (fun acc s => acc ++ " ;; " ++ s.dump) head

def fmtEvent : WalkEvent → String
  | .visit ty sp => ty ++ ":" ++ toString sp.start ++ ":" ++ toString sp.stop
  | .visitNil => "NIL"
  | .panic => "PANIC"

def maskDecide (mask : String) : Nat → Bool :=
  let bits := mask.toList.map (· == '1')
  fun i => if bits.isEmpty then true else bits.getD (i % bits.length) true

def fmtWalk (src : Bytes) (mask : String) : String :=
  let r := parse src
  if !r.2.isEmpty then "NOPARSE"
  else
    let traces := r.1.map fun st => " ".intercalate ((walk (maskDecide mask) (Node.ofStmt st)).map fmtEvent)
    toString r.1.length ++ (if traces.isEmpty then "" else " ;; " ++ " ;; ".intercalate traces)

/-- "khex:vhex,…", "-" (nil options) or "=" (empty map) -/
def parseParams (f : String) : Option (List (Bytes × Bytes)) :=
  if f == "-" || f == "=" || f == "0" then some []
  else (f.splitOn ",").mapM fun kv =>
    match kv.splitOn ":" with
    | [k, v] => do
      let k ← Bytes.ofHex k
      let v ← Bytes.ofHex v
      pure (k, v)
    | _ => none

def fmtCompile : CompileResult → String
  | .ok sql => "OK " ++ Bytes.toHexField sql
  | .error => "ERR"
  | .panic => "PANIC"

/-- the implementation's compile result with positions and panic text dropped -/
def normCompile (impl : String) : String :=
  if impl.startsWith "ERR" then "ERR" else if impl.startsWith "PANIC" then "PANIC" else impl

def fmtCli (r : CliResult) : String :=
  "EXIT " ++ (if r.exitNonZero then "1" else "0") ++ " NERR " ++ toString r.nErrors ++ " OUT " ++ Bytes.toHexField r.out

def modelCompileOpt (src : Bytes) : Option Bytes :=
  match compile [] src with
  | .ok sql => some sql
  | _ => none

/-- drop the position of a compile error at the head of a result ("ERR 3 5 …" ↦ "ERR …") -/
def normHead (impl : String) : String :=
  match impl.splitOn " " with
  | "ERR" :: a :: b :: rest => if a.toInt?.isSome && b.toInt?.isSome then " ".intercalate ("ERR" :: rest) else impl
  | _ => impl

def histOracle (impl : String) : List String :=
  (if (impl.splitOn " ").contains "NONDET" then ["c14-result-depends-on-history"] else []) ++
  (if (impl.splitOn " ").contains "PS-NONDET" then ["c14-parse-or-scan-nondeterministic"] else []) ++
  (if (impl.splitOn " ").contains "PARAMS-CHANGED" then ["c14-parameter-map-modified"] else []) ++
  (if (impl.splitOn " ").contains "RACE" then ["c14-data-race"] else []) ++
  (if (impl.splitOn " ").contains "PANIC" then ["c12-panic"] else [])

def showTable (t : Sql.Table) : String :=
  "cols=" ++ toString (t.cols.map Bytes.toStringLossy) ++ " rows=" ++
    toString (t.rows.map fun r => r.map fun v => Bytes.toStringLossy (Sql.showVal v))

mutual
def tabularHasJoin : Tabular → Bool
  | .nil => false
  | .mk _ ops => opsHaveJoin ops
def opsHaveJoin : OpList → Bool
  | .nil => false
  | .cons (.join ..) _ => true
  | .cons _ os => opsHaveJoin os
end

/-- C02 / C03: evaluate the emitted SQL and the pipeline on small databases -/
def evalOracle (src : Bytes) (seed : Nat) (impl : String) : List String :=
  match impl.splitOn " " with
  | ["OK", h] =>
    match Bytes.ofHex h with
    | none => ["unreadable-result"]
    | some sql =>
      let parsed := parse src
      if !parsed.2.isEmpty then [] else
      match CompileOracle.readSql sql with
      | none => ["c05-parse"]
      | some st =>
        let isJoin := parsed.1.any fun | .tabular t => tabularHasJoin t | _ => false
        let tag := if CompileOracle.nameCapture parsed.1 then "c05-name-capture" else if isJoin then "c03" else "c02"
        let bad := (List.range 4).filterMap fun i =>
          let db := Rel.mkDB (seed + 1000 * i)
          match Rel.interpProgram src db parsed.1 with
          | none => none
          | some want =>
            let got := Sql.evalStatement db st
            if got == want then none else some (i, want, got)
        match bad with
        | [] => []
        | (i, want, got) :: _ =>
          [(if tag == "c05-name-capture" then tag else tag ++ "-result-differs") ++ " db=" ++ toString (seed + 1000 * i) ++ " pipeline:" ++ (showTable want).replace " " "_" ++
            " sql:" ++ (showTable got).replace " " "_"]
  | _ => []

structure Verdict where
  model : String
  oracle : List String := []

def fmtSplitX (src : Bytes) : String :=
  let pieces := splitStatements src
  " ;; ".intercalate (fmtPieces pieces :: fmtTokens (scan src) :: pieces.map (fun p => fmtTokens (scan p)))

def runOp (op : String) (fields : List String) (impl : String) : Option Verdict :=
  match op, fields with
  | "SCAN", [h] => do
    let s ← Bytes.ofHex h
    let oracle := match Proto.parseTokens impl with
      | some ts => LexOracle.scanClauses s ts
      | none => ["unparseable-result"]
    pure { model := fmtTokens (scan s), oracle }
  | "SPLIT", [h] => do
    -- result: pieces ;; tokens(whole) ;; tokens(piece 1) ;; …
    let s ← Bytes.ofHex h
    let oracle := match impl.splitOn " ;; " with
      | ps :: whole :: per =>
        match Proto.parsePieces ps, Proto.parseTokens whole, per.mapM Proto.parseTokens with
        | some ps, some whole, some per => LexOracle.splitClauses s ps whole per
        | _, _, _ => ["unparseable-result"]
      | _ => ["unparseable-result"]
    pure { model := fmtSplitX s, oracle }
  | "PARSE", [h] => do
    let s ← Bytes.ofHex h
    pure { model := fmtParse (parse s), oracle := ParseOracle.clauses s impl false }
  | "PIECES", [h] => do
    -- Parse of the whole source next to Parse of every piece of SplitStatements:
    -- `kinds e|o` for the whole, then for every piece (L let, T tabular, - none)
    let s ← Bytes.ofHex h
    let kinds (r : List Stmt × Errs) : String :=
      let k := String.join (r.1.map fun | .let_ .. => "L" | .tabular _ => "T")
      (if k.isEmpty then "-" else k) ++ (if r.2.isEmpty then " o" else " e")
    let model := " ;; ".intercalate (kinds (parse s) :: (splitStatements s).map fun p => kinds (parse p))
    -- oracle on the implementation's own answers (C15): statements of the whole = statements of
    -- the pieces in order; an error in the whole iff in some piece; pieces yield at most one
    let oracle : List String :=
      match (impl.splitOn " ;; ").map (fun x => x.splitOn " ") with
      | [w, we] :: ps =>
        if !(ps.all fun p => p.length == 2) then ["unparseable-result"] else
        let pk := String.join (ps.map fun p => if p.headD "" == "-" then "" else p.headD "")
        let wk := if w == "-" then "" else w
        (if wk != pk then ["c15-parse-disagrees-with-pieces"] else []) ++
        (if (we == "e") != (ps.any fun p => p.getD 1 "" == "e") then ["c15-error-disagrees-with-pieces"] else []) ++
        (if ps.any (fun p => (p.headD "").length > 1) then ["c15-piece-yields-several-statements"] else [])
      | _ => ["unparseable-result"]
    pure { model, oracle }
  | "WALK", [h, mask] => do
    let s ← Bytes.ofHex h
    -- oracle (unpruned walks only): the implementation's trace against the nodes of the tree
    let oracle : List String :=
      if impl == "HANG" then ["c12-hang"]
      else if impl.startsWith "PANIC" then ["c12-panic"]
      else if mask != "-" then
        let r := parse s
        match impl.splitOn " ;; " with
        | _ :: traces =>
          if traces.length != r.1.length then []
          else (r.1.zip traces).flatMap fun (st, tr) =>
            WalkOracle.prunedClauses st.dump tr mask ++ (if (tr.splitOn " ").contains "PANIC" then ["c12-panic"] else [])
        | [] => []
      else if impl == "HANG" then ["c12-hang"]
      else if impl.startsWith "PANIC" then ["c12-panic"]
      else
        let r := parse s
        match impl.splitOn " ;; " with
        | _ :: traces =>
          if traces.length != r.1.length then []
          else (r.1.zip traces).flatMap fun (st, tr) =>
            WalkOracle.clauses st.dump tr ++ (if (tr.splitOn " ").contains "PANIC" then ["c12-panic"] else [])
        | [] => []
    pure { model := fmtWalk s (if mask == "-" then "" else mask), oracle }
  | "COMPILE", [h, ps] => do
    let s ← Bytes.ofHex h
    let params ← parseParams ps
    let m := fmtCompile (compile params s)
    -- the model's text is compared with the normalised implementation result
    pure { model := if m == normCompile impl then impl else m, oracle := CompileOracle.clauses s params impl ++ Intended.intendedClauses s params impl }
  | "EVAL", [h, seed] => do
    let s ← Bytes.ofHex h
    let sd ← seed.toNat?
    let m := fmtCompile (compile [] s)
    pure { model := if m == normCompile impl then impl else m, oracle := evalOracle s sd impl }
  | "COMPILESEQ", [ha, hb, ps] => do
    let a ← Bytes.ofHex ha
    let b ← Bytes.ofHex hb
    let params ← parseParams ps
    let ma := fmtCompile (compile params a)
    let mb := fmtCompile (compile params b)
    match impl.splitOn " ;; " with
    | [ia, ib, st] =>
      -- each call is the function value for its own (source, parameters): no history
      pure { model := (if ma == normCompile ia then ia else ma) ++ " ;; " ++ (if mb == normCompile ib then ib else mb) ++ " ;; PARAMS-OK",
             oracle := (if st != "PARAMS-OK" then ["c14-parameter-map-modified", "c06-let-escapes-its-program"] else []) ++
                       (if mb != normCompile ib && ma == normCompile ia then ["c06-let-escapes-its-program", "c14-result-depends-on-history"] else []) ++
                       -- C13 / C05 on each call of the sequence: fails exactly on parse error or misuse, whatever was compiled before
                       ((CompileOracle.clauses a params ia ++ CompileOracle.clauses b params ib).filter
                          fun c => c.startsWith "c13-" || c.startsWith "c05-") }
    | _ => pure { model := ma ++ " ;; " ++ mb ++ " ;; PARAMS-OK", oracle := ["unreadable-result"] }
  | "COMPILE2", [ha, hb, ps] => do
    let a ← Bytes.ofHex ha
    let b ← Bytes.ofHex hb
    let params ← parseParams ps
    let ma := fmtCompile (compile params a)
    let mb := fmtCompile (compile params b)
    match impl.splitOn " ;; " with
    | [ia, ib] =>
      pure { model := (if ma == normCompile ia then ia else ma) ++ " ;; " ++ (if mb == normCompile ib then ib else mb),
             oracle := CompileOracle.twinClauses ia ib }
    | _ => pure { model := ma ++ " ;; " ++ mb, oracle := ["unreadable-result"] }
  | "QUOTE", [which, h] => do
    let s ← Bytes.ofHex h
    pure { model := Bytes.toHexField (if which == "s" then quoteSQLString s else quoteIdentifier s),
           oracle := CompileOracle.quoteClauses (which == "s") s impl }
  | "CLI", [h, _mode] => do
    let input ← Bytes.ofHex h
    let lines := bufioLines input
    let spec := CliSpec.run modelCompileOpt lines.1 lines.2
    -- oracle: the tool's observable behaviour is the whole-input specification's
    let oracle : List String :=
      if impl == "HANG" then ["c12-hang"]
      else if impl.startsWith "PANIC" then ["c12-panic"]
      else if impl == fmtCli spec then []
      else
        match impl.splitOn " " with
        | ["EXIT", code, "NERR", _, "OUT", out] =>
          (if out != Bytes.toHexField spec.out then ["c16-stdout-differs-from-specification"] else []) ++
          (if (code != "0") != spec.exitNonZero then ["c16-exit-status-differs-from-specification"] else []) ++
          (if out == Bytes.toHexField spec.out && (code != "0") == spec.exitNonZero then ["c16-error-count-differs"] else [])
        | _ => ["unreadable-result"]
    pure { model := fmtCli (cliMain modelCompileOpt input), oracle }
  | "HIST", [h, ps, _g, _k] => do
    let s ← Bytes.ofHex h
    let params ← parseParams ps
    let m := fmtCompile (compile params s) ++ " SAME PARAMS-OK PS-SAME"
    pure { model := if m == normHead impl then impl else m, oracle := histOracle impl }
  | "FIRSTUSE", [h, ps, _n] => do
    let s ← Bytes.ofHex h
    let params ← parseParams ps
    let m := fmtCompile (compile params s) ++ " SAME"
    pure { model := if m == normHead impl then impl else m, oracle := histOracle impl }
  | "LINECOL", [h, ps] => do
    let s ← Bytes.ofHex h
    let pos ← ps.toNat?
    let (l, c) := linecol s pos
    -- oracle: the position points into the source: line ≤ 1 + number of newlines before pos, column ≥ 1
    let nl := ((s.take pos).filter (· == 10)).length
    let oracle : List String :=
      match impl.splitOn " " with
      | [a, b, x, y] =>
        match a.toNat?, b.toNat?, x.toNat?, y.toNat? with
        | some l1, some c1, some l2, some c2 =>
          (if l1 == nl + 1 && l2 == nl + 1 && c1 ≥ 1 && c2 ≥ 1 then [] else ["c10-linecol-outside-source"]) ++
          (if l1 == l2 && c1 == c2 then [] else ["c10-linecol-copies-differ"])
        | _, _, _, _ => ["unreadable-result"]
      | _ => ["unreadable-result"]
    pure { model := toString l ++ " " ++ toString c ++ " " ++ toString l ++ " " ++ toString c, oracle }
  | "NUM", [h] => do
    let s ← Bytes.ofHex h
    match scan s with
    | [t] =>
      if t.kind != .number then pure { model := "NOTNUM" } else
      let isF := litIsFloat t.kind t.value
      let isI := litIsInteger t.kind t.value
      -- Uint64 of an integer literal: its value when it fits in 64 bits, else 0
      let v := t.value.foldl (fun acc c => acc * 10 + (c.toNat - 48)) 0
      let u := if isI then toString (if v < 18446744073709551616 then v else 0) else "-"
      -- oracle (C09 accessors): the literal is a float iff its *source spelling* has a '.', 'e' or 'E'
      -- (hexadecimal spellings are integers)
      let isHex := match s with | 48 :: x :: _ => x == 120 || x == 88 | _ => false
      let spellFloat := !isHex && s.any (fun c => c == 46 || c == 101 || c == 69)
      let oracle : List String :=
        match impl.splitOn " " with
        | [_, f, i, _] =>
          (if (f == "t") == spellFloat then [] else ["accessor-isfloat-disagrees-with-spelling"]) ++
          (if (i == "t") == !spellFloat then [] else ["accessor-isinteger-disagrees-with-spelling"])
        | _ => if impl == "NOTNUM" then ["number-spelling-not-one-number-token"] else ["unreadable-result"]
      pure { model := Bytes.toHexField t.value ++ " " ++ dumpBool isF ++ " " ++ dumpBool isI ++ " " ++ u, oracle }
    | _ => pure { model := "NOTNUM" }
  | "PARSEV", [h] => do
    let s ← Bytes.ofHex h
    pure { model := fmtParse (parse s), oracle := ParseOracle.clauses s impl true }
  | _, _ => none

def processLine (line : String) : String :=
  match line.splitOn " | " with
  | [lhs, impl] =>
    match lhs.splitOn " " with
    | op :: fields =>
      match runOp op fields impl with
      | some v =>
        let parts := (if v.model == impl then [] else ["DIFF " ++ v.model]) ++ v.oracle.map ("ORACLE " ++ ·)
        if parts.isEmpty then "ok" else " ;; ".intercalate parts
      | none => "BADCASE"
    | [] => "BADLINE"
  | _ => "BADLINE"

partial def loop (h : IO.FS.Stream) (out : IO.FS.Stream) : IO Unit := do
  let line ← h.getLine
  if line.isEmpty then return ()
  let line := if line.back == '\n' then line.dropRight 1 else line
  out.putStrLn (processLine line)
  loop h out

def main : IO Unit := do
  let stdin ← IO.getStdin
  let stdout ← IO.getStdout
  loop stdin stdout
