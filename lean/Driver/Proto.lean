/-
Parsing of the implementation's canonical result text (line protocol).
-/
import PqlModel.Model.Token
open Pql

namespace Proto

def parseTokensAux : Nat → List String → Option (List Token)
  | 0, [] => some []
  | 0, _ => none
  | n + 1, k :: a :: b :: v :: rest => do
    let kind ← TokKind.ofGoName k
    let start ← a.toNat?
    let stop ← b.toNat?
    let val ← Bytes.ofHex v
    let tl ← parseTokensAux n rest
    pure (⟨kind, start, stop, val⟩ :: tl)
  | _, _ => none

/-- "n kind start stop valhex …" -/
def parseTokens (s : String) : Option (List Token) :=
  match s.splitOn " " with
  | n :: rest => do
    let n ← n.toNat?
    parseTokensAux n rest
  | [] => none

/-- "n hex hex …" -/
def parsePieces (s : String) : Option (List Bytes) :=
  match s.splitOn " " with
  | n :: rest => do
    let n ← n.toNat?
    if rest.length != n then none else rest.mapM Bytes.ofHex
  | [] => none

end Proto
