import PqlModel.Base.Bytes
import PqlModel.Base.Utf8
import PqlModel.Generated.Facts
import PqlModel.Model.Token
import PqlModel.Model.Lex
