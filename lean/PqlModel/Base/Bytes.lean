/-
Bytes: Go strings are arbitrary byte sequences; the properties quantify over
invalid UTF-8 too, so the model works on `List UInt8` throughout.
Core Lean only (this file is linked into the driver executable).
-/
namespace Pql

abbrev Bytes := List UInt8

namespace Bytes

/-- UTF-8 bytes of a string constant (written so that the kernel can evaluate it on literals) -/
def ofString (s : String) : Bytes := s.toUTF8.data.toList

/-- Printable rendering for diagnostics only (never compared). -/
def toStringLossy (b : Bytes) : String :=
  String.ofList (b.map fun c => if 32 ≤ c.toNat ∧ c.toNat < 127 then Char.ofNat c.toNat else '?')

def hexDigit (n : Nat) : Char :=
  if n < 10 then Char.ofNat (48 + n) else Char.ofNat (87 + n)

def toHex (b : Bytes) : String :=
  String.ofList (b.foldr (fun c acc => hexDigit (c.toNat / 16) :: hexDigit (c.toNat % 16) :: acc) [])

def hexVal (c : Char) : Option Nat :=
  let n := c.toNat
  if 48 ≤ n ∧ n ≤ 57 then some (n - 48)
  else if 97 ≤ n ∧ n ≤ 102 then some (n - 87)
  else if 65 ≤ n ∧ n ≤ 70 then some (n - 55)
  else none

def ofHexChars : List Char → Option Bytes
  | [] => some []
  | [_] => none
  | a :: b :: rest => do
    let x ← hexVal a
    let y ← hexVal b
    let r ← ofHexChars rest
    pure (UInt8.ofNat (x * 16 + y) :: r)

/-- `-` encodes the empty string in the line protocol. -/
def ofHex (s : String) : Option Bytes :=
  if s == "-" then some [] else ofHexChars s.toList

def toHexField (b : Bytes) : String :=
  if b.isEmpty then "-" else toHex b

end Bytes

end Pql
