/-
Go-compatible UTF-8 decoding (`utf8.DecodeRuneInString`) and `unicode.IsSpace`.
Invalid input decodes to (RuneError = U+FFFD, width 1), exactly as in Go.
-/
import PqlModel.Base.Bytes
namespace Pql

def runeError : Nat := 0xFFFD

@[inline] def isCont (b : UInt8) : Bool := 0x80 ≤ b.toNat && b.toNat ≤ 0xBF

/-- lower/upper bound Go's `acceptRanges` puts on the second byte. -/
def secondLo (n0 : Nat) : Nat := if n0 == 0xE0 then 0xA0 else if n0 == 0xF0 then 0x90 else 0x80
def secondHi (n0 : Nat) : Nat := if n0 == 0xED then 0x9F else if n0 == 0xF4 then 0x8F else 0xBF

/-- Multi-byte tail of the decoder: lead byte value `n0 ≥ 0x80`, `rest` the bytes after it. -/
def decodeMulti (n0 : Nat) (rest : Bytes) : Option (Nat × Nat) :=
  if n0 < 0xC2 then none
  else if n0 < 0xE0 then
    match rest with
    | b1 :: _ => if isCont b1 then some ((n0 % 32) * 64 + b1.toNat % 64, 2) else none
    | _ => none
  else if n0 < 0xF0 then
    match rest with
    | b1 :: b2 :: _ =>
      if secondLo n0 ≤ b1.toNat && b1.toNat ≤ secondHi n0 && isCont b2 then
        some ((n0 % 16) * 4096 + (b1.toNat % 64) * 64 + b2.toNat % 64, 3)
      else none
    | _ => none
  else if n0 < 0xF5 then
    match rest with
    | b1 :: b2 :: b3 :: _ =>
      if secondLo n0 ≤ b1.toNat && b1.toNat ≤ secondHi n0 && isCont b2 && isCont b3 then
        some ((n0 % 8) * 262144 + (b1.toNat % 64) * 4096 + (b2.toNat % 64) * 64 + b3.toNat % 64, 4)
      else none
    | _ => none
  else none

/-- `decodeRune s = (rune, width)`; width = 0 only for the empty input. -/
def decodeRune : Bytes → Nat × Nat
  | [] => (runeError, 0)
  | b0 :: rest =>
    if b0.toNat < 0x80 then (b0.toNat, 1)
    else match decodeMulti b0.toNat rest with
      | some rw => rw
      | none => (runeError, 1)

/-- Go's `unicode.IsSpace`. -/
def isSpaceRune (r : Nat) : Bool :=
  r == 0x09 || r == 0x0A || r == 0x0B || r == 0x0C || r == 0x0D || r == 0x20 ||
  r == 0x85 || r == 0xA0 || r == 0x1680 || (0x2000 ≤ r && r ≤ 0x200A) ||
  r == 0x2028 || r == 0x2029 || r == 0x202F || r == 0x205F || r == 0x3000

theorem decodeMulti_width {n0 : Nat} {rest : Bytes} {r w : Nat}
    (h : decodeMulti n0 rest = some (r, w)) : 2 ≤ w ∧ w ≤ rest.length + 1 := by
  unfold decodeMulti at h
  split at h
  · cases h
  · split at h
    · split at h
      · split at h
        · cases h; simp
        · cases h
      · cases h
    · split at h
      · split at h
        · split at h
          · cases h; simp
          · cases h
        · cases h
      · split at h
        · split at h
          · split at h
            · cases h; simp
            · cases h
          · cases h
        · cases h

theorem decodeRune_cons (b : UInt8) (s : Bytes) :
    decodeRune (b :: s) =
      if b.toNat < 0x80 then (b.toNat, 1)
      else match decodeMulti b.toNat s with
        | some rw => rw
        | none => (runeError, 1) := rfl

theorem decodeRune_width_pos (b : UInt8) (s : Bytes) : 1 ≤ (decodeRune (b :: s)).2 := by
  rw [decodeRune_cons]
  split
  · simp
  · cases h : decodeMulti b.toNat s with
    | none => simp
    | some rw =>
      obtain ⟨r, w⟩ := rw
      have := decodeMulti_width h
      simp; omega

theorem decodeRune_width_le (s : Bytes) : (decodeRune s).2 ≤ s.length := by
  cases s with
  | nil => simp [decodeRune]
  | cons b s =>
    rw [decodeRune_cons]
    split
    · simp
    · cases h : decodeMulti b.toNat s with
      | none => simp
      | some rw =>
        obtain ⟨r, w⟩ := rw
        have := decodeMulti_width h
        simp; omega

end Pql
