/-
C02 / C03: what a pipeline means — a direct, left-to-right interpreter of the tabular operators
on list-tables, written from the property statements, sharing only the scalar evaluator and
the engine primitives (group / distinct / stable sort) with the SQL evaluator.

  where     keep the rows whose predicate is TRUE
  project   exactly the listed columns, in that order
  extend    all columns, then the new ones
  summarize group keys first, then the aggregates; one row per key in first-occurrence
            order (one row in total without keys)
  sort      stable sort, each term with its direction and null placement
  take      prefix;  top n by k = sort by k then take n
  count     one row, one column "count()"
  as        identity;  render: the data plus the constant render columns
  join      nested loop of the pipeline so far (left) with the right-hand pipeline evaluated
            on its own; inner keeps all matching pairs, innerunique (default) first removes
            duplicate left rows, leftouter also keeps unmatched left rows padded with NULLs;
            a bare key k means $left.k == $right.k; conditions are AND-ed
-/
import PqlModel.Spec.Sql.Eval
import PqlModel.Spec.CompileOracle
namespace Pql.Rel
open Pql Sql

/-- scalar meaning of a PQL expression on an environment: the evaluator applied to the
    intended translation (C01 is about that translation; C02/C03 are about the operators) -/
def evalP (join : Bool) (group : List Env) (env : Env) (e : Expr) : Val :=
  match CompileOracle.tr join e with
  | some s => evalS group env (CompileOracle.normS s)
  | none => .term (Bytes.ofString "?untranslatable")

def isAggExpr (e : Expr) : Bool :=
  match CompileOracle.tr false e with
  | some s => hasAgg s
  | none => false

def colName (src : Bytes) (c : Column) : Bytes :=
  match c.name with
  | some n => n.name
  | none =>
    let sp := c.x.spanOf
    if 0 ≤ sp.start ∧ sp.start ≤ sp.stop then (src.drop sp.start.toNat).take (sp.stop - sp.start).toNat else []

def rowEnv (t : Table) (r : List Val) : Env := envOfRow [] t.cols r

def sortTable (t : Table) (terms : List SortTerm) : Table :=
  ⟨t.cols, sortByKeys (terms.map fun s => (s.asc, s.nullsFirst))
    (fun r => terms.map fun s => evalP false [] (rowEnv t r) s.x) t.rows⟩

def takeTable (t : Table) (n : Expr) : Table :=
  match limitOf (evalP false [] [] n) with
  | some k => ⟨t.cols, t.rows.take k⟩
  | none => t

def joinCond (conds : ExprList) : Expr := Pql.buildJoinCondition conds

mutual
def interp (src : Bytes) (db : DB) : Tabular → Table
  | .nil => ⟨[], []⟩
  | .mk source ops =>
    let base := match source with
      | some i => (match db.find? (·.1 == i.name) with | some t => t.2 | none => ⟨[], []⟩)
      | none => ⟨[], []⟩
    interpOps src db base ops
def interpOps (src : Bytes) (db : DB) (t : Table) : OpList → Table
  | .nil => t
  | .cons o rest => interpOps src db (interpOp src db t o) rest
def interpOp (src : Bytes) (db : DB) (t : Table) : Op → Table
  | .count .. => ⟨[Bytes.ofString "count()"], [[.int t.rows.length]]⟩
  | .where_ _ _ e => ⟨t.cols, t.rows.filter fun r => evalP false [] (rowEnv t r) e == .bool true⟩
  | .sort _ _ terms => sortTable t terms
  | .take _ _ n => takeTable t n
  | .top _ _ n _ col =>
    match col with
    | some c => takeTable (sortTable t [c]) n
    | none => t
  | .project _ _ cols =>
    ⟨cols.map fun c => (c.name.map (·.name)).getD [],
     t.rows.map fun r => cols.map fun c =>
       match c.x with
       | .nil => evalP false [] (rowEnv t r) (.qident (c.name.toList))
       | x => evalP false [] (rowEnv t r) x⟩
  | .extend _ _ cols =>
    ⟨t.cols ++ cols.map (colName src),
     t.rows.map fun r => r ++ cols.map fun c => evalP false [] (rowEnv t r) c.x⟩
  | .summarize _ _ cols _ keys =>
    let groups : List (List Val × List (List Val)) :=
      if keys.isEmpty then [([], t.rows)]
      else Sql.groupBy (fun r => keys.map fun g => evalP false [] (rowEnv t r) g.x) t.rows
    ⟨keys.map (colName src) ++ cols.map (colName src),
     groups.map fun (_, members) =>
       let genv := members.map (rowEnv t)
       let env := genv.head?.getD []
       (keys.map fun g => evalP false genv env g.x) ++ (cols.map fun c => evalP false genv env c.x)⟩
  | .as_ .. => t
  | .render _ _ chart _ _ props _ =>
    ⟨t.cols ++ Bytes.ofString "render_type" :: props.map fun p => Bytes.ofString "render_prop_" ++ identName p.name,
     t.rows.map fun r => r ++ Val.str (identName chart) :: props.map fun p => Val.str (renderPropValue p.value)⟩
  | .join _ _ _ _ flavor _ right _ _ conds =>
    let rt := interp src db right
    let kind := match flavor with | some f => f.name | none => Bytes.ofString "innerunique"
    let leftRows := if kind == Bytes.ofString "innerunique" then distinctRows t.rows else t.rows
    let cond := joinCond conds
    let la := Bytes.ofString "$left"
    let ra := Bytes.ofString "$right"
    let rows := leftRows.flatMap fun l =>
      let ms := rt.rows.filterMap fun r =>
        let env := envOfRow la t.cols l ++ envOfRow ra rt.cols r
        if evalP true [] env cond == .bool true then some (l ++ r) else none
      if ms.isEmpty && kind == Bytes.ofString "leftouter" then [l ++ rt.cols.map fun _ => Val.null] else ms
    ⟨t.cols ++ rt.cols, rows⟩
end

/-- give every unnamed extend / summarize column its implicit name (the source text of its
    expression) explicitly, so that resolving lets does not change column names -/
def nameColumn (src : Bytes) (c : Column) : Column :=
  match c.name with
  | some _ => c
  | none => { c with name := some ⟨colName src c, .zero, true⟩ }

mutual
def nameTabular (src : Bytes) : Tabular → Tabular
  | .nil => .nil
  | .mk s ops => .mk s (nameOps src ops)
def nameOps (src : Bytes) : OpList → OpList
  | .nil => .nil
  | .cons o os => .cons (nameOp src o) (nameOps src os)
def nameOp (src : Bytes) : Op → Op
  | .extend p k cs => .extend p k (cs.map (nameColumn src))
  | .summarize p k cs b gs => .summarize p k (cs.map (nameColumn src)) b (gs.map (nameColumn src))
  | .join p k a b c d right e f conds => .join p k a b c d (nameTabular src right) e f conds
  | o => o
end

/-- the program's single query (lets are resolved by `CompileOracle.resolveLets`) -/
def interpProgram (src : Bytes) (db : DB) (stmts : List Stmt) : Option Table :=
  let named := stmts.map fun | .tabular t => Stmt.tabular (nameTabular src t) | s => s
  (CompileOracle.resolveLets named []).map (interp src db)

/-! ### small databases for the oracle, derived from a seed -/

def lcg (s : Nat) : Nat := (s * 6364136223846793005 + 1442695040888963407) % 18446744073709551616

def intVals : List Val := [.null, .int 0, .int 1, .int 2, .int 1]
def strVals : List Val := [.null, .str [97], .str [65], .str [98], .str [97]]

/-- tables T, U, V with integer columns a b c k and a string column s -/
def mkTable (seed : Nat) : Table × Nat :=
  let s1 := lcg seed
  let nrows := (s1 / 65536) % 5
  let rec rowsGo : Nat → Nat → List (List Val) → List (List Val) × Nat
    | 0, s, acc => (acc.reverse, s)
    | n + 1, s, acc =>
      let s2 := lcg s; let s3 := lcg s2; let s4 := lcg s3; let s5 := lcg s4; let s6 := lcg s5
      let pick (vs : List Val) (x : Nat) : Val := vs.getD ((x / 65536) % vs.length) .null
      rowsGo n s6 ([pick intVals s2, pick intVals s3, pick intVals s4, pick intVals s5, pick strVals s6] :: acc)
  let r := rowsGo nrows s1 []
  (⟨["a", "b", "c", "k", "s"].map Bytes.ofString, r.1⟩, r.2)

def mkDB (seed : Nat) : DB :=
  let t1 := mkTable (seed + 1)
  let t2 := mkTable t1.2
  let t3 := mkTable t2.2
  [(Bytes.ofString "T", t1.1), (Bytes.ofString "U", t2.1), (Bytes.ofString "V", t3.1)]

end Pql.Rel
