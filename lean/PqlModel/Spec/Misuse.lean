/-
C13: the documented misuses, as a decidable predicate on parsed programs — written from the
property statement, independently of the compiler model.  `misuse params stmts = true` iff the
program breaks one of the rules:

* no tabular statement, or more than one;
* a let before the query whose value refers to anything but earlier bindings and constants
  (an unbound, quoted or qualified name);
* a built-in called with the wrong number of arguments, at any depth of any translated
  expression (every expression except render property values; lets after the query are
  ignored);
* an unquoted `$left` / `$right` outside a join condition.
-/
import PqlModel.Model.Ast
import PqlModel.Generated.Facts
namespace Pql.Misuse
open Pql

def bytesEq (b : Bytes) (s : String) : Bool := b == Bytes.ofString s

/-- documented arities: (name, exact?, n) — exact n arguments, or at least n -/
def arities : List (String × Bool × Nat) :=
  [("not", true, 1), ("isnull", true, 1), ("isnotnull", true, 1), ("tolower", true, 1), ("toupper", true, 1),
   ("countif", true, 1), ("now", true, 0), ("count", true, 0), ("iff", true, 3), ("iif", true, 3), ("strcat", false, 1)]

def wrongArity (fn : Bytes) (n : Nat) : Bool :=
  match arities.find? (fun a => bytesEq fn a.1) with
  | some (_, exact, k) => if exact then n != k else n < k
  | none => false

def isBuiltinConst (name : Bytes) : Bool := bytesEq name "true" || bytesEq name "false" || bytesEq name "null"
def isAlias (name : Bytes) : Bool := bytesEq name "$left" || bytesEq name "$right"

inductive Pos | plain | join | letValue
  deriving DecidableEq

mutual
/-- does a translated expression break a rule?  `bound`: names in scope -/
def badExpr (pos : Pos) (bound : List Bytes) : Expr → Bool
  | .nil => false
  | .qident parts =>
    match parts with
    | [p] =>
      if !p.quoted && (bound.contains p.name || isBuiltinConst p.name) then false
      else if pos == .letValue then true                       -- unbound or quoted name in a let value
      else !p.quoted && isAlias p.name && pos != .join
    | _ =>
      if pos == .letValue then true                            -- qualified name in a let value
      else parts.any (fun p => !p.quoted && isAlias p.name) && pos != .join
  | .lit .. => false
  | .unary _ _ x => badExpr pos bound x
  | .binary x _ _ y => badExpr pos bound x || badExpr pos bound y
  | .inE x _ _ vals _ => badExpr pos bound x || badList pos bound vals
  | .paren _ x _ => badExpr pos bound x
  | .call fn _ args _ => wrongArity fn.name args.length || badList pos bound args
  | .index x _ idx _ => badExpr pos bound x || badExpr pos bound idx
def badList (pos : Pos) (bound : List Bytes) : ExprList → Bool
  | .nil => false
  | .cons e es => badExpr pos bound e || badList pos bound es
end

/-- a bare join key `k` (single unquoted non-constant name) stands for `$left.k == $right.k`
    and is not an expression to check -/
def isBareKey : Expr → Bool
  | .qident [p] => !p.quoted && !isBuiltinConst p.name
  | _ => false

def badConds (bound : List Bytes) : ExprList → Bool
  | .nil => false
  | .cons e es => (!isBareKey e && badExpr .join bound e) || badConds bound es

def badColumn (bound : List Bytes) (c : Column) : Bool :=
  match c.x with
  | .nil => -- `project name`: the name itself is the expression
    match c.name with
    | some n => badExpr .plain bound (.qident [n])
    | none => false
  | x => badExpr .plain bound x

mutual
def badTabular (bound : List Bytes) : Tabular → Bool
  | .nil => false
  | .mk _ ops => badOps bound ops
def badOps (bound : List Bytes) : OpList → Bool
  | .nil => false
  | .cons o os => badOp bound o || badOps bound os
def badOp (bound : List Bytes) : Op → Bool
  | .count .. => false
  | .where_ _ _ e => badExpr .plain bound e
  | .sort _ _ ts => ts.any fun t => badExpr .plain bound t.x
  | .take _ _ n => badExpr .plain bound n
  | .top _ _ n _ c => badExpr .plain bound n || (match c with | some t => badExpr .plain bound t.x | none => false)
  | .project _ _ cs => cs.any (badColumn bound)
  | .extend _ _ cs => cs.any (badColumn bound)
  | .summarize _ _ cs _ gs => cs.any (badColumn bound) || gs.any (badColumn bound)
  | .join _ _ _ _ _ _ right _ _ conds => badTabular bound right || badConds bound conds
  | .as_ .. => false
  | .render .. => false
end

/-- walk the statements as the compiler does: lets before the query extend the scope -/
def misuseStmts : List Stmt → List Bytes → Nat → Bool
  | [], _, nq => nq != 1
  | .tabular t :: rest, bound, nq =>
    if nq ≥ 1 then true else badTabular bound t || misuseStmts rest bound (nq + 1)
  | .let_ _ name _ x :: rest, bound, nq =>
    if nq ≥ 1 then misuseStmts rest bound nq
    else badExpr .letValue bound x ||
      misuseStmts rest ((match name with | some n => [n.name] | none => []) ++ bound) nq

def misuse (params : List Bytes) (stmts : List Stmt) : Bool := misuseStmts stmts params 0

end Pql.Misuse
