/-
A tiny regular-expression matcher by Brzozowski derivatives over bytes, used to *state*
the lexical grammar declaratively (Spec/LexSpec.lean).  Core Lean only.
-/
import PqlModel.Base.Bytes
namespace Pql

/-- Byte classes are finite unions of ranges plus negation, so that regexes are data. -/
structure ByteClass where
  ranges : List (Nat × Nat)
  negated : Bool := false
  deriving Repr, DecidableEq

def ByteClass.mem (k : ByteClass) (c : UInt8) : Bool :=
  (k.ranges.any fun r => r.1 ≤ c.toNat && c.toNat ≤ r.2) != k.negated

inductive Re
  | empty                 -- matches nothing
  | eps                   -- matches the empty string
  | cls (k : ByteClass)   -- one byte of the class
  | seq (a b : Re)
  | alt (a b : Re)
  | star (a : Re)
  deriving Repr, DecidableEq

namespace Re

def nullable : Re → Bool
  | empty => false
  | eps => true
  | cls _ => false
  | seq a b => a.nullable && b.nullable
  | alt a b => a.nullable || b.nullable
  | star _ => true

/-- smart constructors keep the dead state recognisable as `empty` -/
def mkSeq (a b : Re) : Re :=
  match a, b with
  | empty, _ => empty
  | _, empty => empty
  | eps, b => b
  | a, eps => a
  | a, b => seq a b

def mkAlt (a b : Re) : Re :=
  match a, b with
  | empty, b => b
  | a, empty => a
  | a, b => if a = b then a else alt a b

def deriv (c : UInt8) : Re → Re
  | empty => empty
  | eps => empty
  | cls k => if k.mem c then eps else empty
  | seq a b =>
    let d := mkSeq (a.deriv c) b
    if a.nullable then mkAlt d (b.deriv c) else d
  | alt a b => mkAlt (a.deriv c) (b.deriv c)
  | star a => mkSeq (a.deriv c) (star a)

/-- length of the longest prefix of `s` matched by `r` (`none` if no prefix matches);
    `n` = bytes consumed so far, `best` = longest match seen so far -/
def longestFrom : Re → Bytes → Nat → Option Nat → Option Nat
  | r, [], n, best => if r.nullable then some n else best
  | r, c :: rest, n, best =>
    let best := if r.nullable then some n else best
    let d := r.deriv c
    if d = empty then best else longestFrom d rest (n + 1) best

def longest (r : Re) (s : Bytes) : Option Nat := longestFrom r s 0 none

/-- whole-string match -/
def matchesAll (r : Re) (s : Bytes) : Bool := (s.foldl (fun r c => r.deriv c) r).nullable

-- notation helpers
def byte (c : Nat) : Re := cls ⟨[(c, c)], false⟩
def range (a b : Nat) : Re := cls ⟨[(a, b)], false⟩
def oneOf (cs : List Nat) : Re := cls ⟨cs.map fun c => (c, c), false⟩
def noneOf (cs : List Nat) : Re := cls ⟨cs.map fun c => (c, c), true⟩
def ranges (rs : List (Nat × Nat)) : Re := cls ⟨rs, false⟩
def opt (a : Re) : Re := alt a eps
def plus (a : Re) : Re := seq a (star a)
def seqs : List Re → Re
  | [] => eps
  | [a] => a
  | a :: as => seq a (seqs as)
def alts : List Re → Re
  | [] => empty
  | [a] => a
  | a :: as => alt a (alts as)

end Re
end Pql
