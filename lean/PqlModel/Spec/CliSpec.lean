/-
C16: what the command-line tool must do, stated on the whole input at once — no line loop,
no pending buffer: split the normalised input (every delivered line followed by '\n') into
statements once; every statement but the last is a `let` (accepted into the prelude iff it
compiles together with the prelude and a dummy query) or a query (compiled with the prelude;
SQL and a blank line, or an error); the last piece, if it contains any token, is compiled as a
query with the prelude; the exit status is non-zero iff some statement failed or the input
could not be read completely.
-/
import PqlModel.Model.Lex
import PqlModel.Model.Cli
namespace Pql.CliSpec
open Pql

def normalise (lines : List Bytes) : Bytes := lines.flatMap fun l => l ++ [10]

structure Acc where
  lets : Bytes := []
  out : Bytes := []
  nErrors : Nat := 0

def statement (compile : Bytes → Option Bytes) (a : Acc) (stmt : Bytes) : Acc :=
  if isLetStatement stmt then
    match compile (a.lets ++ stmt ++ Bytes.ofString ";X") with
    | some _ => { a with lets := a.lets ++ stmt ++ Bytes.ofString ";\n" }
    | none => { a with nErrors := a.nErrors + 1 }
  else
    match compile (a.lets ++ stmt) with
    | some sql => { a with out := a.out ++ sql ++ [10, 10] }
    | none => { a with nErrors := a.nErrors + 1 }

def run (compile : Bytes → Option Bytes) (lines : List Bytes) (readErr : Bool) : CliResult :=
  let pieces := splitStatements (normalise lines)
  let terminated := pieces.dropLast
  let last := pieces.getLast?.getD []
  let a := terminated.foldl (statement compile) {}
  let a := if readErr then { a with nErrors := a.nErrors + 1 } else a
  if (scan last).isEmpty then ⟨a.out, a.nErrors, a.nErrors > 0⟩
  else
    match compile (a.lets ++ last) with
    | some sql => ⟨a.out ++ sql ++ [10, 10], a.nErrors, a.nErrors > 0⟩
    | none => ⟨a.out, a.nErrors + 1, true⟩

end Pql.CliSpec
