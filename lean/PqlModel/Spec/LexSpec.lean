/-
The lexical grammar of PQL stated declaratively (regular expressions + maximal munch),
written independently of Model/Lex.lean.  It serves two purposes:

* it is the reference tokenizer the C09/C15 oracles run on the implementation's output;
* `Props/C09.lean` relates the model scanner to it.

What "the language defines", per property C09:
  identifiers      [A-Za-z_$][A-Za-z0-9_]*      (and or in by are keywords)
  quoted names     ` ( [^`\n] | `` )* `          a back-quote directly followed by a
                                                  back-quote is always a doubled one
  strings          q ( [^q\\\n] | \\ [^\n] )* q   q ∈ {' "}; \n, \t, \c ↦ LF, TAB, c
  numbers          D+ (. D*)? E? | . D+ E?   with E = [eE][+-]?D+ ;   0[xX]H+ (< 2^64)
  operators        == =~ != !~ <= >= = < > + - * / % | . , ; ( ) [ ]
  trivia           white space (Go's unicode.IsSpace), // … end of line
  error pieces     an unterminated string or quoted name up to (not including) the end of
                   the line; `0x`/`0X` without a hex digit; a hex literal ≥ 2^64; any
                   other single rune (an invalid byte counts as one rune)
-/
import PqlModel.Base.Utf8
import PqlModel.Model.Token
import PqlModel.Spec.Regex
namespace Pql.LexSpec
open Pql Re

def D : Re := range 48 57
def H : Re := ranges [(48, 57), (97, 102), (65, 70)]
def identStart : Re := ranges [(97, 122), (65, 90), (95, 95), (36, 36)]
def identCont : Re := ranges [(97, 122), (65, 90), (48, 57), (95, 95)]

def reIdent : Re := seq identStart (star identCont)
def reExp : Re := seqs [oneOf [101, 69], opt (oneOf [43, 45]), plus D]
def reDecimal : Re :=
  alt (seqs [plus D, opt (seq (byte 46) (star D)), opt reExp])
      (seqs [byte 46, plus D, opt reExp])
def reHex : Re := seqs [byte 48, oneOf [120, 88], plus H]
def reHexPrefix : Re := seq (byte 48) (oneOf [120, 88])

def reQidentBody : Re := star (alt (noneOf [96, 10]) (seq (byte 96) (byte 96)))
def reQidentClosed : Re := seqs [byte 96, reQidentBody, byte 96]
def reQidentOpen : Re := seq (byte 96) reQidentBody

def reStringBody (q : Nat) : Re := star (alt (noneOf [q, 92, 10]) (seq (byte 92) (noneOf [10])))
def reStringClosed (q : Nat) : Re := seqs [byte q, reStringBody q, byte q]
def reStringOpen (q : Nat) : Re := seqs [byte q, reStringBody q, opt (byte 92)]

def reComment : Re := seqs [byte 47, byte 47, star (noneOf [10]), opt (byte 10)]

/-- value of a quoted name: un-double the back-quotes of the body -/
def undouble : Bytes → Bytes
  | 96 :: 96 :: rest => 96 :: undouble rest
  | c :: rest => c :: undouble rest
  | [] => []

/-- value of a string: process the escapes of the body -/
def unescape : Bytes → Bytes
  | 92 :: e :: rest => (if e == 110 then 10 else if e == 116 then 9 else e) :: unescape rest
  | c :: rest => c :: unescape rest
  | [] => []

def keywords : List (Bytes × TokKind) :=
  [(Bytes.ofString "and", .and_), (Bytes.ofString "or", .or_),
   (Bytes.ofString "in", .in_), (Bytes.ofString "by", .by_)]

/-- decimal spelling normalised the way the language prints numbers: no redundant leading
    zeros, at least one digit before a '.' or exponent -/
def normalizeDecimal (s : Bytes) : Bytes :=
  let t := s.dropWhile (· == 48)
  match t with
  | [] => [48]
  | c :: _ => if c == 46 || c == 101 || c == 69 then 48 :: t else t

def hexDigitVal (c : UInt8) : Nat :=
  let n := c.toNat
  if n ≤ 57 then n - 48 else if n ≤ 70 then n - 55 else n - 87

def hexValue (ds : Bytes) : Nat := ds.foldl (fun a c => a * 16 + hexDigitVal c) 0

def decimalOfNat (n : Nat) : Bytes := Bytes.ofString (toString n)

def twoCharOps : List (UInt8 × UInt8 × TokKind) :=
  [(61, 61, .eq), (61, 126, .cieq), (33, 61, .ne), (33, 126, .cine), (60, 61, .le), (62, 61, .ge)]

def oneCharOps : List (UInt8 × TokKind) :=
  [(61, .assign), (60, .lt), (62, .gt), (43, .plus), (45, .minus), (42, .star), (47, .slash),
   (37, .mod), (124, .pipe), (46, .dot), (44, .comma), (59, .semi), (40, .lparen), (41, .rparen),
   (91, .lbracket), (93, .rbracket)]

/-- A piece of source: trivia, or a token with kind and value. -/
inductive Piece
  | trivia (w : Nat)
  | tok (k : TokKind) (v : Bytes) (w : Nat)
  deriving Repr, DecidableEq

def Piece.width : Piece → Nat
  | .trivia w => w
  | .tok _ _ w => w

/-- The piece at the head of a non-empty suffix, by maximal munch. -/
def pieceAt (s : Bytes) : Piece :=
  match s with
  | [] => .trivia 0
  | c :: rest =>
    -- trivia
    let rw := decodeRune s
    if isSpaceRune rw.1 then .trivia rw.2
    else if let some w := reComment.longest s then .trivia w
    -- identifiers and keywords
    else if let some w := reIdent.longest s then
      let text := s.take w
      match keywords.find? (fun kv => kv.1 == text) with
      | some kv => .tok kv.2 [] w
      | none => .tok .ident text w
    -- numbers
    else if let some w := reHex.longest s then
      let v := hexValue ((s.take w).drop 2)
      if v < 2 ^ 64 then .tok .number (decimalOfNat v) w else .tok .error [] w
    else if (reHexPrefix.longest s).isSome then .tok .error [] 2
    else if let some w := reDecimal.longest s then .tok .number (normalizeDecimal (s.take w)) w
    -- strings
    else if c == 39 || c == 34 then
      match (reStringClosed c.toNat).longest s with
      | some w => .tok .string (unescape ((s.take (w - 1)).drop 1)) w
      | none => .tok .error [] (((reStringOpen c.toNat).longest s).getD 1)
    -- quoted names
    else if c == 96 then
      match reQidentClosed.longest s with
      | some w =>
        if (s.drop w).head? == some 96 then .tok .error [] ((reQidentOpen.longest s).getD 1)
        else .tok .qident (undouble ((s.take (w - 1)).drop 1)) w
      | none => .tok .error [] ((reQidentOpen.longest s).getD 1)
    -- operators
    else
      match rest.head?.bind (fun d => twoCharOps.find? (fun o => o.1 == c && o.2.1 == d)) with
      | some o => .tok o.2.2 [] 2
      | none =>
        match oneCharOps.find? (fun o => o.1 == c) with
        | some o => .tok o.2 [] 1
        | none => .tok .error [] (max rw.2 1)

/-- Reference tokenizer: `fuel` bounds the number of pieces (use `s.length + 1`). -/
def tokensFrom : Nat → Bytes → Nat → List Token
  | 0, _, _ => []
  | _, [], _ => []
  | fuel + 1, s, off =>
    let p := pieceAt s
    let w := max p.width 1
    let tl := tokensFrom fuel (s.drop w) (off + w)
    match p with
    | .trivia _ => tl
    | .tok k v _ => ⟨k, off, off + w, v⟩ :: tl

def tokens (s : Bytes) : List Token := tokensFrom (s.length + 1) s 0

/-- white space and comments only -/
def isTriviaOnly (fuel : Nat) (s : Bytes) : Bool :=
  match fuel, s with
  | _, [] => true
  | 0, _ => false
  | fuel + 1, s =>
    match pieceAt s with
    | .trivia w => isTriviaOnly fuel (s.drop (max w 1))
    | .tok .. => false

end Pql.LexSpec
