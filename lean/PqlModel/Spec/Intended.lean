/-
The intended SQL *statement* (abstract syntax) of a PQL pipeline: the statement-level counterpart of
`CompileOracle.tr` (which gives the intended SQL expression of a PQL expression).

  splitA     the documented splitting of a pipeline into a chain of SELECTs, with structured
             sources (a table name, or the two sides and the condition of a join) instead of
             already written SQL text;
  selOf      the SELECT one link of the chain stands for, expressions translated by `tr`;
  stmtOf     `WITH name AS (select), … select`  — the last link is the body;
  intended   the whole thing for a program (lets resolved by `CompileOracle.resolveLets`).

It is the middle of the compiler-correctness argument

    bytes Compile emits  ──lex──▶  tokens  ──parseStatement──▶  Statement  ≈  intended   (C05, C01)
    evalStatement db intended  =  Rel.interp db pipeline                                 (C02, C03)

and is checked against the implementation on every generated program by the clause
`c05-intended-statement` (`intendedClauses`): reading the implementation's SQL with the reference
lexer and parser gives the intended statement, modulo `normS`.
-/
import PqlModel.Spec.Sql.SameMeaning
import PqlModel.Spec.CompileOracle
namespace Pql.Intended
open Pql Sql CompileOracle

/-- where a link of the chain reads from -/
inductive SrcA
  | table (name : Bytes)
  /-- `unique`: the left side is de-duplicated first (innerunique); `left`: LEFT JOIN (leftouter);
      `cond`: the AND-ed condition, bare keys already rewritten (`buildJoinCondition`) -/
  | join (unique : Bool) (left : Bool) (leftName rightName : Bytes) (cond : Expr)
  deriving Inhabited

structure SubA where
  name : Bytes
  source : SrcA
  op : Option Op := none
  sort : Option (List SortTerm) := none
  take : Option Expr := none
  deriving Inhabited

/-- a fresh link reading from the previous link of this pipeline, or from the pipeline's table -/
def chainA (dst : List SubA) (dstStart : Nat) (src : Option Ident) : SubA :=
  { name := subqueryName dst.length
    source := .table (if dst.length > dstStart then
        match dst.getLast? with
        | some s => s.name
        | none => []
      else identName src) }

def setLastA (dst : List SubA) (f : SubA → SubA) : List SubA :=
  match dst.reverse with
  | [] => []
  | s :: rest => (f s :: rest).reverse

def lastOfA (dst : List SubA) (dstStart : Nat) : Option SubA :=
  if dst.length > dstStart then dst.getLast? else none

mutual
/-- the chain of a tabular expression, appended to `dst`; `none`: not compilable (a `top` without
    column, an unknown join kind, a missing pipeline) -/
def splitA (dst : List SubA) : Tabular → Option (List SubA)
  | .nil => none
  | .mk source ops => do
    let dstStart := dst.length
    let dst ← splitOpsA source dstStart dst ops
    if dst.length = dstStart then pure (dst ++ [chainA dst dstStart source]) else pure dst

def splitOpsA (source : Option Ident) (dstStart : Nat) (dst : List SubA) : OpList → Option (List SubA)
  | .nil => some dst
  | .cons o rest =>
    let last := lastOfA dst dstStart
    match o with
    | .as_ _ _ name =>
      let s := chainA dst dstStart source
      splitOpsA source dstStart (dst ++ [{ s with name := identName name, op := some o }]) rest
    | .sort _ _ terms =>
      let attach := match last with
        | some l => canAttachSort l.op && l.sort.isNone && l.take.isNone
        | none => false
      let dst := if attach then dst else dst ++ [chainA dst dstStart source]
      splitOpsA source dstStart (setLastA dst fun s => { s with sort := some terms }) rest
    | .take _ _ n =>
      let attach := match last with
        | some l => canAttachSort l.op && l.take.isNone
        | none => false
      let dst := if attach then dst else dst ++ [chainA dst dstStart source]
      splitOpsA source dstStart (setLastA dst fun s => { s with take := some n }) rest
    | .top _ _ n _ col =>
      let attach := match last with
        | some l => canAttachSort l.op && l.sort.isNone && l.take.isNone
        | none => false
      let dst := if attach then dst else dst ++ [chainA dst dstStart source]
      match col with
      | none => none
      | some c => splitOpsA source dstStart (setLastA dst fun s => { s with sort := some [c], take := some n }) rest
    | .join _ _ _ _ flavor _ right _ _ conds => do
      let leftIdx : Int := (dst.length : Int) - 1
      let dst ← splitA dst right
      let rightName := match dst.getLast? with | some s => s.name | none => []
      let flavorName := match flavor with | some f => f.name | none => Bytes.ofString "innerunique"
      let unique := flavorName == Bytes.ofString "innerunique"
      let leftName : Bytes :=
        if leftIdx ≥ (dstStart : Int) then
          match dst[leftIdx.toNat]? with
          | some s => s.name
          | none => []
        else identName source
      let left : Option Bool :=
        if flavorName == Bytes.ofString "inner" || unique then some false
        else if flavorName == Bytes.ofString "leftouter" then some true
        else none
      match left with
      | none => none
      | some left =>
        splitOpsA source dstStart
          (dst ++ [{ name := subqueryName dst.length, source := .join unique left leftName rightName (buildJoinCondition conds) }]) rest
    | _ =>
      let s := chainA dst dstStart source
      splitOpsA source dstStart (dst ++ [{ s with op := some o }]) rest
end

/-! ### the SELECT of one link -/

def aliasOf (src : Bytes) (c : Column) : Bytes :=
  match c.name with
  | some n => n.name
  | none =>
    let sp := c.x.spanOf
    if 0 ≤ sp.start ∧ sp.start ≤ sp.stop then (src.drop sp.start.toNat).take (sp.stop - sp.start).toNat else []

def itemOf (src : Bytes) (c : Column) : Option SelectItem := do
  let e ← tr false c.x
  pure ⟨false, e, some (aliasOf src c)⟩

def projectItem (c : Column) : Option SelectItem := do
  let e ← match c.x with
    | .nil => tr false (.qident (match c.name with | some n => [n] | none => []))
    | x => tr false x
  pure ⟨false, e, some (identName c.name)⟩

def starItem : SelectItem := ⟨true, .none_, none⟩

def orderOf (t : SortTerm) : Option OrderTerm := do
  let e ← tr false t.x
  pure ⟨e, t.asc, t.nullsFirst⟩

def leftA : Bytes := Bytes.ofString "$left"
def rightA : Bytes := Bytes.ofString "$right"

def selOf (src : Bytes) (s : SubA) : Option Select := do
  let (source, join) : TableRef × Option JoinClause ←
    match s.source with
    | .table n => pure (TableRef.named n none, none)
    | .join unique left l r cond => do
      let c ← tr true cond
      pure (if unique then TableRef.distinctOf l (some leftA) else TableRef.named l (some leftA),
            some ⟨left, .named r (some rightA), c⟩)
  let base : Select := { items := [starItem], source, join, where_ := none, groupBy := [], orderBy := [], limit := none }
  let body : Select ←
    match s.op with
    | none => pure base
    | some (.as_ ..) => pure base
    | some (.project _ _ cols) => do
      let items ← cols.mapM projectItem
      pure { base with items }
    | some (.extend _ _ cols) => do
      let items ← cols.mapM (itemOf src)
      pure { base with items := starItem :: items }
    | some (.summarize _ _ cols _ groupBy) => do
      let gs ← groupBy.mapM (itemOf src)
      let cs ← cols.mapM (itemOf src)
      let gb ← groupBy.mapM fun c => tr false c.x
      pure { base with items := gs ++ cs, groupBy := gb }
    | some (.where_ _ _ pred) => do
      let p ← tr false pred
      pure { base with where_ := some p }
    | some (.count ..) =>
      pure { base with items := [⟨false, .call (Bytes.ofString "COUNT") true .nil .none_, some (Bytes.ofString "count()")⟩] }
    | some (.render _ _ chart _ _ props _) =>
      pure { base with items := starItem :: ⟨false, .str (identName chart), some (Bytes.ofString "render_type")⟩ ::
              props.map fun p => ⟨false, .str (renderPropValue p.value), some (Bytes.ofString "render_prop_" ++ identName p.name)⟩ }
    | some _ => none
  let orderBy ← match s.sort with
    | some terms => terms.mapM orderOf
    | none => pure []
  let limit ← match s.take with
    | some n => (tr false n).map some
    | none => pure none
  pure { body with orderBy, limit }

/-- `WITH n₁ AS (s₁), … sₖ` — all links but the last are common table expressions -/
def stmtOf (src : Bytes) (subs : List SubA) : Option Statement :=
  match subs.reverse with
  | [] => none
  | q :: ctesRev => do
    let ctes ← ctesRev.reverse.mapM fun s => do pure (s.name, ← selOf src s)
    let body ← selOf src q
    pure ⟨ctes, body⟩

/-- the intended statement of a program: lets resolved, then the chain of its single query -/
def intended (src : Bytes) (stmts : List Stmt) : Option Statement := do
  let t ← resolveLets stmts []
  let subs ← splitA [] t
  stmtOf src subs

/-! ### the oracle clause -/

/-- the two SELECTs have the same clause structure (items with the same star flags and aliases,
    same sources and join kind, the same clauses present, the same sort directions); only the
    expressions inside may differ -/
def selectSkeletonEq (a b : Select) : Bool :=
  a.distinct == b.distinct &&
  a.items.length == b.items.length &&
  ((a.items.zip b.items).all fun (x, y) => x.star == y.star && x.alias == y.alias) &&
  tableRefEq a.source b.source &&
  (match a.join, b.join with
   | none, none => true
   | some j, some k => j.left == k.left && tableRefEq j.table k.table
   | _, _ => false) &&
  a.where_.isSome == b.where_.isSome && a.groupBy.length == b.groupBy.length &&
  a.orderBy.length == b.orderBy.length &&
  ((a.orderBy.zip b.orderBy).all fun (x, y) => x.asc == y.asc && x.nullsFirst == y.nullsFirst) &&
  a.limit.isSome == b.limit.isSome

mutual
/-- forget the contents of string and number literals -/
def eraseLits : SExpr → SExpr
  | .str _ => .str []
  | .num _ => .num []
  | .call fn st args fl => .call fn st (eraseLitsL args) (eraseLits fl)
  | .case_ a b c => .case_ (eraseLits a) (eraseLits b) (eraseLits c)
  | .neg x => .neg (eraseLits x)
  | .pos x => .pos (eraseLits x)
  | .not_ x => .not_ (eraseLits x)
  | .bin op x y => .bin op (eraseLits x) (eraseLits y)
  | .isNull x n => .isNull (eraseLits x) n
  | .inList x vs => .inList (eraseLits x) (eraseLitsL vs)
  | .index x i => .index (eraseLits x) (eraseLits i)
  | e => e
def eraseLitsL : SExprList → SExprList
  | .nil => .nil
  | .cons e es => .cons (eraseLits e) (eraseLitsL es)
end

def eraseLitsSel (s : Select) : Select :=
  { s with
    items := s.items.map fun it => { it with expr := eraseLits it.expr }
    join := s.join.map fun j => { j with on := eraseLits j.on }
    where_ := s.where_.map eraseLits
    groupBy := s.groupBy.map eraseLits
    orderBy := s.orderBy.map fun o => { o with expr := eraseLits o.expr }
    limit := s.limit.map eraseLits }

/-- the two statements differ at most in the contents of string / number literals -/
def statementEqUpToLits (a b : Statement) : Bool :=
  statementEq ⟨a.ctes.map fun c => (c.1, eraseLitsSel (normSel c.2)), eraseLitsSel (normSel a.body)⟩
              ⟨b.ctes.map fun c => (c.1, eraseLitsSel (normSel c.2)), eraseLitsSel (normSel b.body)⟩

def statementSkeletonEq (a b : Statement) : Bool :=
  a.ctes.length == b.ctes.length &&
  ((a.ctes.zip b.ctes).all fun (x, y) => x.1 == y.1 && selectSkeletonEq x.2 y.2) &&
  selectSkeletonEq a.body b.body

/-- `COMPILE` results without parameters: a successful result reads as the intended statement.
    Programs with lets are compared only when no column takes its name from the source text
    (the text of a reference to a let differs from the text of its value). -/
def intendedClauses (src : Bytes) (params : List (Bytes × Bytes)) (impl : String) : List String :=
  if !params.isEmpty then [] else
  match impl.splitOn " " with
  | "OK" :: h :: _ =>
    match Bytes.ofHex h with
    | none => []
    | some sql =>
      let parsed := parse src
      if !parsed.2.isEmpty then [] else
      let hasLet := parsed.1.any fun | .let_ .. => true | _ => false
      match resolveLets parsed.1 [] with
      | none => []
      | some t =>
        if hasLet && hasUnnamedColumn t then [] else
        match readSqlAny sql, intended src parsed.1 with
        | some got, some want =>
          if statementEq got want then []
          else if stmtsHaveKeywordFn parsed.1 then ["c01-keyword-function-name"]      -- known finding K4
          else
            -- The intended statement is ONE correct output, not the only one: an equivalent arrangement (a WHERE
            -- folded into the SELECT it filters, merged literal limits, another spelling of an expression)
            -- violates nothing.  A difference is a failing input only if the two statements also EVALUATE
            -- differently on a synthesised database (Sql.differOn); the clause names the property by what differs.
            match Sql.differOn 12 got want with
            | none => []
            | some seed =>
              let isJoin := (got.ctes.map (·.2) ++ [got.body]).any (·.join.isSome) || (want.ctes.map (·.2) ++ [want.body]).any (·.join.isSome)
              -- same chain of SELECTs with the same clauses: what differs is a scalar expression (C01)
              (if statementSkeletonEq got want then ["c01-expression-differs"] else []) ++
              -- everything but the CONTENT of a string / number literal is as intended: the value written
              -- in PQL is not the value the SQL token decodes to (C04)
              (if statementEqUpToLits got want then ["c04-literal-value-differs"] else []) ++
              [(if isJoin then "c03" else "c02") ++ "-result-differs-from-intended-statement synthdb=" ++ toString seed]
        | some _, none => ["c05-intended-statement-missing"]
        | none, _ => []          -- reported by c05-parse
  | _ => []

end Pql.Intended
