/-
The bridge between the bytes the writer emits and the SQL reading (DESIGN §5): every chunk
stands for a fixed list of SQL tokens.  `LexRender` (Props/C01LexRender.lean) shows that lexing
the rendered bytes of a writer's chunk list yields exactly these tokens; `ParseRoundtrip`
(Props/C01Syntactic.lean) shows that the SQL parser reads them as the intended translation.
-/
import PqlModel.Model.Compile
import PqlModel.Spec.Sql.Parse
namespace Pql
open Sql

/-- tokens of a fixed piece of SQL text the writer emits -/
def txtToks (s : String) : List STok := (lex .standard (Bytes.ofString s)).getD []

def chunkToks : Chunk → List STok
  | .txt s => txtToks s
  | .qid n => [.qid n]
  | .qstr v => [.str v]
  | .num v => [.num v]
  | .fname v => [.word v]
  | .raw v => (lex .standard v).getD []

def toksOf (cs : List Chunk) : List STok := cs.flatMap chunkToks

/-- a number spelling the SQL lexer reads as one number token: digits, optional fraction,
    optional exponent (what the PQL scanner's normalised number values look like) -/
def numOK (v : Bytes) : Bool := lex .standard v == some [.num v]

/-- a pass-through function name: one word token (what PQL identifier tokens look like, `$`
    excluded at the start) -/
def nameOK (v : Bytes) : Bool := lex .standard v == some [.word v]

mutual
/-- every number literal and every pass-through function name in the tree is lexable as such -/
def Expr.lexOK : Expr → Bool
  | .nil => false
  | .qident _ => true
  | .lit _ k v => if k = .number then numOK v else k = .string
  | .unary _ op x => (op = .plus || op = .minus) && x.lexOK
  | .binary x _ _ y => x.lexOK && y.lexOK
  | .inE x _ _ vals _ => x.lexOK && vals.lexOK
  | .paren _ x _ => x.lexOK
  | .call fn _ args _ => ((knownFunction fn.name).isSome || nameOK fn.name) && args.lexOK
  | .index x _ idx _ => x.lexOK && idx.lexOK
def ExprList.lexOK : ExprList → Bool
  | .nil => true
  | .cons e es => e.lexOK && es.lexOK
end

end Pql
