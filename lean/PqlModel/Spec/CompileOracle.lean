/-
C01 / C04 / C05 / C06 / C13 clauses evaluated on the string the implementation's `Compile`
returned, read with the independent SQL reader of Spec/Sql.
-/
import PqlModel.Spec.Sql.Parse
import PqlModel.Spec.Sql.SameMeaning
import PqlModel.Spec.Sql.ParseLenient
import PqlModel.Spec.Misuse
import PqlModel.Model.Compile
namespace Pql.CompileOracle
open Pql Sql

def lower (b : Bytes) : Bytes := b.map fun c => if 65 ≤ c.toNat && c.toNat ≤ 90 then c + 32 else c

mutual
/-- function names compare case-insensitively -/
def normS : SExpr → SExpr
  | .call fn st args fl => .call (lower fn) st (normL args) (normS fl)
  | .case_ a b c => .case_ (normS a) (normS b) (normS c)
  | .neg x => .neg (normS x)
  | .pos x => .pos (normS x)
  | .not_ x => .not_ (normS x)
  | .bin op x y => .bin (if op == "!=" then "<>" else op) (normS x) (normS y)
  | .isNull x n => .isNull (normS x) n
  | .inList x vs => .inList (normS x) (normL vs)
  | .index x i => .index (normS x) (normS i)
  | e => e
def normL : SExprList → SExprList
  | .nil => .nil
  | .cons e es => .cons (normS e) (normL es)
end

def fnCall (name : String) (args : List SExpr) : SExpr :=
  .call (Bytes.ofString name) false (args.foldr SExprList.cons .nil) .none_

def coalesceFalse (x : SExpr) : SExpr := fnCall "coalesce" [x, .const "FALSE"]

def isName (b : Bytes) (s : String) : Bool := b == Bytes.ofString s

/-- SQL operator of a PQL binary operator that is passed through -/
def plainOp : TokKind → Option String
  | .and_ => some "AND" | .or_ => some "OR" | .plus => some "+" | .minus => some "-" | .star => some "*"
  | .slash => some "/" | .mod => some "%" | .lt => some "<" | .le => some "<=" | .gt => some ">" | .ge => some ">="
  | _ => none

mutual
/-- The intended translation of a PQL expression (no bindings in scope): the SQL expression
    tree the property prescribes.  `none`: the expression is not translatable (misuse). -/
def tr (join : Bool) : Expr → Option SExpr
  | .nil => none
  | .paren _ x _ => tr join x
  | .qident parts =>
    match parts with
    | [p] =>
      if !p.quoted && isName p.name "true" then some (.const "TRUE")
      else if !p.quoted && isName p.name "false" then some (.const "FALSE")
      else if !p.quoted && isName p.name "null" then some (.const "NULL")
      else some (.col [p.name])
    | ps => some (.col (ps.map (·.name)))
  | .lit _ k v => if k = .number then some (.num v) else if k = .string then some (.str v) else none
  | .unary _ op x => do
    let a ← tr join x
    if op = .minus then pure (.neg a) else if op = .plus then pure (.pos a) else none
  | .binary x _ op y => do
    let a ← tr join x
    let b ← tr join y
    if op = .eq then
      -- in a join condition an equality between the two sides is a plain `=`
      let lx := Pql.hasJoinTerms x
      let ly := Pql.hasJoinTerms y
      if join && (lx.1 || ly.1) && (lx.2 || ly.2) then pure (.bin "=" a b)
      else pure (coalesceFalse (.bin "=" a b))
    else if op = .ne then pure (coalesceFalse (.bin "<>" a b))
    else if op = .cieq then pure (.bin "=" (fnCall "lower" [a]) (fnCall "lower" [b]))
    else if op = .cine then pure (.bin "<>" (fnCall "lower" [a]) (fnCall "lower" [b]))
    else match plainOp op with
      | some s => pure (.bin s a b)
      | none => none
  | .inE x _ _ vals _ => do
    let a ← tr join x
    let vs ← trList join vals
    pure (.inList a vs)
  | .index x _ idx _ => do
    let a ← tr join x
    let i ← tr join idx
    pure (.index a i)
  | .call fn _ args _ => do
    let as ← trList join args
    let l := as.toList
    let n := fn.name
    if isName n "not" then match l with | [a] => pure (.not_ a) | _ => none
    else if isName n "isnull" then match l with | [a] => pure (.isNull a false) | _ => none
    else if isName n "isnotnull" then match l with | [a] => pure (.isNull a true) | _ => none
    else if isName n "iff" || isName n "iif" then
      match l with | [c, t, e] => pure (.case_ (coalesceFalse c) t e) | _ => none
    else if isName n "strcat" then
      match l with
      | a :: rest => pure (rest.foldl (fun acc b => .bin "||" acc b) a)
      | [] => none
    else if isName n "tolower" then match l with | [a] => pure (fnCall "lower" [a]) | _ => none
    else if isName n "toupper" then match l with | [a] => pure (fnCall "upper" [a]) | _ => none
    else if isName n "now" then match l with | [] => pure (.const "CURRENT_TIMESTAMP") | _ => none
    else if isName n "count" then match l with | [] => pure (fnCall "count" []) | _ => none
    else if isName n "countif" then
      match l with | [a] => pure (.call (Bytes.ofString "count") false .nil a) | _ => none
    else pure (.call (lower n) false as .none_)
def trList (join : Bool) : ExprList → Option SExprList
  | .nil => some .nil
  | .cons e es => do
    let a ← tr join e
    let as ← trList join es
    pure (.cons a as)
end

/-! ### C05 structure checks -/

def balanced : List STok → List String → Bool
  | [], stack => stack.isEmpty
  | .sym "(" :: ts, stack => balanced ts (")" :: stack)
  | .sym "[" :: ts, stack => balanced ts ("]" :: stack)
  | .sym ")" :: ts, stack => match stack with | ")" :: s => balanced ts s | _ => false
  | .sym "]" :: ts, stack => match stack with | "]" :: s => balanced ts s | _ => false
  | _ :: ts, stack => balanced ts stack

def tableOf : TableRef → Bytes
  | .named n _ => n
  | .distinctOf n _ => n

def selectTables (s : Select) : List Bytes :=
  tableOf s.source :: (match s.join with | some j => [tableOf j.table] | none => [])

mutual
def tabularTables : Tabular → List Bytes
  | .nil => []
  | .mk src ops => (match src with | some i => [i.name] | none => []) ++ opsTables ops
def opsTables : OpList → List Bytes
  | .nil => []
  | .cons (.join _ _ _ _ _ _ right _ _ _) os => tabularTables right ++ opsTables os
  | .cons _ os => opsTables os
end

mutual
def tabularAsNames : Tabular → List Bytes
  | .nil => []
  | .mk _ ops => opsAsNames ops
def opsAsNames : OpList → List Bytes
  | .nil => []
  | .cons (.join _ _ _ _ _ _ right _ _ _) os => tabularAsNames right ++ opsAsNames os
  | .cons (.as_ _ _ (some n)) os => n.name :: opsAsNames os
  | .cons _ os => opsAsNames os
end

def stmtAsNames (stmts : List Stmt) : List Bytes :=
  stmts.flatMap fun | .tabular t => tabularAsNames t | _ => []

def isGeneratedName (n : Bytes) : Bool :=
  let p := Bytes.ofString "__subquery"
  n.take p.length == p

def stmtTables (stmts : List Stmt) : List Bytes :=
  stmts.flatMap fun | .tabular t => tabularTables t | _ => []

def hasDup' : List Bytes → Bool
  | [] => false
  | x :: xs => xs.contains x || hasDup' xs

/-- K3: a name chosen with `as`, or a source table, collides with another CTE name -/
def nameCapture (stmts : List Stmt) : Bool :=
  let asNames := stmtAsNames stmts
  let src := stmtTables stmts
  hasDup' asNames || asNames.any isGeneratedName || src.any isGeneratedName || asNames.any src.contains

def hasDup : List Bytes → Bool
  | [] => false
  | x :: xs => xs.contains x || hasDup xs

/-- every table a select reads is a source table or a CTE defined earlier -/
def closedCtes (srcTables : List Bytes) : List (Bytes × Select) → List Bytes → Bool
  | [], _ => true
  | (n, sel) :: rest, earlier =>
    (selectTables sel).all (fun t => earlier.contains t || srcTables.contains t) && closedCtes srcTables rest (n :: earlier)

def structureClauses (stmts : List Stmt) (sql : Bytes) : List String × Option Statement :=
  match lexRaw .standard sql with
  | none => (["c05-lex"], none)
  | some raw =>
    let toks := raw.filter (· != .comment)
    let semis := toks.filter (· == .sym ";")
    let c1 := if raw.contains .comment then ["c05-comment-or-placeholder"] else []
    let c2 := if semis.length == 1 && toks.getLast? == some (.sym ";") then [] else ["c05-semicolon"]
    let c3 := if balanced toks [] then [] else ["c05-brackets"]
    match parseStatementAny toks with
    | none => (c1 ++ c2 ++ c3 ++ ["c05-parse"], none)
    | some st =>
      let names := st.ctes.map (·.1)
      let src := stmtTables stmts
      let used := (st.ctes.map (·.2) ++ [st.body]).flatMap selectTables
      (c1 ++ c2 ++ c3 ++
        -- names chosen with `as` and source tables that look like generated names can collide
        -- (name capture): reported separately from a collision among generated names
        (let asNames := stmtAsNames stmts
         let capture := hasDup asNames || asNames.any isGeneratedName || src.any isGeneratedName ||
                        asNames.any src.contains
         if hasDup names then [if capture then "c05-name-capture" else "c05-duplicate-cte-name"] else []) ++
        (if closedCtes src st.ctes [] && (selectTables st.body).all (fun t => names.contains t || src.contains t)
          then [] else ["c05-unknown-table"]) ++
        (if names.all used.contains then [] else ["c05-unused-cte"]), some st)

/-! ### C06: resolve bindings by substitution -/

mutual
/-- replace every unquoted single-part identifier bound in `env` by its (parenthesised) value -/
def substExpr (env : List (Bytes × Expr)) : Expr → Expr
  | .qident [p] =>
    if p.quoted then .qident [p]
    else match env.find? (·.1 == p.name) with
      | some (_, v) => .paren .zero v .zero
      | none => .qident [p]
  | .unary a b x => .unary a b (substExpr env x)
  | .binary x a b y => .binary (substExpr env x) a b (substExpr env y)
  | .inE x a b vals c => .inE (substExpr env x) a b (substList env vals) c
  | .paren a x b => .paren a (substExpr env x) b
  | .call fn a args b => .call fn a (substList env args) b
  | .index x a i b => .index (substExpr env x) a (substExpr env i) b
  | e => e
def substList (env : List (Bytes × Expr)) : ExprList → ExprList
  | .nil => .nil
  | .cons e es => .cons (substExpr env e) (substList env es)
end

def substColumn (env : List (Bytes × Expr)) (c : Column) : Column :=
  match c.x, c.name with
  | .nil, some n =>
    -- `project name` stands for `project name = name`
    (match env.find? (·.1 == n.name) with
     | some (_, v) => if n.quoted then c else { c with assign := .zero, x := .paren .zero v .zero }
     | none => c)
  | x, _ => { c with x := substExpr env x }

/-- a bare join key is a column name, not an expression -/
def substCond (env : List (Bytes × Expr)) (e : Expr) : Expr :=
  if Misuse.isBareKey e then e else substExpr env e

def substConds (env : List (Bytes × Expr)) : ExprList → ExprList
  | .nil => .nil
  | .cons e es => .cons (substCond env e) (substConds env es)

mutual
def substTabular (env : List (Bytes × Expr)) : Tabular → Tabular
  | .nil => .nil
  | .mk s ops => .mk s (substOps env ops)
def substOps (env : List (Bytes × Expr)) : OpList → OpList
  | .nil => .nil
  | .cons o os => .cons (substOp env o) (substOps env os)
def substOp (env : List (Bytes × Expr)) : Op → Op
  | .where_ p k e => .where_ p k (substExpr env e)
  | .sort p k ts => .sort p k (ts.map fun t => { t with x := substExpr env t.x })
  | .take p k n => .take p k (substExpr env n)
  | .top p k n b c => .top p k (substExpr env n) b (c.map fun t => { t with x := substExpr env t.x })
  | .project p k cs => .project p k (cs.map (substColumn env))
  | .extend p k cs => .extend p k (cs.map (substColumn env))
  | .summarize p k cs b gs => .summarize p k (cs.map (substColumn env)) b (gs.map (substColumn env))
  | .join p k a b c d right e f conds => .join p k a b c d (substTabular env right) e f (substConds env conds)
  | o => o
end

/-- the query with all let bindings resolved (values resolved in the scope before them);
    `none` if the program has no single query -/
def resolveLets : List Stmt → List (Bytes × Expr) → Option Tabular
  | [], _ => none
  | .tabular t :: _, env => some (substTabular env t)
  | .let_ _ (some n) _ x :: rest, env => resolveLets rest ((n.name, substExpr env x) :: env)
  | .let_ _ none _ _ :: _, _ => none

/-- implicit column names are sliced from the source text, so the twin is only comparable when
    no unnamed extend/summarize column mentions a binding; conservatively: no unnamed columns -/
def hasUnnamedColumn : Tabular → Bool
  | .nil => false
  | .mk _ ops => go ops
where
  go : OpList → Bool
    | .nil => false
    | .cons (.extend _ _ cs) os => cs.any (·.name.isNone) || go os
    | .cons (.summarize _ _ cs _ gs) os => cs.any (·.name.isNone) || gs.any (·.name.isNone) || go os
    | .cons (.join _ _ _ _ _ _ right _ _ _) os => hasUnnamedColumn right || go os
    | .cons _ os => go os

def readSql (sql : Bytes) : Option Statement := (lex .standard sql) >>= parseStatement

/-- for judging the output of a possibly CHANGED compiler: the strict reading, else the tolerant one
    (`Sql/ParseLenient.lean`: INNER JOIN, LEFT OUTER JOIN, SELECT DISTINCT, omitted ASC / NULLS) -/
def readSqlAny (sql : Bytes) : Option Statement := (lex .standard sql) >>= parseStatementAny

mutual
def normSel (s : Select) : Select :=
  { s with
    items := s.items.map fun it => { it with expr := normS it.expr }
    join := s.join.map fun j => { j with on := normS j.on }
    where_ := s.where_.map normS
    groupBy := s.groupBy.map normS
    orderBy := s.orderBy.map fun o => { o with expr := normS o.expr }
    limit := s.limit.map normS }
end

def tableRefEq : TableRef → TableRef → Bool
  | .named a x, .named b y => a == b && x == y
  | .distinctOf a x, .distinctOf b y => a == b && x == y
  | _, _ => false

def optEq (a b : Option SExpr) : Bool :=
  match a, b with
  | none, none => true
  | some x, some y => x == y
  | _, _ => false

def listEq (a b : List SExpr) : Bool := a.length == b.length && (a.zip b).all fun (x, y) => x == y

def selectEq (a b : Select) : Bool :=
  a.distinct == b.distinct &&
  a.items.length == b.items.length &&
  ((a.items.zip b.items).all fun (x, y) => x.star == y.star && x.expr == y.expr && x.alias == y.alias) &&
  tableRefEq a.source b.source &&
  (match a.join, b.join with
   | none, none => true
   | some j, some k => j.left == k.left && tableRefEq j.table k.table && j.on == k.on
   | _, _ => false) &&
  optEq a.where_ b.where_ && listEq a.groupBy b.groupBy &&
  a.orderBy.length == b.orderBy.length &&
  ((a.orderBy.zip b.orderBy).all fun (x, y) => x.expr == y.expr && x.asc == y.asc && x.nullsFirst == y.nullsFirst) &&
  optEq a.limit b.limit

def statementEq (a b : Statement) : Bool :=
  a.ctes.length == b.ctes.length &&
  ((a.ctes.zip b.ctes).all fun (x, y) => x.1 == y.1 && selectEq (normSel x.2) (normSel y.2)) &&
  selectEq (normSel a.body) (normSel b.body)

/-! ### K4: pass-through function names that are SQL operator words -/

def sqlOperatorWords : List String := ["NOT", "AND", "OR", "IN", "IS", "CASE", "WHEN", "THEN", "ELSE", "END", "AS"]

def isKeywordFn (fn : Ident) : Bool :=
  (Pql.knownFunction fn.name).isNone &&
    (sqlOperatorWords.contains (Sql.upper fn.name) || fn.name.head? == some 36)   -- `$name(…)`: not an SQL word at all

mutual
def exprHasKeywordFn : Expr → Bool
  | .call fn _ args _ => isKeywordFn fn || listHasKeywordFn args
  | .unary _ _ x | .paren _ x _ => exprHasKeywordFn x
  | .binary x _ _ y | .index x _ y _ => exprHasKeywordFn x || exprHasKeywordFn y
  | .inE x _ _ vs _ => exprHasKeywordFn x || listHasKeywordFn vs
  | _ => false
def listHasKeywordFn : ExprList → Bool
  | .nil => false
  | .cons e es => exprHasKeywordFn e || listHasKeywordFn es
end

def columnHasKeywordFn (c : Column) : Bool := exprHasKeywordFn c.x

mutual
def tabularHasKeywordFn : Tabular → Bool
  | .nil => false
  | .mk _ ops => opsHaveKeywordFn ops
def opsHaveKeywordFn : OpList → Bool
  | .nil => false
  | .cons o os => opHasKeywordFn o || opsHaveKeywordFn os
def opHasKeywordFn : Op → Bool
  | .where_ _ _ e | .take _ _ e => exprHasKeywordFn e
  | .sort _ _ ts => ts.any fun t => exprHasKeywordFn t.x
  | .top _ _ n _ c => exprHasKeywordFn n || (match c with | some t => exprHasKeywordFn t.x | none => false)
  | .project _ _ cs | .extend _ _ cs => cs.any columnHasKeywordFn
  | .summarize _ _ cs _ gs => cs.any columnHasKeywordFn || gs.any columnHasKeywordFn
  | .join _ _ _ _ _ _ right _ _ conds => tabularHasKeywordFn right || listHasKeywordFn conds
  | _ => false
end

/-- the program calls a pass-through function whose name SQL reads as an operator word
    (e.g. `Not(a)`, `Case(x)`): the name is emitted verbatim, so SQL regroups or rejects it -/
def stmtsHaveKeywordFn (stmts : List Stmt) : Bool :=
  stmts.any fun
    | .tabular t => tabularHasKeywordFn t
    | .let_ _ _ _ x => exprHasKeywordFn x

/-! ### the oracle -/

def onlyWhere : List Stmt → Option Expr
  | [.tabular (.mk _ (.cons (.where_ _ _ e) .nil))] => some e
  | _ => none

/-- clauses violated by a `COMPILE` result -/
def clauses (src : Bytes) (params : List (Bytes × Bytes)) (impl : String) : List String :=
  let head := (impl.splitOn " ").headD ""
  if head == "BOTH" then ["c13-both-sql-and-error"]
  else if head == "NEITHER" then ["c13-neither-sql-nor-error"]
  else if head == "PANIC" then ["c12-panic"]
  else if head == "HANG" then ["c12-hang"]
  else if head == "SKIPPED" then []
  else
    let parsed := parse src
    let parseOk := parsed.2.isEmpty
    let misuse := Misuse.misuse (params.map (·.1)) parsed.1
    if head == "ERR" then
      -- C13: fails exactly when the source does not parse or breaks a documented rule
      (if parseOk && !misuse then ["c13-rejected-without-misuse"] else []) ++
      -- C10: the position of a compile error lies inside the source
      (match impl.splitOn " " with
       | [_, a, b] =>
         match a.toInt?, b.toInt? with
         | some x, some y => if (Span.mk x y).isValid && y > src.length then ["c10-compile-error-span-outside"] else []
         | _, _ => []
       | _ => [])
    else if head == "OK" then
      match (impl.splitOn " ")[1]? >>= Bytes.ofHex with
      | none => ["unreadable-result"]
      | some sql =>
        let c13 := (if !parseOk then ["c13-compiled-unparseable-source"] else []) ++
                   (if parseOk && misuse then ["c13-misuse-accepted"] else [])
        let (c05, st) := structureClauses parsed.1 sql
        -- C04 (ClickHouse reading): the output must also lex under backslash-escape rules
        let c04 := if (lex .clickhouse sql).isNone && (lex .standard sql).isSome then
            [if src.contains 92 then "c04-clickhouse-backslash" else "c04-clickhouse-lex"] else []
        -- C01: a lone `where` — the WHERE expression is the intended translation
        let c01 : List String :=
          match st, onlyWhere parsed.1 with
          | some st, some e =>
            if !params.isEmpty then [] else
            match tr false e, st.body.where_ with
            | some want, some got =>
              -- a syntactic difference is a failing input only if the two expressions also evaluate differently
              if normS want == normS got || sameMeaningWhere got want then [] else ["c01-where-expression-differs"]
            | _, _ => []
          | _, _ => []
        -- C06: reading the output = reading the reference output for the substituted program
        let c06 : List String :=
          match st with
          | some st =>
            let hasLet := parsed.1.any fun | .let_ .. => true | _ => false
            if !hasLet || !parseOk then [] else
            match resolveLets parsed.1 [] with
            | some t =>
              if hasUnnamedColumn t then [] else
              match compileChunks src params [.tabular t] with
              | .ok cs =>
                match readSql (renderChunks cs) with
                | some ref => if statementEq st ref || sameMeaning st ref then [] else ["c06-substitution-differs"]
                | none => []
              | .error _ => []
            | none => []
          | none => []
        -- K4: readings broken by an operator-word function name are reported under one clause
        if stmtsHaveKeywordFn parsed.1 && !(c05 ++ c01 ++ c06).isEmpty then c13 ++ c04 ++ ["c01-keyword-function-name"]
        else c13 ++ c05 ++ c04 ++ c01 ++ c06
    else ["unreadable-result"]

/-- clauses for two compilations of programs that differ only in the contents of literals and
    names (C04): the token structure must be the same -/
def twinClauses (implA implB : String) : List String :=
  let sqlOf (impl : String) : Option Bytes :=
    match impl.splitOn " " with
    | ["OK", h] => Bytes.ofHex h
    | _ => none
  match sqlOf implA, sqlOf implB with
  | some a, some b =>
    match lex .standard a, lex .standard b with
    | some ta, some tb => if ta.map STok.shape == tb.map STok.shape then [] else ["c04-token-structure-depends-on-content"]
    | _, _ => ["c05-lex"]
  | none, none => if (implA.splitOn " ").headD "" == (implB.splitOn " ").headD "" then [] else ["c04-outcome-depends-on-content"]
  | _, _ => ["c04-outcome-depends-on-content"]

/-- `QUOTE`: the quoted form lexes to exactly one token that decodes to the input (C04) -/
def quoteClauses (isString : Bool) (v : Bytes) (impl : String) : List String :=
  match Bytes.ofHex impl with
  | none => ["unreadable-result"]
  | some q =>
    let want : STok := if isString then .str v else .qid v
    (if lex .standard q == some [want] then [] else ["c04-quote-does-not-decode-standard"]) ++
    (if lex .clickhouse q == some [want] then []
     else [if v.contains 92 then "c04-clickhouse-backslash" else "c04-quote-does-not-decode-clickhouse"])

end Pql.CompileOracle
