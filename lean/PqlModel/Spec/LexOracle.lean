/-
Executable statements of the C09 / C15 clauses, evaluated on the implementation's own
output (tokens, pieces).  Each returns the list of violated clauses (empty = holds).
-/
import PqlModel.Spec.LexSpec
namespace Pql.LexOracle
open Pql

/-- C09: tokens in order, non-empty, non-overlapping, inside the source; gaps are trivia. -/
def partitionClauses (src : Bytes) (ts : List Token) : List String :=
  let n := src.length
  let rec go (pos : Nat) : List Token → List String
    | [] =>
      if LexSpec.isTriviaOnly (n + 1) (src.drop pos) then [] else ["gap-not-trivia@" ++ toString pos]
    | t :: rest =>
      (if t.start < pos then ["overlap-or-order@" ++ toString t.start] else []) ++
      (if t.stop ≤ t.start then ["empty-token@" ++ toString t.start] else []) ++
      (if t.stop > n then ["outside-source@" ++ toString t.start] else []) ++
      (if t.start ≥ pos ∧
          !LexSpec.isTriviaOnly (n + 1) ((src.drop pos).take (t.start - pos)) then
        ["gap-not-trivia@" ++ toString pos] else []) ++
      go (max pos t.stop) rest
  go 0 ts

def sameToken (a b : Token) : Bool :=
  a.kind == b.kind && a.start == b.start && a.stop == b.stop &&
    (a.kind == .error || a.value == b.value)

def sameTokens : List Token → List Token → Bool
  | [], [] => true
  | a :: as, b :: bs => sameToken a b && sameTokens as bs
  | _, _ => false

/-- C09: every token is the longest lexeme the grammar defines at its position. -/
def refinesClauses (src : Bytes) (ts : List Token) : List String :=
  if sameTokens ts (LexSpec.tokens src) then [] else ["tokens-differ-from-reference-tokenizer"]

def scanClauses (src : Bytes) (ts : List Token) : List String :=
  partitionClauses src ts ++ refinesClauses src ts

def intercalateSemi : List Bytes → Bytes
  | [] => []
  | [p] => p
  | p :: ps => p ++ 59 :: intercalateSemi ps

def shiftTokens (d : Nat) (ts : List Token) : List Token :=
  ts.map fun t => { t with start := t.start + d, stop := t.stop + d }

/-- C15 clauses on (source, pieces, tokens of the whole, tokens of each piece), all as
    returned by the implementation. -/
def splitClauses (src : Bytes) (pieces : List Bytes) (whole : List Token)
    (perPiece : List (List Token)) : List String :=
  let semis := whole.filter (·.kind == .semi)
  (if intercalateSemi pieces == src then [] else ["join-does-not-restore-source"]) ++
  (if pieces.length == semis.length + 1 then [] else ["piece-count"]) ++
  (if perPiece.any (·.any (·.kind == .semi)) then ["piece-contains-semicolon-token"] else []) ++
  (if perPiece.length != pieces.length then ["per-piece-token-lists-missing"] else
    -- piece i starts right after the i-th semicolon of the whole
    let starts := 0 :: semis.map (·.stop)
    let expected := (starts.zip pieces).map fun (st, p) =>
      whole.filter fun t => t.kind != .semi && st ≤ t.start && t.stop ≤ st + p.length
    let got := (starts.zip perPiece).map fun (st, ts) => shiftTokens st ts
    if (expected.zip got).all (fun (a, b) => sameTokens a b) && expected.length == got.length then []
    else ["piece-tokens-differ-from-tokens-in-context"])

end Pql.LexOracle
