/-
The SQL reading of the compiler's output (DESIGN §5): an independent lexer for the target
dialect's lexical rules.  Two modes for quoted tokens: *standard* (only the doubled quote
escapes) and *ClickHouse* (doubled quote and backslash escapes).  An unterminated quote or
comment, or a character that starts no token, is a lexing failure.
-/
import PqlModel.Base.Bytes
namespace Pql.Sql
open Pql

inductive STok
  | word (w : Bytes)      -- bare word (keyword, function name, constant), spelling kept
  | qid (name : Bytes)    -- "…" decoded
  | str (v : Bytes)       -- '…' decoded
  | num (text : Bytes)
  | sym (s : String)
  | param (text : Bytes)  -- $1  ?  {name:Type}
  | comment               -- a comment (kept by `lexRaw`, dropped by `lex`)
  deriving DecidableEq, Repr, Inhabited

/-- kind of a token, for "same token structure" comparisons (content of strings, quoted
    identifiers and numbers erased) -/
def STok.shape : STok → String
  | .word w => "w:" ++ (Bytes.toStringLossy w).toUpper
  | .qid _ => "qid"
  | .str _ => "str"
  | .num _ => "num"
  | .sym s => "s:" ++ s
  | .param _ => "param"
  | .comment => "comment"

inductive QuoteMode | standard | clickhouse
  deriving DecidableEq, Repr

def isWordStart (c : UInt8) : Bool :=
  (65 ≤ c.toNat && c.toNat ≤ 90) || (97 ≤ c.toNat && c.toNat ≤ 122) || c == 95
def isDigitB (c : UInt8) : Bool := 48 ≤ c.toNat && c.toNat ≤ 57
def isWordCont (c : UInt8) : Bool := isWordStart c || isDigitB c || c == 36
def isSpaceB (c : UInt8) : Bool := c == 32 || c == 10 || c == 9 || c == 13

/-- body of a quoted token after the opening quote: decoded value and the rest after the
    closing quote; `none` if unterminated -/
def lexQuoted (mode : QuoteMode) (q : UInt8) : Bytes → Option (Bytes × Bytes)
  | [] => none
  | c :: rest =>
    if c == q then
      match rest with
      | d :: rest' =>
        if d == q then (lexQuoted mode q rest').map fun r => (q :: r.1, r.2)
        else some ([], rest)
      | [] => some ([], [])
    else if c == 92 && mode == .clickhouse then
      match rest with
      | e :: rest' => (lexQuoted mode q rest').map fun r => (e :: r.1, r.2)
      | [] => none
    else (lexQuoted mode q rest).map fun r => (c :: r.1, r.2)

def spanWhile (p : UInt8 → Bool) : Bytes → Bytes × Bytes
  | [] => ([], [])
  | c :: rest => if p c then let r := spanWhile p rest; (c :: r.1, r.2) else ([], c :: rest)

def skipLineComment : Bytes → Bytes
  | [] => []
  | c :: rest => if c == 10 then rest else skipLineComment rest

def skipBlockComment : Bytes → Option Bytes
  | [] => none
  | [_] => none
  | a :: b :: rest => if a == 42 && b == 47 then some rest else skipBlockComment (b :: rest)

/-- exponent part at the head: (text, rest) -/
def lexExponent (s : Bytes) : Bytes × Bytes :=
  match s with
  | e :: rest =>
    if e == 101 || e == 69 then
      match rest with
      | sg :: d :: rest' =>
        if (sg == 43 || sg == 45) && isDigitB d then
          let r := spanWhile isDigitB (d :: rest'); (e :: sg :: r.1, r.2)
        else if isDigitB sg then let r := spanWhile isDigitB rest; (e :: r.1, r.2)
        else ([], s)
      | [d] => if isDigitB d then ([e, d], []) else ([], s)
      | [] => ([], s)
    else ([], s)
  | [] => ([], s)

def twoCharSyms : List (UInt8 × UInt8 × String) :=
  [(60, 62, "<>"), (60, 61, "<="), (62, 61, ">="), (124, 124, "||"), (33, 61, "!=")]

def oneCharSyms : List (UInt8 × String) :=
  [(40, "("), (41, ")"), (91, "["), (93, "]"), (44, ","), (46, "."), (59, ";"), (61, "="), (60, "<"),
   (62, ">"), (43, "+"), (45, "-"), (42, "*"), (47, "/"), (37, "%")]

/-- `lex mode fuel s`; use fuel `s.length + 1` -/
def lexAux (mode : QuoteMode) : Nat → Bytes → Option (List STok)
  | 0, _ => none
  | _, [] => some []
  | fuel + 1, c :: rest =>
    if isSpaceB c then lexAux mode fuel rest
    else if c == 45 && rest.head? == some 45 then (lexAux mode fuel (skipLineComment rest)).map (STok.comment :: ·)
    else if c == 47 && rest.head? == some 42 then
      match skipBlockComment rest.tail with
      | some r => (lexAux mode fuel r).map (STok.comment :: ·)
      | none => none
    else if c == 39 then
      match lexQuoted mode 39 rest with
      | some (v, r) => (lexAux mode fuel r).map (STok.str v :: ·)
      | none => none
    else if c == 34 then
      match lexQuoted mode 34 rest with
      | some (v, r) => (lexAux mode fuel r).map (STok.qid v :: ·)
      | none => none
    else if isWordStart c then
      let r := spanWhile isWordCont rest
      (lexAux mode fuel r.2).map (STok.word (c :: r.1) :: ·)
    else if isDigitB c then
      let ip := spanWhile isDigitB rest
      let (frac, r1) : Bytes × Bytes :=
        match ip.2 with
        | d :: r => if d == 46 then let f := spanWhile isDigitB r; (46 :: f.1, f.2) else ([], ip.2)
        | [] => ([], [])
      let ex := lexExponent r1
      -- a number directly followed by a word character is not a token boundary
      if (ex.2.head?.map isWordStart).getD false then none
      else (lexAux mode fuel ex.2).map (STok.num (c :: ip.1 ++ frac ++ ex.1) :: ·)
    else if c == 36 then
      let r := spanWhile isWordCont rest
      if r.1.isEmpty then none else (lexAux mode fuel r.2).map (STok.param (c :: r.1) :: ·)
    else if c == 63 then (lexAux mode fuel rest).map (STok.param [63] :: ·)
    else if c == 123 then
      let r := spanWhile (· != 125) rest
      match r.2 with
      | _ :: r2 => (lexAux mode fuel r2).map (STok.param (c :: r.1 ++ [125]) :: ·)
      | [] => none
    else
      match rest.head?.bind (fun d => twoCharSyms.find? (fun o => o.1 == c && o.2.1 == d)) with
      | some o => (lexAux mode fuel rest.tail).map (STok.sym o.2.2 :: ·)
      | none =>
        match oneCharSyms.find? (fun o => o.1 == c) with
        | some o => (lexAux mode fuel rest).map (STok.sym o.2 :: ·)
        | none => none

def lexRaw (mode : QuoteMode) (s : Bytes) : Option (List STok) := lexAux mode (s.length + 1) s

def lex (mode : QuoteMode) (s : Bytes) : Option (List STok) :=
  (lexRaw mode s).map fun ts => ts.filter (· != .comment)

end Pql.Sql
