/-
Oracle support: a SECOND, more tolerant reader of SQL statements.  `Sql.parseStatement` reads exactly the
sub-language the pinned compiler writes (the theorems are about it).  For judging the output of a CHANGED compiler
that is too strict: `INNER JOIN`, `LEFT OUTER JOIN`, `SELECT DISTINCT …`, an omitted `ASC` or `NULLS …` are
well-formed SQL of the documented shape `[WITH name AS (select), …] select`, and rejecting them would be a false
alarm.  This reader accepts those spellings and produces the same AST (so the reference evaluator decides what
they mean; an omitted `NULLS` clause is read with the target dialect's default, NULLS LAST).  Executable, used by
the oracles only when the strict reader fails; no theorem mentions it.
-/
import PqlModel.Spec.Sql.Parse
namespace Pql.Sql
open Pql

/-- `[AS] alias` -/
def pAliasL (ts : List STok) : Option Bytes × List STok :=
  match ts with
  | a :: .qid n :: rest => if isWord a "AS" then (some n, rest) else (none, ts)
  | _ => (none, ts)

def pTableRefL (ts : List STok) : PR TableRef :=
  match ts with
  | .qid n :: rest =>
    match rest with
    | .qid a :: r2 => some (.named n (some a), r2)          -- alias without AS
    | _ => let a := pAliasL rest; some (.named n a.1, a.2)
  | lp :: s :: d :: st :: f :: .qid n :: rp :: rest =>
    if isSym lp "(" && isWord s "SELECT" && isWord d "DISTINCT" && isSym st "*" && isWord f "FROM" && isSym rp ")" then
      match rest with
      | .qid a :: r2 => some (.distinctOf n (some a), r2)
      | _ => let a := pAliasL rest; some (.distinctOf n a.1, a.2)
    else none
  | _ => none

def pOrderTermsL : Nat → List STok → PR (List OrderTerm)
  | 0, _ => none
  | fuel + 1, ts =>
    match pExprS (fuelOf ts) 0 ts with
    | some (e, r) =>
      let (asc, r1) : Bool × List STok :=
        match r with
        | d :: r' => if isWord d "ASC" then (true, r') else if isWord d "DESC" then (false, r') else (true, r)
        | [] => (true, r)
      let (nf, r2) : Bool × List STok :=
        match r1 with
        | n :: fl :: r' =>
          if isWord n "NULLS" && isWord fl "FIRST" then (true, r')
          else if isWord n "NULLS" && isWord fl "LAST" then (false, r') else (false, r1)
        | _ => (false, r1)
      let term : OrderTerm := ⟨e, asc, nf⟩
      match r2 with
      | cm :: r3 => if isSym cm "," then (pOrderTermsL fuel r3).map fun rr => (term :: rr.1, rr.2) else some ([term], r2)
      | [] => some ([term], [])
    | none => none

/-- the JOIN keyword group: `JOIN`, `INNER JOIN`, `LEFT JOIN`, `LEFT OUTER JOIN`; `(isLeft, rest)` -/
def pJoinKw (ts : List STok) : Option (Bool × List STok) :=
  match ts with
  | a :: r1 =>
    if isWord a "JOIN" then some (false, r1)
    else if isWord a "INNER" then
      match r1 with | b :: r2 => if isWord b "JOIN" then some (false, r2) else none | [] => none
    else if isWord a "LEFT" then
      match r1 with
      | b :: r2 =>
        if isWord b "JOIN" then some (true, r2)
        else if isWord b "OUTER" then
          match r2 with | c :: r3 => if isWord c "JOIN" then some (true, r3) else none | [] => none
        else none
      | [] => none
    else none
  | [] => none

def pSelectL (ts : List STok) : PR Select :=
  match ts with
  | s :: rest0 =>
    if !isWord s "SELECT" then none else
    let (dist, rest) : Bool × List STok :=
      match rest0 with
      | d :: r => if isWord d "DISTINCT" then (true, r) else (false, rest0)
      | [] => (false, rest0)
    match pItems (rest.length + 1) rest with
    | some (items, r1) =>
      match r1 with
      | f :: r2 =>
        if !isWord f "FROM" then none else
        match pTableRefL r2 with
        | some (src, r3) =>
          let joined : PR (Option JoinClause) :=
            match pJoinKw r3 with
            | some (left, r5) =>
              match pTableRefL r5 with
              | some (tr, r6) =>
                match r6 with
                | on :: r7 =>
                  if !isWord on "ON" then none else
                  match pExprS (fuelOf r7) 0 r7 with
                  | some (c, r8) => some (some ⟨left, tr, c⟩, r8)
                  | none => none
                | [] => none
              | none => none
            | none =>
              match r3 with
              | j :: _ => if isWord j "LEFT" || isWord j "INNER" then none else some (none, r3)
              | [] => some (none, [])
          match joined with
          | some (jn, r4) =>
            let wh : PR (Option SExpr) :=
              match r4 with
              | w :: r5 =>
                if isWord w "WHERE" then (pExprS (fuelOf r5) 0 r5).map fun rr => (some rr.1, rr.2) else some (none, r4)
              | [] => some (none, [])
            match wh with
            | some (wh, r5) =>
              let gb : PR (List SExpr) :=
                match r5 with
                | g :: b :: r6 =>
                  if isWord g "GROUP" && isWord b "BY" then pExprsComma (r6.length + 1) r6 else some ([], r5)
                | _ => some ([], r5)
              match gb with
              | some (gb, r6) =>
                let ob : PR (List OrderTerm) :=
                  match r6 with
                  | o :: b :: r7 =>
                    if isWord o "ORDER" && isWord b "BY" then pOrderTermsL (r7.length + 1) r7 else some ([], r6)
                  | _ => some ([], r6)
                match ob with
                | some (ob, r7) =>
                  let lim : PR (Option SExpr) :=
                    match r7 with
                    | l :: r8 =>
                      if isWord l "LIMIT" then (pExprS (fuelOf r8) 0 r8).map fun rr => (some rr.1, rr.2) else some (none, r7)
                    | [] => some (none, [])
                  match lim with
                  | some (lim, r8) =>
                    some ({ distinct := dist, items, source := src, join := jn, where_ := wh, groupBy := gb, orderBy := ob, limit := lim }, r8)
                  | none => none
                | none => none
              | none => none
            | none => none
          | none => none
        | none => none
      | [] => none
    | none => none
  | [] => none

def pCtesL : Nat → List STok → PR (List (Bytes × Select))
  | 0, _ => none
  | fuel + 1, ts =>
    match ts with
    | .qid n :: a :: lp :: rest =>
      if isWord a "AS" && isSym lp "(" then
        match pSelectL rest with
        | some (sel, r) =>
          match r with
          | rp :: r2 =>
            if !isSym rp ")" then none else
            match r2 with
            | cm :: r3 => if isSym cm "," then (pCtesL fuel r3).map fun rr => ((n, sel) :: rr.1, rr.2) else some ([(n, sel)], r2)
            | [] => some ([(n, sel)], [])
          | [] => none
        | none => none
      else none
    | _ => none

/-- `[WITH name AS (select), …] select ;` in the tolerant reading -/
def parseStatementL (ts : List STok) : Option Statement :=
  let withPart : PR (List (Bytes × Select)) :=
    match ts with
    | w :: rest => if isWord w "WITH" then pCtesL (rest.length + 1) rest else some ([], ts)
    | [] => none
  match withPart with
  | some (ctes, r) =>
    match pSelectL r with
    | some (body, r2) =>
      match r2 with
      | [semi] => if isSym semi ";" then some ⟨ctes, body⟩ else none
      | _ => none
    | none => none
  | none => none

/-- the strict reading if there is one, else the tolerant one -/
def parseStatementAny (ts : List STok) : Option Statement :=
  match parseStatement ts with
  | some st => some st
  | none => parseStatementL ts

end Pql.Sql
