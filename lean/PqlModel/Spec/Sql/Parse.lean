/-
The SQL reading, part 2: expression and statement parser for the dialect subset the compiler
emits, by precedence climbing.  Binding assumptions (common to ClickHouse and standard SQL):
postfix subscript binds tightest; a prefix sign binds tighter than every infix operator and
`IS [NOT] NULL`, looser than subscript; `NOT` binds looser than comparisons, `IN` and `IS`;
OR < AND < NOT < comparison / IN / IS < `||` < + - < * / %.
-/
import PqlModel.Spec.Sql.Lex
namespace Pql.Sql
open Pql

mutual
inductive SExpr
  | col (parts : List Bytes)                -- "a"."b"
  | str (v : Bytes)
  | num (text : Bytes)
  | param (text : Bytes)
  | const (w : String)                      -- TRUE FALSE NULL CURRENT_TIMESTAMP (upper-cased)
  | call (fn : Bytes) (star : Bool) (args : SExprList) (filter : SExpr)   -- filter = .none_ if absent
  | case_ (c t e : SExpr)
  | neg (x : SExpr)
  | pos (x : SExpr)
  | not_ (x : SExpr)
  | bin (op : String) (x y : SExpr)
  | isNull (x : SExpr) (negated : Bool)
  | inList (x : SExpr) (vals : SExprList)
  | index (x i : SExpr)
  | none_
inductive SExprList
  | nil
  | cons (e : SExpr) (es : SExprList)
end

instance : Inhabited SExpr := ⟨.none_⟩

def SExprList.toList : SExprList → List SExpr
  | .nil => []
  | .cons e es => e :: es.toList

mutual
def SExpr.beq : SExpr → SExpr → Bool
  | .col a, .col b => a == b
  | .str a, .str b => a == b
  | .num a, .num b => a == b
  | .param a, .param b => a == b
  | .const a, .const b => a == b
  | .call f s as fl, .call g t bs gl => f == g && s == t && SExprList.beq as bs && SExpr.beq fl gl
  | .case_ a b c, .case_ d e f => SExpr.beq a d && SExpr.beq b e && SExpr.beq c f
  | .neg a, .neg b => SExpr.beq a b
  | .pos a, .pos b => SExpr.beq a b
  | .not_ a, .not_ b => SExpr.beq a b
  | .bin o a b, .bin p c d => o == p && SExpr.beq a c && SExpr.beq b d
  | .isNull a n, .isNull b m => n == m && SExpr.beq a b
  | .inList a as, .inList b bs => SExpr.beq a b && SExprList.beq as bs
  | .index a i, .index b j => SExpr.beq a b && SExpr.beq i j
  | .none_, .none_ => true
  | _, _ => false
def SExprList.beq : SExprList → SExprList → Bool
  | .nil, .nil => true
  | .cons a as, .cons b bs => SExpr.beq a b && SExprList.beq as bs
  | _, _ => false
end

instance : BEq SExpr := ⟨SExpr.beq⟩

def upper (w : Bytes) : String := (Bytes.toStringLossy w).toUpper
def isWord (t : STok) (kw : String) : Bool := match t with | .word w => upper w == kw | _ => false
def isSym (t : STok) (s : String) : Bool := match t with | .sym x => x == s | _ => false

/-- infix operators and their precedence -/
def infixPrec (t : STok) : Option (String × Nat) :=
  match t with
  | .word w =>
    let u := upper w
    if u == "OR" then some ("OR", 1) else if u == "AND" then some ("AND", 2) else none
  | .sym s =>
    if s == "=" || s == "<>" || s == "!=" || s == "<" || s == "<=" || s == ">" || s == ">=" then some (s, 4)
    else if s == "||" then some (s, 5)
    else if s == "+" || s == "-" then some (s, 6)
    else if s == "*" || s == "/" || s == "%" then some (s, 7)
    else none
  | _ => none

/-- words that are operators of the expression grammar and can therefore never be read as a
    function name; any other word directly followed by `(` is read as a function call (the
    compiler passes unknown PQL function names through by name) -/
def operatorWords : List String := ["NOT", "AND", "OR", "IN", "IS", "CASE", "WHEN", "THEN", "ELSE", "END", "AS"]

abbrev PR (α : Type) := Option (α × List STok)

def reserved : List String :=
  ["SELECT", "FROM", "WHERE", "GROUP", "ORDER", "BY", "LIMIT", "AS", "ON", "JOIN", "LEFT", "WITH", "AND", "OR",
   "NOT", "IN", "IS", "THEN", "ELSE", "END", "WHEN", "CASE", "ASC", "DESC", "NULLS", "FIRST", "LAST", "DISTINCT", "FILTER"]

mutual
/-- expression with minimum precedence `m` -/
def pExprS : Nat → Nat → List STok → PR SExpr
  | 0, _, _ => none
  | fuel + 1, m, ts =>
    match ts with
    | t :: rest =>
      if isWord t "NOT" && m ≤ 3 then
        match pExprS fuel 3 rest with
        | some (x, r) => pTrailS fuel m (.not_ x) r
        | none => none
      else
        match pUnaryS fuel ts with
        | some (x, r) => pTrailS fuel m x r
        | none => none
    | [] => none

/-- infix / postfix-test trail at minimum precedence `m` -/
def pTrailS : Nat → Nat → SExpr → List STok → PR SExpr
  | 0, _, _, _ => none
  | fuel + 1, m, x, ts =>
    match ts with
    | [] => some (x, [])
    | t :: rest =>
      if isWord t "IS" && m ≤ 4 then
        match rest with
        | t1 :: r1 =>
          if isWord t1 "NULL" then pTrailS fuel m (.isNull x false) r1
          else if isWord t1 "NOT" then
            match r1 with
            | t2 :: r2 => if isWord t2 "NULL" then pTrailS fuel m (.isNull x true) r2 else none
            | [] => none
          else none
        | [] => none
      else if isWord t "IN" && m ≤ 4 then
        match rest with
        | lp :: r1 =>
          if isSym lp "(" then
            match pListS fuel r1 with
            | some (vs, r2) =>
              match r2 with
              | rp :: r3 => if isSym rp ")" then pTrailS fuel m (.inList x vs) r3 else none
              | [] => none
            | none => none
          else none
        | [] => none
      else
        match infixPrec t with
        | some (op, p) =>
          if p < m then some (x, ts)
          else
            match pExprS fuel (p + 1) rest with
            | some (y, r) => pTrailS fuel m (.bin op x y) r
            | none => none
        | none => some (x, ts)

/-- prefix signs (tighter than every infix operator), then postfix subscripts -/
def pUnaryS : Nat → List STok → PR SExpr
  | 0, _ => none
  | fuel + 1, ts =>
    match ts with
    | t :: rest =>
      if isSym t "-" then (pUnaryS fuel rest).map fun r => (.neg r.1, r.2)
      else if isSym t "+" then (pUnaryS fuel rest).map fun r => (.pos r.1, r.2)
      else
        match pAtomS fuel ts with
        | some (x, r) => pPostfixS fuel x r
        | none => none
    | [] => none

def pPostfixS : Nat → SExpr → List STok → PR SExpr
  | 0, _, _ => none
  | fuel + 1, x, ts =>
    match ts with
    | t :: rest =>
      if isSym t "[" then
        match pExprS fuel 0 rest with
        | some (i, r) =>
          match r with
          | rb :: r2 => if isSym rb "]" then pPostfixS fuel (.index x i) r2 else none
          | [] => none
        | none => none
      else some (x, ts)
    | [] => some (x, [])

def pAtomS : Nat → List STok → PR SExpr
  | 0, _ => none
  | fuel + 1, ts =>
    match ts with
    | [] => none
    | .str v :: rest => some (.str v, rest)
    | .num v :: rest => some (.num v, rest)
    | .param v :: rest => some (.param v, rest)
    | .qid n :: rest => pColTail fuel [n] rest
    | .comment :: _ => none
    | .sym s :: rest =>
      if s == "(" then
        match pExprS fuel 0 rest with
        | some (x, r) =>
          match r with
          | rp :: r2 => if isSym rp ")" then some (x, r2) else none
          | [] => none
        | none => none
      else none
    | .word w :: rest =>
      let u := upper w
      let callFollows := match rest with | t :: _ => isSym t "(" | [] => false
      if (u == "TRUE" || u == "FALSE" || u == "NULL" || u == "CURRENT_TIMESTAMP") && !callFollows then some (.const u, rest)
      else if u == "CASE" then
        match rest with
        | wh :: r1 =>
          if !isWord wh "WHEN" then none else
          match pExprS fuel 0 r1 with
          | some (c, r2) =>
            match r2 with
            | th :: r3 =>
              if !isWord th "THEN" then none else
              match pExprS fuel 0 r3 with
              | some (a, r4) =>
                match r4 with
                | el :: r5 =>
                  if !isWord el "ELSE" then none else
                  match pExprS fuel 0 r5 with
                  | some (b, r6) =>
                    match r6 with
                    | en :: r7 => if isWord en "END" then some (.case_ c a b, r7) else none
                    | [] => none
                  | none => none
                | [] => none
              | none => none
            | [] => none
          | none => none
        | [] => none
      else if operatorWords.contains u then none
      else
        -- function call:  name ( [*] | args )  [FILTER (WHERE e)]
        match rest with
        | lp :: r1 =>
          if !isSym lp "(" then none else
          let parsed : PR (Bool × SExprList) :=
            match r1 with
            | st :: rp :: r2 =>
              if isSym st "*" && isSym rp ")" then some ((true, .nil), r2)
              else if isSym st ")" then some ((false, .nil), rp :: r2)
              else
                match pListS fuel r1 with
                | some (as, r3) =>
                  match r3 with
                  | rp :: r4 => if isSym rp ")" then some ((false, as), r4) else none
                  | [] => none
                | none => none
            | [st] => if isSym st ")" then some ((false, .nil), []) else none
            | [] => none
          match parsed with
          | some ((star, as), r) =>
            match r with
            | f :: lp2 :: wh :: r2 =>
              if isWord f "FILTER" && isSym lp2 "(" && isWord wh "WHERE" then
                match pExprS fuel 0 r2 with
                | some (c, r3) =>
                  match r3 with
                  | rp :: r4 => if isSym rp ")" then some (.call w star as c, r4) else none
                  | [] => none
                | none => none
              else some (.call w star as .none_, r)
            | _ => some (.call w star as .none_, r)
          | none => none
        | [] => none

/-- "a"."b"… -/
def pColTail : Nat → List Bytes → List STok → PR SExpr
  | 0, _, _ => none
  | fuel + 1, parts, ts =>
    match ts with
    | dot :: .qid n :: rest => if isSym dot "." then pColTail fuel (parts ++ [n]) rest else some (.col parts, ts)
    | _ => some (.col parts, ts)

/-- one or more comma-separated expressions -/
def pListS : Nat → List STok → PR SExprList
  | 0, _ => none
  | fuel + 1, ts =>
    match pExprS fuel 0 ts with
    | some (x, r) =>
      match r with
      | cm :: r2 =>
        if isSym cm "," then (pListS fuel r2).map fun rr => (.cons x rr.1, rr.2)
        else some (.cons x .nil, r)
      | [] => some (.cons x .nil, [])
    | none => none
end

/-! ### statements -/

structure SelectItem where
  star : Bool
  expr : SExpr
  alias : Option Bytes
  deriving Inhabited

structure OrderTerm where
  expr : SExpr
  asc : Bool
  nullsFirst : Bool
  deriving Inhabited

inductive TableRef
  | named (name : Bytes) (alias : Option Bytes)
  | distinctOf (name : Bytes) (alias : Option Bytes)     -- (SELECT DISTINCT * FROM name) AS alias
  deriving Inhabited

structure JoinClause where
  left : Bool            -- LEFT JOIN
  table : TableRef
  on : SExpr
  deriving Inhabited

structure Select where
  distinct : Bool := false
  items : List SelectItem
  source : TableRef
  join : Option JoinClause
  where_ : Option SExpr
  groupBy : List SExpr
  orderBy : List OrderTerm
  limit : Option SExpr
  deriving Inhabited

structure Statement where
  ctes : List (Bytes × Select)
  body : Select
  deriving Inhabited

def fuelOf (ts : List STok) : Nat := 4 * ts.length + 16

def pAlias (ts : List STok) : Option Bytes × List STok :=
  match ts with
  | a :: .qid n :: rest => if isWord a "AS" then (some n, rest) else (none, ts)
  | _ => (none, ts)

def pTableRef (ts : List STok) : PR TableRef :=
  match ts with
  | .qid n :: rest => let a := pAlias rest; some (.named n a.1, a.2)
  | lp :: s :: d :: st :: f :: .qid n :: rp :: rest =>
    if isSym lp "(" && isWord s "SELECT" && isWord d "DISTINCT" && isSym st "*" && isWord f "FROM" && isSym rp ")" then
      let a := pAlias rest; some (.distinctOf n a.1, a.2)
    else none
  | _ => none

def pItems : Nat → List STok → PR (List SelectItem)
  | 0, _ => none
  | fuel + 1, ts =>
    let one : PR SelectItem :=
      match ts with
      | st :: rest =>
        if isSym st "*" then some (⟨true, .none_, none⟩, rest)
        else
          match pExprS (fuelOf ts) 0 ts with
          | some (e, r) => let a := pAlias r; some (⟨false, e, a.1⟩, a.2)
          | none => none
      | [] => none
    match one with
    | some (it, r) =>
      match r with
      | cm :: r2 => if isSym cm "," then (pItems fuel r2).map fun rr => (it :: rr.1, rr.2) else some ([it], r)
      | [] => some ([it], [])
    | none => none

def pExprsComma : Nat → List STok → PR (List SExpr)
  | 0, _ => none
  | fuel + 1, ts =>
    match pExprS (fuelOf ts) 0 ts with
    | some (e, r) =>
      match r with
      | cm :: r2 => if isSym cm "," then (pExprsComma fuel r2).map fun rr => (e :: rr.1, rr.2) else some ([e], r)
      | [] => some ([e], [])
    | none => none

def pOrderTerms : Nat → List STok → PR (List OrderTerm)
  | 0, _ => none
  | fuel + 1, ts =>
    match pExprS (fuelOf ts) 0 ts with
    | some (e, r) =>
      -- ASC|DESC NULLS FIRST|LAST (the compiler always writes both)
      match r with
      | d :: n :: fl :: r2 =>
        if (isWord d "ASC" || isWord d "DESC") && isWord n "NULLS" && (isWord fl "FIRST" || isWord fl "LAST") then
          let term : OrderTerm := ⟨e, isWord d "ASC", isWord fl "FIRST"⟩
          match r2 with
          | cm :: r3 => if isSym cm "," then (pOrderTerms fuel r3).map fun rr => (term :: rr.1, rr.2) else some ([term], r2)
          | [] => some ([term], [])
        else none
      | _ => none
    | none => none

def pSelect (ts : List STok) : PR Select :=
  match ts with
  | s :: rest =>
    if !isWord s "SELECT" then none else
    match pItems (rest.length + 1) rest with
    | some (items, r1) =>
      match r1 with
      | f :: r2 =>
        if !isWord f "FROM" then none else
        match pTableRef r2 with
        | some (src, r3) =>
          -- optional JOIN
          let joined : PR (Option JoinClause) :=
            match r3 with
            | j :: r4 =>
              let (left, afterKw) : Bool × Option (List STok) :=
                if isWord j "JOIN" then (false, some r4)
                else if isWord j "LEFT" then
                  match r4 with
                  | j2 :: r5 => if isWord j2 "JOIN" then (true, some r5) else (true, none)
                  | [] => (true, none)
                else (false, none)
              match afterKw with
              | some r5 =>
                match pTableRef r5 with
                | some (tr, r6) =>
                  match r6 with
                  | on :: r7 =>
                    if !isWord on "ON" then none else
                    match pExprS (fuelOf r7) 0 r7 with
                    | some (c, r8) => some (some ⟨left, tr, c⟩, r8)
                    | none => none
                  | [] => none
                | none => none
              | none => if isWord j "LEFT" then none else some (none, r3)
            | [] => some (none, [])
          match joined with
          | some (jn, r4) =>
            let wh : PR (Option SExpr) :=
              match r4 with
              | w :: r5 =>
                if isWord w "WHERE" then (pExprS (fuelOf r5) 0 r5).map fun rr => (some rr.1, rr.2) else some (none, r4)
              | [] => some (none, [])
            match wh with
            | some (wh, r5) =>
              let gb : PR (List SExpr) :=
                match r5 with
                | g :: b :: r6 =>
                  if isWord g "GROUP" && isWord b "BY" then pExprsComma (r6.length + 1) r6 else some ([], r5)
                | _ => some ([], r5)
              match gb with
              | some (gb, r6) =>
                let ob : PR (List OrderTerm) :=
                  match r6 with
                  | o :: b :: r7 =>
                    if isWord o "ORDER" && isWord b "BY" then pOrderTerms (r7.length + 1) r7 else some ([], r6)
                  | _ => some ([], r6)
                match ob with
                | some (ob, r7) =>
                  let lim : PR (Option SExpr) :=
                    match r7 with
                    | l :: r8 =>
                      if isWord l "LIMIT" then (pExprS (fuelOf r8) 0 r8).map fun rr => (some rr.1, rr.2) else some (none, r7)
                    | [] => some (none, [])
                  match lim with
                  | some (lim, r8) => some ({ items, source := src, join := jn, where_ := wh, groupBy := gb, orderBy := ob, limit := lim }, r8)
                  | none => none
                | none => none
              | none => none
            | none => none
          | none => none
        | none => none
      | [] => none
    | none => none
  | [] => none

def pCtes : Nat → List STok → PR (List (Bytes × Select))
  | 0, _ => none
  | fuel + 1, ts =>
    match ts with
    | .qid n :: a :: lp :: rest =>
      if isWord a "AS" && isSym lp "(" then
        match pSelect rest with
        | some (sel, r) =>
          match r with
          | rp :: r2 =>
            if !isSym rp ")" then none else
            match r2 with
            | cm :: r3 => if isSym cm "," then (pCtes fuel r3).map fun rr => ((n, sel) :: rr.1, rr.2) else some ([(n, sel)], r2)
            | [] => some ([(n, sel)], [])
          | [] => none
        | none => none
      else none
    | _ => none

/-- `[WITH name AS (select), …] select ;` — the whole token list must be consumed -/
def parseStatement (ts : List STok) : Option Statement :=
  let withPart : PR (List (Bytes × Select)) :=
    match ts with
    | w :: rest => if isWord w "WITH" then pCtes (rest.length + 1) rest else some ([], ts)
    | [] => none
  match withPart with
  | some (ctes, r) =>
    match pSelect r with
    | some (body, r2) =>
      match r2 with
      | [semi] => if isSym semi ";" then some ⟨ctes, body⟩ else none
      | _ => none
    | none => none
  | none => none

end Pql.Sql
