/-
The SQL reading, part 3: a reference evaluator for the statement subset the compiler emits,
over list-tables.  Conventions of the abstract engine (used identically by the pipeline
interpreter in Spec/Rel.lean, so that both sides are compared as *lists*): a SELECT without
ORDER BY keeps its input order; GROUP BY and DISTINCT keep first occurrences in input order;
ORDER BY is a stable sort; a join is a nested loop, left-major.  Uninterpreted functions and
subscripts evaluate to *terms* (an injective symbolic value), so two expressions agree on
them iff they apply the same function to the same arguments.
-/
import PqlModel.Spec.Sql.Parse
namespace Pql.Sql
open Pql

inductive Val
  | null
  | bool (b : Bool)
  | int (n : Int)
  | str (s : Bytes)
  | term (t : Bytes)          -- symbolic value of an uninterpreted application
  deriving DecidableEq, Repr, Inhabited

structure Table where
  cols : List Bytes
  rows : List (List Val)
  deriving DecidableEq, Repr, Inhabited

abbrev DB := List (Bytes × Table)

/-- an environment: qualified columns (alias, name, value); alias `[]` = unqualified only -/
abbrev Env := List (Bytes × Bytes × Val)

def envOfRow (alias : Bytes) (cols : List Bytes) (row : List Val) : Env :=
  (cols.zip row).map fun (c, v) => (alias, c, v)

def lookupCol (env : Env) (parts : List Bytes) : Val :=
  match parts with
  | [c] => match env.find? (fun e => e.2.1 == c) with | some e => e.2.2 | none => .term (Bytes.ofString "?col:" ++ c)
  | [a, c] =>
    match env.find? (fun e => e.1 == a && e.2.1 == c) with
    | some e => e.2.2
    | none => .term (Bytes.ofString "?col:" ++ a ++ [46] ++ c)
  | _ => .term (Bytes.ofString "?col")

def showVal : Val → Bytes
  | .null => Bytes.ofString "NULL"
  | .bool b => Bytes.ofString (if b then "TRUE" else "FALSE")
  | .int n => Bytes.ofString (toString n)
  | .str s => [39] ++ s ++ [39]
  | .term t => t

def termOf (fn : Bytes) (args : List Val) : Val :=
  .term (fn ++ [40] ++ List.intercalate [44] (args.map showVal) ++ [41])

def lowerB (b : Bytes) : Bytes := b.map fun c => if 65 ≤ c.toNat && c.toNat ≤ 90 then c + 32 else c
def upperB (b : Bytes) : Bytes := b.map fun c => if 97 ≤ c.toNat && c.toNat ≤ 122 then c - 32 else c

def decToInt (t : Bytes) : Option Int :=
  if t.isEmpty || !t.all (fun c => 48 ≤ c.toNat && c.toNat ≤ 57) then none
  else some (t.foldl (fun acc c => acc * 10 + (c.toNat - 48)) (0 : Nat) : Nat)

def bytesLt : Bytes → Bytes → Bool
  | [], [] => false
  | [], _ => true
  | _, [] => false
  | a :: as, b :: bs => a < b || (a == b && bytesLt as bs)

/-- three-valued comparison; `none` = NULL / incomparable -/
def cmpVals (a b : Val) : Option Ordering :=
  match a, b with
  | .int x, .int y => some (compare x y)
  | .str x, .str y => some (if x == y then .eq else if bytesLt x y then .lt else .gt)
  | .bool x, .bool y => some (if x == y then .eq else if !x then .lt else .gt)
  | .term x, .term y => if x == y then some .eq else none
  | _, _ => none

def binOp (op : String) (a b : Val) : Val :=
  if op == "AND" then
    match a, b with
    | .bool false, _ => .bool false
    | _, .bool false => .bool false
    | .bool true, .bool true => .bool true
    | _, _ => .null
  else if op == "OR" then
    match a, b with
    | .bool true, _ => .bool true
    | _, .bool true => .bool true
    | .bool false, .bool false => .bool false
    | _, _ => .null
  else if a == .null || b == .null then .null
  else if op == "=" || op == "<>" || op == "<" || op == "<=" || op == ">" || op == ">=" then
    match cmpVals a b with
    | some o =>
      .bool (if op == "=" then o == .eq else if op == "<>" then o != .eq else if op == "<" then o == .lt
        else if op == "<=" then o != .gt else if op == ">" then o == .gt else o != .lt)
    | none => termOf (Bytes.ofString op) [a, b]
  else
    match a, b with
    | .int x, .int y =>
      if op == "+" then .int (x + y) else if op == "-" then .int (x - y) else if op == "*" then .int (x * y)
      -- integer division truncates toward zero and the remainder takes the dividend's sign, as in
      -- SQL engines (and Kusto); cross-validated against SQLite (tools/sqlite_crosscheck.py)
      else if op == "/" then (if y == 0 then .null else .int (Int.tdiv x y))
      else if op == "%" then (if y == 0 then .null else .int (Int.tmod x y))
      else termOf (Bytes.ofString op) [a, b]
    | .str x, .str y => if op == "||" then .str (x ++ y) else termOf (Bytes.ofString op) [a, b]
    | _, _ => termOf (Bytes.ofString op) [a, b]

def isAggName (fn : Bytes) : Bool :=
  let l := lowerB fn
  l == Bytes.ofString "count" || l == Bytes.ofString "sum" || l == Bytes.ofString "min" || l == Bytes.ofString "max"

mutual
/-- scalar evaluation; `group` = the rows (environments) of the current group for aggregates -/
def evalS (group : List Env) (env : Env) : SExpr → Val
  | .col parts => lookupCol env parts
  | .str v => .str v
  | .num t => match decToInt t with | some n => .int n | none => .term t
  | .param t => .term t
  | .const w => if w == "TRUE" then .bool true else if w == "FALSE" then .bool false else if w == "NULL" then .null else .term (Bytes.ofString w)
  | .call fn star args filter =>
    let l := lowerB fn
    if isAggName fn then
      -- aggregates over the group (rows passing the FILTER, if any)
      let noFilter := match filter with | .none_ => true | _ => false
      let rows := group.filter fun g => noFilter || evalS [] g filter == .bool true
      if l == Bytes.ofString "count" then
        -- count() / count(*) counts rows; count(x) counts the rows where x is not NULL
        match args with
        | .cons a .nil => .int ((rows.map fun g => evalS [] g a).filter (· != .null)).length
        | _ => .int rows.length
      else
        match args with
        | .cons a .nil =>
          let vs := (rows.map fun g => evalS [] g a).filter (· != .null)
          if l == Bytes.ofString "sum" then
            if vs.isEmpty then .null else vs.foldl (fun acc v => binOp "+" acc v) (.int 0)
          else if vs.isEmpty then .null
          else vs.tail.foldl (fun acc v =>
            match cmpVals v acc with
            | some .lt => if l == Bytes.ofString "min" then v else acc
            | some .gt => if l == Bytes.ofString "max" then v else acc
            | _ => acc) (vs.headD .null)
        | _ => termOf l []
    else
      let as := evalArgs group env args
      let _ := star
      if l == Bytes.ofString "coalesce" then (as.find? (· != .null)).getD .null
      else if l == Bytes.ofString "lower" then
        match as with | [.str s] => .str (lowerB s) | [.null] => .null | _ => termOf l as
      else if l == Bytes.ofString "upper" then
        match as with | [.str s] => .str (upperB s) | [.null] => .null | _ => termOf l as
      else termOf l as
  | .case_ c t e => if evalS group env c == .bool true then evalS group env t else evalS group env e
  | .neg x => match evalS group env x with | .int n => .int (-n) | .null => .null | v => termOf (Bytes.ofString "neg") [v]
  | .pos x => evalS group env x
  | .not_ x => match evalS group env x with | .bool b => .bool (!b) | .null => .null | v => termOf (Bytes.ofString "not") [v]
  | .bin op x y => binOp op (evalS group env x) (evalS group env y)
  | .isNull x neg => .bool ((evalS group env x == .null) != neg)
  | .inList x vals =>
    let v := evalS group env x
    let vs := evalArgs group env vals
    if v == .null then .null
    else if vs.any (fun w => cmpVals v w == some .eq) then .bool true
    else if vs.any (· == .null) then .null else .bool false
  | .index x i => termOf (Bytes.ofString "index") [evalS group env x, evalS group env i]
  | .none_ => .null
def evalArgs (group : List Env) (env : Env) : SExprList → List Val
  | .nil => []
  | .cons e es => evalS group env e :: evalArgs group env es
end

mutual
def hasAgg : SExpr → Bool
  | .call fn _ args filter => isAggName fn || hasAggList args || hasAgg filter
  | .case_ a b c => hasAgg a || hasAgg b || hasAgg c
  | .neg x | .pos x | .not_ x | .isNull x _ => hasAgg x
  | .bin _ x y | .index x y => hasAgg x || hasAgg y
  | .inList x vs => hasAgg x || hasAggList vs
  | _ => false
def hasAggList : SExprList → Bool
  | .nil => false
  | .cons e es => hasAgg e || hasAggList es
end

/-! ### engine primitives (shared with the pipeline interpreter) -/

/-- keep first occurrences -/
def distinctRows (rows : List (List Val)) : List (List Val) :=
  rows.foldl (fun acc r => if acc.contains r then acc else acc ++ [r]) []

/-- group in first-occurrence order of the key -/
def groupBy {α} (key : α → List Val) (xs : List α) : List (List Val × List α) :=
  xs.foldl (fun acc x =>
    let k := key x
    if acc.any (·.1 == k) then acc.map (fun g => if g.1 == k then (g.1, g.2 ++ [x]) else g) else acc ++ [(k, [x])]) []

/-- does `a` sort strictly before `b` under one term (asc?, nullsFirst?) -/
def termLt (asc nullsFirst : Bool) (a b : Val) : Option Bool :=
  match a == .null, b == .null with
  | true, true => none
  | true, false => some nullsFirst
  | false, true => some !nullsFirst
  | false, false =>
    match cmpVals a b with
    | some .lt => some asc
    | some .gt => some !asc
    | _ => none

def keysLt : List (Bool × Bool) → List Val → List Val → Bool
  | (asc, nf) :: ts, a :: as, b :: bs =>
    match termLt asc nf a b with
    | some r => r
    | none => keysLt ts as bs
  | _, _, _ => false

/-- stable insertion sort by keys -/
def sortByKeys {α} (dirs : List (Bool × Bool)) (key : α → List Val) (xs : List α) : List α :=
  let ins (acc : List α) (x : α) : List α :=
    let rec go : List α → List α
      | [] => [x]
      | y :: ys => if keysLt dirs (key x) (key y) then x :: y :: ys else y :: go ys
    go acc
  xs.foldl ins []

def limitOf (v : Val) : Option Nat :=
  match v with
  | .int n => if n ≥ 0 then some n.toNat else none
  | _ => none

/-! ### statements -/

def lookupTable (db : DB) (ctes : List (Bytes × Table)) (name : Bytes) : Table :=
  match ctes.find? (·.1 == name) with
  | some t => t.2
  | none => match db.find? (·.1 == name) with | some t => t.2 | none => ⟨[], []⟩

def refTable (db : DB) (ctes : List (Bytes × Table)) : TableRef → Table × Bytes
  | .named n a => (lookupTable db ctes n, a.getD [])
  | .distinctOf n a => let t := lookupTable db ctes n; (⟨t.cols, distinctRows t.rows⟩, a.getD [])

def evalSelect (db : DB) (ctes : List (Bytes × Table)) (s : Select) : Table :=
  -- FROM / JOIN: rows as (environment, flat row)
  let (lt, la) := refTable db ctes s.source
  let (srcCols, srcRows) : List Bytes × List (Env × List Val) :=
    match s.join with
    | none => (lt.cols, lt.rows.map fun r => (envOfRow la lt.cols r, r))
    | some j =>
      let (rt, ra) := refTable db ctes j.table
      let pairs := lt.rows.flatMap fun l =>
        let le := envOfRow la lt.cols l
        let ms := rt.rows.filterMap fun r =>
          let env := le ++ envOfRow ra rt.cols r
          if evalS [] env j.on == .bool true then some (env, l ++ r) else none
        if ms.isEmpty && j.left then [(le ++ envOfRow ra rt.cols (rt.cols.map fun _ => Val.null), l ++ rt.cols.map fun _ => Val.null)]
        else ms
      (lt.cols ++ rt.cols, pairs)
  -- WHERE
  let rows := match s.where_ with
    | some w => srcRows.filter fun r => evalS [] r.1 w == .bool true
    | none => srcRows
  let isAggQuery := !s.groupBy.isEmpty || s.items.any fun it => !it.star && hasAgg it.expr
  -- output columns
  let outCols : List Bytes := s.items.flatMap fun it =>
    if it.star then srcCols else [it.alias.getD (Bytes.ofString "?")]
  -- output rows, each with the environment ORDER BY is evaluated in
  let outRows : List (Env × List Env × List Val) :=
    if isAggQuery then
      let groups : List (List Val × List (Env × List Val)) :=
        if s.groupBy.isEmpty then [([], rows)]
        else groupBy (fun r => s.groupBy.map fun g => evalS [] r.1 g) rows
      groups.map fun (_, members) =>
        let genv := members.map (·.1)
        let env := (genv.head?).getD []
        let vals := s.items.flatMap fun it => if it.star then ((members.head?).map (·.2)).getD [] else [evalS genv env it.expr]
        (env, genv, vals)
    else
      rows.map fun (env, flat) =>
        (env, [], s.items.flatMap fun it => if it.star then flat else [evalS [] env it.expr])
  -- ORDER BY: aliases of the output first, then the source columns
  let sorted :=
    if s.orderBy.isEmpty then outRows
    else
      sortByKeys (s.orderBy.map fun o => (o.asc, o.nullsFirst))
        (fun (r : Env × List Env × List Val) =>
          let env := envOfRow [] outCols r.2.2 ++ r.1
          s.orderBy.map fun o => evalS r.2.1 env o.expr) outRows
  let limited := match s.limit with
    | some l => match limitOf (evalS [] [] l) with | some n => sorted.take n | none => sorted
    | none => sorted
  let final := limited.map (·.2.2)
  ⟨outCols, if s.distinct then distinctRows final else final⟩

def evalStatement (db : DB) (st : Statement) : Table :=
  let ctes := st.ctes.foldl (fun acc (n, sel) => acc ++ [(n, evalSelect db acc sel)]) []
  evalSelect db ctes st.body

end Pql.Sql
