/-
Oracle support: do two SQL statements MEAN the same?  The syntactic comparisons of the oracles ("the emitted
statement reads as the intended statement") are stronger than any property: a change of the compiler that emits
an equivalent arrangement (a WHERE folded into the SELECT it filters, two literal limits merged, an equivalent
spelling of an expression) differs from the intended statement without violating anything.  A syntactic
difference therefore counts as a failing input only if the two statements also EVALUATE differently, by the
reference evaluator (`Sql.evalStatement`, total: unknown functions and columns become symbolic terms), on one of
a handful of small databases synthesised for the tables and columns the two statements mention (NULLs,
duplicates, empty tables, integers and strings); number literals are compared by VALUE (`2.50` = `2.5e-0`), and when the two statements
do not use the same uninterpreted function symbols nothing is concluded.  Results are compared as lists when the intended statement
ends in an ORDER BY, as bags otherwise.  Executable, used by the driver only (no theorem mentions it).
-/
import PqlModel.Spec.Sql.Eval
namespace Pql.Sql
open Pql

mutual
def colNames : SExpr → List Bytes
  | .col parts => parts.getLast?.toList
  | .call _ _ args fl => colNamesL args ++ colNames fl
  | .case_ a b c => colNames a ++ colNames b ++ colNames c
  | .neg x => colNames x
  | .pos x => colNames x
  | .not_ x => colNames x
  | .bin _ x y => colNames x ++ colNames y
  | .isNull x _ => colNames x
  | .inList x vs => colNames x ++ colNamesL vs
  | .index x i => colNames x ++ colNames i
  | _ => []
def colNamesL : SExprList → List Bytes
  | .nil => []
  | .cons e es => colNames e ++ colNamesL es
end

def selColNames (s : Select) : List Bytes :=
  s.items.flatMap (fun it => colNames it.expr) ++
  (match s.join with | some j => colNames j.on | none => []) ++
  (match s.where_ with | some w => colNames w | none => []) ++
  s.groupBy.flatMap colNames ++ s.orderBy.flatMap (fun o => colNames o.expr) ++
  (match s.limit with | some l => colNames l | none => [])

def refName : TableRef → Bytes
  | .named n _ => n
  | .distinctOf n _ => n

def selTables (s : Select) : List Bytes :=
  refName s.source :: (match s.join with | some j => [refName j.table] | none => [])

def stmtSelects (st : Statement) : List Select := st.ctes.map (·.2) ++ [st.body]

/-- base tables: everything a FROM / JOIN reads that is not a common table expression of the statement -/
def stmtTables (st : Statement) : List Bytes :=
  ((stmtSelects st).flatMap selTables).filter fun n => !(st.ctes.any (·.1 == n))

def lcgS (s : Nat) : Nat := (s * 6364136223846793005 + 1442695040888963407) % 18446744073709551616

def intValsS : List Val := [.null, .int 0, .int 1, .int 2, .int 1, .int 3, .int (-2)]
def strValsS : List Val := [.null, .str [97], .str [65], .str [98], .str [97], .str []]

/-- a table with the given columns: 0-5 rows; a column holds strings or integers depending on its name and the seed -/
def synthTable (seed : Nat) (cols : List Bytes) : Table × Nat :=
  let s1 := lcgS seed
  let nrows := (s1 / 65536) % 6
  let kinds : List Bool := cols.map fun c => (c.foldl (fun a b => a + b.toNat) seed) % 3 == 0
  let rec cell : List Bool → Nat → List Val → List Val × Nat
    | [], s, acc => (acc.reverse, s)
    | k :: ks, s, acc =>
      let s2 := lcgS s
      let vs := if k then strValsS else intValsS
      cell ks s2 (vs.getD ((s2 / 65536) % vs.length) .null :: acc)
  let rec rowsGo : Nat → Nat → List (List Val) → List (List Val) × Nat
    | 0, s, acc => (acc.reverse, s)
    | n + 1, s, acc => let r := cell kinds s []; rowsGo n r.2 (r.1 :: acc)
  let r := rowsGo nrows s1 []
  (⟨cols, r.1⟩, r.2)

def synthDB (seed : Nat) (tables cols : List Bytes) : DB :=
  (tables.foldl (fun (acc : DB × Nat) t => let r := synthTable acc.2 cols; (acc.1 ++ [(t, r.1)], r.2)) ([], seed + 1)).1

def bagEq (a b : List (List Val)) : Bool :=
  a.length == b.length && a.all fun r => a.count r == b.count r

def tableSame (ordered : Bool) (a b : Table) : Bool :=
  a.cols == b.cols && (if ordered then a.rows == b.rows else bagEq a.rows b.rows)

/-! ### numbers by value, uninterpreted functions -/

/-- `digits [. digits] [(e|E) [+|-] digits]` as mantissa × 10^exponent with a mantissa not divisible by 10
    (0 as (0, 0)); `none` for any other text -/
def numParts (t : Bytes) : Option (Nat × Int) :=
  let isD (c : UInt8) : Bool := 48 ≤ c.toNat && c.toNat ≤ 57
  let ip := t.takeWhile isD
  let r1 := t.dropWhile isD
  let (fp, r2) := match r1 with
    | 46 :: r => (r.takeWhile isD, r.dropWhile isD)
    | _ => ([], r1)
  let ex : Option Int := match r2 with
    | [] => some 0
    | c :: r =>
      if c == 101 || c == 69 then
        let (neg, ds) := match r with | 45 :: d => (true, d) | 43 :: d => (false, d) | d => (false, d)
        if ds.isEmpty || !ds.all isD then none
        else let n : Nat := ds.foldl (fun a d => a * 10 + (d.toNat - 48)) 0; some (if neg then - (n : Int) else n)
      else none
  if ip.isEmpty then none else
  match ex with
  | none => none
  | some e =>
    let m : Nat := (ip ++ fp).foldl (fun a d => a * 10 + (d.toNat - 48)) 0
    if m == 0 then some (0, 0) else
    let rec strip : Nat → Nat → Int → Nat × Int
      | 0, m, e => (m, e)
      | f + 1, m, e => if m % 10 == 0 then strip f (m / 10) (e + 1) else (m, e)
    some (strip (ip.length + fp.length) m (e - fp.length))

/-- a number literal's text replaced by a canonical text of its VALUE (`2.50`, `2.5e-0`, `25e-1` are one number) -/
def canonNum (t : Bytes) : Bytes :=
  match numParts t with
  | none => t
  | some (m, e) =>
    if e ≥ 0 ∧ e ≤ 40 then Bytes.ofString (toString (m * 10 ^ e.toNat))
    else Bytes.ofString (toString m ++ "e" ++ toString e)

def interpretedFns : List Bytes := ["coalesce", "lower", "upper", "count", "sum", "min", "max"].map Bytes.ofString

mutual
/-- numbers canonicalised -/
def canonE : SExpr → SExpr
  | .num t => .num (canonNum t)
  | .call fn st args fl => .call fn st (canonEL args) (canonE fl)
  | .case_ a b c => .case_ (canonE a) (canonE b) (canonE c)
  | .neg x => .neg (canonE x)
  | .pos x => .pos (canonE x)
  | .not_ x => .not_ (canonE x)
  | .bin op x y => .bin op (canonE x) (canonE y)
  | .isNull x n => .isNull (canonE x) n
  | .inList x vs => .inList (canonE x) (canonEL vs)
  | .index x i => .index (canonE x) (canonE i)
  | e => e
def canonEL : SExprList → SExprList
  | .nil => .nil
  | .cons e es => .cons (canonE e) (canonEL es)
end

mutual
/-- function symbols the reference evaluator does not interpret (they evaluate to symbolic terms) -/
def unknownFns : SExpr → List Bytes
  | .call fn _ args fl => (if interpretedFns.contains (lowerB fn) then [] else [lowerB fn]) ++ unknownFnsL args ++ unknownFns fl
  | .case_ a b c => unknownFns a ++ unknownFns b ++ unknownFns c
  | .neg x => unknownFns x
  | .pos x => unknownFns x
  | .not_ x => unknownFns x
  | .bin _ x y => unknownFns x ++ unknownFns y
  | .isNull x _ => unknownFns x
  | .inList x vs => unknownFns x ++ unknownFnsL vs
  | .index x i => unknownFns x ++ unknownFns i
  | _ => []
def unknownFnsL : SExprList → List Bytes
  | .nil => []
  | .cons e es => unknownFns e ++ unknownFnsL es
end

def mapSel (f : SExpr → SExpr) (s : Select) : Select :=
  { s with
    items := s.items.map fun it => { it with expr := f it.expr }
    join := s.join.map fun j => { j with on := f j.on }
    where_ := s.where_.map f
    groupBy := s.groupBy.map f
    orderBy := s.orderBy.map fun o => { o with expr := f o.expr }
    limit := s.limit.map f }

def canonStmt (st : Statement) : Statement := ⟨st.ctes.map fun c => (c.1, mapSel canonE c.2), mapSel canonE st.body⟩

def selExprs (s : Select) : List SExpr :=
  s.items.map (·.expr) ++ (match s.join with | some j => [j.on] | none => []) ++ s.where_.toList ++ s.groupBy ++
  s.orderBy.map (·.expr) ++ s.limit.toList

def stmtUnknownFns (st : Statement) : List Bytes :=
  (((stmtSelects st).flatMap selExprs).flatMap unknownFns).eraseDups

mutual
/-- placeholder tokens (`$1`, `?`, `{p:Int32}`) in an expression -/
def paramsIn : SExpr → List Bytes
  | .param t => [t]
  | .call _ _ args fl => paramsInL args ++ paramsIn fl
  | .case_ a b c => paramsIn a ++ paramsIn b ++ paramsIn c
  | .neg x => paramsIn x
  | .pos x => paramsIn x
  | .not_ x => paramsIn x
  | .bin _ x y => paramsIn x ++ paramsIn y
  | .isNull x _ => paramsIn x
  | .inList x vs => paramsIn x ++ paramsInL vs
  | .index x i => paramsIn x ++ paramsIn i
  | _ => []
def paramsInL : SExprList → List Bytes
  | .nil => []
  | .cons e es => paramsIn e ++ paramsInL es
end

/-- the distinct placeholders a statement mentions -/
def stmtParams (st : Statement) : List Bytes :=
  (((stmtSelects st).flatMap selExprs).flatMap paramsIn).eraseDups

/-- the two statements use the same uninterpreted function symbols: only then does a different result of the
    reference evaluator say anything (a rewrite INTO a dialect function the evaluator does not know cannot be judged) -/
def comparable (got want : Statement) : Bool :=
  let a := stmtUnknownFns got; let b := stmtUnknownFns want
  a.all b.contains && b.all a.contains

/-- the seed of a synthesised database on which the two statements evaluate differently, if one of the first
    `n` has that effect -/
def differOn (n : Nat) (got want : Statement) : Option Nat :=
  -- a placeholder one statement mentions and the other does not: they cannot mean the same for every binding
  let pg := stmtParams got; let pw := stmtParams want
  if !(pg.all pw.contains && pw.all pg.contains) then some 0 else
  if !comparable got want then none else
  let got := canonStmt got
  let want := canonStmt want
  let tables := ((stmtTables got ++ stmtTables want).eraseDups)
  let cols := (((stmtSelects got ++ stmtSelects want).flatMap selColNames).eraseDups)
  let cols := if cols.isEmpty then [[97]] else cols
  let ordered := !want.body.orderBy.isEmpty
  (List.range n).findSome? fun i =>
    let seed := 7919 * (i + 1)
    let db := synthDB seed tables cols
    if tableSame ordered (evalStatement db got) (evalStatement db want) then none else some seed

def sameMeaning (got want : Statement) : Bool := (differOn 12 got want).isNone

/-- two expressions of a WHERE clause: compared as `SELECT * FROM t WHERE e` -/
def sameMeaningWhere (got want : SExpr) : Bool :=
  let mk (e : SExpr) : Statement :=
    ⟨[], { items := [⟨true, .none_, none⟩], source := .named [116] none, join := none, where_ := some e,
            groupBy := [], orderBy := [], limit := none }⟩
  sameMeaning (mk got) (mk want)

end Pql.Sql

namespace Pql.Sql
#guard canonNum (Bytes.ofString "2.50") == canonNum (Bytes.ofString "2.5e-0")
#guard canonNum (Bytes.ofString "25e-1") == canonNum (Bytes.ofString "2.5")
#guard canonNum (Bytes.ofString "7.0") == Bytes.ofString "7"
#guard canonNum (Bytes.ofString "1e3") == Bytes.ofString "1000"
#guard canonNum (Bytes.ofString "0.0") == Bytes.ofString "0"
#guard canonNum (Bytes.ofString "1e400") != canonNum (Bytes.ofString "0.0")
#guard canonNum (Bytes.ofString "0.1234567890123456789") != canonNum (Bytes.ofString "0.12345678901234568")
#guard canonNum (Bytes.ofString "007") == Bytes.ofString "7"
#guard canonNum (Bytes.ofString "1.") == Bytes.ofString "1"
#guard canonNum (Bytes.ofString "0x1F") == Bytes.ofString "0x1F"
end Pql.Sql
