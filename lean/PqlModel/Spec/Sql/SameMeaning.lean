/-
Oracle support: do two SQL statements MEAN the same?  The syntactic comparisons of the oracles ("the emitted
statement reads as the intended statement") are stronger than any property: a change of the compiler that emits
an equivalent arrangement (a WHERE folded into the SELECT it filters, two literal limits merged, an equivalent
spelling of an expression) differs from the intended statement without violating anything.  A syntactic
difference therefore counts as a failing input only if the two statements also EVALUATE differently, by the
reference evaluator (`Sql.evalStatement`, total: unknown functions and columns become symbolic terms), on one of
a handful of small databases synthesised for the tables and columns the two statements mention (NULLs,
duplicates, empty tables, integers and strings).  Results are compared as lists when the intended statement
ends in an ORDER BY, as bags otherwise.  Executable, used by the driver only (no theorem mentions it).
-/
import PqlModel.Spec.Sql.Eval
namespace Pql.Sql
open Pql

mutual
def colNames : SExpr → List Bytes
  | .col parts => parts.getLast?.toList
  | .call _ _ args fl => colNamesL args ++ colNames fl
  | .case_ a b c => colNames a ++ colNames b ++ colNames c
  | .neg x => colNames x
  | .pos x => colNames x
  | .not_ x => colNames x
  | .bin _ x y => colNames x ++ colNames y
  | .isNull x _ => colNames x
  | .inList x vs => colNames x ++ colNamesL vs
  | .index x i => colNames x ++ colNames i
  | _ => []
def colNamesL : SExprList → List Bytes
  | .nil => []
  | .cons e es => colNames e ++ colNamesL es
end

def selColNames (s : Select) : List Bytes :=
  s.items.flatMap (fun it => colNames it.expr) ++
  (match s.join with | some j => colNames j.on | none => []) ++
  (match s.where_ with | some w => colNames w | none => []) ++
  s.groupBy.flatMap colNames ++ s.orderBy.flatMap (fun o => colNames o.expr) ++
  (match s.limit with | some l => colNames l | none => [])

def refName : TableRef → Bytes
  | .named n _ => n
  | .distinctOf n _ => n

def selTables (s : Select) : List Bytes :=
  refName s.source :: (match s.join with | some j => [refName j.table] | none => [])

def stmtSelects (st : Statement) : List Select := st.ctes.map (·.2) ++ [st.body]

/-- base tables: everything a FROM / JOIN reads that is not a common table expression of the statement -/
def stmtTables (st : Statement) : List Bytes :=
  ((stmtSelects st).flatMap selTables).filter fun n => !(st.ctes.any (·.1 == n))

def lcgS (s : Nat) : Nat := (s * 6364136223846793005 + 1442695040888963407) % 18446744073709551616

def intValsS : List Val := [.null, .int 0, .int 1, .int 2, .int 1, .int 3, .int (-2)]
def strValsS : List Val := [.null, .str [97], .str [65], .str [98], .str [97], .str []]

/-- a table with the given columns: 0-5 rows; a column holds strings or integers depending on its name and the seed -/
def synthTable (seed : Nat) (cols : List Bytes) : Table × Nat :=
  let s1 := lcgS seed
  let nrows := (s1 / 65536) % 6
  let kinds : List Bool := cols.map fun c => (c.foldl (fun a b => a + b.toNat) seed) % 3 == 0
  let rec cell : List Bool → Nat → List Val → List Val × Nat
    | [], s, acc => (acc.reverse, s)
    | k :: ks, s, acc =>
      let s2 := lcgS s
      let vs := if k then strValsS else intValsS
      cell ks s2 (vs.getD ((s2 / 65536) % vs.length) .null :: acc)
  let rec rowsGo : Nat → Nat → List (List Val) → List (List Val) × Nat
    | 0, s, acc => (acc.reverse, s)
    | n + 1, s, acc => let r := cell kinds s []; rowsGo n r.2 (r.1 :: acc)
  let r := rowsGo nrows s1 []
  (⟨cols, r.1⟩, r.2)

def synthDB (seed : Nat) (tables cols : List Bytes) : DB :=
  (tables.foldl (fun (acc : DB × Nat) t => let r := synthTable acc.2 cols; (acc.1 ++ [(t, r.1)], r.2)) ([], seed + 1)).1

def bagEq (a b : List (List Val)) : Bool :=
  a.length == b.length && a.all fun r => a.count r == b.count r

def tableSame (ordered : Bool) (a b : Table) : Bool :=
  a.cols == b.cols && (if ordered then a.rows == b.rows else bagEq a.rows b.rows)

/-- the seed of a synthesised database on which the two statements evaluate differently, if one of the first
    `n` has that effect -/
def differOn (n : Nat) (got want : Statement) : Option Nat :=
  let tables := ((stmtTables got ++ stmtTables want).eraseDups)
  let cols := (((stmtSelects got ++ stmtSelects want).flatMap selColNames).eraseDups)
  let cols := if cols.isEmpty then [[97]] else cols
  let ordered := !want.body.orderBy.isEmpty
  (List.range n).findSome? fun i =>
    let seed := 7919 * (i + 1)
    let db := synthDB seed tables cols
    if tableSame ordered (evalStatement db got) (evalStatement db want) then none else some seed

def sameMeaning (got want : Statement) : Bool := (differOn 12 got want).isNone

/-- two expressions of a WHERE clause: compared as `SELECT * FROM t WHERE e` -/
def sameMeaningWhere (got want : SExpr) : Bool :=
  let mk (e : SExpr) : Statement :=
    ⟨[], { items := [⟨true, .none_, none⟩], source := .named [116] none, join := none, where_ := some e,
            groupBy := [], orderBy := [], limit := none }⟩
  sameMeaning (mk got) (mk want)

end Pql.Sql
