/-
Oracle support: names introduced with `as`.  `T | project k | as X | join (X | where k > 0) on k` reads the
intermediate result `X` a second time — the intended use of `as` (golden `As`).  The pipeline interpreter
`Rel.interp` (about which the end-to-end theorems are stated, under `namesOk`) looks a source name up in the
database only.  For the evaluation oracle a program is first EXPANDED: a source that names an earlier `as` result
is replaced by the pipeline that produced it (pipelines are pure, so `X` and the pipeline up to `as X` denote the
same table).  Names become visible in emission order — the order of the WITH list: the operators before a join,
then the join's right-hand pipeline, then the join — and a later definition shadows an earlier one and a database
table of the same name.  Executable, used by the driver only (no theorem mentions it).
-/
import PqlModel.Spec.CompileOracle
namespace Pql.ExpandAs
open Pql

abbrev Env := List (Bytes × (Option Ident × OpList))

mutual
def expandT (env : Env) : Tabular → Tabular × Env
  | .nil => (.nil, env)
  | .mk source ops =>
    let (src0, pre) : Option Ident × OpList :=
      match source with
      | some i => (match env.find? (·.1 == i.name) with | some e => e.2 | none => (source, .nil))
      | none => (source, .nil)
    let r := expandOps env src0 pre ops
    (.mk src0 r.1, r.2)
def expandOps (env : Env) (src0 : Option Ident) (acc : OpList) : OpList → OpList × Env
  | .nil => (acc, env)
  | .cons o rest =>
    let r := expandOp env o
    let acc' := acc.snoc r.1
    let env' : Env :=
      match r.1 with
      | .as_ _ _ (some n) => (n.name, (src0, acc')) :: r.2
      | _ => r.2
    expandOps env' src0 acc' rest
def expandOp (env : Env) : Op → Op × Env
  | .join p k kd ka fl lp right rp on conds =>
    let r := expandT env right
    (.join p k kd ka fl lp r.1 rp on conds, r.2)
  | o => (o, env)
end

def expand (t : Tabular) : Tabular := (expandT [] t).1

/-- name capture (known finding K3) judged AFTER expansion: reading an `as` result is not a capture; a repeated
    `as` name, a name that looks like a generated one, or an `as` name that is also a base table still read, is -/
def nameCapture (stmts : List Stmt) : Bool :=
  let asNames := CompileOracle.stmtAsNames stmts
  let src := stmts.flatMap fun | .tabular t => CompileOracle.tabularTables (expand t) | _ => []
  CompileOracle.hasDup' asNames || asNames.any CompileOracle.isGeneratedName || src.any CompileOracle.isGeneratedName ||
    asNames.any src.contains

end Pql.ExpandAs
