/-
C07 / C08 / C10 / C15 clauses evaluated on the implementation's own parse result.
-/
import PqlModel.Spec.Grammar
import PqlModel.Spec.AstRead
import PqlModel.Spec.LexSpec
namespace Pql.ParseOracle
open Pql

/-- every `a:b` atom of a dumped tree -/
partial def spansOf : AstRead.SExp → List Span
  | .atom s => match AstRead.toSpan (.atom s) with
    | some sp => if s.contains ':' then [sp] else []
    | none => []
  | .node _ fs => fs.flatMap fun f => spansOf f.2
  | .list xs => xs.flatMap spansOf

def spanInside (n : Nat) (s : Span) : Bool := !s.isValid || (s.stop ≤ (n : Int))

structure ImplParse where
  ok : Bool
  errs : List (Int × Int × Bool × Bool)
  stmts : List String

def readErrs : Nat → List String → Option (List (Int × Int × Bool × Bool))
  | 0, [] => some []
  | n + 1, a :: b :: hp :: nf :: rest => do
    let x ← a.toInt?
    let y ← b.toInt?
    let tl ← readErrs n rest
    pure ((x, y, hp == "t", nf == "t") :: tl)
  | _, _ => none

def readImpl (impl : String) : Option ImplParse :=
  match impl.splitOn " ;; " with
  | head :: stmts =>
    match head.splitOn " " with
    | "OK" :: _ => some ⟨true, [], stmts⟩
    | "ERR" :: n :: rest => do
      let n ← n.toNat?
      let es ← readErrs n rest
      pure ⟨false, es, stmts⟩
    | _ => none
  | [] => none

/-- clauses violated by a parse result; `mustParse`: the source was generated from the grammar -/
def clauses (src : Bytes) (impl : String) (mustParse : Bool) : List String :=
  match readImpl impl with
  | none => if impl == "PANIC" || impl.startsWith "PANIC " then ["c12-panic"]
            else if impl == "HANG" then ["c12-hang"] else if impl == "SKIPPED" then [] else ["unreadable-result"]
  | some r =>
    if r.ok then
      let toks := LexSpec.tokens src
      let groups := Grammar.splitStatementsToks toks
      match r.stmts.mapM AstRead.readStmt with
      | none => ["unreadable-dump"]
      | some stmts =>
        if stmts.length != groups.length then ["c15-statement-count"]
        else
          (stmts.zip groups).flatMap fun (st, g) =>
            match Grammar.unparseStmt st with
            | none => ["c08-incomplete-tree"]
            | some us =>
              (if Grammar.accounts false us g then
                (if Grammar.accounts true us g then [] else ["c10-position"])
               else ["c08-unaccounted"]) ++
              (if Grammar.wfStmt st then [] else ["c07-grouping"])
    else
      let n := src.length
      (if mustParse then ["c07-valid-rejected"] else []) ++
      (if r.errs.all (fun (a, b, hp, _) => !hp || spanInside n ⟨a, b⟩) then [] else ["c10-error-span-outside"]) ++
      (match r.stmts.mapM AstRead.parseSExp with
       | none => ["unreadable-dump"]
       | some ss => if (ss.flatMap spansOf).all (spanInside n) then [] else ["c10-partial-tree-span-outside"])

end Pql.ParseOracle
