/-
C07 / C08 / C10 / C15 clauses evaluated on the implementation's own parse result.
-/
import PqlModel.Spec.Grammar
import PqlModel.Spec.AstRead
import PqlModel.Spec.LexSpec
namespace Pql.ParseOracle
open Pql

/-- every `a:b` atom of a dumped tree -/
partial def spansOf : AstRead.SExp → List Span
  | .atom s => match AstRead.toSpan (.atom s) with
    | some sp => if s.contains ':' then [sp] else []
    | none => []
  | .node _ fs => fs.flatMap fun f => spansOf f.2
  | .list xs => xs.flatMap spansOf

def atSpan : AstRead.SExp → Option Span
  | .node _ fs => (fs.find? (·.1 == "@")).bind fun f => AstRead.toSpan f.2
  | _ => none

def isSpanAtom (s : String) : Option Span :=
  if s.contains ':' then AstRead.toSpan (.atom s) else none

def ordered : List Span → Bool
  | a :: b :: rest => a.stop ≤ b.start && ordered (b :: rest)
  | _ => true

/-- C10 on a successfully parsed tree, in one bottom-up pass: returns the extent of all
    positions recorded below the value (not counting the `@` pseudo-fields, the results of
    `Span()`) and the violated clauses: every node's `Span()` must be that extent, and list
    elements must come in source order without overlap. -/
partial def extentAndClauses : AstRead.SExp → Span × List String
  | .atom s => match isSpanAtom s with
    | some sp => (if sp.isValid then sp else .null, [])
    | none => (.null, [])
  | .list xs =>
    let rs := xs.map extentAndClauses
    let ats := (xs.filterMap atSpan).filter Span.isValid
    (rs.foldl (fun u r => Span.union u r.1) .null,
     (if ordered ats then [] else ["c10-siblings-out-of-order"]) ++ rs.flatMap (·.2))
  | .node ty fs =>
    let rs := (fs.filter (·.1 != "@")).map fun f => extentAndClauses f.2
    let ext := rs.foldl (fun u r => Span.union u r.1) .null
    let here := match atSpan (.node ty fs) with
      | some at_ => if at_ == ext then [] else ["c10-node-span-not-extent:" ++ ty]
      | none => []
    (ext, here ++ rs.flatMap (·.2))

def nodeSpanClauses (s : AstRead.SExp) : List String := (extentAndClauses s).2

def spanInside (n : Nat) (s : Span) : Bool := !s.isValid || (s.stop ≤ (n : Int))

structure ImplParse where
  ok : Bool
  errs : List (Int × Int × Bool × Bool)
  stmts : List String

def readErrs : Nat → List String → Option (List (Int × Int × Bool × Bool))
  | 0, [] => some []
  | n + 1, a :: b :: hp :: nf :: rest => do
    let x ← a.toInt?
    let y ← b.toInt?
    let tl ← readErrs n rest
    pure ((x, y, hp == "t", nf == "t") :: tl)
  | _, _ => none

def readImpl (impl : String) : Option ImplParse :=
  match impl.splitOn " ;; " with
  | head :: stmts =>
    match head.splitOn " " with
    | "OK" :: _ => some ⟨true, [], stmts⟩
    | "ERR" :: n :: rest => do
      let n ← n.toNat?
      let es ← readErrs n rest
      pure ⟨false, es, stmts⟩
    | _ => none
  | [] => none

/-- extent of a non-empty token group -/
def extentOf (g : List Token) : Option Span :=
  match g.head?, g.getLast? with
  | some a, some b => some ⟨a.start, b.stop⟩
  | _, _ => none

/-- the groups of a statement's tokens that begin at a top-level `|` (bracket depth 0) -/
def pipeSegments (g : List Token) : List (List Token) :=
  let rec go : List Token → Nat → List Token → List (List Token) → List (List Token)
    | [], _, cur, acc => (if cur.isEmpty then acc else cur.reverse :: acc).reverse
    | t :: rest, depth, cur, acc =>
      if t.kind == .pipe && depth == 0 then
        go rest depth [t] (if cur.isEmpty then acc else cur.reverse :: acc)
      else
        let depth := if t.kind == .lparen || t.kind == .lbracket then depth + 1
          else if (t.kind == .rparen || t.kind == .rbracket) && depth > 0 then depth - 1 else depth
        go rest depth (t :: cur) acc
  go g 0 [] []

/-- C10: "a node's overall span is the extent from its first to its last token" for the statement
    and for each of its top-level operators (a token that no node records shortens a span) -/
def extentClauses (st : Stmt) (g : List Token) : List String :=
  (match extentOf g with
   | some e => if st.spanOf == e then [] else ["c10-statement-span-not-token-extent"]
   | none => []) ++
  (match st with
   | .tabular (.mk _ ops) =>
     let segs := (pipeSegments g).filter fun sg => sg.head?.map (·.kind == .pipe) == some true
     let os := ops.toList
     if segs.length != os.length then []
     else (os.zip segs).flatMap fun (o, sg) =>
       match extentOf sg with
       | some e => if o.spanOf == e then [] else ["c10-operator-span-not-token-extent"]
       | none => []
   | _ => [])

/-- clauses violated by a parse result; `mustParse`: the source was generated from the grammar -/
def clauses (src : Bytes) (impl : String) (mustParse : Bool) : List String :=
  match readImpl impl with
  | none => if impl == "PANIC" || impl.startsWith "PANIC " then ["c12-panic"]
            else if impl == "HANG" then ["c12-hang"] else if impl == "SKIPPED" then [] else ["unreadable-result"]
  | some r =>
    if r.ok then
      let toks := LexSpec.tokens src
      let groups := Grammar.splitStatementsToks toks
      match r.stmts.mapM AstRead.readStmt with
      | none => ["unreadable-dump"]
      | some stmts =>
        if stmts.length != groups.length then ["c15-statement-count"]
        else
          ((stmts.zip groups).flatMap fun (st, g) =>
            match Grammar.unparseStmt st with
            | none => ["c08-incomplete-tree"]
            | some us =>
              (if Grammar.accounts false us g then
                (if Grammar.accounts true us g then [] else ["c10-position"])
               else ["c08-unaccounted"]) ++
              (if Grammar.wfStmt st then [] else ["c07-grouping"]) ++ extentClauses st g) ++
          (match r.stmts.mapM AstRead.parseSExp with
           | some ss => ss.flatMap nodeSpanClauses
           | none => [])
    else
      let n := src.length
      (if mustParse then ["c07-valid-rejected"] else []) ++
      (if r.errs.all (fun (a, b, hp, _) => !hp || spanInside n ⟨a, b⟩) then [] else ["c10-error-span-outside"]) ++
      (match r.stmts.mapM AstRead.parseSExp with
       | none => ["unreadable-dump"]
       | some ss => if (ss.flatMap spansOf).all (spanInside n) then [] else ["c10-partial-tree-span-outside"])

end Pql.ParseOracle
