/-
Reader for the canonical AST dump (the implementation's tree, printed by reflection in the
harness) back into the AST datatypes, so that the spec oracles can run on the
implementation's own output.
-/
import PqlModel.Model.Ast
namespace Pql.AstRead
open Pql

inductive SExp
  | atom (s : String)
  | node (type : String) (fields : List (String × SExp))
  | list (xs : List SExp)
  deriving Inhabited

def isDelim (c : Char) : Bool := c == ' ' || c == '(' || c == ')' || c == '[' || c == ']' || c == '='

def takeWord : List Char → List Char × List Char
  | [] => ([], [])
  | c :: cs => if isDelim c then ([], c :: cs) else let r := takeWord cs; (c :: r.1, r.2)

def skipSp : List Char → List Char
  | ' ' :: cs => skipSp cs
  | cs => cs

mutual
partial def readVal (cs : List Char) : Option (SExp × List Char) :=
  match skipSp cs with
  | '(' :: rest =>
    let (ty, rest) := takeWord rest
    readFields rest [] |>.map fun (fs, rest) => (SExp.node (String.ofList ty) fs, rest)
  | '[' :: rest => readItems rest [] |>.map fun (xs, rest) => (SExp.list xs, rest)
  | cs =>
    let (w, rest) := takeWord cs
    if w.isEmpty then none else some (SExp.atom (String.ofList w), rest)
partial def readFields (cs : List Char) (acc : List (String × SExp)) : Option (List (String × SExp) × List Char) :=
  match skipSp cs with
  | ')' :: rest => some (acc.reverse, rest)
  | cs =>
    let (name, rest) := takeWord cs
    match rest with
    | '=' :: rest =>
      match readVal rest with
      | some (v, rest) => readFields rest ((String.ofList name, v) :: acc)
      | none => none
    | _ => none
partial def readItems (cs : List Char) (acc : List SExp) : Option (List SExp × List Char) :=
  match skipSp cs with
  | ']' :: rest => some (acc.reverse, rest)
  | [] => none
  | cs =>
    match readVal cs with
    | some (v, rest) => readItems rest (v :: acc)
    | none => none
end

def parseSExp (s : String) : Option SExp :=
  match readVal s.toList with
  | some (v, rest) => if (skipSp rest).isEmpty then some v else none
  | none => none

def field (fs : List (String × SExp)) (n : String) : Option SExp := (fs.find? (·.1 == n)).map (·.2)

def toSpan : SExp → Option Span
  | .atom s =>
    -- "a:b" with possibly negative numbers
    match s.splitOn ":" with
    | [a, b] => do
      let x ← a.toInt?
      let y ← b.toInt?
      pure ⟨x, y⟩
    | _ => none
  | _ => none

def toBool : SExp → Option Bool
  | .atom "t" => some true
  | .atom "f" => some false
  | _ => none

def toBytes : SExp → Option Bytes
  | .atom s => Bytes.ofHex s
  | _ => none

def toKind : SExp → Option TokKind
  | .atom s => TokKind.ofGoName s
  | _ => none

def toIdent : SExp → Option (Option Ident)
  | .atom "nil" => some none
  | .node "Ident" fs => do
    let n ← field fs "Name" >>= toBytes
    let sp ← field fs "NameSpan" >>= toSpan
    let q ← field fs "Quoted" >>= toBool
    pure (some ⟨n, sp, q⟩)
  | _ => none

def toIdent! (s : SExp) : Option Ident := do
  let i ← toIdent s
  i

partial def toExpr : SExp → Option Expr
  | .atom "nil" => some .nil
  | .node "QualifiedIdent" fs => do
    let ps ← match ← field fs "Parts" with
      | .list xs => xs.mapM toIdent!
      | _ => none
    pure (.qident ps)
  | .node "BasicLit" fs => do
    pure (.lit (← field fs "ValueSpan" >>= toSpan) (← field fs "Kind" >>= toKind) (← field fs "Value" >>= toBytes))
  | .node "UnaryExpr" fs => do
    pure (.unary (← field fs "OpSpan" >>= toSpan) (← field fs "Op" >>= toKind) (← field fs "X" >>= toExpr))
  | .node "BinaryExpr" fs => do
    pure (.binary (← field fs "X" >>= toExpr) (← field fs "OpSpan" >>= toSpan) (← field fs "Op" >>= toKind)
      (← field fs "Y" >>= toExpr))
  | .node "InExpr" fs => do
    pure (.inE (← field fs "X" >>= toExpr) (← field fs "In" >>= toSpan) (← field fs "Lparen" >>= toSpan)
      (← field fs "Vals" >>= toExprList) (← field fs "Rparen" >>= toSpan))
  | .node "ParenExpr" fs => do
    pure (.paren (← field fs "Lparen" >>= toSpan) (← field fs "X" >>= toExpr) (← field fs "Rparen" >>= toSpan))
  | .node "CallExpr" fs => do
    pure (.call (← field fs "Func" >>= toIdent!) (← field fs "Lparen" >>= toSpan) (← field fs "Args" >>= toExprList)
      (← field fs "Rparen" >>= toSpan))
  | .node "IndexExpr" fs => do
    pure (.index (← field fs "X" >>= toExpr) (← field fs "Lbrack" >>= toSpan) (← field fs "Index" >>= toExpr)
      (← field fs "Rbrack" >>= toSpan))
  | _ => none
where
  toExprList : SExp → Option ExprList
    | .list xs => do
      let es ← xs.mapM toExpr
      pure (ExprList.ofList es)
    | _ => none

def toExprList (s : SExp) : Option ExprList :=
  match s with
  | .list xs => do
    let es ← xs.mapM toExpr
    pure (ExprList.ofList es)
  | _ => none

def toSortTerm : SExp → Option (Option SortTerm)
  | .atom "nil" => some none
  | .node "SortTerm" fs => do
    pure (some ⟨← field fs "X" >>= toExpr, ← field fs "Asc" >>= toBool, ← field fs "AscDescSpan" >>= toSpan,
      ← field fs "NullsFirst" >>= toBool, ← field fs "NullsSpan" >>= toSpan⟩)
  | _ => none

def toColumn : SExp → Option Column
  | .node _ fs => do
    pure ⟨← field fs "Name" >>= toIdent, ← field fs "Assign" >>= toSpan, ← field fs "X" >>= toExpr⟩
  | _ => none

def toProp : SExp → Option RenderProp
  | .node "RenderProperty" fs => do
    pure ⟨← field fs "Name" >>= toIdent, ← field fs "Assign" >>= toSpan, ← field fs "Value" >>= toExpr⟩
  | _ => none

def listOf {α} (f : SExp → Option α) : SExp → Option (List α)
  | .list xs => xs.mapM f
  | _ => none

def opListOf : List Op → OpList
  | [] => .nil
  | o :: os => .cons o (opListOf os)

mutual
partial def toTabular : SExp → Option Tabular
  | .atom "nil" => some .nil
  | .node "TabularExpr" fs => do
    let src ← match ← field fs "Source" with
      | .atom "nil" => some none
      | .node "TableRef" tfs => field tfs "Table" >>= toIdent
      | _ => none
    let ops ← match ← field fs "Operators" with
      | .list xs => xs.mapM toOp
      | _ => none
    pure (.mk src (opListOf ops))
  | _ => none
partial def toOp : SExp → Option Op
  | .node ty fs => do
    let p ← field fs "Pipe" >>= toSpan
    let k ← field fs "Keyword" >>= toSpan
    match ty with
    | "CountOperator" => pure (.count p k)
    | "WhereOperator" => pure (.where_ p k (← field fs "Predicate" >>= toExpr))
    | "SortOperator" => do
      let ts ← field fs "Terms" >>= listOf (fun s => toSortTerm s >>= id)
      pure (.sort p k ts)
    | "TakeOperator" => pure (.take p k (← field fs "RowCount" >>= toExpr))
    | "TopOperator" =>
      pure (.top p k (← field fs "RowCount" >>= toExpr) (← field fs "By" >>= toSpan) (← field fs "Col" >>= toSortTerm))
    | "ProjectOperator" => pure (.project p k (← field fs "Cols" >>= listOf toColumn))
    | "ExtendOperator" => pure (.extend p k (← field fs "Cols" >>= listOf toColumn))
    | "SummarizeOperator" =>
      pure (.summarize p k (← field fs "Cols" >>= listOf toColumn) (← field fs "By" >>= toSpan)
        (← field fs "GroupBy" >>= listOf toColumn))
    | "JoinOperator" =>
      pure (.join p k (← field fs "Kind" >>= toSpan) (← field fs "KindAssign" >>= toSpan) (← field fs "Flavor" >>= toIdent)
        (← field fs "Lparen" >>= toSpan) (← field fs "Right" >>= toTabular) (← field fs "Rparen" >>= toSpan)
        (← field fs "On" >>= toSpan) (← field fs "Conditions" >>= toExprList))
    | "AsOperator" => pure (.as_ p k (← field fs "Name" >>= toIdent))
    | "RenderOperator" =>
      pure (.render p k (← field fs "ChartType" >>= toIdent) (← field fs "With" >>= toSpan) (← field fs "Lparen" >>= toSpan)
        (← field fs "Props" >>= listOf toProp) (← field fs "Rparen" >>= toSpan))
    | _ => none
  | _ => none
end

def toStmt : SExp → Option Stmt
  | .node "LetStatement" fs => do
    pure (.let_ (← field fs "Keyword" >>= toSpan) (← field fs "Name" >>= toIdent) (← field fs "Assign" >>= toSpan)
      (← field fs "X" >>= toExpr))
  | s => (toTabular s).map .tabular

def readStmt (s : String) : Option Stmt := parseSExp s >>= toStmt

end Pql.AstRead
