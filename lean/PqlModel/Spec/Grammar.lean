/-
The PQL grammar as a specification on syntax trees, independent of the parser model:

* `unparse`    — the token sequence a tree stands for (with the source position every token
                 is claimed to have, taken from the tree's span fields);
* `okExpr` …   — the grouping the grammar prescribes (precedence, associativity, the `in`
                 rule), stated on the tree's left spine: a binary operator's precedence is
                 ≥ the minimum of its context and ≤ that of the binary operator before it on
                 the spine; its right operand is a spine of its own at precedence + 1; an
                 `in (…)` test counts as precedence 2 towards what precedes it and resets the
                 cap for what follows ("a complete test at comparison level to which any
                 following operator applies as a whole");
* `wf…`        — per-operator defaults and flags (sort direction / null placement, join kind,
                 integer row counts), completeness (no nil where the grammar needs a part).

`accounts` compares `unparse` of a tree with a token sequence: equal kinds and values in
order, keyword synonyms allowed, a comma directly before the `)` of a call or before `by`
in summarize may be absent from the tree, and every claimed position equals the token's.
-/
import PqlModel.Model.Ast
import PqlModel.Generated.Facts
namespace Pql.Grammar
open Pql

/-- A token the tree stands for. -/
structure UTok where
  kind : TokKind
  value : Bytes := []
  alts : List Bytes := []        -- accepted spellings for a keyword (identifier token)
  optComma : Bool := false       -- a comma may directly precede this token in the source
  start : Option Int := none     -- claimed start / end position (none: not recorded)
  stop : Option Int := none
  deriving Repr

def sym (k : TokKind) (sp : Span) : UTok := { kind := k, start := some sp.start, stop := some sp.stop }
def kwTok (names : List String) (sp : Span) : UTok :=
  { kind := .ident, alts := names.map Bytes.ofString, start := some sp.start, stop := some sp.stop }
def kwPlain (names : List String) : UTok := { kind := .ident, alts := names.map Bytes.ofString }
def identTok (i : Ident) : UTok :=
  { kind := if i.quoted then .qident else .ident, value := i.name, start := some i.span.start, stop := some i.span.stop }
def commaTok : UTok := { kind := .comma }

def precOf (k : TokKind) : Int :=
  match Facts.precedence.find? (fun kv => kv.1 == k.goName) with
  | some kv => kv.2
  | none => -1

def isBinaryOp (k : TokKind) : Bool := precOf k ≥ 0 && k != .in_

def sepBy (sep : UTok) : List (List UTok) → List UTok
  | [] => []
  | [x] => x
  | x :: xs => x ++ sep :: sepBy sep xs

def identsDotted : List Ident → List UTok
  | [] => []
  | [i] => [identTok i]
  | i :: is => identTok i :: { kind := .dot } :: identsDotted is

mutual
def unparseExpr : Expr → Option (List UTok)
  | .nil => none
  | .qident parts => if parts.isEmpty then none else some (identsDotted parts)
  | .lit sp k v => some [{ kind := k, value := v, start := some sp.start, stop := some sp.stop }]
  | .unary os op x => do
    let xs ← unparseExpr x
    pure (sym op os :: xs)
  | .binary x os op y => do
    let xs ← unparseExpr x
    let ys ← unparseExpr y
    pure (xs ++ sym op os :: ys)
  | .inE x i lp vals rp => do
    let xs ← unparseExpr x
    let vs ← unparseExprList vals
    pure (xs ++ sym .in_ i :: sym .lparen lp :: vs ++ [sym .rparen rp])
  | .paren lp x rp => do
    let xs ← unparseExpr x
    pure (sym .lparen lp :: xs ++ [sym .rparen rp])
  | .call fn lp args rp => do
    let as ← unparseExprList args
    pure (identTok fn :: sym .lparen lp :: as ++ [{ sym .rparen rp with optComma := true }])
  | .index x lb idx rb => do
    let xs ← unparseExpr x
    let is ← unparseExpr idx
    pure (xs ++ sym .lbracket lb :: is ++ [sym .rbracket rb])
def unparseExprList : ExprList → Option (List UTok)
  | .nil => some []
  | .cons e .nil => unparseExpr e
  | .cons e es => do
    let a ← unparseExpr e
    let b ← unparseExprList es
    pure (a ++ commaTok :: b)
end

def unparseSortTerm (t : SortTerm) : Option (List UTok) := do
  let xs ← unparseExpr t.x
  let dir : List UTok :=
    if t.ascDescSpan.isValid then [kwTok [if t.asc then "asc" else "desc"] t.ascDescSpan] else []
  let nulls : List UTok :=
    if t.nullsSpan.isValid then
      [{ kwPlain ["nulls"] with start := some t.nullsSpan.start },
       { kwPlain [if t.nullsFirst then "first" else "last"] with stop := some t.nullsSpan.stop }]
    else []
  pure (xs ++ dir ++ nulls)

/-- `name = x` (extend / summarize: name optional; project: expression optional) -/
def unparseColumn (project : Bool) (c : Column) : Option (List UTok) :=
  match c.name with
  | some n =>
    if c.assign.isValid then do
      let xs ← unparseExpr c.x
      pure (identTok n :: sym .assign c.assign :: xs)
    else if project then
      match c.x with
      | .nil => some [identTok n]
      | _ => none
    else none
  | none => if project || c.assign.isValid then none else unparseExpr c.x

def unparseProp (p : RenderProp) : Option (List UTok) := do
  let n ← p.name
  let vs ← unparseExpr p.value
  pure (identTok n :: sym .assign p.assign :: vs)

def listM {α β} (f : α → Option β) : List α → Option (List β)
  | [] => some []
  | x :: xs => do
    let y ← f x
    let ys ← listM f xs
    pure (y :: ys)

mutual
def unparseTabular : Tabular → Option (List UTok)
  | .nil => none
  | .mk src ops => do
    let s ← src
    let os ← unparseOps ops
    pure (identTok s :: os)
def unparseOps : OpList → Option (List UTok)
  | .nil => some []
  | .cons o os => do
    let a ← unparseOp o
    let b ← unparseOps os
    pure (a ++ b)
def unparseOp : Op → Option (List UTok)
  | .count p k => some [sym .pipe p, kwTok ["count"] k]
  | .where_ p k e => do
    let xs ← unparseExpr e
    pure (sym .pipe p :: kwTok ["where", "filter"] k :: xs)
  | .sort p k ts => do
    if ts.isEmpty then none
    let tss ← listM unparseSortTerm ts
    pure (sym .pipe p :: { kwPlain ["sort", "order"] with start := some k.start } ::
      { kind := .by_, stop := some k.stop } :: sepBy commaTok tss)
  | .take p k n => do
    let xs ← unparseExpr n
    pure (sym .pipe p :: kwTok ["take", "limit"] k :: xs)
  | .top p k n b c => do
    let xs ← unparseExpr n
    let col ← c
    let cs ← unparseSortTerm col
    pure (sym .pipe p :: kwTok ["top"] k :: xs ++ sym .by_ b :: cs)
  | .project p k cs => do
    if cs.isEmpty then none
    let css ← listM (unparseColumn true) cs
    pure (sym .pipe p :: kwTok ["project"] k :: sepBy commaTok css)
  | .extend p k cs => do
    if cs.isEmpty then none
    let css ← listM (unparseColumn false) cs
    pure (sym .pipe p :: kwTok ["extend"] k :: sepBy commaTok css)
  | .summarize p k cs b gs => do
    let css ← listM (unparseColumn false) cs
    let gss ← listM (unparseColumn false) gs
    if b.isValid then
      if gs.isEmpty then none
      pure (sym .pipe p :: kwTok ["summarize"] k :: sepBy commaTok css ++
        { sym .by_ b with optComma := !cs.isEmpty } :: sepBy commaTok gss)
    else
      if cs.isEmpty || !gs.isEmpty then none
      pure (sym .pipe p :: kwTok ["summarize"] k :: sepBy commaTok css)
  | .join p k kind ka fl lp right rp on conds => do
    let r ← unparseTabular right
    let cs ← unparseExprList conds
    if conds.length = 0 then none
    let hdr : List UTok ← match fl with
      | some f => some [kwTok ["kind"] kind, sym .assign ka, identTok f]
      | none => if kind.isValid || ka.isValid then none else some []
    pure (sym .pipe p :: kwTok ["join"] k :: hdr ++ sym .lparen lp :: r ++ sym .rparen rp :: kwTok ["on"] on :: cs)
  | .as_ p k n => do
    let nm ← n
    pure [sym .pipe p, kwTok ["as"] k, identTok nm]
  | .render p k ch w lp props rp => do
    let c ← ch
    let pss ← listM unparseProp props
    if w.isValid then
      if props.isEmpty then none
      pure (sym .pipe p :: kwTok ["render"] k :: identTok c :: kwTok ["with"] w :: sym .lparen lp ::
        sepBy commaTok pss ++ [sym .rparen rp])
    else
      if !props.isEmpty then none
      pure [sym .pipe p, kwTok ["render"] k, identTok c]
end

def unparseStmt : Stmt → Option (List UTok)
  | .let_ kw name asg x => do
    let n ← name
    let xs ← unparseExpr x
    pure (kwTok ["let"] kw :: identTok n :: sym .assign asg :: xs)
  | .tabular t => unparseTabular t

/-! ### matching a tree's tokens against the source's tokens -/

def tokMatches (u : UTok) (t : Token) : Bool :=
  u.kind == t.kind &&
  (if u.alts.isEmpty then (u.kind == .error || u.value == t.value) else u.alts.contains t.value)

def posMatches (u : UTok) (t : Token) : Bool :=
  (match u.start with | some s => s == (t.start : Int) | none => true) &&
  (match u.stop with | some s => s == (t.stop : Int) | none => true)

/-- `accounts us ts` : every token of `ts` is accounted for by `us`, in order (C08);
    with `pos = true` also every claimed position is the token's position (C10). -/
def accounts (pos : Bool) : List UTok → List Token → Bool
  | [], [] => true
  | u :: us, t :: ts =>
    if tokMatches u t && (!pos || posMatches u t) then accounts pos us ts
    else if u.optComma && t.kind == .comma then
      match ts with
      | t2 :: ts2 => tokMatches u t2 && (!pos || posMatches u t2) && accounts pos us ts2
      | [] => false
    else false
  | _, _ => false

/-- split at semicolon tokens, dropping empty statements -/
def splitStatementsToks (ts : List Token) : List (List Token) :=
  let rec go : List Token → List Token → List (List Token)
    | [], cur => if cur.isEmpty then [] else [cur.reverse]
    | t :: rest, cur =>
      if t.kind == .semi then (if cur.isEmpty then go rest [] else cur.reverse :: go rest [])
      else go rest (t :: cur)
  go ts []

/-! ### the grouping the grammar prescribes -/

def isInnerPrimary : Expr → Bool
  | .lit .. | .qident .. | .call .. | .paren .. => true
  | _ => false

def isPrimary : Expr → Bool
  | .index .. => true
  | e => isInnerPrimary e

def inf : Int := 100

mutual
/-- `okSpine m e = some cap`: `e` is a well-grouped spine in a context of minimum precedence `m`;
    `cap` is the highest precedence a following binary operator on the same spine may have. -/
def okSpine (m : Int) : Expr → Option Int
  | .binary x _ op y =>
    match okSpine m x with
    | none => none
    | some cap =>
      let p := precOf op
      if isBinaryOp op && p ≥ m && p ≤ cap && (okSpine (p + 1) y).isSome then some p else none
  | .inE x _ _ vals _ =>
    match okSpine m x with
    | none => none
    | some cap => if 2 ≥ m && 2 ≤ cap && vals.length > 0 && okList vals then some inf else none
  | .nil => none
  | .qident parts => if parts.isEmpty then none else some inf
  | .lit _ k _ => if k == .number || k == .string then some inf else none
  | .unary _ op x =>
    if (op == .plus || op == .minus) && isPrimary x && (okSpine 0 x).isSome then some inf else none
  | .paren _ x _ => if (okSpine 0 x).isSome then some inf else none
  | .call fn _ args _ => if !fn.quoted && okList args then some inf else none
  | .index x _ idx _ =>
    if isInnerPrimary x && (okSpine 0 x).isSome && (okSpine 0 idx).isSome then some inf else none
def okList : ExprList → Bool
  | .nil => true
  | .cons e es => (okSpine 0 e).isSome && okList es
end

def okExpr (e : Expr) : Bool := (okSpine 0 e).isSome

def isIntegerLit : Expr → Bool
  | .lit _ k v => k == .number && !(v.any fun b => b == 46 || b == 101 || b == 69)
  | _ => true          -- only literal row counts are checked by the parser

def wfSortTerm (t : SortTerm) : Bool :=
  okExpr t.x &&
  (t.ascDescSpan.isValid || !t.asc) &&                    -- default direction: descending
  (t.nullsSpan.isValid || t.nullsFirst == t.asc)          -- default: asc ⇒ nulls first, desc ⇒ nulls last

def wfColumn (c : Column) : Bool :=
  match c.x with
  | .nil => true
  | x => okExpr x

mutual
def wfTabular : Tabular → Bool
  | .nil => false
  | .mk src ops => src.isSome && wfOps ops
def wfOps : OpList → Bool
  | .nil => true
  | .cons o os => wfOp o && wfOps os
def wfOp : Op → Bool
  | .count .. => true
  | .where_ _ _ e => okExpr e
  | .sort _ _ ts => ts.all wfSortTerm
  | .take _ _ n => okExpr n && isIntegerLit n
  | .top _ _ n _ c => okExpr n && isIntegerLit n && (match c with | some t => wfSortTerm t | none => false)
  | .project _ _ cs => cs.all wfColumn
  | .extend _ _ cs => cs.all wfColumn
  | .summarize _ _ cs _ gs => cs.all wfColumn && gs.all wfColumn
  | .join _ _ _ _ fl _ right _ _ conds =>
    wfTabular right && okList conds &&
    (match fl with
     | some f => !f.quoted && Facts.joinTypes.any (fun j => Bytes.ofString j == f.name)
     | none => true)
  | .as_ .. => true
  | .render _ _ _ _ _ props _ => props.all fun p => okExpr p.value
end

def wfStmt : Stmt → Bool
  | .let_ _ _ _ x => okExpr x
  | .tabular t => wfTabular t

end Pql.Grammar
