/-
C11 clauses evaluated on the implementation's visit trace (visitor always returning true),
against the set of nodes of the tree enumerated generically from its dump — independently of
the Walk model: every identifier and every expression node (function names and join kinds
excepted) is visited exactly once, parents before children, never a nil node, no panic.
-/
import PqlModel.Spec.AstRead
namespace Pql.WalkOracle
open Pql AstRead

def exprTypes : List String :=
  ["Ident", "QualifiedIdent", "BasicLit", "UnaryExpr", "BinaryExpr", "InExpr", "ParenExpr", "CallExpr", "IndexExpr"]

def atOf (fs : List (String × SExp)) : Option Span := (fs.find? (·.1 == "@")).bind fun f => toSpan f.2

/-- all (type, span) of identifier / expression nodes, with the (type, span) of the nearest
    enclosing such node; `Func` of calls and `Flavor` of joins are not traversed -/
partial def nodesOf (parent : Option (String × Span)) : SExp → List ((String × Span) × Option (String × Span))
  | .atom _ => []
  | .list xs => xs.flatMap (nodesOf parent)
  | .node ty fs =>
    let me : Option (String × Span) :=
      if exprTypes.contains ty then (atOf fs).map fun sp => (ty, sp) else none
    let parent' := if me.isSome then me else parent
    let below := fs.flatMap fun f =>
      if (ty == "CallExpr" && f.1 == "Func") || (ty == "JoinOperator" && f.1 == "Flavor") then []
      else nodesOf parent' f.2
    match me with
    | some m => (m, parent) :: below
    | none => below

def readEvent (s : String) : Option (String × Span) :=
  match s.splitOn ":" with
  | [ty, a, b] => do
    let x ← a.toInt?
    let y ← b.toInt?
    pure (ty, ⟨x, y⟩)
  | _ => none

def count {α} [BEq α] (x : α) (xs : List α) : Nat := (xs.filter (· == x)).length

/-- `dump`: the dumped statement; `trace`: the implementation's events for it -/
def clauses (dump : String) (trace : String) : List String :=
  let evs := if trace.isEmpty then [] else trace.splitOn " "
  (if evs.contains "PANIC" then ["c11-panic"] else []) ++
  (if evs.contains "NIL" then ["c11-nil-node"] else []) ++
  match parseSExp dump with
  | none => ["unreadable-dump"]
  | some sx =>
    let visited := evs.filterMap readEvent
    let vexpr := visited.filter fun v => exprTypes.contains v.1
    let nodes := nodesOf none sx
    let want := nodes.map (·.1)
    (if want.all (fun w => count w vexpr == count w want) then [] else ["c11-node-not-visited-exactly-once"]) ++
    (if vexpr.all (fun v => want.contains v) then [] else ["c11-visited-non-node"]) ++
    (if nodes.all (fun (n, p) =>
        match p with
        | none => true
        | some p =>
          match visited.idxOf? p, visited.idxOf? n with
          | some i, some j => i < j || p == n
          | _, _ => true) then [] else ["c11-child-before-parent"])

/-! ### pruned walks: a `false` answer skips exactly that node's descendants -/

/-- all nodes that carry a span (any type), each with its enclosing such nodes -/
partial def nodesAnc (anc : List (String × Span)) : SExp → List ((String × Span) × List (String × Span))
  | .atom _ => []
  | .list xs => xs.flatMap (nodesAnc anc)
  | .node ty fs =>
    let me : Option (String × Span) := (atOf fs).map fun sp => (ty, sp)
    let anc' := match me with | some m => m :: anc | none => anc
    let below := fs.flatMap fun f =>
      if (ty == "CallExpr" && f.1 == "Func") || (ty == "JoinOperator" && f.1 == "Flavor") then []
      else nodesAnc anc' f.2
    match me with
    | some m => (m, anc) :: below
    | none => below

/-- `mask`: the visitor answered `mask[i mod |mask|] == '1'` at its i-th call -/
def prunedClauses (dump : String) (trace : String) (mask : String) : List String :=
  let evs := if trace.isEmpty then [] else trace.splitOn " "
  (if evs.contains "PANIC" then ["c11-panic"] else []) ++
  (if evs.contains "NIL" then ["c11-nil-node"] else []) ++
  match parseSExp dump with
  | none => ["unreadable-dump"]
  | some sx =>
    let m := mask.toList
    if m.isEmpty then [] else
    let answered : List ((String × Span) × Bool) :=
      (evs.zipIdx).filterMap fun (e, i) => (readEvent e).map fun n => (n, m.getD (i % m.length) '1' == '1')
    let visited := answered.map (·.1)
    let refused := (answered.filter fun a => !a.2).map (·.1)
    let nodes := (nodesAnc [] sx).filter fun n => exprTypes.contains n.1.1
    let want := nodes.map (·.1)
    let blocked (n : (String × Span) × List (String × Span)) : Bool := n.2.any fun a => refused.contains a
    -- a node under a refused node is not visited …
    (if nodes.all (fun n => !blocked n || count n.1 visited == 0 ||
          -- (a same-looking node elsewhere may legitimately be visited)
          (nodes.any fun n' => n'.1 == n.1 && !blocked n')) then [] else ["c11-pruned-descendant-visited"]) ++
    -- … and every other node is still visited, once
    (if nodes.all (fun n => blocked n || count n.1 visited ≥ 1) then [] else ["c11-pruning-skipped-non-descendant"]) ++
    (if nodes.all (fun n => count n.1 visited ≤ count n.1 want) then [] else ["c11-node-visited-twice"])

end Pql.WalkOracle
