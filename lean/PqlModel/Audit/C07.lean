import PqlModel.Props.C07
import PqlModel.Props.C07Full
import PqlModel.Props.C07Layout
import PqlModel.Props.C07Keywords
import PqlModel.Props.C07Defaults
import PqlModel.Props.C07OperatorIRTreesA
import PqlModel.Props.C07OperatorIRTreesB
import PqlModel.Props.C07OperatorIRSort
import PqlModel.Props.C07OperatorIRExtend
import PqlModel.Props.C07OperatorIRProject
import PqlModel.Props.C07OperatorIRLet
import PqlModel.Props.C07OperatorIRTabular
import PqlModel.Props.C07OperatorIRSummarize
import PqlModel.Props.C07OperatorIRRender
import PqlModel.Props.C07OperatorIRJoin
import PqlModel.Props.C07OperatorIRParse
import PqlModel.Props.C07ExprIR
import PqlModel.Props.C07ParserIR
import PqlModel.Props.C07OperatorIRTerm
import PqlModel.Props.C08ErrIRUnits
import PqlModel.Props.C08ErrIRAlgebra
import PqlModel.Props.C08ErrIRShape
import PqlModel.Props.C08ErrIR
import PqlModel.Props.IRHeadlinesC
#print axioms Pql.C07.C07_precedence_table
#print axioms Pql.C07.C07_spec_prec_eq_model
#print axioms Pql.C07.C07_join_kinds
#print axioms Pql.C07.C07_keywords
#print axioms Pql.C07.C07_expr
#print axioms Pql.C07.C07_expr_all
#print axioms Pql.C07.C07_trail
#print axioms Pql.C07.C07_higher
#print axioms Pql.C07.C07_exprList
#print axioms Pql.C07.C07_sortTerm
#print axioms Pql.C07.C07_column
#print axioms Pql.C07.C07_operator
#print axioms Pql.C07.C07_tabular
#print axioms Pql.C07.C07_let
#print axioms Pql.C07.C07_statement
#print axioms Pql.C07.C07_parse_partial
#print axioms Pql.C07.C07_parse_src_partial
#print axioms Pql.C07.C07_expr_unrestricted_false
#print axioms Pql.C07.C07_canon_needed
#print axioms Pql.C07.C07_parse_unrestricted_false
#print axioms Pql.Layout.C07_layout_tokens
#print axioms Pql.Layout.C07_layout_errors
#print axioms Pql.Layout.C07_layout_tokens_strong
#print axioms Pql.Layout.C07_layout_source
#print axioms Pql.Layout.C07_layout_source_errors
#print axioms Pql.Layout.C07_trivia_insertion
#print axioms Pql.Layout.C07_trivia_insertion_parse
#print axioms Pql.Layout.C07_trivia_leading
#print axioms Pql.Layout.C07_trivia_needs_boundary
#print axioms Pql.Layout.C07_trivia_needs_boundary_after
#print axioms Pql.Layout.C07_trivia_needs_newline
#print axioms Pql.Layout.C07_synonyms_operator
#print axioms Pql.Layout.C07_synonyms_pairs
#print axioms Pql.Layout.C07_synonyms_pipeline
#print axioms Pql.Layout.C07_synonyms_source
#print axioms Pql.Layout.C07_synonyms_not_tokenwise
#print axioms Pql.Layout.C07_layout_demo
#print axioms Pql.Layout.C07_synonyms_demo
#print axioms Pql.C07K.C07_keyword_table
#print axioms Pql.C07K.C07_operator_table
#print axioms Pql.Dispatch.C07_sortTerm_tables
#print axioms Pql.Dispatch.C07_sortTerm_nulls_follow_direction
#print axioms Pql.Dispatch.C07_sortTerm_flags
#print axioms Pql.Dispatch.C07_sortTerm_flags_needs_expr
#print axioms Pql.Dispatch.C07_sortTerm_flag_table
#print axioms Pql.Dispatch.C07_rowCount_table
#print axioms Pql.Dispatch.C07_rowCount_check
#print axioms Pql.Dispatch.C07_join_tables
#print axioms Pql.Dispatch.C07_join_no_kind
#print axioms Pql.Dispatch.C07_join_kind
#print axioms Pql.Dispatch.C07_sortTerm_demo
#print axioms Pql.Dispatch.C07_join_no_kind_needs_hyp
#print axioms Pql.OpIR.countOperator_ir
#print axioms Pql.OpIR.renderOperator_ir
#print axioms Pql.OpIR.summarizeOperator_ir
#print axioms Pql.OpIR.joinOperator_ir
#print axioms Pql.OpIR.tabularExpr_ir
#print axioms Pql.OpIR.firstParse_ir
#print axioms Pql.OpIR.Parse_ir
#print axioms Pql.OpIR.C07_countOperator_ir
#print axioms Pql.OpIR.C07_whereOperator_ir
#print axioms Pql.OpIR.C07_takeOperator_ir
#print axioms Pql.OpIR.C07_asOperator_ir
#print axioms Pql.OpIR.C07_topOperator_ir
#print axioms Pql.OpIR.C07_sortOperator_ir
#print axioms Pql.OpIR.C07_extendColumn_ir
#print axioms Pql.OpIR.C07_summarizeColumn_ir
#print axioms Pql.OpIR.C07_extendOperator_ir
#print axioms Pql.OpIR.C07_projectOperator_ir
#print axioms Pql.OpIR.C07_letStatement_ir
#print axioms Pql.OpIR.C07_tabularExpr_ir
#print axioms Pql.OpIR.C07_tabularExpr_ir_fueled
#print axioms Pql.OpIR.tabular_fuel_cx
#print axioms Pql.OpIR.C07_summarizeOperator_ir
#print axioms Pql.OpIR.C07_renderProperty_ir
#print axioms Pql.OpIR.C07_renderOperator_ir
#print axioms Pql.OpIR.C07_joinOperator_ir
#print axioms Pql.OpIR.join_fuel_cx
#print axioms Pql.OpIR.C07_firstParse_ir
#print axioms Pql.OpIR.C07_firstParse_stmt
#print axioms Pql.OpIR.C07_Parse_tokens_ir
#print axioms Pql.OpIR.C07_Parse_ir
#print axioms Pql.ExprParseIR.C07_next_ir
#print axioms Pql.ExprParseIR.C07_prev_ir
#print axioms Pql.ExprParseIR.C07_pushback
#print axioms Pql.ExprParseIR.C07_eof_sticky
#print axioms Pql.ExprParseIR.C07_endSplit_ir
#print axioms Pql.ExprParseIR.C07_endSplit_model
#print axioms Pql.ExprParseIR.C07_endSplit_not_split
#print axioms Pql.ExprParseIR.C07_ident_ir
#print axioms Pql.ExprParseIR.C07_qualifiedIdent_ir
#print axioms Pql.ExprParseIR.C07_split_ir
#print axioms Pql.ExprParseIR.C07_split_ir_needs_search
#print axioms Pql.ExprParseIR.C07_split_ir_nonvacuous
#print axioms Pql.ExprParseIR.C07_innerPrimaryExpr_ir
#print axioms Pql.ExprParseIR.C07_primaryExpr_ir
#print axioms Pql.ExprParseIR.C07_unaryExpr_ir
#print axioms Pql.ExprParseIR.C07_exprBinaryTrail_ir
#print axioms Pql.ExprParseIR.C07_expr_ir
#print axioms Pql.ExprParseIR.C07_exprList_ir
#print axioms Pql.ExprParseIR.C07_expr_ir_total
#print axioms Pql.ExprParseIR.C07_expr_ir_eof_value
#print axioms Pql.ExprParseIR.C07_primaryExpr_loop_never_iterates
#print axioms Pql.ExprParseIR.nextIR_ir
#print axioms Pql.ExprParseIR.prevIR_ir
#print axioms Pql.ExprParseIR.endSplitIR_ir
#print axioms Pql.ExprParseIR.splitIR_ir
#print axioms Pql.ExprParseIR.identIR_ir
#print axioms Pql.ExprParseIR.qualifiedIdentIR_ir
#print axioms Pql.ExprParseIR.innerIR_ir
#print axioms Pql.ExprParseIR.primaryIR_ir
#print axioms Pql.ExprParseIR.unaryIR_ir
#print axioms Pql.ExprParseIR.trailIR_ir
#print axioms Pql.ExprParseIR.exprIR_ir
#print axioms Pql.ExprParseIR.exprListIR_ir
#print axioms Pql.ExprParseIR.C07_innerPrimaryExpr_ir_exact
#print axioms Pql.ExprParseIR.C07_primaryExpr_ir_exact
#print axioms Pql.ExprParseIR.C07_unaryExpr_ir_exact
#print axioms Pql.ExprParseIR.C07_exprBinaryTrail_ir_exact
#print axioms Pql.ExprParseIR.C07_expr_ir_exact
#print axioms Pql.ExprParseIR.C07_exprList_ir_exact
#print axioms Pql.ExprParseIR.C07_expr_ir_fuel_only_below
#print axioms Pql.ExprParseIR.C07_expr_ir_entry
#print axioms Pql.ExprParseIR.C07_exprList_ir_entry
#print axioms Pql.ExprParseIR.C07_expr_ir_exact_needs_fuel
#print axioms Pql.ExprParseIR.C07_expr_ir_exact_nonvacuous
#print axioms Pql.ParserIR.C07_callee_expr_is_unit
#print axioms Pql.ParserIR.C07_callee_exprList_is_unit
#print axioms Pql.ParserIR.C07_callee_ident_is_unit
#print axioms Pql.ParserIR.C07_callee_expr_is_unit_entry
#print axioms Pql.ParserIR.C07_callee_expr_is_unit_needs_fuel
#print axioms Pql.OpIR.sortTerm_ir
#print axioms Pql.OpIR.rowCount_ir
#print axioms Pql.OpIR.C07_sortTerm_ir
#print axioms Pql.OpIR.C07_rowCount_ir
#print axioms Pql.OpIR.C07_calleeIR_eq
#print axioms Pql.OpIR.C07_sortOperator_ir_composed
#print axioms Pql.OpIR.C07_takeOperator_ir_composed
#print axioms Pql.OpIR.C07_topOperator_ir_composed
#print axioms Pql.IRHead.C07_grammar_ir
#print axioms Pql.IRHead.C07_grammar_source_ir
#print axioms Pql.IRHead.C07_expr_ir
#print axioms Pql.IRHead.C07_layout_tokens_ir
#print axioms Pql.IRHead.C07_layout_source_ir
#print axioms Pql.IRHead.C07_trivia_insertion_ir
#print axioms Pql.IRHead.C07_on_translated_code
#print axioms Pql.IRHead.C07_on_translated_code_nonvacuous
