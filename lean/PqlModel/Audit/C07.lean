import PqlModel.Props.C07
import PqlModel.Props.C07Full
#print axioms Pql.C07.C07_precedence_table
#print axioms Pql.C07.C07_spec_prec_eq_model
#print axioms Pql.C07.C07_join_kinds
#print axioms Pql.C07.C07_keywords
#print axioms Pql.C07.C07_expr
#print axioms Pql.C07.C07_expr_all
#print axioms Pql.C07.C07_trail
#print axioms Pql.C07.C07_higher
#print axioms Pql.C07.C07_exprList
#print axioms Pql.C07.C07_sortTerm
#print axioms Pql.C07.C07_column
#print axioms Pql.C07.C07_operator
#print axioms Pql.C07.C07_tabular
#print axioms Pql.C07.C07_let
#print axioms Pql.C07.C07_statement
#print axioms Pql.C07.C07_parse_partial
#print axioms Pql.C07.C07_parse_src_partial
#print axioms Pql.C07.C07_expr_unrestricted_false
#print axioms Pql.C07.C07_canon_needed
#print axioms Pql.C07.C07_parse_unrestricted_false
