import PqlModel.Props.C07
#print axioms Pql.C07.C07_precedence_table
#print axioms Pql.C07.C07_spec_prec_eq_model
#print axioms Pql.C07.C07_join_kinds
#print axioms Pql.C07.C07_keywords
