import PqlModel.Props.C08
import PqlModel.Props.C08Full
#print axioms Pql.C08.C08_split_partition
#print axioms Pql.C08.C08_splitSemi_partition
#print axioms Pql.C08.C08_endSplit_iff
#print axioms Pql.C08.C08_accounts_no_error_token
#print axioms Pql.C08.C08_accounted_expr
#print axioms Pql.C08.C08_accounted_exprList
#print axioms Pql.C08.C08_accounted_sortTerm
#print axioms Pql.C08.C08_accounted_column
#print axioms Pql.C08.C08_accounted_operator
#print axioms Pql.C08.C08_accounted_tabular
#print axioms Pql.C08.C08_accounted_let
#print axioms Pql.C08.C08_accounted_partial
#print axioms Pql.C08.C08_accounted_parse
#print axioms Pql.C08.C08_accounted_parse_zip
#print axioms Pql.C08.C08_accounted_unrestricted_false
