import PqlModel.Props.C08
import PqlModel.Props.C08Full
import PqlModel.Props.C08Reject
import PqlModel.Props.C08RejectCx
import PqlModel.Props.C07OperatorIRTreesA
import PqlModel.Props.C07OperatorIRTreesB
import PqlModel.Props.C07OperatorIRSort
import PqlModel.Props.C07OperatorIRExtend
import PqlModel.Props.C07OperatorIRProject
import PqlModel.Props.C07OperatorIRLet
import PqlModel.Props.C07OperatorIRTabular
import PqlModel.Props.C07OperatorIRSummarize
import PqlModel.Props.C07OperatorIRRender
import PqlModel.Props.C07OperatorIRJoin
import PqlModel.Props.C07OperatorIRParse
import PqlModel.Props.C07ExprIR
import PqlModel.Props.C08ErrIRUnits
import PqlModel.Props.C08ErrIRAlgebra
import PqlModel.Props.C08ErrIRShape
import PqlModel.Props.C08ErrIR
import PqlModel.Props.IRHeadlinesC
#print axioms Pql.C08.C08_split_partition
#print axioms Pql.C08.C08_splitSemi_partition
#print axioms Pql.C08.C08_endSplit_iff
#print axioms Pql.C08.C08_accounts_no_error_token
#print axioms Pql.C08.C08_accounted_expr
#print axioms Pql.C08.C08_accounted_exprList
#print axioms Pql.C08.C08_accounted_sortTerm
#print axioms Pql.C08.C08_accounted_column
#print axioms Pql.C08.C08_accounted_operator
#print axioms Pql.C08.C08_accounted_tabular
#print axioms Pql.C08.C08_accounted_let
#print axioms Pql.C08.C08_accounted_partial
#print axioms Pql.C08.C08_accounted_parse
#print axioms Pql.C08.C08_accounted_parse_zip
#print axioms Pql.C08.C08_accounted_unrestricted_false
#print axioms Pql.Reject.C08_error_token_rejected
#print axioms Pql.Reject.C08_error_token_not_compiled
#print axioms Pql.Reject.unparse_balanced
#print axioms Pql.Reject.C08_unbalanced_rejected
#print axioms Pql.Reject.unparse_last_token
#print axioms Pql.Reject.C08_dangling_operator_rejected
#print axioms Pql.Reject.C08_last_keyword_is_name
#print axioms Pql.Reject.C08_dangling_inside_rejected
#print axioms Pql.Reject.C08_whole_piece_is_one_statement
#print axioms Pql.Reject.C08_adjacent_rejected
#print axioms Pql.Reject.C08_two_operands_rejected
#print axioms Pql.Reject.C08_pipe_needs_operator
#print axioms Pql.Reject.C08_double_pipe_rejected
#print axioms Pql.Reject.C08_count_argument_rejected
#print axioms Pql.Reject.C08_asc_desc_rejected
#print axioms Pql.Reject.C08_missing_argument_rejected
#print axioms Pql.Reject.C08_operator_keyword_alone_rejected
#print axioms Pql.Reject.C08_missing_argument_inside_rejected
#print axioms Pql.Reject.C08_join_without_on_rejected
#print axioms Pql.Reject.C08_call_only_comma_rejected
#print axioms Pql.Reject.C08_in_empty_list_rejected
#print axioms Pql.ErrIR.C08_joinErrors_ir
#print axioms Pql.ErrIR.C08_makeErrorOpaque_ir
#print axioms Pql.ErrIR.C08_isNotFound_ir
#print axioms Pql.ErrIR.C08_isNotFound_built
#print axioms Pql.ErrIR.C08_built_closed
#print axioms Pql.ErrIR.C08_built_invariant
#print axioms Pql.ErrIR.C08_nil_ir
#print axioms Pql.ErrIR.C08_errSites_ir
#print axioms Pql.ErrIR.C08_site_leaves
#print axioms Pql.ErrIR.C08_returned_leaves
#print axioms Pql.ErrIR.C08_opIR_primitives
#print axioms Pql.ErrIR.C08_exprIR_primitives
#print axioms Pql.ErrIR.C08_examples_trees
#print axioms Pql.ErrIR.C08_examples_built
#print axioms Pql.ErrIR.C08_examples_leaves
#print axioms Pql.ErrIR.C08_examples_nontrivial
#print axioms Pql.ErrIR.joinErrors_ir
#print axioms Pql.ErrIR.makeErrorOpaque_ir
#print axioms Pql.ErrIR.isNotFound_ir
#print axioms Pql.ErrIR.errTypes_ir
#print axioms Pql.ErrIR.joinErrors_interp
#print axioms Pql.ErrIR.makeErrorOpaque_interp
#print axioms Pql.ErrIR.isNotFound_interp
#print axioms Pql.ErrIR.leaves_goJoin
#print axioms Pql.ErrIR.leaves_goOpaque
#print axioms Pql.ErrIR.errorsAs_leaves
#print axioms Pql.ErrIR.built_wf
#print axioms Pql.ErrIR.leaves_eq_nil_iff
#print axioms Pql.ErrIR.leaves_spans
#print axioms Pql.ErrIR.join_empty_cx
#print axioms Pql.ErrIR.perr_nested_cx
#print axioms Pql.ErrIR.bareNF_cx
#print axioms Pql.ErrIR.opaque_unwrap_cx
#print axioms Pql.ErrIR.nf_unwrap_irrelevant_as
#print axioms Pql.ErrIR.nested_join_kept
#print axioms Pql.ErrIR.wrap_inside_cx
#print axioms Pql.IRHead.C08_accounted_ir
#print axioms Pql.IRHead.C08_rejection_ir
#print axioms Pql.IRHead.C08_shapes_rejected_ir
#print axioms Pql.IRHead.C08_on_translated_code
#print axioms Pql.IRHead.C08_on_translated_code_nonvacuous
