import PqlModel.Props.C08
#print axioms Pql.C08.C08_split_partition
#print axioms Pql.C08.C08_splitSemi_partition
#print axioms Pql.C08.C08_endSplit_iff
#print axioms Pql.C08.C08_accounts_no_error_token
