import PqlModel.Props.C13
import PqlModel.Props.C13Exact
import PqlModel.Props.C13Arity
#print axioms Pql.C13.C13_either
#print axioms Pql.C13.C13_arity_table
#print axioms Pql.C13.C13_arity_agrees
#print axioms Pql.C13.C13_exact_expr
#print axioms Pql.C13.C13_exact_conds
#print axioms Pql.C13.C13_exact_tabular
#print axioms Pql.C13.C13_exact
#print axioms Pql.C13.C13_exact_compile
#print axioms Pql.C13.C13_parsed_wf
#print axioms Pql.C13.C13_parsed_spans
#print axioms Pql.C13.C13_exact_source
#print axioms Pql.C13.witnessOp_disagrees
#print axioms Pql.C13.witnessFlavor_disagrees
#print axioms Pql.C13.witnessExtend_disagrees
#print axioms Pql.Glue.C13_builtin_arity
#print axioms Pql.Glue.C13_builtin_arity_source
#print axioms Pql.Glue.C13_builtin_arity_parse
#print axioms Pql.Glue.C13_arity_guards_agree
#print axioms Pql.Glue.C13_passthrough_arity
#print axioms Pql.Glue.C13_aggregate_in_where_sql
