import PqlModel.Props.C13
#print axioms Pql.C13.C13_either
#print axioms Pql.C13.C13_arity_table
#print axioms Pql.C13.C13_arity_agrees
