import PqlModel.Props.C13
import PqlModel.Props.C13Exact
import PqlModel.Props.C13Arity
import PqlModel.Props.C01WriteExprIRAll
import PqlModel.Props.C06CompileIR
import PqlModel.Props.C07OperatorIRTreesA
import PqlModel.Props.C07OperatorIRTreesB
import PqlModel.Props.C07OperatorIRSort
import PqlModel.Props.C07OperatorIRExtend
import PqlModel.Props.C07OperatorIRProject
import PqlModel.Props.C07OperatorIRLet
import PqlModel.Props.C07OperatorIRTabular
import PqlModel.Props.C07OperatorIRSummarize
import PqlModel.Props.C07OperatorIRRender
import PqlModel.Props.C07OperatorIRJoin
import PqlModel.Props.C07OperatorIRParse
import PqlModel.Props.IRHeadlinesC
#print axioms Pql.C13.C13_either
#print axioms Pql.C13.C13_arity_table
#print axioms Pql.C13.C13_arity_agrees
#print axioms Pql.C13.C13_exact_expr
#print axioms Pql.C13.C13_exact_conds
#print axioms Pql.C13.C13_exact_tabular
#print axioms Pql.C13.C13_exact
#print axioms Pql.C13.C13_exact_compile
#print axioms Pql.C13.C13_parsed_wf
#print axioms Pql.C13.C13_parsed_spans
#print axioms Pql.C13.C13_exact_source
#print axioms Pql.C13.witnessOp_disagrees
#print axioms Pql.C13.witnessFlavor_disagrees
#print axioms Pql.C13.witnessExtend_disagrees
#print axioms Pql.Glue.C13_builtin_arity
#print axioms Pql.Glue.C13_builtin_arity_source
#print axioms Pql.Glue.C13_builtin_arity_parse
#print axioms Pql.Glue.C13_arity_guards_agree
#print axioms Pql.Glue.C13_passthrough_arity
#print axioms Pql.Glue.C13_aggregate_in_where_sql
#print axioms Pql.ExprIR.C01_writeExpression_ir
#print axioms Pql.ExprIR.known_eq
#print axioms Pql.ExprIR.C06_compile_ir
#print axioms Pql.IRHead.C13_exact_ir
#print axioms Pql.IRHead.C13_builtin_arity_ir
#print axioms Pql.IRHead.C13_on_translated_code
