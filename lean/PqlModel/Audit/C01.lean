import PqlModel.Props.C01
import PqlModel.Props.C01Syntactic
import PqlModel.Props.C01LexRender
import PqlModel.Props.C01Sem
import PqlModel.Props.C06Operand
import PqlModel.Props.C05ParseStatement
import PqlModel.Props.C01Templates
import PqlModel.Props.C02EndToEnd
import PqlModel.Props.C05Parsed
import PqlModel.Props.C02EndToEndSource
import PqlModel.Props.C05NoPlaceholder
import PqlModel.Props.C01WriteExprIR
import PqlModel.Props.C01WriteExprIRCases
import PqlModel.Props.C01WriteExprIRAll
import PqlModel.Props.C07ExprIR
import PqlModel.Props.IRHeadlinesA
#print axioms Pql.C01.C01_parens_write
#print axioms Pql.C01.C01_parens_wrap
#print axioms Pql.C01.C01_unparen_write
#print axioms Pql.C01.C01_bare_types
#print axioms Pql.C01.C01_known_functions
#print axioms Pql.C01.C01_needsWrap_binary
#print axioms Pql.C01.C01_needsWrap_in
#print axioms Pql.C01.C01_needsWrap_index
#print axioms Pql.C01.C01_tight_signed
#print axioms Pql.C01.C01_binary_ops
#print axioms Pql.C01.C01_lexRender
#print axioms Pql.C01.C01_lexRender_before
#print axioms Pql.C01.writeExpr_adj
#print axioms Pql.C01.writeExpr_adj_before
#print axioms Pql.C01.writeExpr_no_leading_minus
#print axioms Pql.LexRender.lexRender_of_adj
#print axioms Pql.LexRender.lexRender_of_adj_top
#print axioms Pql.C01.C01_eq_never_null
#print axioms Pql.C01.C01_ne_never_null
#print axioms Pql.C01.C01_parse_roundtrip_partial
#print axioms Pql.C01.C01_parse_roundtrip_whole
#print axioms Pql.C01.C01_parse_roundtrip_anyfuel
#print axioms Pql.C01.C01_operand_is_unit
#print axioms Pql.C01.C01_counterexample_Not
#print axioms Pql.C01T.C01_template_keys
#print axioms Pql.C01T.C01_writers_have_templates
#print axioms Pql.C01T.C01_builtin_templates
#print axioms Pql.C01T.C01_ne_template
#print axioms Pql.C01T.C01_cieq_template
#print axioms Pql.C01T.C01_cine_template
#print axioms Pql.C01T.C01_eq_template
#print axioms Pql.C01T.C01_plain_op_template
#print axioms Pql.C01T.C01_index_template
#print axioms Pql.C01T.C01_in_template
#print axioms Pql.C01T.C01_call_default_template
#print axioms Pql.C01T.C01_call_known_template
#print axioms Pql.ExprIR.maybe_ir
#print axioms Pql.ExprIR.tight_ir
#print axioms Pql.ExprIR.hasJoin_ir
#print axioms Pql.ExprIR.we_ir
#print axioms Pql.ExprIR.writer_ir_count
#print axioms Pql.ExprIR.writer_ir_countif
#print axioms Pql.ExprIR.writer_ir_if
#print axioms Pql.ExprIR.writer_ir_isnotnull
#print axioms Pql.ExprIR.writer_ir_isnull
#print axioms Pql.ExprIR.writer_ir_not
#print axioms Pql.ExprIR.writer_ir_now
#print axioms Pql.ExprIR.writer_ir_strcat
#print axioms Pql.ExprIR.writer_ir_tolower
#print axioms Pql.ExprIR.writer_ir_toupper
#print axioms Pql.ExprIR.C01_exprIR_keys
#print axioms Pql.ExprIR.C01_writers_have_units
#print axioms Pql.ExprIR.C01_maybeParen_ir
#print axioms Pql.ExprIR.C01_tight_ir
#print axioms Pql.ExprIR.C01_hasJoinTerms_ir
#print axioms Pql.ExprIR.C01_hasJoinTerms_ir_needs_good
#print axioms Pql.ExprIR.C01_hasJoinTerms_ir_nonvacuous
#print axioms Pql.ExprIR.known_eq
#print axioms Pql.ExprIR.C01_writeExpression_step
#print axioms Pql.ExprIR.C01_writeExpression_ir
#print axioms Pql.ExprIR.C01_writeMaybeParen_ir
#print axioms Pql.ExprIR.C01_writeTight_ir
#print axioms Pql.ExprIR.C01_writeExpression_ir_nonjoin
#print axioms Pql.ExprIR.C01_writeExpression_ir_needs_good
#print axioms Pql.ExprIR.C01_writeExpression_ir_nonvacuous
#print axioms Pql.IRHead.C01_lexRender_ir
#print axioms Pql.IRHead.C01_parse_roundtrip_ir
#print axioms Pql.IRHead.C01_parse_roundtrip_anyfuel_ir
#print axioms Pql.IRHead.C01_operand_is_unit_ir
#print axioms Pql.IRHead.C01_unparen_ir
#print axioms Pql.IRHead.C01_on_translated_code
#print axioms Pql.IRHead.C01_on_translated_code_nonvacuous
