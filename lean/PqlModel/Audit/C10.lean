import PqlModel.Props.C10
import PqlModel.Props.C08Full
import PqlModel.Props.C10Linecol
import PqlModel.Props.C10Failed
import PqlModel.Props.C10Extent
import PqlModel.Props.C10Compile
#print axioms Pql.C10.C10_union_lists_every_field
#print axioms Pql.C10.C10_model_matches_span_table
#print axioms Pql.C10.C10_unions_contains
#print axioms Pql.C08.C08_accounted_parse
#print axioms Pql.C10.C10_rune_no_ascii_inside
#print axioms Pql.C10.C10_linecol_line
#print axioms Pql.C10.C10_linecol_col_pos
#print axioms Pql.C10.C10_linecol_line_bounds
#print axioms Pql.C10.C10_linecol_prefix
#print axioms Pql.C10.C10_error_spans_at_tokens
#print axioms Pql.C10.C10_error_spans_inside
#print axioms Pql.C10.C10_error_spans_valid
#print axioms Pql.C10.C10_partial_tree_spans_origin
#print axioms Pql.C10.C10_partial_tree_spans_inside
#print axioms Pql.C10.C10_span_extent_expr
#print axioms Pql.C10.C10_span_extent_op
#print axioms Pql.C10.C10_span_extent_tabular
#print axioms Pql.C10.C10_span_extent_stmt
#print axioms Pql.C10.C10_parse_tidy
#print axioms Pql.C10.C10_span_extent_partial
#print axioms Pql.C10.C10_span_extent
#print axioms Pql.C10.C10_span_extent_zip
#print axioms Pql.C10.C10_span_contains_parts
#print axioms Pql.C10.C10_span_precedes_sibling
#print axioms Pql.C10.C10_span_precedes_sibling_binary
#print axioms Pql.C10.C10_span_list_ordered
#print axioms Pql.C10.C10_span_extent_deep
#print axioms Pql.C10.C10_span_tabular_ops
#print axioms Pql.C10.C10_span_extent_untidy_false
#print axioms Pql.Glue.C10_implicit_name_is_source_text
#print axioms Pql.Glue.C10_expr_span_is_source_text
#print axioms Pql.Glue.C10_compile_error_linecol
#print axioms Pql.Glue.errSpanOK_linecol
#print axioms Pql.Glue.C10_implicit_name_needs_parse
#print axioms Pql.Glue.C10_compile_error_needs_error_free
