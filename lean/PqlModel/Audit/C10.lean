import PqlModel.Props.C10
import PqlModel.Props.C08Full
#print axioms Pql.C10.C10_union_lists_every_field
#print axioms Pql.C10.C10_model_matches_span_table
#print axioms Pql.C10.C10_unions_contains
#print axioms Pql.C08.C08_accounted_parse
