import PqlModel.Props.C10
import PqlModel.Props.C08Full
import PqlModel.Props.C10Linecol
import PqlModel.Props.C10Failed
import PqlModel.Props.C10Extent
import PqlModel.Props.C10Compile
import PqlModel.Props.C10SpanIR
import PqlModel.Props.C10SpanIRNodes
import PqlModel.Props.C10LinecolIR
import PqlModel.Props.C07OperatorIRTreesA
import PqlModel.Props.C07OperatorIRTreesB
import PqlModel.Props.C07OperatorIRSort
import PqlModel.Props.C07OperatorIRExtend
import PqlModel.Props.C07OperatorIRProject
import PqlModel.Props.C07OperatorIRLet
import PqlModel.Props.C07OperatorIRTabular
import PqlModel.Props.C07OperatorIRSummarize
import PqlModel.Props.C07OperatorIRRender
import PqlModel.Props.C07OperatorIRJoin
import PqlModel.Props.C07OperatorIRParse
import PqlModel.Props.C08ErrIRUnits
import PqlModel.Props.C08ErrIRAlgebra
import PqlModel.Props.C08ErrIRShape
import PqlModel.Props.C08ErrIR
import PqlModel.Props.IRHeadlinesD
#print axioms Pql.C10.C10_union_lists_every_field
#print axioms Pql.C10.C10_model_matches_span_table
#print axioms Pql.C10.C10_unions_contains
#print axioms Pql.C08.C08_accounted_parse
#print axioms Pql.C10.C10_rune_no_ascii_inside
#print axioms Pql.C10.C10_linecol_line
#print axioms Pql.C10.C10_linecol_col_pos
#print axioms Pql.C10.C10_linecol_line_bounds
#print axioms Pql.C10.C10_linecol_prefix
#print axioms Pql.C10.C10_error_spans_at_tokens
#print axioms Pql.C10.C10_error_spans_inside
#print axioms Pql.C10.C10_error_spans_valid
#print axioms Pql.C10.C10_partial_tree_spans_origin
#print axioms Pql.C10.C10_partial_tree_spans_inside
#print axioms Pql.C10.C10_span_extent_expr
#print axioms Pql.C10.C10_span_extent_op
#print axioms Pql.C10.C10_span_extent_tabular
#print axioms Pql.C10.C10_span_extent_stmt
#print axioms Pql.C10.C10_parse_tidy
#print axioms Pql.C10.C10_span_extent_partial
#print axioms Pql.C10.C10_span_extent
#print axioms Pql.C10.C10_span_extent_zip
#print axioms Pql.C10.C10_span_contains_parts
#print axioms Pql.C10.C10_span_precedes_sibling
#print axioms Pql.C10.C10_span_precedes_sibling_binary
#print axioms Pql.C10.C10_span_list_ordered
#print axioms Pql.C10.C10_span_extent_deep
#print axioms Pql.C10.C10_span_tabular_ops
#print axioms Pql.C10.C10_span_extent_untidy_false
#print axioms Pql.Glue.C10_implicit_name_is_source_text
#print axioms Pql.Glue.C10_expr_span_is_source_text
#print axioms Pql.Glue.C10_compile_error_linecol
#print axioms Pql.Glue.errSpanOK_linecol
#print axioms Pql.Glue.C10_implicit_name_needs_parse
#print axioms Pql.Glue.C10_compile_error_needs_error_free
#print axioms Pql.AstIR.nullSpan_ir
#print axioms Pql.AstIR.newSpan_ir
#print axioms Pql.AstIR.indexSpan_ir
#print axioms Pql.AstIR.isValid_ir
#print axioms Pql.AstIR.len_ir
#print axioms Pql.AstIR.C10_unionSpans_ir
#print axioms Pql.AstIR.C10_unionSpans_interp
#print axioms Pql.AstIR.C10_nodeSpan_ir
#print axioms Pql.AstIR.C10_nodeSliceSpan_ir
#print axioms Pql.AstIR.spanMethod_eq
#print axioms Pql.AstIR.C10_spanOf_ir
#print axioms Pql.AstIR.C10_spanOf_ir_nil_iface
#print axioms Pql.AstIR.C10_spanOf_ir_no_fuel
#print axioms Pql.AstIR.C10_fields_match_structs
#print axioms Pql.LexIR.linecol_parser_ir
#print axioms Pql.LexIR.linecol_pql_ir
#print axioms Pql.LexIR.C10_linecol_copies_same_ir
#print axioms Pql.LexIR.C10_linecol_copies_agree
#print axioms Pql.LexIR.C10_linecol_ir
#print axioms Pql.LexIR.C10_linecol_pql_ir
#print axioms Pql.LexIR.C10_linecol_ir_panics
#print axioms Pql.IRHead.C10_span_extent_ir
#print axioms Pql.IRHead.C10_span_deep_ir
#print axioms Pql.IRHead.C10_expr_span_is_source_text_ir
#print axioms Pql.IRHead.C10_error_positions_ir
#print axioms Pql.IRHead.C10_on_translated_code
