import PqlModel.Props.C15
import PqlModel.Props.C15Parse
import PqlModel.Props.C16Semantics
import PqlModel.Props.C15SplitIR
import PqlModel.Props.C07OperatorIRParse
import PqlModel.Props.IRHeadlinesD
import PqlModel.Props.C09ScanIR
#print axioms Pql.C15.C15_count
#print axioms Pql.C15.C15_join
#print axioms Pql.C15.C15_scan_local
#print axioms Pql.C15.C15_no_semi_in_piece
#print axioms Pql.C15.C15_piece_tokens
#print axioms Pql.C15.C15_piece_tokens_at
#print axioms Pql.Piecewise.C15_parse_pieces_full
#print axioms Pql.Piecewise.C15_parse_errors
#print axioms Pql.Piecewise.C15_piece_statements
#print axioms Pql.Piecewise.C15_parse_error_iff
#print axioms Pql.Piecewise.C15_statement_count
#print axioms Pql.Piecewise.C15_statement_count_needs_ok
#print axioms Pql.Piecewise.C15_parse_semicolon
#print axioms Pql.Piecewise.C15_parse_semicolon_of_reaches
#print axioms Pql.Piecewise.C15_parse_semicolon_needs_hyp
#print axioms Pql.Piecewise.C15_zero_span_is_not_moved
#print axioms Pql.Piecewise.C15_eof_error_at_end_of_source
#print axioms Pql.Piecewise.C15_notFound_discards_earlier_errors
#print axioms Pql.Piecewise.pStatement_sh
#print axioms Pql.Piecewise.pStatements_sh
#print axioms Pql.LexIR.splitStatements_ir
#print axioms Pql.LexIR.C15_split_ir
#print axioms Pql.LexIR.C15_split_ir_needs_order
#print axioms Pql.OpIR.C07_firstParse_ir
#print axioms Pql.OpIR.C07_firstParse_stmt
#print axioms Pql.OpIR.C07_Parse_tokens_ir
#print axioms Pql.OpIR.C07_Parse_ir
#print axioms Pql.IRHead.C15_split_headlines_ir
#print axioms Pql.IRHead.C15_parse_pieces_ir
#print axioms Pql.IRHead.C15_on_translated_code
#print axioms Pql.ScanIR.C15_split_scan_ir
#print axioms Pql.ScanIR.C09_Scan_ir
#print axioms Pql.ScanIR.Scan_ir
