import PqlModel.Props.C15
#print axioms Pql.C15.C15_count
