import PqlModel.Props.C15
#print axioms Pql.C15.C15_count
#print axioms Pql.C15.C15_join
#print axioms Pql.C15.C15_scan_local
#print axioms Pql.C15.C15_no_semi_in_piece
#print axioms Pql.C15.C15_piece_tokens
#print axioms Pql.C15.C15_piece_tokens_at
