import PqlModel.Props.C03
import PqlModel.Props.C02Split
import PqlModel.Props.C05SplitRefines
#print axioms Pql.C03.C03_bare_key_rewrite
#print axioms Pql.C03.C03_quoted_key_not_rewritten
#print axioms Pql.C03.C03_two_conditions_anded
#print axioms Pql.C03.C03_aliases
#print axioms Pql.C03.C03_kinds
#print axioms Pql.C05.C05_block_structure
#print axioms Pql.C02.C02_limit_never_crosses_nested
