import PqlModel.Props.C03
#print axioms Pql.C03.C03_bare_key_rewrite
#print axioms Pql.C03.C03_quoted_key_not_rewritten
#print axioms Pql.C03.C03_two_conditions_anded
#print axioms Pql.C03.C03_aliases
#print axioms Pql.C03.C03_kinds
