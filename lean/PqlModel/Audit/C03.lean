import PqlModel.Props.C03
import PqlModel.Props.C02Split
import PqlModel.Props.C05SplitRefines
import PqlModel.Props.C03Semantics
import PqlModel.Props.C03Chain
import PqlModel.Props.C03ChainTake
import PqlModel.Props.C05ParseStatement
import PqlModel.Props.C03Full
import PqlModel.Props.C02EndToEnd
import PqlModel.Props.C05Parsed
import PqlModel.Props.C11Compile
import PqlModel.Props.C02EndToEndSource
import PqlModel.Props.C02SplitImperative
import PqlModel.Props.C02ProgramNames
import PqlModel.Props.C02SplitIR
import PqlModel.Props.C03JoinCondIR
import PqlModel.Props.IRHeadlinesA
#print axioms Pql.C03.C03_bare_key_rewrite
#print axioms Pql.C03.C03_quoted_key_not_rewritten
#print axioms Pql.C03.C03_two_conditions_anded
#print axioms Pql.C03.C03_aliases
#print axioms Pql.C03.C03_kinds
#print axioms Pql.C05.C05_block_structure
#print axioms Pql.C02.C02_limit_never_crosses_nested
#print axioms Pql.C03.C03_interp_join
#print axioms Pql.C03.C03_interp_join_kinds
#print axioms Pql.C03.C03_join_link
#print axioms Pql.C03.C03_inner_all_pairs
#print axioms Pql.C03.C03_innerunique_dedups_left
#print axioms Pql.C03.C03_innerunique_eq_inner_of_nodup
#print axioms Pql.C03.C03_leftouter_keeps_unmatched
#print axioms Pql.C03.C03_bare_key_semantics
#print axioms Pql.C03.C03_bare_key_coalesce
#print axioms Pql.C03.C03_bare_key_int
#print axioms Pql.C03.C03_bare_key_null
#print axioms Pql.C03.C03_conditions_anded
#print axioms Pql.C03.C03_chain
#print axioms Pql.C03.C03_chain_meaning
#print axioms Pql.C03.Ex.C03_chain_needs_hU
#print axioms Pql.C03.Ex.C03_chain_needs_hT
#print axioms Pql.C03.Ex.C03_chain_needs_hnames
#print axioms Pql.C03.Ex.C03_sort_on_join_link_sees_aliases
#print axioms Pql.C03.C03_join_link_take
#print axioms Pql.C03.C03_chain_take
#print axioms Pql.C03.C03_chain_take_meaning
#print axioms Pql.C03.BlockSem_joinFree
#print axioms Pql.C03.C03_chain_unconditional
#print axioms Pql.C03.C03_chain_take_unconditional
#print axioms Pql.C03.C03_join_link_sort
#print axioms Pql.C03.C03_chain_any_after
#print axioms Pql.C03.C03_statement_semantics
#print axioms Pql.C03.C03_intended_semantics
#print axioms Pql.C03.Cex.C03_needs_namesOk_as_is_table
#print axioms Pql.C03.Cex.C03_needs_namesOk_as_twice
#print axioms Pql.C03.Cex.C03_needs_namesOk_generated_table
#print axioms Pql.C03.Cex.C03_needs_namesOk_generated_as
#print axioms Pql.C03.Cex.C03_needs_namesOk_source
#print axioms Pql.C03.Cex.C03_join_sort_needs_rect
#print axioms Pql.C03.Cex.C03_join_sort_needs_aliasFree
#print axioms Pql.JoinCondIR.C03_rewriteSimpleJoinCondition_ir
#print axioms Pql.JoinCondIR.C03_buildJoinCondition_ir
#print axioms Pql.JoinCondIR.rewrite_ir
#print axioms Pql.JoinCondIR.build_ir
#print axioms Pql.JoinCondIR.builtin_all
#print axioms Pql.IRHead.C03_join_condition_ir
#print axioms Pql.IRHead.C03_on_translated_code
#print axioms Pql.IRHead.C03_on_translated_code_nonvacuous
