import PqlModel.Props.C02
import PqlModel.Props.C02Split
import PqlModel.Props.C05SplitRefines
import PqlModel.Props.C02Semantics
import PqlModel.Props.C02Statement
import PqlModel.Props.C02SemanticsCex
import PqlModel.Props.C05ParseStatement
import PqlModel.Props.C03Full
import PqlModel.Props.C02EndToEnd
import PqlModel.Props.C05Parsed
import PqlModel.Props.C02EndToEndSource
import PqlModel.Props.C05WriteIRAll
import PqlModel.Props.C05WriteIRStmt
import PqlModel.Props.C07Defaults
import PqlModel.Props.C02SplitImperative
import PqlModel.Props.C06Placeholders
import PqlModel.Props.C02ProgramNames
import PqlModel.Props.C02SplitIR
import PqlModel.Props.C03JoinCondIR
import PqlModel.Props.C07OperatorIRTerm
import PqlModel.Props.IRHeadlinesA
#print axioms Pql.C02.C02_canAttachSort_table
#print axioms Pql.C02.C02_top_eq_sort_take
#print axioms Pql.C02.C02_spec_top
#print axioms Pql.SplitQ.splitOps_run
#print axioms Pql.SplitQ.splitQueries_run
#print axioms Pql.SplitQ.splitOps_preserves
#print axioms Pql.SplitQ.splitQueries_preserves
#print axioms Pql.SplitQ.splitQueries_inv
#print axioms Pql.C02.C02_sort_not_after_rename
#print axioms Pql.C02.C02_limit_never_crosses
#print axioms Pql.C02.C02_limit_never_crosses_nested
#print axioms Pql.C02.C02_segment_forms
#print axioms Pql.C02.C02_sort_chains
#print axioms Pql.C02.C02_take_chains
#print axioms Pql.C02.C02_sort_attaches
#print axioms Pql.C02.C02_take_attaches
#print axioms Pql.C02.C02_pipeline_order_semantics
#print axioms Pql.C02.C02_sel_none
#print axioms Pql.C02.C02_sel_as
#print axioms Pql.C02.C02_sel_where
#print axioms Pql.C02.C02_sel_count
#print axioms Pql.C02.C02_sel_render
#print axioms Pql.C02.C02_sel_extend
#print axioms Pql.C02.C02_sel_project
#print axioms Pql.C02.C02_sel_summarize
#print axioms Pql.C02.C02_statement_semantics_ctes
#print axioms Pql.C02.C02_statement_interp
#print axioms Pql.C02.C02_statement_semantics_asNames
#print axioms Pql.C02.C02_intended_semantics
#print axioms Pql.C02.Cex.C02_project_agg_differs
#print axioms Pql.C02.Cex.C02_extend_agg_differs
#print axioms Pql.C02.Cex.C02_summarize_plain_differs
#print axioms Pql.C02.Cex.C02_project_sort_differs
#print axioms Pql.C02.Cex.C02_summarize_sort_differs
#print axioms Pql.C02.Cex.C02_duplicate_names_differ
#print axioms Pql.E2E.C02_end_to_end_tree
#print axioms Pql.E2E.C02_end_to_end_tree_detail
#print axioms Pql.E2E.C02_end_to_end_tree_raw
#print axioms Pql.E2E.C02_end_to_end_source
#print axioms Pql.E2E.C02_end_to_end_program_partial
#print axioms Pql.E2E.evalStatement_of_statementEq
#print axioms Pql.E2E.evalS_not_invariant_under_normS
#print axioms Pql.E2EFinal.C02_end_to_end_bytes
#print axioms Pql.E2EFinal.C02_end_to_end_bytes_detail
#print axioms Pql.E2EFinal.C02_compiled_no_bang
#print axioms Pql.E2EFinal.C02_compiled_bang_free
#print axioms Pql.E2EFinal.C02_parse_noBang
#print axioms Pql.E2EFinal.C02_end_to_end_tree_raw_full
#print axioms Pql.E2EFinal.C02_end_to_end_bytes_raw
#print axioms Pql.E2EFinal.C02_end_to_end_run
#print axioms Pql.E2EFinal.C05_parse_statement_program
#print axioms Pql.E2EFinal.C02_end_to_end_program
#print axioms Pql.E2EFinal.C02_end_to_end_program_bytes
#print axioms Pql.E2EFinal.C02_end_to_end_program_bytes_detail
#print axioms Pql.E2EFinal.C02_end_to_end_program_run
#print axioms Pql.SplitImp.C02_splitQueries_refines
#print axioms Pql.SplitImp.C02_splitQueries_refines_list
#print axioms Pql.SplitImp.C02_splitQueries_refines_top
#print axioms Pql.SplitImp.C02_splitQueriesI_post
#print axioms Pql.SplitImp.C02_callee_preserves_caller_view
#print axioms Pql.SplitImp.C02_lastSubquery_is_last
#print axioms Pql.SplitImp.C02_aliasing_is_visible
#print axioms Pql.SplitImp.C02_limit_never_crosses_nested_imp
#print axioms Pql.SplitImp.C05_names_by_index_imp
#print axioms Pql.SplitImp.C05_reads_earlier_imp
#print axioms Pql.SplitImp.C02_compile_imperative
#print axioms Pql.SplitImp.C02_refines_needs_valid
#print axioms Pql.SplitImp.C02_refines_needs_source
#print axioms Pql.SplitImp.C02_refines_needs_as_name
#print axioms Pql.E2EMore.C02_compile_named
#print axioms Pql.E2EMore.C02_end_to_end_program_names
#print axioms Pql.E2EMore.C02_end_to_end_program_names_bytes
#print axioms Pql.E2EMore.C02_end_to_end_program_names_run
#print axioms Pql.SplitIR.C02_chain_ir
#print axioms Pql.SplitIR.C02_split_ir
#print axioms Pql.SplitIR.C02_split_ir_fuel
#print axioms Pql.SplitIR.C02_split_ir_not_stuck
#print axioms Pql.SplitIR.C02_split_ir_refines_model
#print axioms Pql.SplitIR.C02_split_ir_refines_model_top
#print axioms Pql.SplitIR.C02_split_ir_fuel_needed
#print axioms Pql.SplitIR.chain_ir
#print axioms Pql.SplitIR.pre_ir
#print axioms Pql.SplitIR.post_ir
#print axioms Pql.SplitIR.as_ir
#print axioms Pql.SplitIR.default_ir
#print axioms Pql.SplitIR.sort_ir
#print axioms Pql.SplitIR.take_ir
#print axioms Pql.SplitIR.top_ir
#print axioms Pql.SplitIR.join_ir
#print axioms Pql.SplitIR.loop_header
#print axioms Pql.SplitIR.key_join
#print axioms Pql.SplitIR.run_tab
#print axioms Pql.SplitIR.run_ops
#print axioms Pql.SplitIR.exec_joinTail
#print axioms Pql.SplitIR.exec_joinHead
#print axioms Pql.IRHead.C02_end_to_end_bytes_raw_ir
#print axioms Pql.IRHead.C02_end_to_end_bytes_detail_ir
#print axioms Pql.IRHead.C02_end_to_end_program_bytes_ir
#print axioms Pql.IRHead.C02_end_to_end_program_names_bytes_ir
#print axioms Pql.IRHead.C02_end_to_end_program_run_ir
#print axioms Pql.IRHead.C02_end_to_end_program_run_ir_nonvacuous
#print axioms Pql.IRHead.C02_split_invariants_ir
#print axioms Pql.IRHead.C02_split_invariants_parsed_ir
#print axioms Pql.IRHead.C02_split_invariants_ir_nonvacuous
#print axioms Pql.IRHead.C02_on_translated_code
