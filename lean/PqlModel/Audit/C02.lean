import PqlModel.Props.C02
#print axioms Pql.C02.C02_canAttachSort_table
#print axioms Pql.C02.C02_top_eq_sort_take
#print axioms Pql.C02.C02_spec_top
