import PqlModel.Props.C02
import PqlModel.Props.C02Split
import PqlModel.Props.C05SplitRefines
#print axioms Pql.C02.C02_canAttachSort_table
#print axioms Pql.C02.C02_top_eq_sort_take
#print axioms Pql.C02.C02_spec_top
#print axioms Pql.SplitQ.splitOps_run
#print axioms Pql.SplitQ.splitQueries_run
#print axioms Pql.SplitQ.splitOps_preserves
#print axioms Pql.SplitQ.splitQueries_preserves
#print axioms Pql.SplitQ.splitQueries_inv
#print axioms Pql.C02.C02_sort_not_after_rename
#print axioms Pql.C02.C02_limit_never_crosses
#print axioms Pql.C02.C02_limit_never_crosses_nested
#print axioms Pql.C02.C02_segment_forms
#print axioms Pql.C02.C02_sort_chains
#print axioms Pql.C02.C02_take_chains
#print axioms Pql.C02.C02_sort_attaches
#print axioms Pql.C02.C02_take_attaches
#print axioms Pql.C02.C02_pipeline_order_semantics
