import PqlModel.Props.C09
import PqlModel.Props.C09b
import PqlModel.Props.C09Gaps
#print axioms Pql.C09.C09_partition
#print axioms Pql.C09.C09_rescan
#print axioms Pql.C09.C09_rescan_any
#print axioms Pql.C09.C09_number_value
#print axioms Pql.C09.C09_accessors
#print axioms Pql.C09.C09_refines_step
#print axioms Pql.C09.C09_refines
#print axioms Pql.C09.C09_skip_is_trivia
#print axioms Pql.C09.C09_trivia_is_skip
#print axioms Pql.C09.C09_gaps_trivia
#print axioms Pql.C09.C09_gaps_rescan_nil
