import PqlModel.Props.C09
import PqlModel.Props.C09b
import PqlModel.Props.C09Gaps
import PqlModel.Props.C09Dispatch
#print axioms Pql.C09.C09_partition
#print axioms Pql.C09.C09_rescan
#print axioms Pql.C09.C09_rescan_any
#print axioms Pql.C09.C09_number_value
#print axioms Pql.C09.C09_accessors
#print axioms Pql.C09.C09_refines_step
#print axioms Pql.C09.C09_refines
#print axioms Pql.C09.C09_skip_is_trivia
#print axioms Pql.C09.C09_trivia_is_skip
#print axioms Pql.C09.C09_gaps_trivia
#print axioms Pql.C09.C09_gaps_rescan_nil
#print axioms Pql.Dispatch.C09_dispatch_interp
#print axioms Pql.Dispatch.C09_dispatch_tables
#print axioms Pql.Dispatch.C09_dispatch_case_order
#print axioms Pql.Dispatch.C09_dispatch_disjoint_ascii
#print axioms Pql.Dispatch.C09_dispatch_disjoint_nonascii
#print axioms Pql.Dispatch.C09_dispatch_single
#print axioms Pql.Dispatch.C09_dispatch_two_eof
#print axioms Pql.Dispatch.C09_dispatch_two_match
#print axioms Pql.Dispatch.C09_dispatch_two_other
#print axioms Pql.Dispatch.C09_dispatch_comment
#print axioms Pql.Dispatch.C09_dispatch_comment_other
#print axioms Pql.Dispatch.C09_dispatch_classes
#print axioms Pql.Dispatch.C09_dispatch_sub
#print axioms Pql.Dispatch.C09_dispatch_space
#print axioms Pql.Dispatch.C09_dispatch_default
#print axioms Pql.Dispatch.C09_dispatch_default_runes
#print axioms Pql.Dispatch.runesUntil_newline
#print axioms Pql.Dispatch.C09_ident_interp
#print axioms Pql.Dispatch.C09_ident_classes
#print axioms Pql.Dispatch.C09_ident_dollar_only_first
#print axioms Pql.Dispatch.C09_string_interp
#print axioms Pql.Dispatch.C09_string_tables
#print axioms Pql.Dispatch.C09_qident_interp
#print axioms Pql.Dispatch.C09_qident_table
#print axioms Pql.Dispatch.C09_dispatch_two_other_needs_hyp
#print axioms Pql.Dispatch.C09_dispatch_comment_other_needs_hyp
#print axioms Pql.Dispatch.C09_dispatch_sub_needs_hyp
#print axioms Pql.Dispatch.C09_dispatch_space_needs_hyp
#print axioms Pql.Dispatch.C09_dispatch_demo
