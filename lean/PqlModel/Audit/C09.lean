import PqlModel.Props.C09
#print axioms Pql.C09.C09_partition
