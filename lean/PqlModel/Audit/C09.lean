import PqlModel.Props.C09
#print axioms Pql.C09.C09_partition
#print axioms Pql.C09.C09_rescan
#print axioms Pql.C09.C09_rescan_any
