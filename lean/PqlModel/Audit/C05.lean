import PqlModel.Props.C05
#print axioms Pql.C05.C05_ends_with_semicolon
#print axioms Pql.C05.C05_subqueryName_injective
#print axioms Pql.C05.C05_chain_names_by_index
