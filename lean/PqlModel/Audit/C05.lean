import PqlModel.Props.C05
import PqlModel.Props.C02Split
#print axioms Pql.C05.C05_ends_with_semicolon
#print axioms Pql.C05.C05_subqueryName_injective
#print axioms Pql.C05.C05_chain_names_by_index
#print axioms Pql.C05.C05_names_by_index
#print axioms Pql.C05.C05_generated_names_distinct
#print axioms Pql.C05.C05_block_structure
#print axioms Pql.C05.C05_chain_reads_previous
#print axioms Pql.C05.C05_length_grows_ops
#print axioms Pql.C05.C05_length_grows
