import PqlModel.Props.C05
import PqlModel.Props.C02Split
import PqlModel.Props.C05SplitRefines
import PqlModel.Props.C05LexStatement
import PqlModel.Props.C02Semantics
import PqlModel.Props.C02Statement
import PqlModel.Props.C05ParseStatement
import PqlModel.Props.C02EndToEnd
import PqlModel.Props.C05Parsed
import PqlModel.Props.C02EndToEndSource
import PqlModel.Props.C05WriteIR
import PqlModel.Props.C05WriteIROps
import PqlModel.Props.C05WriteIRAll
import PqlModel.Props.C05WriteIRStmt
import PqlModel.Props.C02SplitImperative
import PqlModel.Props.C05NoPlaceholder
import PqlModel.Props.C05NoPlaceholderCli
import PqlModel.Props.IRHeadlinesB
#print axioms Pql.C05.C05_ends_with_semicolon
#print axioms Pql.C05.C05_subqueryName_injective
#print axioms Pql.C05.C05_chain_names_by_index
#print axioms Pql.C05.C05_names_by_index
#print axioms Pql.C05.C05_generated_names_distinct
#print axioms Pql.C05.C05_block_structure
#print axioms Pql.C05.C05_chain_reads_previous
#print axioms Pql.C05.C05_length_grows_ops
#print axioms Pql.C05.C05_length_grows
#print axioms Pql.C05.C05_split_refines_rel
#print axioms Pql.C05.C05_split_ok_writable
#print axioms Pql.C05.C05_split_refines_conv
#print axioms Pql.C05.C05_split_fails_iff
#print axioms Pql.C05.C05_split_fails_iff_top
#print axioms Pql.C05.C05_split_names
#print axioms Pql.C05.C05_split_length
#print axioms Pql.C05.C05_reads_earlier
#print axioms Pql.C05.C05_reads_earlier_partial
#print axioms Pql.C05.C05_reads_earlier_counterexample
#print axioms Pql.C05.C05_reads_earlier_model
#print axioms Pql.C05.C05_splitA_block_structure
#print axioms Pql.C05.C05_splitA_names_by_index
#print axioms Pql.C05.C05_splitA_generated_names_distinct
#print axioms Pql.C05.C05_splitA_chain_reads_previous
#print axioms Pql.C05.C05_conv_needs_writable
#print axioms Pql.C05.C05_lexRender_statement
#print axioms Pql.C05.C05_lexRender_program
#print axioms Pql.C05.C05_lexRender_from_scope
#print axioms Pql.C05.C05_lexRender_compile
#print axioms Pql.C05.C05_subquery_adj
#print axioms Pql.C05.C05_subquery_lexRender_before
#print axioms Pql.C05.C05_statement_adj
#print axioms Pql.C05.C05_no_comment_or_unterminated
#print axioms Pql.C05.C05_single_semicolon
#print axioms Pql.C05.C05_single_semicolon_program
#print axioms Pql.C05.C05_single_semicolon_lexed
#print axioms Pql.C05.C05_lexOK_needed
#print axioms Pql.C05.write_good
#print axioms Pql.C05.writeCtes_adj
#print axioms Pql.C05.splitQueries_subOK
#print axioms Pql.C05.writeExpr_good_scope
#print axioms Pql.C05.program_sf
#print axioms Pql.C05.scopeAdj_literals
#print axioms Pql.C05.C05_select
#print axioms Pql.C05.select_parse
#print axioms Pql.C05.C05_select_plain
#print axioms Pql.C05.C05_select_where
#print axioms Pql.C05.C05_select_project
#print axioms Pql.C05.C05_select_extend
#print axioms Pql.C05.C05_select_summarize
#print axioms Pql.C05.C05_select_count
#print axioms Pql.C05.C05_select_render
#print axioms Pql.C05.C05_select_join
#print axioms Pql.C05.C05_parse_statement
#print axioms Pql.C05.C05_statement_structure
#print axioms Pql.C05.statement_parse
#print axioms Pql.C05.pExprS_bound
#print axioms Pql.C05.pExprS_fuelOf
#print axioms Pql.C05.pExprS_consumes
#print axioms Pql.C05.C05_counterexample_untranslatable
#print axioms Pql.C05.C05_counterexample_empty_project
#print axioms Pql.C05.C05_counterexample_empty_sort
#print axioms Pql.C05.C05_counterexample_anonymous_column
#print axioms Pql.C05.C05_split_refines_rel
#print axioms Pql.ParsedOK.parsed_facts
#print axioms Pql.ParsedOK.parsed_lexOK
#print axioms Pql.ParsedOK.parsed_fnShape
#print axioms Pql.ParsedOK.parsed_lexOK_dollar
#print axioms Pql.ParsedOK.scan_number_numOK
#print axioms Pql.ParsedOK.parsed_shapeOK
#print axioms Pql.ParsedOK.parsed_tabularOK
#print axioms Pql.ParsedOK.parsed_resolved_tabularOK
#print axioms Pql.ParsedOK.parsed_letValuesOK
#print axioms Pql.ParsedOK.parsed_hasSources
#print axioms Pql.ParsedOK.C05_parsed_side_conditions
#print axioms Pql.ParsedOK.C05_parse_statement_source
#print axioms Pql.ParsedOK.k4Free_needed
#print axioms Pql.ParsedOK.fnNamesOK_needed
#print axioms Pql.ParsedOK.compile_needed
#print axioms Pql.ParsedOK.empty_quoted_name
#print axioms Pql.WriteIR.forEach_collect
#print axioms Pql.WriteIR.suffix_exec
#print axioms Pql.WriteIR.interpWrite_of
#print axioms Pql.WriteIR.C05_write_none
#print axioms Pql.WriteIR.C05_write_as
#print axioms Pql.WriteIR.C05_write_count
#print axioms Pql.WriteIR.C05_write_where
#print axioms Pql.WriteIR.C05_write_project
#print axioms Pql.WriteIR.C05_write_extend
#print axioms Pql.WriteIR.C05_write_summarize
#print axioms Pql.WriteIR.C05_write_render
#print axioms Pql.WriteIR.C05_write_default
#print axioms Pql.WriteIR.C05_write_ir
#print axioms Pql.WriteIR.C05_write_project_needs_names
#print axioms Pql.WriteIR.C05_write_extend_needs_expr
#print axioms Pql.WriteIR.C05_write_render_needs_ok
#print axioms Pql.WriteIR.compileChunks_eq
#print axioms Pql.WriteIR.C05_assembly_ir
#print axioms Pql.WriteIR.C05_quoteIdentifier_ir
#print axioms Pql.WriteIR.C05_quoteSQLString_ir
#print axioms Pql.WriteIR.C05_subqueryName_ir
#print axioms Pql.WriteIR.C05_dataSource_ir
#print axioms Pql.WriteIR.C05_dataSource_needs_table
#print axioms Pql.WriteIR.C05_ir_keys
#print axioms Pql.WriteIR.C05_ir_switches
#print axioms Pql.WriteInv.C05_stored_ops
#print axioms Pql.WriteInv.C05_write_default_unreachable
#print axioms Pql.WriteInv.C05_parsed_irOK
#print axioms Pql.WriteInv.C05_parsed_write_ir
#print axioms Pql.WriteInv.C05_irOK_needs_parse
#print axioms Pql.WriteInv.C05_no_placeholder_tree
#print axioms Pql.WriteInv.stmtPhFree_of_sOK
#print axioms Pql.WriteInv.parsed_phFree
#print axioms Pql.WriteInv.C05_no_placeholder_source
#print axioms Pql.WriteInv.C05_no_comment_source
#print axioms Pql.WriteInv.C05_no_comment_source_k4
#print axioms Pql.WriteInv.C05_no_comment_needs_no_params
#print axioms Pql.WriteInv.C05_no_comment_needs_noDollar
#print axioms Pql.WriteInv.C05_placeholder_nil
#print axioms Pql.WriteInv.C05_placeholder_literal
#print axioms Pql.WriteInv.C05_placeholder_unary
#print axioms Pql.WriteInv.C05_placeholder_binary
#print axioms Pql.WriteInv.C05_placeholder_default
#print axioms Pql.WriteInv.C05_placeholder_reachable_only_by_bad_trees
#print axioms Pql.WriteInv.cli_out_sqls
#print axioms Pql.WriteInv.C05_cli_no_placeholder
#print axioms Pql.WriteInv.C05_cli_bytes_cex
#print axioms Pql.IRHead.C05_single_statement_ir
#print axioms Pql.IRHead.C05_no_placeholder_ir
#print axioms Pql.IRHead.C05_ends_with_semicolon_ir
#print axioms Pql.IRHead.C05_on_translated_code
#print axioms Pql.IRHead.C05_on_translated_code_nonvacuous
