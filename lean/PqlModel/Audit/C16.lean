import PqlModel.Props.C16a
import PqlModel.Props.C16
import PqlModel.Props.C16IO
import PqlModel.Props.C16Semantics
import PqlModel.Props.C05NoPlaceholderCli
import PqlModel.Props.C16RunIR
import PqlModel.Props.C16IOIRTrees
import PqlModel.Props.C16IOIR
import PqlModel.Props.C16IOIRMake
import PqlModel.Props.IRHeadlines
import PqlModel.Props.IRHeadlinesIO
import PqlModel.Props.C16StreamIR
#print axioms Pql.C16.C16_statement_sim
#print axioms Pql.C16.C16_statements_sim
#print axioms Pql.C16.C16_output_monotone
#print axioms Pql.C16.C16_refines
#print axioms Pql.C16.C16_refines_all
#print axioms Pql.C16.C16_last_terminated_or_not
#print axioms Pql.C16.C16_last_terminated_or_not_cli
#print axioms Pql.CliIO.C16_multi_concat
#print axioms Pql.CliIO.C16_multi_concat_fuel
#print axioms Pql.CliIO.C16_multi_terminates
#print axioms Pql.CliIO.C16_multi_concat_noErr
#print axioms Pql.CliIO.C16_reader_alone
#print axioms Pql.CliIO.C16_multi_single
#print axioms Pql.CliIO.C16_multi_chunking
#print axioms Pql.CliIO.C16_multi_zero_nil
#print axioms Pql.CliIO.C16_multi_progress
#print axioms Pql.CliIO.C16_files
#print axioms Pql.CliIO.C16_files_general
#print axioms Pql.CliIO.C16_lines_lossless
#print axioms Pql.CliIO.C16_lines_only_cr_dropped
#print axioms Pql.CliIO.C16_lines_identity
#print axioms Pql.CliIO.C16_lines_prefix
#print axioms Pql.CliIO.C16_main_spec
#print axioms Pql.CliIO.C16_main_spec_bytes
#print axioms Pql.CliIO.C16_spec_closed
#print axioms Pql.CliIO.C16_output_order
#print axioms Pql.CliIO.C16_steps_prelude
#print axioms Pql.CliIO.C16_failed_let_not_in_prelude
#print axioms Pql.CliIO.C16_failure_isolated
#print axioms Pql.CliIO.C16_failure_replace
#print axioms Pql.CliIO.C16_exit_iff
#print axioms Pql.CliIO.C16_nothing_dropped
#print axioms Pql.CliIO.C16_nothing_dropped_main
#print axioms Pql.CliSem.C16_prelude_parse
#print axioms Pql.CliSem.C16_semiEnds_iff
#print axioms Pql.CliSem.C16_semiEnds_indep
#print axioms Pql.CliSem.C16_pieces_semiEnds
#print axioms Pql.CliSem.C16_let_piece
#print axioms Pql.CliSem.C16_prelude_is_scope
#print axioms Pql.CliSem.C16_compile_ignores_shift
#print axioms Pql.CliSem.C16_colsGood_of_parse
#print axioms Pql.CliSem.C16_slice_shift
#print axioms Pql.CliSem.C16_shadow
#print axioms Pql.CliSem.C16_prelude_is_substitution
#print axioms Pql.CliSem.C16_let_test_sound
#print axioms Pql.CliSem.C16_letAccepts_iff
#print axioms Pql.CliSem.C16_accepted_invariant
#print axioms Pql.CliSem.C16_cli_semantics
#print axioms Pql.CliSem.C16_cli_output
#print axioms Pql.CliSem.C16_needs_semiEnds
#print axioms Pql.CliSem.C16_probe_needs_semiEnds
#print axioms Pql.CliSem.C16_needs_errorFree
#print axioms Pql.CliSem.C16_needs_allLets
#print axioms Pql.CliSem.C16_probe_needs_let
#print axioms Pql.CliSem.C16_slice_needs_good
#print axioms Pql.CliIR.run_ir
#print axioms Pql.CliIR.run_params
#print axioms Pql.CliIR.stmt_step
#print axioms Pql.CliIR.line_step
#print axioms Pql.CliIR.interpRun_eq
#print axioms Pql.CliIR.C16_run_ir
#print axioms Pql.CliIR.C16_main_ir
#print axioms Pql.CliIR.C16_run_ir_error
#print axioms Pql.CliIR.empty_slice_panics
#print axioms Pql.CliIR.unguarded_index_panics
#print axioms Pql.CliIR.no_return_stuck
#print axioms Pql.CliIOIR.read_ir
#print axioms Pql.CliIOIR.close_ir
#print axioms Pql.CliIOIR.makeInput_ir
#print axioms Pql.CliIOIR.makeOutput_ir
#print axioms Pql.CliIOIR.isTerminal_ir
#print axioms Pql.CliIOIR.read_run
#print axioms Pql.CliIOIR.mrRead_refines
#print axioms Pql.CliIOIR.C16_Read_ir_heap
#print axioms Pql.CliIOIR.C16_Read_ir_fuel_tight
#print axioms Pql.CliIOIR.C16_Read_ir_nil_panics
#print axioms Pql.CliIOIR.close_run
#print axioms Pql.CliIOIR.mrClose_spec
#print axioms Pql.CliIOIR.C16_Close_ir
#print axioms Pql.CliIOIR.C16_Close_ir_nil_panics
#print axioms Pql.CliIOIR.makeInput_run
#print axioms Pql.CliIOIR.miLoop_model
#print axioms Pql.CliIOIR.den_eq_denote
#print axioms Pql.CliIOIR.C16_makeInput_ir
#print axioms Pql.CliIOIR.C16_makeOutput_ir
#print axioms Pql.CliIOIR.C16_isTerminal_ir
#print axioms Pql.IRHead.C16_multi_concat_ir
#print axioms Pql.IRHead.C16_multi_concat_ir_needs_fuel
#print axioms Pql.IRHead.C16_run_spec_any_compile_ir
#print axioms Pql.IRHead.C16_run_spec_ir
#print axioms Pql.IRHead.C16_main_semantics_ir
#print axioms Pql.IRHead.C16_last_terminated_or_not_ir
#print axioms Pql.IRHead.C16_no_placeholder_ir
#print axioms Pql.IRHead.C16_on_translated_code
#print axioms Pql.StreamIR.C16_Read_ir_iterated_steps
#print axioms Pql.StreamIR.C16_Read_ir_iterated_then_Close
#print axioms Pql.StreamIR.C16_main_pipeline_ir
#print axioms Pql.StreamIR.C16_main_pipeline_ir_closed
#print axioms Pql.StreamIR.C16_main_pipeline_ir_semantics
#print axioms Pql.StreamIR.C16_main_pipeline_ir_chunking
#print axioms Pql.StreamIR.C16_main_pipeline_ir_needs_fuel
#print axioms Pql.StreamIR.C16_main_pipeline_ir_needs_calls
#print axioms Pql.StreamIR.C16_main_pipeline_ir_needs_clean
#print axioms Pql.StreamIR.C16_Read_ir_iterated_needs_nodup
#print axioms Pql.StreamIR.C16_Read_ir_iterated_needs_denote
#print axioms Pql.StreamIR.C16_Read_ir_iterated_needs_fuel
