import PqlModel.Props.C16a
import PqlModel.Props.C16
import PqlModel.Props.C16IO
#print axioms Pql.C16.C16_statement_sim
#print axioms Pql.C16.C16_statements_sim
#print axioms Pql.C16.C16_output_monotone
#print axioms Pql.C16.C16_refines
#print axioms Pql.C16.C16_refines_all
#print axioms Pql.C16.C16_last_terminated_or_not
#print axioms Pql.C16.C16_last_terminated_or_not_cli
#print axioms Pql.CliIO.C16_multi_concat
#print axioms Pql.CliIO.C16_multi_concat_fuel
#print axioms Pql.CliIO.C16_multi_terminates
#print axioms Pql.CliIO.C16_multi_concat_noErr
#print axioms Pql.CliIO.C16_reader_alone
#print axioms Pql.CliIO.C16_multi_single
#print axioms Pql.CliIO.C16_multi_chunking
#print axioms Pql.CliIO.C16_multi_zero_nil
#print axioms Pql.CliIO.C16_multi_progress
#print axioms Pql.CliIO.C16_files
#print axioms Pql.CliIO.C16_files_general
#print axioms Pql.CliIO.C16_lines_lossless
#print axioms Pql.CliIO.C16_lines_only_cr_dropped
#print axioms Pql.CliIO.C16_lines_identity
#print axioms Pql.CliIO.C16_lines_prefix
#print axioms Pql.CliIO.C16_main_spec
#print axioms Pql.CliIO.C16_main_spec_bytes
#print axioms Pql.CliIO.C16_spec_closed
#print axioms Pql.CliIO.C16_output_order
#print axioms Pql.CliIO.C16_steps_prelude
#print axioms Pql.CliIO.C16_failed_let_not_in_prelude
#print axioms Pql.CliIO.C16_failure_isolated
#print axioms Pql.CliIO.C16_failure_replace
#print axioms Pql.CliIO.C16_exit_iff
#print axioms Pql.CliIO.C16_nothing_dropped
#print axioms Pql.CliIO.C16_nothing_dropped_main
