import PqlModel.Props.C16a
import PqlModel.Props.C16
#print axioms Pql.C16.C16_statement_sim
#print axioms Pql.C16.C16_statements_sim
#print axioms Pql.C16.C16_output_monotone
#print axioms Pql.C16.C16_refines
#print axioms Pql.C16.C16_refines_all
#print axioms Pql.C16.C16_last_terminated_or_not
#print axioms Pql.C16.C16_last_terminated_or_not_cli
