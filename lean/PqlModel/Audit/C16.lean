import PqlModel.Props.C16a
#print axioms Pql.C16.C16_statement_sim
#print axioms Pql.C16.C16_statements_sim
#print axioms Pql.C16.C16_output_monotone
