import PqlModel.Props.C04
import PqlModel.Props.C05LexStatement
#print axioms Pql.C04.C04_decode_string
#print axioms Pql.C04.C04_decode_identifier
#print axioms Pql.C04.C04_decode_string_clickhouse_partial
#print axioms Pql.C04.C04_decode_identifier_clickhouse_partial
#print axioms Pql.C04.K1_backslash_witness
