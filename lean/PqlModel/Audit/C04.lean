import PqlModel.Props.C04
import PqlModel.Props.C05LexStatement
import PqlModel.Props.C04Shape
import PqlModel.Props.C04ShapeQuery
import PqlModel.Props.C04ShapeCx
import PqlModel.Props.C04Numbers
import PqlModel.Props.C09NumberIR
import PqlModel.Props.IRHeadlinesB
#print axioms Pql.C04.C04_decode_string
#print axioms Pql.C04.C04_decode_identifier
#print axioms Pql.C04.C04_decode_string_clickhouse_partial
#print axioms Pql.C04.C04_decode_identifier_clickhouse_partial
#print axioms Pql.C04.K1_backslash_witness
#print axioms Pql.C04.C04_content_parametric
#print axioms Pql.C04.C04_string_parametric
#print axioms Pql.C04.C04_string_parametric_scope
#print axioms Pql.C04.C04_string_shape
#print axioms Pql.C04.C04_number_parametric
#print axioms Pql.C04.C04_number_shape
#print axioms Pql.C04.C04_name_parametric
#print axioms Pql.C04.C04_name_parametric_scope
#print axioms Pql.C04.C04_name_shape
#print axioms Pql.C04.C04_write_shape
#print axioms Pql.C04.C04_write_parametric_partial
#print axioms Pql.C04.C04_split_shape
#print axioms Pql.C04.C04_compile_shape
#print axioms Pql.C04.C04_compile_parametric_partial
#print axioms Pql.C04.C04_compile_name_parametric_partial
#print axioms Pql.C04.C04_write_string_shape
#print axioms Pql.C04.C04_split_string_shape
#print axioms Pql.C04.C04_compile_string_shape
#print axioms Pql.C04.C04_compile_string_parametric_partial
#print axioms Pql.C04.C04_name_cx_to_builtin
#print axioms Pql.C04.C04_name_cx_from_builtin
#print axioms Pql.C04.C04_name_cx_to_alias
#print axioms Pql.C04.C04_name_cx_join_quoted
#print axioms Pql.C04.C04_name_cx_scope
#print axioms Pql.C04.C04_slice_cx
#print axioms Pql.C04.C04_render_cx
#print axioms Pql.Glue.C04_number_token_roundtrip
#print axioms Pql.Glue.sqlNumValue_eq_decValue
#print axioms Pql.Glue.sqlNumValue_eq_of_numOK
#print axioms Pql.Glue.C04_number_literal_roundtrip
#print axioms Pql.Glue.sqlNumValue_ne_decValue
#print axioms Pql.LexIR.C04_IsInteger_on_scanned
#print axioms Pql.LexIR.C09_IsInteger_ir
#print axioms Pql.IRHead.C04_decode_ir
#print axioms Pql.IRHead.C04_content_parametric_ir
#print axioms Pql.IRHead.C04_string_shape_ir
#print axioms Pql.IRHead.C04_number_token_roundtrip_ir
#print axioms Pql.IRHead.C04_number_literal_roundtrip_ir
#print axioms Pql.IRHead.C04_content_parametric_ir_nonvacuous
#print axioms Pql.IRHead.C04_params_verbatim_ir
#print axioms Pql.IRHead.C04_on_translated_code
