import PqlModel.Props.C06
#print axioms Pql.C06.C06_shadow
#print axioms Pql.C06.C06_other_binding_irrelevant
#print axioms Pql.C06.C06_after_ignored
#print axioms Pql.C06.C06_quoted_not_substituted
#print axioms Pql.C06.C06_bound_substituted
