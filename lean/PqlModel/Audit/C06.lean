import PqlModel.Props.C06
import PqlModel.Props.C06Subst
import PqlModel.Props.C14Order
import PqlModel.Props.C06Operand
import PqlModel.Props.C02EndToEndSource
import PqlModel.Props.C06Params
import PqlModel.Props.C06ParamsAtomic
import PqlModel.Props.C06ParamsExamples
import PqlModel.Props.C06Placeholders
import PqlModel.Props.C02ProgramNames
import PqlModel.Props.C06CompileIR
import PqlModel.Props.IRHeadlinesB
#print axioms Pql.C06.C06_shadow
#print axioms Pql.C06.C06_other_binding_irrelevant
#print axioms Pql.C06.C06_after_ignored
#print axioms Pql.C06.C06_quoted_not_substituted
#print axioms Pql.C06.C06_bound_substituted
#print axioms Pql.C06.C06_let_value_is_unit
#print axioms Pql.C06.C06_let_binds_unit
#print axioms Pql.C06.C06_subst_expr
#print axioms Pql.C06.C06_subst_expr_parens
#print axioms Pql.C06.C06_subst_expr_atom
#print axioms Pql.C06.C06_subst_operand_exact
#print axioms Pql.C06.C06_subst_lets
#print axioms Pql.C06.C06_resolveLets_env
#print axioms Pql.C06.C06_lets_then_query
#print axioms Pql.C06.C06_subst_program
#print axioms Pql.C06.C06_join_counterexample
#print axioms Pql.C06.C06_join_counterexample_not_related
#print axioms Pql.C14.C14_unused_param_irrelevant
#print axioms Pql.C06.C06_compileStmts_scope
#print axioms Pql.C06.C06_compileStmts_scopeLets
#print axioms Pql.C06.C06_let_value_is_operand
#print axioms Pql.C06.C06_let_value_is_operand_pUnary
#print axioms Pql.C06.C06_lexRender_scoped
#print axioms Pql.C06.C06_lexRender_scoped_before
#print axioms Pql.C06.C06_parse_roundtrip_scoped
#print axioms Pql.C06.C06_parse_roundtrip_scoped_partial
#print axioms Pql.C06.C06_parse_roundtrip_scoped_anyfuel_partial
#print axioms Pql.C06.C06_parse_roundtrip_scoped_names
#print axioms Pql.C06.C06_operand_is_unit_scoped
#print axioms Pql.C06.C06_operand_is_unit_scoped_partial
#print axioms Pql.C06.C06_tight_operand_is_atom_scoped_partial
#print axioms Pql.C06.C06_join_name_counterexample
#print axioms Pql.C06.C06_param_regrouped
#print axioms Pql.C06.C06_param_comment
#print axioms Pql.Params.C06_params_verbatim
#print axioms Pql.Params.C06_params_substitute
#print axioms Pql.Params.C06_params_failure_independent
#print axioms Pql.Params.C06_params_are_holes
#print axioms Pql.Params.C06_compile_params_verbatim
#print axioms Pql.Params.C06_param_occurrences
#print axioms Pql.Params.C06_no_params_no_raw
#print axioms Pql.Params.C06_param_reference
#print axioms Pql.Params.C06_params_as_lets_bytes
#print axioms Pql.Params.C06_atomic_params_tokens
#print axioms Pql.Params.C06_atomic_params_end_to_end
#print axioms Pql.Params.C06_parse_roundtrip_params
#print axioms Pql.Params.C06_operand_is_unit_params
#print axioms Pql.Params.C06_param_value_is_operand
#print axioms Pql.Params.C06_params_lets_same_skeleton
#print axioms Pql.E2EMore.C06_parse_commutes_with_instantiation
#print axioms Pql.E2EMore.lex_placeholder
#print axioms Pql.E2EMore.C06_placeholders_lex
#print axioms Pql.E2EMore.C06_placeholder_read_commutes
#print axioms Pql.E2EMore.C06_placeholder_params_end_to_end
#print axioms Pql.E2EMore.C06_placeholder_params_end_to_end_names
#print axioms Pql.E2EMore.C06_placeholder_params_run
#print axioms Pql.ExprIR.compilePre_ir
#print axioms Pql.ExprIR.C06_paramCopy_ir
#print axioms Pql.ExprIR.C06_paramCopy_nil
#print axioms Pql.ExprIR.C06_paramCopy_order
#print axioms Pql.ExprIR.C06_compileStmts_ir
#print axioms Pql.ExprIR.C06_compileStmts_ir_needs_tab
#print axioms Pql.ExprIR.C06_compileStmts_ir_nonvacuous
#print axioms Pql.ExprIR.C06_compilePre_ir
#print axioms Pql.ExprIR.C06_compile_ir
#print axioms Pql.ExprIR.C06_compile_scope_order
#print axioms Pql.IRHead.C06_lookup_ir
#print axioms Pql.IRHead.C06_placeholder_params_ir
#print axioms Pql.IRHead.C06_placeholder_params_ir_nonvacuous
#print axioms Pql.IRHead.C06_on_translated_code
