import PqlModel.Props.C12
import PqlModel.Props.C12Fuel
import PqlModel.Props.C13Exact
import PqlModel.Props.C10SpanIR
import PqlModel.Props.C11WalkIR
import PqlModel.Props.C12NoPanicIR
import PqlModel.Props.IRHeadlines
import PqlModel.Props.C09ScanIR
#print axioms Pql.C12.C12_scan_progress
#print axioms Pql.C12.C12_scan_length_le
#print axioms Pql.C12.C12_split_shorter
#print axioms Pql.C12.parse_fuel_sufficient
#print axioms Pql.C12.parse_fuel_sufficient_src
#print axioms Pql.C12.C12_statement_fuel_bound
#print axioms Pql.C12.C12_expr_fuel_bound
#print axioms Pql.C12.C12_expr_fuel_slope_tight
#print axioms Pql.C13.C13_exact_source
#print axioms Pql.AstIR.C12_asQualified_ir
#print axioms Pql.AstIR.C11_walk_ir
#print axioms Pql.NoPanic.C12_parse_ir_no_panic
#print axioms Pql.NoPanic.C12_parse_callees_ir_no_panic
#print axioms Pql.NoPanic.C12_parse_ir_nonvacuous
#print axioms Pql.NoPanic.C12_split_ir_no_panic
#print axioms Pql.NoPanic.C12_numberOrDot_ir_no_panic
#print axioms Pql.NoPanic.C12_split_ir_needs_scan
#print axioms Pql.NoPanic.C12_split_ir_nonvacuous
#print axioms Pql.NoPanic.C12_walk_ir_no_panic
#print axioms Pql.NoPanic.C12_hasJoinTerms_ir_no_panic
#print axioms Pql.NoPanic.C12_walk_ir_needs_parse
#print axioms Pql.NoPanic.C12_walk_ir_nonvacuous
#print axioms Pql.NoPanic.C12_span_ir_no_panic
#print axioms Pql.NoPanic.C12_span_ir_needs_parse
#print axioms Pql.NoPanic.C12_linecol_ir_no_panic
#print axioms Pql.NoPanic.C12_linecol_ir_needs_inside
#print axioms Pql.NoPanic.C12_compile_ir_no_panic
#print axioms Pql.NoPanic.C12_compile_layers_ir_no_panic
#print axioms Pql.NoPanic.C12_compile_leaves_ir_no_panic
#print axioms Pql.NoPanic.C12_compile_layers_need_parse
#print axioms Pql.NoPanic.C12_compile_ir_nonvacuous
#print axioms Pql.NoPanic.C12_compile_layers_nonvacuous
#print axioms Pql.NoPanic.C12_cli_ir_no_panic
#print axioms Pql.NoPanic.C12_cli_ir_nonvacuous
#print axioms Pql.NoPanic.C12_translated_code_never_panics
#print axioms Pql.IRHead.C12_on_translated_code
#print axioms Pql.IRHead.C12_scan_loop_total
#print axioms Pql.IRHead.C12_run_irLib_total
#print axioms Pql.ScanIR.C12_Scan_ir_no_panic
#print axioms Pql.ScanIR.C09_Scan_ir
#print axioms Pql.ScanIR.Scan_ir
