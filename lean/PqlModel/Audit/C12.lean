import PqlModel.Props.C12
import PqlModel.Props.C12Fuel
import PqlModel.Props.C13Exact
import PqlModel.Props.C10SpanIR
import PqlModel.Props.C11WalkIR
#print axioms Pql.C12.C12_scan_progress
#print axioms Pql.C12.C12_scan_length_le
#print axioms Pql.C12.C12_split_shorter
#print axioms Pql.C12.parse_fuel_sufficient
#print axioms Pql.C12.parse_fuel_sufficient_src
#print axioms Pql.C12.C12_statement_fuel_bound
#print axioms Pql.C12.C12_expr_fuel_bound
#print axioms Pql.C12.C12_expr_fuel_slope_tight
#print axioms Pql.C13.C13_exact_source
#print axioms Pql.AstIR.C12_asQualified_ir
#print axioms Pql.AstIR.C11_walk_ir
