import PqlModel.Props.C12
#print axioms Pql.C12.C12_scan_progress
#print axioms Pql.C12.C12_scan_length_le
#print axioms Pql.C12.C12_split_shorter
