import PqlModel.Props.C11
import PqlModel.Props.C11b
import PqlModel.Props.C11Compile
import PqlModel.Props.C11WalkIRPushes
import PqlModel.Props.C11WalkIR
import PqlModel.Props.IRHeadlinesD
#print axioms Pql.C11.C11_children_complete
#print axioms Pql.C11.C11_render_props_complete
#print axioms Pql.C11.C11_nil_guarded
#print axioms Pql.C11.C11_default_panics
#print axioms Pql.C11.C11_model_matches_walk_table
#print axioms Pql.C11.C11_children_size
#print axioms Pql.C11.walk_eq_preorder
#print axioms Pql.C11.walk_eq_preNode
#print axioms Pql.C11.C11_walk_unfold
#print axioms Pql.C11.C11_no_panic
#print axioms Pql.C11.C11_visits_all
#print axioms Pql.C11.C11_visits_sublist
#print axioms Pql.C11.C11_call_index
#print axioms Pql.C11.C11_prune
#print axioms Pql.C11.C11_prune_inner
#print axioms Pql.C11.C11_descend_inner
#print axioms Pql.C11.C11_no_nil
#print axioms Pql.C11.C11_parsed_expr_complete
#print axioms Pql.C11.C11_parsed_complete
#print axioms Pql.C11.C11_parsed_walk
#print axioms Pql.Glue.C11_allNodes_idents
#print axioms Pql.Glue.C11_hasJoinTerms_via_walk
#print axioms Pql.Glue.C11_walk_ident_events
#print axioms Pql.Glue.C11_parsed_join_conditions
#print axioms Pql.Glue.C11_call_func_not_visited
#print axioms Pql.AstIR.C11_walk_forms
#print axioms Pql.AstIR.C11_walk_tables_agree
#print axioms Pql.AstIR.walk_dec
#print axioms Pql.AstIR.pushesOf_eq
#print axioms Pql.AstIR.walkLoopV_decide
#print axioms Pql.AstIR.C11_walk_ir
#print axioms Pql.AstIR.C11_walk_ir_model
#print axioms Pql.AstIR.C11_walk_ir_preorder
#print axioms Pql.IRHead.C11_walk_headlines_ir
#print axioms Pql.IRHead.C11_on_translated_code
#print axioms Pql.IRHead.C11_on_translated_code_nonvacuous
