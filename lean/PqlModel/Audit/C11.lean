import PqlModel.Props.C11
#print axioms Pql.C11.C11_children_complete
#print axioms Pql.C11.C11_render_props_complete
#print axioms Pql.C11.C11_nil_guarded
#print axioms Pql.C11.C11_default_panics
#print axioms Pql.C11.C11_model_matches_walk_table
