import PqlModel.Props.C14
import PqlModel.Props.C14Order
import PqlModel.Props.C06Params
#print axioms Pql.C14.C14_no_conflicting_access
#print axioms Pql.C14.C14_parameter_map_read_only
#print axioms Pql.C14.C14_package_vars
#print axioms Pql.C14.C14_once_safe
#print axioms Pql.C14.C14_param_order_irrelevant
#print axioms Pql.C14.C14_compile_param_order_irrelevant
#print axioms Pql.C14.C14_unused_param_irrelevant
#print axioms Pql.C14.C14_unused_param_irrelevant_anywhere
#print axioms Pql.C14.C14_condition_less_join_reads_true
