import PqlModel.Props.C14
#print axioms Pql.C14.C14_no_conflicting_access
#print axioms Pql.C14.C14_parameter_map_read_only
#print axioms Pql.C14.C14_package_vars
#print axioms Pql.C14.C14_once_safe
