import PqlModel.Props.C14
import PqlModel.Props.C14Order
import PqlModel.Props.C06Params
import PqlModel.Props.IRHeadlines
#print axioms Pql.C14.C14_no_conflicting_access
#print axioms Pql.C14.C14_parameter_map_read_only
#print axioms Pql.C14.C14_package_vars
#print axioms Pql.C14.C14_once_safe
#print axioms Pql.C14.C14_param_order_irrelevant
#print axioms Pql.C14.C14_compile_param_order_irrelevant
#print axioms Pql.C14.C14_unused_param_irrelevant
#print axioms Pql.C14.C14_unused_param_irrelevant_anywhere
#print axioms Pql.C14.C14_condition_less_join_reads_true
#print axioms Pql.IRHead.C14_map_order_ir
#print axioms Pql.IRHead.C14_map_order_ir_needs_nodup
#print axioms Pql.IRHead.C14_map_order_ir_needs_perm
#print axioms Pql.IRHead.C14_param_perm_ir
#print axioms Pql.IRHead.C14_nil_options_ir
#print axioms Pql.IRHead.C14_unused_param_ir
#print axioms Pql.IRHead.C14_on_translated_code
