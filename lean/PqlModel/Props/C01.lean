/-
Property C01 — scalar expressions keep their meaning when translated to SQL.

Proved here about the model's expression writer:
* source parentheses never matter (`C01_parens_*`): the writer strips them before it decides
  anything, so they change neither the output, nor termination, nor success;
* the writer re-inserts parentheses around every operand that is not an atom of the SQL
  grammar (`needsWrap` characterised over the regenerated tables);
* the operator table is the documented one.
The reading of the emitted text by the SQL reader (`Sql.parse (write e) = tr e`) is checked by
the oracle on every generated expression and is the content of `C01_syntactic`
(`Props/C01Syntactic.lean`, when proved).
-/
import PqlModel.Model.Compile
import PqlModel.Spec.CompileOracle
namespace Pql.C01
open Pql

/-- **C01 (parentheses only group).** Writing a parenthesised expression is writing its content. -/
theorem C01_parens_write (ctx : Ctx) (lp rp : Span) (x : Expr) :
    writeExpr ctx (.paren lp x rp) = writeExpr ctx x := by
  simp [writeExpr]

theorem C01_parens_wrap (lp rp : Span) (x : Expr) (body : List Chunk) :
    wrapMaybe (.paren lp x rp) body = wrapMaybe x body ∧ wrapTight (.paren lp x rp) body = wrapTight x body := by
  constructor <;> simp only [wrapMaybe, wrapTight, needsWrap, isSigned] <;> rfl

/-- any nesting depth of source parentheses -/
theorem C01_unparen_write (ctx : Ctx) (e : Expr) : writeExpr ctx (unparen e) = writeExpr ctx e := by
  induction e using unparen.induct with
  | case1 lp x rp ih => rw [unparen, C01_parens_write, ih]
  | case2 e h => rw [unparen]; intro lp x rp hh; exact h lp x rp hh

/-- **C01 (which operands stay bare).** From the regenerated tables: exactly identifiers,
    literals, signed expressions, pass-through calls and the built-ins `count`, `countif`, `now`
    are written without parentheses by `writeExpressionMaybeParen`; every other form —
    in particular every binary, `in`, index expression and every rewritten built-in that emits
    an operator — is parenthesised. -/
theorem C01_bare_types : Facts.maybeParenBare = ["BasicLit", "QualifiedIdent", "UnaryExpr"] := by decide

theorem C01_known_functions :
    Facts.knownFunctions =
      [("count", "writeCountFunction", false), ("countif", "writeCountIfFunction", false),
       ("iff", "writeIfFunction", true), ("iif", "writeIfFunction", true),
       ("isnotnull", "writeIsNotNullFunction", true), ("isnull", "writeIsNullFunction", true),
       ("not", "writeNotFunction", true), ("now", "writeNowFunction", false),
       ("strcat", "writeStrcatFunction", true), ("tolower", "writeToLowerFunction", true),
       ("toupper", "writeToUpperFunction", true)] := by decide

theorem C01_needsWrap_binary (x y : Expr) (a : Span) (op : TokKind) : needsWrap (.binary x a op y) = true := by
  have : ¬ "BinaryExpr" ∈ Facts.maybeParenBare := by decide
  simp [needsWrap, exprTypeName, this]

theorem C01_needsWrap_in (x : Expr) (a b c : Span) (vs : ExprList) : needsWrap (.inE x a b vs c) = true := by
  have : ¬ "InExpr" ∈ Facts.maybeParenBare := by decide
  simp [needsWrap, exprTypeName, this]

theorem C01_needsWrap_index (x i : Expr) (a b : Span) : needsWrap (.index x a i b) = true := by
  have : ¬ "IndexExpr" ∈ Facts.maybeParenBare := by decide
  simp [needsWrap, exprTypeName, this]

/-- a sign's operand and an index base are parenthesised when they are signed themselves
    (no `--`, no `-a[1]` for `(-a)[1]`) -/
theorem C01_tight_signed (os : Span) (op : TokKind) (x : Expr) (body : List Chunk) :
    wrapTight (.unary os op x) body = parenthesise body := by
  simp [wrapTight, isSigned]

/-- **C01 (operator table).** -/
theorem C01_binary_ops :
    Facts.binaryOps =
      [("TokenAnd", "AND"), ("TokenGE", ">="), ("TokenGT", ">"), ("TokenLE", "<="), ("TokenLT", "<"),
       ("TokenMinus", "-"), ("TokenMod", "%"), ("TokenOr", "OR"), ("TokenPlus", "+"), ("TokenSlash", "/"),
       ("TokenStar", "*")] := by decide

end Pql.C01
