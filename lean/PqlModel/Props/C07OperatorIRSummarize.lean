/-
Property C07, tie by translation: `(*parser).summarizeOperator` — the aggregate loop (`pSummarizeCols`, with
the dangling comma), the optional `by` clause and the group-by loop (`pGroupByCols`) of the model's
`pSummarize` are the interpretation of the regenerated body (`C07_summarizeOperator_ir`), for every fuel and
every loop counter.
-/
import PqlModel.Props.C07OperatorIRProject
import PqlModel.Lemmas.AccountedNF
namespace Pql.OpIR
open Pql
set_option linter.unusedSimpArgs false

theorem newRec_summarize : newRec "SummarizeOperator" =
    some ⟨"SummarizeOperator", [("Pipe", .span .zero), ("Keyword", .span .zero), ("Cols", .list []), ("By", .span .zero),
      ("GroupBy", .list [])]⟩ := by rfl

theorem isNF_nil : isNF [] = false := rfl

/-- a not-found error of `summarizeColumn` comes without consumption -/
theorem pNamedColumn_nf (c : PCtx) (fuel : Nat) (ts : List Token) (h : isNF (pNamedColumn c fuel ts).errs = true) :
    (pNamedColumn c fuel ts).rest = ts := by
  unfold pNamedColumn at h ⊢
  dsimp only at h ⊢
  split at h
  · simp [mkOpaque_notNF] at h
  · rename_i hn
    simp only [hn]
    exact (nf_expr c fuel).1 ts h

/-! ### the group-by loop -/

/-- the state in the group-by loop -/
def sum2St (pipe kws : Span) (kw pt : Token) (cols : List Column) (dc : Val) (s : Token) (gacc : List Column)
    (ts : List Token) (u : Option (List Token)) : St :=
  ⟨[("ok", .bool true), ("sep", .tok s), ("danglingComma", dc), ("op", .ref 0), ("keyword", .tok kw), ("pipe", .tok pt),
    ("p", .parser ts u)],
   [⟨"SummarizeOperator", [("Pipe", .span pipe), ("Keyword", .span kws), ("Cols", .list (colVals cols)), ("By", .span s.span),
      ("GroupBy", .list (colVals gacc))]⟩]⟩

theorem sum2_loop (c : PCtx) (fuel : Nat) (pipe kws : Span) (kw pt : Token) (cols : List Column) (dc : Val) (s : Token) :
    ∀ (n : Nat) (gacc : List Column) (ts : List Token) (u : Option (List Token)),
      result toOp "op" none
          (runLoop false (execBlock (envAt c) (lastLoop summarizeOperatorBody)) n fuel
            (sum2St pipe kws kw pt cols dc s gacc ts u)) =
        .ok ⟨.summarize pipe kws cols s.span (pGroupByCols c fuel n gacc ts).val, (pGroupByCols c fuel n gacc ts).errs,
          (pGroupByCols c fuel n gacc ts).rest⟩
  | 0, gacc, ts, u => by
    simp [runLoop, result_fuel, sum2St, pGroupByCols, St.parser, St.get, toOp, recToOp, listOf, toColumns_vals, optM,
      bind, Except.bind, pure, Except.pure]
  | n + 1, gacc, ts, u => by
    have ih := sum2_loop c fuel pipe kws kw pt cols dc s n
    simp only [lastLoop, summarizeOperatorBody, List.getLast?_cons_cons, List.getLast?_singleton, sum2St, envAt] at ih ⊢
    unfold runLoop pGroupByCols
    rcases he : (pNamedColumn c fuel ts).errs with _ | ⟨e, es⟩
    · rcases hr : (pNamedColumn c fuel ts).rest with _ | ⟨t, rest⟩
      · ir_simp [he, hr, isNF_nil, kind_comma, eofTok, colVals_snoc, ih, toColumns_vals]
      · by_cases hk : t.kind = .comma <;>
          ir_simp [he, hr, hk, isNF_nil, kind_comma, eofTok, colVals_snoc, ih, toColumns_vals]
    · cases hnf : isNF (e :: es) <;>
        ir_simp [he, hnf, kind_comma, eofTok, colVals_snoc, ih, toColumns_vals]

/-! ### the aggregate loop -/

/-- the body of the `for` loop at position `i` of a function body -/
def loopAt (body : List IStmt) (i : Nat) : List IStmt :=
  match body[i]? with
  | some (.loop b) => b
  | _ => []

/-- the values `danglingComma` takes: the zero value, an assigned `nil`, the address of a comma -/
def okDc (dc : Val) : Prop := dc = .tokPtr none ∨ dc = .nil ∨ ∃ t, dc = .tokPtr (some t)

/-- the model's view of `danglingComma` -/
def cmOf : Val → Option Span
  | .tokPtr (some t) => some t.span
  | _ => none

/-- the state in the aggregate loop -/
def sum1St (pipe kws : Span) (kw pt : Token) (acc : List Column) (dc : Val) (ts : List Token) (u : Option (List Token)) : St :=
  ⟨[("danglingComma", dc), ("op", .ref 0), ("keyword", .tok kw), ("pipe", .tok pt), ("p", .parser ts u)],
   [⟨"SummarizeOperator", [("Pipe", .span pipe), ("Keyword", .span kws), ("Cols", .list (colVals acc)), ("By", .span .null),
      ("GroupBy", .list [])]⟩]⟩

/-- what the aggregate loop leaves: the function has returned (or run out of fuel) with the model's
    result, or the loop was left by `break` in the state the model's `SumCols` describes -/
def Sum1Post (pipe kws : Span) (kw pt : Token) (r1 : PRes SumCols) (out : M (Flow × St)) : Prop :=
  ∃ f st', out = .ok (f, st') ∧
    ((r1.val.done = true ∧ (f = .fuel ∨ ∃ v e, f = .ret [v, e]) ∧
        result toOp "op" none (.ok (f, st')) = .ok ⟨.summarize pipe kws r1.val.cols .null [], r1.errs, r1.rest⟩) ∨
     (r1.val.done = false ∧ f = .next ∧
        ∃ dc', okDc dc' ∧ cmOf dc' = r1.val.comma ∧ st' = sum1St pipe kws kw pt r1.val.cols dc' r1.rest none))

theorem Sum1Post_ok (pipe kws : Span) (kw pt : Token) (r1 : PRes SumCols) (f : Flow) (st : St) :
    Sum1Post pipe kws kw pt r1 (.ok (f, st)) ↔
      ((r1.val.done = true ∧ (f = .fuel ∨ ∃ v e, f = .ret [v, e]) ∧
          result toOp "op" none (.ok (f, st)) = .ok ⟨.summarize pipe kws r1.val.cols .null [], r1.errs, r1.rest⟩) ∨
       (r1.val.done = false ∧ f = .next ∧
          ∃ dc', okDc dc' ∧ cmOf dc' = r1.val.comma ∧ st = sum1St pipe kws kw pt r1.val.cols dc' r1.rest none)) := by
  constructor
  · rintro ⟨f', st', h, hp⟩
    cases h
    exact hp
  · intro h
    exact ⟨f, st, rfl, h⟩

theorem sum1_loop (c : PCtx) (fuel : Nat) (pipe kws : Span) (kw pt : Token) :
    ∀ (n : Nat) (acc : List Column) (dc : Val) (ts : List Token) (u : Option (List Token)), okDc dc →
      Sum1Post pipe kws kw pt (pSummarizeCols c fuel n acc (cmOf dc) ts)
        (runLoop false (execBlock (envAt c) (loopAt summarizeOperatorBody 2)) n fuel (sum1St pipe kws kw pt acc dc ts u))
  | 0, acc, dc, ts, u, hdc => by
    simp [runLoop, Sum1Post_ok, result_fuel, sum1St, pSummarizeCols, St.parser, St.get, toOp, recToOp, listOf, toColumns_vals,
      optM, bind, Except.bind, pure, Except.pure, toColumns]
  | n + 1, acc, dc, ts, u, hdc => by
    have ih := sum1_loop c fuel pipe kws kw pt n
    simp only [loopAt, summarizeOperatorBody, List.getElem?_cons_succ, List.getElem?_cons_zero, sum1St, envAt] at ih ⊢
    unfold runLoop pSummarizeCols
    rcases he : (pNamedColumn c fuel ts).errs with _ | ⟨e, es⟩
    · rcases hr : (pNamedColumn c fuel ts).rest with _ | ⟨t, rest⟩
      · ir_simp [he, hr, isNF_nil, kind_comma, eofTok, colVals_snoc, Sum1Post_ok, toColumns_vals, toColumns]
      · by_cases hk : t.kind = .comma
        · have := ih (acc ++ [(pNamedColumn c fuel ts).val]) (.tokPtr (some t)) rest (some (t :: rest)) (Or.inr (Or.inr ⟨t, rfl⟩))
          ir_simp [he, hr, hk, isNF_nil, kind_comma, eofTok, colVals_snoc, Sum1Post_ok, toColumns_vals, toColumns]
          simpa [cmOf] using this
        · ir_simp [he, hr, hk, isNF_nil, kind_comma, eofTok, colVals_snoc, Sum1Post_ok, toColumns_vals, toColumns]
          exact ⟨.nil, Or.inr (Or.inl rfl), rfl, rfl⟩
    · cases hnf : isNF (e :: es)
      · ir_simp [he, hnf, kind_comma, eofTok, colVals_snoc, Sum1Post_ok, toColumns_vals, toColumns]
      · have hrest := pNamedColumn_nf c fuel ts (by rw [he]; exact hnf)
        ir_simp [he, hnf, hrest, kind_comma, eofTok, colVals_snoc, Sum1Post_ok, toColumns_vals, toColumns]
        exact ⟨dc, hdc, rfl, rfl⟩

/-! ### the function -/

theorem pOperator_summarize (c : PCtx) (fuel : Nat) (pipe : Span) (kw : Token) (ts : List Token) :
    pOperator c (fuel + 1) pipe (kwTok "summarize" kw) ts = some (pSummarize c fuel pipe kw.span ts) := by
  dispatch_simp

theorem natCast_succ_ne (n : Nat) : ((n : Int) + 1 = 0) = False := by
  simp only [eq_iff_iff, iff_false]; omega

theorem colVals_cons (x : Column) (xs : List Column) : colVals (x :: xs) = .col x :: colVals xs := rfl

/-- the statements between the two loops, and the group-by loop -/
def sumTail : List IStmt := summarizeOperatorBody.drop 3

theorem sumTail_run (c : PCtx) (fuel : Nat) (pipe kws : Span) (kw pt : Token) (cols : List Column) (dc : Val) (hdc : okDc dc)
    (ts : List Token) :
    result toOp "op" none (execBlock (envAt c) sumTail fuel (sum1St pipe kws kw pt cols dc ts none)) =
      .ok (match ts with
        | [] =>
          if cols.isEmpty then ⟨.summarize pipe kws cols .null [], errAt c.eof, []⟩
          else
            match cmOf dc with
            | some cm => ⟨.summarize pipe kws cols .null [], errAt cm, []⟩
            | none => ⟨.summarize pipe kws cols .null [], [], []⟩
        | sep :: rest =>
          if sep.kind ≠ .by_ then
            if cols.isEmpty then ⟨.summarize pipe kws cols .null [], errAt sep.span, ts⟩
            else
              match cmOf dc with
              | some cm => ⟨.summarize pipe kws cols .null [], errAt cm, ts⟩
              | none => ⟨.summarize pipe kws cols .null [], [], ts⟩
          else
            let r2 := pGroupByCols c fuel (rest.length + 1) [] rest
            ⟨.summarize pipe kws cols sep.span r2.val, r2.errs, r2.rest⟩) := by
  have hsplit : sumTail = sumTail.dropLast ++ [.loop (lastLoop summarizeOperatorBody)] := rfl
  rw [hsplit, execBlock_append]
  simp only [execBlock_single]
  rcases ts with _ | ⟨sep, rest⟩
  · rcases cols with _ | ⟨x, xs⟩
    · rcases hdc with rfl | rfl | ⟨t, rfl⟩ <;>
        ir_simp [sumTail, summarizeOperatorBody, sum1St, cmOf, colVals, eofTok, PCtx.eof, Span.index, Token.span, toColumns,
          toColumns_vals, kind_by]
    · rcases hdc with rfl | rfl | ⟨t, rfl⟩ <;>
        ir_simp [sumTail, summarizeOperatorBody, sum1St, cmOf, colVals_cons, natCast_succ_ne, eofTok, PCtx.eof, Span.index, Token.span, toColumns,
          toColumn, toColumns_vals, kind_by]
  · by_cases hk : sep.kind = .by_
    · have hpre : execBlock (envAt c) sumTail.dropLast fuel (sum1St pipe kws kw pt cols dc (sep :: rest) none) =
          .ok (.next, sum2St pipe kws kw pt cols dc sep [] rest (some (sep :: rest))) := by
        ir_simp [sumTail, summarizeOperatorBody, sum1St, sum2St, hk, kind_by, colVals]
      rw [hpre]
      simp only [bind, Except.bind, exec, sum2St, St.parser, St.get, List.find?, envAt, hk, ne_eq, not_true_eq_false, if_false]
      simp
      exact sum2_loop c fuel pipe kws kw pt cols dc sep (rest.length + 1) [] rest (some (sep :: rest))
    · rcases cols with _ | ⟨x, xs⟩
      · rcases hdc with rfl | rfl | ⟨t, rfl⟩ <;>
          ir_simp [sumTail, summarizeOperatorBody, sum1St, cmOf, colVals, hk, kind_by, toColumns, toColumns_vals]
      · rcases hdc with rfl | rfl | ⟨t, rfl⟩ <;>
          ir_simp [sumTail, summarizeOperatorBody, sum1St, cmOf, colVals_cons, natCast_succ_ne, hk, kind_by, toColumns, toColumn, toColumns_vals,
            Token.span]

theorem summarizeOperator_run (c : PCtx) (fuel : Nat) (pipe kw : Token) (ts : List Token) :
    runOp c summarizeOperatorBody fuel pipe kw ts = .ok (pSummarize c fuel pipe.span kw.span ts) := by
  have hsplit : summarizeOperatorBody =
      summarizeOperatorBody.take 2 ++ ([.loop (loopAt summarizeOperatorBody 2)] ++ sumTail) := rfl
  unfold runOp run
  rw [hsplit, execBlock_append]
  have hpre : execBlock (envAt c) (summarizeOperatorBody.take 2) fuel (entry (opParams ts pipe kw)) =
      .ok (.next, sum1St pipe.span kw.span kw pipe [] (.tokPtr none) ts none) := by
    ir_simp [summarizeOperatorBody, newRec_summarize, sum1St, colVals]
  rw [hpre]
  simp only [bind, Except.bind, execBlock_append, execBlock_single]
  have h1 := sum1_loop c fuel pipe.span kw.span kw pipe (ts.length + 1) [] (.tokPtr none) ts none (Or.inl rfl)
  rw [show cmOf (Val.tokPtr none) = none from rfl] at h1
  obtain ⟨f, st', hrun, hpost⟩ := h1
  have hexec : exec (envAt c) (.loop (loopAt summarizeOperatorBody 2)) fuel
      (sum1St pipe.span kw.span kw pipe [] (.tokPtr none) ts none) = .ok (f, st') := by
    simp only [exec, sum1St, St.parser, St.get, List.find?, envAt, bind, Except.bind, pure, Except.pure] at hrun ⊢
    simpa using hrun
  rw [hexec]
  unfold pSummarize
  rcases hpost with ⟨hdone, hf, hres⟩ | ⟨hdone, rfl, dc', hdc', hcm, rfl⟩
  · rcases hf with rfl | ⟨v, e, rfl⟩ <;> simpa [hdone, pure, Except.pure] using hres
  · have := sumTail_run c fuel pipe.span kw.span kw pipe (pSummarizeCols c fuel (ts.length + 1) [] none ts).val.cols dc' hdc'
      (pSummarizeCols c fuel (ts.length + 1) [] none ts).rest
    simp only [hdone, Bool.false_eq_true, if_false]
    rw [this, hcm]
    rcases (pSummarizeCols c fuel (ts.length + 1) [] none ts).rest with _ | ⟨sep, rest⟩ <;> rfl

/-- **summarizeOperator**: the model's production is the interpretation of the regenerated body -/
theorem C07_summarizeOperator_ir (c : PCtx) (fuel : Nat) (pipe kw : Token) (ts : List Token) :
    (runOp c (bodyOf "summarizeOperator") fuel pipe kw ts).map some =
      .ok (pOperator c (fuel + 1) pipe.span (kwTok "summarize" kw) ts) := by
  simp only [bodyOf, summarizeOperator_ir, Option.map_some, Option.getD_some, summarizeOperator_run, pOperator_summarize]
  rfl

end Pql.OpIR
