/-
THE HEADLINE PROPERTIES ON THE INTERPRETATIONS OF THE TRANSLATED GO CODE — part B: the compiler
(C04 – C06).  See Props/IRHeadlinesA.lean for the conventions.

NEW SPEC-LEVEL DEFINITION
`runParamsIR` : `E2EMore.runParams` with the interpretation of the translated `Compile` in place of the
                model's `compile` (compile with the parameters, read the text back, give the placeholders
                their values, evaluate).
-/
import PqlModel.Props.IRHeadlinesA
import PqlModel.Props.C04Numbers
import PqlModel.Props.C05LexStatement
namespace Pql.IRHead
open Pql Sql CompileOracle Intended Pql.ParsedOK Pql.E2E Pql.RT JoinFull
set_option linter.unusedSimpArgs false

local notation "ParseIR(" src ")" => OpIR.runParse (List.length src) (scan src) (OpIR.bodyOf "Parse")
local notation "CompileIR(" opts ", " src ")" => ExprIR.interpCompile List.reverse opts src

/-! ## C04 — contents are data -/

/-- **C04 (strings and names decode) on the translated `quoteSQLString` / `quoteIdentifier`.**  For every
    byte string `v`: the interpretation of the regenerated body returns normally, and the SQL lexer reads
    the bytes it wrote back as exactly `v` and continues right after them (standard quoting rules). -/
theorem C04_decode_ir (v : Bytes) :
    (∃ cs, WriteIR.interpQuote "quoteSQLString" "s" v = .ok cs ∧
      ∀ rest : Bytes, rest.head? ≠ some 39 →
        lexQuoted .standard 39 ((renderChunks cs).tail ++ rest) = some (v, rest)) ∧
    (∃ cs, WriteIR.interpQuote "quoteIdentifier" "name" v = .ok cs ∧
      ∀ rest : Bytes, rest.head? ≠ some 34 →
        lexQuoted .standard 34 ((renderChunks cs).tail ++ rest) = some (v, rest)) := by
  obtain ⟨cs1, h1, e1⟩ := NoPanic.ok_of_map_ok (WriteIR.C05_quoteSQLString_ir v)
  obtain ⟨cs2, h2, e2⟩ := NoPanic.ok_of_map_ok (WriteIR.C05_quoteIdentifier_ir v)
  exact ⟨⟨cs1, h1, fun rest hr => by rw [e1]; exact C04.C04_decode_string v rest hr⟩,
    ⟨cs2, h2, fun rest hr => by rw [e2]; exact C04.C04_decode_identifier v rest hr⟩⟩

mutual
theorem good_mapE (φ : CMap) : (e : Expr) → e.Good → (mapE φ e).Good
  | .nil, h => by simp [Expr.Good] at h
  | .qident _, _ => by simp [mapE, Expr.Good]
  | .lit .., _ => by simp [mapE, Expr.Good]
  | .unary _ _ x, h => by
    simp only [Expr.Good] at h
    simp only [mapE, Expr.Good]
    exact good_mapE φ x h
  | .binary x _ _ y, h => by
    simp only [Expr.Good] at h
    simp only [mapE, Expr.Good]
    exact ⟨good_mapE φ x h.1, good_mapE φ y h.2⟩
  | .inE x _ _ vals _, h => by
    simp only [Expr.Good] at h
    simp only [mapE, Expr.Good]
    exact ⟨good_mapE φ x h.1, good_mapL φ vals h.2⟩
  | .paren _ x _, h => by
    simp only [Expr.Good] at h
    simp only [mapE, Expr.Good]
    exact good_mapE φ x h
  | .call _ _ args _, h => by
    simp only [Expr.Good] at h
    simp only [mapE, Expr.Good]
    exact good_mapL φ args h
  | .index x _ idx _, h => by
    simp only [Expr.Good] at h
    simp only [mapE, Expr.Good]
    exact ⟨good_mapE φ x h.1, good_mapE φ idx h.2⟩
theorem good_mapL (φ : CMap) : (es : ExprList) → es.Good → (mapL φ es).Good
  | .nil, _ => by simp [mapL, ExprList.Good]
  | .cons e es, h => by
    simp only [ExprList.Good] at h
    simp only [mapL, ExprList.Good]
    exact ⟨good_mapE φ e h.1, good_mapL φ es h.2⟩
end

/-- **C04 (contents are data) on the translated `writeExpression`.**  For any content map `φ` (string
    contents, number texts, inert names, positions) — any scope mapped alike, any two sources: the
    interpretation of the regenerated `writeExpression` on the mapped expression returns the chunks it
    returns on the original with the contents mapped in place, and fails the same way when it fails.
    `hg` is the side condition of `C01_writeExpression_ir` (join mode: no nil sub-expression — true of every
    parsed tree; needed for THAT equality, `ExprIR.C01_writeExpression_ir_needs_good`). -/
theorem C04_content_parametric_ir (φ : CMap) (src src' : Bytes) (s : Scope) (m : Mode) (e : Expr)
    (hi : inertE s m φ e = true) (hg : m = .join → e.Good) :
    ExprIR.interpWriteExpression ⟨src', C04.mapScope φ s, m⟩ (mapE φ e) =
      (ExprIR.interpWriteExpression ⟨src, s, m⟩ e).map (List.map (Chunk.mapC φ)) := by
  rw [ExprIR.C01_writeExpression_ir ⟨src', C04.mapScope φ s, m⟩ (mapE φ e) (fun h => good_mapE φ e (hg h)),
    ExprIR.C01_writeExpression_ir ⟨src, s, m⟩ e hg, C04.C04_content_parametric φ src src' s m e hi,
    ExprIR.liftW_map]

/-- string contents in particular (no side condition outside join mode) -/
theorem C04_string_shape_ir (ctx : Ctx) (f : Bytes → Bytes) (e : Expr) (hg : ctx.mode = .join → e.Good) :
    (ExprIR.interpWriteExpression ctx (C04.mapStr f e)).map (List.map Chunk.shape) =
      (ExprIR.interpWriteExpression ctx e).map (List.map Chunk.shape) := by
  rw [ExprIR.C01_writeExpression_ir ctx e hg,
    ExprIR.C01_writeExpression_ir ctx (C04.mapStr f e) (fun h => by rw [C04.mapStr_eq]; exact good_mapE _ e (hg h)),
    ExprIR.liftW_map, ExprIR.liftW_map, C04.C04_string_shape]

/-- **C04 (numbers end to end) on the loop around the translated switch of `Scan`.**  Every number token
    the loop (`scanIR`: the interpretation of the regenerated switch, iterated) returns is read by the SQL
    lexer as exactly one number token with that text, whose value is the value of the source lexeme. -/
theorem C04_number_token_roundtrip_ir (src : Bytes) (ts : List Token) (h : scanIR src = some ts)
    (t : Token) (ht : t ∈ ts) (hk : t.kind = .number) :
    Sql.lex .standard t.value = some [.num t.value] ∧
    ∃ q : Rat, Glue.sqlNumValue t.value = some q ∧ C09.spellingValue (src.extract t.start t.stop) = some q := by
  rw [scanIR_eq] at h
  injection h with h
  subst h
  exact Glue.C04_number_token_roundtrip src t ht hk

/-- **C04 (numbers end to end, tree level) on the translated `Parse`.**  If the interpretation of `Parse`
    returns `stmts` without error, every number literal node of the program — at any depth below any
    operator argument, column, sort term, join condition or `let` value — is `NumLitOK`: the text the compiler
    writes for it is ONE SQL number token whose value is the value of the source text at the node's span. -/
theorem C04_number_literal_roundtrip_ir (src : Bytes) (stmts : List Stmt) (hp : ParseIR(src) = .ok (stmts, [])) :
    ∀ s ∈ stmts, StmtAll (Glue.NumLitsOK src) (fun l => ∀ e ∈ l.toList, Glue.NumLitsOK src e) s :=
  Glue.C04_number_literal_roundtrip src stmts ((parse_ir_iff src _).1 hp)

/-- non-vacuity of `C04_content_parametric_ir` in join mode: `f($left.x, -(y)) == $right.x`, string contents
    mapped by any `f` -/
theorem C04_content_parametric_ir_nonvacuous (f : Bytes → Bytes) :
    inertE [] .join (.ofStr f) Glue.sample = true ∧ ((Mode.join = .join) → Glue.sample.Good) :=
  ⟨inertE_of_fn_id (fun _ => rfl) _ _ _, fun _ => Glue.sample_good⟩

/-- **C04 / C06 / C14 (parameter texts are pasted verbatim) on the translated `Compile`.**  Passing every
    parameter text through any `f`: the interpretation errs iff it erred before, and when it returns SQL both
    results are renderings of ONE chunk list, the raw parameter texts being the only difference. -/
theorem C04_params_verbatim_ir (params : List (Bytes × Bytes)) (f : Bytes → Bytes) (src : Bytes) :
    (CompileIR(some params, src) = .error (.go .err) ↔
      CompileIR(some (params.map fun kv => (kv.1, f kv.2)), src) = .error (.go .err)) ∧
    ∀ sql, CompileIR(some params, src) = .ok sql →
      ∃ cs, sql = Params.renderWith id cs ∧
        CompileIR(some (params.map fun kv => (kv.1, f kv.2)), src) = .ok (Params.renderWith f cs) := by
  obtain ⟨h1, _, h3⟩ := Params.C06_compile_params_verbatim params f src
  refine ⟨?_, fun sql hs => ?_⟩
  · rw [compile_ir_err_iff, compile_ir_err_iff]; exact h1
  · obtain ⟨cs, _, h5, h6⟩ := h3 sql ((compile_ir_ok_iff _ src sql).1 hs)
    exact ⟨cs, h5, (compile_ir_ok_iff _ src _).2 h6⟩

/-- **C04 on translated code.** -/
theorem C04_on_translated_code :
    -- quoting decodes
    (∀ v : Bytes, ∃ cs, WriteIR.interpQuote "quoteSQLString" "s" v = .ok cs ∧
      ∀ rest : Bytes, rest.head? ≠ some 39 →
        lexQuoted .standard 39 ((renderChunks cs).tail ++ rest) = some (v, rest)) ∧
    (∀ v : Bytes, ∃ cs, WriteIR.interpQuote "quoteIdentifier" "name" v = .ok cs ∧
      ∀ rest : Bytes, rest.head? ≠ some 34 →
        lexQuoted .standard 34 ((renderChunks cs).tail ++ rest) = some (v, rest)) ∧
    -- contents never change the structure of what the expression writer emits
    (∀ (φ : CMap) (src src' : Bytes) (s : Scope) (m : Mode) (e : Expr), inertE s m φ e = true → (m = .join → e.Good) →
      ExprIR.interpWriteExpression ⟨src', C04.mapScope φ s, m⟩ (mapE φ e) =
        (ExprIR.interpWriteExpression ⟨src, s, m⟩ e).map (List.map (Chunk.mapC φ))) ∧
    -- numbers
    (∀ (src : Bytes) (ts : List Token), scanIR src = some ts → ∀ t ∈ ts, t.kind = .number →
      Sql.lex .standard t.value = some [.num t.value] ∧
      ∃ q : Rat, Glue.sqlNumValue t.value = some q ∧ C09.spellingValue (src.extract t.start t.stop) = some q) :=
  ⟨fun v => (C04_decode_ir v).1, fun v => (C04_decode_ir v).2, C04_content_parametric_ir,
   fun src ts h t ht hk => C04_number_token_roundtrip_ir src ts h t ht hk⟩

/-! ## C05 — one well-formed statement -/

/-- **C05 (the output is one statement; no comment, nothing unterminated) on the translated `Parse` and
    `Compile`.**  For every source that the interpretation of `Parse` reads without error as a K4-free
    program (any number of lets, a query) and the interpretation of `Compile` turns into `sql`: the SQL lexer
    that KEEPS comments reads `sql` completely, no token is a comment, the last token is the symbol `;` and
    no other token is.  (`k4Free`: finding K4; needed, `ParsedOK.k4Free_needed`.) -/
theorem C05_single_statement_ir (src sql : Bytes) (stmts : List Stmt)
    (hp : ParseIR(src) = .ok (stmts, [])) (hc : CompileIR(none, src) = .ok sql) (hk : k4Free stmts = true) :
    ∃ pre, lexRaw .standard sql = some (pre ++ [STok.sym ";"]) ∧
      Sql.lex .standard sql = some (pre ++ [STok.sym ";"]) ∧
      STok.sym ";" ∉ pre ∧ STok.comment ∉ pre := by
  have hp' := (parse_ir_iff src _).1 hp
  have hc' := (compile_ir_ok_iff none src sql).1 hc
  have hlex := parsed_lexOK_k4 src stmts hp' hk
  obtain ⟨cs, hcs, rfl⟩ := compile_ok_chunks src sql stmts hp' hc'
  obtain ⟨pre, h1, h2⟩ := C05.C05_single_semicolon_program src stmts cs hlex hcs
  have hk' : k4Free (parse src).1 = true := by rw [hp']; exact hk
  obtain ⟨cs', hcs', _, h3, h4⟩ := WriteInv.C05_no_comment_source_k4 src _ hk' hc'
  rw [hp', hcs] at hcs'
  cases hcs'
  refine ⟨pre, by rw [h3, h1], by rw [C05.C05_lexRender_program src stmts cs hlex hcs, h1], h2, fun hm => h4 ?_⟩
  rw [h1]
  exact List.mem_append_left _ hm

/-- **C05 (no internal placeholder) on the translated `Compile`.**  For EVERY source and EVERY options
    value: if the interpretation returns SQL, that SQL is the rendering of the chunk list of the program,
    none of whose fixed texts contains `/*` (no `NULL /* unhandled … */`, no
    `SELECT NULL /* unsupported operator */`). -/
theorem C05_no_placeholder_ir (opts : Option (List (Bytes × Bytes))) (src sql : Bytes)
    (h : CompileIR(opts, src) = .ok sql) :
    ∃ cs, compileChunks src (opts.getD []) (parse src).1 = .ok cs ∧ sql = renderChunks cs ∧
      WriteInv.hasPlaceholder cs = false :=
  WriteInv.C05_no_placeholder_source (opts.getD []) src sql ((compile_ir_ok_iff opts src sql).1 h)

/-- **C05 / C13 (a result ends in one `;`) on the translated `Compile`**: every options value -/
theorem C05_ends_with_semicolon_ir (opts : Option (List (Bytes × Bytes))) (src sql : Bytes)
    (h : CompileIR(opts, src) = .ok sql) : sql ≠ [] ∧ sql.getLast? = some 59 :=
  C13.C13_either (opts.getD []) src sql ((compile_ir_ok_iff opts src sql).1 h)

/-- **C05 on translated code.**  For a K4-free single query that the interpretations of `Parse` and
    `Compile` accept: the text lexes (comments kept) without comment and with exactly one `;`, the last token;
    the reference SQL parser reads it as the INTENDED statement `[WITH name AS (select), …] select` (up to
    `normS`); no placeholder; non-empty and ending in `;`. -/
theorem C05_on_translated_code (src sql : Bytes) (t : Tabular)
    (hp : ParseIR(src) = .ok ([.tabular t], [])) (hc : CompileIR(none, src) = .ok sql)
    (hk : k4Free [.tabular t] = true) :
    (∃ pre, lexRaw .standard sql = some (pre ++ [STok.sym ";"]) ∧ STok.sym ";" ∉ pre ∧ STok.comment ∉ pre) ∧
    (∃ cs st want, sql = renderChunks cs ∧ Sql.lex .standard sql = some (toksOf cs) ∧
      parseStatement (toksOf cs) = some st ∧ intended src [.tabular t] = some want ∧ statementEq st want = true ∧
      WriteInv.hasPlaceholder cs = false) ∧
    sql ≠ [] ∧ sql.getLast? = some 59 := by
  have hp' := (parse_ir_iff src _).1 hp
  have hc' := (compile_ir_ok_iff none src sql).1 hc
  obtain ⟨pre, h1, _, h3, h4⟩ := C05_single_statement_ir src sql _ hp hc hk
  refine ⟨⟨pre, h1, h3, h4⟩, ?_, C05_ends_with_semicolon_ir none src sql hc⟩
  obtain ⟨cs, hcs, hsql⟩ := compile_ok_chunks src sql _ hp' hc'
  have hok := parsed_tabularOK src sql _ hp' hc' hk t (by simp)
  obtain ⟨st, want, h5, h6, h7⟩ := C05.C05_parse_statement src t cs hok hcs
  obtain ⟨cs', hcs', _, h8⟩ := WriteInv.C05_no_placeholder_source [] src sql hc'
  rw [hp', hcs] at hcs'
  cases hcs'
  refine ⟨cs, st, want, hsql, ?_, h5, h6, h7, h8⟩
  rw [hsql]
  exact C05.C05_lexRender_program src _ cs (parsed_lexOK_k4 src _ hp' hk) hcs

/-- non-vacuity: `T | where a > 10 | sort by a desc | take 2` parses, compiles and is K4-free -/
theorem C05_on_translated_code_nonvacuous : E2EFinal.bytesHyps E2EFinal.Ex.exWhere = true :=
  E2EFinal.Ex.ex_hyps.1

/-! ## C06 — let bindings and parameters -/

/-- **C06 (a bound name is its value; quoted names are never substituted) on the translated
    `writeExpression`**, every context -/
theorem C06_lookup_ir (ctx : Ctx) (name : Bytes) (sp : Span) :
    (∀ v, lookupScope ctx.scope name = some v →
      ExprIR.interpWriteExpression ctx (.qident [⟨name, sp, false⟩]) = .ok v) ∧
    (ctx.mode ≠ .let_ → ExprIR.interpWriteExpression ctx (.qident [⟨name, sp, true⟩]) = .ok [.qid name]) := by
  constructor
  · intro v h
    rw [ExprIR.C01_writeExpression_ir ctx _ (fun _ => by simp [Expr.Good]), C06.C06_bound_substituted ctx name sp v h]
    rfl
  · intro h
    rw [ExprIR.C01_writeExpression_ir ctx _ (fun _ => by simp [Expr.Good]), C06.C06_quoted_not_substituted ctx name sp h]
    rfl

/-- compile with the TRANSLATED `Compile` and the parameters, read the text back, give the placeholders
    their values, evaluate -/
def runParamsIR (src : Bytes) (params : List (Bytes × Bytes)) (ρ : Bytes → E2EMore.PVal) (db : DB) : Option Table :=
  match CompileIR(some params, src) with
  | .ok sql => (readSql sql).map fun st => evalStatement db (E2EMore.instStatement ρ st)
  | .error _ => none

theorem runParamsIR_eq : runParamsIR = E2EMore.runParams := by
  funext src params ρ db
  unfold runParamsIR E2EMore.runParams
  rw [ExprIR.C06_compile_ir]
  show (match ExprIR.resultM (compile params src) with | .ok sql => _ | .error _ => _) = _
  cases compile params src <;> rfl

/-- **C06 (parameters are let-bound constants, end to end) on the translated `Parse` and `Compile`.**
    `params` binds names to placeholder texts (`$1`, `{kk:Int32}`, `?`), `ρ` gives every placeholder its
    value.  Under the decidable hypotheses `E2EMore.phHyps` (one Boolean; the side conditions of the
    end-to-end theorem for the program with `let p = value` in front): compiling with the interpretation,
    reading the text back, instantiating the placeholders and evaluating is the meaning
    (`Rel.interpProgram`) of `let p = ρ text; …` followed by the statements the interpretation of `Parse`
    returns. -/
theorem C06_placeholder_params_ir (src : Bytes) (params : List (Bytes × Bytes)) (ρ : Bytes → E2EMore.PVal)
    (h : E2EMore.phHyps src params ρ = true) :
    ∃ stmts, ParseIR(src) = .ok (stmts, []) ∧
      ∀ db, RectDB db → (runParamsIR src params ρ db).isSome = true ∧
        runParamsIR src params ρ db = Rel.interpProgram src db (E2EMore.pletsOf ρ params ++ stmts) := by
  have hp : (parse src).2 = [] := by
    simp only [E2EMore.phHyps, Bool.and_eq_true] at h
    have hb := h.2
    unfold E2EMore.phBase at hb
    split at hb
    · rename_i stmts sql hp _; rw [hp]
    · cases hb
  refine ⟨(parse src).1, ?_, ?_⟩
  · rw [OpIR.C07_Parse_ir, ← hp]
  · rw [runParamsIR_eq]
    exact E2EMore.C06_placeholder_params_run src params ρ h

/-- non-vacuity: `let m = lim; T | where a >= m and k != kk | project k, a, nm | take 2` with
    `lim ↦ $1`, `kk ↦ {kk:Int32}`, `nm ↦ ?` satisfies the hypotheses -/
theorem C06_placeholder_params_ir_nonvacuous :
    E2EMore.phHyps E2EMore.PhEx.exSrc E2EMore.PhEx.exParams E2EMore.PhEx.exRho = true :=
  E2EMore.PhEx.ex_hyps

/-- **C06 on translated code.**  (a) lets: the end-to-end theorem for programs with `let` statements — the
    SQL the interpretation of `Compile` returns means the query with the lets RESOLVED
    (`substTabular (letsEnv lets [])`: later lets shadow earlier ones, a let value sees the lets before it),
    which is `Rel.interpProgram` of the program; (b) names: a bound name is its value, a quoted name is never
    substituted; (c) parameters are pasted verbatim. -/
theorem C06_on_translated_code :
    (∀ (src sql : Bytes) (lets : List Stmt) (t : Tabular),
      ParseIR(src) = .ok (lets ++ [.tabular t], []) → CompileIR(none, src) = .ok sql →
      k4Free (lets ++ [.tabular t]) = true → IsLets lets → envJoinSafe (letsEnv lets []) = true → tabNamed t →
      namesOk (substTabular (letsEnv lets []) t) = true → tabOpsOk (substTabular (letsEnv lets []) t) = true →
      ∃ st, readSql sql = some st ∧ ∀ db, RectDB db →
        evalStatement db st = Rel.interp src db (substTabular (letsEnv lets []) t) ∧
        Rel.interpProgram src db (lets ++ [.tabular t]) =
          some (Rel.interp src db (substTabular (letsEnv lets []) t))) ∧
    (∀ (ctx : Ctx) (name : Bytes) (sp : Span) (v : List Chunk), lookupScope ctx.scope name = some v →
      ExprIR.interpWriteExpression ctx (.qident [⟨name, sp, false⟩]) = .ok v) ∧
    (∀ (ctx : Ctx) (name : Bytes) (sp : Span), ctx.mode ≠ .let_ →
      ExprIR.interpWriteExpression ctx (.qident [⟨name, sp, true⟩]) = .ok [.qid name]) ∧
    (∀ (params : List (Bytes × Bytes)) (f : Bytes → Bytes) (src sql : Bytes),
      CompileIR(some params, src) = .ok sql →
      ∃ cs, sql = Params.renderWith id cs ∧
        CompileIR(some (params.map fun kv => (kv.1, f kv.2)), src) = .ok (Params.renderWith f cs)) := by
  refine ⟨?_, fun ctx name sp v h => (C06_lookup_ir ctx name sp).1 v h, fun ctx name sp h => (C06_lookup_ir ctx name sp).2 h,
    fun params f src sql h => (C04_params_verbatim_ir params f src).2 sql h⟩
  intro src sql lets t hp hc hk hl hjs hN hnames hops
  obtain ⟨st, _, h1, _, _, _, h2⟩ := C02_end_to_end_program_bytes_ir src sql lets t hp hc hk hl hjs hN hnames hops
  exact ⟨st, h1, fun db hdb => ⟨(h2 db hdb).1, (h2 db hdb).2.2⟩⟩

end Pql.IRHead
