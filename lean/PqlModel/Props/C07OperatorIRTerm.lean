/-
Property C07 (also C02: the sort flags and the row-count check reach the emitted SQL), tie by translation:
`(*parser).sortTerm` and `(*parser).rowCount` of parser/parser.go — FULL bodies.

`harness/extract_parse.go` regenerates both bodies into `Facts.parseIR` (units "sortTerm", "rowCount"; the
shapes that were new: a `switch` without a tag, a `switch` with an initialiser, the comma-ok type assertion
`lit, ok := x.(*BasicLit)`, the condition `lit.IsInteger()`); `Model/ParseIR.lean` interprets them; `expr`
stays a primitive meaning the model's `pExpr` (`calleeAt`).

  `sortTerm_ir`, `rowCount_ir`      the regenerated IR decodes to the trees written here (by `rfl`);
  `C07_sortTerm_ir`                 interpretation of the regenerated body = `pSortTerm c fuel ts`;
  `C07_rowCount_ir`                 interpretation of the regenerated body = `pRowCount c fuel ts`,
for every context, fuel and token list, hypothesis-free (no panic, nothing stuck).

Composition.  In `calleeAt` (Props/C07OperatorIR.lean) a call of `sortTerm` / `rowCount` from `sortOperator`,
`takeOperator`, `topOperator` means the model's `pSortTerm` / `pRowCount`.  `calleeIR` is the same table with
these two entries INTERPRETED from their own regenerated units; `C07_calleeIR_eq` proves the two tables equal,
so every delivered `C07_<method>_ir` theorem holds verbatim with the two productions run from their IR
(`C07_sortOperator_ir_composed`, `C07_takeOperator_ir_composed`, `C07_topOperator_ir_composed`).
-/
import PqlModel.Props.C07OperatorIRSort
import PqlModel.Props.C07OperatorIRLet
namespace Pql.OpIR
open Pql
set_option linter.unusedSimpArgs false

/-! ### the expected trees -/

def sortTermBody : List IStmt :=
  [.call "p" "expr" [.def_ "x", .def_ "err"] [],
    .ite
      (.ne (.var "err") (.nil))
      [.ret [.nil, .var "err"]]
      [],
    .assign
      (.def_ "term")
      (.withFld
        (.withFld
          (.withFld (.new "SortTerm") "X" (.var "x"))
          "AscDescSpan"
          (.nullSpan))
        "NullsSpan"
        (.nullSpan)),
    .call "p" "next" [.def_ "tok", .def_ "ok"] [],
    .ite
      (.not (.truth (.var "ok")))
      [.ret [.var "term", .nil]]
      [],
    .ite
      (.eq
        (.fld "Kind" (.var "tok"))
        (.kind "TokenIdentifier"))
      [.ite
         (.eq (.fld "Value" (.var "tok")) (.str "asc"))
         [.assign (.fset "term" "Asc") (.bool true),
          .assign
            (.fset "term" "AscDescSpan")
            (.fld "Span" (.var "tok")),
          .assign (.fset "term" "NullsFirst") (.bool true)]
         [.ite
            (.eq
              (.fld "Value" (.var "tok"))
              (.str "desc"))
            [.assign (.fset "term" "Asc") (.bool false),
             .assign
               (.fset "term" "AscDescSpan")
               (.fld "Span" (.var "tok")),
             .assign (.fset "term" "NullsFirst") (.bool false)]
            [.ite
               (.eq
                 (.fld "Value" (.var "tok"))
                 (.str "nulls"))
               [.prev "p"]
               [.prev "p", .ret [.var "term", .nil]]]]]
      [.prev "p", .ret [.var "term", .nil]],
    .call "p" "next" [.set "tok", .set "ok"] [],
    .ite
      (.not (.truth (.var "ok")))
      [.ret [.var "term", .nil]]
      [],
    .ite
      (.and
        (.eq
          (.fld "Kind" (.var "tok"))
          (.kind "TokenIdentifier"))
        (.eq (.fld "Value" (.var "tok")) (.str "nulls")))
      [.scope
         [.call "p" "next" [.def_ "tok2", .blank] [],
          .ite
            (.and
              (.eq
                (.fld "Kind" (.var "tok2"))
                (.kind "TokenIdentifier"))
              (.eq
                (.fld "Value" (.var "tok2"))
                (.str "first")))
            [.assign (.fset "term" "NullsFirst") (.bool true),
             .assign
               (.fset "term" "NullsSpan")
               (.newSpan
                 (.fld "Start" (.fld "Span" (.var "tok")))
                 (.fld "End" (.fld "Span" (.var "tok2"))))]
            [.ite
               (.and
                 (.eq
                   (.fld "Kind" (.var "tok2"))
                   (.kind "TokenIdentifier"))
                 (.eq
                   (.fld "Value" (.var "tok2"))
                   (.str "last")))
               [.assign (.fset "term" "NullsFirst") (.bool false),
                .assign
                  (.fset "term" "NullsSpan")
                  (.newSpan
                    (.fld "Start" (.fld "Span" (.var "tok")))
                    (.fld "End" (.fld "Span" (.var "tok2"))))]
               [.prev "p",
                .ret
                  [.var "term",
                   .perr "p" false (.fld "Span" (.var "tok2"))]]]]]
      [.prev "p", .ret [.var "term", .nil]],
    .ret [.var "term", .nil]]

theorem sortTerm_ir : unitOf "sortTerm" = some ⟨[("p", "*parser")], ["*SortTerm", "error"], sortTermBody⟩ := by rfl

def rowCountBody : List IStmt :=
  [.call "p" "expr" [.def_ "x", .def_ "err"] [],
    .ite
      (.ne (.var "err") (.nil))
      [.ret [.var "x", .var "err"]]
      [],
    .scope
      [.asType
         "BasicLit"
         [.def_ "lit", .def_ "ok"]
         (.var "x"),
       .ite
         (.truth (.var "ok"))
         [.ite
            (.not (.isInteger (.var "lit")))
            [.ret [.var "x", .errNoPos]]
            []]
         []],
    .ret [.var "x", .nil]]

theorem rowCount_ir : unitOf "rowCount" = some ⟨[("p", "*parser")], ["Expr", "error"], rowCountBody⟩ := by rfl

/-! ### reading a `*SortTerm` back from the heap -/

def toStermH (h : List Rec) : Val → Option (Option SortTerm)
  | .sterm t => some t
  | .nil => some none
  | .ref a =>
    match h[a]? with
    | some ⟨ty, [(_, x), (_, .bool asc), (_, .span ad), (_, .bool nf), (_, .span ns)]⟩ =>
      if ty == "SortTerm" then (toExpr x).map fun x => some ⟨x, asc, ad, nf, ns⟩ else none
    | _ => none
  | _ => none

theorem newRec_sortTerm : newRec "SortTerm" =
    some ⟨"SortTerm", [("X", .expr .nil), ("Asc", .bool false), ("AscDescSpan", .span .zero), ("NullsFirst", .bool false),
      ("NullsSpan", .span .zero)]⟩ := by rfl

/-! ### rowCount -/

theorem rowCount_run (c : PCtx) (fuel : Nat) (ts : List Token) :
    runP (fun _ => toExpr) "x" c rowCountBody fuel ts = .ok (pRowCount c fuel ts) := by
  unfold rowCountBody pRowCount runP
  generalize hr : pExpr c fuel ts = r
  obtain ⟨val, errs, rest⟩ := r
  cases errs with
  | cons e es => ir_simp [hr]
  | nil =>
    cases val with
    | lit s k v =>
      by_cases hi : litIsInteger k v = true
      · ir_simp [hr, hi]
      · ir_simp [hr, hi]
    | _ => ir_simp [hr]

/-- **rowCount**: the model's `pRowCount` is the interpretation of the regenerated body -/
theorem C07_rowCount_ir (c : PCtx) (fuel : Nat) (ts : List Token) :
    runP (fun _ => toExpr) "x" c (bodyOf "rowCount") fuel ts = .ok (pRowCount c fuel ts) := by
  simp only [bodyOf, rowCount_ir, Option.map_some, Option.getD_some, rowCount_run]

/-! ### sortTerm -/

set_option hygiene false in
macro "st_simp" : tactic =>
  `(tactic| simp (config := { decide := true }) [*, runP, result_ret, result_fuel, run, entry, envAt, execBlock, exec, eval, evalCond,
      evalAll, assignTo, assignAll, callMethod, calleeAt, St.get, St.declare, St.assign, St.leave, St.parser, St.setFld, assignIn,
      setField, getField, fieldOf, tokField, valEq, isNilVal, asErrs, asSpan, asInt, asBool, optM, toExpr, stuck, goPanic, bind,
      Except.bind, pure, Except.pure, Except.map, toStermH, newRec_sortTerm, kind_ident, eofTok, isIdentNamed, Token.span,
      PCtx.eof, Span.index, errAt])

-- the token after `nulls`
set_option hygiene false in
macro "st_nulls" : tactic =>
  `(tactic| (by_cases hk2 : t2.kind = .ident
             · by_cases hf : t2.value = Bytes.ofString "first"
               · st_simp
               · by_cases hl : t2.value = Bytes.ofString "last" <;> st_simp
             · st_simp))

-- the `nulls first` / `nulls last` clause after `asc` / `desc`
set_option hygiene false in
macro "st_phase2" : tactic =>
  `(tactic| (rcases rest1 with _ | ⟨u, rest2⟩
             · st_simp
             · by_cases hku : u.kind = .ident
               · by_cases hu : u.value = Bytes.ofString "nulls"
                 · rcases rest2 with _ | ⟨t2, rest3⟩
                   · st_simp
                   · st_nulls
                 · st_simp
               · st_simp))

theorem sortTerm_run (c : PCtx) (fuel : Nat) (ts : List Token) :
    runP toStermH "term" c sortTermBody fuel ts = .ok (pSortTerm c fuel ts) := by
  unfold sortTermBody pSortTerm
  generalize hr : pExpr c fuel ts = r
  obtain ⟨val, errs, rest⟩ := r
  cases errs with
  | cons e es => st_simp
  | nil =>
    rcases rest with _ | ⟨t, rest1⟩
    · st_simp
    · by_cases hk : t.kind = .ident
      · by_cases h1 : t.value = Bytes.ofString "asc"
        · st_phase2
        · by_cases h2 : t.value = Bytes.ofString "desc"
          · st_phase2
          · by_cases h3 : t.value = Bytes.ofString "nulls"
            · rcases rest1 with _ | ⟨t2, rest2⟩
              · st_simp
              · st_nulls
            · st_simp
      · st_simp

/-- **sortTerm**: the model's `pSortTerm` is the interpretation of the regenerated body -/
theorem C07_sortTerm_ir (c : PCtx) (fuel : Nat) (ts : List Token) :
    runP toStermH "term" c (bodyOf "sortTerm") fuel ts = .ok (pSortTerm c fuel ts) := by
  simp only [bodyOf, sortTerm_ir, Option.map_some, Option.getD_some, sortTerm_run]

/-! ### composition: the callers of `sortTerm` / `rowCount` with the two productions run from their IR -/

/-- `calleeAt` with `sortTerm` and `rowCount` INTERPRETED from their own regenerated units (an interpretation
    that panics or is stuck gives `none`, which makes the calling statement stuck) -/
def calleeIR (c : PCtx) (fuel : Nat) (m : String) (args : List Val) (ts : List Token) : Option (List Val × List Token) :=
  match args with
  | [] =>
    if m == "sortTerm" then
      match runP toStermH "term" c (bodyOf "sortTerm") fuel ts with
      | .ok r => some ([.sterm r.val, .errs r.errs], r.rest)
      | .error _ => none
    else if m == "rowCount" then
      match runP (fun _ => toExpr) "x" c (bodyOf "rowCount") fuel ts with
      | .ok r => some ([.expr r.val, .errs r.errs], r.rest)
      | .error _ => none
    else calleeAt c fuel m [] ts
  | _ => calleeAt c fuel m args ts

/-- the two tables of callee meanings are the same function -/
theorem C07_calleeIR_eq (c : PCtx) : calleeIR c = calleeAt c := by
  funext fuel m args ts
  unfold calleeIR
  cases args with
  | cons a as => rfl
  | nil =>
    by_cases h1 : m = "sortTerm"
    · subst h1
      simp [C07_sortTerm_ir, calleeAt]
    · by_cases h2 : m = "rowCount"
      · subst h2
        simp [C07_rowCount_ir, calleeAt]
      · simp [h1, h2]

/-- the interpretation environment in which `sortTerm` and `rowCount` are run from their regenerated bodies -/
def envIR (c : PCtx) : Env := { c := c, callee := calleeIR c }

theorem envIR_eq (c : PCtx) : envIR c = envAt c := by
  simp [envIR, envAt, C07_calleeIR_eq]

/-- the interpretation of an operator method with `sortTerm` / `rowCount` run from their IR -/
def runOpIR (c : PCtx) (body : List IStmt) (fuel : Nat) (pipe kw : Token) (ts : List Token) : M (PRes Op) :=
  result toOp "op" none (run (envIR c) body fuel (opParams ts pipe kw))

theorem runOpIR_eq (c : PCtx) : runOpIR c = runOp c := by
  funext body fuel pipe kw ts
  simp [runOpIR, runOp, envIR_eq]

/-- **sortOperator ∘ sortTerm**: translated code down to `expr` -/
theorem C07_sortOperator_ir_composed (c : PCtx) (fuel : Nat) (pipe kw : Token) (ts : List Token) :
    (runOpIR c (bodyOf "sortOperator") fuel pipe kw ts).map some =
      .ok (pOperator c (fuel + 1) pipe.span (kwTok "sort" kw) ts) := by
  rw [runOpIR_eq]; exact C07_sortOperator_ir c fuel pipe kw ts

/-- **takeOperator ∘ rowCount** -/
theorem C07_takeOperator_ir_composed (c : PCtx) (fuel : Nat) (pipe kw : Token) (ts : List Token) :
    (runOpIR c (bodyOf "takeOperator") fuel pipe kw ts).map some =
      .ok (pOperator c (fuel + 1) pipe.span (kwTok "take" kw) ts) := by
  rw [runOpIR_eq]; exact C07_takeOperator_ir c fuel pipe kw ts

/-- **topOperator ∘ rowCount, sortTerm** -/
theorem C07_topOperator_ir_composed (c : PCtx) (fuel : Nat) (pipe kw : Token) (ts : List Token) :
    (runOpIR c (bodyOf "topOperator") fuel pipe kw ts).map some =
      .ok (pOperator c (fuel + 1) pipe.span (kwTok "top" kw) ts) := by
  rw [runOpIR_eq]; exact C07_topOperator_ir c fuel pipe kw ts

/-! ### an example (the interpretation is not vacuous) -/

/-- the tokens of `x desc nulls first`, `expr` being the model's: the regenerated body of `sortTerm` yields the
    term with both clauses -/
example :
    (runP toStermH "term" ⟨18⟩ (bodyOf "sortTerm") 8
        [⟨.ident, 0, 1, Bytes.ofString "x"⟩, ⟨.ident, 2, 6, Bytes.ofString "desc"⟩, ⟨.ident, 7, 12, Bytes.ofString "nulls"⟩,
         ⟨.ident, 13, 18, Bytes.ofString "first"⟩]).toOption.map
        (fun r => (r.val.map fun t => (t.asc, t.ascDescSpan, t.nullsFirst, t.nullsSpan), r.errs, r.rest.length)) =
      some (some (false, ⟨2, 6⟩, true, ⟨7, 18⟩), [], 0) := by
  rw [C07_sortTerm_ir]; decide

end Pql.OpIR
