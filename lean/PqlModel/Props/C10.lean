/-
Property C10 — source positions in tokens and syntax trees are exact.

* table theorems over the regenerated `Span()` unions and struct fields;
* lemmas about span arithmetic (`unionSpans`): a union contains each valid part.
-/
import PqlModel.Model.Ast
import PqlModel.Generated.Facts
namespace Pql.C10
open Pql

def isScalarType (t : String) : Bool := t == "string" || t == "bool" || t == "TokenKind"

/-- fields that carry or contain positions: Span fields, nodes and node slices -/
def positionFields (fields : List (String × String)) : List String :=
  (fields.filter fun f => !isScalarType f.2).map (·.1)

def sameSet (a b : List String) : Bool := a.all b.contains && b.all a.contains && a.length == b.length

/-- Every `Span()` union lists every position-carrying field of its struct exactly once. -/
def unionsListEveryField : Bool :=
  Facts.structFields.all fun (ty, fields) =>
    match Facts.spanUnion.find? (·.1 == ty) with
    | some (_, _, args) => sameSet (args.map (·.2)) (positionFields fields)
    | none => false

theorem C10_union_lists_every_field : unionsListEveryField = true := by decide

/-- how a field of a given Go type may be used in a union without risking a nil dereference:
    Span fields directly; interfaces through `nodeSpan`; slices through `nodeSliceSpan`;
    pointers through `nodeSpan` or a method call on a type whose `Span()` guards nil -/
def argWellTyped (fields : List (String × String)) (arg : String × String) : Bool :=
  match fields.find? (·.1 == arg.2) with
  | none => false
  | some (_, ty) =>
    if ty == "Span" then arg.1 == "span"
    else if ty.startsWith "[]" then arg.1 == "slice"
    else if ty.startsWith "*" then
      arg.1 == "node" ||
      (arg.1 == "method" &&
        match Facts.spanUnion.find? (·.1 == (ty.drop 1).toString) with
        | some (_, guard, _) => guard
        | none => false)
    else arg.1 == "node" || (arg.1 == "method" && ty == "TabularDataSource")

def unionsWellTyped : Bool :=
  Facts.structFields.all fun (ty, fields) =>
    match Facts.spanUnion.find? (·.1 == ty) with
    | some (_, _, args) => args.all (argWellTyped fields)
    | none => false

/-- The model's `spanOf` functions were written against this table. -/
def expectedSpanUnion : List (String × Bool × List (String × String)) :=
  [("AsOperator", false, [("span", "Pipe"), ("span", "Keyword"), ("method", "Name")]),
   ("BasicLit", true, [("span", "ValueSpan")]),
   ("BinaryExpr", true, [("node", "X"), ("span", "OpSpan"), ("node", "Y")]),
   ("CallExpr", true, [("method", "Func"), ("span", "Lparen"), ("slice", "Args"), ("span", "Rparen")]),
   ("CountOperator", true, [("span", "Pipe"), ("span", "Keyword")]),
   ("ExtendColumn", true, [("method", "Name"), ("span", "Assign"), ("node", "X")]),
   ("ExtendOperator", true, [("span", "Pipe"), ("span", "Keyword"), ("slice", "Cols")]),
   ("Ident", true, [("span", "NameSpan")]),
   ("InExpr", true, [("node", "X"), ("span", "In"), ("span", "Lparen"), ("slice", "Vals"), ("span", "Rparen")]),
   ("IndexExpr", true, [("node", "X"), ("span", "Lbrack"), ("node", "Index"), ("span", "Rbrack")]),
   ("JoinOperator", false, [("span", "Pipe"), ("span", "Keyword"), ("span", "Kind"), ("span", "KindAssign"),
      ("method", "Flavor"), ("span", "Lparen"), ("method", "Right"), ("span", "Rparen"), ("span", "On"),
      ("slice", "Conditions")]),
   ("LetStatement", true, [("span", "Keyword"), ("method", "Name"), ("span", "Assign"), ("node", "X")]),
   ("ParenExpr", true, [("span", "Lparen"), ("node", "X"), ("span", "Rparen")]),
   ("ProjectColumn", true, [("method", "Name"), ("span", "Assign"), ("node", "X")]),
   ("ProjectOperator", true, [("span", "Pipe"), ("span", "Keyword"), ("slice", "Cols")]),
   ("QualifiedIdent", true, [("slice", "Parts")]),
   ("RenderOperator", true, [("span", "Pipe"), ("span", "Keyword"), ("method", "ChartType"), ("span", "With"),
      ("span", "Lparen"), ("slice", "Props"), ("span", "Rparen")]),
   ("RenderProperty", true, [("method", "Name"), ("span", "Assign"), ("node", "Value")]),
   ("SortOperator", true, [("span", "Pipe"), ("span", "Keyword"), ("slice", "Terms")]),
   ("SortTerm", true, [("node", "X"), ("span", "AscDescSpan"), ("span", "NullsSpan")]),
   ("SummarizeColumn", true, [("method", "Name"), ("span", "Assign"), ("node", "X")]),
   ("SummarizeOperator", true, [("span", "Pipe"), ("span", "Keyword"), ("slice", "Cols"), ("span", "By"),
      ("slice", "GroupBy")]),
   ("TableRef", true, [("method", "Table")]),
   ("TabularExpr", true, [("method", "Source"), ("slice", "Operators")]),
   ("TakeOperator", true, [("span", "Pipe"), ("span", "Keyword"), ("node", "RowCount")]),
   ("TopOperator", true, [("span", "Pipe"), ("span", "Keyword"), ("node", "RowCount"), ("span", "By"), ("node", "Col")]),
   ("UnaryExpr", true, [("span", "OpSpan"), ("node", "X")]),
   ("WhereOperator", true, [("span", "Pipe"), ("span", "Keyword"), ("node", "Predicate")])]

theorem C10_model_matches_span_table : Facts.spanUnion = expectedSpanUnion := by decide

/-! ### span arithmetic -/

/-- `a` lies within `u` -/
def Span.within (a u : Span) : Prop := u.start ≤ a.start ∧ a.stop ≤ u.stop

theorem isValid_iff (s : Span) : s.isValid = true ↔ (0 ≤ s.start ∧ 0 ≤ s.stop ∧ s.start ≤ s.stop) := by
  simp [Span.isValid, and_assoc]

theorem union_valid_of_right {u s : Span} (hs : s.isValid = true) : (Span.union u s).isValid = true := by
  unfold Span.union
  cases hu : u.isValid
  · simp [hs]
  · simp only [hs, Bool.not_true, Bool.false_eq_true, if_false, if_true]
    rw [isValid_iff] at *
    simp only
    omega

theorem union_valid_of_left {u s : Span} (hu : u.isValid = true) : (Span.union u s).isValid = true := by
  unfold Span.union
  cases hs : s.isValid
  · simp [hu]
  · simp only [hu, Bool.not_true, Bool.false_eq_true, if_false, if_true]
    rw [isValid_iff] at *
    simp only
    omega

/-- the union contains its valid right argument -/
theorem union_contains_right {u s : Span} (hs : s.isValid = true) : Span.within s (Span.union u s) := by
  unfold Span.union Span.within
  cases hu : u.isValid
  · simp [hs]
  · simp only [hs, Bool.not_true, Bool.false_eq_true, if_false, if_true]
    omega

/-- the union contains its valid left argument -/
theorem union_contains_left {u s : Span} (hu : u.isValid = true) : Span.within u (Span.union u s) := by
  unfold Span.union Span.within
  cases hs : s.isValid
  · simp
  · simp only [hu, Bool.not_true, Bool.false_eq_true, if_false, if_true]
    omega

theorem foldl_union_contains_acc (ss : List Span) (u : Span) (hu : u.isValid = true) :
    Span.within u (ss.foldl Span.union u) ∧ (ss.foldl Span.union u).isValid = true := by
  induction ss generalizing u with
  | nil => simp [Span.within, hu]
  | cons s ss ih =>
    simp only [List.foldl_cons]
    have hv := union_valid_of_left (s := s) hu
    have h1 := union_contains_left (s := s) hu
    have h2 := ih _ hv
    refine ⟨?_, h2.2⟩
    unfold Span.within at *
    omega

/-- **C10 (a node's span contains its parts).** Every valid span handed to `unionSpans` lies
    within the result — for unions of any length. -/
theorem C10_unions_contains (ss : List Span) (s : Span) (hmem : s ∈ ss) (hs : s.isValid = true) :
    Span.within s (Span.unions ss) := by
  unfold Span.unions
  suffices h : ∀ (u : Span), Span.within s (ss.foldl Span.union u) from h _
  induction ss with
  | nil => cases hmem
  | cons a ss ih =>
    intro u
    simp only [List.foldl_cons]
    rcases List.mem_cons.mp hmem with rfl | hin
    · have hv := union_valid_of_right (u := u) hs
      have h1 := union_contains_right (u := u) hs
      have h2 := (foldl_union_contains_acc ss _ hv).1
      unfold Span.within at *
      omega
    · exact ih hin _

end Pql.C10
