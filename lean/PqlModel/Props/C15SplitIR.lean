/-
Property C15, tie by translation: `SplitStatements` of parser/lex.go.

The body of `func SplitStatements(source string) []string` is regenerated from the Go source on every
run as an IR (`Facts.lexSplitIR`; translator `harness/extract_lexir.go`, interpreter
`Model/LexIR.lean`).  This file proves that the hand-written model `splitStatements` IS the
interpretation of the regenerated IR:

  `C15_split_ir` — for every byte string `src`, interpreting the regenerated body with `Scan`
  instantiated by the model's `scan` ends without a panic (every `source[start:tok.Span.Start]` is
  within bounds), without getting stuck, and returns exactly `splitStatements src`.

The loop is proved for every token list whose spans are in order and inside the source
(`split_loop`, `InOrder`); the tokens of `scan` are (`inOrder_scan`).  For a token list that is not
in order the Go code panics where the model does not (`C15_split_ir_needs_order`), so the theorem
about the loop is false without that hypothesis.

Cutting at `tok.Span.End` instead of `.Start`, forgetting `start = tok.Span.End`, testing another
token kind, dropping the final `append` … change the regenerated IR and break `splitStatements_ir`.
-/
import PqlModel.Lemmas.LexIRCore
import PqlModel.Lemmas.LexSplit
namespace Pql.LexIR
open Pql
set_option linter.unusedSimpArgs false
set_option linter.unusedVariables false

/-- `SplitStatements` as regenerated, with the library `lib` -/
def interpSplit (lib : Lib) : Fn := fnOf Facts.lexSplitIR (prims lib) 0 "SplitStatements"

/-- token spans in order from `lo` on and inside a source of length `n` -/
def InOrder (n : Nat) : Nat → List Token → Prop
  | lo, [] => lo ≤ n
  | lo, t :: ts => lo ≤ t.start ∧ t.start ≤ t.stop ∧ InOrder n t.stop ts

theorem inOrder_of_semiInv (src : Bytes) : ∀ (ts : List Token) (lo : Nat), lo ≤ src.length →
    SemiInv src lo ts → (∀ t ∈ ts, t.stop ≤ src.length) → InOrder src.length lo ts
  | [], lo, hlo, _, _ => hlo
  | t :: ts, lo, _, h, hb =>
    ⟨h.1, Nat.le_of_lt h.2.1,
      inOrder_of_semiInv src ts t.stop (hb t List.mem_cons_self) h.2.2.2
        (fun u hu => hb u (List.mem_cons_of_mem _ hu))⟩

/-- the tokens of `scan` are in order and inside the source -/
theorem inOrder_scan (src : Bytes) : InOrder src.length 0 (scan src) :=
  inOrder_of_semiInv src (scan src) 0 (Nat.zero_le _) (scan_semiInv src)
    (fun t ht => (mem_scan_bounds src t ht).2)

def tokVal (t : Token) : Val := .tok t.kind t.start t.stop t.value

/-- the state inside `SplitStatements` after `start := 0` -/
def splitSt (src : Bytes) (all : List Token) (start : Nat) (parts : List Bytes) (h : Heap) : State :=
  ⟨[("start", .int start), ("parts", .strs parts), ("tokens", .toks all), ("source", .str src)], h, []⟩

/-- one pass through the body of the loop -/
theorem split_step (lib : Lib) (src : Bytes) (all : List Token) (start : Nat) (parts : List Bytes) (h : Heap)
    (t : Token) (h1 : start ≤ t.start) (h2 : t.start ≤ src.length) :
    execBlock (prims lib) 0 splitLoopBody ((splitSt src all start parts h).declare "tok" (tokVal t)) =
      .ok (.next,
        if t.kind = .semi then
          ⟨[("tok", tokVal t), ("start", .int t.stop), ("parts", .strs (parts ++ [(src.drop start).take (t.start - start)])),
            ("tokens", .toks all), ("source", .str src)], h, []⟩
        else (splitSt src all start parts h).declare "tok" (tokVal t)) := by
  unfold splitLoopBody splitSt tokVal
  by_cases hk : t.kind = .semi
  · lx_simp [hk, kind_semi, prims, h1, h2]
  · lx_simp [hk, kind_semi, prims]

theorem InOrder.le {n : Nat} : ∀ {ts : List Token} {lo : Nat}, InOrder n lo ts → lo ≤ n
  | [], _, h => h
  | _ :: _, _, h => Nat.le_trans (Nat.le_trans h.1 h.2.1) (InOrder.le h.2.2)

theorem InOrder.weaken {n lo lo' : Nat} {ts : List Token} (h : InOrder n lo ts) (hl : lo' ≤ lo) :
    InOrder n lo' ts := by
  cases ts with
  | nil => exact Nat.le_trans hl h
  | cons t ts => exact ⟨Nat.le_trans hl h.1, h.2⟩

/-- **the loop**: on tokens in order and inside the source the loop ends normally; what it has
    collected, followed by the rest of the source, is what the model's `splitAtSemis` returns -/
theorem split_loop (lib : Lib) (src : Bytes) (all : List Token) (h : Heap) :
    ∀ (ts : List Token) (start : Nat) (parts : List Bytes), InOrder src.length start ts →
      ∃ start' parts',
        rangeLoop "tok" (execBlock (prims lib) 0 splitLoopBody) (ts.map tokVal) (splitSt src all start parts h) =
          .ok (.next, splitSt src all start' parts' h) ∧
        start' ≤ src.length ∧
        parts' ++ [src.drop start'] = parts ++ splitAtSemis src ts start
  | [], start, parts, ho => ⟨start, parts, rfl, ho, rfl⟩
  | t :: ts, start, parts, ho => by
    obtain ⟨h1, h2, h3⟩ := ho
    have hb : t.stop ≤ src.length := h3.le
    have hstep := split_step lib src all start parts h t h1 (Nat.le_trans h2 hb)
    simp only [List.map_cons, rangeLoop, hstep, bind, Except.bind]
    by_cases hk : t.kind = .semi
    · obtain ⟨s', p', e1, e2, e3⟩ :=
        split_loop lib src all h ts t.stop (parts ++ [(src.drop start).take (t.start - start)]) h3
      refine ⟨s', p', ?_, e2, ?_⟩
      · simp only [hk, if_true]
        have : (State.leave ⟨[("tok", tokVal t), ("start", .int t.stop),
            ("parts", .strs (parts ++ [(src.drop start).take (t.start - start)])), ("tokens", .toks all),
            ("source", .str src)], h, []⟩ (splitSt src all start parts h)) =
            splitSt src all t.stop (parts ++ [(src.drop start).take (t.start - start)]) h := by
          simp [State.leave, splitSt]
        rw [this, e1]
      · rw [e3]
        simp [splitAtSemis, hk]
    · obtain ⟨s', p', e1, e2, e3⟩ :=
        split_loop lib src all h ts start parts (h3.weaken (Nat.le_trans h1 h2))
      refine ⟨s', p', ?_, e2, ?_⟩
      · simp only [hk, if_false]
        have : (State.leave ((splitSt src all start parts h).declare "tok" (tokVal t)) (splitSt src all start parts h)) =
            splitSt src all start parts h := by
          simp [State.leave, splitSt, State.declare]
        rw [this, e1]
      · rw [e3]
        simp [splitAtSemis, hk]

/-- **C15 (the loop, any ordered token list).** -/
theorem split_body (lib : Lib) (src : Bytes) (h : Heap) (hord : InOrder src.length 0 (lib.scan src)) :
    interpFn (prims lib) 0 splitStatementsDecl [.str src] h =
      .ok ([.strs (splitAtSemis src (lib.scan src) 0)], h) := by
  obtain ⟨s', p', e1, e2, e3⟩ := split_loop lib src (lib.scan src) h (lib.scan src) 0 [] hord
  have hitems : rangeItems (.toks (lib.scan src)) = .ok ((lib.scan src).map tokVal) := rfl
  unfold splitStatementsDecl
  simp only [List.nil_append] at e3
  unfold splitSt at e1
  have h3 : List.take (src.length - s') (List.drop s' src) = List.drop s' src :=
    List.take_of_length_le (by simp)
  lx_simp [prims, hitems, e1, e2, h3, ← e3]

/-- **C15 (`SplitStatements` is the interpretation of its translation).**  For every byte string the
    regenerated body of `SplitStatements`, run with the model's `scan` for `Scan`, returns without a
    panic exactly the pieces of the model's `splitStatements`. -/
theorem C15_split_ir (lib : Lib) (hs : lib.scan = scan) (src : Bytes) (h : Heap) :
    interpSplit lib [.str src] h = .ok ([.strs (splitStatements src)], h) := by
  unfold interpSplit splitStatements
  rw [fnOf_eq splitStatements_ir]
  have := split_body lib src h (by rw [hs]; exact inOrder_scan src)
  rw [hs] at this
  exact this

/-- without the order of the spans the statement is false: for a semicolon token that starts after
    the end of the source the Go code panics (slice bounds out of range) where the model's
    `splitAtSemis` returns pieces -/
theorem C15_split_ir_needs_order :
    ∃ (lib : Lib) (src : Bytes) (h : Heap),
      interpSplit lib [.str src] h = .error .panic ∧
      splitAtSemis src (lib.scan src) 0 = [[59], []] := by
  refine ⟨⟨fun _ => [⟨.semi, 2, 3, []⟩], fun _ _ => 0⟩, [59], ⟨[], 0, 0⟩, ?_, ?_⟩
  · unfold interpSplit
    rw [fnOf_eq splitStatements_ir]
    unfold splitStatementsDecl splitLoopBody
    have hitems : rangeItems (.toks [⟨.semi, 2, 3, []⟩]) = .ok [.tok .semi 2 3 []] := rfl
    lx_simp [prims, hitems, rangeLoop, kind_semi]
  · decide

-- sanity tests (evaluated): the interpretation of the regenerated IR on concrete sources
#guard (interpSplit ⟨scan, fun _ _ => 0⟩ [.str (Bytes.ofString "a;b ';' ;c")] ⟨[], 0, 0⟩).toOption.map (·.1) =
  some [.strs (splitStatements (Bytes.ofString "a;b ';' ;c"))]
#guard (interpSplit ⟨scan, fun _ _ => 0⟩ [.str (Bytes.ofString ";;")] ⟨[], 0, 0⟩).toOption.map (·.1) =
  some [.strs [[], [], []]]

end Pql.LexIR
