/-
Property C06 — parameters whose text is ONE operand.

A. `C06_params_as_lets_bytes`: if every parameter text is, byte for byte, what the statement loop
   stores for a let value (`'x'`, `42`, `(1 + 2)`, `lower('A')` …: `ParamsAreLets`), then compiling with
   the parameters emits EXACTLY THE BYTES of compiling the program with those lets put in front — and
   fails alike.  Hence (`C06_atomic_params_end_to_end`) everything proved about programs with lets holds
   for the SQL text of a program with such parameters: it lexes, is read back by the reference reader as
   the intended statement of `plets ++ program`, and evaluates to `Rel.interp` of the resolved query.
   (`C06_atomic_params_tokens`: the same at token level when the texts agree as token lists only.)
B. expression level, `ScopeParamsEnv`: scopes made of atomic raw entries (a text the SQL reader's atom
   level reads as the translation of a PQL expression `x` — also a column `"a"`, which no let can be) and
   lets: the C01 / C06 parse round trip with the parameter read as the opaque operand `x`
   (`C06_parse_roundtrip_params`, `C06_operand_is_unit_params`, `C06_param_value_is_operand`).
Non-atomic texts: `C06.C06_param_regrouped` (`p ↦ 1 + 2` in `p * 3`), `C06.C06_param_comment` (`p ↦ -5` in `-p`).
NOT covered: placeholders `$1`, `?`, `{p:Int32}` — the intended translation `CompileOracle.tr` has no PQL
expression whose image is `SExpr.param`; see the report.
-/
import PqlModel.Lemmas.ParamsHoles
import PqlModel.Props.C06Params
import PqlModel.Props.C06Operand
import PqlModel.Lemmas.E2EFinalProgram
namespace Pql.Params
open Pql Sql CompileOracle Intended Pql.RT

/-! ### A. parameters that are let values -/

/-- every parameter text is the text the statement loop stores for the let of the same name in `plets`
    (in the scope's order: newest first) -/
def ParamsAreLets (src : Bytes) (params : List (Bytes × Bytes)) (plets : List Stmt) : Prop :=
  IsLets plets ∧ ∃ scL, compileStmts src plets [] none = .ok (scL, none) ∧
    scL.map (fun kv => (kv.1, renderChunks kv.2)) = params

theorem compileStmts_lets_append (src : Bytes) (l2 : List Stmt) : (l1 : List Stmt) → IsLets l1 → (sc : Scope) →
    compileStmts src (l1 ++ l2) sc none = (compileStmts src l1 sc none >>= fun r => compileStmts src l2 r.1 none)
  | [], _, sc => rfl
  | st :: rest, hl, sc => by
    obtain ⟨kw, n, a, x, rfl⟩ := hl _ List.mem_cons_self
    have hrest : IsLets rest := fun s hs => hl s (List.mem_cons_of_mem _ hs)
    simp only [List.cons_append, compileStmts]
    cases (writeExpr ⟨src, sc, .let_⟩ x).map (wrapTight x) with
    | error e => rfl
    | ok sql =>
      cases n with
      | none => rfl
      | some nm => exact compileStmts_lets_append src l2 rest hrest _

theorem compileStmts_lets_none (src : Bytes) : (l : List Stmt) → IsLets l → (sc sc' : Scope) → (q : Option Tabular) →
    compileStmts src l sc none = .ok (sc', q) → q = none
  | [], _, sc, sc', q, h => by
    simp only [compileStmts, Except.ok.injEq, Prod.mk.injEq] at h
    exact h.2.symm
  | st :: rest, hl, sc, sc', q, h => by
    obtain ⟨kw, n, a, x, rfl⟩ := hl _ List.mem_cons_self
    have hrest : IsLets rest := fun s hs => hl s (List.mem_cons_of_mem _ hs)
    simp only [compileStmts] at h
    cases hw : (writeExpr ⟨src, sc, .let_⟩ x).map (wrapTight x) with
    | error e => rw [hw] at h; cases h
    | ok sql =>
      rw [hw] at h
      cases n with
      | none => cases h
      | some nm => exact compileStmts_lets_none src rest hrest _ sc' q h

/-- **C06 (a parameter that is a let value acts as that let): bytes.** -/
theorem C06_params_as_lets_bytes (src : Bytes) (params : List (Bytes × Bytes)) (plets stmts : List Stmt)
    (hP : ParamsAreLets src params plets) :
    (compileChunks src params stmts).map renderChunks =
      (compileChunks src [] (plets ++ stmts)).map renderChunks := by
  obtain ⟨hl, scL, hrun, hpar⟩ := hP
  have h2 : compileChunks src [] (plets ++ stmts) = compileFrom src scL stmts := by
    rw [compileChunks_eq_from]
    unfold compileFrom
    rw [show paramScope [] = ([] : Scope) from rfl, compileStmts_lets_append src stmts plets hl [], hrun]
    rfl
  rw [h2, compileChunks_eq_from]
  subst hpar
  apply compileFrom_render_congr
  · simp [paramScope]
  · simp [paramScope, renderChunks, Chunk.bytes]

/-- tokens: it suffices that every parameter text LEXES to the tokens of the stored let value -/
theorem C06_atomic_params_tokens (src : Bytes) (params : List (Bytes × Bytes)) (plets stmts : List Stmt)
    (scL : Scope) (hl : IsLets plets) (hrun : compileStmts src plets [] none = .ok (scL, none))
    (hk : scL.map (·.1) = params.map (·.1))
    (ht : scL.map (fun kv => toksOf kv.2) = params.map (fun kv => (Sql.lex .standard kv.2).getD [])) :
    (compileChunks src params stmts).map toksOf = (compileChunks src [] (plets ++ stmts)).map toksOf := by
  have h2 : compileChunks src [] (plets ++ stmts) = compileFrom src scL stmts := by
    rw [compileChunks_eq_from]
    unfold compileFrom
    rw [show paramScope [] = ([] : Scope) from rfl, compileStmts_lets_append src stmts plets hl [], hrun]
    rfl
  rw [h2, compileChunks_eq_from]
  apply compileFrom_toks_congr
  · rw [hk]; simp [paramScope]
  · rw [ht]; simp [paramScope, toksOf, chunkToks]

/-- **C06 (atomic parameters, end to end).**  `params` are the texts of the let values `plets`
    (`ParamsAreLets`); the program is `lets ++ [query t]`.  If it compiles WITH THE PARAMETERS to chunks
    `cs`, then — under the side conditions of `E2EFinal.end_to_end_program` for the program
    `plets ++ lets ++ [query t]` (each with its counterexample in Props/C02EndToEndSource.lean) — the emitted
    SQL text is read back by the reference lexer and parser as a statement `st` equal (up to `normS`) to
    the intended statement of `plets ++ lets ++ [query t]`, and `st`, evaluated as read, is the meaning of
    that program: every parameter reference is the operand `x` its let denotes. -/
theorem C06_atomic_params_end_to_end (src : Bytes) (params : List (Bytes × Bytes)) (plets lets : List Stmt)
    (t : Tabular) (cs : List Chunk)
    (hP : ParamsAreLets src params plets)
    (hc : compileChunks src params (lets ++ [.tabular t]) = .ok cs)
    (hl : IsLets lets) (hv : LetValuesOK (plets ++ lets))
    (hjs : envJoinSafe (letsEnv (plets ++ lets) []) = true)
    (hJ : TrueFree (letsEnv (plets ++ lets) []) ∨ ParsedOK.TabNE t = true) (hN : tabNamed t)
    (hlexP : Pql.stmtsLexOK (plets ++ lets ++ [.tabular t]) = true)
    (hok : C05.tabularOK (substTabular (letsEnv (plets ++ lets) []) t) = true)
    (hnames : JoinFull.namesOk (substTabular (letsEnv (plets ++ lets) []) t) = true)
    (hops : JoinFull.tabOpsOk (substTabular (letsEnv (plets ++ lets) []) t) = true) :
    ∃ cs', compileChunks src [] (plets ++ lets ++ [.tabular t]) = .ok cs' ∧ renderChunks cs = renderChunks cs' ∧
    ∃ st want, readSql (renderChunks cs) = some st ∧ E2E.noBangStatement st = true ∧
      intended src (plets ++ lets ++ [.tabular t]) = some want ∧ statementEq st want = true ∧
      ∀ db, JoinFull.RectDB db →
        evalStatement db st = Rel.interp src db (substTabular (letsEnv (plets ++ lets) []) t) ∧
        evalStatement db want = Rel.interp src db (substTabular (letsEnv (plets ++ lets) []) t) ∧
        Rel.interpProgram src db (plets ++ lets ++ [.tabular t]) =
          some (Rel.interp src db (substTabular (letsEnv (plets ++ lets) []) t)) := by
  have hb := C06_params_as_lets_bytes src params plets (lets ++ [.tabular t]) hP
  rw [hc, exmap_ok, ← List.append_assoc] at hb
  cases hc' : compileChunks src [] (plets ++ lets ++ [.tabular t]) with
  | error e => rw [hc'] at hb; cases hb
  | ok cs' =>
    rw [hc', exmap_ok] at hb
    have hr : renderChunks cs = renderChunks cs' := by injection hb
    have hlets : IsLets (plets ++ lets) := by
      intro st hst
      rcases List.mem_append.1 hst with h | h
      · exact hP.1 st h
      · exact hl st h
    refine ⟨cs', rfl, hr, ?_⟩
    rw [hr]
    exact E2EFinal.end_to_end_program src (plets ++ lets) t cs' hc' hlets hv hjs hJ hN hlexP hok hnames hops

/-- **C06 (placeholders `$1`, `?`, `{p:T}`: same skeleton).**  For ANY parameter texts (no atomicity) and any
    lets `plets` binding the same names in the same order: the chunks compiled with the parameters and the
    chunks compiled with the lets in front are ONE chunk list with holes `r0`, the holes filled with the
    parameter texts (`.raw text`) resp. with the stored let values — so a placeholder stands exactly where
    the value of `let p = 'marker'` would stand, as one chunk, and every other chunk is the same. -/
theorem C06_params_lets_same_skeleton (src : Bytes) (params : List (Bytes × Bytes)) (plets stmts : List Stmt)
    (scL : Scope) (hl : IsLets plets) (hrun : compileStmts src plets [] none = .ok (scL, none))
    (hk : scL.map (·.1) = params.map (·.1)) :
    ∃ r0 : W, compileChunks src params stmts = r0.map (bindRaw (fill (paramScope params))) ∧
      compileChunks src [] (plets ++ stmts) = r0.map (bindRaw (fill scL)) := by
  have h2 : compileChunks src [] (plets ++ stmts) = compileFrom src scL stmts := by
    rw [compileChunks_eq_from]
    unfold compileFrom
    rw [show paramScope [] = ([] : Scope) from rfl, compileStmts_lets_append src stmts plets hl [], hrun]
    rfl
  rw [h2, compileChunks_eq_from]
  exact compileFrom_common_skeleton src _ _ stmts (by rw [hk]; simp [paramScope])

/-! ### B. expression level: scopes of atomic parameters and lets -/

/-- the parameter text is read by the SQL reader's atom level — hence by its unary level, as one operand
    of any sign, subscript or infix operator — as the translation of the PQL expression `x`, whatever
    follows that cannot continue an atom -/
def AtomicAs (text : Bytes) (x : Expr) : Prop :=
  ∀ want, tr false x = some want → AtomP (toksOf [.raw text]) want

inductive ScopeParamsEnv (src : Bytes) : Scope → List (Bytes × Expr) → Prop
  | nil : ScopeParamsEnv src [] []
  | param {scope : Scope} {env : List (Bytes × Expr)} (k text : Bytes) (x : Expr) :
      ScopeParamsEnv src scope env → AtomicAs text x →
      ScopeParamsEnv src ((k, [.raw text]) :: scope) ((k, x) :: env)
  | let_ {scope : Scope} {env : List (Bytes × Expr)} (n : Bytes) (x : Expr) (cs : List Chunk) :
      ScopeParamsEnv src scope env → x.lexOK = true → shapeOK x = true →
      writeExpr ⟨src, scope, .let_⟩ x = .ok cs →
      ScopeParamsEnv src ((n, wrapTight x cs) :: scope) ((n, substExpr env x) :: env)

theorem scopeRT_cons {scope : Scope} {env : List (Bytes × Expr)} (ih : ScopeRT false scope env)
    (n : Bytes) (sql : List Chunk) (v : Expr) (hv : ∀ want, tr false v = some want → AtomP (toksOf sql) want) :
    ScopeRT false ((n, sql) :: scope) ((n, v) :: env) := by
  constructor
  · intro name sql' hl
    rw [lookupScope_cons] at hl
    rw [List.find?_cons]
    dsimp only at hl ⊢
    cases hn : n == name with
    | true =>
      rw [hn] at hl
      simp only [if_true, Option.some.injEq] at hl
      subst hl
      exact ⟨n, _, rfl, hv⟩
    | false =>
      rw [hn] at hl
      simp only [Bool.false_eq_true, if_false] at hl
      exact ih.bound name sql' hl
  · intro name hl
    rw [lookupScope_cons] at hl
    rw [List.find?_cons]
    dsimp only at hl ⊢
    cases hn : n == name with
    | true => rw [hn] at hl; simp at hl
    | false =>
      rw [hn] at hl
      simp only [Bool.false_eq_true, if_false] at hl
      exact ih.free name hl

theorem scopeRT_of_params {src : Bytes} {scope : Scope} {env : List (Bytes × Expr)}
    (h : ScopeParamsEnv src scope env) : ScopeRT false scope env := by
  induction h with
  | nil => exact scopeRT_nil false
  | param k text x _ ha ih => exact scopeRT_cons ih k _ x ha
  | @let_ scope env n x cs _ hok hshape hw ih =>
    have g : GoodS ⟨src, scope, .let_⟩ env x :=
      goodS_all ⟨src, scope, .let_⟩ env ih (joinOK_let src scope env) x hshape hok
    exact scopeRT_cons ih n _ _ (fun want hwant => g.tight hw hwant)

/-- the statement loop, started from a scope of this kind, builds a scope of this kind -/
theorem compileStmts_scopeParams (src : Bytes) : (stmts : List Stmt) → (scope : Scope) → (env : List (Bytes × Expr)) →
    ScopeParamsEnv src scope env → LetValuesOK stmts → (scope' : Scope) → (q' : Option Tabular) →
    compileStmts src stmts scope none = .ok (scope', q') → ScopeParamsEnv src scope' (letsEnv stmts env)
  | [], scope, env, hs, _, scope', q', h => by
    simp only [compileStmts, Except.ok.injEq, Prod.mk.injEq] at h
    rw [← h.1]
    simpa only [letsEnv] using hs
  | .tabular t :: rest, scope, env, hs, _, scope', q', h => by
    simp only [compileStmts] at h
    rw [compileStmts_some src rest scope t scope' q' h]
    simpa only [letsEnv] using hs
  | .let_ kw name a x :: rest, scope, env, hs, hv, scope', q', h => by
    simp only [compileStmts] at h
    cases hw : writeExpr ⟨src, scope, .let_⟩ x with
    | error e => rw [hw] at h; cases h
    | ok bx =>
      rw [hw] at h
      cases name with
      | none => cases h
      | some nm =>
        have h' : compileStmts src rest ((nm.name, wrapTight x bx) :: scope) none = .ok (scope', q') := h
        obtain ⟨hok, hshape⟩ := hv _ (List.mem_cons_self) kw (some nm) a x rfl
        simp only [letsEnv]
        exact compileStmts_scopeParams src rest _ _ (.let_ nm.name x bx hs hok hshape hw)
          (fun st hst => hv st (List.mem_cons_of_mem _ hst)) scope' q' h'

/-- the scope `Compile` starts from: every parameter `k ↦ text` is atomic as `x` -/
theorem scopeParams_of_params (src : Bytes) : (ps : List (Bytes × Bytes × Expr)) → (∀ p ∈ ps, AtomicAs p.2.1 p.2.2) →
    ScopeParamsEnv src (paramScope (ps.map fun p => (p.1, p.2.1))) (ps.map fun p => (p.1, p.2.2))
  | [], _ => .nil
  | p :: ps, h =>
    .param p.1 p.2.1 p.2.2 (scopeParams_of_params src ps (fun q hq => h q (List.mem_cons_of_mem _ hq)))
      (h p List.mem_cons_self)

/-- the invariant of the structural induction of C01 / C06, for scopes with atomic parameters -/
theorem goodS_of_params (ctx : Ctx) (env : List (Bytes × Expr)) (hsc : ScopeParamsEnv ctx.src ctx.scope env)
    (hjoin : ctx.mode = .join → envJoinSafe env = true) (e : Expr) (hok : e.lexOK = true)
    (hshape : shapeOK e = true) : GoodS ctx env e :=
  goodS_all ctx env
    (scopeRT_join (scopeRT_of_params hsc) (ctx.mode == .join) (fun hj => hjoin (by simpa using hj)))
    (joinOK_of_safe hjoin) e hshape hok

/-- **C06 / C01 (ParseRoundtrip with atomic parameters).**  `ctx.scope` consists of atomic parameters and
    lets, `env` holds the expression each name stands for.  If the writer succeeds on `e` with chunks
    `cs`, and `want` is the intended translation of `e` with every bound name replaced by the expression
    it stands for, then the SQL reader at minimum precedence 0 on the tokens of `cs`, followed by any
    `rest` that cannot continue an expression, returns a tree equal to `want` up to `normS` and leaves
    exactly `rest`.  (In a join condition: no bound name is `$left` / `$right` and no value mentions
    them, `envJoinSafe`; needed: `C06.C06_join_name_counterexample`, `C06.C06_join_counterexample`.) -/
theorem C06_parse_roundtrip_params (ctx : Ctx) (env : List (Bytes × Expr)) (e : Expr) (cs : List Chunk)
    (want : Sql.SExpr) (rest : List STok)
    (hsc : ScopeParamsEnv ctx.src ctx.scope env)
    (hjoin : ctx.mode = .join → envJoinSafe env = true)
    (hok : e.lexOK = true) (hshape : shapeOK e = true)
    (hw : writeExpr ctx e = .ok cs)
    (ht : tr (ctx.mode == .join) (substExpr env e) = some want)
    (hrest : C01.Stops rest) :
    ∃ s, normS s = normS want ∧
      ∃ fuel, ∀ fuel', fuel ≤ fuel' → Sql.pExprS fuel' 0 (toksOf cs ++ rest) = some (s, rest) :=
  (goodS_of_params ctx env hsc hjoin e hok hshape).expr hw ht rest hrest

/-- an operand written by `writeExpressionMaybeParen` — in particular a bare reference to an atomic
    parameter — is read by the reader's unary level as one operand, whatever operator follows -/
theorem C06_operand_is_unit_params (ctx : Ctx) (env : List (Bytes × Expr)) (x : Expr) (body : List Chunk)
    (want : Sql.SExpr) (rest : List STok)
    (hsc : ScopeParamsEnv ctx.src ctx.scope env) (hjoin : ctx.mode = .join → envJoinSafe env = true)
    (hok : x.lexOK = true) (hshape : shapeOK x = true)
    (hw : writeExpr ctx x = .ok body) (ht : tr (ctx.mode == .join) (substExpr env x) = some want)
    (hrest : Ends unaryEndTok rest) :
    ∃ s, normS s = normS want ∧
      ∃ fuel, ∀ fuel', fuel ≤ fuel' → Sql.pUnaryS fuel' (toksOf (wrapMaybe x body) ++ rest) = some (s, rest) :=
  (goodS_of_params ctx env hsc hjoin x hok hshape).unit hw ht rest hrest

/-- the operand of a sign and the base of a subscript (`writeExpressionTight`) are atoms -/
theorem C06_tight_operand_is_atom_params (ctx : Ctx) (env : List (Bytes × Expr)) (x : Expr) (body : List Chunk)
    (want : Sql.SExpr) (rest : List STok)
    (hsc : ScopeParamsEnv ctx.src ctx.scope env) (hjoin : ctx.mode = .join → envJoinSafe env = true)
    (hok : x.lexOK = true) (hshape : shapeOK x = true)
    (hw : writeExpr ctx x = .ok body) (ht : tr (ctx.mode == .join) (substExpr env x) = some want)
    (hrest : Ends atomEndTok rest) :
    ∃ s, normS s = normS want ∧
      ∃ fuel, ∀ fuel', fuel ≤ fuel' → Sql.pAtomS fuel' (toksOf (wrapTight x body) ++ rest) = some (s, rest) :=
  (goodS_of_params ctx env hsc hjoin x hok hshape).tight hw ht rest hrest

/-- every stored value of such a scope — parameter or let — is read as one operand -/
theorem C06_param_value_is_operand {src : Bytes} {scope : Scope} {env : List (Bytes × Expr)}
    (h : ScopeParamsEnv src scope env) (n : Bytes) (v : List Chunk) (hm : lookupScope scope n = some v) :
    ∃ k x', env.find? (·.1 == n) = some (k, x') ∧
      ∀ want, tr false x' = some want → AtomP (toksOf v) want ∧ UnitP (toksOf v) want := by
  obtain ⟨k, x', hf, hv⟩ := (scopeRT_of_params h).bound n v hm
  exact ⟨k, x', hf, fun want hw => ⟨hv want hw, (hv want hw).toUnit⟩⟩

/-- a text that lexes to the tokens of a closed let value is atomic as that value -/
theorem atomicAs_of_let (src : Bytes) (text : Bytes) (x : Expr) (cs : List Chunk)
    (hok : x.lexOK = true) (hshape : shapeOK x = true) (hw : writeExpr ⟨src, [], .let_⟩ x = .ok cs)
    (ht : toksOf [.raw text] = toksOf (wrapTight x cs)) : AtomicAs text x := by
  intro want hwant
  have g : GoodS ⟨src, [], .let_⟩ [] x :=
    goodS_all ⟨src, [], .let_⟩ [] (scopeRT_nil _) (joinOK_let src [] []) x hshape hok
  rw [ht]
  exact g.tight hw (by rw [substExpr_nil]; exact hwant)

end Pql.Params
