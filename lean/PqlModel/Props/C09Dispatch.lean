/-
Property C09, tie by translation: the control flow of `Scan`'s main loop — the tag-less `switch` on the
first rune with all its case bodies — and the shapes of `(*scanner).ident`, `(*scanner).string`,
`(*scanner).quotedIdent` are regenerated from parser/lex.go on every run (`Facts.scanCases`,
`Facts.identCont`, `Facts.stringCases`, `Facts.stringEscapes`, `Facts.quotedIdentShape`; translator
`harness/extract_lex.go`, which fails on any case body it does not recognise).
`Pql.Dispatch.interp` (Lemmas/Dispatch.lean) says what the extracted switch does rune by rune; here the
model's `scanOne` is proved equal to it on every input, and the consequences are stated table row
by table row, each for all suffixes.  An edited case, a forgotten `s.prev()`, a new comment opener
or a re-ordered pair of overlapping cases changes the tables and breaks these theorems.
-/
import PqlModel.Lemmas.DispatchScan
import PqlModel.Lemmas.DispatchSub
namespace Pql.Dispatch
open Pql
open Pql.Facts (ScanAction StrAction)
set_option linter.unusedSimpArgs false

/-! ## the whole switch -/

/-- **C09 (main dispatch = the translated Go switch).**  For every byte string, one step of the
    model's scanner is exactly what the regenerated case list of `Scan` prescribes for the first
    rune: the first case (in source order) whose condition holds, executed on the suffix. -/
theorem C09_dispatch_interp (s : Bytes) : interp s = some (scanOne s) := interp_eq_scanOne s

/-! ## the tables, row by row -/

/-- rune → kind of the cases that build a token without look-ahead -/
def singleTable : List (Nat × String) :=
  Facts.scanCases.flatMap fun p => match p.2.2 with
    | .single k => p.2.1.map (·, k)
    | _ => []

/-- (first rune, [(second rune, kind)], fallback kind, second rune given back?) -/
def twoTable : List (Nat × List (Nat × String) × String × Bool) :=
  Facts.scanCases.flatMap fun p => match p.2.2 with
    | .two secs fb u => p.2.1.map (·, secs, fb, u)
    | _ => []

/-- (first rune, opener, terminator, kind at EOF, kind otherwise, second rune given back?) -/
def commentTable : List (Nat × Nat × Nat × String × String × Bool) :=
  Facts.scanCases.flatMap fun p => match p.2.2 with
    | .comment op t ke ko u => p.2.1.map (·, op, t, ke, ko, u)
    | _ => []

/-- (classes, runes, sub-scanner) -/
def subTable : List (List String × List Nat × String) :=
  Facts.scanCases.filterMap fun p => match p.2.2 with
    | .sub m => some (p.1, p.2.1, m)
    | _ => none

/-- the tables as the documentation states them (order of the rows = order of the cases) -/
theorem C09_dispatch_tables :
    singleTable = [(44, "TokenComma"), (124, "TokenPipe"), (40, "TokenLParen"), (41, "TokenRParen"),
      (91, "TokenLBracket"), (93, "TokenRBracket"), (43, "TokenPlus"), (45, "TokenMinus"), (42, "TokenStar"),
      (37, "TokenMod"), (59, "TokenSemi")] ∧
    twoTable = [(61, [(61, "TokenEq"), (126, "TokenCaseInsensitiveEq")], "TokenAssign", true),
      (33, [(61, "TokenNE"), (126, "TokenCaseInsensitiveNE")], "TokenError", true),
      (60, [(61, "TokenLE")], "TokenLT", true), (62, [(61, "TokenGE")], "TokenGT", true)] ∧
    commentTable.map (fun p => (p.1, p.2.1, p.2.2.1)) = [(47, 47, 10)] ∧
    commentTable.map (fun p => p.2.2.2) = [("TokenSlash", "TokenSlash", true)] ∧
    subTable = [(["isAlpha"], [95, 36], "ident"), (["isDigit"], [46], "numberOrDot"),
      ([], [34, 39], "string"), ([], [96], "quotedIdent")] := by decide

/-- the order of the cases (conditions only), white space first -/
theorem C09_dispatch_case_order :
    Facts.scanCases.map (fun p => (p.1, p.2.1)) =
      [(["unicode.IsSpace"], []), (["isAlpha"], [95, 36]), (["isDigit"], [46]), ([], [44]), ([], [34, 39]),
       ([], [96]), ([], [124]), ([], [40]), ([], [41]), ([], [91]), ([], [93]), ([], [61]), ([], [33]),
       ([], [43]), ([], [45]), ([], [42]), ([], [47]), ([], [37]), ([], [60]), ([], [62]), ([], [59])] ∧
    Facts.scanDefault = .error := by decide

/-- the conditions of the cases are pairwise disjoint on ASCII runes: at most one holds … -/
theorem C09_dispatch_disjoint_ascii : ∀ n, n < 128 →
    (Facts.scanCases.filter fun p => condHolds p.1 p.2.1 n == some true).length ≤ 1 := by decide

/-- … and a rune ≥ 0x80 satisfies no condition except possibly `unicode.IsSpace`.  So in the current
    source the order of the cases does not influence the result (moving a case is behaviour-preserving;
    only `C09_dispatch_case_order` notices it). -/
theorem C09_dispatch_disjoint_nonascii (r : Nat) (hr : 128 ≤ r) :
    ∀ p ∈ Facts.scanCases.tail, condHolds p.1 p.2.1 r = some false := by
  have htail : Facts.scanCases.tail.all caseAscii = true := by decide
  intro p hp
  exact condHolds_nonascii p ((List.all_eq_true.mp htail) p hp) r hr

/-! ### single-rune tokens -/

theorem singleTable_select :
    ∀ p ∈ singleTable, p.1 < 128 ∧ select Facts.scanCases Facts.scanDefault p.1 = some (.single p.2) ∧
      (TokKind.ofGoName p.2).isSome = true := by decide

/-- **single-rune tokens.**  For every row (rune, kind) of the regenerated table and every suffix,
    the model yields exactly that kind, empty value, width = the rune's width 1. -/
theorem C09_dispatch_single (r : Nat) (k : String) (h : (r, k) ∈ singleTable) (rest : Bytes) :
    ∃ kind, TokKind.ofGoName k = some kind ∧ scanOne (UInt8.ofNat r :: rest) = ⟨some (kind, []), 1⟩ := by
  obtain ⟨hr, hsel, hk⟩ := singleTable_select (r, k) h
  simp only at hr hsel hk
  obtain ⟨kind, hkind⟩ := Option.isSome_iff_exists.mp hk
  refine ⟨kind, hkind, ?_⟩
  have hc : (UInt8.ofNat r).toNat = r := by simp [UInt8.toNat_ofNat']; omega
  have hd := decodeRune_ascii' (UInt8.ofNat r) rest (by omega)
  have := interp_eq_scanOne (UInt8.ofNat r :: rest)
  have hi : interp (UInt8.ofNat r :: rest) =
      (select Facts.scanCases Facts.scanDefault (decodeRune (UInt8.ofNat r :: rest)).1).bind
        (exec · (UInt8.ofNat r :: rest)) := rfl
  rw [hi, hd] at this
  simp only [hc, hsel, Option.bind_some, exec, hd, hkind, Option.map_some, Option.some.injEq] at this
  rw [← this]; rfl

/-! ### two-rune operators -/

theorem twoTable_facts :
    ∀ p ∈ twoTable, p.1 < 128 ∧
      select Facts.scanCases Facts.scanDefault p.1 = some (.two p.2.1 p.2.2.1 p.2.2.2) ∧
      p.2.2.2 = true ∧ (TokKind.ofGoName p.2.2.1).isSome = true ∧
      p.2.1.all (fun q => q.1 < 128 && (TokKind.ofGoName q.2).isSome) = true ∧
      (p.2.1.map (·.1)).Nodup := by decide

/-- the step of the model on `first :: rest` for a two-rune row, as `exec` computes it -/
theorem two_step (first : Nat) (secs : List (Nat × String)) (fb : String) (u : Bool)
    (h : (first, secs, fb, u) ∈ twoTable) (rest : Bytes) :
    exec (.two secs fb u) (UInt8.ofNat first :: rest) = some (scanOne (UInt8.ofNat first :: rest)) := by
  obtain ⟨hr, hsel, -⟩ := twoTable_facts _ h
  simp only at hr hsel
  have hc : (UInt8.ofNat first).toNat = first := by simp [UInt8.toNat_ofNat']; omega
  have hd := decodeRune_ascii' (UInt8.ofNat first) rest (by omega)
  have := interp_eq_scanOne (UInt8.ofNat first :: rest)
  have hi : interp (UInt8.ofNat first :: rest) =
      (select Facts.scanCases Facts.scanDefault (decodeRune (UInt8.ofNat first :: rest)).1).bind
        (exec · (UInt8.ofNat first :: rest)) := rfl
  rw [hi, hd] at this
  simpa only [hc, hsel, Option.bind_some] using this

/-- **two-rune operators, nothing follows**: the fallback kind ("TokenError" for `!`) over one rune -/
theorem C09_dispatch_two_eof (first : Nat) (secs : List (Nat × String)) (fb : String) (u : Bool)
    (h : (first, secs, fb, u) ∈ twoTable) :
    ∃ kind, TokKind.ofGoName fb = some kind ∧ scanOne [UInt8.ofNat first] = ⟨some (kind, []), 1⟩ := by
  obtain ⟨hr, -, -, hk, -⟩ := twoTable_facts _ h
  simp only at hr hk
  obtain ⟨kind, hkind⟩ := Option.isSome_iff_exists.mp hk
  refine ⟨kind, hkind, ?_⟩
  have := two_step first secs fb u h []
  have hnil : decodeRune ([] : Bytes) = (runeError, 0) := rfl
  have hd := decodeRune_ascii' (UInt8.ofNat first) [] (by simp [UInt8.toNat_ofNat']; omega)
  simp only [exec, hd, List.drop_succ_cons, List.drop_zero, List.isEmpty_nil, ↓reduceIte, hkind,
    Option.map_some, Option.some.injEq, hnil, Nat.add_zero, ite_self] at this
  rw [← this]; rfl

/-- **two-rune operators, a listed second rune follows**: that row's kind over both runes -/
theorem C09_dispatch_two_match (first : Nat) (secs : List (Nat × String)) (fb : String) (u : Bool)
    (h : (first, secs, fb, u) ∈ twoTable) (sec : Nat) (k : String) (hs : (sec, k) ∈ secs) (rest : Bytes) :
    ∃ kind, TokKind.ofGoName k = some kind ∧
      scanOne (UInt8.ofNat first :: UInt8.ofNat sec :: rest) = ⟨some (kind, []), 2⟩ := by
  obtain ⟨hr, -, -, -, hall, hnd⟩ := twoTable_facts _ h
  simp only at hr hall hnd
  have hq := (List.all_eq_true.mp hall) (sec, k) hs
  simp only [Bool.and_eq_true, decide_eq_true_eq] at hq
  obtain ⟨kind, hkind⟩ := Option.isSome_iff_exists.mp hq.2
  refine ⟨kind, hkind, ?_⟩
  have := two_step first secs fb u h (UInt8.ofNat sec :: rest)
  have hd := decodeRune_ascii' (UInt8.ofNat first) (UInt8.ofNat sec :: rest) (by simp [UInt8.toNat_ofNat']; omega)
  have hc2 : (UInt8.ofNat sec).toNat = sec := by simp [UInt8.toNat_ofNat']; omega
  have hd2 := decodeRune_ascii' (UInt8.ofNat sec) rest (by omega)
  -- the first row with this key is this row (keys are distinct)
  have hfind : secs.find? (fun p => p.1 == sec) = some (sec, k) := by
    clear this hall h
    induction secs with
    | nil => cases hs
    | cons q qs ih =>
      simp only [List.map_cons, List.nodup_cons] at hnd
      rcases List.mem_cons.mp hs with rfl | hm
      · simp
      · have hne : q.1 ≠ sec := fun e => hnd.1 (e ▸ List.mem_map_of_mem (f := (·.1)) hm)
        simp only [List.find?_cons, beq_eq_false_iff_ne.mpr hne]
        exact ih hm hnd.2
  simp only [exec, hd, List.drop_succ_cons, List.drop_zero, List.isEmpty_cons, Bool.false_eq_true,
    ↓reduceIte, hd2, hc2, hfind, hkind, Option.map_some, Option.some.injEq] at this
  rw [← this]; rfl

/-- **two-rune operators, another byte follows**: the fallback kind over ONE rune — the second rune
    is given back (`if ok { s.prev() }`), whatever it is (including a byte ≥ 0x80) -/
theorem C09_dispatch_two_other (first : Nat) (secs : List (Nat × String)) (fb : String) (u : Bool)
    (h : (first, secs, fb, u) ∈ twoTable) (d : UInt8) (hd' : d.toNat ∉ secs.map (·.1)) (rest : Bytes) :
    ∃ kind, TokKind.ofGoName fb = some kind ∧
      scanOne (UInt8.ofNat first :: d :: rest) = ⟨some (kind, []), 1⟩ := by
  obtain ⟨hr, -, hu, hk, hall, -⟩ := twoTable_facts _ h
  simp only at hr hu hk hall
  obtain ⟨kind, hkind⟩ := Option.isSome_iff_exists.mp hk
  refine ⟨kind, hkind, ?_⟩
  have := two_step first secs fb u h (d :: rest)
  have hd := decodeRune_ascii' (UInt8.ofNat first) (d :: rest) (by simp [UInt8.toNat_ofNat']; omega)
  have hfind : secs.find? (fun p => p.1 == (decodeRune (d :: rest)).1) = none := by
    rw [List.find?_eq_none]
    intro q hq
    have hq128 := (List.all_eq_true.mp hall) q hq
    simp only [Bool.and_eq_true, decide_eq_true_eq] at hq128
    simp only [beq_iff_eq]
    intro e
    have := (decodeRune_eq_ascii d rest q.1 hq128.1).mp e.symm
    exact hd' (this ▸ List.mem_map_of_mem (f := (·.1)) hq)
  subst hu
  simp only [exec, hd, List.drop_succ_cons, List.drop_zero, List.isEmpty_cons, Bool.false_eq_true,
    ↓reduceIte, hfind, hkind, Option.map_some, Option.some.injEq] at this
  rw [← this]; rfl

/-! ### the comment opener -/

theorem commentTable_facts :
    ∀ p ∈ commentTable, p.1 < 128 ∧ p.2.1 < 128 ∧ p.2.2.1 = 10 ∧
      select Facts.scanCases Facts.scanDefault p.1 = some (.comment p.2.1 p.2.2.1 p.2.2.2.1 p.2.2.2.2.1 p.2.2.2.2.2) ∧
      p.2.2.2.2.2 = true ∧ (TokKind.ofGoName p.2.2.2.1).isSome = true ∧
      (TokKind.ofGoName p.2.2.2.2.1).isSome = true := by decide

theorem comment_step (first op t : Nat) (ke ko : String) (u : Bool)
    (h : (first, op, t, ke, ko, u) ∈ commentTable) (rest : Bytes) :
    exec (.comment op t ke ko u) (UInt8.ofNat first :: rest) = some (scanOne (UInt8.ofNat first :: rest)) := by
  obtain ⟨hr, -, -, hsel, -⟩ := commentTable_facts _ h
  simp only at hr hsel
  have hc : (UInt8.ofNat first).toNat = first := by simp [UInt8.toNat_ofNat']; omega
  have hd := decodeRune_ascii' (UInt8.ofNat first) rest (by omega)
  have := interp_eq_scanOne (UInt8.ofNat first :: rest)
  have hi : interp (UInt8.ofNat first :: rest) =
      (select Facts.scanCases Facts.scanDefault (decodeRune (UInt8.ofNat first :: rest)).1).bind
        (exec · (UInt8.ofNat first :: rest)) := rfl
  rw [hi, hd] at this
  simpa only [hc, hsel, Option.bind_some] using this

/-- **comment opener followed by the opener**: no token; everything up to and including the next
    newline byte, or to the end of the input, is consumed (`commentLen`, proved equal to the rune loop
    of the Go code in `runesUntil_newline`) -/
theorem C09_dispatch_comment (first op t : Nat) (ke ko : String) (u : Bool)
    (h : (first, op, t, ke, ko, u) ∈ commentTable) (rest : Bytes) :
    scanOne (UInt8.ofNat first :: UInt8.ofNat op :: rest) = ⟨none, commentLen rest + 2⟩ := by
  obtain ⟨hr, hop, ht, -⟩ := commentTable_facts _ h
  simp only at hr hop ht
  have := comment_step first op t ke ko u h (UInt8.ofNat op :: rest)
  have hd := decodeRune_ascii' (UInt8.ofNat first) (UInt8.ofNat op :: rest) (by simp [UInt8.toNat_ofNat']; omega)
  have hc2 : (UInt8.ofNat op).toNat = op := by simp [UInt8.toNat_ofNat']; omega
  have hd2 := decodeRune_ascii' (UInt8.ofNat op) rest (by omega)
  subst ht
  simp only [exec, hd, List.drop_succ_cons, List.drop_zero, List.isEmpty_cons, Bool.false_eq_true,
    ↓reduceIte, hd2, hc2, beq_self_eq_true, runesUntil_newline, Option.some.injEq] at this
  rw [← this]
  simp only [Step.skip, Step.mk.injEq, true_and]
  omega

/-- **comment opener at the end of the input, or followed by another byte**: the listed kind
    (Slash) over one rune; the byte read ahead is given back -/
theorem C09_dispatch_comment_other (first op t : Nat) (ke ko : String) (u : Bool)
    (h : (first, op, t, ke, ko, u) ∈ commentTable) :
    (∃ kind, TokKind.ofGoName ke = some kind ∧ scanOne [UInt8.ofNat first] = ⟨some (kind, []), 1⟩) ∧
    ∀ (d : UInt8) (rest : Bytes), d.toNat ≠ op →
      ∃ kind, TokKind.ofGoName ko = some kind ∧
        scanOne (UInt8.ofNat first :: d :: rest) = ⟨some (kind, []), 1⟩ := by
  obtain ⟨hr, hop, -, -, hu, hke, hko⟩ := commentTable_facts _ h
  simp only at hr hop hu hke hko
  obtain ⟨k1, hk1⟩ := Option.isSome_iff_exists.mp hke
  obtain ⟨k2, hk2⟩ := Option.isSome_iff_exists.mp hko
  constructor
  · refine ⟨k1, hk1, ?_⟩
    have := comment_step first op t ke ko u h []
    have hd := decodeRune_ascii' (UInt8.ofNat first) [] (by simp [UInt8.toNat_ofNat']; omega)
    simp only [exec, hd, List.drop_succ_cons, List.drop_zero, List.isEmpty_nil, ↓reduceIte, hk1,
      Option.map_some, Option.some.injEq] at this
    rw [← this]; rfl
  · intro d rest hne
    refine ⟨k2, hk2, ?_⟩
    have := comment_step first op t ke ko u h (d :: rest)
    have hd := decodeRune_ascii' (UInt8.ofNat first) (d :: rest) (by simp [UInt8.toNat_ofNat']; omega)
    have hno : ((decodeRune (d :: rest)).1 == op) = false := by
      simp only [beq_eq_false_iff_ne, ne_eq]
      exact fun e => hne ((decodeRune_eq_ascii d rest op hop).mp e)
    subst hu
    simp only [exec, hd, List.drop_succ_cons, List.drop_zero, List.isEmpty_cons, Bool.false_eq_true,
      ↓reduceIte, hno, hk2, Option.map_some, Option.some.injEq] at this
    rw [← this]; rfl

/-! ### sub-scanners, white space, default -/

/-- which ASCII bytes start which sub-scanner, and which are skipped: the regenerated conditions
    coincide with the model's predicates -/
theorem C09_dispatch_classes : ∀ n, n < 128 →
    let c := UInt8.ofNat n
    let sel := select Facts.scanCases Facts.scanDefault n
    (sel = some .skip ↔ isAsciiSpace c = true) ∧
    (sel = some (.sub "ident") ↔ isIdentStart c = true) ∧
    (sel = some (.sub "numberOrDot") ↔ (isDigit c || c == 46) = true) ∧
    (sel = some (.sub "string") ↔ (c == 34 || c == 39) = true) ∧
    (sel = some (.sub "quotedIdent") ↔ (c == 96) = true) := by decide

/-- **sub-scanners**: whenever the regenerated switch selects `s.prev(); … s.m()` for the first rune,
    the model's step is the lexeme of the model's sub-scanner `m` on the whole suffix -/
theorem C09_dispatch_sub (c : UInt8) (rest : Bytes) (m : String)
    (h : select Facts.scanCases Facts.scanDefault (decodeRune (c :: rest)).1 = some (.sub m)) :
    ∃ l, subScanner m (c :: rest) = some l ∧ scanOne (c :: rest) = .ofLexeme l := by
  have := interp_eq_scanOne (c :: rest)
  have hi : interp (c :: rest) =
      (select Facts.scanCases Facts.scanDefault (decodeRune (c :: rest)).1).bind (exec · (c :: rest)) := rfl
  rw [hi, h, Option.bind_some] at this
  simp only [exec] at this
  cases hs : subScanner m (c :: rest) with
  | none => simp [hs] at this
  | some l =>
    refine ⟨l, rfl, ?_⟩
    simpa [hs] using this.symm

/-- **white space is tested first**: a first rune in `unicode.IsSpace` is skipped (its full width),
    whatever the other cases say -/
theorem C09_dispatch_space (c : UInt8) (rest : Bytes) (h : isSpaceRune (decodeRune (c :: rest)).1 = true) :
    scanOne (c :: rest) = ⟨none, (decodeRune (c :: rest)).2⟩ := by
  have hsplit : Facts.scanCases = (["unicode.IsSpace"], [], .skip) :: Facts.scanCases.tail := by decide
  have hsel : select Facts.scanCases Facts.scanDefault (decodeRune (c :: rest)).1 = some .skip := by
    rw [hsplit]
    simp [select, condHolds, classesHold, classHolds, h]
  have := interp_eq_scanOne (c :: rest)
  have hi : interp (c :: rest) =
      (select Facts.scanCases Facts.scanDefault (decodeRune (c :: rest)).1).bind (exec · (c :: rest)) := rfl
  rw [hi, hsel, Option.bind_some] at this
  simp only [exec, Option.some.injEq] at this
  rw [← this]; rfl

/-- **default**: a first rune for which no condition holds gives an error token of the rune's width -/
theorem C09_dispatch_default (c : UInt8) (rest : Bytes)
    (h : select Facts.scanCases Facts.scanDefault (decodeRune (c :: rest)).1 = some .error) :
    scanOne (c :: rest) = ⟨some (.error, []), (decodeRune (c :: rest)).2⟩ := by
  have := interp_eq_scanOne (c :: rest)
  have hi : interp (c :: rest) =
      (select Facts.scanCases Facts.scanDefault (decodeRune (c :: rest)).1).bind (exec · (c :: rest)) := rfl
  rw [hi, h, Option.bind_some] at this
  simp only [exec, Option.some.injEq] at this
  rw [← this]; rfl

/-- the runes that reach the default: every rune ≥ 0x80 that is not white space, and these ASCII runes -/
theorem C09_dispatch_default_runes :
    (∀ r, 128 ≤ r → isSpaceRune r = false → select Facts.scanCases Facts.scanDefault r = some .error) ∧
    ((List.range 128).filter fun n => select Facts.scanCases Facts.scanDefault n == some .error) =
      [0, 1, 2, 3, 4, 5, 6, 7, 8, 14, 15, 16, 17, 18, 19, 20, 21, 22, 23, 24, 25, 26, 27, 28, 29, 30, 31,
       35, 38, 58, 63, 64, 92, 94, 123, 125, 126, 127] := by
  constructor
  · intro r hr hs
    rw [select_nonascii r hr, hs]; rfl
  · decide

/-! ## the sub-scanners' own shapes -/

/-- **identifiers**: `scanIdent` = first byte unchecked, the regenerated continuation class, the
    regenerated default kind, the keyword table with the value cleared -/
theorem C09_ident_interp (s : Bytes) : identInterp s = some (scanIdent s) := identInterp_eq s

/-- the continuation class as the documentation states it: letters, digits, `_` — and not `$`,
    which is accepted only as the FIRST rune (`Scan`'s case) -/
theorem C09_ident_classes :
    Facts.identCont = (["isAlpha", "isDigit"], [95]) ∧
    (∀ c : UInt8, identContByte c = some (isIdentCont c)) ∧
    isIdentStart 36 = true ∧ isIdentCont 36 = false := by
  refine ⟨by decide, identContByte_eq, by decide, by decide⟩

/-- `$` continues no identifier: `a$b` is three tokens' worth of steps, the first of width 1 -/
theorem C09_ident_dollar_only_first (rest : Bytes) :
    (scanIdent (97 :: 36 :: rest)).width = 1 ∧ (scanIdent (36 :: 97 :: 36 :: rest)).width = 2 := by
  constructor <;> simp (config := { decide := true }) [scanIdent, identLoop, keywordKind] <;> split <;> rfl

/-- **string literals**: the loop of the model = the two regenerated switches (outer: closing quote,
    newline, backslash, default copy; escape: newline, `n`, `t`, default copy), for every opening
    byte and every suffix -/
theorem C09_string_interp (q : UInt8) (s : Bytes) : strInterp q s = some (stringLoop q s) := strInterp_eq q s

/-- the escape table as the documentation states it; every label is ASCII; the quotes `string()`
    accepts are exactly the runes of `Scan`'s string case -/
theorem C09_string_tables :
    Facts.stringCases = [(none, .close), (some 10, .bad true), (some 92, .escape)] ∧
    Facts.stringDefault = .copy ∧
    Facts.stringEscapes = [(some 10, .bad true), (some 110, .rune 10), (some 116, .rune 9)] ∧
    Facts.stringEscapeDefault = .copy ∧
    (∀ m ∈ subTable, m.2.2 = "string" → m.1 = [] ∧
      (m.2.1.all (· ∈ Facts.stringQuotes) && Facts.stringQuotes.all (· ∈ m.2.1)) = true) := by
  decide

/-- **quoted identifiers**: the loop of the model = the regenerated shape (closer doubled = one
    closer in the name; closer = end; newline = error with the newline given back) -/
theorem C09_qident_interp (s : Bytes) : qidentInterp s = qidentLoop s := qidentInterp_eq s

theorem C09_qident_table : Facts.quotedIdentShape = (96, 96, (10, true)) ∧
    (∀ m ∈ subTable, m.2.2 = "quotedIdent" → m.1 = [] ∧ m.2.1 = [Facts.quotedIdentShape.1]) := by decide

/-! ## hypotheses: needed, and satisfiable -/

/-- `C09_dispatch_two_other` without `d ∉ seconds`: false — after `=` a second `=` is consumed -/
theorem C09_dispatch_two_other_needs_hyp :
    (61, [(61, "TokenEq"), (126, "TokenCaseInsensitiveEq")], "TokenAssign", true) ∈ twoTable ∧
    scanOne (61 :: 61 :: []) = ⟨some (.eq, []), 2⟩ := by decide

/-- `C09_dispatch_comment_other` without `d ≠ opener`: false — `//` is a comment, no token -/
theorem C09_dispatch_comment_other_needs_hyp :
    (47, 47, 10, "TokenSlash", "TokenSlash", true) ∈ commentTable ∧ scanOne (47 :: 47 :: []) = ⟨none, 2⟩ := by
  decide

/-- `C09_dispatch_sub` / `C09_dispatch_default` without their hypothesis on the selected case: a digit
    is neither an identifier start nor an error -/
theorem C09_dispatch_sub_needs_hyp :
    select Facts.scanCases Facts.scanDefault (decodeRune [49]).1 = some (.sub "numberOrDot") ∧
    scanOne [49] ≠ .ofLexeme (scanIdent [49]) ∧ scanOne [49] ≠ ⟨some (.error, []), 1⟩ := by decide

/-- `C09_dispatch_space` without the white-space hypothesis: `a` is not skipped -/
theorem C09_dispatch_space_needs_hyp : isSpaceRune (decodeRune [97]).1 = false ∧ scanOne [97] ≠ ⟨none, 1⟩ := by
  decide

/-- instances (every hypothesis is satisfiable): `<=x`, `!~`, `!` alone, `<é`, `;`, `// c⏎x`, U+00A0, `#` -/
theorem C09_dispatch_demo (rest : Bytes) :
    scanOne (60 :: 61 :: rest) = ⟨some (.le, []), 2⟩ ∧
    scanOne (33 :: 126 :: rest) = ⟨some (.cine, []), 2⟩ ∧
    scanOne [33] = ⟨some (.error, []), 1⟩ ∧
    scanOne (60 :: 0xC3 :: 0xA9 :: rest) = ⟨some (.lt, []), 1⟩ ∧
    scanOne (59 :: rest) = ⟨some (.semi, []), 1⟩ ∧
    scanOne (47 :: 47 :: 32 :: 99 :: 10 :: rest) = ⟨none, 5⟩ ∧
    scanOne (0xC2 :: 0xA0 :: rest) = ⟨none, 2⟩ ∧
    scanOne (35 :: rest) = ⟨some (.error, []), 1⟩ := by
  have t := C09_dispatch_tables
  refine ⟨?_, ?_, ?_, ?_, ?_, ?_, ?_, ?_⟩
  · obtain ⟨k, hk, h⟩ := C09_dispatch_two_match 60 [(61, "TokenLE")] "TokenLT" true (by rw [t.2.1]; decide) 61 "TokenLE"
      (by decide) rest
    have : k = .le := (Option.some.inj ((by decide : TokKind.ofGoName "TokenLE" = some .le).symm.trans hk)).symm
    subst this; exact h
  · obtain ⟨k, hk, h⟩ := C09_dispatch_two_match 33 _ "TokenError" true
      (by rw [t.2.1]; exact List.mem_cons_of_mem _ List.mem_cons_self) 126 "TokenCaseInsensitiveNE" (by decide) rest
    have : k = .cine := (Option.some.inj ((by decide : TokKind.ofGoName "TokenCaseInsensitiveNE" = some .cine).symm.trans hk)).symm
    subst this; exact h
  · decide
  · obtain ⟨k, hk, h⟩ := C09_dispatch_two_other 60 [(61, "TokenLE")] "TokenLT" true (by rw [t.2.1]; decide) 0xC3
      (by decide) (0xA9 :: rest)
    have : k = .lt := (Option.some.inj ((by decide : TokKind.ofGoName "TokenLT" = some .lt).symm.trans hk)).symm
    subst this; exact h
  · obtain ⟨k, hk, h⟩ := C09_dispatch_single 59 "TokenSemi" (by rw [t.1]; decide) rest
    have : k = .semi := (Option.some.inj ((by decide : TokKind.ofGoName "TokenSemi" = some .semi).symm.trans hk)).symm
    subst this; exact h
  · have := C09_dispatch_comment 47 47 10 "TokenSlash" "TokenSlash" true (by decide) (32 :: 99 :: 10 :: rest)
    simpa [commentLen] using this
  · have hd : decodeRune (0xC2 :: 0xA0 :: rest) = (0xA0, 2) := by
      simp [decodeRune_cons, decodeMulti, isCont]
    have := C09_dispatch_space 0xC2 (0xA0 :: rest) (by rw [hd]; decide)
    rw [hd] at this; exact this
  · have hd : decodeRune (35 :: rest) = (35, 1) := decodeRune_ascii' 35 rest (by decide)
    have := C09_dispatch_default 35 rest (by rw [hd]; decide)
    rw [hd] at this; exact this

end Pql.Dispatch
