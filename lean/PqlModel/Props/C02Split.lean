/-
Properties C02 ("tabular operators take effect strictly in pipeline order", structural clauses)
and C05 (naming / reading clauses) as invariants of the model's `splitOps` / `splitQueries`,
for EVERY operator list of any length and nesting (joins recurse into `splitQueries`).

How it is proved: `SplitQ.splitOps_run` / `SplitQ.splitQueries_run` (mutual structural induction
over `Tabular` / `OpList`) turn any successful run into the relation `SplitQ.Run`
(Lemmas/SplitQueriesRun.lean); every invariant below is an induction over `Run`
(Lemmas/SplitQueriesInv.lean, SplitQueriesClauses.lean, SplitQueriesBlock.lean).

Within one subquery `Subquery.write` always prints  body-of-`op`  ORDER BY `sort`  LIMIT `take`,
so the order of evaluation inside one SELECT is source → op → sort → take; that is the reading
`SplitQ.subClauses`.
-/
import PqlModel.Lemmas.SplitQueriesInv
import PqlModel.Lemmas.SplitQueriesClauses
import PqlModel.Lemmas.SplitQueriesBlock
import PqlModel.Lemmas.SplitQueriesSem
import PqlModel.Props.C05

namespace Pql.SplitQ
open Pql

/-- the operators that rename or fix the columns (the regenerated `canAttachSort` table) -/
def renames : Op → Bool
  | .as_ .. | .project .. | .render .. | .summarize .. => true
  | _ => false

theorem canAttachSort_some (o : Op) : canAttachSort (some o) = !renames o := by
  cases o <;> rfl

/-- **The well-formedness of the subquery list** while the operator loop of the pipeline
    `source | …` runs with start index `dstStart`. -/
structure DstInv (source : Option Ident) (dstStart : Nat) (dst : List Subquery) : Prop where
  /-- clause 5: the list never shrinks below where the pipeline started -/
  start_le : dstStart ≤ dst.length
  /-- clause 1: ORDER BY / LIMIT only on a SELECT whose operator `canAttachSort` accepts -/
  sort_ok : ∀ s ∈ dst, SortOk s
  /-- clause 3: the subquery at index `i` is named `__subquery{i}` unless renamed by `as` -/
  names : NamesOk dst
  /-- clause 4: the subqueries of this pipeline (from `dstStart` on) form a block: each reads
      the previous one (the first the base table); a join is preceded by the complete block of
      its right-hand side and reads the subquery in front of that block and its last one -/
  block : Block true source (dst.drop dstStart)

theorem DstInv.empty (source : Option Ident) : DstInv source 0 [] :=
  ⟨Nat.le_refl _, by simp, fun i hi => by simp at hi, Block.nil⟩

/-- a list whose subqueries satisfy clauses 1 and 3 is a well-formed start for a new pipeline -/
theorem DstInv.start {source : Option Ident} {dst : List Subquery} (h1 : ∀ s ∈ dst, SortOk s)
    (h3 : NamesOk dst) : DstInv source dst.length dst :=
  ⟨Nat.le_refl _, h1, h3, by simpa using Block.nil⟩

/-- **`splitOps` preserves the invariant** (any operator list, any nesting); the subqueries in
    front of `dstStart` are untouched and the list does not shrink. -/
theorem splitOps_preserves (src : Bytes) (scope : List (Bytes × List Chunk)) (source : Option Ident)
    (dstStart : Nat) (dst out : List Subquery) (ops : OpList)
    (h : splitOps src scope source dstStart dst ops = .ok out) (inv : DstInv source dstStart dst) :
    DstInv source dstStart out ∧ out.take dstStart = dst.take dstStart ∧ dst.length ≤ out.length := by
  have hrun := splitOps_run src scope ops source dstStart dst out h
  have hlen : (dst.take dstStart).length = dstStart := by simp [inv.start_le]
  obtain ⟨blk', hout, hblk⟩ := run_block (joins := true) hrun (.inr rfl) (dst.take dstStart) (dst.drop dstStart)
    (List.take_append_drop _ _).symm hlen inv.block
  have hgrow := run_grows hrun
  have hdrop : out.drop dstStart = blk' := by
    rw [hout]; exact List.drop_left' hlen
  have htake : out.take dstStart = dst.take dstStart := by
    rw [hout]; exact List.take_left' hlen
  exact ⟨⟨Nat.le_trans inv.start_le hgrow.2, run_sortOk hrun inv.sort_ok, run_namesOk hrun inv.names,
    hdrop ▸ hblk⟩, htake, hgrow.2⟩

/-- **`splitQueries` preserves the invariant**: called on a list satisfying clauses 1 and 3 it
    appends a non-empty well-formed block for its pipeline. -/
theorem splitQueries_preserves (src : Bytes) (scope : List (Bytes × List Chunk)) (t : Tabular)
    (dst out : List Subquery) (h : splitQueries src scope dst t = .ok out)
    (h1 : ∀ s ∈ dst, SortOk s) (h3 : NamesOk dst) :
    ∃ source ops, t = .mk source ops ∧ DstInv source dst.length out ∧ dst <+: out ∧ dst.length < out.length := by
  obtain ⟨source, ops, mid, ht, hrun, hout⟩ := splitQueries_run src scope t dst out h
  refine ⟨source, ops, ht, ?_⟩
  have hgrow := run_grows hrun
  obtain ⟨blk', hmid, hblk⟩ := run_block (joins := true) hrun (.inr rfl) dst [] (by simp) rfl Block.nil
  obtain ⟨rblk, r, hcb, hrb, hlast⟩ := block_closeBlock (dst := dst) hblk
  rw [← hmid, ← hout] at hcb
  have hne : rblk ≠ [] := by intro h; simp [h] at hlast
  have hlt : dst.length < out.length := by
    rw [hcb, List.length_append]
    have := List.length_pos_iff.mpr hne
    omega
  refine ⟨⟨Nat.le_of_lt hlt, ?_, ?_, ?_⟩, ⟨rblk, hcb.symm⟩, hlt⟩
  · rw [hout]; exact forall_closeBlock (run_sortOk hrun h1) (by simp [SortOk, chainSubquery])
  · rw [hout]; exact namesOk_closeBlock (run_namesOk hrun h3)
  · rw [hcb, List.drop_left]; exact hrb

/-- the whole statement: `splitQueries` from the empty list -/
theorem splitQueries_inv (src : Bytes) (scope : List (Bytes × List Chunk)) (t : Tabular)
    (dst : List Subquery) (h : splitQueries src scope [] t = .ok dst) :
    ∃ source ops, t = .mk source ops ∧ DstInv source 0 dst ∧ 0 < dst.length := by
  obtain ⟨source, ops, ht, inv, _, hlt⟩ :=
    splitQueries_preserves src scope t [] dst h (by simp) (fun i hi => by simp at hi)
  exact ⟨source, ops, ht, inv, hlt⟩

end Pql.SplitQ

namespace Pql.C02
open Pql SplitQ

/-- **C02, clause 1 (ORDER BY / LIMIT never on a SELECT that renames or fixes columns).**
    In the result of `splitQueries`, a subquery that carries a sort or a take has an operator
    `canAttachSort` accepts: no operator (`SELECT *`, also the join subquery), or one that is not
    `project`, `summarize`, `as`, `render`. -/
theorem C02_sort_not_after_rename (src : Bytes) (scope : List (Bytes × List Chunk)) (t : Tabular)
    (dst : List Subquery) (h : splitQueries src scope [] t = .ok dst) :
    ∀ s ∈ dst, (s.sort.isSome ∨ s.take.isSome) →
      canAttachSort s.op = true ∧ ∀ o, s.op = some o → renames o = false := by
  obtain ⟨source, ops, _, inv, _⟩ := splitQueries_inv src scope t dst h
  intro s hs hst
  have hc := inv.sort_ok s hs hst
  refine ⟨hc, fun o ho => ?_⟩
  rw [ho, canAttachSort_some] at hc
  simpa using hc

/-- **C02, clause 2 (the clauses of the subqueries are the operators, in pipeline order).**
    Join-free pipelines: reading every subquery as `op; sort; take` (the order `Subquery.write`
    evaluates one SELECT) and concatenating over the list gives exactly the operator list, with
    `top n by k` read as `sort by k; take n` (compared modulo the `pipe` / keyword spans of
    sort / take / top, which `Clause` drops; the other operators are compared exactly).
    Hence every subquery is the image of a contiguous segment of the operator list, and inside
    one subquery nothing is evaluated out of pipeline order — in particular "take, then sort"
    never share a subquery, because a subquery reads as sort-before-take. -/
theorem C02_limit_never_crosses (src : Bytes) (scope : List (Bytes × List Chunk))
    (source : Option Ident) (ops : OpList) (dst : List Subquery) (hjf : joinFree ops = true)
    (h : splitQueries src scope [] (.mk source ops) = .ok dst) :
    dst.flatMap subClauses = ops.toList.flatMap opClauses := by
  obtain ⟨source', ops', mid, ht, hrun, hout⟩ := splitQueries_run src scope _ [] dst h
  cases ht
  rw [hout, flatMap_closeBlock, run_clauses hrun, opsClauses_joinFree ops hjf]
  rfl

/-- **C02, clause 2 with joins (any nesting).** The right-hand pipeline of a join is split where
    the join stands (`tabClauses`), the join subquery itself carries no clause of its own. -/
theorem C02_limit_never_crosses_nested (src : Bytes) (scope : List (Bytes × List Chunk)) (t : Tabular)
    (dst : List Subquery) (h : splitQueries src scope [] t = .ok dst) :
    dst.flatMap subClauses = tabClauses t := by
  obtain ⟨source, ops, mid, ht, hrun, hout⟩ := splitQueries_run src scope t [] dst h
  subst ht
  rw [hout, flatMap_closeBlock, run_clauses hrun]
  simp [tabClauses]

/-- **C02, clause 2 (the segment forms).** The segment of the operator list one subquery stands
    for is `[op]`, `[op?, sort]`, `[op?, take]` or `[op?, sort, take]` (the last also for
    `[op?, top]`), where `op?` is nothing or an operator with `canAttachSort`. -/
theorem C02_segment_forms (src : Bytes) (scope : List (Bytes × List Chunk)) (t : Tabular)
    (dst : List Subquery) (h : splitQueries src scope [] t = .ok dst) :
    ∀ s ∈ dst,
      (subClauses s = opPart s) ∨
      (canAttachSort s.op = true ∧
        ((∃ ts, subClauses s = opPart s ++ [.sort ts]) ∨ (∃ n, subClauses s = opPart s ++ [.take n]) ∨
         (∃ ts n, subClauses s = opPart s ++ [.sort ts, .take n]))) := by
  intro s hs
  have hc := (C02_sort_not_after_rename src scope t dst h s hs)
  unfold subClauses
  cases hso : s.sort with
  | none =>
    cases hta : s.take with
    | none => left; simp
    | some n => right; exact ⟨(hc (.inr (by simp [hta]))).1, .inr (.inl ⟨n, by simp⟩)⟩
  | some ts =>
    cases hta : s.take with
    | none => right; exact ⟨(hc (.inl (by simp [hso]))).1, .inl ⟨ts, by simp⟩⟩
    | some n => right; exact ⟨(hc (.inl (by simp [hso]))).1, .inr (.inr ⟨ts, n, by simp⟩)⟩

/-- **C02, clauses 1 and 2, step form (sort).** A `sort` that meets a last subquery whose operator
    renames / fixes columns, or which already has a sort or a take, is NOT attached to it: a new
    subquery reading from it is chained and gets the ORDER BY. -/
theorem C02_sort_chains (src : Bytes) (scope : List (Bytes × List Chunk))
    (source : Option Ident) (dstStart : Nat) (dst : List Subquery) (l : Subquery) (p k : Span)
    (terms : List SortTerm) (rest : OpList) (hl : lastOf dst dstStart = some l)
    (hst : canAttachSort l.op = false ∨ l.sort.isSome ∨ l.take.isSome) :
    splitOps src scope source dstStart dst (.cons (.sort p k terms) rest) =
      splitOps src scope source dstStart
        (dst ++ [{ chainSubquery dst dstStart source with sort := some terms }]) rest := by
  conv => lhs; unfold splitOps
  simp only [hl]
  have : (canAttachSort l.op && l.sort.isNone && l.take.isNone) = false := by
    rcases hst with h | h | h
    · simp [h]
    · cases hs : l.sort <;> simp [hs] at h ⊢
    · cases ht : l.take <;> simp [ht] at h ⊢
  simp only [this, Bool.false_eq_true, ↓reduceIte]
  rw [setLast_append_singleton]

/-- **C02, clauses 1 and 2, step form (take).** A `take` that meets a last subquery whose operator
    renames / fixes columns, or which already has a take, is not attached to it: a new subquery
    is chained and gets the LIMIT. -/
theorem C02_take_chains (src : Bytes) (scope : List (Bytes × List Chunk))
    (source : Option Ident) (dstStart : Nat) (dst : List Subquery) (l : Subquery) (p k : Span)
    (n : Expr) (rest : OpList) (hl : lastOf dst dstStart = some l)
    (hst : canAttachSort l.op = false ∨ l.take.isSome) :
    splitOps src scope source dstStart dst (.cons (.take p k n) rest) =
      splitOps src scope source dstStart
        (dst ++ [{ chainSubquery dst dstStart source with take := some n }]) rest := by
  conv => lhs; unfold splitOps
  simp only [hl]
  have : (canAttachSort l.op && l.take.isNone) = false := by
    rcases hst with h | h
    · simp [h]
    · cases ht : l.take <;> simp [ht] at h ⊢
  simp only [this, Bool.false_eq_true, ↓reduceIte]
  rw [setLast_append_singleton]

/-- **C02, clause 2, step form (attaching).** When a `sort` IS attached to the last subquery
    `l` (the list is `init ++ [l]`), `l` allowed it and had neither sort nor take; when a `take`
    is attached, `l` allowed it and had no take.  Stated on the model: under these conditions
    the step is exactly "set the field of the last subquery". -/
theorem C02_sort_attaches (src : Bytes) (scope : List (Bytes × List Chunk))
    (source : Option Ident) (dstStart : Nat) (init : List Subquery) (l : Subquery) (p k : Span)
    (terms : List SortTerm) (rest : OpList) (hk : dstStart ≤ init.length)
    (hc : canAttachSort l.op = true) (hs : l.sort = none) (ht : l.take = none) :
    splitOps src scope source dstStart (init ++ [l]) (.cons (.sort p k terms) rest) =
      splitOps src scope source dstStart (init ++ [{ l with sort := some terms }]) rest := by
  conv => lhs; unfold splitOps
  simp only [lastOf_append_singleton _ _ _ hk, hc, hs, ht, Option.isNone_none, Bool.and_self, ↓reduceIte]
  rw [setLast_append_singleton, ht]

theorem C02_take_attaches (src : Bytes) (scope : List (Bytes × List Chunk))
    (source : Option Ident) (dstStart : Nat) (init : List Subquery) (l : Subquery) (p k : Span)
    (n : Expr) (rest : OpList) (hk : dstStart ≤ init.length)
    (hc : canAttachSort l.op = true) (ht : l.take = none) :
    splitOps src scope source dstStart (init ++ [l]) (.cons (.take p k n) rest) =
      splitOps src scope source dstStart (init ++ [{ l with take := some n }]) rest := by
  conv => lhs; unfold splitOps
  simp only [lastOf_append_singleton _ _ _ hk, hc, ht, Option.isNone_none, Bool.and_self, ↓reduceIte]
  rw [setLast_append_singleton]

/-- **C02, semantic form for join-free pipelines (over the specification interpreter).**
    Evaluate the subqueries one after another, each on the table of the previous one (by
    `C05_chain_reads_previous` that is what each one reads; the first reads the base table), and
    inside one subquery in the order `Subquery.write` prints it — body of `op`, ORDER BY, LIMIT,
    each with the specification's meaning of that operator (`SplitQ.subEval`).  The result is the
    specification's `Rel.interpOps` of the operator list, applied strictly left to right. -/
theorem C02_pipeline_order_semantics (src : Bytes) (scope : List (Bytes × List Chunk))
    (source : Option Ident) (ops : OpList) (dst : List Subquery) (hjf : joinFree ops = true)
    (h : splitQueries src scope [] (.mk source ops) = .ok dst) (db : Sql.DB) (base : Sql.Table) :
    dst.foldl (subEval src db) base = Rel.interpOps src db base ops := by
  rw [foldl_subEval, C02_limit_never_crosses src scope source ops dst hjf h,
    interpOps_eq_clauses src db ops base hjf]

end Pql.C02

namespace Pql.C05
open Pql SplitQ

/-- **C05, clause 3 (names by index).** Every subquery of the result is named `__subquery{i}`
    with `i` its index in the final list, except the `as` subqueries, which carry the user's
    name. -/
theorem C05_names_by_index (src : Bytes) (scope : List (Bytes × List Chunk)) (t : Tabular)
    (dst : List Subquery) (h : splitQueries src scope [] t = .ok dst) :
    ∀ (i : Nat) (hi : i < dst.length),
      dst[i].name = subqueryName i ∨ ∃ p k n, dst[i].op = some (.as_ p k n) ∧ dst[i].name = identName n := by
  obtain ⟨source, ops, _, inv, _⟩ := splitQueries_inv src scope t dst h
  exact inv.names

/-- **C05, clause 3 (generated names are pairwise distinct).** -/
theorem C05_generated_names_distinct (src : Bytes) (scope : List (Bytes × List Chunk)) (t : Tabular)
    (dst : List Subquery) (h : splitQueries src scope [] t = .ok dst)
    (i j : Nat) (hi : i < dst.length) (hj : j < dst.length)
    (hni : ∀ p k n, dst[i].op ≠ some (.as_ p k n)) (hnj : ∀ p k n, dst[j].op ≠ some (.as_ p k n))
    (hname : dst[i].name = dst[j].name) : i = j := by
  have hn := C05_names_by_index src scope t dst h
  rcases hn i hi with h1 | ⟨p, k, n, ho, _⟩
  · rcases hn j hj with h2 | ⟨p, k, n, ho, _⟩
    · exact C05_subqueryName_injective i j (h1.symm.trans (hname.trans h2))
    · exact absurd ho (hnj p k n)
  · exact absurd ho (hni p k n)

/-- **C05, clause 4 (who reads whom; any nesting).** The result of `splitQueries` on
    `source | ops` is a block: every non-join subquery reads the previous subquery of its block
    (the first one the base table of its pipeline); a join subquery is preceded by the complete
    block of its right-hand pipeline, its left side is the subquery in front of that block (or
    the base table) and its right side is the last subquery of that block. -/
theorem C05_block_structure (src : Bytes) (scope : List (Bytes × List Chunk)) (t : Tabular)
    (dst : List Subquery) (h : splitQueries src scope [] t = .ok dst) :
    ∃ source ops, t = .mk source ops ∧ Block true source dst := by
  obtain ⟨source, ops, ht, inv, _⟩ := splitQueries_inv src scope t dst h
  exact ⟨source, ops, ht, by simpa using inv.block⟩

/-- **C05, clause 4, join-free pipelines index by index.** The first subquery reads the base
    table, the subquery at index `i + 1` reads exactly the subquery at index `i`. -/
theorem C05_chain_reads_previous (src : Bytes) (scope : List (Bytes × List Chunk))
    (source : Option Ident) (ops : OpList) (dst : List Subquery) (hjf : joinFree ops = true)
    (h : splitQueries src scope [] (.mk source ops) = .ok dst) :
    (∀ h0 : 0 < dst.length, dst[0].source = [.qid (identName source)]) ∧
    (∀ (i : Nat) (hi : i + 1 < dst.length), dst[i + 1].source = [.qid dst[i].name]) := by
  obtain ⟨source', ops', mid, ht, hrun, hout⟩ := splitQueries_run src scope _ [] dst h
  cases ht
  obtain ⟨blk', hmid, hblk⟩ := run_block (joins := false) hrun (.inl hjf) [] [] rfl rfl Block.nil
  obtain ⟨rblk, r, hcb, hrb, _⟩ := block_closeBlock (dst := []) hblk
  simp only [List.nil_append] at hmid hcb
  rw [← hmid] at hcb
  have hd : dst = rblk := hout.trans hcb
  subst hd
  have key := hrb.reads_prev
  constructor
  · intro h0
    rw [key 0 h0, prevName_take_zero]
  · intro i hi
    rw [key (i + 1) hi, prevName_take_succ source dst i (Nat.lt_of_succ_lt hi)]

/-- **C05, clause 5 (the list only grows).** For the operator loop: the subqueries in front of
    `dstStart` are kept and the list does not get shorter, so `dstStart ≤ dst.length` persists. -/
theorem C05_length_grows_ops (src : Bytes) (scope : List (Bytes × List Chunk)) (source : Option Ident)
    (dstStart : Nat) (dst out : List Subquery) (ops : OpList)
    (h : splitOps src scope source dstStart dst ops = .ok out) :
    dst.take dstStart <+: out ∧ dst.length ≤ out.length ∧ (dstStart ≤ dst.length → dstStart ≤ out.length) := by
  have := run_grows (splitOps_run src scope ops source dstStart dst out h)
  exact ⟨this.1, this.2, fun h => Nat.le_trans h this.2⟩

/-- **C05, clause 5 for `splitQueries`.** The input list is a prefix of the output and at least
    one subquery is added (for every input list). -/
theorem C05_length_grows (src : Bytes) (scope : List (Bytes × List Chunk)) (t : Tabular)
    (dst out : List Subquery) (h : splitQueries src scope dst t = .ok out) :
    dst <+: out ∧ dst.length < out.length := by
  obtain ⟨source, ops, mid, ht, hrun, hout⟩ := splitQueries_run src scope t dst out h
  have hg := run_grows hrun
  rw [List.take_length] at hg
  subst hout
  refine ⟨hg.1.trans (closeBlock_prefix _ _ _), ?_⟩
  unfold closeBlock
  split
  · simp; omega
  · have := hg.2; omega

end Pql.C05
