/-
Property C07 (also C03), tie by translation: `(*parser).joinOperator` — the optional `kind = flavor` clause
(an unknown flavor is recorded and parsing goes on), the parenthesised right-hand table parsed by a
sub-parser (`split`, the recursive `tabularExpr`, `endSplit`), `on` and the condition list — the model's
`pJoin` is the interpretation of the regenerated body (`C07_joinOperator_ir`), at every call depth `f + 1`
(`pJoin c 0` is the model's fuel artefact: `join_fuel_cx`).
-/
import PqlModel.Props.C07OperatorIRRender
namespace Pql.OpIR
open Pql
set_option linter.unusedSimpArgs false

theorem newRec_join : newRec "JoinOperator" =
    some ⟨"JoinOperator", [("Pipe", .span .zero), ("Keyword", .span .zero), ("Kind", .span .zero), ("KindAssign", .span .zero),
      ("Flavor", .ident none), ("Lparen", .span .zero), ("Right", .tab .nil), ("Rparen", .span .zero), ("On", .span .zero),
      ("Conditions", .exprs .nil)]⟩ := by rfl
theorem newRec_ident : newRec "Ident" =
    some ⟨"Ident", [("Name", .str []), ("NameSpan", .span .zero), ("Quoted", .bool false)]⟩ := by rfl

/-- the model's `pJoin` after the optional `kind = flavor` clause -/
def joinTailModel (c : PCtx) (f : Nat) (pipe kw kind ka : Span) (fl : Option Ident) (e0 : Errs) (rest : List Token) : PRes Op :=
  match rest with
  | [] => ⟨.join pipe kw kind ka fl .null .nil .null .null .nil, e0 ++ errAt c.eof, []⟩
  | lp :: rest1 =>
    if lp.kind ≠ .lparen then ⟨.join pipe kw kind ka fl .null .nil .null .null .nil, e0 ++ errAt lp.span, rest1⟩
    else
      let sp := split .rparen rest1
      let rr := pTabular c f sp.1
      let e1 := e0 ++ mkOpaque rr.errs ++ endSplit rr.rest
      match sp.2 with
      | [] => ⟨.join pipe kw kind ka fl lp.span rr.val .null .null .nil, e1 ++ errAt c.eof, []⟩
      | rp :: rest2 =>
        if rp.kind ≠ .rparen then ⟨.join pipe kw kind ka fl lp.span rr.val .null .null .nil, e1 ++ errAt rp.span, rest2⟩
        else
          match rest2 with
          | [] => ⟨.join pipe kw kind ka fl lp.span rr.val rp.span .null .nil, e1 ++ errAt c.eof, []⟩
          | on :: rest3 =>
            if !isIdentNamed on "on" then
              ⟨.join pipe kw kind ka fl lp.span rr.val rp.span .null .nil, e1 ++ errAt on.span, rest3⟩
            else
              let rc := pExprList c f rest3
              ⟨.join pipe kw kind ka fl lp.span rr.val rp.span on.span rc.val, e1 ++ mkOpaque rc.errs, rc.rest⟩

/-- the state after the optional clause: the operator at address 0, the flavor (if any) at 1 -/
def joinSt (pipe kws kind ka : Span) (kw pt : Token) (fl : Option Ident) (e0 : Errs) (tk : Token) (ts : List Token)
    (u : Option (List Token)) : St :=
  ⟨[("finalError", .errs e0), ("ok", .bool true), ("tok", .tok tk), ("op", .ref 0), ("keyword", .tok kw), ("pipe", .tok pt),
    ("p", .parser ts u)],
   ⟨"JoinOperator", [("Pipe", .span pipe), ("Keyword", .span kws), ("Kind", .span kind), ("KindAssign", .span ka),
      ("Flavor", match fl with | some _ => .ref 1 | none => .ident none), ("Lparen", .span .null), ("Right", .tab .nil),
      ("Rparen", .span .null), ("On", .span .null), ("Conditions", .exprs .nil)]⟩ ::
    (match fl with
      | some i => [⟨"Ident", [("Name", .str i.name), ("NameSpan", .span i.span), ("Quoted", .bool i.quoted)]⟩]
      | none => [])⟩

macro "join_simp" : tactic =>
  `(tactic| ir_simp [*, joinOperatorBody, joinSt, joinTailModel, newRec_join, newRec_ident, kind_ident, kind_assign, kind_lparen,
      kind_rparen, eofTok, PCtx.eof, Span.index, Token.span, isIdentNamed, toTab, toExprs, pIdent, List.append_assoc])

theorem join_tail (c : PCtx) (f : Nat) (pipe kws kind ka : Span) (kw pt : Token) (fl : Option Ident) (e0 : Errs) (tk : Token)
    (ts : List Token) (u : Option (List Token)) :
    result toOp "op" none (execBlock (envAt c) (joinOperatorBody.drop 5) f (joinSt pipe kws kind ka kw pt fl e0 tk ts u)) =
      .ok (joinTailModel c f pipe kws kind ka fl e0 ts) := by
  rcases ts with _ | ⟨lp, rest1⟩
  · cases fl <;> join_simp
  · by_cases hl : lp.kind = .lparen
    · rcases hsp : split .rparen rest1 with ⟨s1, s2⟩
      rcases s2 with _ | ⟨rp, rest2⟩
      · cases fl <;> join_simp
      · by_cases hr : rp.kind = .rparen
        · rcases rest2 with _ | ⟨on, rest3⟩
          · cases fl <;> join_simp
          · by_cases ho : on.kind = .ident
            · by_cases hov : on.value = Bytes.ofString "on"
              · cases fl <;> join_simp
              · cases fl <;> join_simp
            · cases fl <;> join_simp
        · cases fl <;> join_simp
    · cases fl <;> join_simp

/-- `pJoin` in terms of its second half -/
theorem pJoin_eq (c : PCtx) (f : Nat) (pipe kw : Span) (ts : List Token) :
    pJoin c (f + 1) pipe kw ts =
      match ts with
      | [] => ⟨.join pipe kw .null .null none .null .nil .null .null .nil, errAt c.eof, []⟩
      | t0 :: rest0 =>
        if isIdentNamed t0 "kind" then
          match rest0 with
          | [] => ⟨.join pipe kw t0.span .null none .null .nil .null .null .nil, errAt c.eof, []⟩
          | asg :: rest1 =>
            if asg.kind ≠ .assign then ⟨.join pipe kw t0.span .null none .null .nil .null .null .nil, errAt asg.span, rest1⟩
            else
              match rest1 with
              | [] => ⟨.join pipe kw t0.span asg.span none .null .nil .null .null .nil, errAt c.eof, []⟩
              | fl :: rest2 =>
                if fl.kind ≠ .ident then
                  ⟨.join pipe kw t0.span asg.span none .null .nil .null .null .nil, errAt fl.span, rest2⟩
                else
                  joinTailModel c f pipe kw t0.span asg.span (some ⟨fl.value, fl.span, false⟩)
                    (if isJoinType fl.value then [] else errAt fl.span) rest2
        else joinTailModel c f pipe kw .null .null none [] (t0 :: rest0) := by
  unfold pJoin joinTailModel
  rcases ts with _ | ⟨t0, rest0⟩
  · rfl
  · by_cases hk : isIdentNamed t0 "kind" = true
    · rcases rest0 with _ | ⟨asg, rest1⟩
      · simp [hk]
      · by_cases ha : asg.kind = .assign
        · rcases rest1 with _ | ⟨fl, rest2⟩
          · simp [hk, ha]
          · by_cases hf : fl.kind = .ident
            · simp only [hk, ha, hf, ne_eq, not_true_eq_false, if_true, if_false]
              rcases rest2 with _ | ⟨lp, r1⟩
              · rfl
              · rfl
            · simp [hk, ha, hf]
        · simp [hk, ha]
    · simp only [hk, Bool.false_eq_true, if_false]
      rcases rest0 with _ | ⟨lp, r1⟩ <;> rfl

theorem joinOperator_run (c : PCtx) (f : Nat) (pipe kw : Token) (ts : List Token) :
    runOp c joinOperatorBody f pipe kw ts = .ok (pJoin c (f + 1) pipe.span kw.span ts) := by
  have hsplit : joinOperatorBody = joinOperatorBody.take 5 ++ joinOperatorBody.drop 5 := rfl
  rw [pJoin_eq]
  unfold runOp run
  rw [hsplit, execBlock_append]
  rcases ts with _ | ⟨t0, rest0⟩
  · join_simp
  · by_cases hk : t0.kind = .ident
    · by_cases hv : t0.value = Bytes.ofString "kind"
      · rcases rest0 with _ | ⟨asg, rest1⟩
        · join_simp
        · by_cases ha : asg.kind = .assign
          · rcases rest1 with _ | ⟨fl, rest2⟩
            · join_simp
            · by_cases hf : fl.kind = .ident
              · have hpre : execBlock (envAt c) (joinOperatorBody.take 5) f (entry (opParams (t0 :: asg :: fl :: rest2) pipe kw)) =
                    .ok (.next, joinSt pipe.span kw.span t0.span asg.span kw pipe (some ⟨fl.value, fl.span, false⟩)
                      (if isJoinType fl.value then [] else errAt fl.span) fl rest2 (some (fl :: rest2))) := by
                  cases hj : isJoinType fl.value <;> join_simp
                rw [hpre]
                simp only [bind, Except.bind, hk, hv, ha, hf, isIdentNamed, ne_eq, not_true_eq_false, if_false, decide_true,
                  beq_self_eq_true, Bool.and_self, if_true]
                exact join_tail ..
              · join_simp
          · join_simp
      · have hpre : execBlock (envAt c) (joinOperatorBody.take 5) f (entry (opParams (t0 :: rest0) pipe kw)) =
            .ok (.next, joinSt pipe.span kw.span .null .null kw pipe none [] t0 (t0 :: rest0) none) := by
          join_simp
        rw [hpre]
        have hn : isIdentNamed t0 "kind" = false := by simp [isIdentNamed, hv]
        simp only [bind, Except.bind, hn, Bool.false_eq_true, if_false]
        exact join_tail ..
    · have hpre : execBlock (envAt c) (joinOperatorBody.take 5) f (entry (opParams (t0 :: rest0) pipe kw)) =
          .ok (.next, joinSt pipe.span kw.span .null .null kw pipe none [] t0 (t0 :: rest0) none) := by
        join_simp
      rw [hpre]
      have hn : isIdentNamed t0 "kind" = false := by simp [isIdentNamed, hk]
      simp only [bind, Except.bind, hn, Bool.false_eq_true, if_false]
      exact join_tail ..

theorem pOperator_join (c : PCtx) (fuel : Nat) (pipe : Span) (kw : Token) (ts : List Token) :
    pOperator c (fuel + 1) pipe (kwTok "join" kw) ts = some (pJoin c fuel pipe kw.span ts) := by
  dispatch_simp

/-- **joinOperator**: the model's production is the interpretation of the regenerated body, the callees
    (`tabularExpr` on the sub-parser, `exprList`) running one level deeper as in the model -/
theorem C07_joinOperator_ir (c : PCtx) (f : Nat) (pipe kw : Token) (ts : List Token) :
    (runOp c (bodyOf "joinOperator") f pipe kw ts).map some =
      .ok (pOperator c (f + 2) pipe.span (kwTok "join" kw) ts) := by
  simp only [bodyOf, joinOperator_ir, Option.map_some, Option.getD_some, joinOperator_run, pOperator_join]
  rfl

/-- at call depth 1 the model's `pJoin` is out of fuel before it looks at anything: a `count` node and the
    fuel leaf — the model's artefact, not an interpretation of the Go code (which builds a JoinOperator) -/
theorem join_fuel_cx (c : PCtx) (pipe : Span) (kw : Token) (ts : List Token) :
    pOperator c 1 pipe (kwTok "join" kw) ts = some ⟨.count pipe kw.span, errFuel, ts⟩ := by
  rw [pOperator_join]
  rfl

end Pql.OpIR
