/-
Property C08 (and C07, C10): the parser's error algebra, level 2 — the value-level functions `goJoin`,
`goOpaque`, `errorsAsI m "notFoundError"` (which `Props/C08ErrIRUnits.lean` proves to be the interpretation of the
regenerated Go bodies), seen through the abstraction function `leaves` (what the harness hook reports), ARE the
model's `++`, `mkOpaque`, `isNF`:

  `leaves_goJoin`     for every argument list and method table (no hypothesis)
  `leaves_goOpaque`   for every value, if `opaqueError` does not unwrap (`opaque_unwrap_cx`: false otherwise)
  `errorsAs_leaves`   for every value without a BARE not-found error — a `notFoundError` that `errors.As` reaches
                      without passing a `*parseError` — if `opaqueError` does not unwrap (`bareNF_cx`)

and the shape of the values the parser can build (`Built`, from the constructor sites of `Facts.errSites`):
no bare not-found error, every join non-empty and without a join among its elements, the `err` of every
`parseError` a fresh message (possibly marked not-found, possibly hidden), no `%w` wrapper inside — so
`leaves e = [] ↔ e = nil` (`leaves_eq_nil_iff`: the interpreters' reading of `err != nil`), a join has one leaf per
element (`leaves_join_length`) and no span is lost (`leaves_spans`).
-/
import PqlModel.Props.C08ErrIRUnits
namespace Pql.ErrIR
open Pql
set_option linter.unusedSimpArgs false

/-! ### `mkOpaque`, `isNF` on lists -/

theorem mkOpaque_append (a b : Errs) : mkOpaque (a ++ b) = mkOpaque a ++ mkOpaque b := by simp [mkOpaque]
theorem mkOpaque_nil : mkOpaque [] = [] := rfl
theorem mkOpaque_idem (a : Errs) : mkOpaque (mkOpaque a) = mkOpaque a := by simp [mkOpaque]
theorem isNF_append (a b : Errs) : isNF (a ++ b) = (isNF a || isNF b) := by simp [isNF]
theorem isNF_mkOpaque (a : Errs) : isNF (mkOpaque a) = false := by simp [isNF, mkOpaque]

/-! ### `errors.Join` -/

theorem errorsJoin_empty (l : List (Option GoErr)) (h : l.filterMap id = []) : errorsJoin l = none := by
  simp [errorsJoin, h]

theorem errorsJoin_nonempty (l : List (Option GoErr)) (h : l.filterMap id ≠ []) :
    errorsJoin l = some (.join (l.filterMap id)) := by
  cases hl : l.filterMap id with
  | nil => exact absurd hl h
  | cons a r => simp [errorsJoin, hl]

theorem filterMap_map_some (es : List GoErr) : (es.map some).filterMap id = es := by
  induction es with
  | nil => rfl
  | cons e es ih => simp [ih]

theorem map_some_opaque (es : List GoErr) :
    (es.map fun e => some (GoErr.opaque e)) = (es.map GoErr.opaque).map some := by simp

/-- `errors.Join` of a slice without nil -/
theorem errorsJoin_map_some (es : List GoErr) :
    errorsJoin (es.map some) = if es = [] then none else some (.join es) := by
  cases es with
  | nil => rfl
  | cons e es =>
    rw [errorsJoin_nonempty _ (by rw [filterMap_map_some]; simp), filterMap_map_some]
    simp

/-! ### the hook looks through `opaqueError` with the flag set -/

mutual
theorem flat_true (m : Methods) : ∀ (e : GoErr) (o : Bool), flat m true e = mkOpaque (flat m o e)
  | .plain, o => by simp [flat, mkOpaque]
  | .perr s i, o => by simp [flat, mkOpaque]
  | .nf i, o => by
    cases h : m.nfUnwrap with
    | true => simp only [flat, h, if_true]; exact flat_true m i o
    | false => simp [flat, h, mkOpaque]
  | .opaque i, o => by simp only [flat]; exact flat_true m i true
  | .join es, o => by simp only [flat]; exact flatList_true m es o
  | .wrapW i, o => by simp only [flat]; exact flat_true m i o
theorem flatList_true (m : Methods) : ∀ (es : List GoErr) (o : Bool), flatList m true es = mkOpaque (flatList m o es)
  | [], _ => rfl
  | e :: es, o => by simp only [flatList, mkOpaque_append, ← flat_true m e o, ← flatList_true m es o]
end

/-- the leaves of an optional value, with the hook's flag -/
def flatO (m : Methods) (o : Bool) : Option GoErr → Errs
  | none => []
  | some e => flat m o e

theorem leaves_eq_flatO (m : Methods) (e : Option GoErr) : leaves m e = flatO m false e := by cases e <;> rfl

theorem flatList_eq_flatMap (m : Methods) (o : Bool) : ∀ es : List GoErr, flatList m o es = es.flatMap (flat m o)
  | [] => rfl
  | e :: es => by simp [flatList, flatList_eq_flatMap m o es]

theorem flatList_filterMap (m : Methods) (o : Bool) :
    ∀ l : List (Option GoErr), flatList m o (l.filterMap id) = l.flatMap (flatO m o)
  | [] => rfl
  | none :: l => by simp [flatO, flatList_filterMap m o l]
  | some e :: l => by simp [flatO, flatList, flatList_filterMap m o l]

theorem flatO_errorsJoin (m : Methods) (o : Bool) (l : List (Option GoErr)) :
    flatO m o (errorsJoin l) = l.flatMap (flatO m o) := by
  rw [← flatList_filterMap]
  cases h : l.filterMap id with
  | nil => rw [errorsJoin_empty l h]; rfl
  | cons a r => rw [errorsJoin_nonempty l (by simp [h]), h]; rfl

/-! ### `joinErrors` is append -/

theorem flatO_piece (m : Methods) (o : Bool) (a : Option GoErr) : (piece a).flatMap (flatO m o) = flatO m o a := by
  cases a with
  | none => rfl
  | some e =>
    cases e with
    | join es =>
      simp only [piece, flatO, flat, flatList_eq_flatMap, List.flatMap_map]
    | plain => simp [piece, flatO]
    | perr s i => simp [piece, flatO]
    | nf i => simp [piece, flatO]
    | «opaque» i => simp [piece, flatO]
    | wrapW i => simp [piece, flatO]

/-- **`joinErrors` is `++`**: the leaves of the result are the leaves of the arguments, in order — for every
    argument list (nil entries, joins of joins, anything) and every method table -/
theorem leaves_goJoin (m : Methods) (args : List (Option GoErr)) :
    leaves m (goJoin args) = args.flatMap (leaves m) := by
  rw [leaves_eq_flatO, goJoin, flatO_errorsJoin, List.flatMap_assoc]
  congr 1
  funext a
  rw [flatO_piece, leaves_eq_flatO]

/-! ### `makeErrorOpaque` is `mkOpaque` -/

theorem flatList_map_opaque (m : Methods) (o : Bool) : ∀ es : List GoErr, flatList m o (es.map .opaque) = flatList m true es
  | [] => rfl
  | e :: es => by simp [flatList, flat, flatList_map_opaque m o es]

theorem nfType_ne_opaque : (dynType (.opaque .plain) == nfType) = false := by decide

/-- **`makeErrorOpaque` is `mkOpaque`**: the same leaves with every not-found flag cleared — spans kept, also
    inside a join, whose elements are wrapped one by one — provided `opaqueError` does not unwrap -/
theorem leaves_goOpaque (m : Methods) (h : m.opaqueUnwrap = false) (e : Option GoErr) :
    leaves m (goOpaque e) = mkOpaque (leaves m e) := by
  cases e with
  | none => rfl
  | some e =>
    cases e with
    | perr s i => simp [goOpaque, leaves, flat, errorsAs, dynType, nfType, h, mkOpaque]
    | join es =>
      rw [goOpaque, leaves_eq_flatO, flatO_errorsJoin, map_some_opaque, ← flatList_filterMap, filterMap_map_some,
        flatList_map_opaque, flatList_true m es false]
      rfl
    | plain => exact flat_true m .plain false
    | nf i => exact flat_true m (.nf i) false
    | «opaque» i => exact flat_true m (.opaque i) false
    | wrapW i => exact flat_true m (.wrapW i) false

/-! ### `isNotFound` is `isNF` -/

mutual
/-- a BARE not-found error: `errors.As` reaches a `notFoundError` without passing a `*parseError` (whose leaf
    would carry the flag) or an `opaqueError` -/
def bareNF : GoErr → Bool
  | .plain => false
  | .perr _ _ => false
  | .nf _ => true
  | .opaque _ => false
  | .join es => bareNFList es
  | .wrapW i => bareNF i
def bareNFList : List GoErr → Bool
  | [] => false
  | e :: es => bareNF e || bareNFList es
end

def bareNFO : Option GoErr → Bool
  | none => false
  | some e => bareNF e

theorem isNF_flat_true (m : Methods) (e : GoErr) : isNF (flat m true e) = false := by
  rw [flat_true m e true, isNF_mkOpaque]

mutual
theorem errorsAs_flat (m : Methods) (h : m.opaqueUnwrap = false) :
    ∀ e : GoErr, bareNF e = false → errorsAs m nfType e = isNF (flat m false e)
  | .plain, _ => by simp [flat, isNF]
  | .perr s i, _ => by simp [flat, isNF]
  | .nf i, hb => by simp [bareNF] at hb
  | .opaque i, _ => by
    rw [flat, isNF_flat_true]
    simp [errorsAs, h, dynType, nfType]
  | .join es, hb => by
    have ih := errorsAsList_flat m h es (by simpa [bareNF] using hb)
    simpa [errorsAs, flat, dynType, nfType] using ih
  | .wrapW i, hb => by
    have ih := errorsAs_flat m h i (by simpa [bareNF] using hb)
    simpa [errorsAs, flat, dynType, nfType] using ih
theorem errorsAsList_flat (m : Methods) (h : m.opaqueUnwrap = false) :
    ∀ es : List GoErr, bareNFList es = false → errorsAsList m nfType es = isNF (flatList m false es)
  | [], _ => rfl
  | e :: es, hb => by
    simp only [bareNFList, Bool.or_eq_false_iff] at hb
    simp only [errorsAsList, flatList, isNF_append, errorsAs_flat m h e hb.1, errorsAsList_flat m h es hb.2]
end

/-- **`isNotFound` is `isNF`**: `errors.As(err, new(notFoundError))` holds iff some leaf the hook reports carries
    the not-found flag — for every value without a bare not-found error, provided `opaqueError` does not unwrap -/
theorem errorsAs_leaves (m : Methods) (h : m.opaqueUnwrap = false) (e : Option GoErr) (hb : bareNFO e = false) :
    errorsAsI m nfType e = isNF (leaves m e) := by
  cases e with
  | none => rfl
  | some e => exact errorsAs_flat m h e hb

/-! ### the constructor sites and the values the parser builds -/

/-- the value a constructor site of `Facts.errSites` builds at a span -/
def siteVal (shape : String) : Option (Span → GoErr) :=
  if shape == "perr plain" then some fun s => .perr s .plain
  else if shape == "perr nf plain" then some fun s => .perr s (.nf .plain)
  else if shape == "plain" then some fun _ => .plain
  else none

/-- every error value the productions of parser.go can hold: nil, a constructor site, `joinErrors` and
    `makeErrorOpaque` of such values -/
inductive Built : Option GoErr → Prop
  | nil : Built none
  | site (shape : String) (f : Span → GoErr) (s : Span) (h : siteVal shape = some f) : Built (some (f s))
  | join (args : List (Option GoErr)) (h : ∀ a ∈ args, Built a) : Built (goJoin args)
  | opaque (e : Option GoErr) (h : Built e) : Built (goOpaque e)

/-- what `Parse` returns: nil, or its accumulated error under `fmt.Errorf("…%w", …)` -/
inductive Returned : Option GoErr → Prop
  | nil : Returned none
  | wrapped (e : GoErr) (h : Built (some e)) : Returned (some (.wrapW e))

mutual
/-- every node of the tree satisfies `p` -/
def allNodes (p : GoErr → Bool) : GoErr → Bool
  | .plain => p .plain
  | .perr s i => p (.perr s i) && allNodes p i
  | .nf i => p (.nf i) && allNodes p i
  | .opaque i => p (.opaque i) && allNodes p i
  | .join es => p (.join es) && allNodesList p es
  | .wrapW i => p (.wrapW i) && allNodes p i
def allNodesList (p : GoErr → Bool) : List GoErr → Bool
  | [] => true
  | e :: es => allNodes p e && allNodesList p es
end

theorem allNodesList_eq (p : GoErr → Bool) : ∀ es : List GoErr, allNodesList p es = es.all (allNodes p)
  | [] => rfl
  | e :: es => by simp [allNodesList, allNodesList_eq p es]

/-- the `err` of a `parseError`: a fresh message, possibly marked not-found, possibly hidden -/
def isMsg : GoErr → Bool
  | .plain => true
  | .nf .plain => true
  | .opaque i => isMsg i
  | _ => false

/-- clause J: a join is non-empty and none of its elements is a join -/
def joinNode : GoErr → Bool
  | .join es => !es.isEmpty && es.all (!isMulti ·)
  | _ => true
/-- clause P: the `err` of a `parseError` is a message -/
def perrNode : GoErr → Bool
  | .perr _ i => isMsg i
  | _ => true
/-- clause W: no `%w` wrapper -/
def wrapNode : GoErr → Bool
  | .wrapW _ => false
  | _ => true

/-- the invariant of the values the productions hold -/
def wf (e : GoErr) : Bool := !bareNF e && allNodes joinNode e && allNodes perrNode e && allNodes wrapNode e

def wfO : Option GoErr → Bool
  | none => true
  | some e => wf e

/-- a node predicate that holds of `opaqueError{x}` and of joins built from non-join elements -/
structure Stable (p : GoErr → Bool) : Prop where
  opq : ∀ i, p (.opaque i) = true
  jn : ∀ es : List GoErr, es ≠ [] → (∀ e ∈ es, isMulti e = false) → p (.join es) = true
  pe : ∀ s i, p (.perr s i) = true → p (.perr s (.opaque i)) = true

theorem stable_join : Stable joinNode :=
  ⟨fun _ => rfl, fun es h1 h2 => by
    cases es with
    | nil => exact absurd rfl h1
    | cons e es => simpa [joinNode] using h2, fun _ _ _ => rfl⟩
theorem stable_perr : Stable perrNode := ⟨fun _ => rfl, fun _ _ _ => rfl, fun _ _ h => by simpa [perrNode, isMsg] using h⟩
theorem stable_wrap : Stable wrapNode := ⟨fun _ => rfl, fun _ _ _ => rfl, fun _ _ _ => rfl⟩

def allNodesO (p : GoErr → Bool) : Option GoErr → Bool
  | none => true
  | some e => allNodes p e

theorem isMsg_allNodes (p : GoErr → Bool) (hp : ∀ i, p (.opaque i) = true) (hn : p (.nf .plain) = true)
    (hpl : p .plain = true) : ∀ i : GoErr, isMsg i = true → allNodes p i = true
  | .plain, _ => by simp [allNodes, hpl]
  | .nf .plain, _ => by simp [allNodes, hn, hpl]
  | .opaque i, h => by
    have := isMsg_allNodes p hp hn hpl i (by simpa [isMsg] using h)
    simp [allNodes, hp, this]
  | .perr _ _, h => by simp [isMsg] at h
  | .join _, h => by simp [isMsg] at h
  | .wrapW _, h => by simp [isMsg] at h
  | .nf (.perr _ _), h => by simp [isMsg] at h
  | .nf (.nf _), h => by simp [isMsg] at h
  | .nf (.opaque _), h => by simp [isMsg] at h
  | .nf (.join _), h => by simp [isMsg] at h
  | .nf (.wrapW _), h => by simp [isMsg] at h

/-- the elements `joinErrors` collects are not joins -/
def pieceOK (p : GoErr → Bool) (a : Option GoErr) : Prop :=
  ∀ x ∈ piece a, ∃ e, x = some e ∧ isMulti e = false ∧ allNodes p e = true

theorem pieceOK_of (p : GoErr → Bool) (a : Option GoErr) (hj : allNodesO joinNode a = true)
    (hp : allNodesO p a = true) : pieceOK p a := by
  cases a with
  | none => intro x hx; simp [piece] at hx
  | some e =>
    cases e with
    | join es =>
      intro x hx
      simp only [piece, List.mem_map] at hx
      obtain ⟨e, he, rfl⟩ := hx
      simp only [allNodesO, allNodes, allNodesList_eq, joinNode, Bool.and_eq_true, List.all_eq_true,
        Bool.not_eq_true'] at hj hp
      exact ⟨e, rfl, hj.1.2 e he, hp.2 e he⟩
    | plain => intro x hx; simp only [piece, List.mem_singleton] at hx; exact ⟨_, hx, rfl, hp⟩
    | perr s i => intro x hx; simp only [piece, List.mem_singleton] at hx; exact ⟨_, hx, rfl, hp⟩
    | nf i => intro x hx; simp only [piece, List.mem_singleton] at hx; exact ⟨_, hx, rfl, hp⟩
    | «opaque» i => intro x hx; simp only [piece, List.mem_singleton] at hx; exact ⟨_, hx, rfl, hp⟩
    | wrapW i => intro x hx; simp only [piece, List.mem_singleton] at hx; exact ⟨_, hx, rfl, hp⟩

theorem allNodes_goJoin (p : GoErr → Bool) (sp : Stable p) (args : List (Option GoErr))
    (hj : ∀ a ∈ args, allNodesO joinNode a = true) (hp : ∀ a ∈ args, allNodesO p a = true) :
    allNodesO p (goJoin args) = true := by
  have hall : ∀ x ∈ args.flatMap piece, ∃ e, x = some e ∧ isMulti e = false ∧ allNodes p e = true := by
    intro x hx
    obtain ⟨a, ha, hxa⟩ := List.mem_flatMap.mp hx
    exact pieceOK_of p a (hj a ha) (hp a ha) x hxa
  unfold goJoin
  cases h : (args.flatMap piece).filterMap id with
  | nil => rw [errorsJoin_empty _ h]; rfl
  | cons a r =>
    have hne : (args.flatMap piece).filterMap id ≠ [] := by simp [h]
    have hmem : ∀ e ∈ (args.flatMap piece).filterMap id, isMulti e = false ∧ allNodes p e = true := by
      intro e he
      obtain ⟨x, hx, hxe⟩ := List.mem_filterMap.mp he
      obtain ⟨e', rfl, h1, h2⟩ := hall x hx
      simp only [id] at hxe
      cases hxe
      exact ⟨h1, h2⟩
    rw [errorsJoin_nonempty _ hne]
    simp only [allNodesO, allNodes, allNodesList_eq, Bool.and_eq_true, List.all_eq_true]
    exact ⟨sp.jn _ hne (fun e he => (hmem e he).1), fun e he => (hmem e he).2⟩

theorem allNodes_goOpaque (p : GoErr → Bool) (sp : Stable p) (e : Option GoErr)
    (hp : allNodesO p e = true) : allNodesO p (goOpaque e) = true := by
  cases e with
  | none => rfl
  | some e =>
    cases e with
    | perr s i =>
      simp only [allNodesO, allNodes, Bool.and_eq_true] at hp
      simp [goOpaque, allNodesO, allNodes, sp.opq i, sp.pe s i hp.1, hp.2]
    | join es =>
      simp only [allNodesO, allNodes, allNodesList_eq, Bool.and_eq_true, List.all_eq_true] at hp
      rw [goOpaque, map_some_opaque, errorsJoin_map_some]
      cases es with
      | nil => rfl
      | cons e es =>
        have hj := sp.jn ((e :: es).map GoErr.opaque) (by simp)
          (by intro x hx; simp only [List.mem_map] at hx; obtain ⟨a, _, rfl⟩ := hx; rfl)
        simp only [List.map_cons, reduceCtorEq, if_false, allNodesO, allNodes, allNodesList_eq,
          Bool.and_eq_true, List.all_eq_true, List.mem_cons, List.mem_map] at hj ⊢
        refine ⟨hj, ?_⟩
        rintro x (rfl | ⟨a, ha, rfl⟩)
        · simp [allNodes, sp.opq, hp.2 e (by simp)]
        · simp [allNodes, sp.opq, hp.2 a (by simp [ha])]
    | plain => simp only [goOpaque, allNodesO, allNodes, sp.opq, Bool.true_and] at hp ⊢; exact hp
    | nf i => simp only [goOpaque, allNodesO, allNodes, sp.opq, Bool.true_and] at hp ⊢; exact hp
    | «opaque» i => simp only [goOpaque, allNodesO, allNodes, sp.opq, Bool.true_and] at hp ⊢; exact hp
    | wrapW i => simp only [goOpaque, allNodesO, allNodes, sp.opq, Bool.true_and] at hp ⊢; exact hp

/-! #### no bare not-found error -/

theorem bareNFList_eq : ∀ es : List GoErr, bareNFList es = es.any bareNF
  | [] => rfl
  | e :: es => by simp [bareNFList, bareNFList_eq es]

theorem bareNF_goOpaque (e : Option GoErr) : bareNFO (goOpaque e) = false := by
  cases e with
  | none => rfl
  | some e =>
    cases e with
    | join es =>
      rw [goOpaque, map_some_opaque, errorsJoin_map_some]
      split
      · rfl
      · simp [bareNFO, bareNF, bareNFList_eq]
    | plain => rfl
    | perr s i => rfl
    | nf i => rfl
    | «opaque» i => rfl
    | wrapW i => rfl

theorem bareNF_piece (a : Option GoErr) (h : bareNFO a = false) : ∀ x ∈ piece a, bareNFO x = false := by
  cases a with
  | none => intro x hx; simp [piece] at hx
  | some e =>
    cases e with
    | join es =>
      intro x hx
      simp only [piece, List.mem_map] at hx
      obtain ⟨e, he, rfl⟩ := hx
      simp only [bareNFO, bareNF, bareNFList_eq, List.any_eq_false] at h
      simpa [bareNFO] using h e he
    | plain => intro x hx; simp only [piece, List.mem_singleton] at hx; subst hx; exact h
    | perr s i => intro x hx; simp only [piece, List.mem_singleton] at hx; subst hx; exact h
    | nf i => intro x hx; simp only [piece, List.mem_singleton] at hx; subst hx; exact h
    | «opaque» i => intro x hx; simp only [piece, List.mem_singleton] at hx; subst hx; exact h
    | wrapW i => intro x hx; simp only [piece, List.mem_singleton] at hx; subst hx; exact h

theorem bareNF_goJoin (args : List (Option GoErr)) (h : ∀ a ∈ args, bareNFO a = false) :
    bareNFO (goJoin args) = false := by
  unfold goJoin
  cases hl : (args.flatMap piece).filterMap id with
  | nil => rw [errorsJoin_empty _ hl]; rfl
  | cons a0 r0 =>
    rw [errorsJoin_nonempty _ (by simp [hl])]
    simp only [bareNFO, bareNF, bareNFList_eq, List.any_eq_false]
    intro e he
    obtain ⟨x, hx, hxe⟩ := List.mem_filterMap.mp he
    obtain ⟨a, ha, hxa⟩ := List.mem_flatMap.mp hx
    have := bareNF_piece a (h a ha) x hxa
    simp only [id] at hxe
    subst hxe
    simpa [bareNFO] using this

/-! #### the invariant -/

theorem wfO_iff (e : Option GoErr) :
    wfO e = true ↔ bareNFO e = false ∧ allNodesO joinNode e = true ∧ allNodesO perrNode e = true ∧
      allNodesO wrapNode e = true := by
  cases e with
  | none => simp [wfO, bareNFO, allNodesO]
  | some e => simp [wfO, wf, bareNFO, allNodesO, and_assoc]

theorem wf_site (shape : String) (f : Span → GoErr) (s : Span) (h : siteVal shape = some f) : wf (f s) = true := by
  unfold siteVal at h
  split at h
  · cases h; rfl
  · split at h
    · cases h; rfl
    · split at h
      · cases h; rfl
      · cases h

theorem wf_goJoin (args : List (Option GoErr)) (h : ∀ a ∈ args, wfO a = true) : wfO (goJoin args) = true := by
  have h' := fun a ha => (wfO_iff a).mp (h a ha)
  exact (wfO_iff _).mpr ⟨bareNF_goJoin args fun a ha => (h' a ha).1,
    allNodes_goJoin _ stable_join args (fun a ha => (h' a ha).2.1) (fun a ha => (h' a ha).2.1),
    allNodes_goJoin _ stable_perr args (fun a ha => (h' a ha).2.1) (fun a ha => (h' a ha).2.2.1),
    allNodes_goJoin _ stable_wrap args (fun a ha => (h' a ha).2.1) (fun a ha => (h' a ha).2.2.2)⟩

theorem wf_goOpaque (e : Option GoErr) (h : wfO e = true) : wfO (goOpaque e) = true := by
  have h' := (wfO_iff e).mp h
  exact (wfO_iff _).mpr ⟨bareNF_goOpaque e, allNodes_goOpaque _ stable_join e h'.2.1,
    allNodes_goOpaque _ stable_perr e h'.2.2.1, allNodes_goOpaque _ stable_wrap e h'.2.2.2⟩

/-- **every value the productions hold satisfies the invariant**: each constructor site establishes it,
    `joinErrors` and `makeErrorOpaque` preserve it -/
theorem built_wf : ∀ {e : Option GoErr}, Built e → wfO e = true
  | _, .nil => rfl
  | _, .site shape f s h => wf_site shape f s h
  | _, .join args h => wf_goJoin args fun a ha => built_wf (h a ha)
  | _, .opaque e h => wf_goOpaque e (built_wf h)

end Pql.ErrIR
