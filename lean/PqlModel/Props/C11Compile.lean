/-
C11 / C03 glue — the compiler's use of `Walk`.

Go's `hasJoinTerms` (pql.go) is

    parser.Walk(x, func(n parser.Node) bool {
        if n, ok := n.(*parser.Ident); ok { switch n.Name { case "$left": left = true; case "$right": right = true } }
        return true })

The compile model (`Model/Compile.lean`) does not call the walk model; it uses the direct
structural recursion `exprIdents`.  This file proves that the two agree:

* `C11_allNodes_idents` — for EVERY expression (no hypothesis) the identifier nodes in the
  pre-order `allNodes (.expr e)` are exactly `exprIdents e`, in order;
* `C11_hasJoinTerms_via_walk` — for every expression on which `Walk` does not panic
  (`NoPanic (.expr e)`; implied by `Complete (.expr e)` and by `e.Good`, the predicate of
  C11b), the always-true walk is `(allNodes (.expr e)).map eventOf`, the identifier nodes it
  visits are `exprIdents e`, and `hasJoinTerms e` is (some visited identifier is named
  `$left`, some is named `$right`);
* `C11_walk_ident_events` — event level: the `"Ident"` events of that walk are exactly
  `(exprIdents e).map fun i => .visit "Ident" i.span`, in order;
* counterexamples without the hypothesis (`.nil` below the root), non-vacuity, the
  `CallExpr.Func` examples, and the corollary for parsed programs
  (`C11_parsed_join_conditions`).
-/
import PqlModel.Lemmas.GlueWalk
import PqlModel.Props.C11b
namespace Pql.Glue
open Pql Pql.C11

/-! ### the identifier nodes of the pre-order are `exprIdents` (unconditional) -/

mutual
theorem allNodes_idents_expr : (e : Expr) →
    (allNodes (.expr e)).filterMap identOf = exprIdents e
  | .nil => by
    rw [allNodes_of_none (n := .expr .nil) rfl]; rfl
  | .qident parts => by
    rw [allNodes_eq (n := .expr (.qident parts)) rfl, allNodesList_idents]
    simp only [List.filterMap_cons, identOf, filterMap_identOf_idents, exprIdents]
  | .lit sp k v => by
    rw [allNodes_eq (n := .expr (.lit sp k v)) (kids := []) rfl]
    simp [identOf, exprIdents]
  | .unary sp op x => by
    rw [allNodes_eq (n := .expr (.unary sp op x)) rfl]
    simp only [allNodesList_cons, allNodesList_nil, List.append_nil, List.filterMap_cons, identOf,
      exprIdents]
    exact allNodes_idents_expr x
  | .binary x sp op y => by
    rw [allNodes_eq (n := .expr (.binary x sp op y)) rfl]
    simp only [allNodesList_cons, allNodesList_nil, List.append_nil, List.filterMap_cons, identOf,
      List.filterMap_append, exprIdents]
    rw [allNodes_idents_expr x, allNodes_idents_expr y]
  | .inE x sp lp vals rp => by
    rw [allNodes_eq (n := .expr (.inE x sp lp vals rp)) rfl]
    simp only [allNodesList_cons, List.filterMap_cons, identOf, List.filterMap_append, exprIdents]
    rw [allNodes_idents_expr x, allNodes_idents_list vals]
  | .paren lp x rp => by
    rw [allNodes_eq (n := .expr (.paren lp x rp)) rfl]
    simp only [allNodesList_cons, allNodesList_nil, List.append_nil, List.filterMap_cons, identOf,
      exprIdents]
    exact allNodes_idents_expr x
  | .call fn lp args rp => by
    rw [allNodes_eq (n := .expr (.call fn lp args rp)) rfl]
    simp only [List.filterMap_cons, identOf, exprIdents]
    exact allNodes_idents_list args
  | .index x lb idx rb => by
    rw [allNodes_eq (n := .expr (.index x lb idx rb)) rfl]
    simp only [allNodesList_cons, allNodesList_nil, List.append_nil, List.filterMap_cons, identOf,
      List.filterMap_append, exprIdents]
    rw [allNodes_idents_expr x, allNodes_idents_expr idx]
theorem allNodes_idents_list : (es : ExprList) →
    (allNodesList (es.toList.map .expr)).filterMap identOf = exprListIdents es
  | .nil => by simp [ExprList.toList, exprListIdents]
  | .cons e es => by
    simp only [ExprList.toList, List.map_cons, allNodesList_cons, List.filterMap_append,
      exprListIdents]
    rw [allNodes_idents_expr e, allNodes_idents_list es]
end

/-- **Identifier nodes of the pre-order = `exprIdents`**, for every expression, of any depth,
    with or without nil sub-expressions: the `*Ident` nodes among all nodes below `e`
    (parents first, children in order; `CallExpr.Func` is not a child) are exactly
    `exprIdents e`, in the same order.  No hypothesis is needed for this part. -/
theorem C11_allNodes_idents (e : Expr) :
    (allNodes (.expr e)).filterMap
        (fun n => match n with | .ident (some i) => some i | _ => none) = exprIdents e := by
  have h : (fun n : Node => match n with | .ident (some i) => some i | _ => none) = identOf := by
    funext n; unfold identOf; rfl
  rw [h]; exact allNodes_idents_expr e

/-- the model's `hasJoinTerms`, read off the pre-order node list (unconditional) -/
theorem hasJoinTerms_eq_allNodes (e : Expr) :
    hasJoinTerms e =
      (((allNodes (.expr e)).filterMap identOf).any (·.name == leftAlias),
       ((allNodes (.expr e)).filterMap identOf).any (·.name == rightAlias)) := by
  rw [allNodes_idents_expr]; rfl

/-- "some node of the list is an identifier named `a`" -/
def anyIdentNamed (a : Bytes) (ns : List Node) : Bool :=
  ns.any fun n => match n with | .ident (some i) => i.name == a | _ => false

theorem anyIdentNamed_eq (a : Bytes) (ns : List Node) :
    anyIdentNamed a ns = (ns.filterMap identOf).any (·.name == a) := by
  induction ns with
  | nil => rfl
  | cons n ns ih =>
    unfold anyIdentNamed at ih ⊢
    cases hn : identOf n with
    | none =>
      simp only [List.any_cons, List.filterMap_cons, hn, ih]
      cases n with
      | ident j =>
        cases j with
        | none => simp
        | some j => simp [identOf] at hn
      | _ => simp
    | some i =>
      simp only [List.any_cons, List.filterMap_cons, hn, ih]
      cases n with
      | ident j =>
        cases j with
        | none => simp [identOf] at hn
        | some j => simp [identOf] at hn; subst hn; rfl
      | _ => simp [identOf] at hn

/-! ### headline: `hasJoinTerms` is what the Go visitor computes over `Walk` -/

/-- **C11_hasJoinTerms_via_walk.**  For every expression `e` on which `Walk` does not panic
    (no nil interface below it):
    1. `Walk` with the visitor of `hasJoinTerms` (always answers true) calls the visitor exactly
       once for every node of `allNodes (.expr e)`, in that order;
    2. the `*Ident` nodes among the visited nodes are exactly `exprIdents e`, in order;
    3. `hasJoinTerms e` = (some visited identifier node is named `$left`,
                           some visited identifier node is named `$right`). -/
theorem C11_hasJoinTerms_via_walk (e : Expr) (h : NoPanic (.expr e)) :
    walk (fun _ => true) (.expr e) = (allNodes (.expr e)).map eventOf ∧
    (allNodes (.expr e)).filterMap
        (fun n => match n with | .ident (some i) => some i | _ => none) = exprIdents e ∧
    hasJoinTerms e =
      (anyIdentNamed leftAlias (allNodes (.expr e)), anyIdentNamed rightAlias (allNodes (.expr e))) := by
  refine ⟨C11_visits_all _ h, C11_allNodes_idents e, ?_⟩
  rw [anyIdentNamed_eq, anyIdentNamed_eq]
  exact hasJoinTerms_eq_allNodes e

/-- the same under the completeness predicate of C11b (`Complete`: no panic and no nil node
    handed to the visitor) -/
theorem C11_hasJoinTerms_via_walk_complete (e : Expr) (h : Complete (.expr e)) :
    walk (fun _ => true) (.expr e) = (allNodes (.expr e)).map eventOf ∧
    (allNodes (.expr e)).filterMap
        (fun n => match n with | .ident (some i) => some i | _ => none) = exprIdents e ∧
    hasJoinTerms e =
      (anyIdentNamed leftAlias (allNodes (.expr e)), anyIdentNamed rightAlias (allNodes (.expr e))) :=
  C11_hasJoinTerms_via_walk e h.noPanic

/-- … and under the structural predicate `Expr.Good` (no `.nil` sub-expression), which is what
    the parser guarantees (`pExpr_good`, `parseTokens_good`) -/
theorem C11_hasJoinTerms_via_walk_good (e : Expr) (h : e.Good) :
    walk (fun _ => true) (.expr e) = (allNodes (.expr e)).map eventOf ∧
    (allNodes (.expr e)).filterMap
        (fun n => match n with | .ident (some i) => some i | _ => none) = exprIdents e ∧
    hasJoinTerms e =
      (anyIdentNamed leftAlias (allNodes (.expr e)), anyIdentNamed rightAlias (allNodes (.expr e))) :=
  C11_hasJoinTerms_via_walk e (Expr.Good.complete e h).noPanic

/-- **Event level.**  The events with Go type name `"Ident"` that the walk records are exactly
    the identifiers of `exprIdents e`, in order, each with its own span (no other node type
    has the label `"Ident"`: `isIdentEvent_eventOf`). -/
theorem C11_walk_ident_events (e : Expr) (h : NoPanic (.expr e)) :
    (walk (fun _ => true) (.expr e)).filter
        (fun ev => match ev with | .visit ty _ => ty == "Ident" | _ => false)
      = (exprIdents e).map (fun i => WalkEvent.visit "Ident" i.span) := by
  have hf : (fun ev : WalkEvent => match ev with | .visit ty _ => ty == "Ident" | _ => false)
      = isIdentEvent := by funext ev; unfold isIdentEvent; rfl
  rw [hf, C11_visits_all _ h, filter_identEvents, allNodes_idents_expr]
  rfl

/-- the event-level statement for any node (statement, tabular expression, operator, …):
    the `"Ident"` events of the full walk are the events of the identifier nodes of the tree -/
theorem C11_walk_ident_events_node (n : Node) (h : NoPanic n) :
    (walk (fun _ => true) n).filter isIdentEvent = ((allNodes n).filterMap identOf).map identEvent := by
  rw [C11_visits_all _ h, filter_identEvents]

/-- `hasJoinTerms` read off the recorded events is NOT possible (events carry no names), but
    the number of identifiers the Go visitor inspects is the number of `"Ident"` events: -/
theorem C11_walk_ident_count (e : Expr) (h : NoPanic (.expr e)) :
    ((walk (fun _ => true) (.expr e)).filter isIdentEvent).length = (exprIdents e).length := by
  rw [C11_walk_ident_events_node _ h, allNodes_idents_expr]; simp

/-! ### `CallExpr.Func` is not visited -/

def idL : Ident := ⟨leftAlias, ⟨0, 5⟩, false⟩
def idR : Ident := ⟨rightAlias, ⟨6, 12⟩, false⟩
def idX : Ident := ⟨Bytes.ofString "x", ⟨6, 7⟩, false⟩
def idF : Ident := ⟨Bytes.ofString "f", ⟨0, 1⟩, false⟩

/-- `$left(x)`: the function name is `$left`, but `Walk` does not push `CallExpr.Func` -/
def callLeftFn : Expr := .call idL ⟨5, 6⟩ (.cons (.qident [idX]) .nil) ⟨7, 8⟩
/-- `f($left)` -/
def callLeftArg : Expr := .call idF ⟨1, 2⟩ (.cons (.qident [⟨leftAlias, ⟨2, 7⟩, false⟩]) .nil) ⟨7, 8⟩
/-- `$left.x`: a qualified identifier one of whose parts is `$left` -/
def qualLeft : Expr := .qident [idL, idX]

theorem callLeftFn_good : callLeftFn.Good := by simp [callLeftFn, Expr.Good, ExprList.Good]
theorem callLeftArg_good : callLeftArg.Good := by simp [callLeftArg, Expr.Good, ExprList.Good]
theorem qualLeft_good : qualLeft.Good := by simp [qualLeft, Expr.Good]

/-- `f(x)` with `f = $left`: neither the model nor the walk sees the function name -/
theorem C11_call_func_not_visited :
    hasJoinTerms callLeftFn = (false, false) ∧
    exprIdents callLeftFn = [idX] ∧
    (allNodes (.expr callLeftFn)).filterMap identOf = [idX] ∧
    walk (fun _ => true) (.expr callLeftFn) =
      [.visit "CallExpr" ⟨0, 8⟩, .visit "QualifiedIdent" ⟨6, 7⟩, .visit "Ident" ⟨6, 7⟩] := by
  refine ⟨by decide, rfl, allNodes_idents_expr _, by decide⟩

/-- `$left` as an argument is seen -/
theorem C11_call_arg_visited :
    hasJoinTerms callLeftArg = (true, false) ∧
    walk (fun _ => true) (.expr callLeftArg) =
      [.visit "CallExpr" ⟨0, 8⟩, .visit "QualifiedIdent" ⟨2, 7⟩, .visit "Ident" ⟨2, 7⟩] := by
  refine ⟨by decide, by decide⟩

/-- `$left` as a part of a qualified identifier is seen -/
theorem C11_qualified_part_visited :
    hasJoinTerms qualLeft = (true, false) ∧
    walk (fun _ => true) (.expr qualLeft) =
      [.visit "QualifiedIdent" ⟨0, 7⟩, .visit "Ident" ⟨0, 5⟩, .visit "Ident" ⟨6, 7⟩] := by
  refine ⟨by decide, by decide⟩

/-! ### the hypothesis is needed for the walk statements (not for the node-list statement) -/

/-- `<nil> == $left.x`: a binary expression whose left operand is the nil interface -/
def nilEq : Expr := .binary .nil ⟨0, 2⟩ .eq (.qident [idL, idX])

/-- Without the hypothesis statement 1 fails already at the root: on the nil interface `Walk`
    panics before calling the visitor, while the node list has one node. -/
theorem C11_cex_nil_root :
    ¬ NoPanic (.expr .nil) ∧
    exprIdents .nil = [] ∧
    walk (fun _ => true) (.expr .nil) = [.panic] ∧
    (allNodes (.expr .nil)).map eventOf = [.visit "nil" Span.null] ∧
    walk (fun _ => true) (.expr .nil) ≠ (allNodes (.expr .nil)).map eventOf := by
  have h1 : walk (fun _ => true) (.expr .nil) = [.panic] := by decide
  have h2 : (allNodes (.expr .nil)).map eventOf = [.visit "nil" Span.null] := by
    rw [allNodes_of_none (n := .expr .nil) rfl]; decide
  refine ⟨fun h => h.ne_nil rfl, rfl, h1, h2, ?_⟩
  rw [h1, h2]; decide

/-- Without the hypothesis the walk statements are false below the root as well, and the
    consequence for `hasJoinTerms` is real: on `nil == $left.x` the model's `hasJoinTerms`
    answers `(true, false)` from `exprIdents`, while `Walk` panics on the nil operand before it
    reaches the identifiers — the walk's events end in `.panic`, contain no `"Ident"` event,
    and are not `allNodes.map eventOf`.  (The unconditional node-list statement
    `C11_allNodes_idents` still holds here.) -/
theorem C11_cex_nil_operand :
    ¬ NoPanic (.expr nilEq) ∧
    hasJoinTerms nilEq = (true, false) ∧
    exprIdents nilEq = [idL, idX] ∧
    walk (fun _ => true) (.expr nilEq) = [.visit "BinaryExpr" ⟨0, 7⟩, .panic] ∧
    (walk (fun _ => true) (.expr nilEq)).filter isIdentEvent = [] ∧
    (walk (fun _ => true) (.expr nilEq)).filter isIdentEvent
      ≠ (exprIdents nilEq).map (fun i => WalkEvent.visit "Ident" i.span) ∧
    walk (fun _ => true) (.expr nilEq) ≠ (allNodes (.expr nilEq)).map eventOf ∧
    (allNodes (.expr nilEq)).filterMap identOf = exprIdents nilEq := by
  have hw : walk (fun _ => true) (.expr nilEq) = [.visit "BinaryExpr" ⟨0, 7⟩, .panic] := by decide
  refine ⟨?_, by decide, rfl, hw, by rw [hw]; decide, by rw [hw]; decide, ?_, allNodes_idents_expr _⟩
  · intro h
    obtain ⟨kids, hc, hk⟩ := h.children
    simp only [nilEq, Node.children, Option.some.injEq] at hc
    subst hc
    exact (hk (.expr .nil) (by simp)).ne_nil rfl
  · intro h
    have : WalkEvent.panic ∈ (allNodes (.expr nilEq)).map eventOf := by rw [← h, hw]; simp
    obtain ⟨m, _, hm⟩ := List.mem_map.1 this
    exact eventOf_ne_panic m hm

/-- non-vacuity: a nested expression `f($left.x, -(y)) == $right.x` satisfies the
    hypothesis and has both kinds of terms -/
def sample : Expr :=
  .binary
    (.call idF ⟨1, 2⟩ (.cons (.qident [idL, idX]) (.cons (.unary ⟨9, 10⟩ .minus
      (.paren ⟨10, 11⟩ (.qident [⟨Bytes.ofString "y", ⟨11, 12⟩, false⟩]) ⟨12, 13⟩)) .nil)) ⟨13, 14⟩)
    ⟨15, 17⟩ .eq (.qident [idR, idX])

theorem sample_good : sample.Good := by simp [sample, Expr.Good, ExprList.Good]

theorem C11_hasJoinTerms_nonvacuous :
    NoPanic (.expr sample) ∧ Complete (.expr sample) ∧ sample.Good ∧
    hasJoinTerms sample = (true, true) ∧
    (exprIdents sample).map (·.span) = [⟨0, 5⟩, ⟨6, 7⟩, ⟨11, 12⟩, ⟨6, 12⟩, ⟨6, 7⟩] ∧
    (walk (fun _ => true) (.expr sample)).length = 12 :=
  ⟨(Expr.Good.complete _ sample_good).noPanic, Expr.Good.complete _ sample_good, sample_good,
   by decide, by decide, by decide⟩

/-! ### parsed programs: the expressions the compiler calls `hasJoinTerms` on

The only call sites of `hasJoinTerms` are in `writeExpr` (`Model/Compile.lean`, the
`.binary x _ .eq y` case; in Go only when `ctx.mode == joinExprMode`), on the operands `x`, `y`
of an `==`.  Join mode is used for exactly one expression per join operator:
`writeExpr ⟨src, scope, .join⟩ (buildJoinCondition conds)` in `splitOps`.  `writeExpr`
recurses through sub-expressions only, so every argument of `hasJoinTerms` in join mode is a
sub-expression node of `buildJoinCondition conds` — an element of
`allNodes (.expr (buildJoinCondition conds))`. -/

theorem noPanic_qident (parts : List Ident) : NoPanic (.expr (.qident parts)) :=
  .mk _ _ rfl (by
    intro k hk
    obtain ⟨i, _, rfl⟩ := List.mem_map.1 hk
    exact .mk _ [] rfl (by simp))

theorem noPanic_binary {x y : Expr} (sp : Span) (op : TokKind)
    (hx : NoPanic (.expr x)) (hy : NoPanic (.expr y)) : NoPanic (.expr (.binary x sp op y)) :=
  .mk _ _ rfl (by
    intro k hk
    simp only [List.mem_cons, List.not_mem_nil, or_false] at hk
    rcases hk with rfl | rfl
    · exact hx
    · exact hy)

theorem noPanic_rewriteSimple {c : Expr} (h : NoPanic (.expr c)) :
    NoPanic (.expr (rewriteSimpleJoinCondition c)) := by
  unfold rewriteSimpleJoinCondition
  split
  · split
    · exact h
    · exact noPanic_binary _ _ (noPanic_qident _) (noPanic_qident _)
  · exact h

theorem noPanic_buildGo : (es : ExprList) → (x : Expr) → NoPanic (.expr x) →
    (∀ k ∈ es.toList.map Node.expr, NoPanic k) → NoPanic (.expr (buildJoinCondition.go x es))
  | .nil, x, hx, _ => by simpa [buildJoinCondition.go] using hx
  | .cons y ys, x, hx, h => by
    simp only [buildJoinCondition.go]
    refine noPanic_buildGo ys _ (noPanic_binary _ _ hx (noPanic_rewriteSimple ?_)) ?_
    · exact h (.expr y) (by simp [ExprList.toList])
    · intro k hk
      exact h k (by simp only [ExprList.toList, List.map_cons, List.mem_cons]; exact Or.inr hk)

/-- the join condition the compiler writes is panic-free when the conditions are -/
theorem noPanic_buildJoinCondition (conds : ExprList)
    (h : ∀ k ∈ conds.toList.map Node.expr, NoPanic k) :
    NoPanic (.expr (buildJoinCondition conds)) := by
  cases conds with
  | nil => exact noPanic_qident _
  | cons c rest =>
    simp only [buildJoinCondition]
    refine noPanic_buildGo rest _ (noPanic_rewriteSimple ?_) ?_
    · exact h (.expr c) (by simp [ExprList.toList])
    · intro k hk
      exact h k (by simp only [ExprList.toList, List.map_cons, List.mem_cons]; exact Or.inr hk)

/-- **Parsed programs.**  For every program that parses without error, for every join
    operator anywhere in it (top level or nested in the right-hand side of another join), and
    for every sub-expression `x` of the join condition the compiler writes in join mode
    (`buildJoinCondition conds`) — these are all the expressions `hasJoinTerms` is applied to in
    join mode — the hypothesis holds, so: the walk visits `allNodes`, its identifier nodes are
    `exprIdents x`, `hasJoinTerms x` is what the Go visitor computes, and the `"Ident"` events
    are the identifiers of `exprIdents x` in order. -/
theorem C11_parsed_join_conditions_tokens (srcLen : Nat) (ts : List Token) (stmts : List Stmt)
    (h : parseTokens srcLen ts = (stmts, [])) (s : Stmt) (hs : s ∈ stmts)
    (p k kind ka : Span) (fl : Option Ident) (lp : Span) (right : Tabular) (rp on : Span)
    (conds : ExprList)
    (hj : Node.op (.join p k kind ka fl lp right rp on conds) ∈ allNodes (Node.ofStmt s))
    (x : Expr) (hx : Node.expr x ∈ allNodes (.expr (buildJoinCondition conds))) :
    NoPanic (.expr x) ∧
    walk (fun _ => true) (.expr x) = (allNodes (.expr x)).map eventOf ∧
    (allNodes (.expr x)).filterMap identOf = exprIdents x ∧
    hasJoinTerms x =
      (anyIdentNamed leftAlias (allNodes (.expr x)), anyIdentNamed rightAlias (allNodes (.expr x))) ∧
    (walk (fun _ => true) (.expr x)).filter isIdentEvent = (exprIdents x).map identEvent := by
  have hc : Complete (Node.ofStmt s) := C11_parsed_complete _ _ stmts h s hs
  have hjn : NoPanic (Node.op (.join p k kind ka fl lp right rp on conds)) :=
    noPanic_allNodes hc.noPanic _ hj
  obtain ⟨kids, hkc, hkk⟩ := hjn.children
  simp only [Node.children, Option.some.injEq] at hkc
  subst hkc
  have hb : NoPanic (.expr (buildJoinCondition conds)) :=
    noPanic_buildJoinCondition conds fun k hk => hkk k (List.mem_cons_of_mem _ hk)
  have hxn : NoPanic (.expr x) := noPanic_allNodes hb _ hx
  obtain ⟨h1, _, h3⟩ := C11_hasJoinTerms_via_walk x hxn
  refine ⟨hxn, h1, allNodes_idents_expr x, h3, ?_⟩
  rw [C11_walk_ident_events_node _ hxn, allNodes_idents_expr]

/-- the same for `parse src` (= `parseTokens src.length (scan src)`) -/
theorem C11_parsed_join_conditions (src : Bytes) (stmts : List Stmt) (h : parse src = (stmts, []))
    (s : Stmt) (hs : s ∈ stmts)
    (p k kind ka : Span) (fl : Option Ident) (lp : Span) (right : Tabular) (rp on : Span)
    (conds : ExprList)
    (hj : Node.op (.join p k kind ka fl lp right rp on conds) ∈ allNodes (Node.ofStmt s))
    (x : Expr) (hx : Node.expr x ∈ allNodes (.expr (buildJoinCondition conds))) :
    NoPanic (.expr x) ∧
    walk (fun _ => true) (.expr x) = (allNodes (.expr x)).map eventOf ∧
    (allNodes (.expr x)).filterMap identOf = exprIdents x ∧
    hasJoinTerms x =
      (anyIdentNamed leftAlias (allNodes (.expr x)), anyIdentNamed rightAlias (allNodes (.expr x))) ∧
    (walk (fun _ => true) (.expr x)).filter isIdentEvent = (exprIdents x).map identEvent :=
  C11_parsed_join_conditions_tokens src.length (scan src) stmts h s hs p k kind ka fl lp right rp on
    conds hj x hx

/-- the join condition itself is among those sub-expressions -/
theorem C11_join_condition_self (conds : ExprList) :
    Node.expr (buildJoinCondition conds) ∈ allNodes (.expr (buildJoinCondition conds)) :=
  allNodes_self_mem _

theorem size_le_totalSize {c : Node} {ks : List Node} (h : c ∈ ks) : c.size ≤ totalSize ks := by
  induction ks with
  | nil => cases h
  | cons a ks ih =>
    rcases List.mem_cons.1 h with rfl | h
    · simp
    · have := ih h; simp; omega

/-- the operands of an `==` below the condition (the actual arguments of `hasJoinTerms`) are
    sub-expression nodes too: the pre-order is closed under children -/
theorem allNodes_child_mem {n m k : Node} {kids : List Node} (hm : m ∈ allNodes n)
    (hc : m.children = some kids) (hk : k ∈ kids) : k ∈ allNodes n := by
  suffices ∀ (sz : Nat) (n : Node), n.size ≤ sz → m ∈ allNodes n → k ∈ allNodes n from
    this _ n (Nat.le_refl _) hm
  intro sz
  induction sz with
  | zero =>
    intro n hn hm
    cases hcn : n.children with
    | none =>
      rw [allNodes_of_none hcn] at hm
      have := List.mem_singleton.1 hm; subst this
      rw [hc] at hcn; cases hcn
    | some ks => have := Node.size_pos_of_children hcn; omega
  | succ sz ih =>
    intro n hn hm
    cases hcn : n.children with
    | none =>
      rw [allNodes_of_none hcn] at hm
      have := List.mem_singleton.1 hm; subst this
      rw [hc] at hcn; cases hcn
    | some ks =>
      rw [allNodes_eq hcn, allNodesList_eq_flatMap] at hm ⊢
      rcases List.mem_cons.1 hm with rfl | hm
      · rw [hc] at hcn; cases hcn
        exact List.mem_cons_of_mem _ (List.mem_flatMap.2 ⟨k, hk, allNodes_self_mem k⟩)
      · obtain ⟨c, hck, hmc⟩ := List.mem_flatMap.1 hm
        have hsz : c.size ≤ sz := by
          have h1 := children_size n ks hcn
          have h2 := size_le_totalSize hck
          omega
        exact List.mem_cons_of_mem _ (List.mem_flatMap.2 ⟨c, hck, ih c hsz hmc⟩)

/-- in particular: whenever `writeExpr` in join mode is at an `x == y` node below the join
    condition, both arguments of `hasJoinTerms` are covered by `C11_parsed_join_conditions` -/
theorem C11_eq_operands_mem (e x y : Expr) (sp : Span) (op : TokKind)
    (h : Node.expr (.binary x sp op y) ∈ allNodes (.expr e)) :
    Node.expr x ∈ allNodes (.expr e) ∧ Node.expr y ∈ allNodes (.expr e) :=
  ⟨allNodes_child_mem h (kids := [.expr x, .expr y]) rfl (by simp),
   allNodes_child_mem h (kids := [.expr x, .expr y]) rfl (by simp)⟩

/-! ### non-vacuity of the parsed corollary

`A | join (B) on $left.x == $right.y`: the tokens below are what `scan` returns for this text
(`joinSrc_scan`, kernel-checked after unsealing the well-founded `scanFrom`), and the parser
model maps them, by kernel reduction, to `joinStmt`; `joinSrc_parse` is the source-level fact. -/

def joinSrc : Bytes := Bytes.ofString "A | join (B) on $left.x == $right.y"

def joinToks : List Token :=
  [⟨.ident, 0, 1, [65]⟩, ⟨.pipe, 2, 3, []⟩, ⟨.ident, 4, 8, [106, 111, 105, 110]⟩, ⟨.lparen, 9, 10, []⟩,
   ⟨.ident, 10, 11, [66]⟩, ⟨.rparen, 11, 12, []⟩, ⟨.ident, 13, 15, [111, 110]⟩,
   ⟨.ident, 16, 21, [36, 108, 101, 102, 116]⟩, ⟨.dot, 21, 22, []⟩, ⟨.ident, 22, 23, [120]⟩,
   ⟨.eq, 24, 26, []⟩, ⟨.ident, 27, 33, [36, 114, 105, 103, 104, 116]⟩, ⟨.dot, 33, 34, []⟩,
   ⟨.ident, 34, 35, [121]⟩]

unseal Pql.scanFrom in
theorem joinSrc_scan : scan joinSrc = joinToks := by decide +kernel

def joinL : Expr := .qident [⟨[36, 108, 101, 102, 116], ⟨16, 21⟩, false⟩, ⟨[120], ⟨22, 23⟩, false⟩]
def joinR : Expr := .qident [⟨[36, 114, 105, 103, 104, 116], ⟨27, 33⟩, false⟩, ⟨[121], ⟨34, 35⟩, false⟩]
def joinCond : Expr := .binary joinL ⟨24, 26⟩ .eq joinR

def joinStmt : Stmt :=
  .tabular (.mk (some ⟨[65], ⟨0, 1⟩, false⟩)
    (.cons (.join ⟨2, 3⟩ ⟨4, 8⟩ .null .null none ⟨9, 10⟩ (.mk (some ⟨[66], ⟨10, 11⟩, false⟩) .nil)
      ⟨11, 12⟩ ⟨13, 15⟩ (.cons joinCond .nil)) .nil))

theorem joinToks_parse : parseTokens 35 joinToks = ([joinStmt], []) := by rfl

/-- the same on source bytes: the hypothesis of `C11_parsed_join_conditions` holds of `joinSrc` -/
theorem joinSrc_parse : parse joinSrc = ([joinStmt], []) := by
  have hl : joinSrc.length = 35 := by decide
  show parseTokens joinSrc.length (scan joinSrc) = _
  rw [joinSrc_scan, hl]
  exact joinToks_parse

/-- All hypotheses of `C11_parsed_join_conditions_tokens` hold for the join operator of
    `A | join (B) on $left.x == $right.y` and the operands `$left.x`, `$right.y` of its `==`
    (the two actual arguments of `hasJoinTerms`); the results are `(true, false)` and
    `(false, true)`, which is why the compiler drops the `coalesce` here. -/
theorem C11_parsed_join_conditions_nonvacuous :
    parseTokens 35 joinToks = ([joinStmt], []) ∧
    Node.op (.join ⟨2, 3⟩ ⟨4, 8⟩ .null .null none ⟨9, 10⟩ (.mk (some ⟨[66], ⟨10, 11⟩, false⟩) .nil)
      ⟨11, 12⟩ ⟨13, 15⟩ (.cons joinCond .nil)) ∈ allNodes (Node.ofStmt joinStmt) ∧
    buildJoinCondition (.cons joinCond .nil) = joinCond ∧
    Node.expr joinL ∈ allNodes (.expr (buildJoinCondition (.cons joinCond .nil))) ∧
    Node.expr joinR ∈ allNodes (.expr (buildJoinCondition (.cons joinCond .nil))) ∧
    hasJoinTerms joinL = (true, false) ∧ hasJoinTerms joinR = (false, true) := by
  have hb : buildJoinCondition (.cons joinCond .nil) = joinCond := by rfl
  have hm := C11_eq_operands_mem joinCond joinL joinR ⟨24, 26⟩ .eq (allNodes_self_mem _)
  refine ⟨joinToks_parse, ?_, hb, by rw [hb]; exact hm.1, by rw [hb]; exact hm.2, by decide, by decide⟩
  refine allNodes_child_mem (m := Node.ofStmt joinStmt) (allNodes_self_mem _) rfl ?_
  simp [OpList.toList]

end Pql.Glue
