/-
Property C11, tie by translation: what a case of `Walk` pushes.

`tablePushes` (Model/AstIR.lean) is the reading of the push statements of a case from the regenerated
tables `Facts.walkCases` / `Facts.walkLoops` (one:F, opt:F — nil test at the static type of the field,
from `Facts.structFields` —, rev:F — the loop `for i := len(x.F)-1; i >= 0; i--` —, revloop:F).  This
file proves that for every node the pushes are the model's `Node.children` in reverse (the stack pops
them in visiting order), and that the case panics exactly where `children` is `none`.
-/
import PqlModel.Props.C10SpanIR
namespace Pql.AstIR
open Pql
set_option linter.unusedSimpArgs false

theorem pushSeq_pure {α : Type} (f : α → M (List GNode)) (g : α → List GNode) :
    ∀ l : List α, (∀ a ∈ l, f a = pure (g a)) → pushSeq f l = pure (l.flatMap g)
  | [], _ => rfl
  | a :: l, h => by
    simp only [pushSeq, h a (List.mem_cons_self ..), pushSeq_pure f g l (fun b hb => h b (List.mem_cons_of_mem _ hb)),
      pure_bind, List.flatMap_cons]

/-- the counting-down loop visits the first `k` elements, last first -/
theorem downLoop_eq (cs : List GNode) (body : GNode → M (List GNode)) :
    ∀ k, k ≤ cs.length → downLoop cs body k = pushSeq body (cs.take k).reverse
  | 0, _ => by simp [downLoop, pushSeq]
  | k + 1, h => by
    have hk : k < cs.length := by omega
    have hg : cs[k]? = some cs[k] := List.getElem?_eq_getElem hk
    rw [downLoop, hg, List.take_add_one, hg]
    simp only [Option.toList_some, List.reverse_append, List.reverse_cons, List.reverse_nil, List.nil_append,
      List.singleton_append, pushSeq, downLoop_eq cs body k (by omega)]

/-- `for i := len(cs)-1; i >= 0; i-- { stack = append(stack, cs[i]) }` -/
theorem downLoop_all (cs : List GNode) (body : GNode → M (List GNode)) (k : Nat) (h : k = cs.length) :
    downLoop cs body k = pushSeq body cs.reverse := by
  subst h
  rw [downLoop_eq cs _ cs.length (Nat.le_refl _), List.take_length]

theorem rev_push (cs : List GNode) (k : Nat) (h : k = cs.length) :
    downLoop cs (fun c => pure [c]) k = pure cs.reverse := by
  rw [downLoop_all cs _ k h, pushSeq_pure (fun c => pure [c]) (fun c => [c]) _ (fun _ _ => rfl)]
  simp

/-- what the case for the dynamic type of `x` pushes, from the tables -/
def pushesOf (x : Node) : M (List GNode) :=
  match (GNode.node x).goType with
  | some ty =>
    match Facts.walkCases.find? (·.1 == ty) with
    | some (_, pushes) => tablePushes ty pushes (.node x)
    | none => stuck
  | none => stuck

theorem nilIface_expr (e : Expr) : (GNode.node (.expr e)).isNilIface = true ↔ e = .nil := by
  cases e <;> simp [GNode.isNilIface, GNode.goType]

theorem nilPtr_ident (i : Option Ident) : (GNode.node (.ident i)).isNilPtr = true ↔ i = none := by
  cases i <;> simp [GNode.isNilPtr, GNode.fields]

theorem optExpr_eq (e : Expr) :
    (if (GNode.node (.expr e)).isNilIface = true then [] else [GNode.node (.expr e)]) = (optExpr e).map .node := by
  cases e <;> simp [GNode.isNilIface, GNode.goType, optExpr]

theorem optIdent_eq (i : Option Ident) :
    (if (GNode.node (.ident i)).isNilPtr = true then [] else [GNode.node (.ident i)]) = (optIdent i).map .node := by
  cases i <;> simp [GNode.isNilPtr, GNode.fields, optIdent]

theorem optExpr_reverse (e : Expr) : (optExpr e).reverse = optExpr e := by cases e <;> rfl

theorem optExprG_reverse (e : Expr) : ((optExpr e).map GNode.node).reverse = (optExpr e).map .node := by
  cases e <;> rfl

theorem optIdentG_reverse (i : Option Ident) : ((optIdent i).map GNode.node).reverse = (optIdent i).map .node := by
  cases i <;> rfl

/-- the element-wise loop of the RenderOperator case on one property -/
theorem elemPushes_prop (p : RenderProp) :
    elemPushes [("opt", "Value"), ("one", "Name")] (.prop p) =
      pure ((optExpr p.value).map .node ++ [.node (.ident p.name)]) := by
  simp [elemPushes, GNode.goType, GNode.fields, pushSeq, pushOne, lookupField, List.find?, fieldType, Facts.structFields,
    isNilAt, ifaceTypes, vExpr, vIdent, pure_bind, optExpr_eq]

syntax "push_case" (" [" Lean.Parser.Tactic.simpLemma,* "]")? : tactic
macro_rules
  | `(tactic| push_case) => `(tactic| push_case [])
  | `(tactic| push_case [$ls,*]) =>
    `(tactic| simp [pushesOf, GNode.goType, GNode.fields, Facts.walkCases, Facts.walkLoops, List.find?, tablePushes, pushSeq,
        pushStep, pushOne, lookupField, fieldType, Facts.structFields, isNilAt, ifaceTypes, Node.children, rev_push,
        vExpr, vIdent, vExprs, vCols, pure_bind, panic_bind, optExpr_eq, optIdent_eq, List.map_reverse, Function.comp_def, optExprG_reverse, optIdentG_reverse, $ls,*])

/-- **the pushes of every case are the model's children, reversed**; the case panics exactly where the
    model's `children` is `none` (a nil `*TabularExpr` or `*SortTerm`) -/
theorem pushesOf_eq : (x : Node) → x ≠ .expr .nil →
    pushesOf x = match x.children with
      | some kids => pure (kids.reverse.map .node)
      | none => goPanic
  | .ident _, _ => by push_case
  | .expr .nil, h => absurd rfl h
  | .expr (.qident parts), _ => by push_case
  | .expr (.lit ..), _ => by push_case
  | .expr (.unary ..), _ => by push_case
  | .expr (.binary ..), _ => by push_case
  | .expr (.inE ..), _ => by push_case
  | .expr (.paren ..), _ => by push_case
  | .expr (.call ..), _ => by push_case
  | .expr (.index ..), _ => by push_case
  | .tabular .nil, _ => by push_case
  | .tabular (.mk ..), _ => by push_case
  | .tableRef _, _ => by push_case
  | .op (.count ..), _ => by push_case
  | .op (.where_ ..), _ => by push_case
  | .op (.sort ..), _ => by push_case
  | .op (.take ..), _ => by push_case
  | .op (.top ..), _ => by push_case
  | .op (.project ..), _ => by push_case
  | .op (.extend ..), _ => by push_case
  | .op (.summarize ..), _ => by push_case
  | .op (.join ..), _ => by push_case
  | .op (.as_ ..), _ => by push_case
  | .op (.render p k ch w lp props rp), _ => by
    push_case
    rw [downLoop_all _ _ _ (by simp),
      pushSeq_pure _ (fun g => match g with
        | .prop p => (optExpr p.value).map .node ++ [.node (.ident p.name)]
        | g => [g]) _ ?_]
    · simp [pure_bind, List.reverse_flatMap, ← List.map_reverse, List.flatMap_map, Function.comp_def, optExprG_reverse, optExpr_reverse,
        List.map_flatMap]
    · intro g hg
      simp only [List.mem_reverse, List.mem_map] at hg
      obtain ⟨q, _, rfl⟩ := hg
      exact elemPushes_prop q
  | .sortTerm none, _ => by push_case
  | .sortTerm (some _), _ => by push_case
  | .column .project c, _ => by push_case
  | .column .extend c, _ => by push_case
  | .column .summarize c, _ => by push_case
  | .letStmt .., _ => by push_case

end Pql.AstIR
