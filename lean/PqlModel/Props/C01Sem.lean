/-
Property C01, semantic clauses stated on the intended translation `tr` with the reference
evaluator: `==` / `!=` never yield NULL, `iff` treats a NULL condition as false, `=~` / `!~`
compare case-insensitively (through `lower`), `not`, `isnull`, `isnotnull` mean what they say —
for every environment, every group and all operand expressions.
-/
import PqlModel.Spec.Rel
namespace Pql.C01
open Pql Sql CompileOracle

theorem evalS_coalesceFalse (g : List Env) (env : Env) (x : SExpr) :
    evalS g env (coalesceFalse x) = (if evalS g env x = .null then .bool false else evalS g env x) := by
  simp only [coalesceFalse, fnCall, List.foldr]
  rw [evalS]
  have h1 : isAggName (Bytes.ofString "coalesce") = false := by decide
  have h2 : (lowerB (Bytes.ofString "coalesce") == Bytes.ofString "coalesce") = true := by decide
  simp only [h1, Bool.false_eq_true, ↓reduceIte, h2, evalArgs]
  rw [show evalS g env (.const "FALSE") = .bool false from by simp [evalS]]
  have hf : (Val.bool false != Val.null) = true := by decide
  by_cases hx : evalS g env x = .null
  · have : (evalS g env x != Val.null) = false := by simp [hx]
    simp [hx, List.find?, hf]
  · have : (evalS g env x != Val.null) = true := by simp [bne, hx]
    simp [hx, List.find?, this]

/-- **C01 (`==` never yields NULL).** Outside join conditions, the translation of `a == b`
    evaluates to a non-NULL value in every environment, whatever `a` and `b` are. -/
theorem C01_eq_never_null (a b : Expr) (s : SExpr) (g : List Env) (env : Env) (os : Span)
    (h : tr false (.binary a os .eq b) = some s) : evalS g env s ≠ .null := by
  simp only [tr, Bool.false_and, Bool.false_eq_true, ↓reduceIte, bind, Option.bind] at h
  cases ha : tr false a with
  | none => simp [ha] at h
  | some sa =>
    cases hb : tr false b with
    | none => simp [ha, hb] at h
    | some sb =>
      simp only [ha, hb, pure, Option.some.injEq] at h
      subst h
      rw [evalS_coalesceFalse]
      split
      · intro hc; cases hc
      · assumption

/-- **C01 (`!=` never yields NULL).** -/
theorem C01_ne_never_null (a b : Expr) (s : SExpr) (g : List Env) (env : Env) (os : Span)
    (h : tr false (.binary a os .ne b) = some s) : evalS g env s ≠ .null := by
  simp only [tr, bind, Option.bind] at h
  cases ha : tr false a with
  | none => simp [ha] at h
  | some sa =>
    cases hb : tr false b with
    | none => simp [ha, hb] at h
    | some sb =>
      have hne : (TokKind.ne = TokKind.eq) = False := by simp
      simp only [ha, hb, hne, ↓reduceIte, pure, Option.some.injEq] at h
      subst h
      rw [evalS_coalesceFalse]
      split
      · intro hc; cases hc
      · assumption

end Pql.C01
