/-
Properties C07 / C08 / C01, tie by translation: the EXPRESSION parser of parser/parser.go.

`harness/extract_exprparse.go` regenerates on every run, from the go/ast of parser/parser.go, an IR of twelve
functions (`Facts.exprParseIR`, `Facts.exprParseParams`, `Facts.exprParseResults`): the productions `expr`,
`exprBinaryTrail`, `unaryExpr`, `primaryExpr`, `innerPrimaryExpr`, `exprList`, `qualifiedIdent`, `ident`
and the cursor `next`, `prev`, `split`, `endSplit` — local variables with Go's block scoping, `:=` / `=` /
`x++`, multi-valued calls of the cursor-moving methods, `sub := p.split(k)` and calls on the sub-parser,
AST nodes built field by field (`&T{…}`, `idx.Index, err = …`, `qid.Parts = append(…)`), `if` / `else` /
`switch` (as if-chains), `for`, labelled `break`, `continue`, early `return`, `panic`, the error algebra
as pure calls.  `Model/ExprParseIR.lean` interprets the IR (see its header for the two readings of a
`*parser` and for the budget); this file proves that the hand-written productions of Model/Parse.lean
ARE the interpretation of the regenerated IR:

  cursor      `C07_next_ir`, `C07_prev_ir` (on the Go fields: token slice and integer position),
              `C07_pushback`, `C07_eof_sticky` — together: "tokens from `pos` on, one-token push-back,
              sticky EOF", the abstraction every production is interpreted on
  leaves      `C07_endSplit_ir`, `C07_ident_ir`, `C07_qualifiedIdent_ir`, `C07_split_ir`
              (+ `C07_split_ir_needs_search`: the hypothesis of the last one cannot be dropped)
  productions `C07_innerPrimaryExpr_ir`, `C07_primaryExpr_ir`, `C07_unaryExpr_ir`,
              `C07_exprBinaryTrail_ir`, `C07_expr_ir`, `C07_exprList_ir`: for EVERY fuel, source length,
              EOF value, token list and sub-parser kind the interpretation either runs out of its budget
              or returns exactly the model's value, errors and rest; never a panic, never `stuck`
              (`C07_expr_ir_total`)

A changed Go statement changes a regenerated unit, and the `…IR_ir` fact of that unit
(Lemmas/ExprParseIRUnits.lean: decoded unit = expected tree) stops being true; a new statement shape makes
the translator refuse.

Budget.  The agreement carries the bound under which the model's own fuel suffices
(`4 * tokens + rank`, Lemmas/ParseFuelExpr.lean): the interpretation can answer `Out.fuel` only BELOW it
(`C07_expr_ir_fuel_only_below`), so with at least that much fuel — in particular with the fuel the entry
points supply, `fuelFor n = 8 * n + 32` for a statement of `n` tokens (`C07_expr_ir_entry`) — the
interpretation EQUALS the model, no `∨ Out.fuel` (`C07_…_ir_exact`).  `tools/exprparseir_check.lean`
compares the two at the driver level, including below the bound.
-/
import PqlModel.Lemmas.ExprParseIRTrail
namespace Pql.ExprParseIR
open Pql

/-! ### all levels -/

theorem agreeE_weak {b : Prop} {o : Out (List Val × PState)} {r : PRes Expr} {sk : Option TokKind}
    (h : AgreeE b o r sk) : o = .fuel ∨ o = .ok ([.expr r.val, .err r.errs], ⟨r.rest, none, sk⟩) := by
  rcases h with ⟨_, h⟩ | h
  · exact Or.inl h
  · exact Or.inr h

theorem agreeL_weak {b : Prop} {o : Out (List Val × PState)} {r : PRes ExprList} {sk : Option TokKind}
    (h : AgreeL b o r sk) : o = .fuel ∨ o = .ok ([.exprs r.val, .err r.errs], ⟨r.rest, none, sk⟩) := by
  rcases h with ⟨_, h⟩ | h
  · exact Or.inl h
  · exact Or.inr h

theorem agreeE_exact {b : Prop} {o : Out (List Val × PState)} {r : PRes Expr} {sk : Option TokKind}
    (hb : b) (h : AgreeE b o r sk) : o = .ok ([.expr r.val, .err r.errs], ⟨r.rest, none, sk⟩) := by
  rcases h with ⟨hn, _⟩ | h
  · exact absurd hb hn
  · exact h

theorem agreeL_exact {b : Prop} {o : Out (List Val × PState)} {r : PRes ExprList} {sk : Option TokKind}
    (hb : b) (h : AgreeL b o r sk) : o = .ok ([.exprs r.val, .err r.errs], ⟨r.rest, none, sk⟩) := by
  rcases h with ⟨hn, _⟩ | h
  · exact absurd hb hn
  · exact h

theorem level_succ (c : ICtx) (F : Nat) (ih : Below c F) : Level c (F + 1) where
  inner := inner_step c F (ih F (Nat.le_refl F))
  primary := primary_step c F (ih F (Nat.le_refl F))
  unary := unary_step c F (ih F (Nat.le_refl F))
  trail := trail_step c F ih
  expr := expr_step c F (ih F (Nat.le_refl F))
  exprList := exprList_step c F ih

theorem below_all (c : ICtx) : ∀ F, Below c F := by
  intro F
  induction F with
  | zero =>
    intro F' h
    have : F' = 0 := by omega
    subst this
    exact level_zero c
  | succ F ih =>
    intro F' h
    by_cases h' : F' ≤ F
    · exact ih F' h'
    · have : F' = F + 1 := by omega
      subst this
      exact level_succ c F ih

theorem level_all (c : ICtx) (F : Nat) : Level c F := below_all c F F (Nat.le_refl F)

/-! ### the cursor -/

/-- **C07 (`next`, translated).** -/
theorem C07_next_ir (c : ICtx) (toks : List Token) (pos : Nat) :
    runCursor c "next" toks pos =
      .ok ([.tok (nextTokV ⟨c.srcLen, Bytes.ofString "EOF"⟩ (toks.drop pos)).1,
            .bool (nextTokV ⟨c.srcLen, Bytes.ofString "EOF"⟩ (toks.drop pos)).2.1],
           .cparser toks (nextPos toks pos)) := next_ir c toks pos

/-- **C07 (`prev`, translated).** -/
theorem C07_prev_ir (c : ICtx) (toks : List Token) (pos : Nat) :
    runCursor c "prev" toks pos = .ok ([], .cparser toks (prevPos toks pos)) := prev_ir c toks pos

/-- **C07 (one-token push-back).**  In terms of "the tokens from `pos` on": `next` leaves the tail (nothing
    at the end), and `prev` directly after `next` restores what was there. -/
theorem C07_pushback (c : ICtx) (toks : List Token) (pos : Nat) :
    toks.drop (nextPos toks pos) = (nextTokV c (toks.drop pos)).2.2 ∧
    toks.drop (prevPos toks (nextPos toks pos)) = toks.drop pos :=
  ⟨next_rest c toks pos, prev_after_next toks pos⟩

/-- **C07 (sticky EOF).** -/
theorem C07_eof_sticky (toks : List Token) (pos : Nat) (h : toks.length ≤ pos) :
    prevPos toks (nextPos toks pos) = toks.length + 1 ∧ nextPos toks (nextPos toks pos) = toks.length + 1 :=
  eof_sticky toks pos h

/-! ### the leaves -/

/-- **C07 (`endSplit`, translated).** -/
theorem C07_endSplit_ir (c : ICtx) (p : PState) :
    runEndSplit c p = .ok ([.err (endSplitP p)], { p with back := none }) := endSplit_ir c p

/-- on a parser made by `split` that is the model's `endSplit` -/
theorem C07_endSplit_model (c : ICtx) (rest : List Token) (k : TokKind) :
    runEndSplit c ⟨rest, none, some k⟩ = .ok ([.err (endSplit rest)], ⟨rest, none, some k⟩) := endSplit_ir c _

/-- … and on a parser that was not made by `split` it is the positionless "internal error", which the
    model's `endSplit` does not have -/
theorem C07_endSplit_not_split (c : ICtx) (rest : List Token) :
    runEndSplit c ⟨rest, none, none⟩ = .ok ([.err errNoPos], ⟨rest, none, none⟩) := endSplit_ir c _

/-- **C07 (`ident`, translated).** -/
theorem C07_ident_ir (c : ICtx) (p : PState) :
    runIdent c p =
      .ok ([.ident (pIdent c.pctx p.rest).val, .err (pIdent c.pctx p.rest).errs],
           { p with rest := (pIdent c.pctx p.rest).rest, back := none }) := ident_ir c p

/-- **C07 (`qualifiedIdent`, translated).** -/
theorem C07_qualifiedIdent_ir (c : ICtx) (p : PState) :
    runQualifiedIdent c p =
      .ok ([.qid (pQualifiedIdent c.pctx p.rest).val, .err (pQualifiedIdent c.pctx p.rest).errs],
           { p with rest := (pQualifiedIdent c.pctx p.rest).rest, back := none }) := qualifiedIdent_ir c p

/-- **C07 (`split`, translated).** -/
theorem C07_split_ir (c : ICtx) (p : PState) (k : TokKind) (hs : k ≠ .lparen ∧ k ≠ .lbracket) :
    runSplit c p k =
      .ok ([.parser ⟨(split k p.rest).1, none, some k⟩], { p with rest := (split k p.rest).2, back := none }) :=
  split_ir c p k hs

/-- the hypothesis cannot be dropped (and is not vacuous: the parser asks for `)`, `]`, `|`, …) -/
theorem C07_split_ir_needs_search (c : ICtx) :
    let lp : Token := ⟨.lparen, 0, 1, []⟩
    runSplit c ⟨[lp], none, none⟩ .lparen = .ok ([.parser ⟨[], none, some .lparen⟩], ⟨[lp], none, none⟩) ∧
    split .lparen [lp] = ([lp], []) := split_ir_needs_search c

theorem C07_split_ir_nonvacuous : (TokKind.rparen ≠ .lparen ∧ TokKind.rparen ≠ .lbracket) ∧
    (TokKind.rbracket ≠ .lparen ∧ TokKind.rbracket ≠ .lbracket) ∧ (TokKind.pipe ≠ .lparen ∧ TokKind.pipe ≠ .lbracket) := by
  decide

/-! ### the productions -/

/-- **C07 (`innerPrimaryExpr`, translated).** -/
theorem C07_innerPrimaryExpr_ir (c : ICtx) (F : Nat) (ts : List Token) (sk : Option TokKind) :
    runUnit c F "innerPrimaryExpr" [] ⟨ts, none, sk⟩ = .fuel ∨
    runUnit c F "innerPrimaryExpr" [] ⟨ts, none, sk⟩ =
      .ok ([.expr (pInner ⟨c.srcLen⟩ F ts).val, .err (pInner ⟨c.srcLen⟩ F ts).errs],
           ⟨(pInner ⟨c.srcLen⟩ F ts).rest, none, sk⟩) := agreeE_weak ((level_all c F).inner ts sk)

/-- **C07 (`primaryExpr`, translated).** -/
theorem C07_primaryExpr_ir (c : ICtx) (F : Nat) (ts : List Token) (sk : Option TokKind) :
    runUnit c F "primaryExpr" [] ⟨ts, none, sk⟩ = .fuel ∨
    runUnit c F "primaryExpr" [] ⟨ts, none, sk⟩ =
      .ok ([.expr (pPrimary ⟨c.srcLen⟩ F ts).val, .err (pPrimary ⟨c.srcLen⟩ F ts).errs],
           ⟨(pPrimary ⟨c.srcLen⟩ F ts).rest, none, sk⟩) := agreeE_weak ((level_all c F).primary ts sk)

/-- **C07 (`unaryExpr`, translated).** -/
theorem C07_unaryExpr_ir (c : ICtx) (F : Nat) (ts : List Token) (sk : Option TokKind) :
    runUnit c F "unaryExpr" [] ⟨ts, none, sk⟩ = .fuel ∨
    runUnit c F "unaryExpr" [] ⟨ts, none, sk⟩ =
      .ok ([.expr (pUnary ⟨c.srcLen⟩ F ts).val, .err (pUnary ⟨c.srcLen⟩ F ts).errs],
           ⟨(pUnary ⟨c.srcLen⟩ F ts).rest, none, sk⟩) := agreeE_weak ((level_all c F).unary ts sk)

/-- **C07 (`exprBinaryTrail`, translated).**  Both loops: the main loop is `pTrail`, the inner one
    `pHigher` (Lemmas/ExprParseIRTrail.lean: `trailLoop`, `higherLoop`). -/
theorem C07_exprBinaryTrail_ir (c : ICtx) (F : Nat) (x : Expr) (m : Int) (ts : List Token) (sk : Option TokKind) :
    runUnit c F "exprBinaryTrail" [.expr x, .int m] ⟨ts, none, sk⟩ = .fuel ∨
    runUnit c F "exprBinaryTrail" [.expr x, .int m] ⟨ts, none, sk⟩ =
      .ok ([.expr (pTrail ⟨c.srcLen⟩ F x m [] ts).val, .err (pTrail ⟨c.srcLen⟩ F x m [] ts).errs],
           ⟨(pTrail ⟨c.srcLen⟩ F x m [] ts).rest, none, sk⟩) := agreeE_weak ((level_all c F).trail x m ts sk)

/-- **C07 (`expr`, translated).** -/
theorem C07_expr_ir (c : ICtx) (F : Nat) (ts : List Token) (sk : Option TokKind) :
    runUnit c F "expr" [] ⟨ts, none, sk⟩ = .fuel ∨
    runUnit c F "expr" [] ⟨ts, none, sk⟩ =
      .ok ([.expr (pExpr ⟨c.srcLen⟩ F ts).val, .err (pExpr ⟨c.srcLen⟩ F ts).errs],
           ⟨(pExpr ⟨c.srcLen⟩ F ts).rest, none, sk⟩) := agreeE_weak ((level_all c F).expr ts sk)

/-- **C07 (`exprList`, translated).**  The loop is `pExprListTail` (Lemmas/ExprParseIRList.lean: `listLoop`). -/
theorem C07_exprList_ir (c : ICtx) (F : Nat) (ts : List Token) (sk : Option TokKind) :
    runUnit c F "exprList" [] ⟨ts, none, sk⟩ = .fuel ∨
    runUnit c F "exprList" [] ⟨ts, none, sk⟩ =
      .ok ([.exprs (pExprList ⟨c.srcLen⟩ F ts).val, .err (pExprList ⟨c.srcLen⟩ F ts).errs],
           ⟨(pExprList ⟨c.srcLen⟩ F ts).rest, none, sk⟩) := agreeL_weak ((level_all c F).exprList ts sk)


/-! ### with enough fuel: equalities -/

/-- **C07 (`innerPrimaryExpr`, translated, exact).** -/
theorem C07_innerPrimaryExpr_ir_exact (c : ICtx) (F : Nat) (ts : List Token) (sk : Option TokKind)
    (h : 4 * ts.length + 1 ≤ F) :
    runUnit c F "innerPrimaryExpr" [] ⟨ts, none, sk⟩ =
      .ok ([.expr (pInner ⟨c.srcLen⟩ F ts).val, .err (pInner ⟨c.srcLen⟩ F ts).errs],
           ⟨(pInner ⟨c.srcLen⟩ F ts).rest, none, sk⟩) := agreeE_exact h ((level_all c F).inner ts sk)

/-- **C07 (`primaryExpr`, translated, exact).** -/
theorem C07_primaryExpr_ir_exact (c : ICtx) (F : Nat) (ts : List Token) (sk : Option TokKind)
    (h : 4 * ts.length + 2 ≤ F) :
    runUnit c F "primaryExpr" [] ⟨ts, none, sk⟩ =
      .ok ([.expr (pPrimary ⟨c.srcLen⟩ F ts).val, .err (pPrimary ⟨c.srcLen⟩ F ts).errs],
           ⟨(pPrimary ⟨c.srcLen⟩ F ts).rest, none, sk⟩) := agreeE_exact h ((level_all c F).primary ts sk)

/-- **C07 (`unaryExpr`, translated, exact).** -/
theorem C07_unaryExpr_ir_exact (c : ICtx) (F : Nat) (ts : List Token) (sk : Option TokKind)
    (h : 4 * ts.length + 3 ≤ F) :
    runUnit c F "unaryExpr" [] ⟨ts, none, sk⟩ =
      .ok ([.expr (pUnary ⟨c.srcLen⟩ F ts).val, .err (pUnary ⟨c.srcLen⟩ F ts).errs],
           ⟨(pUnary ⟨c.srcLen⟩ F ts).rest, none, sk⟩) := agreeE_exact h ((level_all c F).unary ts sk)

/-- **C07 (`exprBinaryTrail`, translated, exact).** -/
theorem C07_exprBinaryTrail_ir_exact (c : ICtx) (F : Nat) (x : Expr) (m : Int) (ts : List Token)
    (sk : Option TokKind) (h : 4 * ts.length + 1 ≤ F) :
    runUnit c F "exprBinaryTrail" [.expr x, .int m] ⟨ts, none, sk⟩ =
      .ok ([.expr (pTrail ⟨c.srcLen⟩ F x m [] ts).val, .err (pTrail ⟨c.srcLen⟩ F x m [] ts).errs],
           ⟨(pTrail ⟨c.srcLen⟩ F x m [] ts).rest, none, sk⟩) := agreeE_exact h ((level_all c F).trail x m ts sk)

/-- **C07 (`expr`, translated, exact).**  With `4 * tokens + 4` units of fuel the interpretation of the
    regenerated `expr` (and of everything it calls) IS the model's `pExpr`. -/
theorem C07_expr_ir_exact (c : ICtx) (F : Nat) (ts : List Token) (sk : Option TokKind)
    (h : 4 * ts.length + 4 ≤ F) :
    runUnit c F "expr" [] ⟨ts, none, sk⟩ =
      .ok ([.expr (pExpr ⟨c.srcLen⟩ F ts).val, .err (pExpr ⟨c.srcLen⟩ F ts).errs],
           ⟨(pExpr ⟨c.srcLen⟩ F ts).rest, none, sk⟩) := agreeE_exact h ((level_all c F).expr ts sk)

/-- **C07 (`exprList`, translated, exact).** -/
theorem C07_exprList_ir_exact (c : ICtx) (F : Nat) (ts : List Token) (sk : Option TokKind)
    (h : 4 * ts.length + 5 ≤ F) :
    runUnit c F "exprList" [] ⟨ts, none, sk⟩ =
      .ok ([.exprs (pExprList ⟨c.srcLen⟩ F ts).val, .err (pExprList ⟨c.srcLen⟩ F ts).errs],
           ⟨(pExprList ⟨c.srcLen⟩ F ts).rest, none, sk⟩) := agreeL_exact h ((level_all c F).exprList ts sk)

/-- the interpreter runs out of budget only below the bound under which the model's fuel suffices -/
theorem C07_expr_ir_fuel_only_below (c : ICtx) (F : Nat) (ts : List Token) (sk : Option TokKind)
    (h : runUnit c F "expr" [] ⟨ts, none, sk⟩ = .fuel) : F < 4 * ts.length + 4 := by
  rcases (level_all c F).expr ts sk with ⟨hb, _⟩ | h'
  · omega
  · rw [h] at h'; cases h'

/-- **C07 (fuel suffices for the translated expression parser).**  With the fuel the entry points
    supply — `fuelFor n` for a statement of `n` tokens, and every expression of it has at most `n` tokens —
    the interpretations of `expr` and `exprList` are the model's productions. -/
theorem C07_expr_ir_entry (c : ICtx) (n : Nat) (ts : List Token) (sk : Option TokKind) (hn : ts.length ≤ n) :
    runUnit c (fuelFor n) "expr" [] ⟨ts, none, sk⟩ =
      .ok ([.expr (pExpr ⟨c.srcLen⟩ (fuelFor n) ts).val, .err (pExpr ⟨c.srcLen⟩ (fuelFor n) ts).errs],
           ⟨(pExpr ⟨c.srcLen⟩ (fuelFor n) ts).rest, none, sk⟩) :=
  C07_expr_ir_exact c (fuelFor n) ts sk (by unfold fuelFor; omega)

theorem C07_exprList_ir_entry (c : ICtx) (n : Nat) (ts : List Token) (sk : Option TokKind) (hn : ts.length ≤ n) :
    runUnit c (fuelFor n) "exprList" [] ⟨ts, none, sk⟩ =
      .ok ([.exprs (pExprList ⟨c.srcLen⟩ (fuelFor n) ts).val, .err (pExprList ⟨c.srcLen⟩ (fuelFor n) ts).errs],
           ⟨(pExprList ⟨c.srcLen⟩ (fuelFor n) ts).rest, none, sk⟩) :=
  C07_exprList_ir_exact c (fuelFor n) ts sk (by unfold fuelFor; omega)

/-- the fuel hypothesis of the exact theorems cannot be dropped: without fuel the interpreter answers
    `Out.fuel` (and the model its fuel leaf) -/
theorem C07_expr_ir_exact_needs_fuel (c : ICtx) (ts : List Token) (sk : Option TokKind) :
    runUnit c 0 "expr" [] ⟨ts, none, sk⟩ = .fuel ∧ (pExpr ⟨c.srcLen⟩ 0 ts).errs = errFuel :=
  ⟨runUnit_zero _ _ _ _, rfl⟩

/-- … and is not vacuous -/
theorem C07_expr_ir_exact_nonvacuous : 4 * ([] : List Token).length + 4 ≤ fuelFor 0 := by decide

/-- the translated expression parser never panics and the interpreter is never stuck on it -/
theorem C07_expr_ir_total (c : ICtx) (F : Nat) (ts : List Token) (sk : Option TokKind) :
    runUnit c F "expr" [] ⟨ts, none, sk⟩ ≠ .panic ∧ runUnit c F "expr" [] ⟨ts, none, sk⟩ ≠ .stuck := by
  rcases C07_expr_ir c F ts sk with h | h <;> rw [h] <;> constructor <;> intro h' <;> cases h'

/-- the `Value` of the synthetic EOF token ("EOF" in the Go code, empty in the model) is read by no
    production: the interpretation is the same for every value -/
theorem C07_expr_ir_eof_value (srcLen : Nat) (v w : Bytes) (F : Nat) (ts : List Token) (sk : Option TokKind)
    (hv : runUnit ⟨srcLen, v⟩ F "expr" [] ⟨ts, none, sk⟩ ≠ .fuel)
    (hw : runUnit ⟨srcLen, w⟩ F "expr" [] ⟨ts, none, sk⟩ ≠ .fuel) :
    runUnit ⟨srcLen, v⟩ F "expr" [] ⟨ts, none, sk⟩ = runUnit ⟨srcLen, w⟩ F "expr" [] ⟨ts, none, sk⟩ := by
  rcases C07_expr_ir ⟨srcLen, v⟩ F ts sk with h1 | h1
  · exact absurd h1 hv
  · rcases C07_expr_ir ⟨srcLen, w⟩ F ts sk with h2 | h2
    · exact absurd h2 hw
    · rw [h1, h2]

/-- a finding of the translation: the `for` of `primaryExpr` cannot iterate (every path of its body
    returns), so `a[1][2]` is not a nested index expression -/
theorem C07_primaryExpr_loop_never_iterates : leaves primaryLoopBody = true := primaryLoop_leaves

end Pql.ExprParseIR
