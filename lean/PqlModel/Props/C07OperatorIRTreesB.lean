/-
Property C07/C08/C10/C13, tie by translation: the EXPECTED statement trees of the statement and operator
level of parser/parser.go (joinOperator, letStatement, tabularExpr, firstParse, Parse).

`harness/extract_parse.go` regenerates `Facts.parseIR` from the Go source on every run;
`Model/ParseIRSyntax.lean` decodes it.  Each `…_ir` theorem says that what is regenerated for one Go
function decodes to the tree written here, which is the one the semantic theorems of
Props/C07OperatorIR*.lean are about: an edit of the Go function changes the regenerated IR and that
function's `_ir` theorem stops building.  (The trees were printed from the decoder once and are kept
as text; nothing here is regenerated.)
-/
import PqlModel.Model.ParseIR
namespace Pql.OpIR
open Pql


def joinOperatorBody : List IStmt :=
  [.assign
     (.def_ "op")
     (.withFld
       (.withFld
         (.withFld
           (.withFld
             (.withFld
               (.withFld
                 (.withFld (.new "JoinOperator") "Pipe" (.fld "Span" (.var "pipe")))
                 "Keyword"
                 (.fld "Span" (.var "keyword")))
               "Kind"
               (.nullSpan))
             "KindAssign"
             (.nullSpan))
           "Lparen"
           (.nullSpan))
         "Rparen"
         (.nullSpan))
       "On"
       (.nullSpan)),
   .call "p" "next" [.def_ "tok", .def_ "ok"] [],
   .ite
     (.not (.truth (.var "ok")))
     [.ret [.var "op", .perr "p" false (.eofSpan "p")]]
     [],
   .varDecl "finalError" "error",
   .ite
     (.and
       (.eq (.fld "Kind" (.var "tok")) (.kind "TokenIdentifier"))
       (.eq (.fld "Value" (.var "tok")) (.str "kind")))
     [.assign (.fset "op" "Kind") (.fld "Span" (.var "tok")),
      .call "p" "next" [.set "tok", .blank] [],
      .ite
        (.ne (.fld "Kind" (.var "tok")) (.kind "TokenAssign"))
        [.ret
           [.var "op",
            .join
              (.var "finalError")
              (.perr "p" false (.fld "Span" (.var "tok")))]]
        [],
      .assign (.fset "op" "KindAssign") (.fld "Span" (.var "tok")),
      .call "p" "next" [.set "tok", .blank] [],
      .ite
        (.ne (.fld "Kind" (.var "tok")) (.kind "TokenIdentifier"))
        [.ret
           [.var "op",
            .join
              (.var "finalError")
              (.perr "p" false (.fld "Span" (.var "tok")))]]
        [],
      .assign
        (.fset "op" "Flavor")
        (.withFld
          (.withFld (.new "Ident") "Name" (.fld "Value" (.var "tok")))
          "NameSpan"
          (.fld "Span" (.var "tok"))),
      .scope
        [.mapOk "ok" "joinTypes" (.fld "Value" (.var "tok")),
         .ite
           (.not (.truth (.var "ok")))
           [.msgOnly "def" "joinTypeList",
            .msgOnly "sort" "joinTypeList",
            .assign
              (.set "finalError")
              (.join
                (.var "finalError")
                (.perr "p" false (.fld "Span" (.var "tok"))))]
           []]]
     [.prev "p"],
   .call "p" "next" [.set "tok", .blank] [],
   .ite
     (.ne (.fld "Kind" (.var "tok")) (.kind "TokenLParen"))
     [.ret
        [.var "op",
         .join (.var "finalError") (.perr "p" false (.fld "Span" (.var "tok")))]]
     [],
   .assign (.fset "op" "Lparen") (.fld "Span" (.var "tok")),
   .call "p" "split" [.def_ "rightParser"] [.kind "TokenRParen"],
   .varDecl "err" "error",
   .call "rightParser" "tabularExpr" [.fset "op" "Right", .set "err"] [],
   .assign
     (.set "finalError")
     (.join
       (.join (.var "finalError") (.opaque (.var "err")))
       (.endSplit "rightParser")),
   .call "p" "next" [.set "tok", .blank] [],
   .ite
     (.ne (.fld "Kind" (.var "tok")) (.kind "TokenRParen"))
     [.ret
        [.var "op",
         .join (.var "finalError") (.perr "p" false (.fld "Span" (.var "tok")))]]
     [],
   .assign (.fset "op" "Rparen") (.fld "Span" (.var "tok")),
   .call "p" "next" [.set "tok", .blank] [],
   .ite
     (.or
       (.ne (.fld "Kind" (.var "tok")) (.kind "TokenIdentifier"))
       (.ne (.fld "Value" (.var "tok")) (.str "on")))
     [.ret
        [.var "op",
         .join (.var "finalError") (.perr "p" false (.fld "Span" (.var "tok")))]]
     [],
   .assign (.fset "op" "On") (.fld "Span" (.var "tok")),
   .call "p" "exprList" [.fset "op" "Conditions", .set "err"] [],
   .assign
     (.set "finalError")
     (.join (.var "finalError") (.opaque (.var "err"))),
   .ret [.var "op", .var "finalError"]]

theorem joinOperator_ir : unitOf "joinOperator" = some ⟨[("p", "*parser"), ("pipe", "Token"), ("keyword", "Token")], ["*JoinOperator", "error"], joinOperatorBody⟩ := by rfl


def letStatementBody : List IStmt :=
  [.call "p" "next" [.def_ "keyword", .blank] [],
   .ite
     (.or
       (.ne (.fld "Kind" (.var "keyword")) (.kind "TokenIdentifier"))
       (.ne (.fld "Value" (.var "keyword")) (.str "let")))
     [.prev "p",
      .ret [.nil, .perr "p" true (.fld "Span" (.var "keyword"))]]
     [],
   .assign
     (.def_ "stmt")
     (.withFld
       (.withFld (.new "LetStatement") "Keyword" (.fld "Span" (.var "keyword")))
       "Assign"
       (.nullSpan)),
   .varDecl "err" "error",
   .call "p" "ident" [.fset "stmt" "Name", .set "err"] [],
   .ite
     (.ne (.var "err") (.nil))
     [.ret [.var "stmt", .opaque (.var "err")]]
     [],
   .call "p" "next" [.def_ "assign", .blank] [],
   .ite
     (.ne (.fld "Kind" (.var "assign")) (.kind "TokenAssign"))
     [.ret [.var "stmt", .perr "p" false (.fld "Span" (.var "assign"))]]
     [],
   .assign (.fset "stmt" "Assign") (.fld "Span" (.var "assign")),
   .call "p" "expr" [.fset "stmt" "X", .set "err"] [],
   .ite
     (.ne (.var "err") (.nil))
     [.ret [.var "stmt", .opaque (.var "err")]]
     [],
   .ret [.var "stmt", .nil]]

theorem letStatement_ir : unitOf "letStatement" = some ⟨[("p", "*parser")], ["*LetStatement", "error"], letStatementBody⟩ := by rfl


def tabularExprBody : List IStmt :=
  [.call "p" "ident" [.def_ "tableName", .def_ "err"] [],
   .ite
     (.ne (.var "err") (.nil))
     [.ret [.nil, .var "err"]]
     [],
   .assign
     (.def_ "expr")
     (.withFld
       (.new "TabularExpr")
       "Source"
       (.withFld (.new "TableRef") "Table" (.var "tableName"))),
   .varDecl "finalError" "error",
   .loop
     [.call "p" "next" [.def_ "pipeToken", .blank] [],
      .ite
        (.ne (.fld "Kind" (.var "pipeToken")) (.kind "TokenPipe"))
        [.prev "p", .ret [.var "expr", .var "finalError"]]
        [],
      .call "p" "split" [.def_ "opParser"] [.kind "TokenPipe"],
      .call "opParser" "next" [.def_ "operatorName", .def_ "ok"] [],
      .ite
        (.not (.truth (.var "ok")))
        [.assign
           (.set "finalError")
           (.join
             (.var "finalError")
             (.perr "opParser" false (.fld "Span" (.var "pipeToken")))),
         .cont]
        [],
      .ite
        (.ne (.fld "Kind" (.var "operatorName")) (.kind "TokenIdentifier"))
        [.assign
           (.set "finalError")
           (.join
             (.var "finalError")
             (.perr "opParser" false (.fld "Span" (.var "operatorName")))),
         .cont]
        [],
      .ite
        (.eq (.fld "Value" (.var "operatorName")) (.str "count"))
        [.call
           "opParser"
           "countOperator"
           [.def_ "op", .def_ "err"]
           [.var "pipeToken", .var "operatorName"],
         .ite
           (.ne (.var "op") (.nil))
           [.assign
              (.fset "expr" "Operators")
              (.append (.fld "Operators" (.var "expr")) (.var "op"))]
           [],
         .assign (.set "finalError") (.join (.var "finalError") (.var "err"))]
        [.ite
           (.or
             (.eq (.fld "Value" (.var "operatorName")) (.str "where"))
             (.eq (.fld "Value" (.var "operatorName")) (.str "filter")))
           [.call
              "opParser"
              "whereOperator"
              [.def_ "op", .def_ "err"]
              [.var "pipeToken", .var "operatorName"],
            .ite
              (.ne (.var "op") (.nil))
              [.assign
                 (.fset "expr" "Operators")
                 (.append (.fld "Operators" (.var "expr")) (.var "op"))]
              [],
            .assign (.set "finalError") (.join (.var "finalError") (.var "err"))]
           [.ite
              (.or
                (.eq (.fld "Value" (.var "operatorName")) (.str "sort"))
                (.eq (.fld "Value" (.var "operatorName")) (.str "order")))
              [.call
                 "opParser"
                 "sortOperator"
                 [.def_ "op", .def_ "err"]
                 [.var "pipeToken", .var "operatorName"],
               .ite
                 (.ne (.var "op") (.nil))
                 [.assign
                    (.fset "expr" "Operators")
                    (.append (.fld "Operators" (.var "expr")) (.var "op"))]
                 [],
               .assign
                 (.set "finalError")
                 (.join (.var "finalError") (.var "err"))]
              [.ite
                 (.or
                   (.eq (.fld "Value" (.var "operatorName")) (.str "take"))
                   (.eq (.fld "Value" (.var "operatorName")) (.str "limit")))
                 [.call
                    "opParser"
                    "takeOperator"
                    [.def_ "op", .def_ "err"]
                    [.var "pipeToken", .var "operatorName"],
                  .ite
                    (.ne (.var "op") (.nil))
                    [.assign
                       (.fset "expr" "Operators")
                       (.append (.fld "Operators" (.var "expr")) (.var "op"))]
                    [],
                  .assign
                    (.set "finalError")
                    (.join (.var "finalError") (.var "err"))]
                 [.ite
                    (.eq (.fld "Value" (.var "operatorName")) (.str "top"))
                    [.call
                       "opParser"
                       "topOperator"
                       [.def_ "op", .def_ "err"]
                       [.var "pipeToken", .var "operatorName"],
                     .ite
                       (.ne (.var "op") (.nil))
                       [.assign
                          (.fset "expr" "Operators")
                          (.append (.fld "Operators" (.var "expr")) (.var "op"))]
                       [],
                     .assign
                       (.set "finalError")
                       (.join (.var "finalError") (.var "err"))]
                    [.ite
                       (.eq (.fld "Value" (.var "operatorName")) (.str "project"))
                       [.call
                          "opParser"
                          "projectOperator"
                          [.def_ "op", .def_ "err"]
                          [.var "pipeToken", .var "operatorName"],
                        .ite
                          (.ne (.var "op") (.nil))
                          [.assign
                             (.fset "expr" "Operators")
                             (.append (.fld "Operators" (.var "expr")) (.var "op"))]
                          [],
                        .assign
                          (.set "finalError")
                          (.join (.var "finalError") (.var "err"))]
                       [.ite
                          (.eq (.fld "Value" (.var "operatorName")) (.str "extend"))
                          [.call
                             "opParser"
                             "extendOperator"
                             [.def_ "op", .def_ "err"]
                             [.var "pipeToken", .var "operatorName"],
                           .ite
                             (.ne (.var "op") (.nil))
                             [.assign
                                (.fset "expr" "Operators")
                                (.append (.fld "Operators" (.var "expr")) (.var "op"))]
                             [],
                           .assign
                             (.set "finalError")
                             (.join (.var "finalError") (.var "err"))]
                          [.ite
                             (.eq (.fld "Value" (.var "operatorName")) (.str "summarize"))
                             [.call
                                "opParser"
                                "summarizeOperator"
                                [.def_ "op", .def_ "err"]
                                [.var "pipeToken", .var "operatorName"],
                              .ite
                                (.ne (.var "op") (.nil))
                                [.assign
                                   (.fset "expr" "Operators")
                                   (.append (.fld "Operators" (.var "expr")) (.var "op"))]
                                [],
                              .assign
                                (.set "finalError")
                                (.join (.var "finalError") (.var "err"))]
                             [.ite
                                (.eq (.fld "Value" (.var "operatorName")) (.str "join"))
                                [.call
                                   "opParser"
                                   "joinOperator"
                                   [.def_ "op", .def_ "err"]
                                   [.var "pipeToken", .var "operatorName"],
                                 .ite
                                   (.ne (.var "op") (.nil))
                                   [.assign
                                      (.fset "expr" "Operators")
                                      (.append (.fld "Operators" (.var "expr")) (.var "op"))]
                                   [],
                                 .assign
                                   (.set "finalError")
                                   (.join (.var "finalError") (.var "err"))]
                                [.ite
                                   (.eq (.fld "Value" (.var "operatorName")) (.str "as"))
                                   [.call
                                      "opParser"
                                      "asOperator"
                                      [.def_ "op", .def_ "err"]
                                      [.var "pipeToken", .var "operatorName"],
                                    .ite
                                      (.ne (.var "op") (.nil))
                                      [.assign
                                         (.fset "expr" "Operators")
                                         (.append (.fld "Operators" (.var "expr")) (.var "op"))]
                                      [],
                                    .assign
                                      (.set "finalError")
                                      (.join (.var "finalError") (.var "err"))]
                                   [.ite
                                      (.eq (.fld "Value" (.var "operatorName")) (.str "render"))
                                      [.call
                                         "opParser"
                                         "renderOperator"
                                         [.def_ "op", .def_ "err"]
                                         [.var "pipeToken", .var "operatorName"],
                                       .ite
                                         (.ne (.var "op") (.nil))
                                         [.assign
                                            (.fset "expr" "Operators")
                                            (.append
                                              (.fld "Operators" (.var "expr"))
                                              (.var "op"))]
                                         [],
                                       .assign
                                         (.set "finalError")
                                         (.join (.var "finalError") (.var "err"))]
                                      [.assign
                                         (.set "finalError")
                                         (.join
                                           (.var "finalError")
                                           (.perr "opParser" false (.fld "Span" (.var "operatorName")))),
                                       .cont]]]]]]]]]]],
      .assign
        (.set "finalError")
        (.join (.var "finalError") (.endSplit "opParser"))]]

theorem tabularExpr_ir : unitOf "tabularExpr" = some ⟨[("p", "*parser")], ["*TabularExpr", "error"], tabularExprBody⟩ := by rfl


def firstParseBody : List IStmt :=
  [.rangeInit
     "p"
     "productions"
     [.callFn "p" [.def_ "x", .def_ "err"],
      .ite
        (.not (.isNF (.var "err")))
        [.ret [.var "x", .var "err"]]
        []],
   .retLast "productions"]

theorem firstParse_ir : unitOf "firstParse" = some ⟨[("productions", "...func")], ["T", "error"], firstParseBody⟩ := by rfl


def ParseBody : List IStmt :=
  [.newParser "p" "query",
   .varDecl "result" "[]Statement",
   .varDecl "resultError" "error",
   .loop
     [.call "p" "splitSemi" [.def_ "stmtParser"] [],
      .firstParse
        [.def_ "stmt", .def_ "err"]
        [.call "stmtParser" "letStatement" [.def_ "stmt", .def_ "err"] [],
         .ite
           (.eq (.var "stmt") (.nil))
           [.ret [.nil, .var "err"]]
           [],
         .ret [.toIface (.var "stmt"), .var "err"]]
        [.call "stmtParser" "tabularExpr" [.def_ "expr", .def_ "err"] [],
         .ite
           (.eq (.var "expr") (.nil))
           [.ret [.nil, .var "err"]]
           [],
         .ret [.toIface (.var "expr"), .var "err"]],
      .ite
        (.isNF (.var "err"))
        [.ite
           (.more "stmtParser")
           [.assign (.def_ "trailingToken") (.tokAt "stmtParser"),
            .ite
              (.eq (.fld "Kind" (.var "trailingToken")) (.kind "TokenError"))
              [.assign
                 (.set "resultError")
                 (.join
                   (.var "err")
                   (.perr "p" false (.fld "Span" (.var "trailingToken"))))]
              [.assign
                 (.set "resultError")
                 (.join
                   (.var "err")
                   (.perr "p" false (.fld "Span" (.var "trailingToken"))))]]
           []]
        [.ite
           (.ne (.var "stmt") (.nil))
           [.assign (.set "result") (.append (.var "result") (.var "stmt"))]
           [],
         .assign
           (.set "resultError")
           (.join (.var "resultError") (.opaque (.var "err"))),
         .assign
           (.set "resultError")
           (.join (.var "resultError") (.endSplit "stmtParser"))],
      .scope
        [.call "p" "next" [.blank, .def_ "ok"] [],
         .ite (.not (.truth (.var "ok"))) [.brk] []]],
   .ite
     (.ne (.var "resultError") (.nil))
     [.ret [.var "result", .wrapW (.var "resultError")]]
     [],
   .ret [.var "result", .nil]]

theorem Parse_ir : unitOf "Parse" = some ⟨[("query", "string")], ["[]Statement", "error"], ParseBody⟩ := by rfl


end Pql.OpIR
