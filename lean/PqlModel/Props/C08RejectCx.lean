/-
Property C08, second sentence — shapes run on the parser model, decidable forms of the neighbour
theorems, non-vacuity instances (R = rejected, every hypothesis of the theorem checked on a
concrete source) and the accepted sources that show each hypothesis / exception is necessary.
-/
import PqlModel.Props.C08Reject
import PqlModel.Lemmas.RejectShapes
import PqlModel.Props.C15Parse
namespace Pql.Reject
open Pql Pql.Grammar Pql.Piecewise

/-! ### 5 (continued): shapes with arbitrary identifiers and positions -/

/-- **`T | join (U)` without `on` is rejected**, for all identifiers `T`, `U`, any layout. -/
theorem C08_join_without_on_rejected (src : Bytes) (T pp jn lp U rp : Token)
    (hs : scan src = [T, pp, jn, lp, U, rp])
    (hT : T.kind = .ident) (hpp : pp.kind = .pipe) (hjn : jn.kind = .ident) (hjv : jn.value = b "join")
    (hlp : lp.kind = .lparen) (hU : U.kind = .ident) (hrp : rp.kind = .rparen) : (parse src).2 ≠ [] := by
  refine rejected_of_pStatement src ?_ ?_
  · rw [hs]; intro t ht
    simp only [List.mem_cons, List.not_mem_nil, or_false] at ht
    rcases ht with rfl | rfl | rfl | rfl | rfl | rfl <;> simp [*]
  · rw [hs]; exact join_without_on _ T pp jn lp U rp hT hpp hjn hjv hlp hU hrp

/-- **`T | where f(,)` is rejected** (the optional comma before `)` needs an argument before it). -/
theorem C08_call_only_comma_rejected (src : Bytes) (T pp wh f lp cm rp : Token)
    (hs : scan src = [T, pp, wh, f, lp, cm, rp])
    (hT : T.kind = .ident) (hpp : pp.kind = .pipe) (hwh : wh.kind = .ident) (hwv : wh.value = b "where")
    (hf : f.kind = .ident) (hlp : lp.kind = .lparen) (hcm : cm.kind = .comma) (hrp : rp.kind = .rparen) :
    (parse src).2 ≠ [] := by
  refine rejected_of_pStatement src ?_ ?_
  · rw [hs]; intro t ht
    simp only [List.mem_cons, List.not_mem_nil, or_false] at ht
    rcases ht with rfl | rfl | rfl | rfl | rfl | rfl | rfl <;> simp [*]
  · rw [hs]; exact call_only_comma _ T pp wh f lp cm rp hT hpp hwh hwv hf hlp hcm hrp

/-- **`T | where a in ()` is rejected.** -/
theorem C08_in_empty_list_rejected (src : Bytes) (T pp wh a i lp rp : Token)
    (hs : scan src = [T, pp, wh, a, i, lp, rp])
    (hT : T.kind = .ident) (hpp : pp.kind = .pipe) (hwh : wh.kind = .ident) (hwv : wh.value = b "where")
    (ha : a.kind = .ident) (hi : i.kind = .in_) (hlp : lp.kind = .lparen) (hrp : rp.kind = .rparen) :
    (parse src).2 ≠ [] := by
  refine rejected_of_pStatement src ?_ ?_
  · rw [hs]; intro t ht
    simp only [List.mem_cons, List.not_mem_nil, or_false] at ht
    rcases ht with rfl | rfl | rfl | rfl | rfl | rfl | rfl <;> simp [*]
  · rw [hs]; exact in_empty_list _ T pp wh a i lp rp hT hpp hwh hwv ha hi hlp hrp

/-! ### decidable forms: some pair / triple of neighbours in some piece -/

def adjAny (p : Token → Token → Bool) : List Token → Bool
  | a :: c :: l => p a c || adjAny p (c :: l)
  | _ => false

theorem adjAny_split (p : Token → Token → Bool) : ∀ g, adjAny p g = true →
    ∃ pre t1 t2 post, g = pre ++ t1 :: t2 :: post ∧ p t1 t2 = true
  | [], h => by simp [adjAny] at h
  | [_], h => by simp [adjAny] at h
  | a :: c :: l, h => by
    simp only [adjAny, Bool.or_eq_true] at h
    rcases h with h | h
    · exact ⟨[], a, c, l, rfl, h⟩
    · obtain ⟨pre, t1, t2, post, hg, hp⟩ := adjAny_split p (c :: l) h
      exact ⟨a :: pre, t1, t2, post, by rw [hg]; rfl, hp⟩

def adjAny3 (p : Token → Token → Token → Bool) : List Token → Bool
  | a :: c :: d :: l => p a c d || adjAny3 p (c :: d :: l)
  | _ => false

theorem adjAny3_split (p : Token → Token → Token → Bool) : ∀ g, adjAny3 p g = true →
    ∃ pre t0 t1 t2 post, g = pre ++ t0 :: t1 :: t2 :: post ∧ p t0 t1 t2 = true
  | [], h => by simp [adjAny3] at h
  | [_], h => by simp [adjAny3] at h
  | [_, _], h => by simp [adjAny3] at h
  | a :: c :: d :: l, h => by
    simp only [adjAny3, Bool.or_eq_true] at h
    rcases h with h | h
    · exact ⟨[], a, c, d, l, rfl, h⟩
    · obtain ⟨pre, t0, t1, t2, post, hg, hp⟩ := adjAny3_split p (c :: d :: l) h
      exact ⟨a :: pre, t0, t1, t2, post, by rw [hg]; rfl, hp⟩

/-- some piece has an operand end directly followed by a literal or a name -/
theorem C08_two_operands_rejected' (src : Bytes)
    (h : ∃ g ∈ pieces src, adjAny (fun a c => operandEndTok a && operandStartTok c) g = true) :
    (parse src).2 ≠ [] := by
  obtain ⟨g, hg, ha⟩ := h
  obtain ⟨pre, t1, t2, post, hsh, hp⟩ := adjAny_split _ g ha
  simp only [Bool.and_eq_true] at hp
  exact C08_two_operands_rejected src g hg pre post t1 t2 hsh hp.1 hp.2

/-- some piece has two adjacent pipes -/
theorem C08_double_pipe_rejected' (src : Bytes)
    (h : ∃ g ∈ pieces src, adjAny (fun a c => a.kind == .pipe && c.kind == .pipe) g = true) :
    (parse src).2 ≠ [] := by
  obtain ⟨g, hg, ha⟩ := h
  obtain ⟨pre, t1, t2, post, hsh, hp⟩ := adjAny_split _ g ha
  simp only [Bool.and_eq_true, beq_iff_eq] at hp
  exact C08_double_pipe_rejected src g hg pre post t1 t2 hsh hp.1 hp.2

/-- some piece has `count` directly followed by a literal or a name -/
theorem C08_count_argument_rejected' (src : Bytes)
    (h : ∃ g ∈ pieces src, adjAny (fun a c => a.kind == .ident && a.value == b "count" && operandStartTok c) g = true) :
    (parse src).2 ≠ [] := by
  obtain ⟨g, hg, ha⟩ := h
  obtain ⟨pre, t1, t2, post, hsh, hp⟩ := adjAny_split _ g ha
  simp only [Bool.and_eq_true, beq_iff_eq] at hp
  exact C08_count_argument_rejected src g hg pre post t1 t2 hsh hp.1 hp.2

/-- some piece has an operator-like token directly followed by a closer / operator / `|` … -/
theorem C08_dangling_inside_rejected' (src : Bytes)
    (h : ∃ g ∈ pieces src, adjAny (fun a c => danglingKind a.kind && stopperKind c.kind && a.kind != .comma &&
      c.kind != .comma && !(a.kind == .lparen && c.kind == .rparen)) g = true) : (parse src).2 ≠ [] := by
  obtain ⟨g, hg, ha⟩ := h
  obtain ⟨pre, t1, t2, post, hsh, hp⟩ := adjAny_split _ g ha
  simp only [Bool.and_eq_true, bne_iff_ne, ne_eq, Bool.not_eq_true', Bool.and_eq_false_iff, beq_eq_false_iff_ne] at hp
  exact C08_dangling_inside_rejected src g hg pre post t1 t2 hsh hp.1.1.1.1 hp.1.1.1.2 hp.1.1.2 hp.1.2
    (by
      rintro ⟨h1, h2⟩
      rcases hp.2 with h | h
      · exact h h1
      · exact h h2)

def isDir (t : Token) : Bool := t.kind == .ident && (t.value == b "asc" || t.value == b "desc")

/-- some piece has an operand end followed by two direction keywords -/
theorem C08_asc_desc_rejected' (src : Bytes)
    (h : ∃ g ∈ pieces src, adjAny3 (fun a c d => operandEndTok a && isDir c && isDir d) g = true) :
    (parse src).2 ≠ [] := by
  obtain ⟨g, hg, ha⟩ := h
  obtain ⟨pre, t0, t1, t2, post, hsh, hp⟩ := adjAny3_split _ g ha
  simp only [isDir, Bool.and_eq_true, Bool.or_eq_true, beq_iff_eq] at hp
  exact C08_asc_desc_rejected src g hg pre post t0 t1 t2 hsh hp.1.1 hp.1.2 hp.2

/-- some piece has `| x |` or `| x )` with an identifier `x` other than `count` -/
theorem C08_missing_argument_inside_rejected' (src : Bytes)
    (h : ∃ g ∈ pieces src, adjAny3 (fun a c d => a.kind == .pipe && c.kind == .ident && c.value != b "count" &&
      (d.kind == .pipe || d.kind == .rparen)) g = true) : (parse src).2 ≠ [] := by
  obtain ⟨g, hg, ha⟩ := h
  obtain ⟨pre, t0, t1, t2, post, hsh, hp⟩ := adjAny3_split _ g ha
  simp only [Bool.and_eq_true, Bool.or_eq_true, beq_iff_eq, bne_iff_ne, ne_eq] at hp
  exact C08_missing_argument_inside_rejected src g hg pre post t0 t1 t2 hsh hp.1.1.1 ⟨hp.1.1.2, hp.1.2⟩ hp.2

/-- some piece ends in `| x`, `x` not the identifier `count` -/
def endsPipeX (g : List Token) : Bool :=
  match g.reverse with
  | t2 :: t1 :: _ => t1.kind == .pipe && !(t2.kind == .ident && t2.value == b "count")
  | _ => false

theorem C08_missing_argument_rejected' (src : Bytes) (h : ∃ g ∈ pieces src, endsPipeX g = true) :
    (parse src).2 ≠ [] := by
  obtain ⟨g, hg, ha⟩ := h
  unfold endsPipeX at ha
  split at ha
  · next t2 t1 rest hr =>
    simp only [Bool.and_eq_true, beq_iff_eq, Bool.not_eq_true', Bool.and_eq_false_iff, beq_eq_false_iff_ne] at ha
    have hgr : g = rest.reverse ++ [t1, t2] := by
      have := congrArg List.reverse hr
      simpa using this
    exact C08_missing_argument_rejected src g hg rest.reverse t1 t2 hgr ha.1
      (by
        rintro ⟨h1, h2⟩
        rcases ha.2 with h | h
        · exact h h1
        · exact h h2)
  · exact absurd ha (by decide)

/-! ### concrete sources -/

/-- `T | where a # 1` -/
def exErr : Bytes := [84, 32, 124, 32, 119, 104, 101, 114, 101, 32, 97, 32, 35, 32, 49]
/-- `T | where (a` -/
def exOpen : Bytes := [84, 32, 124, 32, 119, 104, 101, 114, 101, 32, 40, 97]
/-- `T | where a)` -/
def exSurplus : Bytes := [84, 32, 124, 32, 119, 104, 101, 114, 101, 32, 97, 41]
/-- `T | where a +` -/
def exDangling : Bytes := [84, 32, 124, 32, 119, 104, 101, 114, 101, 32, 97, 32, 43]
/-- `let x = ; T` -/
def exLetEmpty : Bytes := [108, 101, 116, 32, 120, 32, 61, 32, 59, 32, 84]
/-- `T | where a == 1 2` -/
def exTwo : Bytes := [84, 32, 124, 32, 119, 104, 101, 114, 101, 32, 97, 32, 61, 61, 32, 49, 32, 50]
/-- `T | take 5 6` -/
def exTake : Bytes := [84, 32, 124, 32, 116, 97, 107, 101, 32, 53, 32, 54]
/-- `T | count x` -/
def exCountX : Bytes := [84, 32, 124, 32, 99, 111, 117, 110, 116, 32, 120]
/-- `T | sort by a asc desc` -/
def exAscDesc : Bytes := [84, 32, 124, 32, 115, 111, 114, 116, 32, 98, 121, 32, 97, 32, 97, 115, 99, 32, 100, 101, 115, 99]
/-- `T || count` -/
def exPipes : Bytes := [84, 32, 124, 124, 32, 99, 111, 117, 110, 116]
/-- `T | where` -/
def exWhere : Bytes := [84, 32, 124, 32, 119, 104, 101, 114, 101]
/-- `T | project` -/
def exProject : Bytes := [84, 32, 124, 32, 112, 114, 111, 106, 101, 99, 116]
/-- `T | where | count` -/
def exWhereMid : Bytes := [84, 32, 124, 32, 119, 104, 101, 114, 101, 32, 124, 32, 99, 111, 117, 110, 116]
/-- `T | where a[ ]` -/
def exIndexEmpty : Bytes := [84, 32, 124, 32, 119, 104, 101, 114, 101, 32, 97, 91, 32, 93]
/-- `T | join (U)` -/
def exJoin : Bytes := [84, 32, 124, 32, 106, 111, 105, 110, 32, 40, 85, 41]
/-- `T | where f(,)` -/
def exCallComma : Bytes := [84, 32, 124, 32, 119, 104, 101, 114, 101, 32, 102, 40, 44, 41]
/-- `T | where a in ()` -/
def exInEmpty : Bytes := [84, 32, 124, 32, 119, 104, 101, 114, 101, 32, 97, 32, 105, 110, 32, 40, 41]
/-- `T | sort by a asc` -/
def okSortAsc : Bytes := [84, 32, 124, 32, 115, 111, 114, 116, 32, 98, 121, 32, 97, 32, 97, 115, 99]
/-- `T | where f(a,)` -/
def okCallComma : Bytes := [84, 32, 124, 32, 119, 104, 101, 114, 101, 32, 102, 40, 97, 44, 41]
/-- `T | count` -/
def okCount : Bytes := [84, 32, 124, 32, 99, 111, 117, 110, 116]
/-- `T | where f()` -/
def okCallEmpty : Bytes := [84, 32, 124, 32, 119, 104, 101, 114, 101, 32, 102, 40, 41]
/-- `T | sort by asc desc` -/
def okAscDesc : Bytes := [84, 32, 124, 32, 115, 111, 114, 116, 32, 98, 121, 32, 97, 115, 99, 32, 100, 101, 115, 99]
/-- `T | where on` -/
def okWhereOn : Bytes := [84, 32, 124, 32, 119, 104, 101, 114, 101, 32, 111, 110]
/-- `T | join (U) on a` -/
def okJoin : Bytes := [84, 32, 124, 32, 106, 111, 105, 110, 32, 40, 85, 41, 32, 111, 110, 32, 97]

set_option maxRecDepth 100000

/-! rejected: every headline theorem applies to a concrete source (non-vacuity) -/

theorem exErr_rejected : (parse exErr).2 ≠ [] :=
  C08_error_token_rejected exErr (by rw [scan_eq_scanFuel]; decide)
theorem exErr_not_compiled (params : List (Bytes × Bytes)) : compile params exErr = .error :=
  rejected_not_compiled _ exErr_rejected params
theorem exOpen_rejected : (parse exOpen).2 ≠ [] :=
  C08_unbalanced_rejected exOpen (by rw [pieces, scan_eq_scanFuel]; decide)
theorem exSurplus_rejected : (parse exSurplus).2 ≠ [] :=
  C08_unbalanced_rejected exSurplus (by rw [pieces, scan_eq_scanFuel]; decide)
theorem exDangling_rejected : (parse exDangling).2 ≠ [] :=
  C08_dangling_operator_rejected exDangling (by rw [pieces, scan_eq_scanFuel]; decide)
/-- `let x = ;` — the piece `let x =` ends in `=` -/
theorem exLetEmpty_rejected : (parse exLetEmpty).2 ≠ [] :=
  C08_dangling_operator_rejected exLetEmpty (by rw [pieces, scan_eq_scanFuel]; decide)
theorem exTwo_rejected : (parse exTwo).2 ≠ [] :=
  C08_two_operands_rejected' exTwo (by rw [pieces, scan_eq_scanFuel]; decide)
theorem exTake_rejected : (parse exTake).2 ≠ [] :=
  C08_two_operands_rejected' exTake (by rw [pieces, scan_eq_scanFuel]; decide)
theorem exCountX_rejected : (parse exCountX).2 ≠ [] :=
  C08_count_argument_rejected' exCountX (by rw [pieces, scan_eq_scanFuel]; decide)
theorem exAscDesc_rejected : (parse exAscDesc).2 ≠ [] :=
  C08_asc_desc_rejected' exAscDesc (by rw [pieces, scan_eq_scanFuel]; decide)
theorem exPipes_rejected : (parse exPipes).2 ≠ [] :=
  C08_double_pipe_rejected' exPipes (by rw [pieces, scan_eq_scanFuel]; decide)
theorem exWhere_rejected : (parse exWhere).2 ≠ [] :=
  C08_missing_argument_rejected' exWhere (by rw [pieces, scan_eq_scanFuel]; decide)
theorem exProject_rejected : (parse exProject).2 ≠ [] :=
  C08_missing_argument_rejected' exProject (by rw [pieces, scan_eq_scanFuel]; decide)
theorem exWhereMid_rejected : (parse exWhereMid).2 ≠ [] :=
  C08_missing_argument_inside_rejected' exWhereMid (by rw [pieces, scan_eq_scanFuel]; decide)
theorem exIndexEmpty_rejected : (parse exIndexEmpty).2 ≠ [] :=
  C08_dangling_inside_rejected' exIndexEmpty (by rw [pieces, scan_eq_scanFuel]; decide)
theorem exJoin_rejected : (parse exJoin).2 ≠ [] :=
  C08_join_without_on_rejected exJoin ⟨.ident, 0, 1, [84]⟩ ⟨.pipe, 2, 3, []⟩ ⟨.ident, 4, 8, b "join"⟩
    ⟨.lparen, 9, 10, []⟩ ⟨.ident, 10, 11, [85]⟩ ⟨.rparen, 11, 12, []⟩
    (by rw [scan_eq_scanFuel]; decide) rfl rfl rfl rfl rfl rfl rfl
theorem exCallComma_rejected : (parse exCallComma).2 ≠ [] :=
  C08_call_only_comma_rejected exCallComma ⟨.ident, 0, 1, [84]⟩ ⟨.pipe, 2, 3, []⟩ ⟨.ident, 4, 9, b "where"⟩
    ⟨.ident, 10, 11, [102]⟩ ⟨.lparen, 11, 12, []⟩ ⟨.comma, 12, 13, []⟩ ⟨.rparen, 13, 14, []⟩
    (by rw [scan_eq_scanFuel]; decide) rfl rfl rfl rfl rfl rfl rfl rfl
theorem exInEmpty_rejected : (parse exInEmpty).2 ≠ [] :=
  C08_in_empty_list_rejected exInEmpty ⟨.ident, 0, 1, [84]⟩ ⟨.pipe, 2, 3, []⟩ ⟨.ident, 4, 9, b "where"⟩
    ⟨.ident, 10, 11, [97]⟩ ⟨.in_, 12, 14, []⟩ ⟨.lparen, 15, 16, []⟩ ⟨.rparen, 16, 17, []⟩
    (by rw [scan_eq_scanFuel]; decide) rfl rfl rfl rfl rfl rfl rfl rfl

/-! accepted: the hypotheses and exceptions are necessary -/

/-- two identifiers in a row where the second is spelled like a keyword (`a asc`): accepted — the
    second token of `C08_two_operands_rejected` must not be keyword-spelled (`operandStartTok`) -/
theorem name_then_keyword_accepted : (parse okSortAsc).2 = [] ∧
    (∃ g ∈ pieces okSortAsc, adjAny (fun a c => operandEndTok a && c.kind == .ident) g = true) := by
  rw [pieces, parse, scan_eq_scanFuel]; decide

/-- a comma directly before `)` (`f(a,)`): accepted — the comma exclusion of
    `C08_dangling_inside_rejected` is necessary (documented exception) -/
theorem comma_before_closer_accepted : (parse okCallComma).2 = [] ∧
    (∃ g ∈ pieces okCallComma, adjAny (fun a c => danglingKind a.kind && stopperKind c.kind) g = true) := by
  rw [pieces, parse, scan_eq_scanFuel]; decide

/-- `T | count`: accepted — the exception for `count` in `C08_missing_argument_rejected` is necessary -/
theorem count_alone_accepted : (parse okCount).2 = [] := by
  rw [parse, scan_eq_scanFuel]; decide

/-- `f()`: accepted — the exception `(` `)` in `C08_dangling_inside_rejected` is necessary -/
theorem call_without_arguments_accepted : (parse okCallEmpty).2 = [] ∧
    (∃ g ∈ pieces okCallEmpty, adjAny (fun a c => a.kind == .lparen && c.kind == .rparen) g = true) := by
  rw [pieces, parse, scan_eq_scanFuel]; decide

/-- `sort by asc desc` (a column named `asc`): accepted — `C08_asc_desc_rejected` needs the operand
    end before the two direction words -/
theorem column_named_asc_accepted : (parse okAscDesc).2 = [] ∧
    (∃ g ∈ pieces okAscDesc, adjAny (fun a c => isDir a && isDir c) g = true) := by
  rw [pieces, parse, scan_eq_scanFuel]; decide

/-- `T | where on`: accepted (`on` is a column name here) — a keyword-spelled identifier at the end of
    a piece is not by itself an error; `C08_last_keyword_is_name` says it then is a name in the tree -/
theorem where_on_accepted : (parse okWhereOn).2 = [] := by
  rw [parse, scan_eq_scanFuel]; decide

/-- `T | join (U) on a`: accepted (non-vacuity of the `join` shape: only the missing `on a` is wrong) -/
theorem join_with_on_accepted : (parse okJoin).2 = [] := by
  rw [parse, scan_eq_scanFuel]; decide

/-! ### the hypothesis of `unparse_balanced` / `unparse_last_token` is necessary

A tree no parse returns: `let x = <literal of kind "(">`.  Its `unparse` is `let x = (`: not
balanced, and ending in `(`.  (`StmtAll EOK LOK` — every literal is a number or a string, every
operator an operator — is what `parsed_stmtAll` proves of every error-free parse.) -/

def oddStmt : Stmt := .let_ ⟨0, 3⟩ (some ⟨[120], ⟨4, 5⟩, false⟩) ⟨6, 7⟩ (.lit ⟨8, 9⟩ .lparen [])

theorem unparse_balanced_needs_hyp : ∃ us, unparseStmt oddStmt = some us ∧
    run [] ((us.map cl).map Cl.br) ≠ some [] ∧ (∀ u, us.getLast? = some u → cl u ∉ LO) :=
  ⟨_, rfl, by decide, by decide⟩

theorem oddStmt_not_stmtAll : ¬ StmtAll EOK LOK oddStmt := by
  simp [oddStmt, StmtAll, EOK, ParsedOK.sOK]

end Pql.Reject
