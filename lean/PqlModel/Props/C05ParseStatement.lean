/-
Property C05, syntactic half (with the structural parts of C01 / C02 / C03): the tokens
`Compile` emits are read by the reference SQL statement parser as the INTENDED statement.

  Stage 1  `C05_split_refines`     `splitQueries` = `Intended.splitA` followed by writing the sources
  Stage 2  `C05_select` (+ one theorem per operator)
                                   what `Subquery.write` emits for one link is read by `pSelect` as
                                   `Intended.selOf` of that link (items, FROM / JOIN, WHERE, GROUP BY,
                                   ORDER BY, LIMIT), up to `normS`
  Stage 3  `C05_parse_statement`   `parseStatement (toksOf (compileChunks …)) ≈ intended …`
           corollaries: number of CTEs, their names in order, the body is the last link

Side condition `tabularOK` (Bool): every expression is `lexOK ∧ shapeOK` (as in C01) AND translatable
(`(tr · e).isSome`), `project` / `sort` / `summarize` lists that SQL needs non-empty are non-empty, a
`project` column without expression has a name.  Each extra conjunct is necessary: counterexamples
`C05_counterexample_*` below.
-/
import PqlModel.Lemmas.ParseStmtTop
namespace Pql.C05
set_option linter.unusedSimpArgs false
set_option linter.unusedVariables false
open Pql Sql CompileOracle Intended Pql.RT

/-! ### Stage 1 -/

/-- **C05 / C02 (splitting).** The chain of subqueries `splitQueries` builds is the documented chain
    `splitA` with every structured source written out. -/
theorem C05_split_refines (src : Bytes) (scope : List (Bytes × List Chunk)) (t : Tabular) (dst : List Subquery)
    (dstA : List SubA) (hd : dstA.mapM (erase src scope) = .ok dst) (out : List Subquery)
    (h : splitQueries src scope dst t = .ok out) :
    ∃ outA, splitA dstA t = some outA ∧ outA.mapM (erase src scope) = .ok out :=
  split_refines src scope t dst dstA hd out h

/-! ### Stage 2 -/

/-- the side condition of Stage 2 under the name the task uses: source condition, operator
    expressions, sort terms and take count are all `exprOK` (`lexOK ∧ shapeOK ∧ translatable`) -/
abbrev _root_.Pql.Intended.SubA.exprsOK (a : SubA) : Bool := subOK a

/-- **C05 (one SELECT).** For a link `a` whose expressions are OK, the tokens of
    `(erase a).write`, followed by `)` or `;`, are read by `pSelect` as the intended SELECT. -/
theorem C05_select (src : Bytes) (a : SubA) (sub : Subquery) (cs : List Chunk) (rest : List STok)
    (he : erase src [] a = .ok sub) (hok : subOK a = true)
    (hw : sub.write ⟨src, [], .default⟩ = .ok cs) (hrest : Closer rest) :
    ∃ sel want, pSelect (toksOf cs ++ rest) = some (sel, rest) ∧ selOf src a = some want ∧
      selectEq (normSel sel) (normSel want) = true := by
  obtain ⟨sel, want, h1, h2, h3⟩ := select_parse src a sub cs rest (erase_iff.1 he) hok hw hrest
  exact ⟨sel, want, h1, h2, selectEq_of_rel h3⟩

/-- the shape shared by the per-operator theorems -/
def SelectReads (src : Bytes) (a : SubA) : Prop :=
  ∀ sub cs rest, erase src [] a = .ok sub → sub.write ⟨src, [], .default⟩ = .ok cs → Closer rest →
    ∃ sel want, pSelect (toksOf cs ++ rest) = some (sel, rest) ∧ selOf src a = some want ∧
      selectEq (normSel sel) (normSel want) = true

theorem selectReads (src : Bytes) (a : SubA) (hok : subOK a = true) : SelectReads src a :=
  fun sub cs rest he hw hr => C05_select src a sub cs rest he hok hw hr

/-- `SELECT * FROM source [ORDER BY …] [LIMIT …]` — no operator, or `as` -/
theorem C05_select_plain (src : Bytes) (a : SubA) (hop : a.op = none ∨ ∃ p k n, a.op = some (.as_ p k n))
    (hs : srcOK a.source = true) (hso : sortOK a.sort = true) (ht : takeOK a.take = true) : SelectReads src a := by
  apply selectReads
  rcases hop with h | ⟨p, k, n, h⟩ <;> simp [subOK, h, opOK, hs, hso, ht]

/-- `… WHERE pred` -/
theorem C05_select_where (src : Bytes) (a : SubA) (p k : Span) (pred : Expr) (hop : a.op = some (.where_ p k pred))
    (hp : exprOK pred = true) (hs : srcOK a.source = true) (hso : sortOK a.sort = true) (ht : takeOK a.take = true) :
    SelectReads src a ∧ ∃ w, tr false pred = some w ∧ ∀ want, selOf src a = some want → want.where_ = some w := by
  refine ⟨selectReads src a (by simp [subOK, hop, opOK, hp, hs, hso, ht]), ?_⟩
  simp only [exprOKin, Bool.and_eq_true, Option.isSome_iff_exists] at hp
  obtain ⟨_, w, hw⟩ := hp
  refine ⟨w, hw, fun want h => ?_⟩
  rw [selOf_eq] at h
  simp only [hop, bodyA, hw, Option.bind_eq_bind, Option.bind_some, Option.pure_def, Option.bind_eq_some_iff] at h
  obtain ⟨_, _, _, _, _, _, h⟩ := h
  cases h
  rfl

/-- `SELECT e₁ AS "n₁", …` -/
theorem C05_select_project (src : Bytes) (a : SubA) (p k : Span) (cols : List Column)
    (hop : a.op = some (.project p k cols)) (hne : cols ≠ []) (hc : cols.all projColOK = true)
    (hs : srcOK a.source = true) (hso : sortOK a.sort = true) (ht : takeOK a.take = true) : SelectReads src a :=
  selectReads src a (by simp [subOK, hop, opOK, hc, hne, hs, hso, ht])

/-- `SELECT *, e₁ AS "n₁", …` — an unnamed column is called by its source text -/
theorem C05_select_extend (src : Bytes) (a : SubA) (p k : Span) (cols : List Column)
    (hop : a.op = some (.extend p k cols)) (hc : cols.all colOK = true)
    (hs : srcOK a.source = true) (hso : sortOK a.sort = true) (ht : takeOK a.take = true) : SelectReads src a :=
  selectReads src a (by simp [subOK, hop, opOK, hc, hs, hso, ht])

/-- `SELECT g… , c… FROM … [GROUP BY g…]` -/
theorem C05_select_summarize (src : Bytes) (a : SubA) (p k b : Span) (cols gb : List Column)
    (hop : a.op = some (.summarize p k cols b gb)) (hne : gb ++ cols ≠ []) (hc : cols.all colOK = true)
    (hg : gb.all colOK = true)
    (hs : srcOK a.source = true) (hso : sortOK a.sort = true) (ht : takeOK a.take = true) : SelectReads src a :=
  selectReads src a (by
    have : (gb ++ cols).isEmpty = false := by simpa using hne
    simp [subOK, hop, opOK, hc, hg, this, hs, hso, ht])

/-- `SELECT COUNT(*) AS "count()"` -/
theorem C05_select_count (src : Bytes) (a : SubA) (p k : Span) (hop : a.op = some (.count p k))
    (hs : srcOK a.source = true) (hso : sortOK a.sort = true) (ht : takeOK a.take = true) : SelectReads src a :=
  selectReads src a (by simp [subOK, hop, opOK, hs, hso, ht])

/-- `SELECT *, 'chart' as "render_type", 'v' as "render_prop_k", …` -/
theorem C05_select_render (src : Bytes) (a : SubA) (p k : Span) (chart : Option Ident) (w lp rp : Span)
    (props : List RenderProp) (hop : a.op = some (.render p k chart w lp props rp))
    (hs : srcOK a.source = true) (hso : sortOK a.sort = true) (ht : takeOK a.take = true) : SelectReads src a :=
  selectReads src a (by simp [subOK, hop, opOK, hs, hso, ht])

/-- the join source: `[(SELECT DISTINCT * FROM] "l" [)] AS "$left" [LEFT] JOIN "r" AS "$right" ON cond` -/
theorem C05_select_join (src : Bytes) (a : SubA) (unique left : Bool) (l r : Bytes) (cond : Expr)
    (hsrc : a.source = .join unique left l r cond) (hc : exprOKin true cond = true)
    (hop : opOK a.op = true) (hso : sortOK a.sort = true) (ht : takeOK a.take = true) :
    SelectReads src a ∧ ∃ c, tr true cond = some c ∧ ∀ want, selOf src a = some want →
      want.join = some ⟨left, .named r (some rightA), c⟩ ∧
      want.source = (if unique then .distinctOf l (some leftA) else .named l (some leftA)) := by
  refine ⟨selectReads src a (by simp [subOK, hsrc, srcOK, hc, hop, hso, ht]), ?_⟩
  simp only [exprOKin, Bool.and_eq_true, Option.isSome_iff_exists] at hc
  obtain ⟨_, c, hc⟩ := hc
  refine ⟨c, hc, fun want h => ?_⟩
  rw [selOf_eq] at h
  simp only [hsrc, srcOfA, hc, Option.bind_eq_bind, Option.bind_some, Option.pure_def, Option.bind_eq_some_iff] at h
  obtain ⟨body, hb, _, _, _, _, h⟩ := h
  cases h
  have : body.join = some ⟨left, .named r (some rightA), c⟩ ∧
      body.source = (if unique then .distinctOf l (some leftA) else .named l (some leftA)) := by
    rcases ho : a.op with _ | o
    · rw [ho] at hb; simp only [bodyA, Option.pure_def, Option.some.injEq] at hb; subst hb; exact ⟨rfl, rfl⟩
    · rw [ho] at hb
      cases o <;> simp only [bodyA, Option.pure_def, Option.some.injEq, Option.bind_eq_bind, Option.bind_eq_some_iff,
        reduceCtorEq] at hb
      all_goals first
        | (subst hb; exact ⟨rfl, rfl⟩)
        | (obtain ⟨_, _, hb⟩ := hb; subst hb; exact ⟨rfl, rfl⟩)
        | (obtain ⟨_, _, _, _, _, _, hb⟩ := hb; subst hb; exact ⟨rfl, rfl⟩)
  exact this

/-! ### Stage 3 -/

/-- **C05 (ParseStatement).** The emitted tokens parse as one statement, and that statement is the
    intended one: same CTE names in the same order, every SELECT equal up to `normS`. -/
theorem C05_parse_statement (src : Bytes) (t : Tabular) (cs : List Chunk)
    (hok : tabularOK t = true)
    (hc : compileChunks src [] [.tabular t] = .ok cs) :
    ∃ st want, parseStatement (toksOf cs) = some st ∧ intended src [.tabular t] = some want ∧
      statementEq st want = true := by
  obtain ⟨subs, ctesA, qA, parsed, wants, sel, wbody, _, _, _, hp, hi, _, _, hrl, hsr⟩ := statement_parse src t cs hok hc
  refine ⟨_, _, hp, hi, ?_⟩
  simp [statementEq, hrl.length_eq, ctes_all hrl, selectEq_of_rel hsr]

theorem cteOf_names (src : Bytes) : ∀ (ctesA : List SubA) (wants : List (Bytes × Select)),
    ctesA.mapM (cteOf src) = some wants → wants.map (·.1) = ctesA.map (·.name)
  | [], wants, h => by simp at h; subst h; rfl
  | a :: as, wants, h => by
    simp only [List.mapM_cons, Option.bind_eq_bind, Option.pure_def, Option.bind_eq_some_iff, Option.some.injEq] at h
    obtain ⟨w, hw, ws, hws, rfl⟩ := h
    simp only [cteOf, Option.bind_eq_bind, Option.pure_def, Option.bind_eq_some_iff, Option.some.injEq] at hw
    obtain ⟨s, _, rfl⟩ := hw
    simp [cteOf_names src as ws hws]

theorem cteRel_names {parsed wants : List (Bytes × Select)} (h : ListRel CteRel parsed wants) :
    parsed.map (·.1) = wants.map (·.1) := by
  induction h with
  | nil => rfl
  | cons hab _ ih => simp [hab.1, ih]

theorem eraseRel_names {src : Bytes} {as : List SubA} {ss : List Subquery} (h : ListRel (EraseRel src []) as ss) :
    ss.map (·.name) = as.map (·.name) := by
  induction h with
  | nil => rfl
  | cons hab _ ih => simp [hab.name, ih]

/-- **C05 (structure of the statement).** With `subs` the subqueries `splitQueries` produced:
    there are `subs.length - 1` CTEs, their names are the names of all subqueries but the last, in
    order, and the body is read as the intended SELECT of the last link. -/
theorem C05_statement_structure (src : Bytes) (t : Tabular) (cs : List Chunk)
    (hok : tabularOK t = true) (hc : compileChunks src [] [.tabular t] = .ok cs) :
    ∃ subs st subsA, splitQueries src [] [] t = .ok subs ∧ parseStatement (toksOf cs) = some st ∧
      splitA [] t = some subsA ∧
      st.ctes.length = subs.length - 1 ∧
      st.ctes.map (·.1) = subs.dropLast.map (·.name) ∧
      ∃ qA wbody, subsA.getLast? = some qA ∧ selOf src qA = some wbody ∧
        selectEq (normSel st.body) (normSel wbody) = true := by
  obtain ⟨subs, ctesA, qA, parsed, wants, sel, wbody, hs, hA, hrel, hp, hi, hwm, hw, hrl, hsr⟩ :=
    statement_parse src t cs hok hc
  have hn := eraseRel_names hrel
  have hnames : parsed.map (·.1) = ctesA.map (·.name) := (cteRel_names hrl).trans (cteOf_names src ctesA wants hwm)
  have hlen : subs.length = ctesA.length + 1 := by
    have := hrel.length_eq; simp at this; omega
  refine ⟨subs, ⟨parsed, sel⟩, ctesA ++ [qA], hs, hp, hA, ?_, ?_, qA, wbody, by simp, hw, selectEq_of_rel hsr⟩
  · have := congrArg List.length hnames
    simp at this
    simp [this, hlen]
  · show parsed.map (·.1) = subs.dropLast.map (·.name)
    rw [hnames, List.map_dropLast, hn]
    simp

/-! ### non-vacuity -/

def idn (s : String) : Ident := ⟨Bytes.ofString s, .zero, false⟩
def col (s : String) : Expr := .qident [idn s]
def numL (s : String) : Expr := .lit .zero .number (Bytes.ofString s)

/-- `T | where x > 1 | extend y = x + 1 | join kind=leftouter (U | project k) on k
      | summarize n = count() by k | sort by n desc | take 5` -/
def demoQ : Tabular :=
  .mk (some (idn "T"))
    (.cons (.where_ .zero .zero (.binary (col "x") .zero .gt (numL "1")))
    (.cons (.extend .zero .zero [⟨some (idn "y"), .zero, .binary (col "x") .zero .plus (numL "1")⟩])
    (.cons (.join .zero .zero .zero .zero (some (idn "leftouter")) .zero
        (.mk (some (idn "U")) (.cons (.project .zero .zero [⟨some (idn "k"), .zero, .nil⟩]) .nil)) .zero .zero
        (.cons (col "k") .nil))
    (.cons (.summarize .zero .zero [⟨some (idn "n"), .zero, .call (idn "count") .zero .nil .zero⟩] .zero
        [⟨some (idn "k"), .zero, col "k"⟩])
    (.cons (.sort .zero .zero [⟨col "n", false, .zero, false, .zero⟩])
    (.cons (.take .zero .zero (numL "5")) .nil))))))

theorem demoQ_ok : tabularOK demoQ = true := by decide
theorem demoQ_compiles : ∃ cs, compileChunks [] [] [.tabular demoQ] = .ok cs := ⟨_, rfl⟩

/-- non-vacuity of `C05_parse_statement` / `C05_statement_structure`: six operators, a nested join, 5 CTEs -/
example : ∃ cs st want, compileChunks [] [] [.tabular demoQ] = .ok cs ∧ parseStatement (toksOf cs) = some st ∧
    intended [] [.tabular demoQ] = some want ∧ statementEq st want = true := by
  obtain ⟨cs, hc⟩ := demoQ_compiles
  obtain ⟨st, want, h1, h2, h3⟩ := C05_parse_statement [] demoQ cs demoQ_ok hc
  exact ⟨cs, st, want, hc, h1, h2, h3⟩

example : ∃ cs st, compileChunks [] [] [.tabular demoQ] = .ok cs ∧ parseStatement (toksOf cs) = some st ∧
    st.ctes.length = 5 := by
  obtain ⟨cs, hc⟩ := demoQ_compiles
  obtain ⟨subs, st, subsA, h1, h2, h3, h4, _⟩ := C05_statement_structure [] demoQ cs demoQ_ok hc
  have : splitQueries [] [] [] demoQ = .ok subs → subs.length = 6 := by
    intro h
    have h' : ∃ out, splitQueries [] [] [] demoQ = .ok out ∧ out.length = 6 := ⟨_, rfl, rfl⟩
    obtain ⟨out, ho, hl⟩ := h'
    rw [ho] at h; cases h; exact hl
  exact ⟨cs, st, hc, h2, by rw [h4, this h1]⟩

/-! ### the extra conjuncts of `tabularOK` are necessary -/

/-- `T | where a , b` with a binary node whose operator the writer does not know (never built by the
    PQL parser): `lexOK` and `shapeOK` hold, `Compile` succeeds (it writes a NULL placeholder), but
    there is no intended translation -/
def cexUntr : Tabular :=
  .mk (some (idn "T")) (.cons (.where_ .zero .zero (.binary (col "a") .zero .comma (col "b"))) .nil)

theorem C05_counterexample_untranslatable :
    (Expr.binary (col "a") .zero .comma (col "b")).lexOK = true ∧
    shapeOK (Expr.binary (col "a") .zero .comma (col "b")) = true ∧
    (∃ cs, compileChunks [] [] [.tabular cexUntr] = .ok cs) ∧
    intended [] [.tabular cexUntr] = none := ⟨by decide, by decide, ⟨_, rfl⟩, by rfl⟩

/-- `T | project` with no columns: `Compile` succeeds with `SELECT  FROM "T";`, which is not SQL -/
def cexProj : Tabular := .mk (some (idn "T")) (.cons (.project .zero .zero []) .nil)

theorem C05_counterexample_empty_project :
    ∃ cs, compileChunks [] [] [.tabular cexProj] = .ok cs ∧ parseStatement (toksOf cs) = none := by
  refine ⟨[.txt "SELECT ", .txt " FROM ", .qid (Bytes.ofString "T"), .txt ";"], rfl, ?_⟩
  simp [parseStatement, pSelect, pItems, pExprS, pUnaryS, pAtomS, fuelOf, operatorWords]

/-- `T | sort by` with no terms: `SELECT * FROM "T" ORDER BY ;` -/
def cexSort : Tabular := .mk (some (idn "T")) (.cons (.sort .zero .zero []) .nil)

theorem C05_counterexample_empty_sort :
    ∃ cs, compileChunks [] [] [.tabular cexSort] = .ok cs ∧ parseStatement (toksOf cs) = none := by
  refine ⟨[.txt "SELECT * FROM ", .qid (Bytes.ofString "T"), .txt " ORDER BY ", .txt ";"], rfl, ?_⟩
  simp [parseStatement, pSelect, pItems, pTableRef, pAlias, pOrderTerms, pExprS, pUnaryS, pAtomS, fuelOf, operatorWords]

/-- a `project` column with neither name nor expression: `SELECT  AS "" FROM "T";` -/
def cexCol : Tabular := .mk (some (idn "T")) (.cons (.project .zero .zero [⟨none, .zero, .nil⟩]) .nil)

theorem C05_counterexample_anonymous_column :
    ∃ cs, compileChunks [] [] [.tabular cexCol] = .ok cs ∧ parseStatement (toksOf cs) = none := by
  refine ⟨[.txt "SELECT ", .txt " AS ", .qid [], .txt " FROM ", .qid (Bytes.ofString "T"), .txt ";"], rfl, ?_⟩
  simp [parseStatement, pSelect, pItems, pExprS, pUnaryS, pAtomS, fuelOf, operatorWords]


/-- non-vacuity of `C05_select` / `C05_select_join`: an innerunique join link with a LIMIT -/
def demoLink : SubA :=
  { name := Bytes.ofString "q"
    source := .join true false (Bytes.ofString "L") (Bytes.ofString "R")
      (.binary (.qident [idn "$left", idn "k"]) .zero .eq (.qident [idn "$right", idn "k"]))
    take := some (numL "5") }

example : ∃ sub cs sel want, erase [] [] demoLink = .ok sub ∧ sub.write ⟨[], [], .default⟩ = .ok cs ∧
    pSelect (toksOf cs ++ [S ";"]) = some (sel, [S ";"]) ∧ selOf [] demoLink = some want ∧
    selectEq (normSel sel) (normSel want) = true := by
  have h : ∃ sub cs, erase [] [] demoLink = .ok sub ∧ sub.write ⟨[], [], .default⟩ = .ok cs := ⟨_, _, rfl, rfl⟩
  obtain ⟨sub, cs, he, hw⟩ := h
  obtain ⟨sel, want, h1, h2, h3⟩ := C05_select [] demoLink sub cs [S ";"] he (by decide) hw ⟨[], Or.inr rfl⟩
  exact ⟨sub, cs, sel, want, he, hw, h1, h2, h3⟩

end Pql.C05
