/-
Property C16, semantic half: the prelude TEXT cmd/pql keeps IS the scope.

cmd/pql implements "compiled with all previously accepted let statements in scope" textually: it
keeps a prelude string, appends every accepted let text followed by ";\n", and calls
`pql.Compile(prelude + stmt)` (for a let: `prelude + stmt + ";X"`).  Here this is tied to the real
compile model `Pql.compile []`:

1. `C16_prelude_parse`        `Parse(prelude ++ s)` = the let statements (each parsed alone, moved to
                              its offset) ++ the statements of `s` moved by `|prelude|`;
2. `C16_prelude_is_scope`     `Compile(prelude ++ s)` = the library's result for `s` with those let
                              statements in scope, in order (`compileWithLets`; unshifted trees, the
                              implicit column names sliced from `s` itself);
   `C16_prelude_is_substitution`  … = compiling `s` with the let values substituted (C06);
3. `C16_let_test_sound`       the probe `Compile(prelude ++ l ++ ";X")` succeeds iff the library accepts
                              `l` in that scope (`letAccepts`): the dummy query `X` adds nothing;
   `C16_letAccepts_iff`       … iff `l` parses without error and its value can be written in let mode
                              under the scope of the earlier lets;
4. `C16_cli_semantics`        closed statement for `cliMain compileCli input`: standard output is, in
                              order, the library's SQL of every non-let piece under the scope of the
                              lets accepted before it, each followed by a blank line;
5. a concrete script (two lets, a shadowing let, a failing let, two queries) evaluated by the kernel,
   and counterexamples for every hypothesis.

New specification-level definitions: Lemmas/CliSemDefs.lean (`goodSp`, `goodE`, `colsGood`,
`SemiEnds`, `preludeOf`, `letsAt`, `letsOf`), Lemmas/CliSemCompile.lean (`TermPiece`, `letKey`,
`AllLets`, `compileWithLets`, `AcceptedLet`), Lemmas/CliSemRun.lean (`compileCli`, `letAccepts`,
`queryResult`, `semOutcome`, `semSteps`, `semAll`).
-/
import PqlModel.Lemmas.CliSemRun
namespace Pql.CliSem
open Pql Pql.Piecewise Pql.CliIO Pql.CliSpec CompileOracle

/-! ## 1. `Parse` -/

/-- **C16 (parse of prelude ++ statement).**  `ls` are let texts such that the ';' written behind
    each is a token of its own (`SemiEnds`, decidable: `C16_semiEnds_iff`; true of every
    ';'-terminated piece of `SplitStatements`: `C16_pieces_semiEnds`); `s` is ANY text.  Then the
    statements of `l1 ++ ";\n" ++ … ++ lk ++ ";\n" ++ s` are the statements of `l1`, …, `lk` — each
    parsed on its own and moved to its offset — followed by the statements of `s` moved by the length
    of the prelude; and the whole parses without error iff every part does. -/
theorem C16_prelude_parse (ls : List Bytes) (hls : ∀ l ∈ ls, SemiEnds l) (s : Bytes) :
    (parse (preludeOf ls ++ s)).1 =
        letsAt 0 ls ++ (parse s).1.map (shStmt (preludeOf ls).length) ∧
      ((parse (preludeOf ls ++ s)).2 = [] ↔ (∀ l ∈ ls, (parse l).2 = []) ∧ (parse s).2 = []) :=
  prelude_parse ls (fun l hl => (semiClosed_iff l).mpr (hls l hl)) s

/-- `SemiEnds` is decidable: the scan of `l ++ ";"` ends with the semicolon token -/
theorem C16_semiEnds_iff (l : Bytes) :
    SemiEnds l ↔ (⟨.semi, l.length, l.length + 1, []⟩ : Token) ∈ scan (l ++ [59]) := by
  have := reaches_iff_semi_mem l [] 0
  simpa [SemiEnds, scan] using this

/-- … and does not depend on what follows the ';' (the scanner never looks past a ';' unless
    it is inside a string, a quoted name or a comment) -/
theorem C16_semiEnds_indep (l v : Bytes) : SemiEnds l ↔ Reaches (l ++ 59 :: v) l.length :=
  ⟨fun h => (semiClosed_iff l).mpr h v, fun h => (semiClosed_iff l).mp (semiClosed_of_reaches h)⟩

/-- every piece of `SplitStatements` but the last has it, and contains no ';' token -/
theorem C16_pieces_semiEnds (text : Bytes) :
    ∀ p ∈ (splitStatements text).dropLast, SemiEnds p ∧ ∀ t ∈ scan p, t.kind ≠ .semi :=
  fun p hp => ⟨(semiClosed_iff p).mp (termPiece_of_split text p hp).1, (termPiece_of_split text p hp).2⟩

/-- a ';'-terminated piece that starts with `let` and parses without error is exactly one `let`
    statement -/
theorem C16_let_piece (l : Bytes) (hns : ∀ t ∈ scan l, t.kind ≠ .semi) (hl : isLetStatement l = true) :
    ∃ kw n a x, (parse l).1 = [.let_ kw n a x] := by
  have hA := allLets_of_isLetStatement l hns hl
  have hlen : (parse l).1.length ≤ 1 := by
    rw [parse_nosemi_fst l hns]
    cases (pStatement ⟨l.length⟩ (scan l)).1 <;> simp
  have hne : (parse l).1 ≠ [] := by
    rw [parse_nosemi_fst l hns]
    unfold isLetStatement at hl
    cases hsc : scan l with
    | nil => rw [hsc] at hl; cases hl
    | cons t rest =>
      rw [hsc] at hl
      obtain ⟨h1, st, h2, _⟩ := pLet_let ⟨l.length⟩ (fuelFor (t :: rest).length) t rest hl
      have hf : stmtFirst ⟨l.length⟩ (t :: rest) =
          pLet ⟨l.length⟩ (fuelFor (t :: rest).length) (t :: rest) := by
        unfold stmtFirst
        simp only [h1, Bool.not_false, if_true]
      rw [pStatement_eq, hf]
      unfold stmtTail
      rw [h1]
      simp only [List.length_cons] at h2
      simp [h2]
  cases hp : (parse l).1 with
  | nil => exact absurd hp hne
  | cons st rest =>
    rw [hp] at hlen hA
    have : rest = [] := by
      cases rest with
      | nil => rfl
      | cons _ _ => simp at hlen
    subst this
    have := hA st (by simp)
    cases st with
    | let_ kw n a x => exact ⟨kw, n, a, x, rfl⟩
    | tabular t => simp [letKey] at this

/-! ## 2. the prelude is the scope -/

/-- **C16 (the prelude is the scope).**  `ls` are accepted let texts (each: the ';' behind it is a
    token, it parses without error, into `let` statements only — what the tool guarantees,
    `C16_accepted_invariant`); `s` is ANY text.  Then `Compile(l1;\n…lk;\n ++ s)` is the library's
    result for `s` with the `let` statements of `l1, …, lk` in scope, in that order: the
    statement list `[let_1, …, let_k] ++ statements of s`, with the ORIGINAL trees (positions
    relative to the own text of each) and the implicit column names sliced from `s` itself.
    Later bindings shadow earlier ones (`lookupScope` finds the most recent: `C16_shadow`). -/
theorem C16_prelude_is_scope (ls : List Bytes) (hls : ∀ l ∈ ls, AcceptedLet l) (s : Bytes) :
    compile [] (preludeOf ls ++ s) = compileWithLets (letsOf ls) s :=
  prelude_compile ls hls s

/-- spelled out -/
theorem C16_prelude_is_scope' (ls : List Bytes) (hls : ∀ l ∈ ls, AcceptedLet l) (s : Bytes) :
    compile [] (preludeOf ls ++ s) =
      if (parse s).2 = [] then
        match compileChunks s [] (letsOf ls ++ (parse s).1) with
        | .ok cs => .ok (renderChunks cs)
        | .error .err => .error
        | .error .panic => .panic
      else .error := by
  rw [C16_prelude_is_scope ls hls s, compileWithLets]
  split
  · cases compileChunks s [] (letsOf ls ++ (parse s).1) with
    | ok cs => rfl
    | error e => cases e <;> rfl
  · rfl

/-- the statement loop conses each binding on top of the scope, and a name is looked up from the
    top: a later `let` of the same name shadows an earlier one -/
theorem C16_shadow (n : Bytes) (v v' : List Chunk) (sc : Scope) :
    lookupScope ((n, v') :: (n, v) :: sc) n = some v' := by
  simp [lookupScope]

/-- the compile ignores the span shift together with the prepended text: the exact statement -/
theorem C16_compile_ignores_shift (P s : Bytes) (stmts : List Stmt)
    (hg : ∀ st ∈ stmts, colsGoodStmt st = true) :
    compileChunks (P ++ s) [] (stmts.map (shStmt P.length)) = compileChunks s [] stmts :=
  compileChunks_shift P s stmts hg

/-- … its hypothesis holds of every error-free parse -/
theorem C16_colsGood_of_parse (src : Bytes) (h : (parse src).2 = []) :
    ∀ st ∈ (parse src).1, colsGoodStmt st = true :=
  colsGood_of_parse src (parse src).1 (Prod.ext rfl h)

/-- … and the slice of an implicit column name is the same text -/
theorem C16_slice_shift (P s : Bytes) (x : Expr) (h : goodE x = true) :
    sliceSource (P ++ s) (shExpr P.length x).spanOf = sliceSource s x.spanOf := by
  have := sliceSource_shExpr P s x h
  rwa [mapE_shMap] at this

/-- **C16 + C06 (the prelude is a substitution).**  If `s` is one query `t` and the side conditions
    of `C06_subst_program` hold for the accepted lets, `Compile(prelude ++ s)` renders
    `compileChunks s [] (lets ++ [t])`, which is — up to parentheses — what compiling `s` alone
    gives when every let-bound name in `t` is replaced by its (resolved) value. -/
theorem C16_prelude_is_substitution (ls : List Bytes) (hls : ∀ l ∈ ls, AcceptedLet l) (s : Bytes)
    (t : Tabular) (hs : parse s = ([.tabular t], []))
    (hjoin : LetsJoinSafe .join (letsOf ls)) (hT : TrueFree (letsEnv (letsOf ls) [])) (hN : tabNamed t)
    (sc : Scope) (q : Option Tabular) (hrun : compileStmts [] (letsOf ls) [] none = .ok (sc, q)) :
    compile [] (preludeOf ls ++ s) = renderResult (compileChunks s [] (letsOf ls ++ [.tabular t])) ∧
      ∃ t', resolveLets (letsOf ls ++ [.tabular t]) [] = some t' ∧
        ExRel EqUpToParens (compileChunks s [] (letsOf ls ++ [.tabular t]))
          (compileChunks s [] [.tabular t']) := by
  have hL : AllLets (letsOf ls) := allLets_letsOf (fun l hl => (hls l hl).2.2)
  constructor
  · rw [C16_prelude_is_scope ls hls s, compileWithLets, hs]
    rfl
  · refine C06.C06_subst_program s [] (letsOf ls) t (isLets_of_allLets hL) hjoin hT hN sc q ?_
    rw [compileStmts_lets_src s [] _ hL]
    exact hrun

/-! ## 3. the probe -/

/-- **C16 (the let test is sound).**  With accepted lets `ls` and a ';'-terminated piece `l` that
    starts with `let`: `Compile(prelude ++ l ++ ";X")` succeeds iff the library accepts `l` with the
    statements of `ls` in scope — `l` parses without error and the statement loop gets through
    `lets ++ [let_l]`.  The dummy query `X` adds exactly one trivially compiling query
    (`compileWithLets_probeX`) and no binding can capture it (a table name is not an expression). -/
theorem C16_let_test_sound (ls : List Bytes) (hls : ∀ l ∈ ls, AcceptedLet l) (l : Bytes)
    (hl : TermPiece l) (hlet : isLetStatement l = true) :
    (compileCli (preludeOf ls ++ l ++ Bytes.ofString ";X")).isSome = letAccepts (letsOf ls) l :=
  probe_iff ls hls l hl hlet

theorem compileStmts_lets_append (src : Bytes) : ∀ (L M : List Stmt), AllLets L → ∀ scope,
    compileStmts src (L ++ M) scope none =
      match compileStmts src L scope none with
      | .ok r => compileStmts src M r.1 none
      | .error e => .error e := by
  intro L
  induction L with
  | nil => intro M _ scope; rfl
  | cons a L ih =>
    intro M hL scope
    have ha := hL a (by simp)
    have hL' : AllLets L := fun st hst => hL st (by simp [hst])
    cases a with
    | tabular t => simp [letKey] at ha
    | let_ kw n asg x =>
      simp only [List.cons_append, compileStmts]
      cases (writeExpr ⟨src, scope, .let_⟩ x).map (wrapTight x) with
      | error e => rfl
      | ok sql =>
        cases n with
        | none => rfl
        | some m => exact ih M hL' _

/-- **what acceptance means**: the earlier lets having built the scope `sc`, the let text `l`
    (one statement `let n = x`) is accepted iff it parses without error, has a name, and its value
    can be written in let mode under `sc` (every name in it is bound in `sc` or a built-in
    constant: "closed") -/
theorem C16_letAccepts_iff (L : List Stmt) (hL : AllLets L) (sc : Scope) (q : Option Tabular)
    (hrun : compileStmts [] L [] none = .ok (sc, q)) (l : Bytes) (kw asg : Span) (n : Option Ident)
    (x : Expr) (hp : (parse l).1 = [.let_ kw n asg x]) :
    letAccepts L l = true ↔
      (parse l).2 = [] ∧ n.isSome = true ∧ okB (writeExpr ⟨[], sc, .let_⟩ x) = true := by
  unfold letAccepts
  rw [hp, compileStmts_lets_append [] L _ hL, hrun]
  simp only [compileStmts, Bool.and_eq_true, List.isEmpty_iff]
  cases writeExpr ⟨[], sc, .let_⟩ x with
  | error e => simp [okB, Except.map]
  | ok body =>
    cases n with
    | none => simp [okB, Except.map]
    | some m => simp [okB, Except.map]

/-- the tool's invariant: the lets in scope always get through the statement loop, so a later
    statement never fails because of the prelude -/
theorem C16_accepts_extends (L : List Stmt) (l : Bytes) (h : letAccepts L l = true) :
    okB (compileStmts [] (L ++ (parse l).1) [] none) = true := by
  simp only [letAccepts, Bool.and_eq_true] at h
  exact h.2

/-! ## 4. the tool -/

/-- **C16 (semantics of the command-line tool).**  With `text` = the delivered lines each followed
    by '\n' (`C16_lines_lossless`: the input up to `\r\n` → `\n`) and `pieces = SplitStatements text`:
    the result of `cliMain` with the real `Compile` is given by `semAll pieces` — for every
    ';'-terminated piece in order: a piece starting with `let` is accepted (its statement joins the
    scope) iff the library accepts it in the current scope, else it is a failure and the scope is
    unchanged; any other piece yields the library's SQL for it under the current scope
    (`compileWithLets`), or a failure; then the unterminated last piece, if it has a token, is
    compiled as a query under the final scope.  Standard output = the SQL texts in order, each
    followed by a blank line; `nErrors` = failures (+1 for a read error); exit status ≠ 0 iff
    `nErrors > 0`.  No text concatenation occurs on the right-hand side. -/
theorem C16_cli_semantics (input : Bytes) :
    cliMain compileCli input =
      (let pieces := splitStatements (normalise (bufioLines input).1)
       let n := nFailed (semAll pieces) + (if (bufioLines input).2 then 1 else 0)
       ⟨sqlText (semAll pieces), n, decide (n > 0)⟩) := by
  rw [C16_main_spec]
  unfold runPieces
  rw [allOutcomes_eq]

/-- standard output alone -/
theorem C16_cli_output (input : Bytes) :
    (cliMain compileCli input).out =
      ((semAll (splitStatements (normalise (bufioLines input).1))).filterMap Outcome.sql?).flatMap
        (· ++ [10, 10]) := by
  rw [C16_cli_semantics]; rfl

/-- the records of the tool are the semantic outcomes, and the prelude stays a text of accepted
    lets whose statements are the semantic scope (the invariant behind `C16_cli_semantics`) -/
theorem C16_accepted_invariant (ss : List Bytes) (hss : ∀ s ∈ ss, TermPiece s) :
    (steps compileCli [] ss).map (·.res) = (semSteps [] ss).1 ∧
      ∃ ls', (∀ l ∈ ls', AcceptedLet l) ∧
        preludeAfter [] (steps compileCli [] ss) = preludeOf ls' ∧ (semSteps [] ss).2 = letsOf ls' :=
  steps_eq ss [] (by simp) hss

/-! ## 5. a concrete script -/

/-- two lets, a let that shadows the first, a failing let (unbound name), a query using both
    bindings, an unterminated query with an implicit column name -/
def script : Bytes := Bytes.ofString
  "let a = 1;\nlet b = a + 1;\nlet a = 2;\nlet c = zzz;\nT | where x == a and y == b;\nT | extend a + b"

set_option maxRecDepth 1000000 in
/-- the tool on the script: `b` was bound when `a` was 1, the later `a = 2` shadows; the failing
    let is counted and not bound; the implicit column name `a + b` is cut from the statement's own
    text although it was compiled behind a prelude of 40 bytes -/
theorem script_run : cliMain compileCli script = ⟨Bytes.ofString
    ("SELECT * FROM \"T\" WHERE (coalesce(\"x\" = 2, FALSE)) AND (coalesce(\"y\" = (1 + 1), FALSE));\n\n" ++
     "SELECT *, 2 + (1 + 1) AS \"a + b\" FROM \"T\";\n\n"), 1, true⟩ := by decide +kernel

set_option maxRecDepth 1000000 in
/-- the semantic outcomes of its pieces (non-vacuity of `C16_cli_semantics`) -/
theorem script_outcomes :
    semAll (splitStatements (normalise (bufioLines script).1)) =
      [.letOk, .letOk, .letOk, .letFail,
       .sql (Bytes.ofString "SELECT * FROM \"T\" WHERE (coalesce(\"x\" = 2, FALSE)) AND (coalesce(\"y\" = (1 + 1), FALSE));"),
       .sql (Bytes.ofString "SELECT *, 2 + (1 + 1) AS \"a + b\" FROM \"T\";")] := by decide +kernel

/-- `let a = 1`, `\nlet b = a + 1` — two accepted let texts as the tool stores them -/
def exLets : List Bytes := [Bytes.ofString "let a = 1", Bytes.ofString "\nlet b = a + 1"]

set_option maxRecDepth 1000000 in
theorem exLets_semiEnds : ∀ l ∈ exLets, SemiEnds l := by
  intro l hl
  rw [C16_semiEnds_iff]
  simp only [exLets, List.mem_cons, List.not_mem_nil, or_false] at hl
  rcases hl with rfl | rfl <;> rw [scan_eq_scanFuel] <;> decide

set_option maxRecDepth 1000000 in
/-- non-vacuity of `AcceptedLet` -/
theorem exLets_accepted : ∀ l ∈ exLets, AcceptedLet l := by
  intro l hl
  refine ⟨(semiClosed_iff l).mpr (exLets_semiEnds l hl), ?_, ?_⟩
  · simp only [exLets, List.mem_cons, List.not_mem_nil, or_false] at hl
    rcases hl with rfl | rfl <;> rw [parse, scan_eq_scanFuel] <;> decide
  · apply allLets_of_isLetStatement
    · simp only [exLets, List.mem_cons, List.not_mem_nil, or_false] at hl
      rcases hl with rfl | rfl <;> rw [scan_eq_scanFuel] <;> decide
    · simp only [exLets, List.mem_cons, List.not_mem_nil, or_false] at hl
      rcases hl with rfl | rfl <;> (unfold isLetStatement; rw [scan_eq_scanFuel]; decide)

/-- `C16_prelude_is_scope` on the example, for every `s` -/
theorem exLets_scope (s : Bytes) :
    compile [] (Bytes.ofString "let a = 1;\n\nlet b = a + 1;\n" ++ s) = compileWithLets (letsOf exLets) s := by
  have := C16_prelude_is_scope exLets exLets_accepted s
  have e : preludeOf exLets = Bytes.ofString "let a = 1;\n\nlet b = a + 1;\n" := by decide
  rwa [e] at this

/-! ### non-vacuity of the substitution reading -/

def subLets : List Bytes := [Bytes.ofString "let a = -1"]
def subQ : Bytes := Bytes.ofString "T | where a > 0"
def subLetTree : Stmt := .let_ ⟨0,3⟩ (some ⟨[97],⟨4,5⟩,false⟩) ⟨6,7⟩ (.unary ⟨8,9⟩ .minus (.lit ⟨9,10⟩ .number [49]))
def subQTree : Tabular :=
  .mk (some ⟨[84], ⟨0,1⟩, false⟩) (.cons (.where_ ⟨2,3⟩ ⟨4,9⟩ (.binary (.qident [⟨[97],⟨10,11⟩,false⟩]) ⟨12,13⟩ .gt (.lit ⟨14,15⟩ .number [48]))) .nil)

set_option maxRecDepth 1000000 in
theorem subLets_parse : parse (Bytes.ofString "let a = -1") = ([subLetTree], []) := by
  rw [parse, scan_eq_scanFuel]; rfl
set_option maxRecDepth 1000000 in
theorem subQ_parse : parse subQ = ([.tabular subQTree], []) := by
  rw [parse, scan_eq_scanFuel]; rfl

theorem subLets_of : letsOf subLets = [subLetTree] := by
  simp [letsOf, subLets, subLets_parse]

set_option maxRecDepth 1000000 in
theorem subLets_accepted : ∀ l ∈ subLets, AcceptedLet l := by
  intro l hl
  simp only [subLets, List.mem_singleton] at hl
  subst hl
  refine ⟨?_, ?_, ?_⟩
  · rw [semiClosed_iff, C16_semiEnds_iff, scan_eq_scanFuel]; decide
  · rw [subLets_parse]
  · rw [subLets_parse]; intro st hst; simp only [List.mem_singleton] at hst; subst hst; rfl

/-- non-vacuity of `C16_prelude_is_substitution`: `let a = -1;\n` ++ `T | where a > 0` -/
theorem subst_example :
    ∃ t', resolveLets (letsOf subLets ++ [.tabular subQTree]) [] = some t' ∧
      compile [] (preludeOf subLets ++ subQ) = renderResult (compileChunks subQ [] (letsOf subLets ++ [.tabular subQTree])) ∧
      ExRel EqUpToParens (compileChunks subQ [] (letsOf subLets ++ [.tabular subQTree]))
        (compileChunks subQ [] [.tabular t']) := by
  have h := C16_prelude_is_substitution subLets subLets_accepted subQ subQTree subQ_parse ?_ ?_ ?_
    [([97], [.txt "(", .txt "-", .num [49], .txt ")"])] none ?_
  · obtain ⟨h1, t', h2, h3⟩ := h
    exact ⟨t', h2, h1, h3⟩
  · rw [subLets_of]
    intro st hst kw n a' x hx _
    simp only [List.mem_singleton] at hst
    rw [hst] at hx
    cases hx
    refine ⟨by decide, by decide, ?_, ?_⟩ <;> rfl
  · rw [subLets_of]; rfl
  · exact ⟨trivial, trivial⟩
  · rw [subLets_of]; rfl

/-! ## counterexamples: every hypothesis is needed -/

/-- `let x = 1 // c` — parses alone into one `let` without error, but the ";\n" the tool would
    append lands in the comment -/
def cexComment : Bytes := Bytes.ofString "let x = 1 // c"

set_option maxRecDepth 1000000 in
/-- **`SemiEnds` is needed** (for 1 and 2): the let text parses alone, error-free, into one `let`,
    but behind it the query `T` is glued to the let (`let x = 1 T`): the whole fails, while `T`
    with the let in scope compiles.  (Such a text is never a ';'-terminated piece.) -/
theorem C16_needs_semiEnds :
    (parse cexComment).2 = [] ∧ (parse cexComment).1.length = 1 ∧ ¬ SemiEnds cexComment ∧
    (parse (preludeOf [cexComment] ++ [84])).2 ≠ [] ∧
    compile [] (preludeOf [cexComment] ++ [84]) = .error ∧
    compileWithLets (letsOf [cexComment]) [84] = .ok (Bytes.ofString "SELECT * FROM \"T\";") := by
  refine ⟨?_, ?_, ?_, ?_, ?_, ?_⟩
  · rw [parse, scan_eq_scanFuel]; decide
  · rw [parse, scan_eq_scanFuel]; decide
  · rw [C16_semiEnds_iff, scan_eq_scanFuel]; decide
  · rw [parse, scan_eq_scanFuel]; decide
  · decide +kernel
  · decide +kernel

set_option maxRecDepth 1000000 in
/-- … and for 3: the probe `let x = 1 // c;X` has no query at all and is REJECTED, although the
    library accepts the let -/
theorem C16_probe_needs_semiEnds :
    (compileCli (preludeOf [] ++ cexComment ++ Bytes.ofString ";X")).isSome = false ∧
    letAccepts (letsOf []) cexComment = true := by
  constructor <;> decide +kernel

set_option maxRecDepth 1000000 in
/-- **"parses without error" is needed** in `AcceptedLet`: `let x = 1 )` yields a (complete) `let`
    statement and an error; behind it everything fails, with the statement in scope `T` compiles -/
theorem C16_needs_errorFree :
    compile [] (preludeOf [Bytes.ofString "let x = 1 )"] ++ [84]) = .error ∧
    compileWithLets (letsOf [Bytes.ofString "let x = 1 )"]) [84] =
      .ok (Bytes.ofString "SELECT * FROM \"T\";") := by
  constructor <;> decide +kernel

set_option maxRecDepth 1000000 in
/-- **"`let` statements only" is needed** in `AcceptedLet`: with the query `T | extend a+b` as
    "prelude" and nothing behind it, the text compiles (the column name is cut from the text), but
    the unshifted tree compiled against the empty text `s` cannot be sliced (Go would panic) -/
theorem C16_needs_allLets :
    compile [] (preludeOf [Bytes.ofString "T | extend a+b"] ++ []) =
      .ok (Bytes.ofString "SELECT *, \"a\" + \"b\" AS \"a+b\" FROM \"T\";") ∧
    compileWithLets (letsOf [Bytes.ofString "T | extend a+b"]) [] = .panic := by
  constructor <;> decide +kernel

set_option maxRecDepth 1000000 in
/-- **`isLetStatement` is needed** in `C16_let_test_sound`: for the query `T` the probe `T;X` is a
    batch of two queries (rejected) while the statement loop gets through `[T]` -/
theorem C16_probe_needs_let :
    (compileCli (preludeOf [] ++ [84] ++ Bytes.ofString ";X")).isSome = false ∧
    letAccepts (letsOf []) [84] = true := by
  constructor <;> decide +kernel

/-- **`goodE` is needed** in `C16_slice_shift`: a tree (not one the parser builds without error)
    with the never-assigned `Rbrack` 0:0 of a broken index expression: its span starts at 0
    whatever the shift, and the slices differ -/
theorem C16_slice_needs_good :
    let x : Expr := .index (.qident [⟨[97], ⟨0, 1⟩, false⟩]) ⟨1, 2⟩ (.lit ⟨2, 3⟩ .number [49]) .zero
    sliceSource ([32, 32] ++ [97, 91, 49]) (shExpr 2 x).spanOf = .ok [32, 32, 97, 91, 49] ∧
      sliceSource [97, 91, 49] x.spanOf = .ok [97, 91, 49] := by
  exact ⟨rfl, rfl⟩

end Pql.CliSem
