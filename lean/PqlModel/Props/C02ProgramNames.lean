/-
Property C02 — programs with lets, end to end, WITHOUT `tabNamed`.

`E2EFinal.C02_end_to_end_program_bytes` needs every extend / summarize column to be `name = expr`, because it
is stated through `resolveLets`: substituting let values INTO the tree changes the source text an implicit
column name is sliced from.  `Rel.interpProgram` — the interpreter of programs — fixes the implicit names
first (`Rel.nameTabular`) and substitutes then.  Against it the hypothesis goes away:

  `C02_compile_named`             the compiler emits the same chunks for a query and for the query with its
                                  implicit column names made explicit (the alias `aliasOf` / `columnAlias`
                                  slices is `Rel.colName`), whenever it succeeds on the former;
  `C02_end_to_end_program_names`  tree level: the emitted text, read back and evaluated as read, is
                                  `Rel.interpProgram src db (lets ++ [query t])`;
  `C02_end_to_end_program_names_bytes` / `_run`  the same for source bytes.

The remaining side conditions are those of `E2EFinal.C02_end_to_end_program` with the resolved NAMED query
`substTabular (letsEnv lets []) (nameTabular src t)` in place of the resolved query.  (`tabExprsB` — every
extend / summarize column has an expression — is what the route through `nameTabular` needs in place of
`tabNamed`; it follows from `lexOK`.  `C05.tabularOK` does not look at column names: `tabularOK_name`.)
Byte level: `k4Free`, `envJoinSafe`, `namesOk`, `tabOpsOk` — each needed (`E2EFinal.Cex.*`; for
`envJoinSafe` see `Cex.envJoinSafe_needed_eval` below: part C).
-/
import PqlModel.Lemmas.E2EMoreNamesOK
import PqlModel.Props.C02EndToEndSource
namespace Pql.E2EMore
open Pql Sql CompileOracle Intended JoinFull Pql.ParsedOK Pql.E2E Pql.RT Pql.Rel

/-- **the compiler writes a query like the query with its implicit column names made explicit** -/
theorem C02_compile_named (src : Bytes) (lets : List Stmt) (t : Tabular) (cs : List Chunk) (hl : IsLets lets)
    (hc : compileChunks src [] (lets ++ [.tabular t]) = .ok cs) :
    compileChunks src [] (lets ++ [.tabular (nameTabular src t)]) = .ok cs := by
  obtain ⟨sc, q, hrun⟩ := lets_run_of_compile src lets t cs hl hc
  rw [C06.C06_lets_then_query src [] lets t hl sc q hrun] at hc
  rw [C06.C06_lets_then_query src [] lets _ hl sc q hrun]
  exact finishChunks_name src sc t cs hc

theorem stmtsLexOK_name (src : Bytes) (t : Tabular) : (lets : List Stmt) → IsLets lets →
    stmtsLexOK (lets ++ [.tabular (nameTabular src t)]) = stmtsLexOK (lets ++ [.tabular t])
  | [], _ => by simp only [List.nil_append, stmtsLexOK, lexOK_name]
  | s :: rest, hl => by
    obtain ⟨kw, n, a, x, rfl⟩ := hl s List.mem_cons_self
    simp only [List.cons_append, stmtsLexOK,
      stmtsLexOK_name src t rest (fun s hs => hl s (List.mem_cons_of_mem _ hs))]

/-- **C02 (end to end, programs with lets, tree level) against `Rel.interpProgram`, without `tabNamed`.** -/
theorem C02_end_to_end_program_names (src : Bytes) (lets : List Stmt) (t : Tabular) (cs : List Chunk)
    (hc : compileChunks src [] (lets ++ [.tabular t]) = .ok cs)
    (hl : IsLets lets) (hv : LetValuesOK lets) (hjs : envJoinSafe (letsEnv lets []) = true)
    (hJ : TrueFree (letsEnv lets []) ∨ TabNE t = true)
    (hlexP : stmtsLexOK (lets ++ [.tabular t]) = true)
    (hok : C05.tabularOK (substTabular (letsEnv lets []) t) = true)
    (hnames : namesOk (substTabular (letsEnv lets []) (nameTabular src t)) = true)
    (hops : tabOpsOk (substTabular (letsEnv lets []) (nameTabular src t)) = true) :
    ∃ st, readSql (renderChunks cs) = some st ∧ noBangStatement st = true ∧
      ∀ db, RectDB db → Rel.interpProgram src db (lets ++ [.tabular t]) = some (evalStatement db st) := by
  have hX : tabExprsB t = true := tabExprs_of_lexOK t (stmtsLexOK_query t lets hl hlexP)
  rw [← tabularOK_name src _ t hX] at hok
  have hc1 := C02_compile_named src lets t cs hl hc
  obtain ⟨st, _, h1, h2, _, _, h5⟩ := E2EFinal.end_to_end_program src lets (nameTabular src t) cs hc1 hl hv hjs
    (hJ.imp id (fun h => by rw [tabNE_name]; exact h)) (tabNamed_name src t hX)
    (by rw [stmtsLexOK_name src t lets hl]; exact hlexP) hok hnames hops
  refine ⟨st, h1, h2, fun db hdb => ?_⟩
  obtain ⟨ha, _, hb⟩ := h5 db hdb
  rw [interpProgram_name src db lets t hl hX, hb, ha]

/-- **C02 (end to end, source bytes, programs with lets) against `Rel.interpProgram`, without `tabNamed`.**
    For a source that `parse` reads without error as `lets ++ [query t]` and `compile` turns into `sql`:
    `sql` read back and evaluated as read is the meaning of the program on every rectangular database.
    No `lexOK` / `shapeOK` / `tabularOK` / `tabNamed` hypothesis. -/
theorem C02_end_to_end_program_names_bytes (src sql : Bytes) (lets : List Stmt) (t : Tabular)
    (hp : parse src = (lets ++ [.tabular t], [])) (hc : compile [] src = .ok sql)
    (hk : k4Free (lets ++ [.tabular t]) = true)
    (hl : IsLets lets) (hjs : envJoinSafe (letsEnv lets []) = true)
    (hnames : namesOk (substTabular (letsEnv lets []) (nameTabular src t)) = true)
    (hops : tabOpsOk (substTabular (letsEnv lets []) (nameTabular src t)) = true) :
    ∃ st, readSql sql = some st ∧
      ∀ db, RectDB db → Rel.interpProgram src db (lets ++ [.tabular t]) = some (evalStatement db st) := by
  obtain ⟨cs, hcs, rfl⟩ := compile_ok_chunks src sql _ hp hc
  have hlex := parsed_lexOK_k4 src _ hp hk
  have hv := E2EFinal.parsed_letValues src _ lets _ hl hp hc hk
  have hne : TabNE t = true := (parsed_facts src _ hp (.tabular t) (by simp)).2.2 t rfl
  have hres : resolveLets (lets ++ [.tabular t]) [] = some (substTabular (letsEnv lets []) t) := by
    obtain ⟨sc, q, hrun⟩ := lets_run_of_compile src lets t cs hl hcs
    exact C06.C06_resolveLets_env lets t hl (C06.lets_named_of_run src lets hl _ sc q hrun)
  have hok := parsed_resolved_tabularOK src _ _ hp hc hk _ hres
  obtain ⟨st, h1, _, h2⟩ := C02_end_to_end_program_names src lets t cs hcs hl hv hjs (Or.inr hne) hlex hok hnames hops
  exact ⟨st, h1, h2⟩

/-- the decidable hypotheses, as one Boolean -/
def namesHyps (src : Bytes) : Bool :=
  match parse src, compile [] src with
  | (stmts, []), .ok _ =>
    match E2EFinal.splitLets stmts with
    | some (lets, t) =>
      k4Free stmts && envJoinSafe (letsEnv lets []) &&
        namesOk (substTabular (letsEnv lets []) (nameTabular src t)) &&
        tabOpsOk (substTabular (letsEnv lets []) (nameTabular src t))
    | none => false
  | _, _ => false

/-- **functional form**: compile, read back, evaluate = the meaning of the program -/
theorem C02_end_to_end_program_names_run (src : Bytes) (h : namesHyps src = true) :
    ∀ db, RectDB db → (E2EFinal.runBytes src db).isSome = true ∧
      E2EFinal.runBytes src db = Rel.interpProgram src db (parse src).1 := by
  unfold namesHyps at h
  split at h
  · rename_i stmts sql hp hc
    split at h
    · rename_i lets t hs
      obtain ⟨rfl, hl⟩ := E2EFinal.splitLets_spec stmts lets t hs
      simp only [Bool.and_eq_true] at h
      obtain ⟨⟨⟨h1, h2⟩, h5⟩, h6⟩ := h
      obtain ⟨st, hr, hev⟩ := C02_end_to_end_program_names_bytes src sql lets t hp hc h1 hl h2 h5 h6
      intro db hdb
      simp only [E2EFinal.runBytes, hc, hr, Option.map_some, hp, hev db hdb, Option.isSome_some, and_self]
    · cases h
  · cases h

/-! ### non-vacuity: programs with UNNAMED columns that mention lets -/
namespace Ex
open C03.Ex

def s (x : String) : Bytes := Bytes.ofString x

/-- the counterexample `E2EFinal.Cex.unnamedSrc` to the formulation through `resolveLets` -/
def ex1 : Bytes := s "let n = 1; T | extend a + n"
/-- unnamed aggregate and unnamed group key mentioning a let; a join whose right-hand side has an unnamed column -/
def ex2 : Bytes := s "let d = 10; T | summarize count(), max(a) by a / d"
def ex3 : Bytes := s "let d = 10; T | join kind=inner (U | extend b + d) on k | take 3"

unseal Pql.scanFrom in
theorem ex_hyps : namesHyps ex1 = true ∧ namesHyps ex2 = true ∧ namesHyps ex3 = true := by
  refine ⟨by decide +kernel, by decide +kernel, by decide +kernel⟩

unseal Pql.scanFrom in
/-- … none of which satisfies `tabNamedB` -/
theorem ex_unnamed : E2EFinal.progHyps ex1 = false ∧ E2EFinal.progHyps ex2 = false ∧ E2EFinal.progHyps ex3 = false := by
  refine ⟨by decide +kernel, by decide +kernel, by decide +kernel⟩

theorem ex_end_to_end : ∀ src ∈ [ex1, ex2, ex3], ∀ db, RectDB db →
    (E2EFinal.runBytes src db).isSome = true ∧ E2EFinal.runBytes src db = Rel.interpProgram src db (parse src).1 := by
  intro src hs
  apply C02_end_to_end_program_names_run
  simp only [List.mem_cons, List.not_mem_nil, or_false] at hs
  rcases hs with rfl | rfl | rfl
  · exact ex_hyps.1
  · exact ex_hyps.2.1
  · exact ex_hyps.2.2

set_option maxRecDepth 100000 in
unseal Pql.scanFrom in
/-- cross-check by evaluation on `C03.Ex.exDB` -/
theorem ex_computed :
    E2EFinal.runBytes ex1 C03.Ex.exDB = Rel.interpProgram ex1 C03.Ex.exDB (parse ex1).1 ∧
    E2EFinal.runBytes ex2 C03.Ex.exDB = Rel.interpProgram ex2 C03.Ex.exDB (parse ex2).1 ∧
    E2EFinal.runBytes ex3 C03.Ex.exDB = Rel.interpProgram ex3 C03.Ex.exDB (parse ex3).1 ∧
    (E2EFinal.runBytes ex2 C03.Ex.exDB).isSome = true := by
  refine ⟨by decide +kernel, by decide +kernel, by decide +kernel, by decide +kernel⟩

end Ex

/-! ### part C: `envJoinSafe` is needed for the EVALUATION, not only for `statementEq` -/
namespace Cex
open C03.Ex Ex

/-- the hypotheses (K4-free, `envJoinSafe`, `namesOk`, `tabOpsOk`) of `C02_end_to_end_program_names_bytes` -/
def namesOthers (src : Bytes) : Option (Bool × Bool × Bool × Bool) :=
  match parse src, compile [] src with
  | (stmts, []), .ok _ =>
    (E2EFinal.splitLets stmts).map fun (lets, t) =>
      (k4Free stmts, envJoinSafe (letsEnv lets []),
        namesOk (substTabular (letsEnv lets []) (nameTabular src t)),
        tabOpsOk (substTabular (letsEnv lets []) (nameTabular src t)))
  | _, _ => none

/-- a let named `$left`, used in a join condition under `not`: the writer decides "join equality" on the
    UNRESOLVED condition (`$left == $right.k` mentions both aliases) and writes the plain `1 = "$right"."k"`;
    the resolved condition `1 == $right.k` is an ordinary equality, `coalesce(1 = "$right"."k", FALSE)`.
    Under `NOT` the two differ on a NULL key: NULL (pair dropped) against TRUE (pair kept). -/
def joinNotSrc : Bytes := s "let $left = 1; T | join kind=inner (U) on not($left == $right.k) | count"

unseal Pql.scanFrom in
/-- the emitted text (replayed on the Go implementation: identical) -/
theorem joinNot_text : compile [] joinNotSrc = .ok (s
    "WITH \"__subquery0\" AS (SELECT * FROM \"U\"),\n     \"__subquery1\" AS (SELECT * FROM \"T\" AS \"$left\" JOIN \"__subquery0\" AS \"$right\" ON NOT (1 = \"$right\".\"k\"))\nSELECT COUNT(*) AS \"count()\" FROM \"__subquery1\";") := by
  decide +kernel

set_option maxRecDepth 100000 in
unseal Pql.scanFrom in
/-- **`envJoinSafe` is needed for the evaluation**: every other hypothesis of
    `C02_end_to_end_program_names_bytes` (and of `E2EFinal.C02_end_to_end_program_bytes`) holds; the emitted
    text is read back; evaluated on `C03.Ex.exDB` (U has a row with a NULL key) it counts 4 pairs, the
    meaning of the program counts 8. -/
theorem envJoinSafe_needed_eval :
    namesOthers joinNotSrc = some (true, false, true, true) ∧
    E2EFinal.Cex.progOthers joinNotSrc = some (true, false, true, true, true) ∧
    RectDB C03.Ex.exDB ∧
    E2EFinal.runBytes joinNotSrc C03.Ex.exDB = some ⟨[s "count()"], [[.int 4]]⟩ ∧
    Rel.interpProgram joinNotSrc C03.Ex.exDB (parse joinNotSrc).1 = some ⟨[s "count()"], [[.int 8]]⟩ ∧
    Rel.interp joinNotSrc C03.Ex.exDB (E2EFinal.Cex.resolvedOf joinNotSrc) = ⟨[s "count()"], [[.int 8]]⟩ := by
  refine ⟨by decide +kernel, by decide +kernel, by decide, by decide +kernel, by decide +kernel, by decide +kernel⟩

end Cex

end Pql.E2EMore
