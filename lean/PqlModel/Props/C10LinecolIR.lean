/-
Property C10, tie by translation: `linecol` of parser/parser.go and its copy in pql.go.

Both copies of `func linecol(source string, pos int) (line, col int)` are regenerated from the Go
source on every run as IRs (`Facts.linecolIR`, keys `parser.linecol` and `pql.linecol`; translator
`harness/extract_lexir.go`, interpreter `Model/LexIR.lean`).  This file proves

  `C10_linecol_copies_same_ir` — the two copies translate to the SAME IR (so every statement about
  one is a statement about the other: `C10_linecol_copies_agree`);
  `C10_linecol_ir` — for every byte string `src` (valid UTF-8 or not) and every offset
  `pos ≤ len(src)`, interpreting the regenerated body — `for _, c := range source[:pos]` walks RUNES,
  invalid bytes as U+FFFD of width 1; a tab advances to the next multiple of 8 — ends without a panic
  and without getting stuck (in particular `col - 1` and `tabWidth - tabLoc` never go below zero)
  and returns exactly the model's `linecol src pos`;
  `C10_linecol_ir_panics` — for `pos > len(src)` the Go code panics (`source[:pos]`), the model does
  not: the hypothesis of `C10_linecol_ir` is needed, and callers must pass offsets inside the source
  (what `Props/C10*.lean` prove about error spans).

The model tests the lead BYTE of each rune against '\n' and '\t', the Go code the RUNE; they agree
because a byte ≥ 0x80 never starts an ASCII rune (`Dispatch.decodeRune_eq_ascii`).
-/
import PqlModel.Lemmas.LexIRCore
import PqlModel.Lemmas.LinecolLemmas
namespace Pql.LexIR
open Pql
set_option linter.unusedSimpArgs false
set_option linter.unusedVariables false

/-- `linecol` of parser/parser.go as regenerated -/
def interpLinecolParser (lib : Lib) : Fn := fnOf Facts.linecolIR (prims lib) 0 "parser.linecol"
/-- `linecol` of pql.go as regenerated -/
def interpLinecolPql (lib : Lib) : Fn := fnOf Facts.linecolIR (prims lib) 0 "pql.linecol"

/-- **C10 (the two copies of `linecol` are the same code).** -/
theorem C10_linecol_copies_same_ir :
    irOf Facts.linecolIR "parser.linecol" = irOf Facts.linecolIR "pql.linecol" := by rfl

theorem C10_linecol_copies_agree (lib : Lib) : interpLinecolParser lib = interpLinecolPql lib := by
  unfold interpLinecolParser interpLinecolPql
  rw [fnOf_eq linecol_parser_ir, fnOf_eq linecol_pql_ir]

/-- the state inside the loop of `linecol` -/
def lcSt (src : Bytes) (pos line col : Nat) (h : Heap) : State :=
  ⟨[("col", .int col), ("line", .int line), ("pos", .int pos), ("source", .str src)], h, []⟩

/-- what one rune does to (line, col) -/
def lcStep (r line col : Nat) : Nat × Nat :=
  if r = 10 then (line + 1, 1) else if r = 9 then (line, col + (8 - (col - 1) % 8)) else (line, col + 1)

/-- one pass through the body of the loop -/
theorem linecol_step (env : Env) (src : Bytes) (pos line col : Nat) (h : Heap) (r : Nat) (hc : 1 ≤ col) :
    execBlock env 0 linecolLoopBody ((lcSt src pos line col h).declare "c" (.int r)) =
      .ok (.next, ⟨[("c", .int r), ("col", .int (lcStep r line col).2), ("line", .int (lcStep r line col).1),
        ("pos", .int pos), ("source", .str src)], h, []⟩) := by
  unfold linecolLoopBody lcSt lcStep
  by_cases h10 : r = 10
  · subst h10
    lx_simp
  · by_cases h9 : r = 9
    · subst h9
      have hm : (col - 1) % 8 ≤ 8 := Nat.le_of_lt (Nat.mod_lt _ (by omega))
      lx_simp [hc, hm]
    · lx_simp [h10, h9]

theorem lcStep_col_pos (r line col : Nat) (hc : 1 ≤ col) : 1 ≤ (lcStep r line col).2 := by
  unfold lcStep
  split
  · simp
  · split <;> simp <;> omega

/-- **the loop**: rune by rune, the loop computes the model's `linecolRunes` -/
theorem linecol_loop (env : Env) (src : Bytes) (pos : Nat) (h : Heap) :
    ∀ (n : Nat) (s : Bytes) (fuel line col : Nat), s.length = n → s.length < fuel → 1 ≤ col →
      rangeLoop "c" (execBlock env 0 linecolLoopBody) ((runes s).map .int) (lcSt src pos line col h) =
        .ok (.next, lcSt src pos (linecolRunes fuel s line col).1 (linecolRunes fuel s line col).2 h) := by
  intro n
  induction n using Nat.strongRecOn with
  | _ n ih =>
    intro s fuel line col hn hf hc
    cases s with
    | nil =>
      rw [runes, linecolRunes_nil]
      rfl
    | cons c rest =>
      obtain ⟨fuel', rfl⟩ : ∃ f, fuel = f + 1 := ⟨fuel - 1, by omega⟩
      have hpos := decodeRune_width_pos c rest
      have e1 := linecol_step env src pos line col h (decodeRune (c :: rest)).1 hc
      have e2 : State.leave ⟨[("c", .int (decodeRune (c :: rest)).1),
          ("col", .int (lcStep (decodeRune (c :: rest)).1 line col).2),
          ("line", .int (lcStep (decodeRune (c :: rest)).1 line col).1),
          ("pos", .int pos), ("source", .str src)], h, []⟩ (lcSt src pos line col h) =
          lcSt src pos (lcStep (decodeRune (c :: rest)).1 line col).1 (lcStep (decodeRune (c :: rest)).1 line col).2 h := by
        simp [State.leave, lcSt]
      have hlen : ((c :: rest).drop (decodeRune (c :: rest)).2).length < n := by
        simp only [List.length_drop, List.length_cons] at hn ⊢
        omega
      have ih' := ih _ hlen ((c :: rest).drop (decodeRune (c :: rest)).2) fuel'
        (lcStep (decodeRune (c :: rest)).1 line col).1 (lcStep (decodeRune (c :: rest)).1 line col).2 rfl
        (by simp only [List.length_cons] at hn hf; omega) (lcStep_col_pos _ _ _ hc)
      rw [runes]
      simp only [List.map_cons, rangeLoop, e1, e2, bind, Except.bind, ih']
      rw [linecolRunes_cons]
      have e10 : (decodeRune (c :: rest)).1 = 10 ↔ c.toNat = 10 := Dispatch.decodeRune_eq_ascii c rest 10 (by omega)
      have e9 : (decodeRune (c :: rest)).1 = 9 ↔ c.toNat = 9 := Dispatch.decodeRune_eq_ascii c rest 9 (by omega)
      have b10 : (c == 10) = decide (c.toNat = 10) := by rw [Dispatch.beq_toNat]; rfl
      have b9 : (c == 9) = decide (c.toNat = 9) := by rw [Dispatch.beq_toNat]; rfl
      unfold lcStep
      simp only [e10, e9, b10, b9, decide_eq_true_eq]
      by_cases h10 : c.toNat = 10
      · simp [h10]
      · by_cases h9 : c.toNat = 9
        · simp [h9]
        · simp [h10, h9]

theorem linecol_body (env : Env) (src : Bytes) (pos : Nat) (h : Heap) (hp : pos ≤ src.length) :
    interpFn env 0 linecolDecl [.str src, .int pos] h =
      .ok ([.int (linecol src pos).1, .int (linecol src pos).2], h) := by
  have hloop := linecol_loop env src pos h _ (src.take pos) ((src.take pos).length + 1) 1 1 rfl
    (Nat.lt_succ_self _) (Nat.le_refl 1)
  have hitems : rangeItems (.str (src.take pos)) = .ok ((runes (src.take pos)).map .int) := rfl
  unfold lcSt at hloop
  unfold linecolDecl linecol
  lx_simp [hp, hitems, hloop]

/-- **C10 (`linecol` is the interpretation of its translation).**  For every byte string and every
    offset inside it the regenerated body of `linecol` (parser/parser.go) returns, without a panic,
    exactly the model's `linecol`. -/
theorem C10_linecol_ir (lib : Lib) (src : Bytes) (pos : Nat) (h : Heap) (hp : pos ≤ src.length) :
    interpLinecolParser lib [.str src, .int pos] h =
      .ok ([.int (linecol src pos).1, .int (linecol src pos).2], h) := by
  unfold interpLinecolParser
  rw [fnOf_eq linecol_parser_ir]
  exact linecol_body _ src pos h hp

/-- the same for the copy in pql.go -/
theorem C10_linecol_pql_ir (lib : Lib) (src : Bytes) (pos : Nat) (h : Heap) (hp : pos ≤ src.length) :
    interpLinecolPql lib [.str src, .int pos] h =
      .ok ([.int (linecol src pos).1, .int (linecol src pos).2], h) := by
  rw [← C10_linecol_copies_agree]
  exact C10_linecol_ir lib src pos h hp

/-- an offset after the end of the source makes `linecol` panic (`source[:pos]`); the model returns a
    position all the same — `C10_linecol_ir` is false without its hypothesis -/
theorem C10_linecol_ir_panics (lib : Lib) (src : Bytes) (pos : Nat) (h : Heap) (hp : src.length < pos) :
    interpLinecolParser lib [.str src, .int pos] h = .error .panic := by
  unfold interpLinecolParser
  rw [fnOf_eq linecol_parser_ir]
  have : ¬ pos ≤ src.length := by omega
  unfold linecolDecl
  lx_simp [this]

-- sanity tests (evaluated): the interpretation of the regenerated IR on concrete sources
#guard (interpLinecolParser ⟨scan, fun _ _ => 0⟩ [.str [97, 10, 9, 98], .int 3] ⟨[], 0, 0⟩).toOption.map (·.1) =
  some [.int 2, .int 9]
#guard (interpLinecolPql ⟨scan, fun _ _ => 0⟩ [.str [0xE2, 0x80, 0xA8, 10, 97], .int 2] ⟨[], 0, 0⟩).toOption.map (·.1) =
  some [.int 1, .int 3]

end Pql.LexIR
