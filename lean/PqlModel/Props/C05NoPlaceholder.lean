/-
Property C05, last clause: "… no internal placeholder (NULL with an 'unhandled' / 'unsupported'
comment) ever reaches the output."

The model writes a placeholder at five sites: `writeExpr` on `Expr.nil`
(`NULL /* unhandled <nil> expression */`), on a literal that is neither a number nor a string, on
a unary operator that is not a sign, on a binary operator it does not translate, and the default
case of the type switch of `Subquery.write` (`SELECT NULL /* unsupported operator */`).  Each is
a fixed text (`Chunk.txt`) containing `/*`; no other fixed text of the writers does.

1. `C05_stored_ops`: `splitQueries` never stores sort / take / top / join as a subquery's operator
   (every tree), so the default case is unreachable; `C05_parsed_irOK`: every subquery of every
   parsed program satisfies `WriteIR.irOK`, so `WriteIR.C05_write_ir` applies without side
   condition (`C05_parsed_write_ir`).
2. `C05_no_placeholder_tree` (trees satisfying the decidable `stmtPhFree`),
   `C05_no_placeholder_source` (every source that parses, every parameter list),
   `C05_no_comment_source` (bytes: the raw SQL token list of the output has no comment token).
3. counterexamples: each site is reached by a tree the parser cannot produce; non-vacuity on a
   parsed source using every operator.

Specification-level definitions introduced for this property: `WriteInv.hasOpen`, `cf`, `CF`,
`hasPlaceholder`, `phFree`, `stmtPhFree`, `subPhFree`, `storedSub`, `irQ`, `tabOpsAll`
(Lemmas/WriteInv*.lean).
-/
import PqlModel.Lemmas.WriteInvStmt
import PqlModel.Lemmas.WriteInvSplit
import PqlModel.Props.C05Parsed
namespace Pql.WriteInv
open Pql Sql LexRender Pql.C05 Pql.ParsedOK

/-! ### 1. what `splitQueries` stores -/

/-- **C05 (stored operators).**  For every tree, scope and list to append to: the list
    `splitQueries` returns extends `dst`, and every subquery it added has no operator or one with
    a case of its own in `(*subquery).write` — never sort, take, top or join. -/
theorem C05_stored_ops (src : Bytes) (scope : List (Bytes × List Chunk)) (dst subs : List Subquery)
    (t : Tabular) (h : splitQueries src scope dst t = .ok subs) :
    dst <+: subs ∧
    ∀ s ∈ subs.drop dst.length, s.op = none ∨ ∃ o, s.op = some o ∧ Exact.storedOp o = true :=
  stored_ops src scope dst subs t h

/-- hence the default case of the type switch of `Subquery.write` (`Pql.write_eq`:
    `sub.write ctx = bodyOf ctx sub.op sub.source >>= tailOf ctx sub.sort sub.take`, and `tailOf`
    writes `SELECT NULL /* unsupported operator */` exactly when the body is `none`) is never taken
    on a subquery of `splitQueries`, for any tree -/
theorem C05_write_default_unreachable (src : Bytes) (scope : List (Bytes × List Chunk)) (subs : List Subquery)
    (t : Tabular) (h : splitQueries src scope [] t = .ok subs) (ctx : Ctx) :
    ∀ s ∈ subs, bodyOf ctx s.op s.source ≠ .ok none := by
  intro s hs hb
  have hst := stored_ops_all src scope subs t h s hs
  unfold storedSub at hst
  cases hop : s.op with
  | none => rw [hop] at hb; simp only [bodyOf] at hb; cases hb
  | some o =>
    rw [hop] at hst hb
    cases o with
    | sort p k ts => simp [Exact.storedOp] at hst
    | take p k n => simp [Exact.storedOp] at hst
    | top p k n b c => simp [Exact.storedOp] at hst
    | join p k kind ka fl lp right rp on conds => simp [Exact.storedOp] at hst
    | as_ p k n => simp only [bodyOf] at hb; cases hb
    | count p k => simp only [bodyOf] at hb; cases hb
    | render p k ch w lp props rp => simp only [bodyOf] at hb; cases hb
    | where_ p k e =>
      simp only [bodyOf] at hb
      obtain ⟨_, _, hb⟩ := bind_ok hb
      cases hb
    | project p k cs =>
      simp only [bodyOf] at hb
      obtain ⟨_, _, hb⟩ := bind_ok hb
      cases hb
    | extend p k cs =>
      simp only [bodyOf] at hb
      obtain ⟨_, _, hb⟩ := bind_ok hb
      cases hb
    | summarize p k cs b gs =>
      simp only [bodyOf] at hb
      obtain ⟨_, _, hb⟩ := bind_ok hb
      obtain ⟨_, _, hb⟩ := bind_ok hb
      obtain ⟨_, _, hb⟩ := bind_ok hb
      cases hb

/-- **C05 (parsed programs satisfy `irOK`).**  For every source that parses without error, every
    parameter list, the query `t` of the program and the scope its `let` statements build: every
    subquery `splitQueries` produces satisfies `WriteIR.irOK` (project columns are named, extend
    columns have an expression, render has a chart type and its properties a name and a value
    that is not an empty qualified identifier) — and stores no operator of the default case. -/
theorem C05_parsed_irOK (src : Bytes) (stmts : List Stmt) (hp : parse src = (stmts, []))
    (scope0 scope : List (Bytes × List Chunk)) (t : Tabular)
    (hc : compileStmts src stmts scope0 none = .ok (scope, some t))
    (subs : List Subquery) (hs : splitQueries src scope [] t = .ok subs) :
    ∀ sub ∈ subs, WriteIR.irOK sub = true := by
  intro sub hsub
  have ht : Stmt.tabular t ∈ stmts := by
    rcases compileStmts_query_mem src stmts scope0 none scope t hc with h | h
    · cases h
    · exact h
  exact splitQueries_irOK src scope [] subs t (parsed_irQ src stmts hp t ht) hs sub (by simpa using hsub)

/-- **C05 / C02 (`(*subquery).write` is the translated Go code, on every parsed program).**
    `WriteIR.C05_write_ir` without side condition: for every subquery of every program that parses,
    the model's `Subquery.write` is the interpretation of the IR regenerated from the Go source. -/
theorem C05_parsed_write_ir (src : Bytes) (stmts : List Stmt) (hp : parse src = (stmts, []))
    (scope0 scope : List (Bytes × List Chunk)) (t : Tabular)
    (hc : compileStmts src stmts scope0 none = .ok (scope, some t))
    (subs : List Subquery) (hs : splitQueries src scope [] t = .ok subs) (ctx : Ctx) :
    ∀ sub ∈ subs, WriteIR.interpWrite WriteIR.modelSem ctx sub = WriteIR.liftW (sub.write ctx) :=
  fun sub hsub => WriteIR.C05_write_ir ctx sub (C05_parsed_irOK src stmts hp scope0 scope t hc subs hs sub hsub)

/-! ### 2. no placeholder -/

/-- **C05 (no placeholder, trees).**  For every program whose written expressions are free of
    placeholder sites (`stmtPhFree`: no nil expression, literals are numbers or strings, unary
    operators are signs, binary operators are translated), every source text and every parameter
    list: no fixed text of the chunk list of a successful compilation contains `/*`. -/
theorem C05_no_placeholder_tree (src : Bytes) (params : List (Bytes × Bytes)) (stmts : List Stmt)
    (hst : ∀ s ∈ stmts, stmtPhFree s = true) (cs : List Chunk)
    (hc : compileChunks src params stmts = .ok cs) : hasPlaceholder cs = false := by
  rw [hasPlaceholder_eq, program_cf src params stmts hst cs hc]; rfl

/-! #### parsed trees are `stmtPhFree` -/

theorem binKnown_eq (op : TokKind) : binKnown op = Exact.knownBinOp op := rfl

mutual
theorem phFree_of_sOK : ∀ e : Expr, sOK e = true → phFree e = true
  | .nil, h => by simp [sOK] at h
  | .qident _, _ => rfl
  | .lit _ k _, h => by simpa [sOK, phFree] using h
  | .unary _ op x, h => by
    simp only [sOK, Bool.and_eq_true] at h
    simp only [phFree, Bool.and_eq_true]
    exact ⟨h.1, phFree_of_sOK x h.2⟩
  | .binary x _ op y, h => by
    simp only [sOK, Bool.and_eq_true] at h
    simp only [phFree, Bool.and_eq_true, binKnown_eq]
    exact ⟨h.1, phFree_of_sOK x h.2.1, phFree_of_sOK y h.2.2⟩
  | .inE x _ _ vals _, h => by
    simp only [sOK, Bool.and_eq_true] at h
    simp only [phFree, Bool.and_eq_true]
    exact ⟨phFree_of_sOK x h.1, phFreeList_of_sOK vals h.2.1⟩
  | .paren _ x _, h => by
    simp only [sOK] at h
    simp only [phFree]
    exact phFree_of_sOK x h
  | .call fn _ args _, h => by
    simp only [sOK, Bool.and_eq_true] at h
    simp only [phFree]
    exact phFreeList_of_sOK args h.2
  | .index x _ idx _, h => by
    simp only [sOK, Bool.and_eq_true] at h
    simp only [phFree, Bool.and_eq_true]
    exact ⟨phFree_of_sOK x h.1, phFree_of_sOK idx h.2⟩
theorem phFreeList_of_sOK : ∀ l : ExprList, sOKList l = true → phFreeList l = true
  | .nil, _ => rfl
  | .cons e es, h => by
    simp only [sOKList, Bool.and_eq_true] at h
    simp only [phFreeList, Bool.and_eq_true]
    exact ⟨phFree_of_sOK e h.1, phFreeList_of_sOK es h.2⟩
end

mutual
theorem tabPhFree_of_all : ∀ t : Tabular,
    TabAll (fun e => phFree e = true) (fun l => phFreeList l = true) t → tabPhFree t = true
  | .nil, _ => rfl
  | .mk _ ops, h => by
    rw [tabPhFree]; simp only [TabAll] at h; exact opsPhFree_of_all ops h
theorem opPhFree_of_all : ∀ o : Op,
    OpAll (fun e => phFree e = true) (fun l => phFreeList l = true) o → opPhFree o = true
  | .count .., _ => rfl
  | .as_ .., _ => rfl
  | .render .., _ => rfl
  | .where_ _ _ e, h => by simpa [OpAll, opPhFree] using h
  | .take _ _ n, h => by simpa [OpAll, opPhFree] using h
  | .sort _ _ ts, h => by simpa [OpAll, opPhFree, termsPhFree] using h
  | .extend _ _ cs, h => by simpa [OpAll, opPhFree, colsPhFree] using h
  | .summarize _ _ cs _ gs, h => by simpa [OpAll, opPhFree, colsPhFree] using h
  | .top _ _ n _ c, h => by
    simp only [OpAll] at h
    simp only [opPhFree, Bool.and_eq_true]
    refine ⟨h.1, ?_⟩
    cases c with
    | none => rfl
    | some t => exact h.2 t rfl
  | .project _ _ cs, h => by
    simp only [OpAll] at h
    simp only [opPhFree, projColsPhFree, List.all_eq_true, Bool.or_eq_true]
    intro c hc
    rcases h c hc with h1 | h1
    · left; rw [h1]; rfl
    · right; exact h1
  | .join _ _ _ _ _ _ right _ _ conds, h => by
    simp only [OpAll] at h
    simp only [opPhFree, Bool.and_eq_true]
    exact ⟨tabPhFree_of_all right h.1, h.2⟩
theorem opsPhFree_of_all : ∀ ops : OpList,
    OpsAll (fun e => phFree e = true) (fun l => phFreeList l = true) ops → opsPhFree ops = true
  | .nil, _ => rfl
  | .cons o os, h => by
    simp only [OpsAll] at h
    rw [opsPhFree, Bool.and_eq_true]
    exact ⟨opPhFree_of_all o h.1, opsPhFree_of_all os h.2⟩
end

/-- `ParsedOK.sOK` (the structural facts of parsed expressions) implies `stmtPhFree` -/
theorem stmtPhFree_of_sOK (s : Stmt)
    (h : StmtAll (fun e => sOK e = true) (fun l => sOKList l = true) s) : stmtPhFree s = true := by
  have h3 : StmtAll (fun e => phFree e = true) (fun l => phFreeList l = true) s :=
    StmtAll.imp phFree_of_sOK phFreeList_of_sOK s h
  cases s with
  | let_ kw n a x => exact h3
  | tabular t => exact tabPhFree_of_all t h3

/-- **every statement of an error-free parse is free of placeholder sites** -/
theorem parsed_phFree (src : Bytes) (stmts : List Stmt) (h : parse src = (stmts, [])) :
    ∀ s ∈ stmts, stmtPhFree s = true := by
  intro s hs
  obtain ⟨_, h2, _⟩ := parsed_facts src stmts h s hs
  exact stmtPhFree_of_sOK s (StmtAll.imp (fun e he => he.1) (fun l hl => hl.1.1) s h2)

/-- a successful `Compile` means the source parsed, and its SQL is the rendering of the chunks -/
theorem compile_ok (params : List (Bytes × Bytes)) (src sql : Bytes) (h : compile params src = .ok sql) :
    parse src = ((parse src).1, []) ∧
    ∃ cs, compileChunks src params (parse src).1 = .ok cs ∧ sql = renderChunks cs := by
  unfold compile at h
  dsimp only at h
  split at h
  · cases h
  · rename_i he
    have he' : (parse src).2 = [] := by simpa using he
    refine ⟨by rw [← he'], ?_⟩
    split at h
    · rename_i cs hcs
      cases h
      exact ⟨cs, hcs, rfl⟩
    · cases h
    · cases h

/-- **C05 (no placeholder, source text).**  For EVERY source and EVERY parameter list: if
    `Compile` returns SQL, that SQL is the rendering of a chunk list none of whose fixed texts
    contains `/*` — no `NULL /* unhandled … */`, no `/* unhandled … unary op */`, no
    `SELECT NULL /* unsupported operator */`.  (A parameter's SQL text is a `raw` chunk, not a fixed
    text of the writer: what the caller binds is the caller's.) -/
theorem C05_no_placeholder_source (params : List (Bytes × Bytes)) (src sql : Bytes)
    (h : compile params src = .ok sql) :
    ∃ cs, compileChunks src params (parse src).1 = .ok cs ∧ sql = renderChunks cs ∧ hasPlaceholder cs = false := by
  obtain ⟨hp, cs, hcs, rfl⟩ := compile_ok params src sql h
  exact ⟨cs, hcs, rfl, C05_no_placeholder_tree src params _ (parsed_phFree src _ hp) cs hcs⟩

/-! #### bytes: no comment token -/

theorem hasOpen_append_left : ∀ (a b : Bytes), hasOpen a = true → hasOpen (a ++ b) = true
  | [], _, h => by cases h
  | x :: r, b, h => by
    simp only [hasOpen, Bool.or_eq_true, Bool.and_eq_true] at h
    simp only [List.cons_append, hasOpen, Bool.or_eq_true, Bool.and_eq_true]
    rcases h with ⟨h1, h2⟩ | h
    · left
      refine ⟨h1, ?_⟩
      cases r with
      | nil => simp at h2
      | cons y r' => simpa using h2
    · right; exact hasOpen_append_left r b h

theorem hasOpen_append_right : ∀ (a b : Bytes), hasOpen b = true → hasOpen (a ++ b) = true
  | [], _, h => h
  | x :: r, b, h => by
    simp only [List.cons_append, hasOpen, Bool.or_eq_true]
    right; exact hasOpen_append_right r b h

theorem atom_comment {a : Atom} (h : STok.comment ∈ a.toks) : hasOpen a.bytes = true := by
  cases a with
  | cmt b => simp [Atom.bytes, hasOpen]
  | _ => simp [Atom.toks] at h

theorem rawToks_comment : ∀ {as : List Atom}, STok.comment ∈ rawToks as → hasOpen (renderAtoms as) = true
  | [], h => by simp [rawToks] at h
  | a :: as, h => by
    rw [rawToks_cons, List.mem_append] at h
    rw [renderAtoms_cons]
    rcases h with h | h
    · exact hasOpen_append_left _ _ (atom_comment h)
    · exact hasOpen_append_right _ _ (rawToks_comment h)

theorem chunk_no_comment {c : Chunk} (hok : chunkOK c = true) (hcf : cf c = true) :
    STok.comment ∉ rawToks (chunkAtoms c) := by
  intro h
  have ho := rawToks_comment h
  rw [chunk_render hok] at ho
  cases c with
  | txt s =>
    simp only [Chunk.bytes] at ho
    simp only [cf, ho, Bool.not_true] at hcf
    cases hcf
  | raw v => simp [chunkOK] at hok
  | _ => simp [chunkAtoms, rawToks, Atom.toks] at h

theorem rawToksOf_no_comment : ∀ {cs : List Chunk}, cs.all chunkOK = true → CF cs = true →
    STok.comment ∉ rawToksOf cs
  | [], _, _ => by simp [rawToksOf, atomsOf, rawToks]
  | c :: cs, hok, hcf => by
    simp only [List.all_cons, Bool.and_eq_true] at hok
    rw [CF_cons, Bool.and_eq_true] at hcf
    rw [rawToksOf, atomsOf_cons, rawToks_append, List.mem_append]
    rintro (h | h)
    · exact chunk_no_comment hok.1 hcf.1 h
    · exact rawToksOf_no_comment hok.2 hcf.2 h

/-- the raw token list (comments kept) of an adjacent chunk list -/
theorem lexRaw_of_adj (cs : List Chunk) (h : Adj cs = true) :
    lexRaw .standard (renderChunks cs) = some (rawToksOf cs) := by
  obtain ⟨h1, h2⟩ := AdjC_elim h
  rw [← render_atomsOf h1]
  have hlen := adj_length_le h2
  have := lexAux_atoms (atomsOf cs) ((renderAtoms (atomsOf cs)).length - (atomsOf cs).length + 1) [] h2
  simp only [List.append_nil] at this
  have hfuel : (renderAtoms (atomsOf cs)).length - (atomsOf cs).length + 1 + (atomsOf cs).length =
      (renderAtoms (atomsOf cs)).length + 1 := by omega
  rw [hfuel, lexAux_nil_pos] at this
  simp [lexRaw, this, rawToksOf]

/-- the byte-level statement from `stmtsLexOK` (the side condition of `C05_lexRender_program`) -/
theorem no_comment_of_lexOK (src sql : Bytes) (hok : stmtsLexOK (parse src).1 = true)
    (h : compile [] src = .ok sql) :
    ∃ cs, compileChunks src [] (parse src).1 = .ok cs ∧ sql = renderChunks cs ∧
      lexRaw .standard sql = some (toksOf cs) ∧ STok.comment ∉ toksOf cs := by
  obtain ⟨cs, hcs, rfl, hph⟩ := C05_no_placeholder_source [] src sql h
  have hadj := program_adj src _ cs hok hcs
  have hcf : CF cs = true := by rw [hasPlaceholder_eq] at hph; simpa using hph
  have hnc := rawToksOf_no_comment (AdjC_elim hadj).1 hcf
  have heq : rawToksOf cs = toksOf cs := by
    rw [← toksOf_eq hadj]
    exact (List.filter_eq_self.mpr (fun t ht => by
      simp only [bne_iff_ne, ne_eq]
      rintro rfl
      exact hnc ht)).symm
  exact ⟨cs, hcs, rfl, by rw [lexRaw_of_adj cs hadj, heq], by rw [← heq]; exact hnc⟩

/-- **C05 (no comment in the output, bytes).**  For every source none of whose pass-through
    function names begins with `$` (`ParsedOK.noDollarFn`, decidable on the parsed tree), compiled
    without parameters: the SQL lexer that *keeps* comments (`Sql.lexRaw`; `Sql.lex` drops them)
    reads the output as exactly the tokens of its chunks, and no comment token is among them — no
    placeholder comment, and no `/*` or `--` smuggled in through a name, string or number. -/
theorem C05_no_comment_source (src sql : Bytes) (hd : noDollarFn (parse src).1 = true)
    (h : compile [] src = .ok sql) :
    ∃ cs, compileChunks src [] (parse src).1 = .ok cs ∧ sql = renderChunks cs ∧
      lexRaw .standard sql = some (toksOf cs) ∧ STok.comment ∉ toksOf cs :=
  no_comment_of_lexOK src sql
    (parsed_lexOK_dollar src _ (compile_ok [] src sql h).1 hd) h

/-- the same under K4-freedom (`ParsedOK.k4Free`, the side condition of the C05 source theorems) -/
theorem C05_no_comment_source_k4 (src sql : Bytes) (hk : k4Free (parse src).1 = true)
    (h : compile [] src = .ok sql) :
    ∃ cs, compileChunks src [] (parse src).1 = .ok cs ∧ sql = renderChunks cs ∧
      lexRaw .standard sql = some (toksOf cs) ∧ STok.comment ∉ toksOf cs :=
  no_comment_of_lexOK src sql
    (parsed_lexOK_k4 src _ (compile_ok [] src sql h).1 hk) h

/-! ### 3. each placeholder IS written for a tree the parser cannot produce

One tree per site of the expression writer (`T | where e` with a bad `e`), and a subquery for the
default case of `Subquery.write` (which no tree reaches: `C05_stored_ops`).  So
`C05_no_placeholder_tree` is not vacuous about the model, its hypothesis `stmtPhFree` cannot be
dropped, and none of these trees is the result of an error-free parse (`cx_not_parsed`). -/

def cxId (s : String) : Ident := ⟨Bytes.ofString s, .zero, false⟩
def cxCol (s : String) : Expr := .qident [cxId s]
/-- `T | where e` -/
def cxWhere (e : Expr) : List Stmt := [.tabular (.mk (some (cxId "T")) (.cons (.where_ .zero .zero e) .nil))]

/-- the chunks of `T | where e` when `e` is written as the single text `s` -/
def cxOut (s : String) : List Chunk :=
  [.txt "SELECT * FROM ", .qid (Bytes.ofString "T"), .txt " WHERE ", .txt s, .txt ";"]

/-- site 1: a nil expression -/
theorem C05_placeholder_nil :
    compileChunks [] [] (cxWhere .nil) = .ok (cxOut "NULL /* unhandled <nil> expression */") ∧
    hasPlaceholder (cxOut "NULL /* unhandled <nil> expression */") = true ∧
    stmtPhFree (.tabular (.mk (some (cxId "T")) (.cons (.where_ .zero .zero .nil) .nil))) = false := by
  refine ⟨rfl, by decide, by decide⟩

/-- site 2: a literal that is neither a number nor a string -/
theorem C05_placeholder_literal :
    compileChunks [] [] (cxWhere (.lit .zero .ident [120])) =
      .ok (cxOut "NULL /* unhandled TokenIdentifier literal */") ∧
    hasPlaceholder (cxOut "NULL /* unhandled TokenIdentifier literal */") = true ∧
    (cxWhere (.lit .zero .ident [120])).all stmtPhFree = false := by
  refine ⟨rfl, by decide, by decide⟩

/-- site 3: a unary operator that is not a sign -/
theorem C05_placeholder_unary :
    compileChunks [] [] (cxWhere (.unary .zero .star (cxCol "a"))) =
      .ok [.txt "SELECT * FROM ", .qid (Bytes.ofString "T"), .txt " WHERE ",
           .txt "/* unhandled TokenStar unary op */ ", .qid (Bytes.ofString "a"), .txt ";"] ∧
    hasPlaceholder [Chunk.txt "/* unhandled TokenStar unary op */ "] = true ∧
    (cxWhere (.unary .zero .star (cxCol "a"))).all stmtPhFree = false := by
  refine ⟨rfl, by decide, by decide⟩

/-- site 4: a binary operator the compiler does not translate -/
theorem C05_placeholder_binary :
    compileChunks [] [] (cxWhere (.binary (cxCol "a") .zero .comma (cxCol "b"))) =
      .ok (cxOut "NULL /* unhandled TokenComma binary op */ ") ∧
    hasPlaceholder (cxOut "NULL /* unhandled TokenComma binary op */ ") = true ∧
    (cxWhere (.binary (cxCol "a") .zero .comma (cxCol "b"))).all stmtPhFree = false := by
  refine ⟨rfl, by decide, by decide⟩

/-- site 5: the default case of `Subquery.write`, on a subquery (not one `splitQueries` builds,
    `C05_stored_ops`) whose operator is a `take` -/
theorem C05_placeholder_default :
    let sub : Subquery := { name := [], source := [.qid [84]], op := some (.take .zero .zero (.lit .zero .number [53])) }
    sub.write ⟨[], [], .default⟩ = .ok [.txt "SELECT NULL /* unsupported operator */"] ∧
    hasPlaceholder [Chunk.txt "SELECT NULL /* unsupported operator */"] = true ∧
    CF sub.source = true ∧ subPhFree sub = false ∧ storedSub sub = false := by
  refine ⟨rfl, by decide, by decide, by decide, by decide⟩

/-- a program with a statement that is not `stmtPhFree` is not the result of an error-free parse
    of any source -/
theorem cx_not_parsed (stmts : List Stmt) (h : stmts.all stmtPhFree = false) (src : Bytes) :
    parse src ≠ (stmts, []) := by
  intro hp
  have := parsed_phFree src stmts hp
  rw [← List.all_eq_true] at this
  rw [this] at h
  cases h

/-- **C05 (the placeholders are reachable only by trees the parser cannot produce).**  Each of
    the four placeholder texts of the expression writer is written for some tree, and none of
    these trees is the error-free parse of any source text. -/
theorem C05_placeholder_reachable_only_by_bad_trees :
    (∀ e ∈ [Expr.nil, .lit .zero .ident [120], .unary .zero .star (cxCol "a"),
            .binary (cxCol "a") .zero .comma (cxCol "b")],
      (∃ cs, compileChunks [] [] (cxWhere e) = .ok cs ∧ hasPlaceholder cs = true) ∧
      ∀ src, parse src ≠ (cxWhere e, [])) := by
  intro e he
  simp only [List.mem_cons, List.not_mem_nil, or_false] at he
  rcases he with rfl | rfl | rfl | rfl
  · exact ⟨⟨_, rfl, by decide⟩, cx_not_parsed _ (by decide)⟩
  · exact ⟨⟨_, rfl, by decide⟩, cx_not_parsed _ (by decide)⟩
  · exact ⟨⟨_, rfl, by decide⟩, cx_not_parsed _ (by decide)⟩
  · exact ⟨⟨_, rfl, by decide⟩, cx_not_parsed _ (by decide)⟩

/-- `C05_parsed_irOK` needs the parse: a `project` column without a name (a tree, not a parse) -/
theorem C05_irOK_needs_parse :
    let t : Tabular := .mk (some (cxId "T")) (.cons (.project .zero .zero [⟨none, .zero, .lit .zero .number [49]⟩]) .nil)
    compileStmts [] [.tabular t] [] none = .ok ([], some t) ∧
    ∃ subs, splitQueries [] [] [] t = .ok subs ∧ subs.all WriteIR.irOK = false := by
  refine ⟨rfl, _, rfl, by decide⟩

/-- `T | where a == p` -/
def cmtSrc : Bytes := [84, 32, 124, 32, 119, 104, 101, 114, 101, 32, 97, 32, 61, 61, 32, 112]
/-- `p := /* c */ 1` -/
def cmtParams : List (Bytes × Bytes) := [([112], [47, 42, 32, 99, 32, 42, 47, 32, 49])]

unseal Pql.scanFrom in
/-- parameters are the caller's SQL: the byte-level theorem is false with a parameter that
    carries a comment (`T | where a == p` with `p := /* c */ 1`): the output has a comment token
    (while `C05_no_placeholder_source` still holds: the comment is in a `raw` chunk) -/
theorem C05_no_comment_needs_no_params :
    noDollarFn (parse cmtSrc).1 = true ∧
    (match compile cmtParams cmtSrc with
     | .ok sql => (lexRaw .standard sql).map (·.contains .comment)
     | _ => none) = some true := by
  decide +kernel

unseal Pql.scanFrom in
/-- `noDollarFn` is needed for the token equation: `t | where $f(a)` compiles to `… WHERE $f("a")`,
    whose `$f` the SQL lexer reads as a parameter, not as the word of the chunk -/
theorem C05_no_comment_needs_noDollar :
    noDollarFn (parse dollarSrc).1 = false ∧
    ∃ cs, compileChunks dollarSrc [] (parse dollarSrc).1 = .ok cs ∧
      lexRaw .standard (renderChunks cs) ≠ some (toksOf cs) := by
  refine ⟨by decide +kernel, ?_⟩
  cases hc : compileChunks dollarSrc [] (parse dollarSrc).1 with
  | error e =>
    have : (compileChunks dollarSrc [] (parse dollarSrc).1).toBool = true := by decide +kernel
    rw [hc] at this; cases this
  | ok cs =>
    refine ⟨cs, rfl, ?_⟩
    have : (match compileChunks dollarSrc [] (parse dollarSrc).1 with
      | .ok cs => lexRaw .standard (renderChunks cs) != some (toksOf cs)
      | .error _ => false) = true := by decide +kernel
    rw [hc] at this
    simpa using this

/-! ### non-vacuity: a parsed source using every operator -/

/-- `let n = -3; T | where a == 'x' and b > n | extend e = a + 1
     | join kind=leftouter (U | take 5) on k | summarize c = count() by a | sort by c desc
     | top 3 by c | project c, d = a | as X | count | render barchart with (title='t')` -/
def nvSrc : Bytes :=
  [108, 101, 116, 32, 110, 32, 61, 32, 45, 51, 59, 32, 84, 32, 124, 32, 119, 104, 101, 114, 101,
   32, 97, 32, 61, 61, 32, 39, 120, 39, 32, 97, 110, 100, 32, 98, 32, 62, 32, 110, 32, 124, 32,
   101, 120, 116, 101, 110, 100, 32, 101, 32, 61, 32, 97, 32, 43, 32, 49, 32, 124, 32, 106, 111,
   105, 110, 32, 107, 105, 110, 100, 61, 108, 101, 102, 116, 111, 117, 116, 101, 114, 32, 40, 85,
   32, 124, 32, 116, 97, 107, 101, 32, 53, 41, 32, 111, 110, 32, 107, 32, 124, 32, 115, 117, 109,
   109, 97, 114, 105, 122, 101, 32, 99, 32, 61, 32, 99, 111, 117, 110, 116, 40, 41, 32, 98, 121,
   32, 97, 32, 124, 32, 115, 111, 114, 116, 32, 98, 121, 32, 99, 32, 100, 101, 115, 99, 32, 124,
   32, 116, 111, 112, 32, 51, 32, 98, 121, 32, 99, 32, 124, 32, 112, 114, 111, 106, 101, 99, 116,
   32, 99, 44, 32, 100, 32, 61, 32, 97, 32, 124, 32, 97, 115, 32, 88, 32, 124, 32, 99, 111, 117,
   110, 116, 32, 124, 32, 114, 101, 110, 100, 101, 114, 32, 98, 97, 114, 99, 104, 97, 114, 116, 32,
   119, 105, 116, 104, 32, 40, 116, 105, 116, 108, 101, 61, 39, 116, 39, 41]

unseal Pql.scanFrom in
theorem nv_parses : (parse nvSrc).2 = [] := by decide +kernel
unseal Pql.scanFrom in
theorem nv_compiles : isOk (compile [] nvSrc) = true := by decide +kernel
unseal Pql.scanFrom in
theorem nv_noDollar : noDollarFn (parse nvSrc).1 = true ∧ k4Free (parse nvSrc).1 = true := by decide +kernel

unseal Pql.scanFrom in
/-- the example has two statements, eleven subqueries — one per stored operator kind (where,
    extend, summarize, project, as, count, render), the join's source, and the three that sort /
    take / top open — and every operator kind occurs in its tree -/
theorem nv_nontrivial :
    (parse nvSrc).1.length = 2 ∧
    ((queryOf (parse nvSrc).1).map fun t =>
      match splitQueries nvSrc [] [] t with
      | .ok subs => (subs.length, subs.all storedSub, subs.all WriteIR.irOK,
          (subs.filter fun s => s.op.isSome).length, (subs.filter fun s => s.sort.isSome).length,
          (subs.filter fun s => s.take.isSome).length)
      | .error _ => (0, false, false, 0, 0, 0)) = some (11, true, true, 7, 2, 2) := by
  decide +kernel

/-- **non-vacuity**: the hypotheses of `C05_no_placeholder_source` and `C05_no_comment_source` hold
    of the example, hence their conclusions -/
theorem nv_no_placeholder :
    ∃ sql cs, compile [] nvSrc = .ok sql ∧ compileChunks nvSrc [] (parse nvSrc).1 = .ok cs ∧
      sql = renderChunks cs ∧ hasPlaceholder cs = false ∧
      lexRaw .standard sql = some (toksOf cs) ∧ STok.comment ∉ toksOf cs := by
  obtain ⟨sql, hc⟩ := (isOk_iff _).1 nv_compiles
  obtain ⟨cs, h1, h2, h3⟩ := C05_no_placeholder_source [] nvSrc sql hc
  obtain ⟨cs', h1', _, h4, h5⟩ := C05_no_comment_source nvSrc sql nv_noDollar.1 hc
  rw [h1] at h1'
  cases h1'
  exact ⟨sql, cs, hc, h1, h2, h3, h4, h5⟩

unseal Pql.scanFrom in
/-- cross-check by evaluation -/
theorem nv_direct :
    (parse nvSrc).1.all stmtPhFree = true ∧
    (match compileChunks nvSrc [] (parse nvSrc).1 with
     | .ok cs => hasPlaceholder cs
     | .error _ => true) = false := by
  decide +kernel

end Pql.WriteInv
