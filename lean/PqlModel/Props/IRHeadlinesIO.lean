/-
THE HEADLINE PROPERTIES ON THE INTERPRETATIONS OF THE TRANSLATED GO CODE — C16, input side: the
`multiReadCloser` as a stream, on the interpretation of the regenerated `(*multiReadCloser).Read`.

NEW SPEC-LEVEL DEFINITION
`drainIR` : what a consumer (`bufio.Scanner`) does with the multiReadCloser — call `Read` until it reports
            `io.EOF` or an error, keeping the bytes delivered together with the final status — where each
            `Read` is the INTERPRETATION of the regenerated body on the current heap of reader objects
            (loop budget of one call: number of readers left + 1).  `none` = a call did not return normally.
-/
import PqlModel.Lemmas.IRHeadlinesAux
import PqlModel.Props.C16IOIR
import PqlModel.Props.C16IO
namespace Pql.IRHead
open Pql Pql.CliIO Pql.CliIOIR
set_option linter.unusedSimpArgs false

def drainIR (env : Env) : Nat → State → Option (Bytes × Ending)
  | 0, _ => some ([], .outOfFuel)
  | fuel + 1, w =>
    match runUnit env (w.readers.length + 1) "multiReadCloser.Read" [.mrcRef, .buf] w with
    | .ok ([.int n, .err e], st') =>
      match e with
      | .nil => (drainIR env fuel st').map fun r => (st'.data.take n.toNat ++ r.1, r.2)
      | .eof => some (st'.data.take n.toNat, .eof)
      | .other => some (st'.data.take n.toNat, .err)
    | _ => none

/-- draining the interpreted `Read` from a heap whose `mrc.readers` denotes the scripts `rs` is draining the
    model's `multiRead` from `rs`: every call returns normally -/
theorem drainIR_eq (env : Env) (fuel : Nat) : ∀ (w : State) (rs : List Reader),
    denote w.objs w.readers = some rs → (handles w.readers).Nodup →
    drainIR env fuel w = some (drain multiRead fuel rs) := by
  induction fuel with
  | zero => intro w rs _ _; rfl
  | succ fuel ih =>
    intro w rs hd hn
    obtain ⟨st', d, h1, h2, h3, h4, _⟩ := C16_Read_ir_heap env (w.readers.length + 1) w rs hd hn (Nat.lt_succ_self _)
    rw [drainIR, h1]
    simp only [Int.toNat_natCast, h2]
    rw [drain]
    cases hr : multiRead rs with
    | mk res rest =>
      obtain ⟨chunk, status⟩ := res
      rw [hr] at h3
      cases status with
      | ok =>
        simp only [GoErr.ofStatus]
        rw [ih st' rest h3 h4]
        rfl
      | eof => rfl
      | err => rfl

/-- **C16 (several inputs are one stream) on the translated `(*multiReadCloser).Read`.**  For every list of
    reader scripts `rs` — any chunking of their data into `Read` results, `n > 0, io.EOF`, `0, io.EOF`,
    `0, nil`, errors — and every operating system `env`: reading the multiReadCloser over them through the
    INTERPRETATION of the regenerated `Read` until it reports `io.EOF` or an error (`totalResults + 1` calls
    suffice) never panics or gets stuck and yields exactly the contents of the readers, in order, up to and
    including the first reader that fails, ending with `io.EOF` iff no reader failed. -/
theorem C16_multi_concat_ir (env : Env) (rs : List Reader) (fuel : Nat) (hf : totalResults rs + 1 ≤ fuel) :
    drainIR env fuel (worldOf rs) = some (toEnding (concatContents rs)) := by
  rw [drainIR_eq env fuel (worldOf rs) rs (by simpa [worldOf] using denote_range' rs [])
    (by simp [worldOf, handles_range', List.nodup_range']), C16_multi_concat_fuel rs fuel hf, C16_multi_concat]

/-- the budget is needed: with `totalResults` calls the last call (which only learns `io.EOF`) is missing -/
theorem C16_multi_concat_ir_needs_fuel :
    drainIR { openFile := fun _ => none } 1 (worldOf [[([1], .ok)]]) = some ([1], .outOfFuel) := by
  rw [drainIR_eq _ 1 (worldOf [[([1], .ok)]]) [[([1], .ok)]] (by decide) (by decide)]
  decide

end Pql.IRHead
