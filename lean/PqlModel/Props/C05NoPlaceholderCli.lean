/-
Property C05, last clause, for the command-line tool (`cmd/pql`, model `cliMain`).

Standard output of the tool is the concatenation of the SQL texts of the successful `Compile`
calls, each followed by a blank line (`C16_output_order`).  `cli_out_sqls`: for ANY compile
function, every one of these texts is the result of one successful call.  With the real
`Compile` (`compileCli`), `C05_no_placeholder_source` then applies to every text
(`C05_cli_no_placeholder`): each is the rendering of a chunk list without placeholder, and — for
the call's source text `src` (accepted `let` prelude followed by the statement), when no
pass-through function name of `src` begins with `$` — is read by the comment-keeping SQL lexer as
the tokens of its chunks, without any comment token.

The literal byte-level reading "no output line contains `/*`" is false (`C05_cli_bytes_cex`): a
PQL string literal may contain `/*`, and is written as an SQL string literal containing it.
-/
import PqlModel.Props.C05NoPlaceholder
import PqlModel.Props.C16IO
import PqlModel.Props.C16Semantics
namespace Pql.WriteInv
open Pql Sql Pql.CliIO Pql.CliSem Pql.ParsedOK

theorem queryOutcome_sql {compile : Bytes → Option Bytes} {lets stmt s : Bytes}
    (h : queryOutcome compile lets stmt = .sql s) : compile (lets ++ stmt) = some s := by
  unfold queryOutcome at h
  split at h
  · next s' hs => cases h; exact hs
  · cases h

theorem outcome_sql {compile : Bytes → Option Bytes} {lets stmt s : Bytes}
    (h : outcome compile lets stmt = .sql s) : compile (lets ++ stmt) = some s := by
  unfold outcome at h
  split at h
  · split at h <;> cases h
  · exact queryOutcome_sql h

/-- every SQL outcome is the result of one successful call of `compile` -/
theorem allOutcomes_sql (compile : Bytes → Option Bytes) (pieces : List Bytes) (s : Bytes)
    (h : Outcome.sql s ∈ allOutcomes compile pieces) : ∃ src, compile src = some s := by
  unfold allOutcomes at h
  rcases List.mem_append.mp h with h | h
  · obtain ⟨st, hst, hres⟩ := List.mem_map.mp h
    have := steps_res compile [] _ st hst
    rw [hres] at this
    exact ⟨_, outcome_sql this.symm⟩
  · unfold finalOutcome at h
    split at h
    · cases h
    · rw [List.mem_singleton] at h
      exact ⟨_, queryOutcome_sql h.symm⟩

/-- **standard output of the tool** (any compile function): the SQL texts of successful compile
    calls, in order, each followed by a blank line -/
theorem cli_out_sqls (compile : Bytes → Option Bytes) (input : Bytes) :
    ∃ sqls : List Bytes, (cliMain compile input).out = sqls.flatMap (· ++ [10, 10]) ∧
      ∀ sql ∈ sqls, ∃ src, compile src = some sql := by
  refine ⟨_, C16_output_order compile input, ?_⟩
  intro sql hsql
  obtain ⟨o, ho, hs⟩ := List.mem_filterMap.mp hsql
  cases o <;> simp [Outcome.sql?] at hs
  subst hs
  exact allOutcomes_sql compile _ _ ho

theorem compileCli_ok {src sql : Bytes} (h : compileCli src = some sql) : compile [] src = .ok sql := by
  unfold compileCli at h
  split at h
  · next s hs => cases h; exact hs
  · cases h

/-- **C05 (no placeholder, command-line tool).**  For every input: standard output is a sequence of
    SQL texts, each followed by a blank line; each is what `Compile` returned for some source text
    `src`, is the rendering of a chunk list no fixed text of which contains `/*` (no
    `NULL /* unhandled … */`, no `SELECT NULL /* unsupported operator */`), and — if no pass-through
    function name of `src` begins with `$` — lexes, comments kept, to the tokens of its chunks,
    none of them a comment. -/
theorem C05_cli_no_placeholder (input : Bytes) :
    ∃ sqls : List Bytes, (cliMain compileCli input).out = sqls.flatMap (· ++ [10, 10]) ∧
      ∀ sql ∈ sqls, ∃ src cs, compile [] src = .ok sql ∧ sql = renderChunks cs ∧
        hasPlaceholder cs = false ∧
        (noDollarFn (parse src).1 = true →
          lexRaw .standard sql = some (toksOf cs) ∧ STok.comment ∉ toksOf cs) := by
  obtain ⟨sqls, hout, hall⟩ := cli_out_sqls compileCli input
  refine ⟨sqls, hout, fun sql hsql => ?_⟩
  obtain ⟨src, hsrc⟩ := hall sql hsql
  have hc := compileCli_ok hsrc
  obtain ⟨cs, hcs, hr, hph⟩ := C05_no_placeholder_source [] src sql hc
  refine ⟨src, cs, hc, hr, hph, fun hd => ?_⟩
  obtain ⟨cs', hcs', _, h1, h2⟩ := C05_no_comment_source src sql hd hc
  rw [hcs] at hcs'
  cases hcs'
  exact ⟨h1, h2⟩

/-! ### the literal byte-level reading is false, and non-vacuity -/

/-- `T | where a == '/*';` -/
def cliCex : Bytes :=
  [84, 32, 124, 32, 119, 104, 101, 114, 101, 32, 97, 32, 61, 61, 32, 39, 47, 42, 39, 59, 10]

unseal Pql.scanFrom in
/-- the bytes `/*` can occur in the output — inside a string literal the user wrote; it is no
    placeholder and no comment -/
theorem C05_cli_bytes_cex :
    hasOpen (cliMain compileCli cliCex).out = true ∧ (cliMain compileCli cliCex).nErrors = 0 ∧
    (lexRaw .standard (cliMain compileCli cliCex).out).map (·.contains .comment) = some false := by
  decide +kernel

/-- `let n = 1;` newline `T | where a > n | take 5;` newline `T | count` (unterminated) -/
def cliNv : Bytes :=
  [108, 101, 116, 32, 110, 32, 61, 32, 49, 59, 10, 84, 32, 124, 32, 119, 104, 101, 114, 101, 32, 97,
   32, 62, 32, 110, 32, 124, 32, 116, 97, 107, 101, 32, 53, 59, 10, 84, 32, 124, 32, 99, 111, 117,
   110, 116]

unseal Pql.scanFrom in
/-- non-vacuity: a script with a prelude, a terminated and an unterminated query writes two SQL
    texts, without `/*` -/
theorem cliNv_run :
    (cliMain compileCli cliNv).nErrors = 0 ∧ hasOpen (cliMain compileCli cliNv).out = false ∧
    ((cliMain compileCli cliNv).out.filter (· == 59)).length = 2 := by
  decide +kernel

end Pql.WriteInv
