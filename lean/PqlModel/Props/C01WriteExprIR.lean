/-
Property C01 (and C13), tie by translation: the expression layer of pql.go.

`harness/extract_expr.go` regenerates an IR of `writeExpression`, `writeExpressionMaybeParen`,
`writeExpressionTight`, `hasJoinTerms` and of every `write*Function` from the go/ast of pql.go on every
run (`Facts.exprIR`); `Model/ExprIR.lean` interprets it.  This file: the regenerated units, decoded
(`…_ir : decode (irOf key) = some <tree> := by rfl` — a change of the Go code changes the regenerated IR
and one of these stops building), and the theorems for the two wrappers and for `hasJoinTerms`:

  `C01_maybeParen_ir`   `writeExpressionMaybeParen` = `wrapMaybe` after `writeExpression`, for every callee
  `C01_tight_ir`        `writeExpressionTight`      = `wrapTight` after `writeExpression`
  `C01_hasJoinTerms_ir` `hasJoinTerms` = the model's, on every expression `Walk` does not panic on
                         (`C01_hasJoinTerms_ir_needs_noPanic`: on a nil operand Go panics, the model does not)

Props/C01WriteExprIRCases.lean and …All.lean treat `writeExpression` itself.
-/
import PqlModel.Model.ExprIR
import PqlModel.Props.C11Compile
namespace Pql.ExprIR
open Pql
open Pql.WriteIR (M IErr liftW goPanic stuck Path)
set_option linter.unusedSimpArgs false
set_option linter.unusedVariables false

/-! ### the regenerated units, decoded -/

def X : Path := ⟨"x", ""⟩

def maybeIR : List Stmt :=
  [.unparen "x" "p" "ok" "ParenExpr" "X",
   .ite (.or (.typeIs "_" "QualifiedIdent" X) (.or (.typeIs "_" "UnaryExpr" X) (.typeIs "_" "BasicLit" X)))
     [.retWrite "plain" X]
     [.ite (.typeIs "x" "CallExpr" X)
        [.scope [.defKnown "f" ⟨"x", "Func.Name"⟩,
                 .ite (.or (.isNil ⟨"f", ""⟩) (.not (.flag ⟨"f", "needsParens"⟩))) [.retWrite "plain" X] []]]
        []],
   .lit "(", .write "plain" X, .lit ")", .ret]

theorem maybe_ir : decode (irOf "writeExpressionMaybeParen") = some maybeIR := by rfl

def tightIR : List Stmt :=
  [.def_ "inner" X,
   .unparen "inner" "p" "ok" "ParenExpr" "X",
   .ite (.typeIs "_" "UnaryExpr" ⟨"inner", ""⟩) [.lit "(", .write "plain" ⟨"inner", ""⟩, .lit ")", .ret] [],
   .retWrite "maybe" X]

theorem tight_ir : decode (irOf "writeExpressionTight") = some tightIR := by rfl

def visitorIR : List Stmt :=
  [.ite (.typeIs "n" "Ident" ⟨"n", ""⟩)
     [.ite (.strEqC ⟨"n", "Name"⟩ "leftJoinTableAlias") [.setBool "left" "true"]
        [.ite (.strEqC ⟨"n", "Name"⟩ "rightJoinTableAlias") [.setBool "right" "true"] []]]
     [],
   .visitRet "true"]

def hasJoinIR : List Stmt := [.walk "n" X visitorIR, .ret]

theorem hasJoin_ir : decode (irOf "hasJoinTerms") = some hasJoinIR := by rfl

/-! ### helpers -/

theorem bind_ok {ε α β : Type} (a : α) (f : α → Except ε β) : (Except.ok a : Except ε α) >>= f = f a := rfl
theorem bind_err {ε α β : Type} (e : ε) (f : α → Except ε β) : (Except.error e : Except ε α) >>= f = .error e := rfl
theorem pure_ok {ε α : Type} (a : α) : (pure a : Except ε α) = .ok a := rfl

syntax "xe_simp" (" [" Lean.Parser.Tactic.simpLemma,* "]")? : tactic
macro_rules
  | `(tactic| xe_simp) => `(tactic| xe_simp [])
  | `(tactic| xe_simp [$ls,*]) =>
    `(tactic| simp [execBlock, exec, evalCond, State.get, State.declare, State.assign, assignIn, State.leave, State.emit,
        State.ctxOf, valAt, exprAt, strAt, tokAt, flagAt, lenAt, listAt, nilAt, assertType, exprTypeName, callKind, modeAt,
        modeOf, constOf, boolOf, scopeOf, nameOf, strChunks, isNilExpr, bind_ok, bind_err, pure_ok, liftW, goPanic, stuck, bind,
        Except.bind, pure, Except.pure, Except.map, $ls,*])

theorem unparenLoop_eq : (e : Expr) → unparenLoop e = unparen e
  | .paren _ x _ => by rw [unparenLoop, unparen]; exact unparenLoop_eq x
  | .nil => rfl
  | .qident _ => rfl
  | .lit .. => rfl
  | .unary .. => rfl
  | .binary .. => rfl
  | .inE .. => rfl
  | .call .. => rfl
  | .index .. => rfl

def notParen : Expr → Bool
  | .paren .. => false
  | _ => true

theorem unparen_notParen : (e : Expr) → notParen (unparen e) = true
  | .paren _ x _ => by rw [unparen]; exact unparen_notParen x
  | .nil => rfl
  | .qident _ => rfl
  | .lit .. => rfl
  | .unary .. => rfl
  | .binary .. => rfl
  | .inE .. => rfl
  | .call .. => rfl
  | .index .. => rfl

theorem unparen_of_notParen (e : Expr) (h : notParen e = true) : unparen e = e := by
  cases e <;> simp [notParen] at h <;> rfl

theorem unparen_idem (e : Expr) : unparen (unparen e) = unparen e :=
  unparen_of_notParen _ (unparen_notParen e)

theorem needsWrap_unparen : (e : Expr) → needsWrap (unparen e) = needsWrap e
  | .paren _ x _ => by rw [unparen, needsWrap]; exact needsWrap_unparen x
  | .nil => rfl
  | .qident _ => rfl
  | .lit .. => rfl
  | .unary .. => rfl
  | .binary .. => rfl
  | .inE .. => rfl
  | .call .. => rfl
  | .index .. => rfl

theorem isSigned_unparen : (e : Expr) → isSigned (unparen e) = isSigned e
  | .paren _ x _ => by rw [unparen, isSigned]; exact isSigned_unparen x
  | .nil => rfl
  | .qident _ => rfl
  | .lit .. => rfl
  | .unary .. => rfl
  | .binary .. => rfl
  | .inE .. => rfl
  | .call .. => rfl
  | .index .. => rfl

theorem wrapMaybe_unparen (e : Expr) : wrapMaybe (unparen e) = wrapMaybe e := by
  funext b; simp [wrapMaybe, needsWrap_unparen]

theorem wrapTight_unparen (e : Expr) : wrapTight (unparen e) = wrapTight e := by
  funext b; simp [wrapTight, isSigned_unparen, wrapMaybe_unparen]

theorem writeExpr_unparen (c : Ctx) : (e : Expr) → writeExpr c (unparen e) = writeExpr c e
  | .paren _ x _ => by rw [unparen, writeExpr]; exact writeExpr_unparen c x
  | .nil => rfl
  | .qident _ => rfl
  | .lit .. => rfl
  | .unary .. => rfl
  | .binary .. => rfl
  | .inE .. => rfl
  | .call .. => rfl
  | .index .. => rfl

/-- the finish of `runWriter` -/
def finish : Flow × State → M (List Chunk)
  | (.ret, st) => .ok st.out
  | _ => stuck

theorem runWriter_eq (sem : Sem) (key : String) (body : List Stmt) (c : Ctx) (e : Expr)
    (h : decode (irOf key) = some body) :
    runWriter sem key c e = execBlock sem body ⟨[("x", .expr e), ("ctx", .ctx c none)], []⟩ >>= finish := by
  unfold runWriter
  rw [h]
  simp only []
  cases execBlock sem body ⟨[("x", .expr e), ("ctx", .ctx c none)], []⟩ with
  | error err => rfl
  | ok r => obtain ⟨f, st⟩ := r; cases f <;> rfl

/-! ### `writeExpressionMaybeParen` -/

theorem needsWrap_qident (ps : List Ident) : needsWrap (.qident ps) = false := by rfl
theorem needsWrap_lit (a : Span) (k : TokKind) (v : Bytes) : needsWrap (.lit a k v) = false := by rfl
theorem needsWrap_unary (a : Span) (k : TokKind) (x : Expr) : needsWrap (.unary a k x) = false := by rfl
theorem needsWrap_nil : needsWrap .nil = true := by rfl
theorem needsWrap_binary (x : Expr) (a : Span) (k : TokKind) (y : Expr) : needsWrap (.binary x a k y) = true := by rfl
theorem needsWrap_inE (x : Expr) (a b : Span) (vs : ExprList) (c : Span) : needsWrap (.inE x a b vs c) = true := by rfl
theorem needsWrap_index (x : Expr) (a : Span) (y : Expr) (b : Span) : needsWrap (.index x a y b) = true := by rfl

/-- after the unwrapping loop -/
theorem maybe_core (we : Ctx → Expr → M (List Chunk)) (c : Ctx) (u : Expr) (hu : notParen u = true) :
    execBlock { noSem with plain := we } maybeIR.tail ⟨[("x", .expr u), ("ctx", .ctx c none)], []⟩ >>= finish =
      (we c u).map (wrapMaybe u) := by
  cases u with
  | paren => simp [notParen] at hu
  | call fn lp args rp =>
    cases hk : knownFunction fn.name with
    | none => cases hw : we c (.call fn lp args rp) <;>
        xe_simp [maybeIR, X, finish, noSem, hw, hk, wrapMaybe, needsWrap, parenthesise]
    | some w =>
      obtain ⟨wn, np⟩ := w
      cases np <;> cases hw : we c (.call fn lp args rp) <;>
        xe_simp [maybeIR, X, finish, noSem, hw, hk, wrapMaybe, needsWrap, parenthesise]
  | _ => cases hw : we c _ <;>
      xe_simp [maybeIR, X, finish, noSem, hw, wrapMaybe, needsWrap_qident, needsWrap_lit, needsWrap_unary, needsWrap_nil,
        needsWrap_binary, needsWrap_inE, needsWrap_index, parenthesise]

theorem exec_unparen_x (sem : Sem) (c : Ctx) (e : Expr) (rest : List Stmt) :
    execBlock sem (.unparen "x" "p" "ok" "ParenExpr" "X" :: rest) ⟨[("x", .expr e), ("ctx", .ctx c none)], []⟩ =
      execBlock sem rest ⟨[("x", .expr (unparen e)), ("ctx", .ctx c none)], []⟩ := by
  rw [execBlock]
  xe_simp [unparenLoop_eq]

/-- **`writeExpressionMaybeParen` is translated code**: for every callee `we` standing for `writeExpression`,
    every context and every expression (the nil interface included), the interpretation of the regenerated
    body calls `we` once, on the expression without its source parentheses, and applies the model's
    `wrapMaybe` to what it wrote (errors and panics of the callee pass through) -/
theorem C01_maybeParen_ir (we : Ctx → Expr → M (List Chunk)) (c : Ctx) (e : Expr) :
    interpMaybe we c e = (we c (unparen e)).map (wrapMaybe e) := by
  unfold interpMaybe
  rw [runWriter_eq _ _ maybeIR _ _ maybe_ir]
  have h : maybeIR = .unparen "x" "p" "ok" "ParenExpr" "X" :: maybeIR.tail := rfl
  rw [h, exec_unparen_x, maybe_core we c (unparen e) (unparen_notParen e), wrapMaybe_unparen]

/-! ### `writeExpressionTight` -/

theorem isSigned_of_unparen_unary (e : Expr) (a : Span) (k : TokKind) (x : Expr) (h : unparen e = .unary a k x) :
    isSigned e = true := by
  rw [← isSigned_unparen, h]; rfl

theorem isSigned_of_unparen_other (e u : Expr) (h : unparen e = u) (hn : exprTypeName u ≠ "UnaryExpr")
    (hp : notParen u = true) : isSigned e = false := by
  rw [← isSigned_unparen, h]
  cases u <;> simp [exprTypeName, notParen] at hn hp <;> rfl

theorem tight_core (we : Ctx → Expr → M (List Chunk)) (c : Ctx) (e u : Expr) (hu : unparen e = u) :
    execBlock { noSem with plain := we, maybe := interpMaybe we } tightIR ⟨[("x", .expr e), ("ctx", .ctx c none)], []⟩ >>=
      finish = (we c u).map (wrapTight e) := by
  have hnp : notParen u = true := hu ▸ unparen_notParen e
  cases u with
  | paren => simp [notParen] at hnp
  | unary a k x =>
    have hs := isSigned_of_unparen_unary e a k x hu
    cases hw : we c (.unary a k x) <;>
      xe_simp [tightIR, X, finish, noSem, unparenLoop_eq, hu, hw, wrapTight, hs, parenthesise]
  | _ =>
    have hs := isSigned_of_unparen_other e _ hu (by simp [exprTypeName]) hnp
    cases hw : we c _ <;>
      xe_simp [tightIR, X, finish, noSem, unparenLoop_eq, hu, hw, wrapTight, hs, C01_maybeParen_ir]

/-- **`writeExpressionTight` is translated code**: the interpretation of the regenerated body (with the
    interpretation of `writeExpressionMaybeParen` as its callee) is the model's `wrapTight` applied to what
    `writeExpression` wrote for the expression without its source parentheses -/
theorem C01_tight_ir (we : Ctx → Expr → M (List Chunk)) (c : Ctx) (e : Expr) :
    interpTight we c e = (we c (unparen e)).map (wrapTight e) := by
  unfold interpTight
  rw [runWriter_eq _ _ tightIR _ _ tight_ir]
  exact tight_core we c e _ rfl

/-! ### `hasJoinTerms` -/

/-- the state of `hasJoinTerms` between two calls of the visitor -/
def hjState (vx : Val) (l r : Bool) : State := ⟨[("x", vx), ("left", .bool l), ("right", .bool r)], []⟩

/-- is this node an identifier called `a`? -/
def named (a : Bytes) : Node → Bool
  | .ident (some i) => i.name == a
  | _ => false

theorem ofString_left : Bytes.ofString Facts.leftJoinTableAlias = leftAlias := rfl
theorem ofString_right : Bytes.ofString Facts.rightJoinTableAlias = rightAlias := rfl
theorem left_ne_right : (leftAlias == rightAlias) = false := by decide

theorem visit_step (vx : Val) (l r : Bool) (nd : Node) (h : nd ≠ .ident none) :
    execBlock noSem visitorIR ((hjState vx l r).declare "n" (.node nd)) =
      .ok (.vret true, ⟨[("n", .node nd), ("x", vx), ("left", .bool (l || named leftAlias nd)),
        ("right", .bool (r || named rightAlias nd))], []⟩) := by
  cases nd with
  | ident i =>
    cases i with
    | none => exact absurd rfl h
    | some i =>
      by_cases h1 : i.name = leftAlias
      · have h2 : (leftAlias == rightAlias) = false := left_ne_right
        xe_simp [visitorIR, hjState, noSem, named, ofString_left, ofString_right, h1, h2]
      · by_cases h2 : i.name = rightAlias
        · have h3 : ¬ rightAlias = leftAlias := by decide
          have h4 : (rightAlias == leftAlias) = false := by decide
          xe_simp [visitorIR, hjState, noSem, named, ofString_left, ofString_right, h1, h2, h3, h4]
        · xe_simp [visitorIR, hjState, noSem, named, ofString_left, ofString_right, h1, h2]
  | _ => xe_simp [visitorIR, hjState, noSem, named]

theorem visit_all (vx : Val) : ∀ (ns : List Node) (l r : Bool), (∀ m ∈ ns, m ≠ .ident none) →
    visitAll "n" (execBlock noSem visitorIR) ns (hjState vx l r) =
      .ok (.next, hjState vx (l || ns.any (named leftAlias)) (r || ns.any (named rightAlias)))
  | [], l, r, _ => by simp [visitAll]
  | nd :: ns, l, r, h => by
    have ih := visit_all vx ns (l || named leftAlias nd) (r || named rightAlias nd)
      (fun m hm => h m (List.mem_cons_of_mem _ hm))
    rw [visitAll, visit_step vx l r nd (h nd (List.mem_cons_self ..))]
    simp only [bind_ok]
    have hl : (⟨[("n", .node nd), ("x", vx), ("left", .bool (l || named leftAlias nd)),
        ("right", .bool (r || named rightAlias nd))], []⟩ : State).leave (hjState vx l r) =
        hjState vx (l || named leftAlias nd) (r || named rightAlias nd) := by
      simp [State.leave, hjState]
    rw [hl, ih]
    simp [List.any_cons, Bool.or_assoc]

theorem named_eq_anyIdentNamed (a : Bytes) (ns : List Node) : ns.any (named a) = Glue.anyIdentNamed a ns := by
  have hf : named a = fun n => match n with | .ident (some i) => i.name == a | _ => false := by
    funext n
    cases n with
    | ident i => cases i <;> rfl
    | _ => rfl
  unfold Glue.anyIdentNamed
  rw [hf]
  rfl

/-- **`hasJoinTerms` is translated code** (with `parser.Walk` as a primitive: the Walk model).  For every
    expression without a nil sub-expression, the interpretation of the regenerated body — the visitor
    closure run on every node `Walk` hands to it — returns the model's `hasJoinTerms`. -/
theorem C01_hasJoinTerms_ir (e : Expr) (h : e.Good) : interpHasJoinTerms e = .ok (hasJoinTerms e) := by
  have hc := Expr.Good.complete e h
  have hnp : WalkEvent.panic ∉ Pql.walk (fun _ => true) (.expr e) :=
    C11.C11_no_panic (fun _ => true) (.expr e) hc.noPanic
  have hnodes : ∀ m ∈ allNodes (.expr e), m ≠ .ident none := by
    intro m hm hmn
    exact hc.allNodes_label m hm (by rw [hmn]; rfl)
  have hv := visit_all (.expr e) (allNodes (.expr e)) false false hnodes
  obtain ⟨_, _, h3⟩ := Glue.C11_hasJoinTerms_via_walk e hc.noPanic
  unfold interpHasJoinTerms
  rw [hasJoin_ir]
  simp only [hjState, Bool.false_or] at hv
  xe_simp [hasJoinIR, X, hnp, hv, h3, named_eq_anyIdentNamed]

/-- the hypothesis is needed: on `<nil> == $left.x` Go's `Walk` panics when it reaches the nil operand,
    the model's `hasJoinTerms` answers from the identifiers it finds -/
theorem C01_hasJoinTerms_ir_needs_good :
    interpHasJoinTerms Glue.nilEq = .error (.go .panic) ∧ hasJoinTerms Glue.nilEq = (true, false) := by
  constructor
  · unfold interpHasJoinTerms
    rw [hasJoin_ir]
    have hp : WalkEvent.panic ∈ Pql.walk (fun _ => true) (.expr Glue.nilEq) := by decide
    xe_simp [hasJoinIR, X, hp]
  · decide

/-- non-vacuity: `f($left.x, -(y)) == $right.x` -/
theorem C01_hasJoinTerms_ir_nonvacuous : interpHasJoinTerms Glue.sample = .ok (true, true) := by
  rw [C01_hasJoinTerms_ir _ Glue.sample_good]
  congr 1

end Pql.ExprIR
