/-
Property C01, syntactic half ("ParseRoundtrip"): the SQL expression the writer emits, read with
the SQL dialect's own operator precedence, applies the same operators to the same operands in
the same order.

`C01_parse_roundtrip_partial`: for every expression tree `e` with `shapeOK e` (below), if the
writer succeeds with chunks `cs` and the intended translation is `want`, then the independent SQL
reader `Sql.pExprS`, run at minimum precedence 0 on the tokens of `cs` followed by any `rest` that
cannot continue an expression, returns a tree `s` with `normS s = normS want` and leaves exactly
`rest` — for all sufficiently large fuel.

Shape chosen: the parsed tree is returned existentially and compared up to `normS`, because the
writer emits `LOWER(`/`UPPER(` where the translation says `lower`/`upper`, and passes unknown
function names through verbatim where the translation lower-cases them; `normS` is exactly the
comparison the oracle uses (`c01-where-expression-differs`).

The unrestricted statement is FALSE.  `shapeOK` excludes exactly:
* a pass-through function whose name, upper-cased, is an operator word of the SQL expression
  grammar (`NOT AND OR IN IS CASE WHEN THEN ELSE END AS`): PQL function names are case-sensitive,
  so `Not(x)`, `Case(x)`, `is(x)` … are not built-ins, are emitted verbatim and bare, and SQL
  reads `Not(a) + 1` as `NOT ((a) + 1)` (`C01_counterexample_Not` below: producible from source
  text) — a precedence/keyword-capture defect of the writer;
* degenerate trees the PQL parser never produces without an error: an identifier with no parts
  (nothing is emitted) and `x in ()` (emitted as `x IN ()`, which SQL rejects).
-/
import PqlModel.Lemmas.SqlRoundtripCalls
import PqlModel.Lemmas.SqlRoundtripFuel
namespace Pql.C01
open Pql Sql CompileOracle Pql.RT

/-! ### the structural induction -/

theorem mem_toList_cons {e e' : Expr} {es : ExprList} (h : e' ∈ (ExprList.cons e es).toList) :
    e' = e ∨ e' ∈ es.toList := by
  simpa [ExprList.toList] using h

mutual
theorem good_all (ctx : Ctx) (hscope : ctx.scope = []) :
    ∀ e : Expr, shapeOK e = true → e.lexOK = true → Good ctx e
  | .nil, hs, _ => by simp [shapeOK] at hs
  | .qident parts, hs, _ => good_qident parts hscope (by
      intro h; subst h; simp [shapeOK] at hs)
  | .lit sp k v, _, hl => good_lit sp k v hl
  | .unary a op x, hs, hl =>
    good_unary a op (good_all ctx hscope x (by simpa [shapeOK] using hs)
      (by simp only [Expr.lexOK, Bool.and_eq_true] at hl; exact hl.2)) hl
  | .binary x a op y, hs, hl => by
    simp only [shapeOK, Expr.lexOK, Bool.and_eq_true] at hs hl
    exact good_binary a op (good_all ctx hscope x hs.1 hl.1) (good_all ctx hscope y hs.2 hl.2)
  | .inE x a b vals c, hs, hl => by
    simp only [shapeOK, Expr.lexOK, Bool.and_eq_true, bne_iff_ne, ne_eq] at hs hl
    exact good_in a b c (good_all ctx hscope x hs.1.1 hl.1) (good_list ctx hscope vals hs.1.2 hl.2) hs.2
  | .paren a x b, hs, hl =>
    good_paren a b (good_all ctx hscope x (by simpa [shapeOK] using hs) (by simpa [Expr.lexOK] using hl))
  | .call fn a args b, hs, hl => by
    simp only [shapeOK, Expr.lexOK, Bool.and_eq_true] at hs hl
    exact good_call fn a b (good_list ctx hscope args hs.2 hl.2) hs.1
  | .index x a i b, hs, hl => by
    simp only [shapeOK, Expr.lexOK, Bool.and_eq_true] at hs hl
    exact good_index a b (good_all ctx hscope x hs.1 hl.1) (good_all ctx hscope i hs.2 hl.2)
theorem good_list (ctx : Ctx) (hscope : ctx.scope = []) :
    ∀ es : ExprList, shapeOKList es = true → es.lexOK = true → ∀ e ∈ es.toList, Good ctx e
  | .nil, _, _ => by intro e he; simp [ExprList.toList] at he
  | .cons e es, hs, hl => by
    simp only [shapeOKList, ExprList.lexOK, Bool.and_eq_true] at hs hl
    intro e' he'
    rcases mem_toList_cons he' with h | h
    · rw [h]; exact good_all ctx hscope e hs.1 hl.1
    · exact good_list ctx hscope es hs.2 hl.2 e' h
end

/-! ### what may follow the expression -/

/-- `rest` is empty or starts with a token that cannot continue an expression: not an infix
    operator, `IS`, `IN`, `[`, `.`, `(` or `FILTER` -/
def Stops (rest : List STok) : Prop := Ends stopTok rest

theorem Stops.nil : Stops [] := trivial

/-- the closing / separating symbols -/
theorem Stops.sym {s : String} (h : s ∈ [")", "]", ",", ";"]) (tl : List STok) : Stops (.sym s :: tl) := by
  simp only [List.mem_cons, List.not_mem_nil, or_false] at h
  rcases h with rfl | rfl | rfl | rfl
  · exact (by decide : stopTok (S ")") = true)
  · exact (by decide : stopTok (S "]") = true)
  · exact (by decide : stopTok (S ",") = true)
  · exact (by decide : stopTok (S ";") = true)

/-- any word that is not `AND OR IS IN FILTER`, in any letter case — in particular the clause
    words `AS FROM WHERE GROUP ORDER LIMIT ASC DESC THEN ELSE END ON NULLS JOIN LEFT` -/
theorem Stops.word {w : Bytes} (h : upper w ∉ ["AND", "OR", "IS", "IN", "FILTER"]) (tl : List STok) :
    Stops (.word w :: tl) := by
  simp only [List.mem_cons, List.not_mem_nil, or_false, not_or] at h
  obtain ⟨h1, h2, h3, h4, h5⟩ := h
  simp [Stops, Ends, stopTok, unaryEndTok, atomEndTok, infixPrec, h1, h2, h3, h4, h5]

def clauseWords : List String :=
  ["AS", "FROM", "WHERE", "GROUP", "ORDER", "LIMIT", "ASC", "DESC", "THEN", "ELSE", "END", "ON", "NULLS", "JOIN",
   "LEFT", "BY", "WHEN", "SELECT", "WITH"]

theorem Stops.clauseWord {w : Bytes} (h : upper w ∈ clauseWords) (tl : List STok) : Stops (.word w :: tl) := by
  apply Stops.word
  intro hc
  have : ∀ u ∈ clauseWords, u ∉ ["AND", "OR", "IS", "IN", "FILTER"] := by decide
  exact this _ h hc

/-! ### the property -/

/-- **C01 (ParseRoundtrip).** -/
theorem C01_parse_roundtrip_partial (ctx : Ctx) (e : Expr) (cs : List Chunk) (want : SExpr) (rest : List STok)
    (hscope : ctx.scope = [])
    (hok : e.lexOK = true)
    (hshape : shapeOK e = true)
    (hw : writeExpr ctx e = .ok cs)
    (ht : CompileOracle.tr (ctx.mode == .join) e = some want)
    (hrest : Stops rest) :
    ∃ s, normS s = normS want ∧
      ∃ fuel, ∀ fuel', fuel ≤ fuel' → Sql.pExprS fuel' 0 (toksOf cs ++ rest) = some (s, rest) :=
  (good_all ctx hscope e hshape hok).expr hw ht rest hrest

/-- the whole token list is the expression -/
theorem C01_parse_roundtrip_whole (ctx : Ctx) (e : Expr) (cs : List Chunk) (want : SExpr)
    (hscope : ctx.scope = []) (hok : e.lexOK = true) (hshape : shapeOK e = true)
    (hw : writeExpr ctx e = .ok cs) (ht : CompileOracle.tr (ctx.mode == .join) e = some want) :
    ∃ s, normS s = normS want ∧ ∃ fuel, ∀ fuel', fuel ≤ fuel' → Sql.pExprS fuel' 0 (toksOf cs) = some (s, []) := by
  simpa using C01_parse_roundtrip_partial ctx e cs want [] hscope hok hshape hw ht Stops.nil

/-- With fuel monotonicity: at *every* fuel at which the SQL reader returns at all on the emitted
    tokens (in particular the fuel `fuelOf` the statement parser uses), it returns the intended
    translation and stops exactly at `rest`. -/
theorem C01_parse_roundtrip_anyfuel (ctx : Ctx) (e : Expr) (cs : List Chunk) (want : SExpr) (rest : List STok)
    (hscope : ctx.scope = []) (hok : e.lexOK = true) (hshape : shapeOK e = true)
    (hw : writeExpr ctx e = .ok cs) (ht : CompileOracle.tr (ctx.mode == .join) e = some want)
    (hrest : Stops rest) (fuel : Nat) (s : SExpr) (r : List STok)
    (hp : Sql.pExprS fuel 0 (toksOf cs ++ rest) = some (s, r)) : normS s = normS want ∧ r = rest := by
  obtain ⟨s', hs', N, hN⟩ := C01_parse_roundtrip_partial ctx e cs want rest hscope hok hshape hw ht hrest
  have h1 := pExprS_mono (Nat.le_max_left fuel N) hp
  have h2 := hN (max fuel N) (Nat.le_max_right fuel N)
  rw [h1] at h2
  simp only [Option.some.injEq, Prod.mk.injEq] at h2
  exact ⟨h2.1 ▸ hs', h2.2⟩

/-- **C01 (operands are units).** An operand written by `writeExpressionMaybeParen` is read by the
    SQL reader's *unary* level as one operand, whatever operator follows: nothing of the
    precedence table is involved. -/
theorem C01_operand_is_unit (ctx : Ctx) (x : Expr) (body : List Chunk) (want : SExpr) (rest : List STok)
    (hscope : ctx.scope = []) (hok : x.lexOK = true) (hshape : shapeOK x = true)
    (hw : writeExpr ctx x = .ok body) (ht : CompileOracle.tr (ctx.mode == .join) x = some want)
    (hrest : Ends unaryEndTok rest) :
    ∃ s, normS s = normS want ∧
      ∃ fuel, ∀ fuel', fuel ≤ fuel' → Sql.pUnaryS fuel' (toksOf (wrapMaybe x body) ++ rest) = some (s, rest) :=
  (good_all ctx hscope x hshape hok).unit hw ht rest hrest

/-! ### the exclusion is necessary: `Not(a) + 1` -/

/-- `Not(a) + 1` as the PQL parser builds it (`Not` is not the built-in `not`: names are
    case-sensitive) -/
def cexExpr : Expr :=
  .binary (.call ⟨Bytes.ofString "Not", .zero, false⟩ .zero (.cons (.qident [⟨Bytes.ofString "a", .zero, false⟩]) .nil) .zero)
    .zero .plus (.lit .zero .number (Bytes.ofString "1"))

def cexCtx : Ctx := ⟨[], [], .default⟩

/-- what the writer emits: `Not("a") + 1` -/
def cexChunks : List Chunk :=
  [.fname (Bytes.ofString "Not"), .txt "(", .qid (Bytes.ofString "a"), .txt ")", .txt " ", .txt "+", .txt " ",
   .num (Bytes.ofString "1")]

/-- what it should mean: `not("a") + 1`, a call of the pass-through function -/
def cexWant : SExpr :=
  .bin "+" (.call (Bytes.ofString "not") false (.cons (.col [Bytes.ofString "a"]) .nil) .none_) (.num (Bytes.ofString "1"))

theorem cex_lexOK : cexExpr.lexOK = true := by decide
theorem cex_write : writeExpr cexCtx cexExpr = .ok cexChunks := by rfl
theorem cex_tr : CompileOracle.tr (cexCtx.mode == .join) cexExpr = some cexWant := by rfl

/-- how SQL reads it: `NOT (("a") + 1)` -/
theorem cex_read : PE 0 (toksOf cexChunks) (.not_ (.bin "+" (.col [Bytes.ofString "a"]) (.num (Bytes.ofString "1")))) [] := by
  have h1 : PE 7 [STok.num (Bytes.ofString "1")] (.num (Bytes.ofString "1")) [] :=
    E_unary (U_atom A_num (P_stop trivial)) (T_stop trivial)
  have e1 : atomEndTok (S ")") = true := by decide
  have e2 : unaryEndTok (S ")") = true := by decide
  have e3 : stopTok (S ")") = true := by decide
  have e4 : unaryEndTok (S "+") = true := by decide
  have ha : PA [STok.qid (Bytes.ofString "a"), S ")", S "+", .num (Bytes.ofString "1")] (.col [Bytes.ofString "a"])
      [S ")", S "+", .num (Bytes.ofString "1")] := A_col (C_stop e1)
  have h2 : PE 0 [STok.qid (Bytes.ofString "a"), S ")", S "+", .num (Bytes.ofString "1")] (.col [Bytes.ofString "a"])
      [S ")", S "+", .num (Bytes.ofString "1")] :=
    E_unary (U_atom ha (P_stop e2)) (T_stop e3)
  have h3 : PE 3 [S "(", STok.qid (Bytes.ofString "a"), S ")", S "+", .num (Bytes.ofString "1")]
      (.bin "+" (.col [Bytes.ofString "a"]) (.num (Bytes.ofString "1"))) [] :=
    E_unary (U_atom (A_paren h2) (P_stop e4))
      (T_bin infix_plus.prec infix_plus.notIs infix_plus.notIn (by omega) h1 (T_stop trivial))
  have hN : upper (Bytes.ofString "Not") = "NOT" := by rw [upper_eq]; decide
  have := E_not_word hN (Nat.zero_le 3) h3 (T_stop trivial)
  simpa [cexChunks] using this

/-- **The unrestricted ParseRoundtrip statement is false**: for `Not(a) + 1` every hypothesis of
    `C01_parse_roundtrip_partial` except `shapeOK` holds, and no fuel makes the SQL reader return
    the intended translation. -/
theorem C01_counterexample_Not :
    cexCtx.scope = [] ∧ cexExpr.lexOK = true ∧ writeExpr cexCtx cexExpr = .ok cexChunks ∧
    CompileOracle.tr (cexCtx.mode == .join) cexExpr = some cexWant ∧ Stops [] ∧
    ¬ ∃ s, normS s = normS cexWant ∧
      ∃ fuel, ∀ fuel', fuel ≤ fuel' → Sql.pExprS fuel' 0 (toksOf cexChunks ++ []) = some (s, []) := by
  refine ⟨rfl, cex_lexOK, cex_write, cex_tr, Stops.nil, ?_⟩
  rintro ⟨s, hs, hp⟩
  rw [List.append_nil] at hp
  obtain ⟨rfl, _⟩ := PE.unique cex_read hp
  simp [normS, cexWant] at hs

end Pql.C01
