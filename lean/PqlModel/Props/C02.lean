/-
Property C02 — tabular operators take effect strictly in pipeline order.

Specification: `Rel.interp` (Spec/Rel.lean) applies the operators one after another on
list-tables; the oracle evaluates the emitted SQL with the reference evaluator
(Spec/Sql/Eval.lean) on small databases and compares — on every generated pipeline, including
all operator sequences up to length 3 (quick) / 4 (thorough).
Proved here about the model's `splitQueries`: which operators may share a SELECT.
-/
import PqlModel.Model.Compile
import PqlModel.Spec.Rel
namespace Pql.C02
open Pql

/-- **C02 (which operators forbid attaching ORDER BY / LIMIT).** From the regenerated
    `canAttachSort`: exactly the operators that change or fix the column names. -/
theorem C02_canAttachSort_table :
    Facts.canAttachSortFalse = ["AsOperator", "ProjectOperator", "RenderOperator", "SummarizeOperator"] := by decide

theorem setLast_append_singleton (dst : List Subquery) (s : Subquery) (f : Subquery → Subquery) :
    setLast (dst ++ [s]) f = dst ++ [f s] := by
  simp [setLast]

theorem lastOf_append_singleton (dst : List Subquery) (s : Subquery) (k : Nat) (h : k ≤ dst.length) :
    lastOf (dst ++ [s]) k = some s := by
  simp [lastOf]; omega

/-- **C02 (top N by k = sort by k, then take N).** In `splitQueries`, a `top` operator is
    treated exactly like a `sort` by its term directly followed by a `take` of its row count —
    for every state of the subquery list (`dstStart ≤ dst.length` always holds: the list only
    grows from where the pipeline started) and whatever follows. -/
theorem C02_top_eq_sort_take (src : Bytes) (scope : List (Bytes × List Chunk)) (source : Option Ident)
    (dstStart : Nat) (dst : List Subquery) (p k p2 k2 p3 k3 b : Span) (n : Expr) (c : SortTerm) (rest : OpList)
    (hinv : dstStart ≤ dst.length) :
    splitOps src scope source dstStart dst (.cons (.top p k n b (some c)) rest) =
      splitOps src scope source dstStart dst (.cons (.sort p2 k2 [c]) (.cons (.take p3 k3 n) rest)) := by
  conv => lhs; unfold splitOps
  conv => rhs; unfold splitOps
  simp only
  -- the state after the sort step
  generalize hl : lastOf dst dstStart = last
  cases last with
  | none =>
    -- nothing to attach to: a fresh subquery is chained in both readings
    simp only [Bool.false_eq_true, ↓reduceIte]
    rw [setLast_append_singleton, setLast_append_singleton]
    conv => rhs; unfold splitOps
    simp only
    rw [lastOf_append_singleton _ _ _ hinv]
    simp [canAttachSort, chainSubquery, setLast]
  | some l =>
    by_cases hc : (canAttachSort l.op && l.sort.isNone && l.take.isNone) = true
    · simp only [hc, ↓reduceIte]
      -- attached to the existing last subquery `l`
      have hne : dst ≠ [] := by
        intro h; subst h; simp [lastOf] at hl
      obtain ⟨init, hd⟩ : ∃ init, dst = init ++ [l] := by
        unfold lastOf at hl
        split at hl
        · have := List.getLast?_eq_some_iff.mp hl
          obtain ⟨ys, hys⟩ := this
          exact ⟨ys, hys⟩
        · cases hl
      subst hd
      rw [setLast_append_singleton, setLast_append_singleton]
      conv => rhs; unfold splitOps
      simp only
      have hk : dstStart ≤ init.length := by
        unfold lastOf at hl
        split at hl
        · rename_i h; simp at h; omega
        · cases hl
      rw [lastOf_append_singleton _ _ _ hk]
      simp only [Bool.and_eq_true] at hc
      simp [hc.1.1, hc.2, setLast]
    · simp only [hc, Bool.false_eq_true, ↓reduceIte]
      rw [setLast_append_singleton, setLast_append_singleton]
      conv => rhs; unfold splitOps
      simp only
      rw [lastOf_append_singleton _ _ _ hinv]
      simp [canAttachSort, chainSubquery, setLast]

/-- the specification says the same: `top n by k` is `sort by k` then `take n` -/
theorem C02_spec_top (src : Bytes) (db : Sql.DB) (t : Sql.Table) (p k b : Span) (n : Expr) (c : SortTerm) :
    Rel.interpOp src db t (.top p k n b (some c)) =
      Rel.interpOp src db (Rel.interpOp src db t (.sort p k [c])) (.take p k n) := by
  simp [Rel.interpOp]

end Pql.C02
