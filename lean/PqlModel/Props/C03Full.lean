/-
Property C03 / C02, semantic form, in full: the intended SQL statement of ANY tabular expression —
any number of joins, sequential or nested to any depth, ORDER BY / LIMIT attached wherever
`splitA` attaches them — evaluates, in the reference SQL evaluator, to the meaning the specification
interpreter `Rel.interp` gives the expression.

  1. `BlockSem_joinFree`: R3's statement for a join-free block placed anywhere in a chain; with it
     `C03_chain_unconditional` / `C03_chain_take_unconditional` (R6's chain theorems without the
     `hR3…` hypotheses).
  2. `Rect`, `RectDB`; `C03_join_link_sort`: ORDER BY (and LIMIT) on the join's own SELECT;
     `C03_chain_any_after`: the chain theorem for every join-free `after`.
  3. `C03_intended_semantics`: the general theorem, by mutual induction over `Tabular` / `OpList`
     (Lemmas/JoinFullGen.lean), under the decidable conditions `namesOk` (no name capture, finding K3),
     `tabOpsOk` (R3's aggregate side conditions everywhere; a sort directly after a join does not mention
     `$left` / `$right`) and `RectDB db`.
  Each hypothesis is needed: `Cex.*` below.
-/
import PqlModel.Lemmas.JoinFullTop
namespace Pql.C03
open Pql Sql CompileOracle Intended JoinSem JoinFull

/-! ### 1. join-free blocks anywhere; the chain theorems without block hypotheses -/

/-- **R3's statement for a join-free block placed anywhere** (`JoinSem.BlockSem`): for join-free `ops`
    satisfying the aggregate side conditions `opsOk`, every list `dst` of earlier links and every list
    `ctes0` of earlier bindings. -/
theorem BlockSem_joinFree (src : Bytes) (db : DB) (ctes0 : List (Bytes × Table)) (dst : List SubA) (T : Ident)
    (ops : OpList) (hjf : SplitQ.joinFree ops = true) (hok : SelSem.opsOk ops = true) :
    BlockSem src db ctes0 dst T ops :=
  JoinFull.BlockSem_joinFree src db ctes0 dst T ops hjf hok

/-- **C03 (the chain), without hypotheses on the blocks.** -/
theorem C03_chain_unconditional (src : Bytes) (db : DB) (T U : Ident) (before after rops : OpList) (p k a b : Span)
    (flavor : Option Ident) (d e f : Span) (conds : ExprList) (subs : List SubA) (st : Statement)
    (hjb : SplitQ.joinFree before = true) (hjr : SplitQ.joinFree rops = true)
    (hja : SplitQ.joinFree after = true) (hpl : startsPlain after = true)
    (hs : splitA [] (.mk (some T) (appendOps before
      (.cons (.join p k a b flavor d (.mk (some U) rops) e f conds) after))) = some subs)
    (hst : stmtOf src subs = some st)
    (hnames : (subs.map (·.name)).Nodup)
    (hT : T.name ∉ subs.map (·.name)) (hU : U.name ∉ subs.map (·.name))
    (hob : SelSem.opsOk before = true) (hor : SelSem.opsOk rops = true) (hoa : SelSem.opsOk after = true) :
    evalStatement db st =
      Rel.interpOps src db
        (joinTables (kindOf flavor == Bytes.ofString "innerunique") (kindOf flavor == Bytes.ofString "leftouter")
          (Rel.interpOps src db (lookupTable db [] T.name) before)
          (Rel.interp src db (.mk (some U) rops)) (buildJoinCondition conds)) after :=
  C03_chain src db T U before after rops p k a b flavor d e f conds subs st hjb hjr hja hpl hs hst hnames hT hU
    (BlockSem_joinFree src db [] [] T before hjb hob)
    (fun c dst => BlockSem_joinFree src db c dst U rops hjr hor)
    (fun c dst J => BlockSem_joinFree src db c dst J after hja hoa)

/-- **C03 (the chain, `take` directly after the join), without hypotheses on the blocks.** -/
theorem C03_chain_take_unconditional (src : Bytes) (db : DB) (T U : Ident) (before rest rops : OpList)
    (p k a b : Span) (flavor : Option Ident) (d e f : Span) (conds : ExprList) (pp kk : Span) (n : Expr)
    (subs : List SubA) (st : Statement)
    (hjb : SplitQ.joinFree before = true) (hjr : SplitQ.joinFree rops = true)
    (hja : SplitQ.joinFree rest = true)
    (hs : splitA [] (.mk (some T) (appendOps before
      (.cons (.join p k a b flavor d (.mk (some U) rops) e f conds) (.cons (.take pp kk n) rest)))) = some subs)
    (hst : stmtOf src subs = some st)
    (hnames : (subs.map (·.name)).Nodup)
    (hT : T.name ∉ subs.map (·.name)) (hU : U.name ∉ subs.map (·.name))
    (hob : SelSem.opsOk before = true) (hor : SelSem.opsOk rops = true) (hoa : SelSem.opsOk rest = true) :
    evalStatement db st =
      Rel.interpOps src db
        (Rel.takeTable
          (joinTables (kindOf flavor == Bytes.ofString "innerunique") (kindOf flavor == Bytes.ofString "leftouter")
            (Rel.interpOps src db (lookupTable db [] T.name) before)
            (Rel.interp src db (.mk (some U) rops)) (buildJoinCondition conds)) n) rest :=
  C03_chain_take src db T U before rest rops p k a b flavor d e f conds pp kk n subs st hjb hjr hja hs hst hnames
    hT hU
    (BlockSem_joinFree src db [] [] T before hjb hob)
    (fun c dst => BlockSem_joinFree src db c dst U rops hjr hor)
    (fun c dst J => BlockSem_joinFree src db c dst J rest hja hoa)

/-! ### 2. ORDER BY on the join's own SELECT -/

/-- **C03 (the join link with ORDER BY and / or LIMIT).**  The SELECT of a join link that carries the
    sort terms `ts` (and possibly a `take`) evaluates to `Rel.sortTable` (then `Rel.takeTable`) of the
    documented join of the two tables it names — provided the left table is rectangular (`Rect`; needed:
    `Cex.C03_join_sort_needs_rect`) and the sort terms do not mention `$left.…` / `$right.…`
    (`aliasFreeTerms`; needed: `Ex.C03_sort_on_join_link_sees_aliases`, `Cex.C03_join_sort_needs_aliasFree`). -/
theorem C03_join_link_sort (src : Bytes) (db : DB) (ctes : List (Bytes × Table)) (a : SubA)
    (unique left : Bool) (l r : Bytes) (cond : Expr) (ts : List SortTerm) (sel : Select)
    (hsrc : a.source = .join unique left l r cond) (hop : a.op = none) (hsort : a.sort = some ts)
    (hsel : selOf src a = some sel)
    (hal : aliasFreeTerms ts = true) (hrect : Rect (lookupTable db ctes l)) :
    evalSelect db ctes sel =
      (match a.take with
       | some n => Rel.takeTable (Rel.sortTable (joinTables unique left (lookupTable db ctes l) (lookupTable db ctes r) cond) ts) n
       | none => Rel.sortTable (joinTables unique left (lookupTable db ctes l) (lookupTable db ctes r) cond) ts) := by
  rw [evalSelect_join_sort src db ctes a unique left l r cond sel hsrc hop hsel
    (fun ts' h => by rw [hsort] at h; cases h; exact hal) (fun _ => hrect)]
  cases ht : a.take <;> simp [SelSem.sortTakeA, hsort, ht, SplitQ.interpClause]

/-! ### 3. the general theorem -/

/-- **C02 / C03 (statement semantics, any tabular expression), with conditions on the chain.**  If the names
    of the links are pairwise distinct and no source table of the expression (right-hand pipelines
    included) is also the name of a link, then the intended statement evaluates to the meaning of the
    expression. -/
theorem C03_statement_semantics (src : Bytes) (db : DB) (t : Tabular) (subs : List SubA) (st : Statement)
    (hs : splitA [] t = some subs) (hst : stmtOf src subs = some st)
    (hnames : (subs.map (·.name)).Nodup)
    (hsrcs : C05.hasSources t = true) (htabs : ∀ n ∈ C05.tablesOf t, n ∉ subs.map (·.name))
    (hops : tabOpsOk t = true) (hdb : RectDB db) :
    evalStatement db st = Rel.interp src db t :=
  statement_general src db t subs st hs hst hnames hsrcs htabs hops hdb

/-- **C02 / C03 (program level, no lets): the general theorem.**  For every tabular expression `t` — any
    number of joins, sequential or nested to any depth —: if the intended statement of the program
    consisting of the query `t` exists, the names are capture-free (`namesOk`), every operator satisfies
    its side condition (`tabOpsOk`) and the tables of the database are rectangular, then evaluating the
    intended statement gives the documented meaning of `t`. -/
theorem C03_intended_semantics (src : Bytes) (db : DB) (t : Tabular) (st : Statement)
    (hi : intended src [.tabular t] = some st)
    (hnames : namesOk t = true) (hops : tabOpsOk t = true) (hdb : RectDB db) :
    evalStatement db st = Rel.interp src db t := by
  simp only [intended, resolveLets, substTabular_nil, bind, Option.bind] at hi
  cases hs : splitA [] t with
  | none => simp [hs] at hi
  | some subs =>
    simp only [hs] at hi
    obtain ⟨h1, h2, h3⟩ := names_of_namesOk t subs hs hnames
    exact statement_general src db t subs st hs hi h1 h2 h3 hops hdb

/-- **C03 (the chain, any join-free `after`)**: R6's chain theorem without `startsPlain`: a `sort` / `top`
    directly after the join becomes the ORDER BY of the join's own SELECT; its terms must not mention the
    join aliases (`opsOkJ true after`), and the database must be rectangular. -/
theorem C03_chain_any_after (src : Bytes) (db : DB) (T U : Ident) (before after rops : OpList) (p k a b : Span)
    (flavor : Option Ident) (d e f : Span) (conds : ExprList) (subs : List SubA) (st : Statement)
    (hjb : SplitQ.joinFree before = true) (hjr : SplitQ.joinFree rops = true)
    (hs : splitA [] (.mk (some T) (appendOps before
      (.cons (.join p k a b flavor d (.mk (some U) rops) e f conds) after))) = some subs)
    (hst : stmtOf src subs = some st)
    (hnames : (subs.map (·.name)).Nodup)
    (hT : T.name ∉ subs.map (·.name)) (hU : U.name ∉ subs.map (·.name))
    (hob : SelSem.opsOk before = true) (hor : SelSem.opsOk rops = true)
    (hja : SplitQ.joinFree after = true) (hoa : opsOkJ true after = true) (hdb : RectDB db) :
    evalStatement db st =
      Rel.interpOps src db
        (joinTables (kindOf flavor == Bytes.ofString "innerunique") (kindOf flavor == Bytes.ofString "leftouter")
          (Rel.interpOps src db (lookupTable db [] T.name) before)
          (Rel.interp src db (.mk (some U) rops)) (buildJoinCondition conds)) after := by
  rw [← C03_chain_meaning]
  apply statement_general src db _ subs st hs hst hnames
  · simp only [C05.hasSources, Option.isSome_some, Bool.true_and]
    rw [opsHaveSources_append _ _ hjb]
    simp only [C05.opsHaveSources, C05.hasSources, Option.isSome_some,
      opsHaveSources_joinFree rops hjr, opsHaveSources_joinFree after hja, Bool.and_self]
  · intro n hn
    simp only [C05.tablesOf, identName] at hn
    rw [opsTablesOf_append _ _ hjb] at hn
    simp only [C05.opsTablesOf, C05.tablesOf, identName, opsTablesOf_joinFree rops hjr,
      opsTablesOf_joinFree after hja, List.append_nil, List.mem_cons, List.not_mem_nil, or_false] at hn
    rcases hn with rfl | rfl
    · exact hT
    · exact hU
  · simp only [tabOpsOk]
    apply opsOkJ_append _ _ hjb hob
    simp only [opsOkJ, opOkJ, tabOpsOk, SplitQ.isJoin, Bool.and_eq_true]
    exact ⟨by rw [opsOkJ_joinFree rops hjr]; exact hor, hoa⟩
  · exact hdb

/-! ### every hypothesis of the general theorem is needed -/
namespace Cex
open Ex

def sortBy (col : String) (asc : Bool) : SortTerm := ⟨.qident [idt col], asc, .zero, false, .zero⟩

/-- T(k, a) with a short row (no value for `a`) -/
def badT : Table := ⟨[bs "k", bs "a"], [[.int 1]]⟩
def u2 : Table := ⟨[bs "k", bs "c"], [[.int 1, .int 5], [.int 1, .int 3]]⟩
def badDB : DB := [(bs "T", badT), (bs "U", u2)]
/-- `T | join (U) on k | sort by c asc` -/
def progSort : Tabular :=
  .mk (some (idt "T")) (.cons (joinOp none tabU) (.cons (.sort .zero .zero [sortBy "c" true]) .nil))

/-- `RectDB` is needed: with a short left row the ORDER BY of the join's SELECT finds the column `c` under
    `$right` while the flat join row, misaligned, has no `c` — the SQL sorts, the specification does not. -/
theorem C03_join_sort_needs_rect :
    namesOk progSort = true ∧ tabOpsOk progSort = true ∧ ¬ RectDB badDB ∧
    (stmtOfT progSort).map (evalStatement badDB) ≠ some (Rel.interp [] badDB progSort) := by decide

/-- … on a rectangular database the same program is fine (instance of the general theorem) -/
example : (stmtOfT progSort).map (evalStatement exDB) = some (Rel.interp [] exDB progSort) := by
  cases h : intended [] [.tabular progSort] with
  | none => exact absurd h (by decide)
  | some st =>
    have h' : stmtOfT progSort = some st := h
    rw [h', Option.map_some, C03_intended_semantics [] exDB progSort st h (by decide) (by decide) (by decide)]

/-- `tabOpsOk` (its alias part) is needed: `T | join kind=leftouter (U) on k | sort by $left.a` -/
theorem C03_join_sort_needs_aliasFree :
    let term : SortTerm := ⟨.qident [idt "$left", idt "a"], false, .zero, false, .zero⟩
    let prog := Tabular.mk (some (idt "T"))
      (.cons (joinOp (some (idt "leftouter")) tabU) (.cons (.sort .zero .zero [term]) .nil))
    namesOk prog = true ∧ tabOpsOk prog = false ∧ RectDB exDB ∧
    (stmtOfT prog).map (evalStatement exDB) ≠ some (Rel.interp [] exDB prog) := by decide

/-- … only DIRECTLY after the join: behind a `take` the same sort starts a link of its own, where `$left.a`
    is an unknown column on both sides; `tabOpsOk` accepts the program and the theorem applies -/
example :
    let term : SortTerm := ⟨.qident [idt "$left", idt "a"], false, .zero, false, .zero⟩
    let prog := Tabular.mk (some (idt "T"))
      (.cons (joinOp (some (idt "leftouter")) tabU)
        (.cons (.take .zero .zero three) (.cons (.sort .zero .zero [term]) .nil)))
    tabOpsOk prog = true ∧ (stmtOfT prog).map (evalStatement exDB) = some (Rel.interp [] exDB prog) := by
  intro term prog
  refine ⟨by decide, ?_⟩
  cases h : intended [] [.tabular prog] with
  | none => exact absurd h (by decide)
  | some st =>
    have h' : stmtOfT prog = some st := h
    rw [h', Option.map_some, C03_intended_semantics [] exDB prog st h (by decide) (by decide) (by decide)]

/-- `namesOk` is needed (name capture, finding K3), its four parts:
    an `as` name that is also a source table — `T | as U | join (U) on k`; -/
theorem C03_needs_namesOk_as_is_table :
    let prog := Tabular.mk (some (idt "T")) (.cons (.as_ .zero .zero (some (idt "U"))) (.cons (joinOp none tabU) .nil))
    namesOk prog = false ∧ tabOpsOk prog = true ∧ RectDB exDB ∧
    (stmtOfT prog).map (evalStatement exDB) ≠ some (Rel.interp [] exDB prog) := by decide

/-- the same `as` name twice — `T | as X | join (U | as X) on k`; -/
theorem C03_needs_namesOk_as_twice :
    let prog := Tabular.mk (some (idt "T")) (.cons (.as_ .zero .zero (some (idt "X")))
      (.cons (joinOp none (.mk (some (idt "U")) (.cons (.as_ .zero .zero (some (idt "X"))) .nil))) .nil))
    namesOk prog = false ∧ tabOpsOk prog = true ∧ RectDB exDB ∧
    (stmtOfT prog).map (evalStatement exDB) ≠ some (Rel.interp [] exDB prog) := by decide

/-- a source table that looks like a generated name — `T | count | join (__subquery0) on k`; -/
theorem C03_needs_namesOk_generated_table :
    let prog := Tabular.mk (some (idt "T"))
      (.cons (.count .zero .zero) (.cons (joinOp none (.mk (some (idt "__subquery0")) .nil)) .nil))
    namesOk prog = false ∧ tabOpsOk prog = true ∧ RectDB exDB ∧
    (stmtOfT prog).map (evalStatement exDB) ≠ some (Rel.interp [] exDB prog) := by decide

/-- an `as` name that looks like a generated name — `T | as __subquery1 | join (U) on k`
    (the right-hand block `SELECT * FROM U` is the second link, named `__subquery1` too); -/
theorem C03_needs_namesOk_generated_as :
    let prog := Tabular.mk (some (idt "T"))
      (.cons (.as_ .zero .zero (some (idt "__subquery1"))) (.cons (joinOp none tabU) .nil))
    namesOk prog = false ∧ tabOpsOk prog = true ∧ RectDB exDB ∧
    (stmtOfT prog).map (evalStatement exDB) ≠ some (Rel.interp [] exDB prog) := by decide

/-- a pipeline without source table (the parser never builds one) reads the table named `""` -/
theorem C03_needs_namesOk_source :
    let prog := Tabular.mk none .nil
    namesOk prog = false ∧ tabOpsOk prog = true ∧ RectDB [([], exT)] ∧
    (stmtOfT prog).map (evalStatement [([], exT)]) ≠ some (Rel.interp [] [([], exT)] prog) := by decide
end Cex

/-! ### non-vacuity of the general theorem: sequential and nested joins, ORDER BY / LIMIT on join links -/
namespace Ex
/-- `T | join kind=inner (U | join kind=leftouter (T | as X) on k | sort by b desc) on k
       | sort by a | take 3 | join (U) on k` -/
def prog3 : Tabular := .mk (some (idt "T"))
  (.cons (joinOp (some (idt "inner"))
      (.mk (some (idt "U"))
        (.cons (joinOp (some (idt "leftouter")) (.mk (some (idt "T")) (.cons (.as_ .zero .zero (some (idt "X"))) .nil)))
          (.cons (.sort .zero .zero [Cex.sortBy "b" false]) .nil))))
    (.cons (.sort .zero .zero [Cex.sortBy "a" true]) (.cons (.take .zero .zero three) (.cons (joinOp none tabU) .nil))))
def stmt3 : Statement := (intended [] [.tabular prog3]).getD default

/-- `C03_intended_semantics` instantiated: five links (`X`, the inner join with its ORDER BY, the outer join
    with ORDER BY and LIMIT, `SELECT * FROM U`, the last join), four result rows -/
example : intended [] [.tabular prog3] = some stmt3 ∧ stmt3.ctes.length = 4 ∧
    namesOk prog3 = true ∧ tabOpsOk prog3 = true ∧ RectDB exDB ∧
    evalStatement exDB stmt3 = Rel.interp [] exDB prog3 ∧ (evalStatement exDB stmt3).rows.length = 4 := by
  have hi : intended [] [.tabular prog3] = some stmt3 := rfl
  exact ⟨hi, by decide, by decide, by decide, by decide,
    C03_intended_semantics [] exDB prog3 stmt3 hi (by decide) (by decide) (by decide), by decide⟩

/-- `U ⋈ T` (leftouter, on k) with `ORDER BY b DESC` on the join's own SELECT -/
def exSortLink : SubA :=
  { name := subqueryName 1, source := .join false true (bs "U") (bs "T") (buildJoinCondition keyK),
    sort := some [Cex.sortBy "b" false] }

/-- `C03_join_link_sort` instantiated: the unmatched U row (b = 300) comes first -/
example : ∃ sel, selOf [] exSortLink = some sel ∧
    evalSelect exDB [] sel =
      Rel.sortTable (joinTables false true exU exT (buildJoinCondition keyK)) [Cex.sortBy "b" false] ∧
    (evalSelect exDB [] sel).rows.head? = some [.int 3, .int 300, .null, .null] := by
  cases h : selOf [] exSortLink with
  | none => exact absurd h (by decide)
  | some sel =>
    have := C03_join_link_sort [] exDB [] exSortLink false true (bs "U") (bs "T") _ [Cex.sortBy "b" false] sel
      rfl rfl rfl h (by decide) (by decide)
    refine ⟨sel, rfl, this, ?_⟩
    rw [this]
    decide

/-! non-vacuity of the chain theorems with non-trivial join-free blocks -/
def kIsOne : Expr := .binary (.qident [idt "k"]) .zero .eq (.lit .zero .number (bs "1"))
def beforeOps : OpList := .cons (.where_ .zero .zero kIsOne) .nil
def ropsOps : OpList := .cons (.extend .zero .zero [⟨some (idt "c"), .zero, .qident [idt "b"]⟩]) (.cons (.take .zero .zero three) .nil)
/-- `T | where k == 1 | join kind=leftouter (U | extend c = b | take 3) on k | <after>` -/
def prog4 (after : OpList) : Tabular := .mk (some (idt "T"))
  (appendOps beforeOps (.cons (.join .zero .zero .zero .zero (some (idt "leftouter")) .zero
    (.mk (some (idt "U")) ropsOps) .zero .zero keyK) after))

/-- `C03_chain_unconditional` instantiated: `… | count` -/
example : ∃ subs st, splitA [] (prog4 (.cons (.count .zero .zero) .nil)) = some subs ∧ stmtOf [] subs = some st ∧
    evalStatement exDB st = Rel.interp [] exDB (prog4 (.cons (.count .zero .zero) .nil)) ∧
    (evalStatement exDB st).rows = [[.int 4]] := by
  cases hs : splitA [] (prog4 (.cons (.count .zero .zero) .nil)) with
  | none => exact absurd hs (by decide)
  | some subs =>
    cases hst : stmtOf [] subs with
    | none =>
      have : (splitA [] (prog4 (.cons (.count .zero .zero) .nil))).bind (stmtOf []) = none := by rw [hs]; exact hst
      exact absurd this (by decide)
    | some st =>
      have hn : ((splitA [] (prog4 (.cons (.count .zero .zero) .nil))).map fun subs =>
          decide ((subs.map (·.name)).Nodup ∧ bs "T" ∉ subs.map (·.name) ∧ bs "U" ∉ subs.map (·.name))) = some true := by
        decide
      rw [hs] at hn
      simp only [Option.map_some, Option.some.injEq, decide_eq_true_eq] at hn
      have := C03_chain_unconditional [] exDB (idt "T") (idt "U") beforeOps (.cons (.count .zero .zero) .nil) ropsOps
        .zero .zero .zero .zero (some (idt "leftouter")) .zero .zero .zero keyK subs st rfl rfl rfl rfl hs hst
        hn.1 hn.2.1 hn.2.2 (by decide) (by decide) (by decide)
      refine ⟨subs, st, rfl, hst, ?_, ?_⟩
      · rw [this]
        exact (C03_chain_meaning [] exDB (idt "T") (idt "U") beforeOps _ ropsOps .zero .zero .zero .zero
          (some (idt "leftouter")) .zero .zero .zero keyK).symm
      · rw [this]; decide

/-- `BlockSem_joinFree` instantiated: the block `U | extend c = b | take 3` placed behind two earlier links
    and one earlier binding -/
example : BlockSem [] exDB [(bs "X", exT)] [default, default] (idt "U") ropsOps :=
  BlockSem_joinFree [] exDB _ _ _ ropsOps (by decide) (by decide)

/-- `C03_chain_any_after` instantiated: `… | sort by a desc | count` (the ORDER BY sits on the join link) -/
example : ∃ subs st, splitA [] (prog4 (.cons (.sort .zero .zero [Cex.sortBy "a" false]) (.cons (.count .zero .zero) .nil))) = some subs ∧
    stmtOf [] subs = some st ∧ subs.length = 4 ∧
    evalStatement exDB st =
      Rel.interp [] exDB (prog4 (.cons (.sort .zero .zero [Cex.sortBy "a" false]) (.cons (.count .zero .zero) .nil))) := by
  cases hs : splitA [] (prog4 (.cons (.sort .zero .zero [Cex.sortBy "a" false]) (.cons (.count .zero .zero) .nil))) with
  | none => exact absurd hs (by decide)
  | some subs =>
    cases hst : stmtOf [] subs with
    | none =>
      have : (splitA [] (prog4 (.cons (.sort .zero .zero [Cex.sortBy "a" false]) (.cons (.count .zero .zero) .nil)))).bind
          (stmtOf []) = none := by rw [hs]; exact hst
      exact absurd this (by decide)
    | some st =>
      have hn : ((splitA [] (prog4 (.cons (.sort .zero .zero [Cex.sortBy "a" false]) (.cons (.count .zero .zero) .nil)))).map
          fun subs => decide ((subs.map (·.name)).Nodup ∧ bs "T" ∉ subs.map (·.name) ∧ bs "U" ∉ subs.map (·.name) ∧
            subs.length = 4)) = some true := by decide
      rw [hs] at hn
      simp only [Option.map_some, Option.some.injEq, decide_eq_true_eq] at hn
      have := C03_chain_any_after [] exDB (idt "T") (idt "U") beforeOps
        (.cons (.sort .zero .zero [Cex.sortBy "a" false]) (.cons (.count .zero .zero) .nil)) ropsOps
        .zero .zero .zero .zero (some (idt "leftouter")) .zero .zero .zero keyK subs st rfl rfl hs hst
        hn.1 hn.2.1 hn.2.2.1 (by decide) (by decide) rfl (by decide) (by decide)
      refine ⟨subs, st, rfl, hst, hn.2.2.2, ?_⟩
      rw [this]
      exact (C03_chain_meaning [] exDB (idt "T") (idt "U") beforeOps _ ropsOps .zero .zero .zero .zero
        (some (idt "leftouter")) .zero .zero .zero keyK).symm

/-- `C03_chain_take_unconditional` instantiated: `… | take 3 | count` (the LIMIT sits on the join link) -/
example : ∃ subs st, splitA [] (prog4 (.cons (.take .zero .zero three) (.cons (.count .zero .zero) .nil))) = some subs ∧
    stmtOf [] subs = some st ∧
    evalStatement exDB st =
      Rel.interp [] exDB (prog4 (.cons (.take .zero .zero three) (.cons (.count .zero .zero) .nil))) ∧
    (evalStatement exDB st).rows = [[.int 3]] := by
  cases hs : splitA [] (prog4 (.cons (.take .zero .zero three) (.cons (.count .zero .zero) .nil))) with
  | none => exact absurd hs (by decide)
  | some subs =>
    cases hst : stmtOf [] subs with
    | none =>
      have : (splitA [] (prog4 (.cons (.take .zero .zero three) (.cons (.count .zero .zero) .nil)))).bind
          (stmtOf []) = none := by rw [hs]; exact hst
      exact absurd this (by decide)
    | some st =>
      have hn : ((splitA [] (prog4 (.cons (.take .zero .zero three) (.cons (.count .zero .zero) .nil)))).map
          fun subs => decide ((subs.map (·.name)).Nodup ∧ bs "T" ∉ subs.map (·.name) ∧ bs "U" ∉ subs.map (·.name))) =
            some true := by decide
      rw [hs] at hn
      simp only [Option.map_some, Option.some.injEq, decide_eq_true_eq] at hn
      have := C03_chain_take_unconditional [] exDB (idt "T") (idt "U") beforeOps (.cons (.count .zero .zero) .nil) ropsOps
        .zero .zero .zero .zero (some (idt "leftouter")) .zero .zero .zero keyK .zero .zero three subs st rfl rfl rfl hs hst
        hn.1 hn.2.1 hn.2.2 (by decide) (by decide) (by decide)
      refine ⟨subs, st, rfl, hst, ?_, ?_⟩
      · rw [this]
        exact (C03_chain_take_meaning [] exDB (idt "T") (idt "U") beforeOps _ ropsOps .zero .zero .zero .zero
          (some (idt "leftouter")) .zero .zero .zero keyK .zero .zero three).symm
      · rw [this]; decide
end Ex

end Pql.C03
