/-
Property C09, second part — numbers keep their value, number accessors, and (further below)
the model scanner refines the declarative grammar.

The *value semantics* of number spellings below is written independently of the scanner
(`takeWhile`/`dropWhile` on digit bytes, exact rationals); the theorems relate it to what
`scanNumberOrDot` emits.
-/
import PqlModel.Lemmas.LexNumber
import PqlModel.Lemmas.LexRefines
set_option linter.unusedSimpArgs false
namespace Pql.C09
open Pql

/-! ### value semantics of number spellings (independent of the scanner) -/

/-- ASCII decimal digit -/
def isDec (c : UInt8) : Bool := decide (48 ≤ c.toNat) && decide (c.toNat ≤ 57)

def decDigit (c : UInt8) : Nat := c.toNat - 48

/-- value of a string of decimal digits (most significant first) -/
def natOfDigits (ds : Bytes) : Nat := ds.foldl (fun a c => a * 10 + decDigit c) 0

/-- non-empty and all decimal digits -/
def allDigits (ds : Bytes) : Bool := !ds.isEmpty && ds.all isDec

/-- value of an exponent part: empty ↦ 0, `(e|E) [+|-] digits+` ↦ the signed integer -/
def expValue : Bytes → Option Int
  | [] => some 0
  | e :: t =>
    if e == 101 || e == 69 then
      match t with
      | [] => none
      | sg :: ds =>
        if sg == 43 then (if allDigits ds then some (natOfDigits ds : Int) else none)
        else if sg == 45 then (if allDigits ds then some (-(natOfDigits ds : Int)) else none)
        else if allDigits t then some (natOfDigits t : Int) else none
    else none

/-- split an optional fraction `'.' digits*` off the head: (fraction digits, rest) -/
def splitFrac : Bytes → Bytes × Bytes
  | [] => ([], [])
  | c :: t => if c == 46 then (t.takeWhile isDec, t.dropWhile isDec) else ([], c :: t)

/-- value of `['.' digits*] [exponent]` after an integer part of value `ipVal` -/
def decTail (ipVal : Nat) (ipEmpty : Bool) (r1 : Bytes) : Option Rat :=
  let fr := splitFrac r1
  if ipEmpty && fr.1.isEmpty then none
  else (expValue fr.2).map fun ex =>
    ((ipVal : Rat) + (natOfDigits fr.1 : Rat) / (10 : Rat) ^ fr.1.length) * (10 : Rat) ^ ex

/-- Exact value of a decimal spelling `digits* ['.' digits*] [(e|E) [+|-] digits+]` with at
    least one mantissa digit; `none` for any other byte string. -/
def decValue (s : Bytes) : Option Rat :=
  decTail (natOfDigits (s.takeWhile isDec)) (s.takeWhile isDec).isEmpty (s.dropWhile isDec)

def hexDigitValue (c : UInt8) : Option Nat :=
  let n := c.toNat
  if 48 ≤ n ∧ n ≤ 57 then some (n - 48)
  else if 97 ≤ n ∧ n ≤ 102 then some (n - 87)
  else if 65 ≤ n ∧ n ≤ 70 then some (n - 55)
  else none

def hexDigitsValue : Bytes → Nat → Option Nat
  | [], acc => some acc
  | c :: t, acc =>
    match hexDigitValue c with
    | some d => hexDigitsValue t (acc * 16 + d)
    | none => none

/-- value of a hexadecimal spelling `0(x|X) hexdigits+`; `none` for any other byte string -/
def hexValue : Bytes → Option Nat
  | z :: x :: ds =>
    if z == 48 && (x == 120 || x == 88) && !ds.isEmpty then hexDigitsValue ds 0 else none
  | _ => none

def isHexSpelling : Bytes → Bool
  | z :: x :: _ => z == 48 && (x == 120 || x == 88)
  | _ => false

/-- value of a number spelling of the source language -/
def spellingValue (s : Bytes) : Option Rat :=
  if isHexSpelling s then (hexValue s).map (fun n => (n : Rat)) else decValue s

/-- what Go's `IsFloat` computes on the token value: contains '.', 'e' or 'E' -/
def isFloatValue (v : Bytes) : Bool := v.any (fun c => c == 46 || c == 101 || c == 69)

/-- Go's `strconv.ParseUint(v, 10, 64)` on a token value -/
def parseUint64 (v : Bytes) : Option Nat :=
  if allDigits v && decide (natOfDigits v < 2 ^ 64) then some (natOfDigits v) else none

-- sanity tests of the value semantics (evaluated)
#guard decValue (Bytes.ofString "1.5e2") = some 150
#guard decValue (Bytes.ofString "007") = some 7
#guard decValue (Bytes.ofString ".5") = some (1 / 2)
#guard decValue (Bytes.ofString "1e-2") = some (1 / 100)
#guard decValue (Bytes.ofString "12.") = some 12
#guard decValue (Bytes.ofString "0.e1") = some 0
#guard decValue (Bytes.ofString "1E+3") = some 1000
#guard decValue (Bytes.ofString ".") = none
#guard decValue (Bytes.ofString "") = none
#guard decValue (Bytes.ofString "1e") = none
#guard decValue (Bytes.ofString "1.2.3") = none
#guard decValue (Bytes.ofString "0x10") = none
#guard spellingValue (Bytes.ofString "0x10") = some 16
#guard spellingValue (Bytes.ofString "0XfF") = some 255
#guard spellingValue (Bytes.ofString "0x") = none
#guard spellingValue (Bytes.ofString "10") = some 10

/-! ### helper lemmas about the value semantics -/

theorem isDec_eq_isDigit (c : UInt8) : isDec c = isDigit c := by
  rw [isDigit_iff]; rfl

theorem takeWhile_digits_append (ds tl : Bytes) (hd : ∀ c ∈ ds, isDigit c = true)
    (ht : ∀ c, tl.head? = some c → isDigit c = false) :
    (ds ++ tl).takeWhile isDec = ds ∧ (ds ++ tl).dropWhile isDec = tl := by
  induction ds with
  | nil =>
    cases tl with
    | nil => simp
    | cons c t =>
      have := ht c rfl
      simp [List.takeWhile_cons, List.dropWhile_cons, isDec_eq_isDigit, this]
  | cons d ds ih =>
    have h1 : isDigit d = true := hd d (by simp)
    have := ih (fun c hc => hd c (by simp [hc]))
    simp [List.takeWhile_cons, List.dropWhile_cons, isDec_eq_isDigit, h1, this]

theorem allDigits_of (ds : Bytes) (h0 : ds ≠ []) (hd : ∀ c ∈ ds, isDigit c = true) :
    allDigits ds = true := by
  cases ds with
  | nil => exact absurd rfl h0
  | cons d ds =>
    simp only [allDigits, List.isEmpty_cons, Bool.not_false, Bool.true_and, List.all_eq_true]
    intro c hc
    rw [isDec_eq_isDigit]; exact hd c hc

theorem expValue_isSome_of_isExp (E : Bytes) (h : IsExp E) : ∃ ex, expValue E = some ex := by
  rcases h with rfl | ⟨e, ds, he, h0, hd, hE⟩
  · exact ⟨0, rfl⟩
  · have had := allDigits_of ds h0 hd
    have he' : (e == 101 || e == 69) = true := by rcases he with rfl | rfl <;> simp
    cases ds with
    | nil => exact absurd rfl h0
    | cons d ds' =>
      have hd1 : isDigit d = true := hd d (by simp)
      have hd43 : (d == 43) = false := by
        rw [isDigit_iff] at hd1
        simp at hd1 ⊢
        intro h; subst h; simp at hd1
      have hd45 : (d == 45) = false := by
        rw [isDigit_iff] at hd1
        simp at hd1 ⊢
        intro h; subst h; simp at hd1
      rcases hE with rfl | rfl | rfl
      · exact ⟨(natOfDigits (d :: ds') : Int), by simp [expValue, he', hd43, hd45, had]⟩
      · exact ⟨(natOfDigits (d :: ds') : Int), by simp [expValue, he', had]⟩
      · exact ⟨-(natOfDigits (d :: ds') : Int), by simp [expValue, he', had]⟩

theorem isExp_head (E : Bytes) (h : IsExp E) : ∀ c, E.head? = some c → c = 101 ∨ c = 69 := by
  intro c hc
  rcases h with rfl | ⟨e, ds, he, h0, hd, hE⟩
  · simp at hc
  · rcases hE with rfl | rfl | rfl <;> simp at hc <;> subst hc <;> exact he


theorem isExp_head_not_digit (E : Bytes) (h : IsExp E) :
    ∀ c, E.head? = some c → isDigit c = false := by
  intro c hc
  rcases isExp_head E h c hc with rfl | rfl <;> simp [isDigit_iff]

theorem splitFrac_of_isExp (E : Bytes) (h : IsExp E) : splitFrac E = ([], E) := by
  cases E with
  | nil => rfl
  | cons c t =>
    have : (c == 46) = false := by
      rcases isExp_head _ h c rfl with rfl | rfl <;> simp
    simp [splitFrac, this]

theorem decValue_of_isDecimal (t : Bytes) (h : IsDecimal t) : ∃ q, decValue t = some q := by
  obtain ⟨ds, fs, E, hds, hfs, hE, h⟩ := h
  obtain ⟨ex, hex⟩ := expValue_isSome_of_isExp E hE
  rcases h with ⟨h0, rfl⟩ | ⟨h0, rfl⟩
  · obtain ⟨h1, h2⟩ := takeWhile_digits_append ds E hds (isExp_head_not_digit E hE)
    have : ds.isEmpty = false := by cases ds <;> simp_all
    simp only [decValue, h1, h2, decTail, splitFrac_of_isExp E hE, this, hex]
    simp
  · have hdot : ∀ c, (46 :: (fs ++ E)).head? = some c → isDigit c = false := by
      intro c hc; simp at hc; subst hc; simp [isDigit_iff]
    obtain ⟨h1, h2⟩ := takeWhile_digits_append ds (46 :: (fs ++ E)) hds hdot
    obtain ⟨h3, h4⟩ := takeWhile_digits_append fs E hfs (isExp_head_not_digit E hE)
    have hne : (ds.isEmpty && fs.isEmpty) = false := by
      rcases h0 with h0 | h0
      · cases ds <;> simp_all
      · cases fs <;> simp_all
    have e1 : ds ++ 46 :: fs ++ E = ds ++ (46 :: (fs ++ E)) := by simp
    rw [e1]
    simp only [decValue, h1, h2, decTail, splitFrac, beq_self_eq_true, if_true,
      h3, h4, hne, hex]
    simp

/-! ### `normalizeNumber` keeps the value -/

theorem natOfDigits_zero_cons (l : Bytes) : natOfDigits (48 :: l) = natOfDigits l := by
  simp [natOfDigits, decDigit]

/-- `decValue` with a flag: `b = false` means a (zero) digit has already been seen -/
def decValueAux (b : Bool) (t : Bytes) : Option Rat :=
  decTail (natOfDigits (t.takeWhile isDec)) (b && (t.takeWhile isDec).isEmpty) (t.dropWhile isDec)

theorem decValue_eq_aux (t : Bytes) : decValue t = decValueAux true t := by
  simp [decValue, decValueAux]

theorem decValueAux_zero_cons (b : Bool) (t : Bytes) :
    decValueAux b (48 :: t) = decValueAux false t := by
  have : isDec 48 = true := by decide
  simp [decValueAux, List.takeWhile_cons, List.dropWhile_cons, this, natOfDigits_zero_cons]

theorem decTail_mono (n : Nat) (b : Bool) (r : Bytes) (q : Rat) (h : decTail n b r = some q) :
    decTail n false r = some q := by
  cases b with
  | false => exact h
  | true =>
    simp only [decTail] at h ⊢
    split at h
    · cases h
    · simpa using h

theorem normalizeNumber_zero_cons (t : Bytes) : normalizeNumber (48 :: t) = normalizeNumber t := by
  simp [normalizeNumber, trimLeftZeros]

theorem decValue_normalize_head (c : UInt8) (rest : Bytes) (hc : c ≠ 48) (b : Bool) (q : Rat)
    (h : decValueAux b (c :: rest) = some q) : decValue (normalizeNumber (c :: rest)) = some q := by
  have h48 : (c == 48) = false := by simpa using hc
  simp only [normalizeNumber, trimLeftZeros, h48, Bool.false_eq_true, if_false]
  by_cases hs : (c == 46 || c == 101 || c == 69) = true
  · have hnd : isDec c = false := by
      have : c = 46 ∨ c = 101 ∨ c = 69 := by simpa [Bool.or_assoc] using hs
      rcases this with rfl | rfl | rfl <;> decide
    have h0 : isDec 48 = true := by decide
    simp only [hs, if_true]
    simp only [decValueAux, List.takeWhile_cons, List.dropWhile_cons, hnd] at h
    simp only [decValue, List.takeWhile_cons, List.dropWhile_cons, hnd, h0, natOfDigits_zero_cons]
    exact decTail_mono _ _ _ _ h
  · simp only [hs, Bool.false_eq_true, if_false]
    by_cases hd : isDec c = true
    · simp only [decValueAux, List.takeWhile_cons, List.dropWhile_cons, hd] at h
      simp only [decValue, List.takeWhile_cons, List.dropWhile_cons, hd]
      simpa using h
    · exfalso
      have hd' : isDec c = false := by simpa using hd
      simp only [decValueAux, List.takeWhile_cons, List.dropWhile_cons, hd'] at h
      simp only [Bool.or_eq_true, not_or] at hs
      have h46 : (c == 46) = false := by simpa using hs.1.1
      have he : (c == 101 || c == 69) = false := by simp [hs.1.2, hs.2]
      simp [decTail, splitFrac, h46, expValue, he] at h

theorem decValueAux_false_normalize (t : Bytes) (q : Rat) (h : decValueAux false t = some q) :
    decValue (normalizeNumber t) = some q := by
  induction t with
  | nil =>
    rw [← h]
    simp [normalizeNumber, trimLeftZeros, decValueAux, decValue, List.takeWhile_cons, List.dropWhile_cons,
      natOfDigits_zero_cons, show isDec 48 = true by decide]
  | cons c rest ih =>
    by_cases hc : c = 48
    · subst hc
      rw [decValueAux_zero_cons] at h
      rw [normalizeNumber_zero_cons]
      exact ih h
    · exact decValue_normalize_head c rest hc false q h

theorem decValue_normalize (t : Bytes) (q : Rat) (h : decValue t = some q) :
    decValue (normalizeNumber t) = some q := by
  rw [decValue_eq_aux] at h
  cases t with
  | nil => simp [decValueAux, decTail, splitFrac] at h
  | cons c rest =>
    by_cases hc : c = 48
    · subst hc
      rw [decValueAux_zero_cons] at h
      rw [normalizeNumber_zero_cons]
      exact decValueAux_false_normalize rest q h
    · exact decValue_normalize_head c rest hc true q h

theorem byteOfDigitChar (c : Char) (h : c.isDigit = true) :
    (UInt8.ofNat c.toNat).toNat = c.toNat ∧ isDec (UInt8.ofNat c.toNat) = true := by
  have h1 : 48 ≤ c.toNat ∧ c.toNat ≤ 57 := by
    have := Char.isDigit_iff_toNat.mp h
    simpa using this
  have : (UInt8.ofNat c.toNat).toNat = c.toNat := by
    simp [UInt8.toNat_ofNat']; omega
  refine ⟨this, ?_⟩
  simp [isDec, this, h1]

theorem foldl_digits_map (l : List Char) (hl : ∀ c ∈ l, c.isDigit = true) (init : Nat) :
    (l.map fun c => UInt8.ofNat c.toNat).foldl (fun a c => a * 10 + decDigit c) init =
      Nat.ofDigitChars 10 l init := by
  induction l generalizing init with
  | nil => simp
  | cons c l ih =>
    have hc := (byteOfDigitChar c (hl c (by simp))).1
    simp only [List.map_cons, List.foldl_cons, Nat.ofDigitChars_cons]
    rw [ih (fun d hd => hl d (by simp [hd]))]
    simp [decDigit, hc, Nat.mul_comm]

theorem natOfDigits_natToDec (n : Nat) : natOfDigits (natToDec n) = n := by
  have hl : ∀ c ∈ Nat.toDigits 10 n, c.isDigit = true :=
    fun c hc => Nat.isDigit_of_mem_toDigits (by decide) (by decide) hc
  simp only [natOfDigits, natToDec]
  rw [foldl_digits_map _ hl]
  exact Nat.ofDigitChars_ten_toDigits

theorem natToDec_digits (n : Nat) : ∀ c ∈ natToDec n, isDec c = true := by
  intro c hc
  simp only [natToDec, List.mem_map] at hc
  obtain ⟨d, hd, rfl⟩ := hc
  exact (byteOfDigitChar d (Nat.isDigit_of_mem_toDigits (by decide) (by decide) hd)).2

theorem natToDec_ne_nil (n : Nat) : natToDec n ≠ [] := by
  simp [natToDec]

theorem allDigits_natToDec (n : Nat) : allDigits (natToDec n) = true := by
  have h1 := natToDec_ne_nil n
  have h2 := natToDec_digits n
  simp only [allDigits, Bool.and_eq_true, Bool.not_eq_true', List.all_eq_true]
  exact ⟨by cases h : natToDec n <;> simp_all, h2⟩

theorem takeWhile_all (l : Bytes) (h : ∀ c ∈ l, isDec c = true) :
    l.takeWhile isDec = l ∧ l.dropWhile isDec = [] := by
  induction l with
  | nil => simp
  | cons c l ih =>
    have hc := h c (by simp)
    have := ih (fun d hd => h d (by simp [hd]))
    simp [List.takeWhile_cons, List.dropWhile_cons, hc, this]

/-- a non-empty string of digits denotes the natural number it spells -/
theorem decValue_digits (l : Bytes) (h0 : l ≠ []) (h : ∀ c ∈ l, isDec c = true) :
    decValue l = some (natOfDigits l : Rat) := by
  obtain ⟨h1, h2⟩ := takeWhile_all l h
  have : l.isEmpty = false := by cases l <;> simp_all
  simp [decValue, h1, h2, decTail, splitFrac, this, expValue, Rat.div_def, Rat.add_zero]
  simp [natOfDigits, Rat.add_zero]
  
theorem decValue_natToDec (n : Nat) : decValue (natToDec n) = some (n : Rat) := by
  rw [decValue_digits _ (natToDec_ne_nil n) (natToDec_digits n), natOfDigits_natToDec]

theorem isFloatValue_digits (l : Bytes) (h : ∀ c ∈ l, isDec c = true) : isFloatValue l = false := by
  simp only [isFloatValue, List.any_eq_false]
  intro c hc
  have := h c hc
  simp only [isDec, Bool.and_eq_true, decide_eq_true_eq] at this
  simp
  refine ⟨⟨?_, ?_⟩, ?_⟩ <;> (intro h; subst h; simp at this)

theorem hexDigitValue_of_isHexDigit (c : UInt8) (h : isHexDigit c = true) :
    hexDigitValue c = some (hexVal c) := by
  rw [isHexDigit_iff] at h
  simp only [hexDigitValue, hexVal]
  simp only [Bool.or_eq_true, Bool.and_eq_true, decide_eq_true_eq] at h ⊢
  split
  · rfl
  · split
    · rfl
    · split
      · rfl
      · omega

theorem hexDigitsValue_eq (hs : Bytes) (h : ∀ c ∈ hs, isHexDigit c = true) (acc : Nat) :
    hexDigitsValue hs acc = some (hs.foldl (fun acc c => acc * 16 + hexVal c) acc) := by
  induction hs generalizing acc with
  | nil => rfl
  | cons c hs ih =>
    simp only [hexDigitsValue, hexDigitValue_of_isHexDigit c (h c (by simp)), List.foldl_cons]
    exact ih (fun d hd => h d (by simp [hd])) _

theorem hexValue_eq (x : UInt8) (hs : Bytes) (hx : x = 120 ∨ x = 88) (h0 : hs ≠ [])
    (h : ∀ c ∈ hs, isHexDigit c = true) : hexValue (48 :: x :: hs) = some (hexToNat hs) := by
  have : hs.isEmpty = false := by cases hs <;> simp_all
  have hx' : (x == 120 || x == 88) = true := by rcases hx with rfl | rfl <;> simp
  simp only [hexValue, hx', this, beq_self_eq_true, Bool.and_self, Bool.not_false, if_true,
    hexToNat]
  exact hexDigitsValue_eq hs h 0

theorem decValue_hexSpelling (t : Bytes) (h : isHexSpelling t = true) : decValue t = none := by
  match t, h with
  | z :: x :: r, h =>
    simp only [isHexSpelling, Bool.and_eq_true, beq_iff_eq, Bool.or_eq_true] at h
    obtain ⟨rfl, hx⟩ := h
    have h0 : isDec 48 = true := by decide
    rcases hx with rfl | rfl
    · have hx : isDec 120 = false := by decide
      simp [decValue, List.takeWhile_cons, List.dropWhile_cons, h0, hx, decTail, splitFrac, expValue]
    · have hx : isDec 88 = false := by decide
      simp [decValue, List.takeWhile_cons, List.dropWhile_cons, h0, hx, decTail, splitFrac, expValue]

theorem spellingValue_of_decValue (t : Bytes) (q : Rat) (h : decValue t = some q) :
    spellingValue t = some q := by
  cases hh : isHexSpelling t with
  | true => rw [decValue_hexSpelling t hh] at h; cases h
  | false => simp [spellingValue, hh, h]

theorem isFloatValue_zero_cons (t : Bytes) : isFloatValue (48 :: t) = isFloatValue t := by
  simp [isFloatValue]

theorem isFloatValue_trim (t : Bytes) : isFloatValue (trimLeftZeros t) = isFloatValue t := by
  induction t with
  | nil => rfl
  | cons c t ih =>
    simp only [trimLeftZeros]
    split
    · rename_i h
      have : c = 48 := by simpa using h
      subst this
      rw [ih, isFloatValue_zero_cons]
    · rfl

theorem trimLeftZeros_nil (t : Bytes) (h : trimLeftZeros t = []) : isFloatValue t = false := by
  rw [← isFloatValue_trim, h]; rfl

theorem isFloatValue_normalize (t : Bytes) : isFloatValue (normalizeNumber t) = isFloatValue t := by
  simp only [normalizeNumber]
  split
  · rename_i h
    rw [trimLeftZeros_nil t h]; rfl
  · rename_i c rest h
    rw [← isFloatValue_trim t, h]
    split
    · exact isFloatValue_zero_cons _
    · rfl

/-- a decimal spelling without '.', 'e', 'E' is a non-empty digit string, and its value is the
    natural number it spells -/
theorem decValue_integer (v : Bytes) (q : Rat) (h : decValue v = some q)
    (hf : isFloatValue v = false) : allDigits v = true ∧ q = (natOfDigits v : Rat) := by
  have hsplit := List.takeWhile_append_dropWhile (p := isDec) (l := v)
  cases hr : v.dropWhile isDec with
  | nil =>
    rw [hr, List.append_nil] at hsplit
    have hall : ∀ c ∈ v, isDec c = true := by
      intro c hc
      rw [← hsplit] at hc
      exact List.all_eq_true.mp (List.all_takeWhile (p := isDec) (l := v)) c hc
    have hne : v ≠ [] := by
      intro h0; subst h0
      simp [decValue, decTail, splitFrac] at h
    rw [decValue_digits v hne hall] at h
    refine ⟨?_, by cases h; rfl⟩
    simp only [allDigits, Bool.and_eq_true, Bool.not_eq_true', List.all_eq_true]
    exact ⟨by cases v <;> simp_all, hall⟩
  | cons c r =>
    exfalso
    have hc : c ∈ v := by
      rw [← hsplit, hr]; simp
    simp only [isFloatValue, List.any_eq_false] at hf
    have := hf c hc
    simp only [Bool.or_eq_true, not_or] at this
    have h46 : (c == 46) = false := by simpa using this.1.1
    have he : (c == 101 || c == 69) = false := by simp [this.1.2, this.2]
    simp [decValue, hr, decTail, splitFrac, h46, expValue, he] at h


theorem isHexSpelling_of_decValue (t : Bytes) (q : Rat) (h : decValue t = some q) :
    isHexSpelling t = false := by
  cases hh : isHexSpelling t with
  | true => rw [decValue_hexSpelling t hh] at h; cases h
  | false => rfl

/-! ### property theorems -/

/-- **C09 (numbers keep their value).**  If the number sub-scanner, started on a source that
    begins with a digit or '.', emits a number token with value `v` and width `w`, then the source
    spelling `s.take w` is a well-formed literal of the language (decimal
    `digits* ['.' digits*] [(e|E)[+|-]digits+]` with at least one mantissa digit, or `0(x|X)hex+`)
    and the emitted decimal spelling `v` denotes exactly the same rational number. -/
theorem C09_number_value (c : UInt8) (rest v : Bytes) (w : Nat)
    (hc : (isDigit c || c == 46) = true)
    (h : scanNumberOrDot (c :: rest) = ⟨.number, v, w⟩) :
    ∃ q : Rat, spellingValue ((c :: rest).take w) = some q ∧ decValue v = some q := by
  rcases scanNumberOrDot_shape c rest v w hc h with ⟨hdec, hv⟩ | ⟨x, hs, hx, h0, hh, htake, hv, hlt⟩
  · obtain ⟨q, hq⟩ := decValue_of_isDecimal _ hdec
    refine ⟨q, ?_, ?_⟩
    · exact spellingValue_of_decValue _ q hq
    · rw [hv]; exact decValue_normalize _ q hq
  · refine ⟨(hexToNat hs : Rat), ?_, ?_⟩
    · have hx' : (x == 120 || x == 88) = true := by rcases hx with rfl | rfl <;> simp
      rw [htake]
      simp [spellingValue, isHexSpelling, hx', hexValue_eq x hs hx h0 hh]
    · rw [hv]; exact decValue_natToDec _

/-- **C09 (number accessors).**  For a number token `v` scanned from a source that starts with
    a digit or '.', with source spelling `src = s.take w`:
    * a hexadecimal literal yields an integer token (Go's `IsFloat` is false on it);
    * for a decimal literal `IsFloat` on the token value is `IsFloat` on the source spelling;
    * an integer token is a non-empty string of decimal digits and reading it back as a decimal
      natural number gives the number the source spelled; in particular, when that number is
      below 2^64, `strconv.ParseUint(v, 10, 64)` succeeds with the source's value. -/
theorem C09_accessors (c : UInt8) (rest v : Bytes) (w : Nat)
    (hc : (isDigit c || c == 46) = true)
    (h : scanNumberOrDot (c :: rest) = ⟨.number, v, w⟩) :
    (isHexSpelling ((c :: rest).take w) = true → isFloatValue v = false) ∧
    (isHexSpelling ((c :: rest).take w) = false →
      isFloatValue v = isFloatValue ((c :: rest).take w)) ∧
    (isFloatValue v = false →
      allDigits v = true ∧
      spellingValue ((c :: rest).take w) = some (natOfDigits v : Rat) ∧
      (natOfDigits v < 2 ^ 64 → parseUint64 v = some (natOfDigits v))) := by
  obtain ⟨q, hsrc, hval⟩ := C09_number_value c rest v w hc h
  refine ⟨?_, ?_, ?_⟩
  · intro hhex
    rcases scanNumberOrDot_shape c rest v w hc h with ⟨hdec, _⟩ | ⟨x, hs, hx, h0, hh, htake, hv, hlt⟩
    · obtain ⟨q', hq'⟩ := decValue_of_isDecimal _ hdec
      rw [isHexSpelling_of_decValue _ q' hq'] at hhex
      cases hhex
    · rw [hv]
      exact isFloatValue_digits _ (natToDec_digits _)
  · intro hhex
    rcases scanNumberOrDot_shape c rest v w hc h with ⟨_, hv⟩ | ⟨x, hs, hx, h0, hh, htake, hv, hlt⟩
    · rw [hv]
      exact isFloatValue_normalize _
    · have hx' : (x == 120 || x == 88) = true := by rcases hx with rfl | rfl <;> simp
      rw [htake] at hhex
      simp [isHexSpelling, hx'] at hhex
  · intro hf
    obtain ⟨hall, hq⟩ := decValue_integer v q hval hf
    refine ⟨hall, by rw [hsrc, hq], ?_⟩
    intro hlt
    simp [parseUint64, hall, hlt]

/-! ### the model scanner refines the declarative grammar -/

/-- One step: at every non-empty suffix the model's `scanOne` and the grammar's `pieceAt`
    (regular expressions + maximal munch) agree on the width, on trivia vs. token, and on the
    token's kind and value. -/
theorem C09_refines_step (c : UInt8) (rest : Bytes) :
    stepOfPiece (LexSpec.pieceAt (c :: rest)) = scanOne (c :: rest) :=
  pieceAt_eq_scanOne c rest

/-- **C09 (refinement).** For every byte string, valid UTF-8 or not, the model scanner returns
    exactly the token list of the reference tokenizer of Spec/LexSpec.lean (same kinds, spans
    and values). -/
theorem C09_refines (s : Bytes) : scan s = LexSpec.tokens s :=
  scan_eq_tokens s

-- sanity tests (evaluated)
#guard scan (Bytes.ofString "a == 0x1F // c\n`q``r` 'x\\n' .5e3") =
  LexSpec.tokens (Bytes.ofString "a == 0x1F // c\n`q``r` 'x\\n' .5e3")

end Pql.C09
