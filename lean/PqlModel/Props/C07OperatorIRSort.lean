/-
Property C07, tie by translation: `(*parser).sortOperator` — the model's production for `sort` / `order`
(with the term loop `pSortTerms`) is the interpretation of the regenerated body, for every fuel and every
loop counter (`C07_sortOperator_ir`).
-/
import PqlModel.Props.C07OperatorIR
namespace Pql.OpIR
open Pql
set_option linter.unusedSimpArgs false

theorem newRec_sort : newRec "SortOperator" =
    some ⟨"SortOperator", [("Pipe", .span .zero), ("Keyword", .span .zero), ("Terms", .list [])]⟩ := by rfl

theorem kind_comma : TokKind.ofGoName "TokenComma" = some .comma := by decide

def stermVals (acc : List SortTerm) : List Val := acc.map fun t => .sterm (some t)

theorem toSterms_vals : ∀ acc : List SortTerm, toSterms (stermVals acc) = some acc
  | [] => rfl
  | t :: r => by simp [stermVals, toSterms, toSterms_vals r] ; exact (by simpa [stermVals] using toSterms_vals r)

theorem stermVals_snoc (acc : List SortTerm) (t : SortTerm) : stermVals acc ++ [.sterm (some t)] = stermVals (acc ++ [t]) := by
  simp [stermVals]

/-- the state in the term loop -/
def sortSt (pipe kws : Span) (b kw pt : Token) (acc : List SortTerm) (ts : List Token) (u : Option (List Token)) : St :=
  ⟨[("op", .ref 0), ("by", .tok b), ("keyword", .tok kw), ("pipe", .tok pt), ("p", .parser ts u)],
   [⟨"SortOperator", [("Pipe", .span pipe), ("Keyword", .span kws), ("Terms", .list (stermVals acc))]⟩]⟩

theorem sort_loop (c : PCtx) (fuel : Nat) (pipe kws : Span) (b kw pt : Token) :
    ∀ (n : Nat) (acc : List SortTerm) (ts : List Token) (u : Option (List Token)),
      result toOp "op" none
          (runLoop false (execBlock (envAt c) (lastLoop sortOperatorBody)) n fuel (sortSt pipe kws b kw pt acc ts u)) =
        .ok ⟨.sort pipe kws (pSortTerms c fuel n acc ts).val, (pSortTerms c fuel n acc ts).errs,
          (pSortTerms c fuel n acc ts).rest⟩
  | 0, acc, ts, u => by
    simp [runLoop, result_fuel, sortSt, pSortTerms, St.parser, St.get, toOp, recToOp, listOf, toSterms_vals, optM, asErrs,
      bind, Except.bind, pure, Except.pure]
  | n + 1, acc, ts, u => by
    have ih := sort_loop c fuel pipe kws b kw pt n
    simp only [lastLoop, sortOperatorBody, List.getLast?_cons_cons, List.getLast?_singleton, sortSt, envAt] at ih ⊢
    unfold runLoop pSortTerms
    cases hv : (pSortTerm c fuel ts).val <;> cases he : (pSortTerm c fuel ts).errs <;>
      rcases hr : (pSortTerm c fuel ts).rest with _ | ⟨t, rest⟩
    all_goals first
      | (by_cases hk : t.kind = .comma <;> ir_simp [hv, he, hr, hk, kind_comma, eofTok, stermVals_snoc, ih, toSterms_vals])
      | ir_simp [hv, he, hr, kind_comma, eofTok, stermVals_snoc, ih, toSterms_vals]

/-- the model's production for `sort` / `order`, spelled out -/
def sortModel (c : PCtx) (fuel : Nat) (pipe kw : Span) (ts : List Token) : PRes Op :=
  match ts with
  | [] => ⟨.sort pipe kw [], errAt c.eof, []⟩
  | by_ :: rest =>
    if by_.kind ≠ .by_ then ⟨.sort pipe kw [], errAt by_.span, rest⟩
    else
      let r := pSortTerms c fuel (rest.length + 1) [] rest
      ⟨.sort pipe ⟨kw.start, by_.stop⟩ r.val, r.errs, r.rest⟩

theorem pOperator_sort (c : PCtx) (fuel : Nat) (pipe : Span) (kw : Token) (ts : List Token) :
    pOperator c (fuel + 1) pipe (kwTok "sort" kw) ts = some (sortModel c fuel pipe kw.span ts) := by
  dispatch_simp
  unfold sortModel
  rcases ts with _ | ⟨b, rest⟩
  · simp
  · by_cases hk : b.kind = .by_ <;> simp [hk, Token.span]

theorem sortOperator_run (c : PCtx) (fuel : Nat) (pipe kw : Token) (ts : List Token) :
    runOp c sortOperatorBody fuel pipe kw ts = .ok (sortModel c fuel pipe.span kw.span ts) := by
  have hsplit : sortOperatorBody = sortOperatorBody.dropLast ++ [.loop (lastLoop sortOperatorBody)] := rfl
  unfold runOp run sortModel
  rw [hsplit, execBlock_append]
  simp only [execBlock_single]
  rcases ts with _ | ⟨b, rest⟩
  · ir_simp [sortOperatorBody, newRec_sort, kind_by, eofTok, PCtx.eof, Span.index, Token.span, toSterms]
  · by_cases hk : b.kind = .by_
    · have hpre : execBlock (envAt c) sortOperatorBody.dropLast fuel (entry (opParams (b :: rest) pipe kw)) =
          .ok (.next, sortSt pipe.span ⟨kw.start, b.stop⟩ b kw pipe [] rest (some (b :: rest))) := by
        ir_simp [sortOperatorBody, newRec_sort, kind_by, hk, sortSt, stermVals, Token.span]
      rw [hpre]
      simp only [bind, Except.bind, exec, sortSt, St.parser, St.get, List.find?, beq_self_eq_true, envAt, hk,
        ne_eq, not_true_eq_false, if_false, ite_false]
      simp
      exact sort_loop c fuel pipe.span ⟨kw.start, b.stop⟩ b kw pipe (rest.length + 1) [] rest (some (b :: rest))
    · ir_simp [sortOperatorBody, newRec_sort, kind_by, hk, Token.span, toSterms]

theorem C07_sortOperator_ir (c : PCtx) (fuel : Nat) (pipe kw : Token) (ts : List Token) :
    (runOp c (bodyOf "sortOperator") fuel pipe kw ts).map some =
      .ok (pOperator c (fuel + 1) pipe.span (kwTok "sort" kw) ts) := by
  simp only [bodyOf, sortOperator_ir, Option.map_some, Option.getD_some, sortOperator_run, pOperator_sort]
  rfl

end Pql.OpIR
