/-
Property C15 — statement splitting agrees with the lexer and loses nothing.
-/
import PqlModel.Lemmas.LexBasic
namespace Pql.C15
open Pql

theorem splitAtSemis_length (src : Bytes) (ts : List Token) (start : Nat) :
    (splitAtSemis src ts start).length = (ts.filter (·.kind = .semi)).length + 1 := by
  induction ts generalizing start with
  | nil => simp [splitAtSemis]
  | cons t ts ih =>
    simp only [splitAtSemis]
    split
    · rename_i h; simp [h, ih]
    · rename_i h; simp [h, ih]

/-- **C15 (count).** There is exactly one more piece than semicolon tokens. -/
theorem C15_count (src : Bytes) :
    (splitStatements src).length = ((scan src).filter (·.kind = .semi)).length + 1 :=
  splitAtSemis_length src (scan src) 0

-- sanity test (evaluated, not a theorem): a;';';b
#guard splitStatements [97, 59, 39, 59, 39, 59, 98] = [[97], [39, 59, 39], [98]]

end Pql.C15
