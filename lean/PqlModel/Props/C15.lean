/-
Property C15 — statement splitting agrees with the lexer and loses nothing.
-/
import PqlModel.Lemmas.LexPieces
namespace Pql.C15
open Pql

theorem splitAtSemis_length (src : Bytes) (ts : List Token) (start : Nat) :
    (splitAtSemis src ts start).length = (ts.filter (·.kind = .semi)).length + 1 := by
  induction ts generalizing start with
  | nil => simp [splitAtSemis]
  | cons t ts ih =>
    simp only [splitAtSemis]
    split
    · rename_i h; simp [h, ih]
    · rename_i h; simp [h, ih]

/-- **C15 (count).** There is exactly one more piece than semicolon tokens. -/
theorem C15_count (src : Bytes) :
    (splitStatements src).length = ((scan src).filter (·.kind = .semi)).length + 1 :=
  splitAtSemis_length src (scan src) 0

/-- join with ';' (byte 59) -/
def intercalateSemi : List Bytes → Bytes
  | [] => []
  | [p] => p
  | p :: q :: ps => p ++ 59 :: intercalateSemi (q :: ps)

theorem intercalateSemi_cons (p : Bytes) {ps : List Bytes} (h : ps ≠ []) :
    intercalateSemi (p :: ps) = p ++ 59 :: intercalateSemi ps := by
  cases ps with
  | nil => exact absurd rfl h
  | cons q ps => rfl

/-- Under the invariant, joining the pieces cut from `start` on restores `src` from `start` on. -/
theorem intercalateSemi_splitAtSemis (src : Bytes) (ts : List Token) (lo start : Nat)
    (h : SemiInv src lo ts) (hs : start ≤ lo) :
    intercalateSemi (splitAtSemis src ts start) = src.drop start := by
  induction ts generalizing lo start with
  | nil => simp [splitAtSemis, intercalateSemi]
  | cons t ts ih =>
    obtain ⟨h1, h2, h3, h4⟩ := h
    simp only [splitAtSemis]
    split
    · rename_i hsemi
      obtain ⟨hstop, hbyte⟩ := h3 hsemi
      rw [intercalateSemi_cons _ (splitAtSemis_ne_nil _ _ _), ih t.stop t.stop h4 (Nat.le_refl _),
        hstop, ← hbyte]
      have : src.drop t.start = (src.drop start).drop (t.start - start) := by
        rw [List.drop_drop]; congr 1; omega
      rw [this, List.take_append_drop]
    · exact ih t.stop start h4 (by omega)

/-- **C15 (join).** For every byte string, joining the pieces of `SplitStatements` with ';'
    restores the source byte for byte. -/
theorem C15_join (src : Bytes) : intercalateSemi (splitStatements src) = src := by
  have := intercalateSemi_splitAtSemis src (scan src) 0 0 (scan_semiInv src) (Nat.le_refl _)
  simpa [splitStatements] using this

/-- **C15 (locality at a semicolon token).** If scanning `u ++ ";" ++ v` produces the semicolon
    token at the ';' after `u` (equivalently, `Reaches (u ++ 59 :: v) u.length`: the ';' is
    not swallowed by a string, quoted name or comment that starts in `u`), then the scan is the
    scan of `u`, that token, and the scan of `v`; nothing to the left of the ';' depends on
    what follows it and nothing to the right on what precedes it. -/
theorem C15_scan_local (u v : Bytes) (off : Nat)
    (h : (⟨.semi, off + u.length, off + u.length + 1, []⟩ : Token) ∈ scanFrom (u ++ 59 :: v) off) :
    scanFrom (u ++ 59 :: v) off =
      scanFrom u off ++ ⟨.semi, off + u.length, off + u.length + 1, []⟩ ::
        scanFrom v (off + u.length + 1) :=
  scanFrom_semi_split u v off ((reaches_iff_semi_mem u v off).mpr h)

/-- **C15 (pieces hold no separator).** Scanned on its own, no piece of `SplitStatements`
    contains a semicolon token: the pieces are exactly the maximal stretches between the
    semicolon tokens of the whole source. -/
theorem C15_no_semi_in_piece (src : Bytes) :
    ∀ p ∈ splitStatements src, ∀ t ∈ scan p, t.kind ≠ .semi := by
  induction hn : src.length using Nat.strongRecOn generalizing src with
  | _ n ih =>
    subst hn
    rcases splitStatements_cases src with ⟨h1, h2⟩ | ⟨u, v, h1, _, h3, h4⟩
    · intro p hp
      rw [h2] at hp
      simp at hp
      subst hp
      exact h1
    · intro p hp
      rw [h4] at hp
      rcases List.mem_cons.mp hp with hp | hp
      · subst hp; exact h3
      · exact ih v.length (by subst h1; simp; omega) v rfl p hp

/-- Scan the pieces one after the other, the first at absolute offset `off`, each next one
    just behind the ';' that follows its predecessor, and put a semicolon token between them. -/
def rejoinTokens : Nat → List Bytes → List Token
  | _, [] => []
  | off, [p] => scanFrom p off
  | off, p :: q :: ps =>
    scanFrom p off ++ ⟨.semi, off + p.length, off + p.length + 1, []⟩ ::
      rejoinTokens (off + p.length + 1) (q :: ps)

theorem rejoinTokens_cons (off : Nat) (p : Bytes) {ps : List Bytes} (h : ps ≠ []) :
    rejoinTokens off (p :: ps) =
      scanFrom p off ++ ⟨.semi, off + p.length, off + p.length + 1, []⟩ ::
        rejoinTokens (off + p.length + 1) ps := by
  cases ps with
  | nil => exact absurd rfl h
  | cons q ps => rfl

theorem scanFrom_eq_rejoinTokens (src : Bytes) (off : Nat) :
    scanFrom src off = rejoinTokens off (splitStatements src) := by
  induction hn : src.length using Nat.strongRecOn generalizing src off with
  | _ n ih =>
    subst hn
    rcases splitStatements_cases src with ⟨_, h2⟩ | ⟨u, v, h1, h2, _, h4⟩
    · rw [h2]; rfl
    · rw [h4, rejoinTokens_cons _ _ (show splitStatements v ≠ [] from splitAtSemis_ne_nil _ _ _),
        ← ih v.length (by subst h1; simp; omega) v _ rfl]
      subst h1
      exact scanFrom_semi_split u v off h2

/-- **C15 (piece tokens).** The token stream of the whole source is obtained by scanning each
    piece of `SplitStatements` on its own, at the absolute offset where the piece starts
    (0 for the first piece, one past the preceding ';' for every other piece), and putting one
    semicolon token between consecutive pieces.  By `scanFrom_eq_map_scan` the scan of a piece
    at offset `o` is `scan piece` with all spans moved by `o`; by `C15_no_semi_in_piece` the
    piece scans hold no semicolon token.  Hence the tokens of the whole source between two
    consecutive semicolon tokens are exactly the tokens of the piece between them, scanned
    alone and shifted by the piece's start offset. -/
theorem C15_piece_tokens (src : Bytes) : scan src = rejoinTokens 0 (splitStatements src) :=
  scanFrom_eq_rejoinTokens src 0

/-- There is one start offset per piece. -/
theorem pieceStarts_length (src : Bytes) :
    (pieceStarts src).length = (splitStatements src).length := by
  simp [pieceStarts, C15_count]

/-- **C15 (piece tokens, by position).**  Pair every piece `p` of `SplitStatements src` with its
    start offset `o` (`pieceStarts`: 0 for the first piece, the `stop` of the preceding semicolon
    token for the others; by `pieceStarts_length` no piece is left out).  Then `p` is the
    text of `src` from `o` on, `p.length` bytes long, and the tokens of the whole scan whose
    spans lie inside `[o, o + p.length]` (`tokensWithin`) are exactly the tokens of `p` scanned
    on its own, with both span ends moved by `o` (`Token.shift`). -/
theorem C15_piece_tokens_at (src : Bytes) :
    ∀ po ∈ (splitStatements src).zip (pieceStarts src),
      (src.drop po.2).take po.1.length = po.1 ∧
      tokensWithin (scan src) po.2 po.1.length = (scan po.1).map (Token.shift po.2) :=
  piece_tokens_aux src

-- sanity test (evaluated, not a theorem): a;';';b
#guard splitStatements [97, 59, 39, 59, 39, 59, 98] = [[97], [39, 59, 39], [98]]
#guard splitStatements [59, 59] = [[], [], []]
#guard rejoinTokens 0 (splitStatements [97, 59, 39, 59, 39, 59, 98]) = scan [97, 59, 39, 59, 39, 59, 98]
#guard pieceStarts [97, 59, 39, 59, 39, 59, 98] = [0, 2, 6]
#guard intercalateSemi (splitStatements [47, 47, 59, 10, 59, 96, 59]) = [47, 47, 59, 10, 59, 96, 59]

end Pql.C15
