/-
Property C02, semantic form, Stage 2: the intended SQL *statement* of a join-free pipeline,
evaluated by the reference SQL evaluator (CTEs in order, each visible to the later ones),
computes what the specification interpreter `Rel` computes for the pipeline.

  bytes Compile emits ≈ intended statement (C05 / C01, oracle clause `c05-intended-statement`)
  evalStatement db (intended statement) = Rel.interp db pipeline        (this file)
-/
import PqlModel.Lemmas.SelSemNames
import PqlModel.Lemmas.ScopeLets
namespace Pql.C02
open Pql Sql CompileOracle Intended SplitQ SelSem

/-- **C02 (statement semantics), sharpest form**: only the names of the CTEs (all links but the
    last, which is the statement's body) have to be pairwise distinct. -/
theorem C02_statement_semantics_ctes (src : Bytes) (db : DB) (T : Ident) (ops : OpList) (subs : List SubA)
    (st : Statement) (hjf : joinFree ops = true)
    (hs : splitA [] (.mk (some T) ops) = some subs) (hst : stmtOf src subs = some st)
    (hnames : (subs.dropLast.map (·.name)).Nodup) (hside : opsOk ops = true) :
    evalStatement db st = Rel.interpOps src db (lookupTable db [] T.name) ops := by
  obtain ⟨inv, hcl, hne⟩ := splitA_inv (some T) ops subs hjf hside hs
  obtain ⟨init, q, rfl⟩ : ∃ init q, subs = init ++ [q] := by
    rcases List.eq_nil_or_concat subs with h | ⟨init, q, h⟩
    · exact absurd h hne
    · exact ⟨init, q, by rw [h, List.concat_eq_append]⟩
  rw [List.dropLast_concat] at hnames
  obtain ⟨sels, body, hm, hb, rfl⟩ := stmtOf_snoc src init q st hst
  rw [evalStatement_eq]
  have hch := (chainFrom_snoc _ init q).mp inv.chain
  have hev := evalChain src db init [] T.name sels hch.1
    (fun s hs => inv.sortOk s (List.mem_append_left _ hs))
    (fun s hs => inv.opsOk s (List.mem_append_left _ hs)) hm hnames (by simp)
  have hq : q ∈ init ++ [q] := by simp
  rw [C02_sel src db _ q _ body hch.2 hb (inv.sortOk q hq) (inv.opsOk q hq)]
  show subEvalA src db (lookupTable db (List.foldl (cteStep db) [] sels) (lastName T.name init)) q = _
  rw [hev, interpOps_eq_clauses src db ops _ hjf, ← hcl, ← foldl_subEvalA, List.foldl_append]
  rfl

/-- **C02 (statement semantics).** For a join-free pipeline `T | ops`: if the names of the links of
    the chain (`__subquery{i}` or the names chosen with `as`) are pairwise distinct and every
    operator satisfies its aggregate side condition (`opsOk`), then evaluating the intended
    statement on any database gives the pipeline's meaning: the operators applied one after the
    other, left to right, to the table `T`. -/
theorem C02_statement_semantics (src : Bytes) (db : DB) (T : Ident) (ops : OpList) (subs : List SubA)
    (st : Statement) (hjf : joinFree ops = true)
    (hs : splitA [] (.mk (some T) ops) = some subs) (hst : stmtOf src subs = some st)
    (hnames : (subs.map (·.name)).Nodup) (hside : opsOk ops = true) :
    evalStatement db st = Rel.interpOps src db (lookupTable db [] T.name) ops := by
  refine C02_statement_semantics_ctes src db T ops subs st hjf hs hst ?_ hside
  exact List.Nodup.sublist (List.Sublist.map _ (List.dropLast_sublist subs)) hnames

/-- the two lookups of the source table agree -/
theorem lookupTable_nil (db : DB) (n : Bytes) :
    lookupTable db [] n = (match db.find? (·.1 == n) with | some t => t.2 | none => ⟨[], []⟩) := rfl

/-- **C02 (statement semantics), against `Rel.interp`.** -/
theorem C02_statement_interp (src : Bytes) (db : DB) (T : Ident) (ops : OpList) (subs : List SubA)
    (st : Statement) (hjf : joinFree ops = true)
    (hs : splitA [] (.mk (some T) ops) = some subs) (hst : stmtOf src subs = some st)
    (hnames : (subs.map (·.name)).Nodup) (hside : opsOk ops = true) :
    evalStatement db st = Rel.interp src db (.mk (some T) ops) := by
  rw [C02_statement_semantics src db T ops subs st hjf hs hst hnames hside, Rel.interp]
  rfl

end Pql.C02

namespace Pql.C02
open Pql Sql CompileOracle Intended SplitQ SelSem

/-- **C02 (statement semantics), with a condition on the pipeline instead of on the chain**: the
    names chosen with `as` are pairwise distinct and none looks like a generated name
    (`asNamesOk`, decidable on the program); then the link names are pairwise distinct
    (`splitA_names_nodup`). -/
theorem C02_statement_semantics_asNames (src : Bytes) (db : DB) (T : Ident) (ops : OpList) (subs : List SubA)
    (st : Statement) (hjf : joinFree ops = true)
    (hs : splitA [] (.mk (some T) ops) = some subs) (hst : stmtOf src subs = some st)
    (hnames : asNamesOk ops = true) (hside : opsOk ops = true) :
    evalStatement db st = Rel.interp src db (.mk (some T) ops) :=
  C02_statement_interp src db T ops subs st hjf hs hst (splitA_names_nodup (some T) ops subs hjf hnames hs) hside

theorem substColumn_nil (c : Column) : substColumn [] c = c := by
  unfold substColumn
  split
  · simp
  · rw [substExpr_nil]

theorem map_substColumn_nil (cs : List Column) : cs.map (substColumn []) = cs := by
  induction cs with
  | nil => rfl
  | cons c cs ih => simp [substColumn_nil, ih]

theorem substOps_nil : ∀ (ops : OpList), joinFree ops = true → substOps [] ops = ops
  | .nil, _ => by simp [substOps]
  | .cons o rest, h => by
    rw [joinFree_cons] at h
    simp only [Bool.and_eq_true, Bool.not_eq_true'] at h
    rw [substOps, substOps_nil rest h.2]
    congr 1
    cases o with
    | join => simp [isJoin] at h
    | top p k n b c => cases c <;> simp [substOp, substExpr_nil]
    | _ => simp [substOp, substExpr_nil, map_substColumn_nil]

/-- **C02 (program level, no lets).** The intended statement of the program consisting of the
    single join-free query `T | ops` computes `Rel.interp` of that query, on every database. -/
theorem C02_intended_semantics (src : Bytes) (db : DB) (T : Ident) (ops : OpList) (st : Statement)
    (hjf : joinFree ops = true) (hi : intended src [.tabular (.mk (some T) ops)] = some st)
    (hnames : asNamesOk ops = true) (hside : opsOk ops = true) :
    evalStatement db st = Rel.interp src db (.mk (some T) ops) := by
  simp only [intended, resolveLets, substTabular, substOps_nil ops hjf, bind, Option.bind] at hi
  cases hs : splitA [] (.mk (some T) ops) with
  | none => simp [hs] at hi
  | some subs =>
    simp only [hs] at hi
    exact C02_statement_semantics_asNames src db T ops subs st hjf hs hi hnames hside

end Pql.C02
