/-
Property C07 — the parser builds the tree the documented grammar dictates (forward direction):
for every tree of the grammar (`Grammar.okSpine` / `wf…`: the grouping and defaults the grammar
prescribes), of any depth and operator mix, and every token list that realises it
(`Grammar.accounts true (unparse tree) ts`), parsing succeeds without error and yields exactly that
tree, spans included.

Stage 1 (expressions) is `C07_expr`.  It carries one hypothesis the specification does not give:
`NoLparenComma ts` — no comma token directly after a `(` token.  `Grammar.accounts` lets a comma
precede the `)` of any call; the parser accepts it only after an argument: `f(a,)` parses to
`f(a)`, but `f(,)` is an error (`C07_expr_unrestricted_false`).  With at least one argument the
optional comma is covered by the theorem.

No `Canonical e` side condition is needed for expressions: every field of every expression node
is determined by the tokens (`Ident.name/span/quoted` by the identifier token's value, position and
kind; all `Span` fields by `accounts true`; `lit.kind/value`, operator kinds by the token).
-/
import PqlModel.Lemmas.ForwardStmt
namespace Pql.C07
open Pql

/-- `rest` does not continue an expression: it is empty, or its first token is neither a binary
    operator, nor `in`, nor `.`, `(` or `[`. -/
def Stops (rest : List Token) : Bool := StopsAt 0 rest

theorem stops_iff (rest : List Token) :
    Stops rest = true ↔ rest = [] ∨ ∃ t r, rest = t :: r ∧ precOf t.kind < 0 ∧ t.kind ≠ .dot ∧
      t.kind ≠ .lparen ∧ t.kind ≠ .lbracket := by
  cases rest with
  | nil => simp [Stops, StopsAt]
  | cons t r =>
    simp only [Stops, StopsAt, kindStops]
    constructor
    · intro h
      split at h
      · rename_i hp
        simp only [Bool.and_eq_true, bne_iff_ne] at h
        exact Or.inr ⟨t, r, rfl, hp, h.1.1, h.1.2, h.2⟩
      · rename_i hp
        simp only [decide_eq_true_eq] at h
        omega
    · rintro (h | ⟨t', r', h, hp, h1, h2, h3⟩)
      · cases h
      · cases h
        rw [if_pos hp]
        simp [h1, h2, h3]

/-! ### stage 1: expressions -/

/-- **C07, stage 1 (expressions).** On the tokens of a well-grouped expression tree, followed by
    anything that does not continue an expression, `expr` returns exactly the tree (spans
    included), no error, and what follows. -/
theorem C07_expr (c : PCtx) (e : Expr) (us : List Grammar.UTok) (ts rest : List Token) (fuel : Nat)
    (hwf : (Grammar.okSpine 0 e).isSome = true)
    (hu : Grammar.unparseExpr e = some us)
    (hacc : Grammar.accounts true us ts = true)
    (hno : NoLparenComma ts = true)
    (hrest : Stops rest = true)
    (hfuel : 4 * (ts ++ rest).length + 4 ≤ fuel) :
    pExpr c fuel (ts ++ rest) = ⟨e, [], rest⟩ :=
  (fwd_all c fuel).expr e ts rest hwf ⟨us, hu, hacc, hno⟩ hrest hfuel

/-- the whole input is the expression -/
theorem C07_expr_all (c : PCtx) (e : Expr) (us : List Grammar.UTok) (ts : List Token) (fuel : Nat)
    (hwf : (Grammar.okSpine 0 e).isSome = true) (hu : Grammar.unparseExpr e = some us)
    (hacc : Grammar.accounts true us ts = true) (hno : NoLparenComma ts = true)
    (hfuel : 4 * ts.length + 4 ≤ fuel) : pExpr c fuel ts = ⟨e, [], []⟩ := by
  have := C07_expr c e us ts [] fuel hwf hu hacc hno rfl (by simpa using hfuel)
  simpa using this

/-- **C07, stage 1 (context-dependent form).** `okSpine m e = some cap` against
    `exprBinaryTrail … minPrec`: started on the head of the spine with the tokens of the spine's
    segments, followed by a `rest` that does not continue at level `m`, the trail returns `e`. -/
theorem C07_trail (c : PCtx) (e : Expr) (m cap : Int) (us : List Grammar.UTok) (ts rest : List Token)
    (acc : Errs) (fuel : Nat)
    (hwf : Grammar.okSpine m e = some cap) (hu : Grammar.unparseExpr e = some us)
    (hacc : Grammar.accounts true us ts = true) (hno : NoLparenComma ts = true)
    (hrest : StopsAt m rest = true) (hfuel : 4 * (ts ++ rest).length + 4 ≤ fuel) :
    ∃ th sg, ts = th ++ sg ∧
      pUnary c fuel (th ++ (sg ++ rest)) = ⟨spineHead e, [], sg ++ rest⟩ ∧
      pTrail c fuel (spineHead e) m acc (sg ++ rest) = ⟨e, acc, rest⟩ := by
  obtain ⟨hh, hh0, hsegs⟩ := ok_spine e m cap hwf
  obtain ⟨th, sg, rfl, hrh, hrs⟩ := real_spine e ts ⟨us, hu, hacc, hno⟩
  simp only [List.length_append] at hfuel
  refine ⟨th, sg, rfl, ?_, ?_⟩
  · exact (fwd_all c fuel).unary _ th (sg ++ rest) hh hh0 hrh (headStops_segs hsegs hrs hrest)
      (by simp only [List.length_append]; omega)
  · have := (fwd_all c fuel).trail (spineSegs e) (spineHead e) m Grammar.inf cap acc sg rest hsegs hrs hrest
      (by simp only [List.length_append]; omega)
    rwa [fold_spine] at this

/-- the same against the "higher precedence first" loop: behind an operator of precedence `p`, the
    right operand `y` (a spine at level `p + 1`) is what the loop returns when `rest` does not
    continue at level `p + 1` -/
theorem C07_higher (c : PCtx) (y : Expr) (p cap : Int) (us : List Grammar.UTok) (ts rest : List Token)
    (acc : Errs) (fuel : Nat)
    (hwf : Grammar.okSpine (p + 1) y = some cap) (hu : Grammar.unparseExpr y = some us)
    (hacc : Grammar.accounts true us ts = true) (hno : NoLparenComma ts = true)
    (hrest : StopsAt (p + 1) rest = true) (hfuel : 4 * (ts ++ rest).length + 4 ≤ fuel) :
    ∃ th sg, ts = th ++ sg ∧
      pUnary c fuel (th ++ (sg ++ rest)) = ⟨spineHead y, [], sg ++ rest⟩ ∧
      pHigher c fuel (spineHead y) p acc (sg ++ rest) = ⟨y, acc, rest⟩ := by
  obtain ⟨hh, hh0, hsegs⟩ := ok_spine y (p + 1) cap hwf
  obtain ⟨th, sg, rfl, hrh, hrs⟩ := real_spine y ts ⟨us, hu, hacc, hno⟩
  simp only [List.length_append] at hfuel
  refine ⟨th, sg, rfl, ?_, ?_⟩
  · exact (fwd_all c fuel).unary _ th (sg ++ rest) hh hh0 hrh (headStops_segs hsegs hrs hrest)
      (by simp only [List.length_append]; omega)
  · have := (fwd_all c fuel).higher (spineSegs y) (spineHead y) p cap acc sg rest hsegs hrs hrest
      (by simp only [List.length_append]; omega)
    rwa [fold_spine] at this

/-- expression lists (`in (…)`, call arguments, join conditions): a non-empty list, followed by
    something that neither continues an expression nor is a comma (other than one final comma) -/
theorem C07_exprList (c : PCtx) (e : Expr) (es : ExprList) (us : List Grammar.UTok) (ts rest : List Token)
    (fuel : Nat) (hwf : Grammar.okList (.cons e es) = true)
    (hu : Grammar.unparseExprList (.cons e es) = some us)
    (hacc : Grammar.accounts true us ts = true) (hno : NoLparenComma ts = true)
    (hrest : ListStops rest = true) (hfuel : 4 * (ts ++ rest).length + 5 ≤ fuel) :
    pExprList c fuel (ts ++ rest) = ⟨.cons e es, [], rest⟩ :=
  (fwd_all c fuel).exprList e es ts rest hwf ⟨us, hu, hacc, hno⟩ hrest hfuel

/-! ### why `NoLparenComma` is needed: `f(,)` -/

def badCallToks : List Token :=
  [⟨.ident, 0, 1, [102]⟩, ⟨.lparen, 1, 2, []⟩, ⟨.comma, 2, 3, []⟩, ⟨.rparen, 3, 4, []⟩]

def badCall : Expr := .call ⟨[102], ⟨0, 1⟩, false⟩ ⟨1, 2⟩ .nil ⟨3, 4⟩

theorem badCall_ok : (Grammar.okSpine 0 badCall).isSome = true := by decide

theorem badCall_accounted :
    (Grammar.unparseExpr badCall).map (fun us => Grammar.accounts true us badCallToks) = some true := by
  decide

theorem badCall_rejected : (pExpr ⟨4⟩ 20 badCallToks).errs ≠ [] := by decide

/-- **finding.** Without `NoLparenComma` stage 1 is false: `f(,)` is accounted for by the well-formed
    tree `f()` (the specification allows a comma before the `)` of any call), but the parser reports
    an error (it allows the comma only after an argument). -/
theorem C07_expr_unrestricted_false :
    ¬ ∀ (c : PCtx) (e : Expr) (us : List Grammar.UTok) (ts : List Token) (fuel : Nat),
      (Grammar.okSpine 0 e).isSome = true → Grammar.unparseExpr e = some us →
      Grammar.accounts true us ts = true → 4 * ts.length + 4 ≤ fuel → pExpr c fuel ts = ⟨e, [], []⟩ := by
  intro hall
  have hu : Grammar.unparseExpr badCall = some ((Grammar.unparseExpr badCall).getD []) := by rfl
  have h := hall ⟨4⟩ badCall _ badCallToks 20 badCall_ok hu (by decide) (by decide)
  exact badCall_rejected (by rw [h])

/-! ### stage 2: operators and tabular expressions

`Canonical` side conditions (`canonSortTerm`, `canonColumn`, `canonOp`, `canonTabular`, `canonStmt`):
the span field of an *absent* optional part must be `Span.null` — that is what the parser stores,
while `unparse` / `wf…` only ask whether the span is valid, so the tokens do not determine it
(`C07_canon_needed`).  Everything else in the nodes is determined by the tokens. -/

/-- sort terms `x [asc|desc] [nulls first|last]` with their defaults: without `asc`/`desc` the
    term has `asc = false`; without `nulls …` it has `nullsFirst = asc` (both part of `wfSortTerm`) -/
theorem C07_sortTerm (c : PCtx) (t : SortTerm) (us : List Grammar.UTok) (ts rest : List Token) (fuel : Nat)
    (hwf : Grammar.wfSortTerm t = true) (hcan : canonSortTerm t = true)
    (hu : Grammar.unparseSortTerm t = some us) (hacc : Grammar.accounts true us ts = true)
    (hno : NoLparenComma ts = true) (hrest : SortStops rest = true)
    (hfuel : 4 * (ts ++ rest).length + 4 ≤ fuel) :
    pSortTerm c fuel (ts ++ rest) = ⟨some t, [], rest⟩ :=
  pSortTerm_fwd c fuel t ts rest hwf hcan ⟨us, hu, hacc, hno⟩ hrest hfuel

/-- extend / summarize columns `[name =] x` -/
theorem C07_column (c : PCtx) (col : Column) (us : List Grammar.UTok) (ts rest : List Token) (fuel : Nat)
    (hwf : Grammar.wfColumn col = true) (hcan : canonColumn col = true)
    (hu : Grammar.unparseColumn false col = some us) (hacc : Grammar.accounts true us ts = true)
    (hno : NoLparenComma ts = true) (hrest : ColStops rest = true)
    (hfuel : 4 * (ts ++ rest).length + 4 ≤ fuel) :
    pNamedColumn c fuel (ts ++ rest) = ⟨col, [], rest⟩ :=
  pNamedColumn_fwd c fuel col ts rest hwf hcan ⟨us, hu, hacc, hno⟩ hrest hfuel

/-- **C07, stage 2 (operators).** The tokens of a well-formed operator node are `| name …`, and
    `pOperator` on them returns exactly the node, without error, having consumed its whole range —
    all eleven operators: sort terms with their defaults, columns, summarize with and without `by`
    (and the optional comma before `by`), join with optional `kind = flavor`, render with optional
    `with (…)`, take / top row counts. -/
theorem C07_operator (c : PCtx) (o : Op) (us : List Grammar.UTok) (to : List Token) (fuel : Nat)
    (hwf : Grammar.wfOp o = true) (hcan : canonOp o = true)
    (hu : Grammar.unparseOp o = some us) (hacc : Grammar.accounts true us to = true)
    (hno : NoLparenComma to = true) (hfuel : 4 * to.length + 1 ≤ fuel) :
    ∃ pipeTok name optoks, to = pipeTok :: name :: optoks ∧ pipeTok.kind = .pipe ∧ name.kind = .ident ∧
      pOperator c fuel pipeTok.span name optoks = some ⟨o, [], []⟩ := by
  obtain ⟨pipeTok, name, optoks, h1, h2, h3, h4, -⟩ :=
    (tabFwd_all c fuel).operator o to hwf hcan ⟨us, hu, hacc, hno⟩ hfuel
  exact ⟨pipeTok, name, optoks, h1, h2, h3, h4⟩

/-- **C07, stage 2 (tabular expressions)** `source | op | op …`, joins nested to any depth. -/
theorem C07_tabular (c : PCtx) (t : Tabular) (us : List Grammar.UTok) (ts : List Token) (fuel : Nat)
    (hwf : Grammar.wfTabular t = true) (hcan : canonTabular t = true)
    (hu : Grammar.unparseTabular t = some us) (hacc : Grammar.accounts true us ts = true)
    (hno : NoLparenComma ts = true) (hfuel : 4 * ts.length + 1 ≤ fuel) :
    pTabular c fuel ts = ⟨t, [], []⟩ :=
  ((tabFwd_all c fuel).tab t ts hwf hcan ⟨us, hu, hacc, hno⟩ hfuel).1

/-- `let name = x` -/
theorem C07_let (c : PCtx) (kw : Span) (name : Option Ident) (asg : Span) (x : Expr)
    (us : List Grammar.UTok) (ts : List Token) (fuel : Nat)
    (hwf : Grammar.wfStmt (.let_ kw name asg x) = true)
    (hu : Grammar.unparseStmt (.let_ kw name asg x) = some us) (hacc : Grammar.accounts true us ts = true)
    (hno : NoLparenComma ts = true) (hfuel : 4 * ts.length + 4 ≤ fuel) :
    pLet c fuel ts = ⟨some (.let_ kw name asg x), [], []⟩ :=
  pLet_fwd c fuel kw name asg x ts hwf ⟨us, hu, hacc, hno⟩ hfuel

/-! why the `canon…` conditions are needed: `sort by a` as a term whose (absent) direction keyword
has the invalid, non-null span `5:3` -/

def oddTerm : SortTerm := ⟨.qident [⟨[97], ⟨0, 1⟩, false⟩], false, ⟨5, 3⟩, false, .null⟩
def oddTermToks : List Token := [⟨.ident, 0, 1, [97]⟩]

/-- **finding.** Without `canonSortTerm` the sort-term statement is false: the term is well-formed
    and accounted for by the single token `a`, but the parser stores `Span.null`, not `5:3`, for the
    absent direction keyword. -/
theorem C07_canon_needed :
    Grammar.wfSortTerm oddTerm = true ∧
    (Grammar.unparseSortTerm oddTerm).map (fun us => Grammar.accounts true us oddTermToks) = some true ∧
    (pSortTerm ⟨1⟩ 20 oddTermToks).val.map (·.ascDescSpan) = some Span.null ∧
    oddTerm.ascDescSpan ≠ Span.null := by decide

/-! ### stage 3: statements -/

/-- what stage 3 assumes about a statement `st` and its token group `g`: the grammar's
    well-formedness, the canonical form of absent parts, the tokens realise the tree (with
    positions), no comma directly after `(`, and — for a tabular statement — the source table is not
    the unquoted identifier `let` (`notLetSource`) -/
def StmtHyp (st : Stmt) (g : List Token) : Prop :=
  Grammar.wfStmt st = true ∧ canonStmt st = true ∧ notLetSource st = true ∧
    ∃ us, Grammar.unparseStmt st = some us ∧ Grammar.accounts true us g = true ∧ NoLparenComma g = true

/-- one statement -/
theorem C07_statement (c : PCtx) (st : Stmt) (g : List Token) (h : StmtHyp st g) :
    pStatement c g = (some st, [], false) :=
  pStatement_fwd c st g h

/-- **C07 (`_partial`), stage 3.** If the non-empty semicolon-separated token groups of `ts`
    realise, one to one and in order, the well-formed statements `stmts` (empty statements between
    semicolons are allowed anywhere), then `Parse` succeeds without error and returns exactly
    `stmts`.  This is the converse of `C08_accounted_partial`.  Excluded, each by an explicit decidable
    hypothesis: a comma directly after `(` (`NoLparenComma`), non-null spans of absent optional parts
    (`canonStmt`), and a tabular statement whose source table is the unquoted identifier `let`
    (`notLetSource`). -/
theorem C07_parse_partial (srcLen : Nat) (ts : List Token) (stmts : List Stmt)
    (h : Forall₂ StmtHyp stmts (Grammar.splitStatementsToks ts)) :
    parseTokens srcLen ts = (stmts, []) :=
  parseTokens_fwd srcLen ts stmts h

/-- the same for `Parse` on a source text -/
theorem C07_parse_src_partial (src : Bytes) (stmts : List Stmt)
    (h : Forall₂ StmtHyp stmts (Grammar.splitStatementsToks (scan src))) :
    parse src = (stmts, []) :=
  C07_parse_partial src.length (scan src) stmts h

/-! why `notLetSource` is needed: the statement `let | count` (a table named `let`) -/

def letTableToks : List Token :=
  [⟨.ident, 0, 3, Bytes.ofString "let"⟩, ⟨.pipe, 4, 5, []⟩, ⟨.ident, 6, 11, Bytes.ofString "count"⟩]

def letTable : Stmt :=
  .tabular (.mk (some ⟨Bytes.ofString "let", ⟨0, 3⟩, false⟩) (.cons (.count ⟨4, 5⟩ ⟨6, 11⟩) .nil))

/-- **finding.** Without `notLetSource` stage 3 is false: `let | count` is accounted for by the
    well-formed (and canonical) tabular statement with source table `let`, but the parser commits to
    a `let` statement on seeing the identifier `let` and reports errors. -/
theorem C07_parse_unrestricted_false :
    Grammar.wfStmt letTable = true ∧ canonStmt letTable = true ∧
    (Grammar.unparseStmt letTable).map (fun us => Grammar.accounts true us letTableToks) = some true ∧
    NoLparenComma letTableToks = true ∧
    (parseTokens 11 letTableToks).2 ≠ [] := by decide

#print axioms C07_expr
#print axioms C07_expr_all
#print axioms C07_trail
#print axioms C07_higher
#print axioms C07_exprList
#print axioms C07_expr_unrestricted_false
#print axioms C07_sortTerm
#print axioms C07_column
#print axioms C07_operator
#print axioms C07_tabular
#print axioms C07_let
#print axioms C07_canon_needed
#print axioms C07_statement
#print axioms C07_parse_partial
#print axioms C07_parse_src_partial
#print axioms C07_parse_unrestricted_false

end Pql.C07
