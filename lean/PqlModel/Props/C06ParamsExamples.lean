/-
Property C06, parameters — non-vacuity examples and counterexamples for Props/C06Params.lean and
Props/C06ParamsAtomic.lean.
-/
import PqlModel.Props.C06ParamsAtomic
import PqlModel.Lemmas.E2EFinalChecks
namespace Pql.Params.Ex
open Pql Sql CompileOracle Intended Pql.RT Pql.Params

def s (x : String) : Bytes := Bytes.ofString x
def id' (x : String) : Ident := ⟨s x, .zero, false⟩
def num (x : String) : Expr := .lit .zero .number (s x)

/-- `T | where a > p | extend b = p + 1` (hand-built tree) -/
def q1 : Tabular :=
  .mk (some (id' "T"))
    (.cons (.where_ .zero .zero (.binary (.qident [id' "a"]) .zero .gt (.qident [id' "p"])))
      (.cons (.extend .zero .zero [⟨some (id' "b"), .zero, .binary (.qident [id' "p"]) .zero .plus (num "1")⟩]) .nil))

/-- the chunks of `q1` with `p ↦ $1`: the text occurs at the two references, verbatim -/
def out1 (v : Bytes) : List Chunk :=
  [.txt "WITH ", .qid (s "__subquery0"), .txt " AS (", .txt "SELECT * FROM ", .qid (s "T"), .txt " WHERE ",
   .qid (s "a"), .txt " ", .txt ">", .txt " ", .raw v, .txt ")", .txt "\n",
   .txt "SELECT *", .txt ", ", .raw v, .txt " ", .txt "+", .txt " ", .num (s "1"), .txt " AS ", .qid (s "b"),
   .txt " FROM ", .qid (s "__subquery0"), .txt ";"]

theorem run1 : compileChunks [] [(s "p", s "$1")] [.tabular q1] = .ok (out1 (s "$1")) := by rfl

/-- `C06_params_verbatim` instantiated: any other text for `p` gives the same chunks around it -/
example (v : Bytes) : compileChunks [] [(s "p", v)] [.tabular q1] = .ok (out1 v) := by
  have h := C06_params_verbatim [] [(s "p", s "$1")] (fun _ => v) [.tabular q1]
  rw [run1] at h
  exact h

/-- the bytes -/
example : compile [(s "p", s "$1")] (s "T | where a > p | extend b = p + 1") =
    .ok (s "WITH \"__subquery0\" AS (SELECT * FROM \"T\" WHERE \"a\" > $1)\nSELECT *, $1 + 1 AS \"b\" FROM \"__subquery0\";") := by
  decide +kernel

/-- `C06_param_occurrences` instantiated: the raw chunks of `out1` are the parameter's text -/
example : ∀ c ∈ out1 (s "$1"), ∀ v, c = .raw v → ∃ k, (k, v) ∈ [(s "p", s "$1")] :=
  C06_param_occurrences [] _ _ _ run1

/-- `C06_param_reference` instantiated, and its hypothesis `NoLetBinds` is needed: after `let p = 7;` the
    reference writes the let's value, not the parameter's text -/
example : writeExpr ⟨[], paramScope [(s "p", s "$1")], .default⟩ (.qident [id' "p"]) = .ok [.raw (s "$1")] :=
  C06_param_reference [] [(s "p", s "$1")] [] _ none (s "p") (s "$1") .zero .default rfl rfl
    (fun _ h => by cases h)

theorem shadowed_by_let :
    ∃ scope, compileStmts [] [.let_ .zero (some (id' "p")) .zero (num "7")] (paramScope [(s "p", s "$1")]) none =
        .ok (scope, none) ∧
      writeExpr ⟨[], scope, .default⟩ (.qident [id' "p"]) = .ok [.num (s "7")] ∧
      ¬ NoLetBinds (s "p") [.let_ .zero (some (id' "p")) .zero (num "7")] := by
  refine ⟨_, rfl, by rfl, ?_⟩
  intro h
  exact h _ List.mem_cons_self .zero (id' "p") .zero (num "7") rfl rfl

/-- a quoted name is a column, whatever the parameters are (`C06.C06_quoted_not_substituted`) -/
example : writeExpr ⟨[], paramScope [(s "p", s "$1")], .default⟩ (.qident [⟨s "p", .zero, true⟩]) = .ok [.qid (s "p")] := by
  rfl

/-! ### A. parameters that are let values -/

/-- `let p = 1 + 2; let q = 'x';` -/
def plets : List Stmt :=
  [.let_ .zero (some (id' "p")) .zero (.binary (num "1") .zero .plus (num "2")),
   .let_ .zero (some (id' "q")) .zero (.lit .zero .string (s "x"))]

/-- `q ↦ 'x'`, `p ↦ (1 + 2)` — the texts the statement loop stores for `plets` -/
def params : List (Bytes × Bytes) := [(s "q", s "'x'"), (s "p", s "(1 + 2)")]

theorem plets_isLets : IsLets plets := by
  intro st hst
  simp only [plets, List.mem_cons, List.not_mem_nil, or_false] at hst
  rcases hst with rfl | rfl <;> exact ⟨_, _, _, _, rfl⟩

theorem params_are_lets : ParamsAreLets [] params plets :=
  ⟨plets_isLets, _, rfl, by decide +kernel⟩

/-- `T | where a * p > 3 and c == q` -/
def q2 : Tabular :=
  .mk (some (id' "T"))
    (.cons (.where_ .zero .zero
      (.binary (.binary (.binary (.qident [id' "a"]) .zero .star (.qident [id' "p"])) .zero .gt (num "3")) .zero .and_
        (.binary (.qident [id' "c"]) .zero .eq (.qident [id' "q"])))) .nil)

/-- `C06_params_as_lets_bytes` instantiated, both sides computed: `p` keeps its parentheses -/
theorem run2 :
    (compileChunks [] params [.tabular q2]).map renderChunks =
      .ok (s "SELECT * FROM \"T\" WHERE ((\"a\" * (1 + 2)) > 3) AND (coalesce(\"c\" = 'x', FALSE));") ∧
    (compileChunks [] [] (plets ++ [.tabular q2])).map renderChunks =
      .ok (s "SELECT * FROM \"T\" WHERE ((\"a\" * (1 + 2)) > 3) AND (coalesce(\"c\" = 'x', FALSE));") := by
  constructor <;> rfl

example : (compileChunks [] params [.tabular q2]).map renderChunks =
    (compileChunks [] [] (plets ++ [.tabular q2])).map renderChunks :=
  C06_params_as_lets_bytes [] params plets [.tabular q2] params_are_lets

theorem plets_ok : LetValuesOK (plets ++ []) := by
  intro st hst kw nm a x hx
  simp only [plets, List.append_nil, List.mem_cons, List.not_mem_nil, or_false] at hst
  rcases hst with rfl | rfl <;> cases hx <;> exact ⟨by decide +kernel, by decide +kernel⟩

/-- **all hypotheses of `C06_atomic_params_end_to_end` hold** of `params`, `plets`, the empty list of
    further lets and the query `q2` — so its conclusion holds: the text compiled WITH THE PARAMETERS, read
    back and evaluated, is `T | where a * (1 + 2) > 3 and c == ('x')` -/
theorem end_to_end_instance :
    ∃ cs, compileChunks [] params ([] ++ [.tabular q2]) = .ok cs ∧
    ∃ st, readSql (renderChunks cs) = some st ∧
      ∀ db, JoinFull.RectDB db →
        evalStatement db st = Rel.interp [] db (substTabular (letsEnv (plets ++ []) []) q2) := by
  have hc : ∃ cs, compileChunks [] params ([] ++ [.tabular q2]) = .ok cs := by
    cases h : compileChunks [] params ([] ++ [.tabular q2]) with
    | ok cs => exact ⟨cs, rfl⟩
    | error e =>
      have := run2.1
      simp only [List.nil_append] at h
      rw [h] at this
      cases this
  obtain ⟨cs, hc⟩ := hc
  obtain ⟨_, _, _, st, _, hr, _, _, _, hev⟩ :=
    C06_atomic_params_end_to_end [] params plets [] q2 cs params_are_lets hc (fun _ h => by cases h) plets_ok
      (by decide +kernel) (Or.inr (by decide +kernel)) (E2EFinal.tabNamed_of_B q2 (by decide +kernel))
      (by decide +kernel) (by decide +kernel) (by decide +kernel) (by decide +kernel)
  exact ⟨cs, hc, st, hr, fun db hdb => (hev db hdb).1⟩

/-- `ParamsAreLets` is needed (non-atomic text): with `p ↦ 1 + 2` (no parentheses) the bytes differ from
    those of the let program — this is `C06.C06_param_regrouped` at statement level -/
theorem not_lets_counterexample :
    (compileChunks [] [(s "q", s "'x'"), (s "p", s "1 + 2")] [.tabular q2]).map renderChunks =
      .ok (s "SELECT * FROM \"T\" WHERE ((\"a\" * 1 + 2) > 3) AND (coalesce(\"c\" = 'x', FALSE));") ∧
    (compileChunks [] [(s "q", s "'x'"), (s "p", s "1 + 2")] [.tabular q2]).map renderChunks ≠
      (compileChunks [] [] (plets ++ [.tabular q2])).map renderChunks := by
  have h1 : (compileChunks [] [(s "q", s "'x'"), (s "p", s "1 + 2")] [.tabular q2]).map renderChunks =
      .ok (s "SELECT * FROM \"T\" WHERE ((\"a\" * 1 + 2) > 3) AND (coalesce(\"c\" = 'x', FALSE));") := by rfl
  refine ⟨h1, ?_⟩
  rw [h1, run2.2]
  intro h
  injection h with h
  revert h
  decide +kernel

/-! ### B. expression level -/

/-- the texts `(1 + 2)`, `'x'`, `42`, `"col"` are atomic -/
theorem atomic_paren : AtomicAs (s "(1 + 2)") (.binary (num "1") .zero .plus (num "2")) :=
  atomicAs_of_let [] _ _ _ (by decide +kernel) (by decide +kernel) rfl (by decide +kernel)

theorem atomic_str : AtomicAs (s "'x'") (.lit .zero .string (s "x")) :=
  atomicAs_of_let [] _ _ _ (by decide +kernel) (by decide +kernel) rfl (by decide +kernel)

theorem atomic_num : AtomicAs (s "42") (num "42") :=
  atomicAs_of_let [] _ _ _ (by decide +kernel) (by decide +kernel) rfl (by decide +kernel)

/-- a column reference — which no let value can be (let mode rejects it) -/
theorem atomic_col : AtomicAs (s "\"col\"") (.qident [⟨s "col", .zero, true⟩]) := by
  intro want hw
  have g : GoodS ⟨[], [], .default⟩ [] (.qident [⟨s "col", .zero, true⟩]) :=
    goodS_all ⟨[], [], .default⟩ [] (scopeRT_nil _) (fun h => by cases h) _ (by decide +kernel) (by decide +kernel)
  have ht : toksOf [.raw (s "\"col\"")] = toksOf (wrapTight (.qident [⟨s "col", .zero, true⟩]) [.qid (s "col")]) := by
    decide +kernel
  rw [ht]
  exact g.tight (by rfl) (by rw [substExpr_nil]; exact hw)

/-- the scope of `Compile` with `p ↦ (1 + 2)`, `c ↦ "col"` -/
theorem scope_ex : ScopeParamsEnv [] (paramScope [(s "p", s "(1 + 2)"), (s "c", s "\"col\"")])
    [(s "p", .binary (num "1") .zero .plus (num "2")), (s "c", .qident [⟨s "col", .zero, true⟩])] :=
  scopeParams_of_params [] [(s "p", s "(1 + 2)", _), (s "c", s "\"col\"", _)] (by
    intro p hp
    simp only [List.mem_cons, List.not_mem_nil, or_false] at hp
    rcases hp with rfl | rfl
    · exact atomic_paren
    · exact atomic_col)

/-- `C06_parse_roundtrip_params` instantiated: `-p * c[1]` is written `-(1 + 2) * ("col"[1])` and read as
    `(-(1 + 2)) * ("col"[1])` -/
example : ∃ s', normS s' = normS (.bin "*" (.neg (.bin "+" (.num (s "1")) (.num (s "2")))) (.index (.col [s "col"]) (.num (s "1")))) ∧
    ∃ fuel, ∀ fuel', fuel ≤ fuel' →
      Sql.pExprS fuel' 0 (toksOf [.txt "-", .raw (s "(1 + 2)"), .txt " ", .txt "*", .txt " ", .txt "(",
        .raw (s "\"col\""), .txt "[", .num (s "1"), .txt "]", .txt ")"] ++ []) = some (s', []) :=
  C06_parse_roundtrip_params ⟨[], _, .default⟩ _
    (.binary (.unary .zero .minus (.qident [id' "p"])) .zero .star
      (.index (.qident [id' "c"]) .zero (num "1") .zero)) _ _ [] scope_ex (fun h => by cases h)
    (by decide +kernel) (by decide +kernel) (by rfl) (by rfl) C01.Stops.nil

/-- `AtomicAs` is needed: `p ↦ 1 + 2` is not atomic as `1 + 2` — `C06.C06_param_regrouped`: the writer's output
    for `p * 3` is read as `1 + (2 * 3)` -/
theorem not_atomic : ¬ AtomicAs (s "1 + 2") (.binary (num "1") .zero .plus (num "2")) := by
  intro h
  obtain ⟨s', _, N, hN⟩ := h _ rfl [] trivial
  have h1 := hN (max N 10) (Nat.le_max_left _ _)
  have h2 : Sql.pAtomS (max N 10) (toksOf [.raw (s "1 + 2")] ++ []) = some (.num (s "1"), [.sym "+", .num (s "2")]) := by
    have : toksOf [.raw (s "1 + 2")] ++ [] = [.num (s "1"), .sym "+", .num (s "2")] := by decide +kernel
    rw [this]
    have : max N 10 = (max N 10 - 1) + 1 := by omega
    rw [this]
    rfl
  rw [h2] at h1
  cases h1

end Pql.Params.Ex
