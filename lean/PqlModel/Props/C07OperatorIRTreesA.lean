/-
Property C07/C08/C10/C13, tie by translation: the EXPECTED statement trees of the statement and operator
level of parser/parser.go (the operator methods countOperator … renderOperator and their column helpers).

`harness/extract_parse.go` regenerates `Facts.parseIR` from the Go source on every run;
`Model/ParseIRSyntax.lean` decodes it.  Each `…_ir` theorem says that what is regenerated for one Go
function decodes to the tree written here, which is the one the semantic theorems of
Props/C07OperatorIR*.lean are about: an edit of the Go function changes the regenerated IR and that
function's `_ir` theorem stops building.  (The trees were printed from the decoder once and are kept
as text; nothing here is regenerated.)
-/
import PqlModel.Model.ParseIR
namespace Pql.OpIR
open Pql

def countOperatorBody : List IStmt :=
  [.ret
     [.withFld
        (.withFld (.new "CountOperator") "Pipe" (.fld "Span" (.var "pipe")))
        "Keyword"
        (.fld "Span" (.var "keyword")),
      .nil]]

theorem countOperator_ir : unitOf "countOperator" = some ⟨[("p", "*parser"), ("pipe", "Token"), ("keyword", "Token")], ["*CountOperator", "error"], countOperatorBody⟩ := by rfl


def whereOperatorBody : List IStmt :=
  [.call "p" "expr" [.def_ "x", .def_ "err"] [],
   .assign (.set "err") (.opaque (.var "err")),
   .ret
     [.withFld
        (.withFld
          (.withFld (.new "WhereOperator") "Pipe" (.fld "Span" (.var "pipe")))
          "Keyword"
          (.fld "Span" (.var "keyword")))
        "Predicate"
        (.var "x"),
      .var "err"]]

theorem whereOperator_ir : unitOf "whereOperator" = some ⟨[("p", "*parser"), ("pipe", "Token"), ("keyword", "Token")], ["*WhereOperator", "error"], whereOperatorBody⟩ := by rfl


def takeOperatorBody : List IStmt :=
  [.assign
     (.def_ "op")
     (.withFld
       (.withFld (.new "TakeOperator") "Pipe" (.fld "Span" (.var "pipe")))
       "Keyword"
       (.fld "Span" (.var "keyword"))),
   .varDecl "err" "error",
   .call "p" "rowCount" [.fset "op" "RowCount", .set "err"] [],
   .ite
     (.ne (.var "err") (.nil))
     [.ret [.var "op", .opaque (.var "err")]]
     [],
   .ret [.var "op", .nil]]

theorem takeOperator_ir : unitOf "takeOperator" = some ⟨[("p", "*parser"), ("pipe", "Token"), ("keyword", "Token")], ["*TakeOperator", "error"], takeOperatorBody⟩ := by rfl


def asOperatorBody : List IStmt :=
  [.assign
     (.def_ "op")
     (.withFld
       (.withFld (.new "AsOperator") "Pipe" (.fld "Span" (.var "pipe")))
       "Keyword"
       (.fld "Span" (.var "keyword"))),
   .varDecl "err" "error",
   .call "p" "ident" [.fset "op" "Name", .set "err"] [],
   .ret [.var "op", .opaque (.var "err")]]

theorem asOperator_ir : unitOf "asOperator" = some ⟨[("p", "*parser"), ("pipe", "Token"), ("keyword", "Token")], ["*AsOperator", "error"], asOperatorBody⟩ := by rfl


def sortOperatorBody : List IStmt :=
  [.call "p" "next" [.def_ "by", .blank] [],
   .ite
     (.ne (.fld "Kind" (.var "by")) (.kind "TokenBy"))
     [.assign
        (.def_ "op")
        (.withFld
          (.withFld (.new "SortOperator") "Pipe" (.fld "Span" (.var "pipe")))
          "Keyword"
          (.fld "Span" (.var "keyword"))),
      .assign (.def_ "err") (.perr "p" false (.fld "Span" (.var "by"))),
      .ret [.var "op", .var "err"]]
     [],
   .assign
     (.def_ "op")
     (.withFld
       (.withFld (.new "SortOperator") "Pipe" (.fld "Span" (.var "pipe")))
       "Keyword"
       (.newSpan
         (.fld "Start" (.fld "Span" (.var "keyword")))
         (.fld "End" (.fld "Span" (.var "by"))))),
   .loop
     [.call "p" "sortTerm" [.def_ "term", .def_ "err"] [],
      .ite
        (.ne (.var "term") (.nil))
        [.assign
           (.fset "op" "Terms")
           (.append (.fld "Terms" (.var "op")) (.var "term"))]
        [],
      .ite
        (.ne (.var "err") (.nil))
        [.ret [.var "op", .opaque (.var "err")]]
        [],
      .scope
        [.call "p" "next" [.def_ "tok", .blank] [],
         .ite
           (.ne (.fld "Kind" (.var "tok")) (.kind "TokenComma"))
           [.prev "p", .ret [.var "op", .nil]]
           []]]]

theorem sortOperator_ir : unitOf "sortOperator" = some ⟨[("p", "*parser"), ("pipe", "Token"), ("keyword", "Token")], ["*SortOperator", "error"], sortOperatorBody⟩ := by rfl


def topOperatorBody : List IStmt :=
  [.assign
     (.def_ "op")
     (.withFld
       (.withFld
         (.withFld (.new "TopOperator") "Pipe" (.fld "Span" (.var "pipe")))
         "Keyword"
         (.fld "Span" (.var "keyword")))
       "By"
       (.nullSpan)),
   .varDecl "err" "error",
   .call "p" "rowCount" [.fset "op" "RowCount", .set "err"] [],
   .ite
     (.ne (.var "err") (.nil))
     [.ret [.var "op", .opaque (.var "err")]]
     [],
   .call "p" "next" [.def_ "tok", .blank] [],
   .ite
     (.ne (.fld "Kind" (.var "tok")) (.kind "TokenBy"))
     [.prev "p",
      .ret [.var "op", .perr "p" false (.fld "Span" (.var "tok"))]]
     [],
   .assign (.fset "op" "By") (.fld "Span" (.var "tok")),
   .call "p" "sortTerm" [.fset "op" "Col", .set "err"] [],
   .ret [.var "op", .opaque (.var "err")]]

theorem topOperator_ir : unitOf "topOperator" = some ⟨[("p", "*parser"), ("pipe", "Token"), ("keyword", "Token")], ["*TopOperator", "error"], topOperatorBody⟩ := by rfl


def projectOperatorBody : List IStmt :=
  [.assign
     (.def_ "op")
     (.withFld
       (.withFld (.new "ProjectOperator") "Pipe" (.fld "Span" (.var "pipe")))
       "Keyword"
       (.fld "Span" (.var "keyword"))),
   .loop
     [.call "p" "ident" [.def_ "colName", .def_ "err"] [],
      .ite
        (.ne (.var "err") (.nil))
        [.ret [.var "op", .opaque (.var "err")]]
        [],
      .assign
        (.def_ "col")
        (.withFld
          (.withFld (.new "ProjectColumn") "Name" (.var "colName"))
          "Assign"
          (.nullSpan)),
      .assign
        (.fset "op" "Cols")
        (.append (.fld "Cols" (.var "op")) (.var "col")),
      .call "p" "next" [.def_ "sep", .def_ "ok"] [],
      .ite
        (.not (.truth (.var "ok")))
        [.ret [.var "op", .nil]]
        [],
      .ite
        (.eq (.fld "Kind" (.var "sep")) (.kind "TokenComma"))
        [.cont]
        [.ite
           (.eq (.fld "Kind" (.var "sep")) (.kind "TokenAssign"))
           [.assign (.fset "col" "Assign") (.fld "Span" (.var "sep")),
            .call "p" "expr" [.fset "col" "X", .set "err"] [],
            .ite
              (.ne (.var "err") (.nil))
              [.ret [.var "op", .opaque (.var "err")]]
              [],
            .call "p" "next" [.set "sep", .set "ok"] [],
            .ite
              (.not (.truth (.var "ok")))
              [.ret [.var "op", .nil]]
              [],
            .ite
              (.ne (.fld "Kind" (.var "sep")) (.kind "TokenComma"))
              [.ret [.var "op", .errNoPos]]
              []]
           [.prev "p", .ret [.var "op", .nil]]]]]

theorem projectOperator_ir : unitOf "projectOperator" = some ⟨[("p", "*parser"), ("pipe", "Token"), ("keyword", "Token")], ["*ProjectOperator", "error"], projectOperatorBody⟩ := by rfl


def extendColumnBody : List IStmt :=
  [.assign (.def_ "restorePos") (.pos "p"),
   .assign (.def_ "col") (.withFld (.new "ExtendColumn") "Assign" (.nullSpan)),
   .varDecl "err" "error",
   .call "p" "ident" [.fset "col" "Name", .set "err"] [],
   .ite
     (.eq (.var "err") (.nil))
     [.scope
        [.call "p" "next" [.def_ "assign", .blank] [],
         .ite
           (.eq (.fld "Kind" (.var "assign")) (.kind "TokenAssign"))
           [.assign (.fset "col" "Assign") (.fld "Span" (.var "assign"))]
           [.assign (.fset "col" "Name") (.nil),
            .assign (.setPos "p") (.var "restorePos")]]]
     [.ite
        (.not (.isNF (.var "err")))
        [.assign (.fset "col" "X") (.asQual (.fld "Name" (.var "col"))),
         .assign (.fset "col" "Name") (.nil),
         .ret [.var "col", .opaque (.var "err")]]
        []],
   .call "p" "expr" [.fset "col" "X", .set "err"] [],
   .ite
     (.ne (.fld "Name" (.var "col")) (.nil))
     [.assign (.set "err") (.opaque (.var "err"))]
     [],
   .ret [.var "col", .var "err"]]

theorem extendColumn_ir : unitOf "extendColumn" = some ⟨[("p", "*parser")], ["*ExtendColumn", "error"], extendColumnBody⟩ := by rfl


def extendOperatorBody : List IStmt :=
  [.assign
     (.def_ "op")
     (.withFld
       (.withFld (.new "ExtendOperator") "Pipe" (.fld "Span" (.var "pipe")))
       "Keyword"
       (.fld "Span" (.var "keyword"))),
   .loop
     [.call "p" "extendColumn" [.def_ "col", .def_ "err"] [],
      .ite
        (.ne (.var "err") (.nil))
        [.ret [.var "op", .opaque (.var "err")]]
        [],
      .assign
        (.fset "op" "Cols")
        (.append (.fld "Cols" (.var "op")) (.var "col")),
      .call "p" "next" [.def_ "sep", .def_ "ok"] [],
      .ite
        (.not (.truth (.var "ok")))
        [.ret [.var "op", .nil]]
        [],
      .ite
        (.ne (.fld "Kind" (.var "sep")) (.kind "TokenComma"))
        [.prev "p", .ret [.var "op", .nil]]
        []]]

theorem extendOperator_ir : unitOf "extendOperator" = some ⟨[("p", "*parser"), ("pipe", "Token"), ("keyword", "Token")], ["*ExtendOperator", "error"], extendOperatorBody⟩ := by rfl


def summarizeColumnBody : List IStmt :=
  [.assign (.def_ "restorePos") (.pos "p"),
   .assign
     (.def_ "col")
     (.withFld (.new "SummarizeColumn") "Assign" (.nullSpan)),
   .varDecl "err" "error",
   .call "p" "ident" [.fset "col" "Name", .set "err"] [],
   .ite
     (.eq (.var "err") (.nil))
     [.scope
        [.call "p" "next" [.def_ "assign", .blank] [],
         .ite
           (.eq (.fld "Kind" (.var "assign")) (.kind "TokenAssign"))
           [.assign (.fset "col" "Assign") (.fld "Span" (.var "assign"))]
           [.assign (.fset "col" "Name") (.nil),
            .assign (.setPos "p") (.var "restorePos")]]]
     [.ite
        (.not (.isNF (.var "err")))
        [.assign (.fset "col" "X") (.asQual (.fld "Name" (.var "col"))),
         .assign (.fset "col" "Name") (.nil),
         .ret [.var "col", .opaque (.var "err")]]
        []],
   .call "p" "expr" [.fset "col" "X", .set "err"] [],
   .ite
     (.ne (.fld "Name" (.var "col")) (.nil))
     [.assign (.set "err") (.opaque (.var "err"))]
     [],
   .ret [.var "col", .var "err"]]

theorem summarizeColumn_ir : unitOf "summarizeColumn" = some ⟨[("p", "*parser")], ["*SummarizeColumn", "error"], summarizeColumnBody⟩ := by rfl


def summarizeOperatorBody : List IStmt :=
  [.assign
     (.def_ "op")
     (.withFld
       (.withFld
         (.withFld (.new "SummarizeOperator") "Pipe" (.fld "Span" (.var "pipe")))
         "Keyword"
         (.fld "Span" (.var "keyword")))
       "By"
       (.nullSpan)),
   .varDecl "danglingComma" "*Token",
   .loop
     [.call "p" "summarizeColumn" [.def_ "col", .def_ "err"] [],
      .ite (.isNF (.var "err")) [.brk] [],
      .assign (.set "danglingComma") (.nil),
      .ite
        (.ne (.var "col") (.nil))
        [.assign
           (.fset "op" "Cols")
           (.append (.fld "Cols" (.var "op")) (.var "col"))]
        [],
      .ite
        (.ne (.var "err") (.nil))
        [.ret [.var "op", .opaque (.var "err")]]
        [],
      .call "p" "next" [.def_ "sep", .def_ "ok"] [],
      .ite
        (.not (.truth (.var "ok")))
        [.ret [.var "op", .nil]]
        [],
      .ite
        (.ne (.fld "Kind" (.var "sep")) (.kind "TokenComma"))
        [.prev "p", .brk]
        [],
      .assign (.set "danglingComma") (.addr "sep")],
   .call "p" "next" [.def_ "sep", .def_ "ok"] [],
   .ite
     (.not (.truth (.var "ok")))
     [.ite
        (.eq (.len (.fld "Cols" (.var "op"))) (.int 0))
        [.ret [.var "op", .perr "p" false (.fld "Span" (.var "sep"))]]
        [],
      .ite
        (.ne (.var "danglingComma") (.nil))
        [.ret [.var "op", .perr "p" false (.fld "Span" (.var "danglingComma"))]]
        [],
      .ret [.var "op", .nil]]
     [],
   .ite
     (.ne (.fld "Kind" (.var "sep")) (.kind "TokenBy"))
     [.prev "p",
      .ite
        (.eq (.len (.fld "Cols" (.var "op"))) (.int 0))
        [.ret [.var "op", .perr "p" false (.fld "Span" (.var "sep"))]]
        [],
      .ite
        (.ne (.var "danglingComma") (.nil))
        [.ret [.var "op", .perr "p" false (.fld "Span" (.var "danglingComma"))]]
        [],
      .ret [.var "op", .nil]]
     [],
   .assign (.fset "op" "By") (.fld "Span" (.var "sep")),
   .loop
     [.call "p" "summarizeColumn" [.def_ "col", .def_ "err"] [],
      .ite
        (.isNF (.var "err"))
        [.ret [.var "op", .opaque (.var "err")]]
        [],
      .ite
        (.ne (.var "col") (.nil))
        [.assign
           (.fset "op" "GroupBy")
           (.append (.fld "GroupBy" (.var "op")) (.var "col"))]
        [],
      .ite
        (.ne (.var "err") (.nil))
        [.ret [.var "op", .opaque (.var "err")]]
        [],
      .call "p" "next" [.def_ "sep", .def_ "ok"] [],
      .ite
        (.not (.truth (.var "ok")))
        [.ret [.var "op", .nil]]
        [],
      .ite
        (.ne (.fld "Kind" (.var "sep")) (.kind "TokenComma"))
        [.prev "p", .ret [.var "op", .nil]]
        []]]

theorem summarizeOperator_ir : unitOf "summarizeOperator" = some ⟨[("p", "*parser"), ("pipe", "Token"), ("keyword", "Token")], ["*SummarizeOperator", "error"], summarizeOperatorBody⟩ := by rfl


def renderPropertyBody : List IStmt :=
  [.assign
     (.def_ "prop")
     (.withFld (.new "RenderProperty") "Assign" (.nullSpan)),
   .call "p" "ident" [.def_ "name", .def_ "err"] [],
   .ite
     (.ne (.var "err") (.nil))
     [.ret [.nil, .var "err"]]
     [],
   .assign (.fset "prop" "Name") (.var "name"),
   .call "p" "next" [.def_ "tok", .blank] [],
   .ite
     (.ne (.fld "Kind" (.var "tok")) (.kind "TokenAssign"))
     [.ret [.nil, .perr "p" false (.fld "Span" (.var "tok"))]]
     [],
   .assign (.fset "prop" "Assign") (.fld "Span" (.var "tok")),
   .call "p" "expr" [.def_ "value", .set "err"] [],
   .ite
     (.ne (.var "err") (.nil))
     [.ret [.nil, .var "err"]]
     [],
   .assign (.fset "prop" "Value") (.var "value"),
   .ret [.var "prop", .nil]]

theorem renderProperty_ir : unitOf "renderProperty" = some ⟨[("p", "*parser")], ["*RenderProperty", "error"], renderPropertyBody⟩ := by rfl


def renderOperatorBody : List IStmt :=
  [.assign
     (.def_ "op")
     (.withFld
       (.withFld
         (.withFld
           (.withFld
             (.withFld (.new "RenderOperator") "Pipe" (.fld "Span" (.var "pipe")))
             "Keyword"
             (.fld "Span" (.var "keyword")))
           "With"
           (.nullSpan))
         "Lparen"
         (.nullSpan))
       "Rparen"
       (.nullSpan)),
   .call "p" "ident" [.def_ "chartType", .def_ "err"] [],
   .ite
     (.ne (.var "err") (.nil))
     [.ret [.var "op", .perr "p" false (.fld "Span" (.var "keyword"))]]
     [],
   .assign (.fset "op" "ChartType") (.var "chartType"),
   .call "p" "next" [.def_ "tok", .def_ "ok"] [],
   .ite
     (.not (.truth (.var "ok")))
     [.ret [.var "op", .nil]]
     [],
   .ite
     (.or
       (.ne (.fld "Kind" (.var "tok")) (.kind "TokenIdentifier"))
       (.ne (.fld "Value" (.var "tok")) (.str "with")))
     [.prev "p", .ret [.var "op", .nil]]
     [],
   .assign (.fset "op" "With") (.fld "Span" (.var "tok")),
   .call "p" "next" [.set "tok", .blank] [],
   .ite
     (.ne (.fld "Kind" (.var "tok")) (.kind "TokenLParen"))
     [.ret [.var "op", .perr "p" false (.fld "Span" (.var "tok"))]]
     [],
   .assign (.fset "op" "Lparen") (.fld "Span" (.var "tok")),
   .loop
     [.call "p" "renderProperty" [.def_ "prop", .def_ "err"] [],
      .ite
        (.ne (.var "err") (.nil))
        [.ret [.var "op", .opaque (.var "err")]]
        [],
      .ite
        (.ne (.var "prop") (.nil))
        [.assign
           (.fset "op" "Props")
           (.append (.fld "Props" (.var "op")) (.var "prop"))]
        [],
      .call "p" "next" [.set "tok", .blank] [],
      .ite
        (.eq (.fld "Kind" (.var "tok")) (.kind "TokenRParen"))
        [.assign (.fset "op" "Rparen") (.fld "Span" (.var "tok")), .brk]
        [],
      .ite
        (.ne (.fld "Kind" (.var "tok")) (.kind "TokenComma"))
        [.ret [.var "op", .perr "p" false (.fld "Span" (.var "tok"))]]
        []],
   .ret [.var "op", .nil]]

theorem renderOperator_ir : unitOf "renderOperator" = some ⟨[("p", "*parser"), ("pipe", "Token"), ("keyword", "Token")], ["*RenderOperator", "error"], renderOperatorBody⟩ := by rfl

end Pql.OpIR
