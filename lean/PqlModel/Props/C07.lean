/-
Property C07 — the parser builds the tree the documented grammar dictates.

The full forward theorem (`C07_parse_unparse`) is the big parser induction of DESIGN §6 and
lives in `Props/C07Full.lean` when proved.  This file holds the table-level part: the
precedence table the model parser uses is the regenerated one, and it has the documented
shape (or < and < comparisons < + - < * / %; `in` at comparison level).
-/
import PqlModel.Model.Parse
import PqlModel.Spec.Grammar
namespace Pql.C07
open Pql

/-- **C07 (precedence table).** The regenerated `operatorPrecedence` gives the documented
    levels to all sixteen binary operators and `in`, and -1 to every other token kind. -/
theorem C07_precedence_table :
    (TokKind.all.map fun k => (k, precOf k)) =
      [(.ident, -1), (.qident, -1), (.number, -1), (.string, -1), (.and_, 1), (.or_, 0), (.pipe, -1),
       (.dot, -1), (.comma, -1), (.plus, 3), (.minus, 3), (.star, 4), (.slash, 4), (.mod, 4),
       (.assign, -1), (.eq, 2), (.ne, 2), (.lt, 2), (.le, 2), (.gt, 2), (.ge, 2), (.cieq, 2), (.cine, 2),
       (.lparen, -1), (.rparen, -1), (.lbracket, -1), (.rbracket, -1), (.in_, 2), (.by_, -1),
       (.semi, -1), (.error, -1)] := by decide

/-- the spec's precedence function is the same table -/
theorem C07_spec_prec_eq_model (k : TokKind) : Grammar.precOf k = precOf k := by
  cases k <;> decide

/-- **C07 (join kinds).** the join kinds the parser accepts are exactly the documented three -/
theorem C07_join_kinds : Facts.joinTypes = ["inner", "innerunique", "leftouter"] := by decide

/-- **C07 (keywords).** -/
theorem C07_keywords :
    Facts.keywords = [("and", "TokenAnd"), ("by", "TokenBy"), ("in", "TokenIn"), ("or", "TokenOr")] := by decide

end Pql.C07
