/-
Property C11 (and C12), tie by translation: the explicit-stack loop of `Walk` (parser/ast.go).

`harness/extract_ast.go` regenerates the body of `Walk` as an IR on every run (`Facts.astIR`, unit
"Walk"): `stack := []Node{n}`, the loop `for len(stack) > 0`, the pop (`curr := stack[len(stack)-1]`,
`stack = stack[:len(stack)-1]`), the type switch with one case per node type — `visit(n)` or
`if visit(n) { pushes }` — and the default `panic`.  The pushes of a case are the statement `pushTable`,
interpreted from the ALREADY regenerated per-type tables `Facts.walkCases` / `Facts.walkLoops`
(`tablePushes`, Model/AstIR.lean); the translator reads them a second time, strictly, and
`C11_walk_tables_agree` compares the two readings.

  `C11_walk_ir`          (interpWalk v n).trace = some (walkV v n)        every tree, every visitor
  `C11_walk_ir_model`    (interpWalk (fun i _ => decide i) n).trace = some (walk decide n)

`walkV` is the model's `walk` with a visitor that may look at the node as well as at the number of the
call (`walkLoopV_decide`: it is `walkLoop` when the visitor only looks at the number); the Go stack
grows at its end, the model's at its head (`stack.reverse`).
-/
import PqlModel.Props.C11WalkIRPushes
import PqlModel.Props.C10SpanIRNodes
namespace Pql.AstIR
open Pql
set_option linter.unusedSimpArgs false

/-! ### the regenerated loop, decoded -/

/-- how each case of the type switch calls the visitor, in source order -/
def expectedForms : List (String × String) :=
  [("Ident", "visit"), ("QualifiedIdent", "ifvisit"), ("TabularExpr", "ifvisit"), ("TableRef", "ifvisit"),
   ("CountOperator", "visit"), ("WhereOperator", "ifvisit"), ("SortOperator", "ifvisit"), ("SortTerm", "ifvisit"),
   ("TakeOperator", "ifvisit"), ("TopOperator", "ifvisit"), ("ProjectOperator", "ifvisit"),
   ("ProjectColumn", "ifvisit"), ("ExtendOperator", "ifvisit"), ("ExtendColumn", "ifvisit"),
   ("SummarizeOperator", "ifvisit"), ("SummarizeColumn", "ifvisit"), ("JoinOperator", "ifvisit"),
   ("AsOperator", "ifvisit"), ("BinaryExpr", "ifvisit"), ("UnaryExpr", "ifvisit"), ("InExpr", "ifvisit"),
   ("ParenExpr", "ifvisit"), ("BasicLit", "visit"), ("CallExpr", "ifvisit"), ("IndexExpr", "ifvisit"),
   ("LetStatement", "ifvisit"), ("RenderOperator", "ifvisit")]

theorem C11_walk_forms : Facts.astWalkCases.map (fun c => (c.1, c.2.1)) = expectedForms := by decide

/-- the two readings of the push statements (harness/extract.go `walkCases`, harness/extract_ast.go)
    agree: every case has the pushes `Facts.walkCases` lists for its type, there are as many cases as
    table rows, and the element-wise loops are the same -/
theorem C11_walk_tables_agree :
    (Facts.astWalkCases.all fun c => Facts.walkCases.find? (·.1 == c.1) == some (c.1, c.2.2)) = true ∧
      Facts.astWalkCases.length = Facts.walkCases.length ∧ Facts.astWalkLoops = Facts.walkLoops := by decide

def visitCall : Ex := .callVar "visit" [.var "n"]

def caseBody (c : String × String) : List St :=
  if c.2 == "visit" then [.expr visitCall] else [.ite visitCall [.pushTable "stack" "n" c.1] []]

def mkCase (c : String × String) : St := .case_ c.1 (caseBody c)

def stackLen : Ex := .op2 "sub" (.len (.var "stack")) (.int "1")

def loopBody : List St :=
  [.def_ "curr" (.idx (.var "stack") stackLen), .set "stack" (.sliceTo (.var "stack") stackLen),
   .typeSwitch "n" (.var "curr") (expectedForms.map mkCase) [.panic_]]

def loopCond : Ex := .op2 "gt" (.len (.var "stack")) (.int "0")

def walkIR : List St := [.def_ "stack" (.nodesLit [.var "n"]), .while_ loopCond loopBody]

set_option maxRecDepth 20000 in
theorem walk_dec : (irOf "Walk").map (fun x => (x.1, decode x.2)) = some (["n", "visit"], some walkIR) := by rfl

/-! ### the model, with a visitor that may look at the node -/

def walkLoopV (v : Nat → Node → Bool) : Nat → Nat → List Node → List WalkEvent
  | 0, _, _ => [.panic]
  | _, _, [] => []
  | fuel + 1, i, n :: stack =>
    match n with
    | .expr .nil => [.panic]
    | _ =>
      if v i n then
        match n.children with
        | some kids => eventOf n :: walkLoopV v fuel (i + 1) (kids ++ stack)
        | none => [eventOf n, .panic]
      else eventOf n :: walkLoopV v fuel (i + 1) stack

/-- `Walk(n, visit)` -/
def walkV (v : Nat → Node → Bool) (n : Node) : List WalkEvent := walkLoopV v (n.size + 1) 0 [n]

theorem walkLoopV_cons (v : Nat → Node → Bool) (fuel i : Nat) (n : Node) (stack : List Node) (hn : n ≠ .expr .nil) :
    walkLoopV v (fuel + 1) i (n :: stack) =
      if v i n then
        match n.children with
        | some kids => eventOf n :: walkLoopV v fuel (i + 1) (kids ++ stack)
        | none => [eventOf n, .panic]
      else eventOf n :: walkLoopV v fuel (i + 1) stack := by
  rw [walkLoopV]
  · exact hn

/-- a visitor that only looks at the number of the call: the model's `walkLoop` -/
theorem walkLoopV_decide (decide : Nat → Bool) : ∀ (fuel i : Nat) (stack : List Node),
    walkLoopV (fun i _ => decide i) fuel i stack = walkLoop decide fuel i stack
  | 0, _, _ => by simp [walkLoopV, walkLoop]
  | fuel + 1, i, [] => by simp [walkLoopV, walkLoop]
  | fuel + 1, i, n :: stack => by
    by_cases hn : n = .expr .nil
    · subst hn; simp [walkLoopV, walkLoop]
    · rw [walkLoopV_cons _ _ _ _ _ hn, walkLoop_cons _ _ _ _ _ hn]
      simp only [walkLoopV_decide decide fuel]
      cases decide i
      · rfl
      · cases n.children <;> rfl

theorem walkV_decide (decide : Nat → Bool) (n : Node) : walkV (fun i _ => decide i) n = walk decide n :=
  walkLoopV_decide decide _ _ _


def env0 (root : Val) (st : List GNode) : Env := [("stack", .nodes st), ("n", root), ("visit", .fn)]

theorem pop1 (sem : Sem) (root : Val) (st : List GNode) (g : GNode) :
    exec sem (.def_ "curr" (.idx (.var "stack") stackLen)) (env0 root (st ++ [g])) =
      pure (.next, ("curr", .node g) :: env0 root (st ++ [g])) := by
  have h0 : ¬ ((st.length : Int) < 0) := by omega
  ir_simp [env0, stackLen, h0]

theorem pop2 (sem : Sem) (root : Val) (st : List GNode) (g : GNode) :
    exec sem (.set "stack" (.sliceTo (.var "stack") stackLen)) (("curr", .node g) :: env0 root (st ++ [g])) =
      pure (.next, ("curr", .node g) :: env0 root st) := by
  have h0 : ¬ ((st.length : Int) < 0) := by omega
  have h1 : (st.length : Int) ≤ st.length + 1 := by omega
  ir_simp [env0, stackLen, h0, h1]

def World.visit (w : World) (x : Node) : World := ⟨w.calls + 1, w.events ++ [eventOf x]⟩

theorem visit_eval (v : Nat → Node → Bool) (F : Nat) (x : Node) (rest : Env) (w : World) :
    eval (walkSem v F) (("n", .node (.node x)) :: rest) visitCall w = .ok (.bool (v w.calls x)) (w.visit x) := rfl

theorem execCases_map (sem : Sem) (ty : Option String) (env : Env) : ∀ forms : List (String × String),
    execCases sem ty (forms.map mkCase) env =
      match forms.find? (fun c => ty == some c.1) with
      | some c => execBlock sem (caseBody c) env >>= fun r => pure (some r)
      | none => pure none
  | [] => rfl
  | c :: forms => by
    simp only [List.map_cons, mkCase, execCases, List.find?]
    cases h : (ty == some c.1) <;> simp [h, execCases_map sem ty env forms, mkCase]

def envIn (root : Val) (st : List GNode) (x : Node) : Env :=
  ("n", .node (.node x)) :: ("curr", .node (.node x)) :: env0 root st

theorem case_visit (v : Nat → Node → Bool) (F : Nat) (root : Val) (st : List GNode) (x : Node) (w : World) (ty : String) :
    execBlock (walkSem v F) (caseBody (ty, "visit")) (envIn root st x) w = .ok (.next, envIn root st x) (w.visit x) := rfl

theorem case_ifvisit (v : Nat → Node → Bool) (F : Nat) (root : Val) (st : List GNode) (x : Node) (w : World) (ty : String)
    (hty : (GNode.node x).goType = some ty) :
    execBlock (walkSem v F) (caseBody (ty, "ifvisit")) (envIn root st x) w =
      if v w.calls x then
        match pushesOf x (w.visit x) with
        | .ok new w2 => .ok (.next, envIn root (st ++ new) x) w2
        | .panic w2 => .panic w2
        | .stuck => .stuck
      else .ok (.next, envIn root st x) (w.visit x) := by
  have hb : caseBody (ty, "ifvisit") = [.ite visitCall [.pushTable "stack" "n" ty] []] := rfl
  rw [hb]
  simp only [execBlock, exec, bind, M.bind, envIn, visit_eval]
  cases hv : v w.calls x
  · rfl
  · simp only [pushesOf, hty, if_true]
    cases hf : List.find? (fun x => x.fst == ty) Facts.walkCases with
    | none => simp [leaveM, AstIR.get, env0, List.find?, bind, M.bind, pure, M.pure, stuck, hf]
    | some c =>
      obtain ⟨t, pushes⟩ := c
      cases ht : tablePushes ty pushes (.node x) (w.visit x) <;>
        simp [leaveM, AstIR.get, env0, List.find?, bind, M.bind, pure, M.pure, stuck, assignIn, leaveTo, hf, ht]

def formOf (x : Node) : Option (String × String) :=
  expectedForms.find? (fun c => (GNode.node x).goType == some c.1)

syntax "form_case" : tactic
macro_rules
  | `(tactic| form_case) =>
    `(tactic| exact ⟨_, rfl, by simp [formOf, expectedForms, GNode.goType, List.find?, Node.children]⟩)

theorem formOf_cases : (x : Node) → x ≠ .expr .nil → ∃ ty, (GNode.node x).goType = some ty ∧
    ((formOf x = some (ty, "visit") ∧ x.children = some []) ∨ formOf x = some (ty, "ifvisit"))
  | .ident _, _ => by form_case
  | .expr .nil, h => absurd rfl h
  | .expr (.qident ..), _ | .expr (.lit ..), _ | .expr (.unary ..), _ | .expr (.binary ..), _
  | .expr (.inE ..), _ | .expr (.paren ..), _ | .expr (.call ..), _ | .expr (.index ..), _ => by form_case
  | .tabular _, _ | .tableRef _, _ | .sortTerm _, _ | .letStmt .., _ => by form_case
  | .op (.count ..), _ | .op (.where_ ..), _ | .op (.sort ..), _ | .op (.take ..), _ | .op (.top ..), _
  | .op (.project ..), _ | .op (.extend ..), _ | .op (.summarize ..), _ | .op (.join ..), _ | .op (.as_ ..), _
  | .op (.render ..), _ => by form_case
  | .column .project _, _ | .column .extend _, _ | .column .summarize _, _ => by form_case

theorem switch_eq (sem : Sem) (x : Node) (rest : Env) :
    exec sem (.typeSwitch "n" (.var "curr") (expectedForms.map mkCase) [.panic_]) (("curr", .node (.node x)) :: rest) =
      match formOf x with
      | some c => do
        let r ← execBlock sem (caseBody c) (("n", .node (.node x)) :: ("curr", .node (.node x)) :: rest)
        pure (r.1, leaveTo (("curr", .node (.node x)) :: rest) r.2)
      | none => goPanic := by
  simp only [exec, eval, AstIR.get, List.find?, beq_self_eq_true, pure_bind, execCases_map, formOf]
  cases expectedForms.find? (fun c => (GNode.node x).goType == some c.1) with
  | none => simp [pure_bind, leaveM, execBlock, exec, panic_bind]
  | some c => simp [bind_assoc', pure_bind]

theorem formOf_nil : formOf (.expr .nil) = none := by
  simp [formOf, expectedForms, GNode.goType, List.find?]

/-- popping the nil interface: no case matches, the default case panics (the visitor is not called) -/
theorem iter_nil (v : Nat → Node → Bool) (F : Nat) (root : Val) (st : List GNode) (w : World) :
    execBlock (walkSem v F) loopBody (env0 root (st ++ [.node (.expr .nil)])) w = .panic w := by
  simp only [loopBody, execBlock, pop1, pop2, pure_bind, switch_eq, formOf_nil, panic_bind]
  rfl

/-- one round of the loop on any other node -/
theorem iter_cons (v : Nat → Node → Bool) (F : Nat) (root : Val) (st : List GNode) (x : Node) (w : World)
    (hn : x ≠ .expr .nil) :
    execBlock (walkSem v F) loopBody (env0 root (st ++ [.node x])) w =
      if v w.calls x then
        match x.children with
        | some kids => .ok (.next, ("curr", .node (.node x)) :: env0 root (st ++ kids.reverse.map .node)) (w.visit x)
        | none => .panic (w.visit x)
      else .ok (.next, ("curr", .node (.node x)) :: env0 root st) (w.visit x) := by
  simp only [loopBody, execBlock, pop1, pop2, pure_bind, switch_eq]
  obtain ⟨ty, hty, hf⟩ := formOf_cases x hn
  rcases hf with ⟨hf, hc⟩ | hf
  · simp only [hf, hc, bind, M.bind]
    rw [show (("n", Val.node (GNode.node x)) :: ("curr", Val.node (GNode.node x)) :: env0 root st) = envIn root st x from rfl,
      case_visit]
    cases v w.calls x <;> simp [pure, M.pure, envIn, env0, leaveTo]
  · simp only [hf, bind, M.bind]
    rw [show (("n", Val.node (GNode.node x)) :: ("curr", Val.node (GNode.node x)) :: env0 root st) = envIn root st x from rfl,
      case_ifvisit _ _ _ _ _ _ _ hty, pushesOf_eq x hn]
    cases v w.calls x
    · simp [pure, M.pure, envIn, env0, leaveTo]
    · cases x.children <;> simp [pure, M.pure, goPanic, envIn, env0, leaveTo]

/-- what a run of the loop shows: it ends normally or panics -/
def summ : Out (Ctl × Env) → Option (List WalkEvent)
  | .ok (.next, _) w => some w.events
  | .panic w => some (w.events ++ [.panic])
  | _ => none

theorem cond_eval (sem : Sem) (root : Val) (st : List GNode) :
    eval sem (env0 root st) loopCond = pure (.bool (decide (0 < st.length))) := by
  ir_simp [loopCond, env0]

theorem loop_eq (v : Nat → Node → Bool) (F : Nat) (root : Val) : ∀ (fuel : Nat) (stack : List Node) (w : World),
    totalSize stack < fuel →
    summ (whileLoop (fun env => eval (walkSem v F) env loopCond) (execBlock (walkSem v F) loopBody) fuel
        (env0 root (stack.reverse.map .node)) w) = some (w.events ++ walkLoopV v fuel w.calls stack)
  | 0, _, _, h => by omega
  | fuel + 1, [], w, _ => by
    simp only [List.reverse_nil, List.map_nil, whileLoop, cond_eval, List.length_nil, Nat.lt_irrefl, decide_false, pure_bind]
    simp [summ, walkLoopV, pure, M.pure]
  | fuel + 1, x :: stack, w, h => by
    have hpos : decide (0 < ((stack.reverse.map GNode.node) ++ [GNode.node x]).length) = true := by simp
    have hst : (x :: stack).reverse.map GNode.node = stack.reverse.map GNode.node ++ [GNode.node x] := by simp
    simp only [totalSize_cons] at h
    have hx : 0 < x.size := gsize_pos (.node x)
    rw [hst]
    simp only [whileLoop, cond_eval, hpos, pure_bind]
    by_cases hn : x = .expr .nil
    · subst hn
      simp only [bind, M.bind, iter_nil]
      simp [summ, walkLoopV]
    · simp only [bind, M.bind, iter_cons _ _ _ _ _ _ hn, walkLoopV_cons _ _ _ _ _ hn]
      cases hv : v w.calls x
      · have ih := loop_eq v F root fuel stack (w.visit x) (by omega)
        simp only [Bool.false_eq_true, if_false]
        have hl : leaveTo (env0 root (stack.reverse.map GNode.node ++ [GNode.node x]))
            (("curr", Val.node (GNode.node x)) :: env0 root (stack.reverse.map GNode.node)) =
              env0 root (stack.reverse.map GNode.node) := by simp [leaveTo, env0]
        rw [hl, ih]
        simp [World.visit]
      · simp only [if_true]
        cases hc : x.children with
        | none => simp [summ, World.visit]
        | some kids =>
          have hsz := children_size x kids hc
          have ih := loop_eq v F root fuel (kids ++ stack) (w.visit x) (by simp only [totalSize_append]; omega)
          have hl : leaveTo (env0 root (stack.reverse.map GNode.node ++ [GNode.node x]))
              (("curr", Val.node (GNode.node x)) :: env0 root (stack.reverse.map GNode.node ++ kids.reverse.map GNode.node)) =
                env0 root ((kids ++ stack).reverse.map GNode.node) := by simp [leaveTo, env0]
          simp only []
          rw [hl, ih]
          simp [World.visit]

/-- **`Walk` is translated code**: for every tree and every visitor — its answer may depend on the number of
    the call and on the node — the interpretation of the regenerated loop (pop, type switch, visitor call,
    pushes from the regenerated per-type tables, default panic) produces exactly the events of the model,
    a final `panic` included -/
theorem C11_walk_ir (v : Nat → Node → Bool) (n : Node) : (interpWalk v n).trace = some (walkV v n) := by
  unfold interpWalk
  rw [runUnit_eq walk_dec]
  have hl := loop_eq v (n.size + 1) (.node (.node n)) (n.size + 1) [n] ⟨0, []⟩ (by simp)
  simp only [List.reverse_cons, List.reverse_nil, List.nil_append, List.map_cons, List.map_nil, List.nil_append] at hl
  have h1 : exec (walkSem v (n.size + 1)) (.def_ "stack" (.nodesLit [.var "n"]))
      [("n", .node (.node n)), ("visit", .fn)] = pure (.next, env0 (.node (.node n)) [.node n]) := by
    ir_simp [env0, asNodes]
  have h2 : exec (walkSem v (n.size + 1)) (.while_ loopCond loopBody) (env0 (.node (.node n)) [.node n]) =
      whileLoop (fun env => eval (walkSem v (n.size + 1)) env loopCond) (execBlock (walkSem v (n.size + 1)) loopBody)
        (n.size + 1) (env0 (.node (.node n)) [.node n]) := rfl
  simp only [walkIR, List.length_cons, List.length_nil, beq_self_eq_true, if_true, List.zip_cons_cons, List.zip_nil_right,
    execBlock, h1, pure_bind, h2]
  simp only [bind, M.bind]
  revert hl
  cases whileLoop (fun env => eval (walkSem v (n.size + 1)) env loopCond) (execBlock (walkSem v (n.size + 1)) loopBody)
      (n.size + 1) (env0 (.node (.node n)) [.node n]) ⟨0, []⟩ with
  | stuck => simp [summ]
  | panic w => simp [summ, Out.trace, walkV]
  | ok r w =>
    obtain ⟨c, e⟩ := r
    cases c <;> simp [summ, Out.trace, walkV, finish, pure, M.pure]

/-- **`Walk` is translated code, for the model's own visitors** (`decide i` = the answer to the `i`-th
    call): the events the interpretation of the regenerated loop produces are the model's `walk` -/
theorem C11_walk_ir_model (decide : Nat → Bool) (n : Node) :
    (interpWalk (fun i _ => decide i) n).trace = some (walk decide n) := by
  rw [C11_walk_ir, walkV_decide]

/-- with the recursive pre-order of C11b: on a tree without nil in a required position the regenerated
    loop visits exactly the pre-order with pruning -/
theorem C11_walk_ir_preorder (decide : Nat → Bool) (n : Node) (h : NoPanic n) :
    (interpWalk (fun i _ => decide i) n).trace = some (preNode decide 0 n).1 := by
  rw [C11_walk_ir_model]
  unfold walk
  rw [walkLoop_eq_preList decide (n.size + 1) 0 [n] (by simpa using h) (by simp), preList_singleton]

/-- the nil interface as the root: the default case panics before the visitor is called -/
example (v : Nat → Node → Bool) : (interpWalk v (.expr .nil)).trace = some [.panic] := by
  rw [C11_walk_ir]; rfl

/-- a concrete run, computed by the interpreter itself: `a + 1` with a visitor that refuses the
    BinaryExpr's first child visits the root, `a` (not its part) and `1` -/
example :
    (interpWalk (fun i _ => i != 1)
      (.expr (.binary (.qident [⟨[97], ⟨0, 1⟩, false⟩]) ⟨2, 3⟩ .plus (.lit ⟨4, 5⟩ .number [49])))).trace =
      some [.visit "BinaryExpr" ⟨0, 5⟩, .visit "QualifiedIdent" ⟨0, 1⟩, .visit "BasicLit" ⟨4, 5⟩] := by
  rw [C11_walk_ir]; decide

end Pql.AstIR
