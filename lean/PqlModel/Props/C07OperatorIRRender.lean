/-
Property C07, tie by translation: `(*parser).renderProperty` (the model's `pRenderProp`) and
`(*parser).renderOperator` (`pRender`, with the property loop `pRenderProps`) are the interpretation of
their regenerated bodies (`C07_renderProperty_ir`, `C07_renderOperator_ir`), for every fuel and loop counter.
-/
import PqlModel.Props.C07OperatorIRSummarize
import PqlModel.Props.C07OperatorIRLet
namespace Pql.OpIR
open Pql
set_option linter.unusedSimpArgs false

theorem newRec_renderProperty : newRec "RenderProperty" =
    some ⟨"RenderProperty", [("Name", .ident none), ("Assign", .span .zero), ("Value", .expr .nil)]⟩ := by rfl
theorem newRec_render : newRec "RenderOperator" =
    some ⟨"RenderOperator", [("Pipe", .span .zero), ("Keyword", .span .zero), ("ChartType", .ident none), ("With", .span .zero),
      ("Lparen", .span .zero), ("Props", .list []), ("Rparen", .span .zero)]⟩ := by rfl
theorem kind_lparen : TokKind.ofGoName "TokenLParen" = some .lparen := by decide
theorem kind_rparen : TokKind.ofGoName "TokenRParen" = some .rparen := by decide

/-! ### renderProperty -/

theorem renderProperty_run (c : PCtx) (fuel : Nat) (ts : List Token) :
    runP toProp "prop" c renderPropertyBody fuel ts =
      .ok ⟨(pRenderProp c fuel ts).val, (pRenderProp c fuel ts).errs, (pRenderProp c fuel ts).rest⟩ := by
  unfold renderPropertyBody pRenderProp runP
  rcases ts with _ | ⟨t, rest⟩
  · ir_simp [newRec_renderProperty, toProp, pIdent, nfAt]
  · by_cases hk : t.kind = .ident ∨ t.kind = .qident
    · rcases rest with _ | ⟨a, rest2⟩
      · ir_simp [newRec_renderProperty, toProp, pIdent, hk, kind_assign, eofTok, PCtx.eof, Span.index, Token.span]
      · by_cases ha : a.kind = .assign
        · cases he : (pExpr c fuel rest2).errs <;>
            ir_simp [newRec_renderProperty, toProp, pIdent, hk, kind_assign, ha, he, Token.span]
        · ir_simp [newRec_renderProperty, toProp, pIdent, hk, kind_assign, ha]
    · ir_simp [newRec_renderProperty, toProp, pIdent, hk, nfAt]

/-- **renderProperty**: the model's `pRenderProp` is the interpretation of the regenerated body -/
theorem C07_renderProperty_ir (c : PCtx) (fuel : Nat) (ts : List Token) :
    runP toProp "prop" c (bodyOf "renderProperty") fuel ts = .ok (pRenderProp c fuel ts) := by
  simp only [bodyOf, renderProperty_ir, Option.map_some, Option.getD_some, renderProperty_run]

/-! ### renderOperator -/

def propVals (acc : List RenderProp) : List Val := acc.map fun x => .prop (some x)

theorem toProps_vals : ∀ acc : List RenderProp, toProps (propVals acc) = some acc
  | [] => rfl
  | x :: r => by
    have := toProps_vals r
    simp only [propVals] at this
    simp [propVals, toProps, this]

theorem propVals_snoc (acc : List RenderProp) (x : RenderProp) : propVals acc ++ [.prop (some x)] = propVals (acc ++ [x]) := by
  simp [propVals]

/-- the state in the property loop; `tk` is the current value of the variable `tok` -/
def renderSt (pipe kws : Span) (kw pt : Token) (chart : Ident) (w lp : Span) (tk : Token) (acc : List RenderProp)
    (ts : List Token) (u : Option (List Token)) : St :=
  ⟨[("ok", .bool true), ("tok", .tok tk), ("err", .errs []), ("chartType", .ident (some chart)), ("op", .ref 0),
    ("keyword", .tok kw), ("pipe", .tok pt), ("p", .parser ts u)],
   [⟨"RenderOperator", [("Pipe", .span pipe), ("Keyword", .span kws), ("ChartType", .ident (some chart)), ("With", .span w),
      ("Lparen", .span lp), ("Props", .list (propVals acc)), ("Rparen", .span .null)]⟩]⟩

/-- what follows the property loop: the final `return op, nil`, unless the function has returned -/
def renderK (c : PCtx) (fuel : Nat) (r : Flow × St) : M (Flow × St) :=
  match r.1 with
  | .next => execBlock (envAt c) (renderOperatorBody.drop 12) fuel r.2
  | _ => pure r

theorem renderK_next (c : PCtx) (fuel : Nat) (st : St) :
    renderK c fuel (.next, st) = execBlock (envAt c) [.ret [.var "op", .nil]] fuel st := rfl
theorem renderK_ret (c : PCtx) (fuel : Nat) (vs : List Val) (st : St) : renderK c fuel (.ret vs, st) = .ok (.ret vs, st) := rfl
theorem renderK_fuel (c : PCtx) (fuel : Nat) (st : St) : renderK c fuel (.fuel, st) = .ok (.fuel, st) := rfl

/-- the property loop followed by the final `return op, nil` -/
theorem render_loop (c : PCtx) (fuel : Nat) (pipe kws : Span) (kw pt : Token) (chart : Ident) (w lp : Span) :
    ∀ (n : Nat) (tk : Token) (acc : List RenderProp) (ts : List Token) (u : Option (List Token)),
      result toOp "op" none
          (runLoop false (execBlock (envAt c) (loopAt renderOperatorBody 11)) n fuel
              (renderSt pipe kws kw pt chart w lp tk acc ts u) >>= renderK c fuel) =
        .ok ⟨.render pipe kws (some chart) w lp (pRenderProps c fuel n acc ts).val.1 (pRenderProps c fuel n acc ts).val.2,
          (pRenderProps c fuel n acc ts).errs, (pRenderProps c fuel n acc ts).rest⟩
  | 0, tk, acc, ts, u => by
    simp [runLoop, result_fuel, renderK_fuel, renderSt, pRenderProps, St.parser, St.get, toOp, recToOp, listOf, toProps_vals, optM, toIdent,
      bind, Except.bind, pure, Except.pure]
  | n + 1, tk, acc, ts, u => by
    have ih := render_loop c fuel pipe kws kw pt chart w lp n
    simp only [loopAt, renderOperatorBody, List.getElem?_cons_succ, List.getElem?_cons_zero, renderSt, envAt, bind, Except.bind] at ih ⊢
    unfold runLoop pRenderProps
    rcases he : (pRenderProp c fuel ts).errs with _ | ⟨e, es⟩
    · rcases hr : (pRenderProp c fuel ts).rest with _ | ⟨t, rest⟩
      · cases hv : (pRenderProp c fuel ts).val <;>
          ir_simp [he, hv, hr, kind_comma, kind_rparen, eofTok, propVals_snoc, ih, toProps_vals, renderK_next, renderK_ret, renderK_fuel, PCtx.eof, Span.index, Token.span]
      · by_cases hk : t.kind = .rparen
        · cases hv : (pRenderProp c fuel ts).val <;>
            ir_simp [he, hv, hr, hk, kind_comma, kind_rparen, eofTok, propVals_snoc, ih, toProps_vals, renderK_next, renderK_ret, renderK_fuel, Token.span]
        · by_cases hc : t.kind = .comma <;> cases hv : (pRenderProp c fuel ts).val <;>
            ir_simp [he, hv, hr, hk, hc, kind_comma, kind_rparen, eofTok, propVals_snoc, ih, toProps_vals, renderK_next, renderK_ret, renderK_fuel, Token.span]
    · ir_simp [he, kind_comma, kind_rparen, eofTok, propVals_snoc, ih, toProps_vals, renderK_next, renderK_ret, renderK_fuel]

theorem pOperator_render (c : PCtx) (fuel : Nat) (pipe : Span) (kw : Token) (ts : List Token) :
    pOperator c (fuel + 1) pipe (kwTok "render" kw) ts = some (pRender c fuel pipe kw.span ts) := by
  dispatch_simp

theorem renderOperator_run (c : PCtx) (fuel : Nat) (pipe kw : Token) (ts : List Token) :
    runOp c renderOperatorBody fuel pipe kw ts = .ok (pRender c fuel pipe.span kw.span ts) := by
  have hsplit : renderOperatorBody =
      renderOperatorBody.take 11 ++ ([.loop (loopAt renderOperatorBody 11)] ++ renderOperatorBody.drop 12) := rfl
  unfold runOp run
  rw [hsplit, execBlock_append]
  unfold pRender pIdent
  rcases ts with _ | ⟨t, rest⟩
  · ir_simp [renderOperatorBody, newRec_render, pIdent, toProps, nfAt]
  · by_cases hk : t.kind = .ident ∨ t.kind = .qident
    · rcases rest with _ | ⟨wt, rest1⟩
      · ir_simp [renderOperatorBody, newRec_render, pIdent, hk, toProps, eofTok]
      · by_cases hw : wt.kind = .ident
        · by_cases hwv : wt.value = Bytes.ofString "with"
          · rcases rest1 with _ | ⟨lp, rest2⟩
            · ir_simp [renderOperatorBody, newRec_render, pIdent, hk, hw, hwv, isIdentNamed, toProps, eofTok, kind_ident, kind_lparen,
                PCtx.eof, Span.index, Token.span]
            · by_cases hl : lp.kind = .lparen
              · have hpre : execBlock (envAt c) (renderOperatorBody.take 11) fuel (entry (opParams (t :: wt :: lp :: rest2) pipe kw)) =
                    .ok (.next, renderSt pipe.span kw.span kw pipe ⟨t.value, t.span, t.kind = .qident⟩ wt.span lp.span lp [] rest2
                      (some (lp :: rest2))) := by
                  ir_simp [renderOperatorBody, newRec_render, pIdent, hk, hw, hwv, hl, kind_ident, kind_lparen, renderSt, propVals,
                    Token.span]
                rw [hpre]
                have := render_loop c fuel pipe.span kw.span kw pipe ⟨t.value, t.span, t.kind = .qident⟩ wt.span lp.span
                  (rest2.length + 1) lp [] rest2 (some (lp :: rest2))
                simp only [bind, Except.bind, execBlock_append, execBlock_single, exec, renderSt, St.parser, St.get, List.find?, envAt,
                  pure, Except.pure, renderK] at this ⊢
                simp [hk, hw, hwv, hl, isIdentNamed, Token.span] at this ⊢
                exact this
              · ir_simp [renderOperatorBody, newRec_render, pIdent, hk, hw, hwv, hl, isIdentNamed, toProps, kind_ident, kind_lparen,
                  Token.span]
          · ir_simp [renderOperatorBody, newRec_render, pIdent, hk, hw, hwv, isIdentNamed, toProps, kind_ident]
        · ir_simp [renderOperatorBody, newRec_render, pIdent, hk, hw, isIdentNamed, toProps, kind_ident]
    · ir_simp [renderOperatorBody, newRec_render, pIdent, hk, toProps, nfAt]

/-- **renderOperator**: the model's production is the interpretation of the regenerated body -/
theorem C07_renderOperator_ir (c : PCtx) (fuel : Nat) (pipe kw : Token) (ts : List Token) :
    (runOp c (bodyOf "renderOperator") fuel pipe kw ts).map some =
      .ok (pOperator c (fuel + 1) pipe.span (kwTok "render" kw) ts) := by
  simp only [bodyOf, renderOperator_ir, Option.map_some, Option.getD_some, renderOperator_run, pOperator_render]
  rfl

end Pql.OpIR
