/-
C13 / C01 glue — the user-facing arity table of the built-in functions.

`Glue.arityOK name n` (NEW, `Lemmas/GlueArity.lean`) is the documented table written from scratch:
  not, isnull, isnotnull, tolower, toupper, countif : exactly 1 argument
  now, count                                         : no argument
  iff, iif                                           : exactly 3 arguments
  strcat                                             : at least 1 argument
  any other name                                     : any number (passed through to SQL).

* `C13_builtin_arity`            tree level, ALL n, all names, all parameters, all source texts:
                                 `T | where name(a, …, a)` compiles iff `arityOK name n`; otherwise it
                                 is a compile error (never a panic).  No hypothesis.
* `C13_builtin_arity_summarize`  the same for `T | summarize c = name(a, …, a)`.
* `C13_builtin_arity_table`      the eleven rows spelled out.
* `C13_passthrough_arity`        a name outside the table compiles with every n.
* `C13_aggregate_in_where`       FINDING: the aggregates `count()` / `countif(a)` are accepted in a
                                 `where` (no "aggregates only under summarize" rule in the compiler).

* `C13_builtin_arity_source`     SOURCE level, ALL n: `Compile` on the bytes `T | where name(a, a, …, a)`
                                 (`srcCall name n`) returns SQL iff `arityOK name n`, an error otherwise,
                                 never panics.  Hypothesis `identName name` (the name is scanned as one
                                 plain identifier); counterexample `C13_source_needs_ident` (`in`).
* `C13_builtin_arity_source_table`, `C13_passthrough_arity_source`: the rows, and unknown functions.

Helper files: `Lemmas/GlueArity.lean` (trees, `arityOK`), `Lemmas/GlueArityScan.lean` (the scanner on
the family, all n), `Lemmas/GlueArityParse.lean` (the parser on the family, all n, via C07 forward).
-/
import PqlModel.Lemmas.GlueArityParse
import PqlModel.Lemmas.LayoutLex
namespace Pql.Glue
open Pql Pql.Exact

/-- **C13/C01 (built-in arities), tree level.**  For every name, every number `n` of column
    arguments, every parameter list and every source text (only used for slicing, irrelevant here):
    `T | where name(a, …, a)` compiles exactly when `n` is a documented arity of `name`, is rejected
    with a compile error exactly when it is not, and never panics. -/
theorem C13_builtin_arity (src : Bytes) (params : List (Bytes × Bytes)) (name : Bytes) (n : Nat) :
    ((∃ cs, compileChunks src params (whereCall name n) = .ok cs) ↔ arityOK name n) ∧
    (compileChunks src params (whereCall name n) = .error .err ↔ ¬ arityOK name n) ∧
    compileChunks src params (whereCall name n) ≠ .error .panic := by
  have h := C13.C13_exact src params (whereCall name n) (whereCall_wf name n) (whereCall_spans src name n)
  rw [whereCall_misuse] at h
  refine ⟨h.1.trans (wrongArity_iff name n), h.2.1.trans ?_, h.2.2⟩
  rw [← wrongArity_iff]
  cases Misuse.wrongArity name n <;> simp

/-- the same under `summarize` (where the aggregates `count`, `countif` belong) -/
theorem C13_builtin_arity_summarize (src : Bytes) (params : List (Bytes × Bytes)) (name : Bytes) (n : Nat) :
    ((∃ cs, compileChunks src params (summarizeCall name n) = .ok cs) ↔ arityOK name n) ∧
    (compileChunks src params (summarizeCall name n) = .error .err ↔ ¬ arityOK name n) ∧
    compileChunks src params (summarizeCall name n) ≠ .error .panic := by
  have h := C13.C13_exact src params (summarizeCall name n) (summarizeCall_wf name n)
    (summarizeCall_spans src name n)
  rw [summarizeCall_misuse] at h
  refine ⟨h.1.trans (wrongArity_iff name n), h.2.1.trans ?_, h.2.2⟩
  rw [← wrongArity_iff]
  cases Misuse.wrongArity name n <;> simp

/-! ### the table, row by row -/

theorem arityOK_unary {name : Bytes} (h : name ∈ unaryBuiltins) (n : Nat) : arityOK name n ↔ n = 1 := by
  have : unaryBuiltins.contains name = true := by simpa using h
  simp only [arityOK, this, if_true]

theorem arityOK_table (n : Nat) :
    (arityOK (B "not") n ↔ n = 1) ∧ (arityOK (B "isnull") n ↔ n = 1) ∧ (arityOK (B "isnotnull") n ↔ n = 1) ∧
    (arityOK (B "tolower") n ↔ n = 1) ∧ (arityOK (B "toupper") n ↔ n = 1) ∧ (arityOK (B "countif") n ↔ n = 1) ∧
    (arityOK (B "now") n ↔ n = 0) ∧ (arityOK (B "count") n ↔ n = 0) ∧
    (arityOK (B "iff") n ↔ n = 3) ∧ (arityOK (B "iif") n ↔ n = 3) ∧
    (arityOK (B "strcat") n ↔ 1 ≤ n) := by
  refine ⟨?_, ?_, ?_, ?_, ?_, ?_, ?_, ?_, ?_, ?_, ?_⟩ <;>
    simp +decide [arityOK]

/-- a name outside the table: every argument count is fine -/
theorem arityOK_other {name : Bytes} (h : name ∉ builtins) (n : Nat) : arityOK name n := by
  simp only [builtins, List.mem_append, not_or] at h
  simp [arityOK, h]

/-- **C13/C01 (built-in arities), the eleven rows.** -/
theorem C13_builtin_arity_table (src : Bytes) (params : List (Bytes × Bytes)) (n : Nat) :
    let ok := fun (f : String) => ∃ cs, compileChunks src params (whereCall (B f) n) = .ok cs
    (ok "not" ↔ n = 1) ∧ (ok "isnull" ↔ n = 1) ∧ (ok "isnotnull" ↔ n = 1) ∧ (ok "tolower" ↔ n = 1) ∧
    (ok "toupper" ↔ n = 1) ∧ (ok "countif" ↔ n = 1) ∧ (ok "now" ↔ n = 0) ∧ (ok "count" ↔ n = 0) ∧
    (ok "iff" ↔ n = 3) ∧ (ok "iif" ↔ n = 3) ∧ (ok "strcat" ↔ 1 ≤ n) := by
  intro ok
  have t := arityOK_table n
  have c := fun f => (C13_builtin_arity src params (B f) n).1
  exact ⟨(c _).trans t.1, (c _).trans t.2.1, (c _).trans t.2.2.1, (c _).trans t.2.2.2.1,
    (c _).trans t.2.2.2.2.1, (c _).trans t.2.2.2.2.2.1, (c _).trans t.2.2.2.2.2.2.1,
    (c _).trans t.2.2.2.2.2.2.2.1, (c _).trans t.2.2.2.2.2.2.2.2.1, (c _).trans t.2.2.2.2.2.2.2.2.2.1,
    (c _).trans t.2.2.2.2.2.2.2.2.2.2⟩

/-- **C13/C01 (pass-through functions).**  A function the compiler does not know is written
    through to SQL with any number of arguments. -/
theorem C13_passthrough_arity (src : Bytes) (params : List (Bytes × Bytes)) (name : Bytes)
    (h : name ∉ builtins) (n : Nat) :
    ∃ cs, compileChunks src params (whereCall name n) = .ok cs :=
  (C13_builtin_arity src params name n).1.2 (arityOK_other h n)

/-- the hypothesis of `C13_passthrough_arity` is needed: `strcat()` is rejected -/
theorem C13_passthrough_needs_unknown :
    B "strcat" ∈ builtins ∧ ¬ ∃ cs, compileChunks [] [] (whereCall (B "strcat") 0) = .ok cs := by
  refine ⟨by decide, fun h => ?_⟩
  have := (C13_builtin_arity [] [] (B "strcat") 0).1.1 h
  exact absurd this (by decide)

/-- non-vacuity: `foo` is not a built-in -/
example : B "foo" ∉ builtins := by decide
example : ∃ cs, compileChunks [] [] (whereCall (B "foo") 7) = .ok cs :=
  C13_passthrough_arity [] [] (B "foo") (by decide) 7

/-- **finding.**  Aggregates are not confined to `summarize`: `T | where count()` and
    `T | where countif(a)` compile (to `… WHERE count()` / `… WHERE count() FILTER (WHERE "a")`). -/
theorem C13_aggregate_in_where (src : Bytes) (params : List (Bytes × Bytes)) :
    (∃ cs, compileChunks src params (whereCall (B "count") 0) = .ok cs) ∧
    (∃ cs, compileChunks src params (whereCall (B "countif") 1) = .ok cs) :=
  ⟨(C13_builtin_arity src params _ 0).1.2 (by decide), (C13_builtin_arity src params _ 1).1.2 (by decide)⟩

/-- what the compiler writes for them -/
theorem C13_aggregate_in_where_sql :
    (compileChunks [] [] (whereCall (B "count") 0)).toOption.map renderChunks =
      some (B "SELECT * FROM \"T\" WHERE count();") ∧
    (compileChunks [] [] (whereCall (B "countif") 1)).toOption.map renderChunks =
      some (B "SELECT * FROM \"T\" WHERE count() FILTER (WHERE \"a\");") := by
  decide

/-! ### the regenerated tables of the compiler against the new table (all n)

`C13.C13_arity_agrees` compares the regenerated guards with `Misuse.wrongArity` for n < 7 by
evaluation; here the comparison is with the independent `arityOK`, for every n. -/

/-- **C13 (arity guards, unbounded).**  For every row of the regenerated `knownFunctions` table
    and EVERY argument count, the regenerated arity guard of its writer lets the call through
    exactly when the count is the documented one. -/
theorem C13_arity_guards_agree : ∀ row ∈ Facts.knownFunctions, ∀ n : Nat,
    (arityRejects row.2.1 n = false ↔ arityOK (Bytes.ofString row.1) n) := by
  intro row hrow n
  have t := arityOK_table n
  simp only [B] at t
  simp only [Facts.knownFunctions, List.mem_cons, List.not_mem_nil, or_false] at hrow
  rcases hrow with rfl | rfl | rfl | rfl | rfl | rfl | rfl | rfl | rfl | rfl | rfl <;>
    simp +decide [arityRejects, Facts.writerArityGuard, t] <;> omega

/-- the names the compiler knows are exactly the names of the new table -/
theorem C13_known_functions_are_builtins (name : Bytes) : knownFunction name = none ↔ name ∉ builtins := by
  simp only [knownFunction, Option.map_eq_none_iff, List.find?_eq_none, Facts.knownFunctions, builtins,
    unaryBuiltins, nullaryBuiltins, ternaryBuiltins, variadicBuiltins, B]
  simp only [List.mem_cons, List.not_mem_nil, or_false, forall_eq_or_imp, forall_eq, List.mem_append,
    beq_iff_eq, not_or, eq_comm (a := name)]
  constructor
  · rintro ⟨h1, h2, h3, h4, h5, h6, h7, h8, h9, h10, h11⟩
    exact ⟨⟨⟨⟨h7, h6, h5, h10, h11, h2⟩, h8, h1⟩, h3, h4⟩, h9⟩
  · rintro ⟨⟨⟨⟨h7, h6, h5, h10, h11, h2⟩, h8, h1⟩, h3, h4⟩, h9⟩
    exact ⟨h1, h2, h3, h4, h5, h6, h7, h8, h9, h10, h11⟩

/-! ### source level -/

/-- the bytes really are `T | where name(a, a, …, a)` -/
example : srcCall (B "now") 0 = B "T | where now()" := by decide
example : srcCall (B "not") 1 = B "T | where not(a)" := by decide
example : srcCall (B "iff") 3 = B "T | where iff(a, a, a)" := by decide
example : srcCall (B "strcat") 5 = B "T | where strcat(a, a, a, a, a)" := by decide

/-- **C13/C01 (built-in arities), source level.**  For every identifier `name`, every number `n`
    of arguments and every parameter map: `Compile` on the source text
    `T | where name(a, a, …, a)` returns SQL exactly when `n` is a documented arity of `name`,
    returns an error exactly when it is not, and never panics. -/
theorem C13_builtin_arity_source (params : List (Bytes × Bytes)) (name : Bytes) (n : Nat)
    (hn : identName name = true) :
    ((∃ sql, compile params (srcCall name n) = .ok sql) ↔ arityOK name n) ∧
    (compile params (srcCall name n) = .error ↔ ¬ arityOK name n) ∧
    compile params (srcCall name n) ≠ .panic := by
  have h := C13.C13_exact_source params (srcCall name n)
  rw [parse_srcCall name n hn] at h
  simp only [stmtAt_misuse, ne_eq, not_true_eq_false, false_or, true_and] at h
  refine ⟨h.2.1.trans (wrongArity_iff name n), h.1.trans ?_, h.2.2⟩
  rw [← wrongArity_iff]
  cases Misuse.wrongArity name n <;> simp

/-- what `Parse` returns on the family: one statement, no error (all n) -/
theorem C13_builtin_arity_parse (name : Bytes) (n : Nat) (hn : identName name = true) :
    parse (srcCall name n) = ([stmtAt name n], []) := parse_srcCall name n hn

/-- every built-in name is an identifier (non-vacuity of `identName` on the whole table), and so
    is `foo` -/
theorem builtins_identName : ∀ name ∈ builtins, identName name = true := by decide
example : identName (B "foo") = true := by decide

/-- **C13/C01 (built-in arities), source level, the eleven rows.** -/
theorem C13_builtin_arity_source_table (params : List (Bytes × Bytes)) (n : Nat) :
    let ok := fun (f : String) => ∃ sql, compile params (srcCall (B f) n) = .ok sql
    (ok "not" ↔ n = 1) ∧ (ok "isnull" ↔ n = 1) ∧ (ok "isnotnull" ↔ n = 1) ∧ (ok "tolower" ↔ n = 1) ∧
    (ok "toupper" ↔ n = 1) ∧ (ok "countif" ↔ n = 1) ∧ (ok "now" ↔ n = 0) ∧ (ok "count" ↔ n = 0) ∧
    (ok "iff" ↔ n = 3) ∧ (ok "iif" ↔ n = 3) ∧ (ok "strcat" ↔ 1 ≤ n) := by
  intro ok
  have t := arityOK_table n
  have c := fun (f : String) (hf : identName (B f) = true) => (C13_builtin_arity_source params (B f) n hf).1
  exact ⟨(c _ (by decide)).trans t.1, (c _ (by decide)).trans t.2.1, (c _ (by decide)).trans t.2.2.1,
    (c _ (by decide)).trans t.2.2.2.1, (c _ (by decide)).trans t.2.2.2.2.1,
    (c _ (by decide)).trans t.2.2.2.2.2.1, (c _ (by decide)).trans t.2.2.2.2.2.2.1,
    (c _ (by decide)).trans t.2.2.2.2.2.2.2.1, (c _ (by decide)).trans t.2.2.2.2.2.2.2.2.1,
    (c _ (by decide)).trans t.2.2.2.2.2.2.2.2.2.1, (c _ (by decide)).trans t.2.2.2.2.2.2.2.2.2.2⟩

/-- **C13/C01 (pass-through functions), source level.** -/
theorem C13_passthrough_arity_source (params : List (Bytes × Bytes)) (name : Bytes)
    (hn : identName name = true) (h : name ∉ builtins) (n : Nat) :
    ∃ sql, compile params (srcCall name n) = .ok sql :=
  (C13_builtin_arity_source params name n hn).1.2 (arityOK_other h n)

/-- the hypothesis `identName` is needed: `in` is a keyword, `T | where in(a)` does not parse,
    although `in` is not a built-in (so every arity would be "documented") -/
theorem C13_source_needs_ident :
    identName (B "in") = false ∧ arityOK (B "in") 1 ∧ compile [] (srcCall (B "in") 1) = .error := by
  refine ⟨by decide, by decide, ?_⟩
  have h := (C13.C13_exact_source [] (srcCall (B "in") 1)).1
  refine h.2 (Or.inl ?_)
  simp only [parse, Layout.scan_eq_scanFuel]
  decide

end Pql.Glue
