/-
Property C03, the whole statement when the join is directly followed by `take n`:
      T | before | join kind=… (U | rops) on conds | take n | rest
The LIMIT is attached to the join's own SELECT (`C03_join_link_take`); whatever follows starts a link
of its own, so no condition on how `rest` starts is needed.
-/
import PqlModel.Lemmas.JoinSemTake
import PqlModel.Props.C03Chain
namespace Pql.C03
open Pql Sql CompileOracle Intended JoinSem

/-- **C03 (the join link with a LIMIT).** -/
theorem C03_join_link_take (src : Bytes) (db : DB) (ctes : List (Bytes × Table)) (a : SubA)
    (unique left : Bool) (l r : Bytes) (cond n : Expr) (sel : Select)
    (hsrc : a.source = .join unique left l r cond) (hop : a.op = none) (hsort : a.sort = none)
    (htake : a.take = some n) (hsel : selOf src a = some sel) :
    evalSelect db ctes sel =
      Rel.takeTable (joinTables unique left (lookupTable db ctes l) (lookupTable db ctes r) cond) n :=
  evalSelect_join_take src db ctes a unique left l r cond n sel hsrc hop hsort htake hsel

/-- **C03 (the chain, `take` directly after the join).** -/
theorem C03_chain_take (src : Bytes) (db : DB) (T U : Ident) (before rest rops : OpList) (p k a b : Span)
    (flavor : Option Ident) (d e f : Span) (conds : ExprList) (pp kk : Span) (n : Expr)
    (subs : List SubA) (st : Statement)
    (hjb : SplitQ.joinFree before = true) (hjr : SplitQ.joinFree rops = true)
    (hja : SplitQ.joinFree rest = true)
    (hs : splitA [] (.mk (some T) (appendOps before
      (.cons (.join p k a b flavor d (.mk (some U) rops) e f conds) (.cons (.take pp kk n) rest)))) = some subs)
    (hst : stmtOf src subs = some st)
    (hnames : (subs.map (·.name)).Nodup)
    (hT : T.name ∉ subs.map (·.name)) (hU : U.name ∉ subs.map (·.name))
    (hR3b : BlockSem src db [] [] T before)
    (hR3r : ∀ ctes0 dst, BlockSem src db ctes0 dst U rops)
    (hR3a : ∀ ctes0 dst (J : Ident), BlockSem src db ctes0 dst J rest) :
    evalStatement db st =
      Rel.interpOps src db
        (Rel.takeTable
          (joinTables (kindOf flavor == Bytes.ofString "innerunique") (kindOf flavor == Bytes.ofString "leftouter")
            (Rel.interpOps src db (lookupTable db [] T.name) before)
            (Rel.interp src db (.mk (some U) rops)) (buildJoinCondition conds)) n) rest := by
  have hja' : SplitQ.joinFree (.cons (.take pp kk n) rest) = true := by
    rw [SplitQ.joinFree_cons]; simpa [SplitQ.isJoin] using hja
  obtain ⟨B, BR, left, hB, hBR, hl, hd⟩ := chain_shape0 T U before _ rops p k a b flavor d e f conds subs hjb hja' hs
  obtain ⟨R, rfl, hRne⟩ := splitA_frame B BR (some U) rops hjr hBR
  have hcase := after_shape_take T (B ++ R) (joinLink (some T) 0 B (B ++ R) flavor left conds) rfl rfl pp kk n rest subs hja hd
  obtain ⟨all, hall, hev⟩ := evalStatement_chain src db subs st hst hnames
  rw [hev]
  generalize hJ'def : ({ joinLink (some T) 0 B (B ++ R) flavor left conds with take := some n } : SubA) = J' at *
  have hJ'name : J'.name = (joinLink (some T) 0 B (B ++ R) flavor left conds).name := by rw [← hJ'def]
  have hA : ∃ A, subs = B ++ R ++ [J'] ++ A ∧
      ((rest = .nil ∧ A = []) ∨ (A ≠ [] ∧
        splitA (B ++ R ++ [J']) (.mk (some ⟨J'.name, .zero, false⟩) rest) = some (B ++ R ++ [J'] ++ A))) := by
    rcases hcase with ⟨h1, h2⟩ | ⟨h1, h2⟩
    · exact ⟨[], by simpa using h2, .inl ⟨h1, rfl⟩⟩
    · obtain ⟨A, hA, hAne⟩ := splitA_frame _ _ _ _ hja h2
      exact ⟨A, hA, .inr ⟨hAne, hA ▸ h2⟩⟩
  obtain ⟨A, rfl, hAcase⟩ := hA
  obtain ⟨sBRJ, selsA, h1, hsA, rfl⟩ := mapM_append_some _ _ _ _ hall
  obtain ⟨sBR, selsJ', h2, hsJ', rfl⟩ := mapM_append_some _ _ _ _ h1
  obtain ⟨selsB, selsR, hsB, hsR, rfl⟩ := mapM_append_some _ _ _ _ h2
  obtain ⟨selJ', hselJ', rfl⟩ := mapM_single src J' selsJ' hsJ'
  have hJ'src : J'.source = .join (kindOf flavor == Bytes.ofString "innerunique") left
      (leftNameOf (some T) 0 B (B ++ R)) (lastName (B ++ R)) (buildJoinCondition conds) := by rw [← hJ'def]; rfl
  have hJ'op : J'.op = none := by rw [← hJ'def]; rfl
  have hJ'sort : J'.sort = none := by rw [← hJ'def]; rfl
  have hJ'take : J'.take = some n := by rw [← hJ'def]
  obtain ⟨c, ln, hc, hn, _⟩ := selOf_join_take src J' _ left _ _ _ n selJ' hJ'src hJ'op hJ'sort hJ'take hselJ'
  have hselJ : selOf src (joinLink (some T) 0 B (B ++ R) flavor left conds) =
      some (joinSelect (kindOf flavor == Bytes.ofString "innerunique") left
        (leftNameOf (some T) 0 B (B ++ R)) (lastName (B ++ R)) c) := by
    simp only [selOf, joinLink, hc, bind, Option.bind, pure, joinSelect]
  have hsJ : [joinLink (some T) 0 B (B ++ R) flavor left conds].mapM (linkSel src) =
      some [((joinLink (some T) 0 B (B ++ R) flavor left conds).name,
        joinSelect (kindOf flavor == Bytes.ofString "innerunique") left
          (leftNameOf (some T) 0 B (B ++ R)) (lastName (B ++ R)) c)] := by
    simp [linkSel, hselJ, bind, Option.bind]
  have hnd' : ((B ++ R ++ [joinLink (some T) 0 B (B ++ R) flavor left conds]).map (·.name)).Nodup := by
    have := hnames
    rw [List.map_append] at this
    have h3 := (List.nodup_append.mp this).1
    simpa [hJ'name] using h3
  obtain ⟨hJfresh, hJ⟩ := chain_upto_join src db T U before rops flavor left conds B R selsB selsR _ hjb hB hBR hRne hl
    hsB hsR hsJ hnd' (fun h => hT (by simp only [List.map_append, List.mem_append] at h ⊢; exact .inl (.inl h)))
    (fun h => hU (by simp only [List.map_append, List.mem_append] at h ⊢; exact .inl (.inl (.inl h)))) hR3b hR3r
  -- the value of the join link without the LIMIT …
  have hVJ : evalSelect db (runCtes db (runCtes db [] selsB) selsR)
      (joinSelect (kindOf flavor == Bytes.ofString "innerunique") left
        (leftNameOf (some T) 0 B (B ++ R)) (lastName (B ++ R)) c) =
      joinTables (kindOf flavor == Bytes.ofString "innerunique") (kindOf flavor == Bytes.ofString "leftouter")
        (Rel.interpOps src db (lookupTable db [] T.name) before)
        (Rel.interp src db (.mk (some U) rops)) (buildJoinCondition conds) := by
    have h := hJ
    rw [show runCtes db (runCtes db (runCtes db [] selsB) selsR)
        [((joinLink (some T) 0 B (B ++ R) flavor left conds).name,
          joinSelect (kindOf flavor == Bytes.ofString "innerunique") left
            (leftNameOf (some T) 0 B (B ++ R)) (lastName (B ++ R)) c)] =
        runCtes db (runCtes db [] selsB) selsR ++ [((joinLink (some T) 0 B (B ++ R) flavor left conds).name,
          evalSelect db (runCtes db (runCtes db [] selsB) selsR)
            (joinSelect (kindOf flavor == Bytes.ofString "innerunique") left
              (leftNameOf (some T) 0 B (B ++ R)) (lastName (B ++ R)) c))] from rfl] at h
    have h' := List.append_cancel_left h
    simp only [List.cons.injEq, Prod.mk.injEq, and_true, true_and] at h'
    exact h'
  -- … and with it
  have hVJ' : evalSelect db (runCtes db (runCtes db [] selsB) selsR) selJ' =
      Rel.takeTable
        (joinTables (kindOf flavor == Bytes.ofString "innerunique") (kindOf flavor == Bytes.ofString "leftouter")
          (Rel.interpOps src db (lookupTable db [] T.name) before)
          (Rel.interp src db (.mk (some U) rops)) (buildJoinCondition conds)) n := by
    rw [evalSelect_join_take src db _ J' _ left _ _ _ n selJ' hJ'src hJ'op hJ'sort hJ'take hselJ', ← hVJ]
    congr 1
    exact (evalSelect_join db _ _ left _ _ _ c hc).symm
  have hJfresh' : J'.name ∉ (runCtes db (runCtes db [] selsB) selsR).map (·.1) := by rw [hJ'name]; exact hJfresh
  have hJ' : runCtes db (runCtes db (runCtes db [] selsB) selsR) [(J'.name, selJ')] =
      runCtes db (runCtes db [] selsB) selsR ++ [(J'.name, Rel.takeTable
        (joinTables (kindOf flavor == Bytes.ofString "innerunique") (kindOf flavor == Bytes.ofString "leftouter")
          (Rel.interpOps src db (lookupTable db [] T.name) before)
          (Rel.interp src db (.mk (some U) rops)) (buildJoinCondition conds)) n)] := by
    rw [← hVJ']; rfl
  rw [runCtes_append, runCtes_append, runCtes_append, hJ']
  rcases hAcase with ⟨hnil, rfl⟩ | ⟨hAne, hsplit⟩
  · subst hnil
    have hsA' : selsA = [] := by simpa using hsA.symm
    subst hsA'
    have hnil' : ∀ c, runCtes db c [] = c := fun _ => rfl
    simp only [List.append_nil, hnil', Rel.interpOps]
    rw [lastName_snoc, lookupTable_snoc_self _ _ _ _ hJfresh']
  · rw [lastName_append _ _ hAne]
    have hnA : ∀ m ∈ A.map (·.name), m ∉
        (runCtes db (runCtes db [] selsB) selsR ++ [(J'.name, Rel.takeTable
          (joinTables (kindOf flavor == Bytes.ofString "innerunique") (kindOf flavor == Bytes.ofString "leftouter")
            (Rel.interpOps src db (lookupTable db [] T.name) before)
            (Rel.interp src db (.mk (some U) rops)) (buildJoinCondition conds)) n)]).map (·.1) := by
      intro m hm hmem
      have hnm := hnames
      rw [List.map_append, List.nodup_append] at hnm
      apply hnm.2.2 m _ m hm rfl
      simp only [List.map_append, List.map_cons, List.map_nil, runCtes_names, mapM_linkSel_names src _ _ hsB,
        mapM_linkSel_names src _ _ hsR] at hmem ⊢
      simpa using hmem
    have hndA : (A.map (·.name)).Nodup := by
      have hnm := hnames
      rw [List.map_append, List.nodup_append] at hnm
      exact hnm.2.1
    have := hR3a _ _ _ A selsA hsplit hsA hndA hnA
    rw [this, lookupTable_snoc_self _ _ _ _ hJfresh']

/-- the right-hand side of `C03_chain_take` is the documented meaning of the whole pipeline -/
theorem C03_chain_take_meaning (src : Bytes) (db : DB) (T U : Ident) (before rest rops : OpList) (p k a b : Span)
    (flavor : Option Ident) (d e f : Span) (conds : ExprList) (pp kk : Span) (n : Expr) :
    Rel.interp src db (.mk (some T) (appendOps before
      (.cons (.join p k a b flavor d (.mk (some U) rops) e f conds) (.cons (.take pp kk n) rest)))) =
      Rel.interpOps src db
        (Rel.takeTable
          (joinTables (kindOf flavor == Bytes.ofString "innerunique") (kindOf flavor == Bytes.ofString "leftouter")
            (Rel.interpOps src db (lookupTable db [] T.name) before)
            (Rel.interp src db (.mk (some U) rops)) (buildJoinCondition conds)) n) rest := by
  rw [C03_chain_meaning]
  simp only [Rel.interpOps, Rel.interpOp]

namespace Ex
def three : Expr := .lit .zero .number (bs "3")
/-- `T | join kind=leftouter (U) on k | take 3` -/
def prog2 : Tabular := .mk (some (idt "T"))
  (.cons (joinOp (some (idt "leftouter")) tabU) (.cons (.take .zero .zero three) .nil))
def subs2 : List SubA := (splitA [] prog2).getD []
def stmt2 : Statement := (stmtOf [] subs2).getD default

/-- `C03_chain_take` instantiated; the LIMIT sits on the join link (two links in total) and the
    result has the three first rows of the left outer join -/
example : splitA [] prog2 = some subs2 ∧ stmtOf [] subs2 = some stmt2 ∧ subs2.length = 2 ∧
    evalStatement exDB stmt2 = Rel.interp [] exDB prog2 ∧ (evalStatement exDB stmt2).rows.length = 3 := by
  have hs : splitA [] prog2 = some subs2 := rfl
  have hst : stmtOf [] subs2 = some stmt2 := rfl
  have := C03_chain_take [] exDB (idt "T") (idt "U") .nil .nil .nil .zero .zero .zero .zero (some (idt "leftouter"))
    .zero .zero .zero keyK .zero .zero three subs2 stmt2 rfl rfl rfl hs hst (by decide) (by decide) (by decide)
    (BlockSem_nil _ _ _ _ _) (fun _ _ => BlockSem_nil _ _ _ _ _) (fun _ _ _ => BlockSem_nil _ _ _ _ _)
  refine ⟨hs, hst, by decide, ?_, by decide⟩
  rw [this]
  exact (C03_chain_take_meaning [] exDB (idt "T") (idt "U") .nil .nil .nil .zero .zero .zero .zero
    (some (idt "leftouter")) .zero .zero .zero keyK .zero .zero three).symm
end Ex

end Pql.C03
