/-
Property C16, tie by translation: the EXPECTED statement trees of the input/output plumbing of cmd/pql/main.go
(`(*multiReadCloser).Read`, `(*multiReadCloser).Close`, `makeInput`, `makeOutput`, `isTerminal`).

`harness/extract_cliio.go` regenerates `Facts.cliIOIR` from the Go source on every run; `Model/CliIOIR.lean`
decodes it.  Each `…_ir` theorem says that what is regenerated for one Go function decodes to the tree written
here, which is the one the semantic theorems of Props/C16IOIR*.lean are about: an edit of the Go function
changes the regenerated IR and that function's `_ir` theorem stops building.  (The trees were printed from
the decoder once and are kept as text; nothing here is regenerated.)
-/
import PqlModel.Model.CliIOIR
namespace Pql.CliIOIR
open Pql

def readBody : List Stmt :=
  [.while_
      (.gt
        (.len (.fld "readers" (.var "mrc")))
        (.int 0))
      [.read
         (.set "n")
         (.set "err")
         "p"
         (.idx 0 (.fld "readers" (.var "mrc"))),
       .ite
         (.eq (.var "err") (.eof))
         [.close
            (.blank)
            (.idx 0 (.fld "readers" (.var "mrc"))),
          .setElem "mrc" "readers" 0 (.nil),
          .assign
            (.fset "mrc" "readers")
            (.from 1 (.fld "readers" (.var "mrc")))]
         [],
       .ite
         (.or
           (.gt (.var "n") (.int 0))
           (.ne (.var "err") (.eof)))
         [.ite
            (.and
              (.eq (.var "err") (.eof))
              (.gt
                (.len (.fld "readers" (.var "mrc")))
                (.int 0)))
            [.assign (.set "err") (.nil)]
            [],
          .ret []]
         []],
    .ret [.int 0, .eof]]

def readFn : FuncIR := ⟨[("mrc", "*multiReadCloser"), ("p", "[]byte")], [("n", "int"), ("err", "error")], readBody⟩

theorem read_ir : unitOf "multiReadCloser.Read" = some readFn := by rfl


def closeBody : List Stmt :=
  [.varDecl "firstError" "error",
    .range
      "rc"
      (.fld "readers" (.var "mrc"))
      [.scope
         [.close (.def_ "err") (.var "rc"),
          .ite
            (.eq (.var "firstError") (.nil))
            [.assign (.set "firstError") (.var "err")]
            []]],
    .assign (.fset "mrc" "readers") (.nil),
    .ret [.var "firstError"]]

def closeFn : FuncIR := ⟨[("mrc", "*multiReadCloser")], [("", "error")], closeBody⟩

theorem close_ir : unitOf "multiReadCloser.Close" = some closeFn := by rfl


def makeInputBody : List Stmt :=
  [.ite
      (.or
        (.eq (.len (.var "args")) (.int 0))
        (.and
          (.eq (.len (.var "args")) (.int 1))
          (.eq
            (.idx 0 (.var "args"))
            (.str "-"))))
      [.ret [.nopR, .nil]]
      [],
    .ite
      (.eq (.len (.var "args")) (.int 1))
      [.retCall "open" (.idx 0 (.var "args"))]
      [],
    .assign (.def_ "readers") (.emptySlice "io.ReadCloser"),
    .range
      "path"
      (.var "args")
      [.ite
         (.eq (.var "path") (.str "-"))
         [.assign
            (.set "readers")
            (.append (.var "readers") (.nopR)),
          .continue_]
         [],
       .open_
         (.def_ "f")
         (.def_ "err")
         (.var "path"),
       .ite
         (.ne (.var "err") (.nil))
         [.range
            "c"
            (.var "readers")
            [.close (.blank) (.var "c")],
          .ret [.nil, .var "err"]]
         [],
       .assign
         (.set "readers")
         (.append (.var "readers") (.var "f"))],
    .ret [.newMulti (.var "readers"), .nil]]

def makeInputFn : FuncIR := ⟨[("args", "[]string")], [("", "io.ReadCloser"), ("", "error")], makeInputBody⟩

theorem makeInput_ir : unitOf "makeInput" = some makeInputFn := by rfl


def makeOutputBody : List Stmt :=
  [.ite
      (.or
        (.eq (.var "arg") (.str ""))
        (.eq (.var "arg") (.str "-")))
      [.ret [.nopW, .nil]]
      [],
    .retCall "create" (.var "arg")]

def makeOutputFn : FuncIR := ⟨[("arg", "string")], [("", "io.WriteCloser"), ("", "error")], makeOutputBody⟩

theorem makeOutput_ir : unitOf "makeOutput" = some makeOutputFn := by rfl


def isTerminalBody : List Stmt :=
  [.forever
      [.typeCase
         "rt"
         "r"
         "*os.File"
         [.retIsTerm "rt"]
         [.typeCase
            "rt"
            "r"
            "nopReadCloser"
            [.assign
               (.set "r")
               (.fld "Reader" (.var "rt"))]
            [.typeCase "rt" "r" "" [.ret [.bool false]] []]]]]

def isTerminalFn : FuncIR := ⟨[("r", "io.Reader")], [("", "bool")], isTerminalBody⟩

theorem isTerminal_ir : unitOf "isTerminal" = some isTerminalFn := by rfl


end Pql.CliIOIR
