/-
Property C07 (also C08, C10, C13), tie by translation: the operator methods of parser/parser.go.

`harness/extract_parse.go` regenerates the bodies of the statement and operator level of the parser as an
IR (`Facts.parseIR`); `Model/ParseIR.lean` interprets it on the model's token-list state;
`Props/C07OperatorIRTrees*.lean` pin the decoded trees.  This file fixes the meaning of the callees
(`calleeAt`: the expression productions are primitives and mean the model's `pExpr`, `pExprList`,
`pIdent`, `pRowCount`, `pSortTerm`; a call of another translated function means the model's production
for it) and proves, for the simple operators, that the model's production IS the interpretation of the
regenerated body, for every context, fuel, pair of tokens handed over by `tabularExpr`, and token list:

  `C07_countOperator_ir`, `C07_whereOperator_ir`, `C07_takeOperator_ir`, `C07_asOperator_ir`,
  `C07_topOperator_ir`.
-/
import PqlModel.Props.C07OperatorIRTreesA
namespace Pql.OpIR
open Pql
set_option linter.unusedSimpArgs false

/-! ### the meaning of the callees -/

/-- the token `tabularExpr` hands over as `keyword`, with the spelling `name` -/
def kwTok (name : String) (kw : Token) : Token := { kw with value := Bytes.ofString name }

/-- the first keyword that the regenerated table of `tabularExpr`'s switch routes to the method `m` -/
def methodKeyword (m : String) : Option String := (Facts.operatorKeywords.find? (·.2.1 == m)).map (·.1)

def ofOp (r : Option (PRes Op)) : Option (List Val × List Token) :=
  r.map fun r => ([.op r.val, .errs r.errs], r.rest)

/-- `recv.m(args)` at call depth `fuel`, the receiver having `ts` left: the model's production -/
def calleeAt (c : PCtx) (fuel : Nat) (m : String) (args : List Val) (ts : List Token) : Option (List Val × List Token) :=
  match args with
  | [] =>
    if m == "expr" then some ([.expr (pExpr c fuel ts).val, .errs (pExpr c fuel ts).errs], (pExpr c fuel ts).rest)
    else if m == "exprList" then
      some ([.exprs (pExprList c fuel ts).val, .errs (pExprList c fuel ts).errs], (pExprList c fuel ts).rest)
    else if m == "ident" then some ([.ident (pIdent c ts).val, .errs (pIdent c ts).errs], (pIdent c ts).rest)
    else if m == "rowCount" then
      some ([.expr (pRowCount c fuel ts).val, .errs (pRowCount c fuel ts).errs], (pRowCount c fuel ts).rest)
    else if m == "sortTerm" then
      some ([.sterm (pSortTerm c fuel ts).val, .errs (pSortTerm c fuel ts).errs], (pSortTerm c fuel ts).rest)
    else if m == "extendColumn" || m == "summarizeColumn" then
      some ([.col (pNamedColumn c fuel ts).val, .errs (pNamedColumn c fuel ts).errs], (pNamedColumn c fuel ts).rest)
    else if m == "renderProperty" then
      some ([.prop (pRenderProp c fuel ts).val, .errs (pRenderProp c fuel ts).errs], (pRenderProp c fuel ts).rest)
    else if m == "tabularExpr" then
      some ([.tab (pTabular c fuel ts).val, .errs (pTabular c fuel ts).errs], (pTabular c fuel ts).rest)
    else if m == "letStatement" then
      some ([.stmt (pLet c fuel ts).val, .errs (pLet c fuel ts).errs], (pLet c fuel ts).rest)
    else none
  | [.tok pipe, .tok kw] =>
    match methodKeyword m with
    | some name => ofOp (pOperator c fuel pipe.span (kwTok name kw) ts)
    | none => none
  | _ => none

/-- the interpretation of a function at call depth `fuel`: loops as the counter loops of the model -/
def envAt (c : PCtx) : Env := { c := c, callee := calleeAt c }

/-- parameters of an operator method -/
def opParams (ts : List Token) (pipe kw : Token) : List (String × Val) :=
  [("p", .parser ts none), ("pipe", .tok pipe), ("keyword", .tok kw)]

/-- the interpretation of an operator method -/
def runOp (c : PCtx) (body : List IStmt) (fuel : Nat) (pipe kw : Token) (ts : List Token) : M (PRes Op) :=
  result toOp "op" none (run (envAt c) body fuel (opParams ts pipe kw))

/-! ### evaluation lemmas -/

theorem newRec_count : newRec "CountOperator" = some ⟨"CountOperator", [("Pipe", .span .zero), ("Keyword", .span .zero)]⟩ := by rfl
theorem newRec_where : newRec "WhereOperator" =
    some ⟨"WhereOperator", [("Pipe", .span .zero), ("Keyword", .span .zero), ("Predicate", .expr .nil)]⟩ := by rfl
theorem newRec_take : newRec "TakeOperator" =
    some ⟨"TakeOperator", [("Pipe", .span .zero), ("Keyword", .span .zero), ("RowCount", .expr .nil)]⟩ := by rfl
theorem newRec_as : newRec "AsOperator" =
    some ⟨"AsOperator", [("Pipe", .span .zero), ("Keyword", .span .zero), ("Name", .ident none)]⟩ := by rfl
theorem newRec_top : newRec "TopOperator" =
    some ⟨"TopOperator", [("Pipe", .span .zero), ("Keyword", .span .zero), ("RowCount", .expr .nil), ("By", .span .zero),
      ("Col", .sterm none)]⟩ := by rfl

/-- `result` on a function that returned -/
theorem result_ret {α : Type} (conv : List Rec → Val → Option α) (nv : String) (ev : Option String) (v e : Val) (st : St) :
    result conv nv ev (.ok (.ret [v, e], st)) =
      (st.parser "p" >>= fun p => optM (conv st.heap v) >>= fun x => asErrs e >>= fun es => pure ⟨x, es, p.1⟩) := by
  simp only [result, bind, Except.bind, pure, Except.pure]

/-- `result` on a function one of whose loops ran out of fuel -/
theorem result_fuel {α : Type} (conv : List Rec → Val → Option α) (nv : String) (st : St) :
    result conv nv none (.ok (.fuel, st)) =
      (st.parser "p" >>= fun p => st.get nv >>= fun v => optM (conv st.heap v) >>= fun x => pure ⟨x, errFuel, p.1⟩) := by
  simp only [result, bind, Except.bind, pure, Except.pure]
  cases st.parser "p" <;> simp

syntax "ir_simp_core" (" [" (Lean.Parser.Tactic.simpStar <|> Lean.Parser.Tactic.simpErase <|> Lean.Parser.Tactic.simpLemma),* "]")? : tactic
macro_rules
  | `(tactic| ir_simp_core) => `(tactic| ir_simp_core [])
  | `(tactic| ir_simp_core [$ls,*]) =>
    `(tactic| simp (config := { decide := true }) [runOp, result_ret, result_fuel, run, entry, opParams, envAt, execBlock, exec, eval, evalCond, evalAll, assignTo, assignAll,
        callMethod, St.get, St.declare, St.assign, St.leave, St.parser, St.setFld, assignIn, setField, getField,
        fieldOf, tokField, valEq, isNilVal, asErrs, asSpan, asInt, asBool, appendVal, lenVal, zeroVar, optM, toOp, recToOp,
        toExpr, toIdent, toSterm, listOf, stuck, goPanic, bind, Except.bind, pure, Except.pure, Except.map,
        newRec_count, newRec_where, newRec_take, newRec_as, newRec_top, $ls,*])

syntax "ir_simp" (" [" (Lean.Parser.Tactic.simpStar <|> Lean.Parser.Tactic.simpErase <|> Lean.Parser.Tactic.simpLemma),* "]")? : tactic
macro_rules
  | `(tactic| ir_simp) => `(tactic| ir_simp [])
  | `(tactic| ir_simp [$ls,*]) =>
    `(tactic| simp [runOp, result_ret, result_fuel, run, entry, opParams, envAt, execBlock, exec, eval, evalCond, evalAll, assignTo, assignAll,
        callMethod, calleeAt, St.get, St.declare, St.assign, St.leave, St.parser, St.setFld, assignIn, setField, getField,
        fieldOf, tokField, valEq, isNilVal, asErrs, asSpan, asInt, asBool, appendVal, lenVal, zeroVar, optM, toOp, recToOp,
        toExpr, toIdent, toSterm, listOf, stuck, goPanic, bind, Except.bind, pure, Except.pure, Except.map,
        newRec_count, newRec_where, newRec_take, newRec_as, newRec_top, $ls,*])

theorem execBlock_append (env : Env) : ∀ (xs ys : List IStmt) (k : Nat) (st : St),
    execBlock env (xs ++ ys) k st =
      (execBlock env xs k st >>= fun r => match r.1 with | .next => execBlock env ys k r.2 | _ => pure r)
  | [], ys, k, st => by simp [execBlock, bind, Except.bind]
  | x :: xs, ys, k, st => by
    simp only [List.cons_append, execBlock, bind, Except.bind]
    cases exec env x k st with
    | error e => rfl
    | ok r =>
      obtain ⟨f, st1⟩ := r
      cases f <;> simp [execBlock_append env xs ys k st1, bind, Except.bind, pure, Except.pure]

theorem execBlock_single (env : Env) (s : IStmt) (k : Nat) (st : St) : execBlock env [s] k st = exec env s k st := by
  simp only [execBlock, bind, Except.bind]
  cases exec env s k st with
  | error e => rfl
  | ok r =>
    obtain ⟨f, st1⟩ := r
    cases f <;> rfl

/-- the body of the `for` loop that ends a function body -/
def lastLoop (body : List IStmt) : List IStmt :=
  match body.getLast? with
  | some (.loop b) => b
  | _ => []

/-- unfold `pOperator` on a token with a literal keyword -/
macro "dispatch_simp" : tactic =>
  `(tactic| simp (config := { decide := true }) only [pOperator, kwTok, Token.span, ↓reduceIte, Bool.or_true, Bool.true_or,
      Bool.or_false, Bool.false_or, Bool.or_self])

/-! ### countOperator -/

theorem countOperator_run (c : PCtx) (fuel : Nat) (pipe kw : Token) (ts : List Token) :
    runOp c countOperatorBody fuel pipe kw ts = .ok ⟨.count pipe.span kw.span, [], ts⟩ := by
  unfold countOperatorBody
  ir_simp

/-- the regenerated body of the Go function `name` (empty if it does not decode) -/
def bodyOf (name : String) : List IStmt := ((unitOf name).map (·.body)).getD []

theorem pOperator_count (c : PCtx) (fuel : Nat) (pipe : Span) (kw : Token) (ts : List Token) :
    pOperator c (fuel + 1) pipe (kwTok "count" kw) ts = some ⟨.count pipe kw.span, [], ts⟩ := by
  dispatch_simp

/-- **countOperator**: the model's production is the interpretation of the regenerated body -/
theorem C07_countOperator_ir (c : PCtx) (fuel : Nat) (pipe kw : Token) (ts : List Token) :
    (runOp c (bodyOf "countOperator") fuel pipe kw ts).map some =
      .ok (pOperator c (fuel + 1) pipe.span (kwTok "count" kw) ts) := by
  simp only [bodyOf, countOperator_ir, Option.map_some, Option.getD_some, countOperator_run, pOperator_count]
  rfl

/-! ### whereOperator -/

theorem whereOperator_run (c : PCtx) (fuel : Nat) (pipe kw : Token) (ts : List Token) :
    runOp c whereOperatorBody fuel pipe kw ts =
      .ok ⟨.where_ pipe.span kw.span (pExpr c fuel ts).val, mkOpaque (pExpr c fuel ts).errs, (pExpr c fuel ts).rest⟩ := by
  unfold whereOperatorBody
  ir_simp

theorem pOperator_where (c : PCtx) (fuel : Nat) (pipe : Span) (kw : Token) (ts : List Token) :
    pOperator c (fuel + 1) pipe (kwTok "where" kw) ts =
      some ⟨.where_ pipe kw.span (pExpr c fuel ts).val, mkOpaque (pExpr c fuel ts).errs, (pExpr c fuel ts).rest⟩ := by
  dispatch_simp

theorem C07_whereOperator_ir (c : PCtx) (fuel : Nat) (pipe kw : Token) (ts : List Token) :
    (runOp c (bodyOf "whereOperator") fuel pipe kw ts).map some =
      .ok (pOperator c (fuel + 1) pipe.span (kwTok "where" kw) ts) := by
  simp only [bodyOf, whereOperator_ir, Option.map_some, Option.getD_some, whereOperator_run, pOperator_where]
  rfl

/-! ### takeOperator -/

theorem mkOpaque_nil : mkOpaque [] = [] := rfl

theorem takeOperator_run (c : PCtx) (fuel : Nat) (pipe kw : Token) (ts : List Token) :
    runOp c takeOperatorBody fuel pipe kw ts =
      .ok ⟨.take pipe.span kw.span (pRowCount c fuel ts).val, mkOpaque (pRowCount c fuel ts).errs, (pRowCount c fuel ts).rest⟩ := by
  unfold takeOperatorBody
  cases h : (pRowCount c fuel ts).errs <;> ir_simp [h, mkOpaque_nil]

theorem pOperator_take (c : PCtx) (fuel : Nat) (pipe : Span) (kw : Token) (ts : List Token) :
    pOperator c (fuel + 1) pipe (kwTok "take" kw) ts =
      some ⟨.take pipe kw.span (pRowCount c fuel ts).val, mkOpaque (pRowCount c fuel ts).errs, (pRowCount c fuel ts).rest⟩ := by
  dispatch_simp

theorem C07_takeOperator_ir (c : PCtx) (fuel : Nat) (pipe kw : Token) (ts : List Token) :
    (runOp c (bodyOf "takeOperator") fuel pipe kw ts).map some =
      .ok (pOperator c (fuel + 1) pipe.span (kwTok "take" kw) ts) := by
  simp only [bodyOf, takeOperator_ir, Option.map_some, Option.getD_some, takeOperator_run, pOperator_take]
  rfl

/-! ### asOperator -/

theorem asOperator_run (c : PCtx) (fuel : Nat) (pipe kw : Token) (ts : List Token) :
    runOp c asOperatorBody fuel pipe kw ts =
      .ok ⟨.as_ pipe.span kw.span (pIdent c ts).val, mkOpaque (pIdent c ts).errs, (pIdent c ts).rest⟩ := by
  unfold asOperatorBody
  ir_simp

theorem pOperator_as (c : PCtx) (fuel : Nat) (pipe : Span) (kw : Token) (ts : List Token) :
    pOperator c (fuel + 1) pipe (kwTok "as" kw) ts =
      some ⟨.as_ pipe kw.span (pIdent c ts).val, mkOpaque (pIdent c ts).errs, (pIdent c ts).rest⟩ := by
  dispatch_simp

theorem C07_asOperator_ir (c : PCtx) (fuel : Nat) (pipe kw : Token) (ts : List Token) :
    (runOp c (bodyOf "asOperator") fuel pipe kw ts).map some =
      .ok (pOperator c (fuel + 1) pipe.span (kwTok "as" kw) ts) := by
  simp only [bodyOf, asOperator_ir, Option.map_some, Option.getD_some, asOperator_run, pOperator_as]
  rfl

/-! ### topOperator -/

/-- the model's production for `top`, spelled out -/
def topModel (c : PCtx) (fuel : Nat) (pipe kw : Span) (ts : List Token) : PRes Op :=
  let r := pRowCount c fuel ts
  if r.errs ≠ [] then ⟨.top pipe kw r.val .null none, mkOpaque r.errs, r.rest⟩
  else
    match r.rest with
    | [] => ⟨.top pipe kw r.val .null none, errAt c.eof, []⟩
    | by_ :: rest =>
      if by_.kind ≠ .by_ then ⟨.top pipe kw r.val .null none, errAt by_.span, r.rest⟩
      else
        let rt := pSortTerm c fuel rest
        ⟨.top pipe kw r.val by_.span rt.val, mkOpaque rt.errs, rt.rest⟩

theorem pOperator_top (c : PCtx) (fuel : Nat) (pipe : Span) (kw : Token) (ts : List Token) :
    pOperator c (fuel + 1) pipe (kwTok "top" kw) ts = some (topModel c fuel pipe kw.span ts) := by
  dispatch_simp
  unfold topModel
  cases h : (pRowCount c fuel ts).errs with
  | cons e es => simp [h]
  | nil =>
    cases hr : (pRowCount c fuel ts).rest with
    | nil => simp [h, hr]
    | cons b rest => by_cases hk : b.kind = .by_ <;> simp [h, hr, hk, Token.span]

theorem kind_by : TokKind.ofGoName "TokenBy" = some .by_ := by decide

theorem topOperator_run (c : PCtx) (fuel : Nat) (pipe kw : Token) (ts : List Token) :
    runOp c topOperatorBody fuel pipe kw ts = .ok (topModel c fuel pipe.span kw.span ts) := by
  unfold topOperatorBody topModel
  cases h : (pRowCount c fuel ts).errs with
  | cons e es => ir_simp [h]
  | nil =>
    cases hr : (pRowCount c fuel ts).rest with
    | nil => ir_simp [h, hr, kind_by, eofTok, PCtx.eof, Span.index, Token.span, errAt]
    | cons b rest =>
      by_cases hk : b.kind = .by_
      · ir_simp [h, hr, kind_by, hk]
      · ir_simp [h, hr, kind_by, hk]

theorem C07_topOperator_ir (c : PCtx) (fuel : Nat) (pipe kw : Token) (ts : List Token) :
    (runOp c (bodyOf "topOperator") fuel pipe kw ts).map some =
      .ok (pOperator c (fuel + 1) pipe.span (kwTok "top" kw) ts) := by
  simp only [bodyOf, topOperator_ir, Option.map_some, Option.getD_some, topOperator_run, pOperator_top]
  rfl

end Pql.OpIR
