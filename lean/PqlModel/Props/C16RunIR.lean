/-
Property C16, tie by translation: the main loop of the command-line tool.

The body of `func run(ctx, output, input, logError) error` (cmd/pql/main.go) is regenerated from
the Go source on every run as an IR (`Facts.cliIR`, `Facts.cliRunParams`; translator
`harness/extract_cli.go`, interpreter `Model/CliIR.lean`).  This file proves that the hand-written
model `cliRun` (with `cliLine`, `cliStatement`) IS the interpretation of the regenerated IR:

  `C16_run_ir` — for every `compile`, every list of lines and both values of the read-error flag,
  interpreting the regenerated body of `run` with the library instantiated by the model's
  `splitStatements`, `scan` and the parameter `compile` terminates without a panic and without
  getting stuck, and writes exactly `(cliRun compile lines readErr).out`, calls the error callback
  exactly `.nErrors` times and returns a non-nil error iff `.exitNonZero`.

The proof is by induction over the lines (`scanLoop_fold`) and, inside one line, over the pieces
`SplitStatements` returns (`rangeLoop_fold`); one piece is `stmt_step`.  The sticky `finalError`
variable is, inside the loop, a function of the model's `failed` flag (`errOf`).

A dropped `+ ";X"`, a prelude extended without `";\n"`, a missing `continue`, a builder reset to
something else than the last piece, a final statement compiled without the prelude, the read-error
check moved after the final statement … change the regenerated IR and break `run_ir` (the decoded
body is not the expected one).
-/
import PqlModel.Model.CliIR
import PqlModel.Lemmas.CliLemmasSplit
namespace Pql.CliIR
open Pql
set_option linter.unusedSimpArgs false

/-- the library as the model sees it: the model's `SplitStatements` and `Scan`, `Compile` a parameter -/
def modelLib (compile : Bytes → Option Bytes) : Lib := ⟨splitStatements, scan, compile⟩

/-! ### the expected body -/

def msgCompile : String := "one or more statements could not be compiled"
def msgRead : String := "input could not be read completely"

/-- `len(tokens) > 0 && tokens[0].Kind == parser.TokenIdentifier && tokens[0].Value == "let"` -/
def letCond : Cond :=
  .and (.and (.lenGt 0 (.var "tokens")) (.kindIs "tokens" 0 "TokenIdentifier")) (.valueIs "tokens" 0 "let")

/-- the body of `for _, stmt := range statements[:len(statements)-1]` -/
def stmtBody : List Stmt :=
  [.def_ "tokens" (.scan (.var "stmt")),
   .ite letCond
     [.scope
        [.compile "_" "err" (.cat (.cat (.sbStr "letStatements") (.var "stmt")) (.lit ";X")),
         .ite (.notNil "err")
           [.call "logError" (.var "err"), .set "finalError" (.errNew msgCompile)]
           [.write "letStatements" (.var "stmt"), .write "letStatements" (.lit ";\n")]],
      .continue_]
     [],
   .compile "sql" "err" (.cat (.sbStr "letStatements") (.var "stmt")),
   .ite (.notNil "err")
     [.call "logError" (.var "err"), .set "finalError" (.errNew msgCompile), .continue_]
     [],
   .fprintfS "output" "" "\n\n" (.var "sql")]

/-- the body of `for scanner.Scan()` -/
def lineBody : List Stmt :=
  [.write "sb" (.scanBytes "scanner"),
   .writeByte "sb" "\n",
   .def_ "statements" (.split (.sbStr "sb")),
   .ite (.lenEq 1 (.var "statements")) [.continue_] [],
   .range "stmt" (.init "statements") stmtBody,
   .reset "sb",
   .write "sb" (.last "statements")]

/-- the statements after the loop: the read-error check, the unterminated last statement, the result -/
def tailBody : List Stmt :=
  [.scope
     [.def_ "err" (.scanErr "scanner"),
      .ite (.notNil "err")
        [.call "logError" (.errorfW "read input: %w" (.var "err")), .set "finalError" (.errNew msgRead)]
        []],
   .scope
     [.def_ "stmt" (.sbStr "sb"),
      .ite (.lenGt 0 (.scan (.var "stmt")))
        [.compile "sql" "err" (.cat (.sbStr "letStatements") (.var "stmt")),
         .ite (.notNil "err") [.call "logError" (.var "err"), .ret (.errNew msgCompile)] [],
         .fprintfS "output" "" "\n\n" (.var "sql")]
        []],
   .ret (.var "finalError")]

def runIR : List Stmt :=
  [.newScanner "scanner" "input",
   .newSb "sb",
   .stderrNote "input" "Reading from terminal (use semicolons to end statements)...",
   .varErr "finalError",
   .newSb "letStatements",
   .forScan "scanner" lineBody] ++ tailBody

/-- what the translator regenerates from cmd/pql/main.go decodes to the expected body -/
theorem run_ir : decode Facts.cliIR = some runIR := by rfl

theorem run_params :
    paramVars Facts.cliRunParams =
      some [("ctx", .ctx), ("output", .writer), ("input", .reader), ("logError", .logger)] := by rfl

/-! ### states -/

/-- the variables in scope in the body of the scanner loop, innermost first -/
def loopVars (lets : Bytes) (e : Option GoErr) (sb : Bytes) : List (String × Val) :=
  [("letStatements", .builder lets), ("finalError", .err e), ("sb", .builder sb), ("scanner", .scanner),
   ("logError", .logger), ("input", .reader), ("output", .writer), ("ctx", .ctx)]

/-- inside the loop `finalError` is a function of the model's sticky flag -/
def errOf (s : CliState) : Option GoErr := if s.failed then some (.new msgCompile) else none

/-- the interpreter state that stands for the model state `s` when the builder `sb` holds `sb`,
    with `extra` variables declared on top -/
def mkSt (extra : List (String × Val)) (s : CliState) (sb : Bytes) (inp : List Bytes) (cur : Bytes) (dn re : Bool) : State :=
  ⟨extra ++ loopVars s.lets (errOf s) sb, s.out, s.nErrors, inp, cur, dn, re⟩

/-- a loop body's run: it ends normally or by `continue`, and once its own declarations are out of
    scope the state is `target` -/
def StepsTo (r : M (Flow × State)) (outer target : State) : Prop :=
  ∃ f st1, r = .ok (f, st1) ∧ (f = .next ∨ f = .cont) ∧ st1.leave outer = target

theorem rangeLoop_fold {α : Type} (elem : String) (body : State → M (Flow × State)) (mk : α → State)
    (step : α → Bytes → α) :
    ∀ (xs : List Bytes) (a : α),
      (∀ a, ∀ x ∈ xs, StepsTo (body ((mk a).declare elem (.str x))) (mk a) (mk (step a x))) →
      rangeLoop elem body (xs.map .str) (mk a) = .ok (.next, mk (xs.foldl step a))
  | [], _, _ => rfl
  | x :: xs, a, h => by
    obtain ⟨f, st1, h1, h2, h3⟩ := h a x List.mem_cons_self
    have ih := rangeLoop_fold elem body mk step xs (step a x) (fun a y hy => h a y (List.mem_cons_of_mem _ hy))
    simp only [List.map_cons, rangeLoop, h1, List.foldl_cons, bind, Except.bind]
    rcases h2 with rfl | rfl <;> simp only [h3, ih]

theorem scanLoop_fold (body : State → M (Flow × State)) (mk : CliState → List Bytes → Bytes → State)
    (step : CliState → Bytes → CliState)
    (hmk : ∀ s inp cur, { mk s inp cur with input := [], scanDone := true } = { mk s [] cur with scanDone := true })
    (hmk2 : ∀ s inp cur l ls, { mk s inp cur with input := ls, cur := l } = mk s ls l) :
    ∀ (ls : List Bytes) (s : CliState) (inp : List Bytes) (cur : Bytes),
      (∀ s inp cur l ls', StepsTo (body (mk s ls' l)) (mk s inp cur) (mk (step s l) ls' l)) →
      ∃ c, scanLoop body ls (mk s inp cur) = .ok (.next, { mk (ls.foldl step s) [] c with scanDone := true })
  | [], s, inp, cur, _ => ⟨cur, by simp only [scanLoop, hmk, List.foldl_nil]⟩
  | l :: ls, s, inp, cur, h => by
    obtain ⟨f, st1, h1, h2, h3⟩ := h s inp cur l ls
    obtain ⟨c, ih⟩ := scanLoop_fold body mk step hmk hmk2 ls (step s l) ls l h
    refine ⟨c, ?_⟩
    simp only [scanLoop, hmk2, h1, List.foldl_cons, bind, Except.bind]
    rcases h2 with rfl | rfl <;> simp only [h3, ih]

/-! ### evaluating the body -/

theorem ofString_semiX : Bytes.ofString ";X" = [59, 88] := by decide
theorem ofString_semiNl : Bytes.ofString ";\n" = [59, 10] := by decide
theorem ofString_nl : Bytes.ofString "\n" = [10] := by decide
theorem ofString_nlnl : Bytes.ofString "\n\n" = [10, 10] := by decide
theorem ofString_empty : Bytes.ofString "" = [] := by decide
theorem kind_ident : TokKind.ofGoName "TokenIdentifier" = some .ident := by decide

syntax "cli_simp" (" [" Lean.Parser.Tactic.simpLemma,* "]")? : tactic
macro_rules
  | `(tactic| cli_simp) => `(tactic| cli_simp [])
  | `(tactic| cli_simp [$ls,*]) =>
    `(tactic| simp [execBlock, exec, eval, evalCond, State.get, State.declare, State.assign, State.leave, assignIn,
        withBuilder, strOf, lenOf, tokAt, stuck, goPanic, bind, Except.bind, pure, Except.pure, Except.map,
        loopVars, mkSt, modelLib, ofString_semiX, ofString_semiNl, ofString_nl, ofString_nlnl, ofString_empty,
        kind_ident, $ls,*])

theorem stmt_step (compile : Bytes → Option Bytes) (pieces : List Bytes) (text : Bytes) (inp : List Bytes) (cur : Bytes)
    (dn re : Bool) (s : CliState) (stmt : Bytes) :
    StepsTo (execBlock (modelLib compile) stmtBody
        ((mkSt [("statements", .strs pieces)] s text inp cur dn re).declare "stmt" (.str stmt)))
      (mkSt [("statements", .strs pieces)] s text inp cur dn re)
      (mkSt [("statements", .strs pieces)] (cliStatement compile s stmt) text inp cur dn re) := by
  unfold StepsTo stmtBody letCond cliStatement isLetStatement
  cases hs : scan stmt with
  | nil =>
    cases hc : compile (s.lets ++ stmt) with
    | none =>
      cli_simp [hs, hc]
      exact ⟨_, _, ⟨rfl, rfl⟩, by simp, by simp [errOf]⟩
    | some sql =>
      cli_simp [hs, hc]
      exact ⟨_, _, ⟨rfl, rfl⟩, by simp, by simp [errOf]⟩
  | cons t ts =>
    by_cases hk : t.kind = .ident
    · cases hv : (t.value == Bytes.ofString "let")
      · cases hc : compile (s.lets ++ stmt) with
        | none =>
          cli_simp [hs, hc, hk, hv]
          exact ⟨_, _, ⟨rfl, rfl⟩, by simp, by simp [errOf]⟩
        | some sql =>
          cli_simp [hs, hc, hk, hv]
          exact ⟨_, _, ⟨rfl, rfl⟩, by simp, by simp [errOf]⟩
      · have hX : s.lets ++ stmt ++ Bytes.ofString ";X" = s.lets ++ (stmt ++ [59, 88]) := by simp [ofString_semiX]
        rw [hX]
        cases hc : compile (s.lets ++ (stmt ++ [59, 88])) with
        | none =>
          cli_simp [hs, hc, hk, hv]
          exact ⟨_, _, ⟨rfl, rfl⟩, by simp, by simp [errOf]⟩
        | some sql =>
          cli_simp [hs, hc, hk, hv]
          exact ⟨_, _, ⟨rfl, rfl⟩, by simp, by simp [errOf]⟩
    · cases hc : compile (s.lets ++ stmt) with
      | none =>
        cli_simp [hs, hc, hk]
        exact ⟨_, _, ⟨rfl, rfl⟩, by simp, by simp [errOf]⟩
      | some sql =>
        cli_simp [hs, hc, hk]
        exact ⟨_, _, ⟨rfl, rfl⟩, by simp, by simp [errOf]⟩

/-- all pieces but the last -/
theorem pieces_loop (compile : Bytes → Option Bytes) (pieces : List Bytes) (text : Bytes) (inp : List Bytes) (cur : Bytes)
    (dn re : Bool) (xs : List Bytes) (s : CliState) :
    rangeLoop "stmt" (execBlock (modelLib compile) stmtBody) (xs.map .str)
        (mkSt [("statements", .strs pieces)] s text inp cur dn re) =
      .ok (.next, mkSt [("statements", .strs pieces)] (xs.foldl (cliStatement compile) s) text inp cur dn re) :=
  rangeLoop_fold "stmt" _ (fun s => mkSt [("statements", .strs pieces)] s text inp cur dn re) (cliStatement compile) xs s
    (fun a x _ => stmt_step compile pieces text inp cur dn re a x)

theorem execBlock_append (lib : Lib) : ∀ (xs ys : List Stmt) (st : State),
    execBlock lib (xs ++ ys) st =
      (execBlock lib xs st >>= fun r => match r.1 with | .next => execBlock lib ys r.2 | _ => pure r)
  | [], ys, st => by simp [execBlock, bind, Except.bind]
  | x :: xs, ys, st => by
    simp only [List.cons_append, execBlock, bind, Except.bind]
    cases exec lib x st with
    | error e => rfl
    | ok r =>
      obtain ⟨f, st1⟩ := r
      cases f <;> simp [execBlock_append lib xs ys st1, bind, Except.bind, pure, Except.pure]

/-- the fold over the pieces keeps what the line loop does not touch -/
theorem foldl_pending (compile : Bytes → Option Bytes) : ∀ (xs : List Bytes) (s : CliState),
    (xs.foldl (cliStatement compile) s).pending = s.pending
  | [], _ => rfl
  | x :: xs, s => by
    rw [List.foldl_cons, foldl_pending compile xs]
    unfold cliStatement
    split <;> split <;> rfl

def linePre : List Stmt :=
  [.write "sb" (.scanBytes "scanner"), .writeByte "sb" "\n", .def_ "statements" (.split (.sbStr "sb"))]
def lineOne : Stmt := .ite (.lenEq 1 (.var "statements")) [.continue_] []
def lineRange : Stmt := .range "stmt" (.init "statements") stmtBody
def linePost : List Stmt := [.reset "sb", .write "sb" (.last "statements")]

theorem lineBody_eq : lineBody = linePre ++ (lineOne :: lineRange :: linePost) := rfl

theorem line_pre (compile : Bytes → Option Bytes) (s : CliState) (re : Bool) (l : Bytes) (ls : List Bytes) :
    execBlock (modelLib compile) linePre (mkSt [] s s.pending ls l false re) =
      .ok (.next, mkSt [("statements", .strs (splitStatements (s.pending ++ l ++ [10])))] s (s.pending ++ l ++ [10]) ls l false re) := by
  unfold linePre
  cli_simp

theorem line_range (compile : Bytes → Option Bytes) (s : CliState) (re : Bool) (l : Bytes) (ls : List Bytes)
    (text : Bytes) (xs : List Bytes) (last : Bytes) :
    exec (modelLib compile) lineRange (mkSt [("statements", .strs (xs ++ [last]))] s text ls l false re) =
      .ok (.next, mkSt [("statements", .strs (xs ++ [last]))] (xs.foldl (cliStatement compile) s) text ls l false re) := by
  have hev : eval (modelLib compile) (mkSt [("statements", .strs (xs ++ [last]))] s text ls l false re) (.init "statements") =
      .ok (.strs xs) := by cli_simp
  unfold lineRange
  simp only [exec, hev, bind, Except.bind]
  exact pieces_loop compile _ text ls l false re xs s

theorem line_step (compile : Bytes → Option Bytes) (s : CliState) (inp : List Bytes) (cur : Bytes) (re : Bool)
    (l : Bytes) (ls : List Bytes) :
    StepsTo (execBlock (modelLib compile) lineBody (mkSt [] s s.pending ls l false re))
      (mkSt [] s s.pending inp cur false re)
      (mkSt [] (cliLine compile s l) (cliLine compile s l).pending ls l false re) := by
  have hne := splitStatements_ne_nil (s.pending ++ l ++ [10])
  unfold cliLine
  simp only []
  rw [lineBody_eq, execBlock_append, line_pre]
  generalize s.pending ++ l ++ [10] = text at *
  cases hr : (splitStatements text).reverse with
  | nil => simp at hr; exact absurd hr hne
  | cons last initRev =>
    have hp : splitStatements text = initRev.reverse ++ [last] := by
      have := congrArg List.reverse hr
      simpa using this
    rw [hp]
    cases initRev with
    | nil =>
      unfold StepsTo lineOne
      cli_simp
      exact ⟨_, _, ⟨rfl, rfl⟩, by simp, by simp [errOf]⟩
    | cons x xs =>
      have hone : exec (modelLib compile) lineOne (mkSt [("statements", .strs ((x :: xs).reverse ++ [last]))] s text ls l false re) =
          .ok (.next, mkSt [("statements", .strs ((x :: xs).reverse ++ [last]))] s text ls l false re) := by
        unfold lineOne
        cli_simp
      unfold StepsTo
      simp only [bind, Except.bind, execBlock, hone, line_range]
      cli_simp [linePost, foldl_pending]
      exact ⟨_, _, ⟨rfl, rfl⟩, by simp, by simp [errOf]⟩

/-- all lines -/
theorem lines_loop (compile : Bytes → Option Bytes) (re : Bool) (lines : List Bytes) (s : CliState) (inp : List Bytes) (cur : Bytes) :
    ∃ c, scanLoop (execBlock (modelLib compile) lineBody) lines (mkSt [] s s.pending inp cur false re) =
      .ok (.next, mkSt [] (lines.foldl (cliLine compile) s) (lines.foldl (cliLine compile) s).pending [] c true re) :=
  scanLoop_fold _ (fun s inp cur => mkSt [] s s.pending inp cur false re) (cliLine compile)
    (fun _ _ _ => rfl) (fun _ _ _ _ _ => rfl) lines s inp cur
    (fun s inp cur l ls => line_step compile s inp cur re l ls)

/-! ### after the loop -/

/-- what `run` does once the lines are consumed, from the loop's final model state -/
def tailOutcome (compile : Bytes → Option Bytes) (s : CliState) (re : Bool) : Outcome :=
  let n := if re then s.nErrors + 1 else s.nErrors
  let e := if re then some (.new msgRead) else errOf s
  if (scan s.pending).isEmpty then ⟨s.out, n, e⟩
  else
    match compile (s.lets ++ s.pending) with
    | some sql => ⟨s.out ++ sql ++ [10, 10], n, e⟩
    | none => ⟨s.out, n + 1, some (.new msgCompile)⟩

theorem tail_run (compile : Bytes → Option Bytes) (s : CliState) (c : Bytes) (re : Bool) :
    ∃ st, execBlock (modelLib compile) tailBody (mkSt [] s s.pending [] c true re) =
        .ok (.ret (tailOutcome compile s re).err, st) ∧
      st.out = (tailOutcome compile s re).out ∧ st.nErrors = (tailOutcome compile s re).nErrors := by
  unfold tailBody tailOutcome
  cases re <;> cases hs : scan s.pending <;> cases hc : compile (s.lets ++ s.pending) <;>
    cli_simp [hs, hc]

/-! ### the whole function -/

def runPre : List Stmt :=
  [.newScanner "scanner" "input", .newSb "sb",
   .stderrNote "input" "Reading from terminal (use semicolons to end statements)...",
   .varErr "finalError", .newSb "letStatements"]

theorem runIR_eq : runIR = runPre ++ (.forScan "scanner" lineBody :: tailBody) := rfl

theorem run_pre (compile : Bytes → Option Bytes) (lines : List Bytes) (re : Bool) :
    execBlock (modelLib compile) runPre
        { vars := [("logError", .logger), ("input", .reader), ("output", .writer), ("ctx", .ctx)],
          input := lines, readErr := re } =
      .ok (.next, mkSt [] {} [] lines [] false re) := by
  unfold runPre
  cli_simp [errOf]

/-- the outcome of `run` in terms of the model's loop state -/
def runOutcome (compile : Bytes → Option Bytes) (lines : List Bytes) (readErr : Bool) : Outcome :=
  tailOutcome compile (lines.foldl (cliLine compile) {}) readErr

theorem runOutcome_result (compile : Bytes → Option Bytes) (lines : List Bytes) (readErr : Bool) :
    (runOutcome compile lines readErr).result = cliRun compile lines readErr := by
  unfold runOutcome tailOutcome cliRun Outcome.result
  generalize lines.foldl (cliLine compile) {} = s
  cases readErr <;> cases hs : (scan s.pending).isEmpty <;> cases hc : compile (s.lets ++ s.pending) <;>
    simp [hs, hc, errOf] <;> cases s.failed <;> simp

/-- interpreting the regenerated body of `run` yields exactly the model's outcome -/
theorem interpRun_eq (compile : Bytes → Option Bytes) (lines : List Bytes) (readErr : Bool) :
    interpRun (modelLib compile) lines readErr = .ok (runOutcome compile lines readErr) := by
  obtain ⟨c, hloop⟩ := lines_loop compile readErr lines {} lines []
  obtain ⟨st, htail, hout, hn⟩ := tail_run compile (lines.foldl (cliLine compile) {}) c readErr
  have hscan : exec (modelLib compile) (.forScan "scanner" lineBody) (mkSt [] {} [] lines [] false readErr) =
      .ok (.next, mkSt [] (lines.foldl (cliLine compile) {}) (lines.foldl (cliLine compile) {}).pending [] c true readErr) := by
    have hget : (mkSt [] {} [] lines [] false readErr).get "scanner" = .ok .scanner := rfl
    simp only [exec, hget, bind, Except.bind]
    exact hloop
  unfold interpRun runBody
  rw [run_ir, run_params, runIR_eq]
  simp only [execBlock_append, List.reverse_cons, List.reverse_nil, List.nil_append, List.cons_append, run_pre, bind, Except.bind,
    execBlock, hscan, htail, pure, Except.pure]
  unfold runOutcome
  rw [hout, hn]

/-- **C16, tie by translation**: for every `compile`, every list of lines and both values of the
    read-error flag, interpreting the body of `run` as regenerated from cmd/pql/main.go — with
    `parser.SplitStatements`, `parser.Scan` instantiated by the model's functions and `pql.Compile`
    by `compile` — neither panics nor gets stuck and produces exactly `cliRun compile lines readErr`:
    the bytes written to `output`, the number of `logError` calls, and whether the returned error is
    non-nil. -/
theorem C16_run_ir (compile : Bytes → Option Bytes) (lines : List Bytes) (readErr : Bool) :
    (interpRun (modelLib compile) lines readErr).map Outcome.result = .ok (cliRun compile lines readErr) := by
  rw [interpRun_eq, ← runOutcome_result]
  rfl

/-- the same for the tool on input bytes, `bufio.Scanner` as modelled by `bufioLines` -/
theorem C16_main_ir (compile : Bytes → Option Bytes) (input : Bytes) :
    (interpRun (modelLib compile) (bufioLines input).1 (bufioLines input).2).map Outcome.result =
      .ok (cliMain compile input) :=
  C16_run_ir compile _ _

/-- the error `run` returns is nil or one of its two literal messages -/
theorem C16_run_ir_error (compile : Bytes → Option Bytes) (lines : List Bytes) (readErr : Bool) :
    ∃ o, interpRun (modelLib compile) lines readErr = .ok o ∧
      (o.err = none ∨ o.err = some (.new msgCompile) ∨ o.err = some (.new msgRead)) := by
  refine ⟨_, interpRun_eq compile lines readErr, ?_⟩
  unfold runOutcome tailOutcome errOf
  generalize lines.foldl (cliLine compile) {} = s
  cases readErr <;> simp <;> split <;> (try split) <;> simp <;> cases s.failed <;> simp

/-! ### the interpreter's failure modes are real

`C16_run_ir` says the regenerated body never reaches them; an edited body can. -/

/-- `w[:len(w)-1]` and `w[len(w)-1]` of an empty slice panic -/
theorem empty_slice_panics (lib : Lib) (st : State) (h : st.get "w" = .ok (.strs [])) :
    eval lib st (.init "w") = .error .panic ∧ eval lib st (.last "w") = .error .panic := by
  simp [eval, h, bind, Except.bind, goPanic]

/-- `tokens[0].Kind == …` without the `len(tokens) > 0 &&` guard panics on a piece without tokens;
    with the guard it is false -/
theorem unguarded_index_panics (lib : Lib) (st : State) (h : st.get "tokens" = .ok (.toks [])) :
    evalCond lib st (.kindIs "tokens" 0 "TokenIdentifier") = .error .panic ∧
      evalCond lib st letCond = .ok false := by
  simp [evalCond, eval, tokAt, lenOf, letCond, h, bind, Except.bind, goPanic, pure, Except.pure]

/-- a body that falls off its end, or `continue`s outside a loop, is not a function body -/
theorem no_return_stuck (lib : Lib) (lines : List Bytes) (re : Bool) :
    runBody lib Facts.cliRunParams [] lines re = .error .stuck ∧
      runBody lib Facts.cliRunParams [.continue_] lines re = .error .stuck := by
  constructor <;> rfl

end Pql.CliIR
