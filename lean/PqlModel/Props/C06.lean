/-
Property C06 — let bindings and parameters are substituted by the documented scoping rules.

Proved here about the model's statement loop and identifier resolution: a later binding
shadows earlier ones and parameters; lets after the query have no effect; quoted and qualified
names are never looked up.  The substitution statement (`compile (lets ++ q)` reads like
`compile (resolve lets q)`) is checked by the oracle on every generated program with lets.
-/
import PqlModel.Model.Compile
namespace Pql.C06
open Pql

/-- **C06 (shadowing).** The most recent binding of a name wins. -/
theorem C06_shadow (scope : List (Bytes × List Chunk)) (n : Bytes) (v : List Chunk) :
    lookupScope ((n, v) :: scope) n = some v := by
  simp [lookupScope]

theorem C06_other_binding_irrelevant (scope : List (Bytes × List Chunk)) (n m : Bytes) (v : List Chunk)
    (h : m ≠ n) : lookupScope ((m, v) :: scope) n = lookupScope scope n := by
  have : (m == n) = false := by simp [h]
  simp [lookupScope, List.find?, this]

/-- **C06 (lets after the query are ignored).** Once the query has been seen, any number of
    let statements leaves scope and query unchanged, whatever their values are. -/
theorem C06_after_ignored (src : Bytes) (lets : List Stmt) (scope : List (Bytes × List Chunk)) (t : Tabular)
    (h : ∀ s ∈ lets, ∃ kw n a x, s = .let_ kw n a x) :
    compileStmts src lets scope (some t) = .ok (scope, some t) := by
  induction lets with
  | nil => rfl
  | cons s rest ih =>
    obtain ⟨kw, n, a, x, rfl⟩ := h s (by simp)
    simp only [compileStmts]
    exact ih (fun s hs => h s (by simp [hs]))

/-- **C06 (quoted names are never substituted).** -/
theorem C06_quoted_not_substituted (ctx : Ctx) (name : Bytes) (sp : Span) (h : ctx.mode ≠ .let_) :
    writeExpr ctx (.qident [⟨name, sp, true⟩]) = .ok [.qid name] := by
  simp [writeExpr, h, sepChunks]

/-- **C06 (a bound name is replaced by its value).** -/
theorem C06_bound_substituted (ctx : Ctx) (name : Bytes) (sp : Span) (v : List Chunk)
    (h : lookupScope ctx.scope name = some v) :
    writeExpr ctx (.qident [⟨name, sp, false⟩]) = .ok v := by
  simp [writeExpr, h]

end Pql.C06
