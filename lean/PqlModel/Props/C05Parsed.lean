/-
C05 / C01 / C03 side conditions, discharged for what the PARSER produces from source bytes.

Several headline theorems (C01 LexRender / ParseRoundtrip, C05 lexical and syntactic halves, C03)
are stated for arbitrary syntax trees under decidable side conditions on the tree:
`Expr.lexOK` / `Tabular.lexOK` / `stmtsLexOK`, `RT.shapeOK`, `C05.tabularOK`, `C05.hasSources`.
Here: every tree an error-free `parse src` returns satisfies them, provided

* (K4) no pass-through function is named like an SQL operator word or begins with `$`
  (`k4Free`, i.e. `CompileOracle.stmtsHaveKeywordFn stmts = false`), and
* (where the condition says "translatable") compilation succeeds.

Main results (namespace `Pql.ParsedOK`):
* `parsed_lexOK`     : error-free parse ∧ `fnNamesOK` ⟹ `stmtsLexOK`;
* `parsed_fnShape`, `parsed_lexOK_dollar` : function identifiers of parsed trees are unquoted and
  `[A-Za-z_$][A-Za-z0-9_]*`; `nameOK` fails exactly on a leading `$`;
* `parsed_shapeOK`   : error-free parse ∧ `k4Free` ⟹ every translated expression is `shapeOK`
  (in particular `x in ()` is a parse error, identifiers have ≥ 1 part);
* `parsed_hasSources`: error-free parse ⟹ `hasSources`;
* `parsed_tabularOK` : error-free parse ∧ successful compilation ∧ `k4Free` ⟹ `tabularOK` of the
  query as written; `parsed_resolved_tabularOK`: the same of the let-resolved query
  (`resolveLets`) of a program with `let`s; `parsed_letValuesOK`: the let values are `exprOK`;
* `C05_parsed_side_conditions` : the combination;
* counterexamples for each hypothesis and a non-vacuity example on concrete source bytes.
-/
import PqlModel.Lemmas.ParsedOKFn
import PqlModel.Lemmas.ParsedOKLets
import PqlModel.Props.C13Exact
import PqlModel.Props.C05ParseStatement
namespace Pql.ParsedOK
open Pql Pql.Exact CompileOracle Sql Pql.RT Pql.C05

/-- **K4-freedom** (decidable): no pass-through (not built-in) function of the program is named
    like an SQL operator word (`NOT AND OR IN IS CASE WHEN THEN ELSE END AS`, any letter case) or
    begins with `$` — `CompileOracle.stmtsHaveKeywordFn`, the oracle's definition of finding K4 -/
def k4Free (stmts : List Stmt) : Bool := !stmtsHaveKeywordFn stmts

/-! ### `StmtAll`: monotone, closed under ∧ -/

theorem StmtAll.imp {E E' : Expr → Prop} {EL EL' : ExprList → Prop} (hE : ∀ e, E e → E' e)
    (hL : ∀ l, EL l → EL' l) : ∀ s : Stmt, StmtAll E EL s → StmtAll E' EL' s
  | .let_ _ _ _ _, h => hE _ h
  | .tabular t, h => TabAll.imp hE hL t h

theorem StmtAll.and {E E' : Expr → Prop} {EL EL' : ExprList → Prop} : ∀ s : Stmt, StmtAll E EL s →
    StmtAll E' EL' s → StmtAll (fun e => E e ∧ E' e) (fun l => EL l ∧ EL' l) s
  | .let_ _ _ _ _, h, h' => ⟨h, h'⟩
  | .tabular t, h, h' => TabAll.and t h h'

/-! ### what an error-free parse gives -/

/-- the structural facts (`sOK`), the token facts (`tokP` at the leaves) and the non-empty lists,
    for every statement of an error-free parse -/
theorem parsed_facts (src : Bytes) (stmts : List Stmt) (h : parse src = (stmts, [])) :
    ∀ s ∈ stmts, s.Good ∧
      StmtAll (fun e => sOK e = true ∧ leavesE tokP e = true)
        (fun l => (sOKList l = true ∧ l.length ≠ 0) ∧ leavesL tokP l = true) s ∧
      (∀ t, s = .tabular t → TabNE t = true) := by
  have hp : parseTokens src.length (scan src) = (stmts, []) := h
  intro s hs
  have h1 := parseTokens_good hp s hs
  have h2 := parseTokens_all (E := fun e => sOK e = true)
    (EL := fun l => sOKList l = true ∧ l.length ≠ 0)
    (fun _ _ _ he => pExpr_sOK he) (fun _ _ _ he => pExprList_sOK he) hp s hs
  have h3 := parseTokens_leaves tokP tokP_error src.length (scan src) stmts (scan_tokOK src)
    (tokP_scan src) hp s hs
  exact ⟨h1, StmtAll.and s h2 h3.1, h3.2⟩

theorem stmtsLexOK_of : ∀ stmts : List Stmt,
    (∀ s ∈ stmts, StmtAll (fun e => e.lexOK = true) (fun l => l.lexOK = true) s) →
    stmtsLexOK stmts = true
  | [], _ => rfl
  | .tabular t :: _, h => by
    simp only [stmtsLexOK]
    exact tabLexOK_of t (h (.tabular t) (by simp))
  | .let_ kw n a x :: rest, h => by
    simp only [stmtsLexOK, Bool.and_eq_true]
    exact ⟨h (.let_ kw n a x) (by simp), stmtsLexOK_of rest fun s hs => h s (List.mem_cons_of_mem _ hs)⟩

/-! ### 1. `lexOK` -/

/-- **Deliverable 1.**  If `parse src` reports no error and every pass-through function name is one
    SQL word (`fnNamesOK`, decidable), then the program satisfies `stmtsLexOK`: every number literal
    is `numOK` (the scanner's normalised decimal spelling is one SQL number), every unary operator
    is a sign, no `.nil` node occurs in an expression position. -/
theorem parsed_lexOK (src : Bytes) (stmts : List Stmt) (h : parse src = (stmts, []))
    (hfn : fnNamesOK stmts = true) : stmtsLexOK stmts = true := by
  apply stmtsLexOK_of
  intro s hs
  obtain ⟨_, h2, _⟩ := parsed_facts src stmts h s hs
  have h3 := stmtAll_fnAll nameP stmts hfn s hs
  refine StmtAll.imp ?_ ?_ s (StmtAll.and s h2 h3)
  · rintro e ⟨⟨h1, h2⟩, h3⟩; exact lexOK_of_names e h1 h2 h3
  · rintro l ⟨⟨⟨h1, _⟩, h2⟩, h3⟩; exact lexOKList_of_names l h1 h2 h3

/-- **Function identifiers of parsed trees**: unquoted (the parser accepts a call only after an
    identifier token, never after a back-quoted one) and of the form `[A-Za-z_$][A-Za-z0-9_]*`;
    hence (`nameOK_of_fnShape`) `nameOK` fails exactly for the names that begin with `$`. -/
theorem parsed_fnShape (src : Bytes) (stmts : List Stmt) (h : parse src = (stmts, [])) :
    ∀ s ∈ stmts, StmtAll (fun e => exprFnAll fnShape e = true) (fun l => listFnAll fnShape l = true) s := by
  intro s hs
  obtain ⟨_, h2, _⟩ := parsed_facts src stmts h s hs
  refine StmtAll.imp ?_ ?_ s h2
  · rintro e ⟨h1, h2⟩; exact fnShape_of e h1 h2
  · rintro l ⟨⟨h1, _⟩, h2⟩; exact fnShapeList_of l h1 h2

/-- no pass-through function name begins with `$` -/
def noDollarFn (stmts : List Stmt) : Bool :=
  stmtsFnAll (fun fn => (knownFunction fn.name).isSome || fn.name.head? != some 36) stmts

mutual
theorem exprFnAll_imp2 {p q r : Ident → Bool} (hpq : ∀ fn, p fn = true → q fn = true → r fn = true) :
    ∀ e : Expr, exprFnAll p e = true → exprFnAll q e = true → exprFnAll r e = true
  | .nil, _, _ => by simp [exprFnAll]
  | .qident _, _, _ => by simp [exprFnAll]
  | .lit .., _, _ => by simp [exprFnAll]
  | .unary _ _ x, h, h' => by
    simp only [exprFnAll] at h h' ⊢; exact exprFnAll_imp2 hpq x h h'
  | .paren _ x _, h, h' => by
    simp only [exprFnAll] at h h' ⊢; exact exprFnAll_imp2 hpq x h h'
  | .binary x _ _ y, h, h' => by
    simp only [exprFnAll, Bool.and_eq_true] at h h' ⊢
    exact ⟨exprFnAll_imp2 hpq x h.1 h'.1, exprFnAll_imp2 hpq y h.2 h'.2⟩
  | .index x _ y _, h, h' => by
    simp only [exprFnAll, Bool.and_eq_true] at h h' ⊢
    exact ⟨exprFnAll_imp2 hpq x h.1 h'.1, exprFnAll_imp2 hpq y h.2 h'.2⟩
  | .inE x _ _ vs _, h, h' => by
    simp only [exprFnAll, Bool.and_eq_true] at h h' ⊢
    exact ⟨exprFnAll_imp2 hpq x h.1 h'.1, listFnAll_imp2 hpq vs h.2 h'.2⟩
  | .call fn _ args _, h, h' => by
    simp only [exprFnAll, Bool.and_eq_true] at h h' ⊢
    exact ⟨hpq fn h.1 h'.1, listFnAll_imp2 hpq args h.2 h'.2⟩
theorem listFnAll_imp2 {p q r : Ident → Bool} (hpq : ∀ fn, p fn = true → q fn = true → r fn = true) :
    ∀ l : ExprList, listFnAll p l = true → listFnAll q l = true → listFnAll r l = true
  | .nil, _, _ => by simp [listFnAll]
  | .cons e es, h, h' => by
    simp only [listFnAll, Bool.and_eq_true] at h h' ⊢
    exact ⟨exprFnAll_imp2 hpq e h.1 h'.1, listFnAll_imp2 hpq es h.2 h'.2⟩
end

theorem nameP_of_shape (fn : Ident) (h1 : fnShape fn = true)
    (h2 : ((knownFunction fn.name).isSome || fn.name.head? != some 36) = true) : nameP fn = true := by
  simp only [nameP, Bool.or_eq_true] at h2 ⊢
  rcases h2 with h2 | h2
  · exact Or.inl h2
  · right; rw [nameOK_of_fnShape fn h1]; exact h2

/-- `parsed_lexOK` with the side condition spelled out on the source level: no pass-through
    function name begins with `$` -/
theorem parsed_lexOK_dollar (src : Bytes) (stmts : List Stmt) (h : parse src = (stmts, []))
    (hd : noDollarFn stmts = true) : stmtsLexOK stmts = true := by
  apply stmtsLexOK_of
  intro s hs
  obtain ⟨_, h2, _⟩ := parsed_facts src stmts h s hs
  have h3 := stmtAll_fnAll _ stmts hd s hs
  have h4 := parsed_fnShape src stmts h s hs
  refine StmtAll.imp ?_ ?_ s (StmtAll.and s h2 (StmtAll.and s h3 h4))
  · rintro e ⟨⟨h1, h2⟩, h3, h4⟩
    exact lexOK_of_names e h1 h2 (exprFnAll_imp2 nameP_of_shape e h4 h3)
  · rintro l ⟨⟨⟨h1, _⟩, h2⟩, h3, h4⟩
    exact lexOKList_of_names l h1 h2 (listFnAll_imp2 nameP_of_shape l h4 h3)

/-! ### 2. `shapeOK` -/

theorem k4Free_stmtAll (stmts : List Stmt) (hk : k4Free stmts = true) :
    ∀ s ∈ stmts, StmtAll (fun e => exprHasKeywordFn e = false) (fun l => listHasKeywordFn l = false) s := by
  intro s hs
  simp only [k4Free, Bool.not_eq_true', stmtsHaveKeywordFn] at hk
  have := any_false hk s hs
  cases s with
  | tabular t => exact tabAll_noKw t this
  | let_ kw n a x => exact this

/-- **Deliverable 2.**  If `parse src` reports no error and the program is K4-free, every translated
    expression is `shapeOK` (qualified identifiers have at least one part, the list of every `in`
    test is non-empty, no pass-through function is named like an SQL operator word); join
    condition lists are moreover non-empty. -/
theorem parsed_shapeOK (src : Bytes) (stmts : List Stmt) (h : parse src = (stmts, []))
    (hk : k4Free stmts = true) :
    ∀ s ∈ stmts, StmtAll (fun e => shapeOK e = true)
      (fun l => shapeOKList l = true ∧ l.length ≠ 0) s := by
  intro s hs
  obtain ⟨_, h2, _⟩ := parsed_facts src stmts h s hs
  have h3 := k4Free_stmtAll stmts hk s hs
  refine StmtAll.imp ?_ ?_ s (StmtAll.and s h2 h3)
  · rintro e ⟨⟨h1, _⟩, h3⟩; exact shapeOK_of e h1 h3
  · rintro l ⟨⟨⟨h1, hl⟩, _⟩, h3⟩; exact ⟨shapeOKList_of l h1 h3, hl⟩

/-- the K4-free route to `lexOK` (K4-freedom includes "no `$`-initial pass-through name") -/
theorem parsed_lexOK_k4 (src : Bytes) (stmts : List Stmt) (h : parse src = (stmts, []))
    (hk : k4Free stmts = true) : stmtsLexOK stmts = true := by
  apply stmtsLexOK_of
  intro s hs
  obtain ⟨_, h2, _⟩ := parsed_facts src stmts h s hs
  have h3 := k4Free_stmtAll stmts hk s hs
  refine StmtAll.imp ?_ ?_ s (StmtAll.and s h2 h3)
  · rintro e ⟨⟨h1, h2⟩, h3⟩; exact lexOK_of e h1 h2 h3
  · rintro l ⟨⟨⟨h1, _⟩, h2⟩, h3⟩; exact lexOKList_of l h1 h2 h3

/-! ### 4. `hasSources` -/

/-- **Deliverable 4.**  Every pipeline of an error-free parse (right-hand sides of joins included)
    has a source table. -/
theorem parsed_hasSources (src : Bytes) (stmts : List Stmt) (h : parse src = (stmts, [])) :
    ∀ t, .tabular t ∈ stmts → hasSources t = true := by
  intro t ht
  have hp : parseTokens src.length (scan src) = (stmts, []) := h
  have := parseTokens_good hp _ ht
  exact hasSources_of_good t this

/-! ### 3. `tabularOK` -/

/-- the query of a program without misuse has no misuse (for the names bound at that point) -/
theorem misuse_query : ∀ (stmts : List Stmt) (bound : List Bytes) (nq : Nat),
    Misuse.misuseStmts stmts bound nq = false →
    ∀ t, .tabular t ∈ stmts → ∃ b, Misuse.badTabular b t = false
  | [], _, _, _, t, ht => by cases ht
  | .tabular t' :: rest, bound, nq, h, t, ht => by
    simp only [Misuse.misuseStmts] at h
    split at h
    · cases h
    · simp only [Bool.or_eq_false_iff] at h
      rcases List.mem_cons.1 ht with ht | ht
      · cases ht; exact ⟨bound, h.1⟩
      · exact misuse_query rest bound (nq + 1) h.2 t ht
  | .let_ _ name _ x :: rest, bound, nq, h, t, ht => by
    simp only [Misuse.misuseStmts] at h
    have ht' : Stmt.tabular t ∈ rest := by
      rcases List.mem_cons.1 ht with ht | ht
      · cases ht
      · exact ht
    split at h
    · exact misuse_query rest bound nq h t ht'
    · simp only [Bool.or_eq_false_iff] at h
      exact misuse_query rest _ nq h.2 t ht'

/-- **Deliverable 3.**  If `parse src` reports no error, compilation succeeds and the program is
    K4-free, then the query `t` of the program (the program may contain `let` statements) satisfies
    `tabularOK`: every expression is `lexOK`, `shapeOK` and translatable (`tr` defined), the join
    condition built from every `on` list too (in join mode), and `sort` / `project` / `summarize`
    lists are non-empty.  (`tabularOK` is stated for `t` as written; for the let-resolved pipeline
    of a program with `let`s see `parsed_resolved_tabularOK`.) -/
theorem parsed_tabularOK (src sql : Bytes) (stmts : List Stmt) (h : parse src = (stmts, []))
    (hc : compile [] src = .ok sql) (hk : k4Free stmts = true) :
    ∀ t, .tabular t ∈ stmts → tabularOK t = true := by
  intro t ht
  have hm : Misuse.misuse [] stmts = false := by
    have := ((C13.C13_exact_source [] src).2.1.1 ⟨sql, hc⟩).2
    rw [h] at this
    exact this
  obtain ⟨b, hb⟩ := misuse_query stmts [] 0 hm t ht
  obtain ⟨hg, h2, hne⟩ := parsed_facts src stmts h _ ht
  have h3 := k4Free_stmtAll stmts hk _ ht
  have h4 := tabAll_notBad b t hb
  have hall : TabAll (fun e => exprOK e = true) (fun l => condsOK l = true) t := by
    refine TabAll.imp ?_ ?_ t (TabAll.and t (TabAll.and t h2 h3) h4)
    · rintro e ⟨⟨⟨h1, h2⟩, h3⟩, h4⟩; exact exprOKin_of_full false ⟨h1, h2, h3, h4⟩
    · rintro l ⟨⟨⟨⟨h1, _⟩, h2⟩, h3⟩, h4⟩; exact condsOK_of_full l h1 h2 h3 h4
  exact tabularOK_of t hg hall (hne t rfl)

/-! ### 5. the combination -/

/-- **C05, side conditions of parsed programs.**  For every source text on which `Parse` reports
    no error and `Compile` (without parameters) succeeds, and whose program is K4-free:
    the program satisfies `stmtsLexOK` (side condition of `C05_lex_statement`), and its query `t`
    satisfies `tabularOK` (side condition of `C05_parse_statement` / `C05_statement_structure`),
    `Tabular.lexOK` and `hasSources` (side conditions of `C05_split_refines`, C03). -/
theorem C05_parsed_side_conditions (src sql : Bytes) (stmts : List Stmt)
    (hp : parse src = (stmts, [])) (hc : compile [] src = .ok sql) (hk : k4Free stmts = true) :
    stmtsLexOK stmts = true ∧
    ∀ t, .tabular t ∈ stmts → tabularOK t = true ∧ t.lexOK = true ∧ hasSources t = true := by
  refine ⟨parsed_lexOK_k4 src stmts hp hk, fun t ht => ?_⟩
  refine ⟨parsed_tabularOK src sql stmts hp hc hk t ht, ?_, parsed_hasSources src stmts hp t ht⟩
  obtain ⟨_, h2, _⟩ := parsed_facts src stmts hp _ ht
  have h3 := k4Free_stmtAll stmts hk _ ht
  apply tabLexOK_of
  refine TabAll.imp ?_ ?_ t (TabAll.and t h2 h3)
  · rintro e ⟨⟨h1, h2⟩, h3⟩; exact lexOK_of e h1 h2 h3
  · rintro l ⟨⟨⟨h1, _⟩, h2⟩, h3⟩; exact lexOKList_of l h1 h2 h3

/-- the single-query case, in the form of the task statement -/
theorem C05_parsed_side_conditions_single (src sql : Bytes) (t : Tabular)
    (hp : parse src = ([.tabular t], [])) (hc : compile [] src = .ok sql)
    (hk : k4Free [.tabular t] = true) :
    stmtsLexOK [.tabular t] = true ∧ tabularOK t = true ∧ t.lexOK = true ∧ hasSources t = true := by
  have := C05_parsed_side_conditions src sql _ hp hc hk
  exact ⟨this.1, this.2 t (by simp)⟩


/-! ### programs with `let` statements: the let values -/

/-- the value of a let before the query, in a program without misuse, has no misuse -/
theorem misuse_lets : ∀ (lets rest : List Stmt) (bound : List Bytes),
    (∀ s ∈ lets, ∃ kw n a x, s = Stmt.let_ kw n a x) →
    Misuse.misuseStmts (lets ++ rest) bound 0 = false →
    ∀ kw n a x, Stmt.let_ kw n a x ∈ lets → ∃ b, Misuse.badExpr .letValue b x = false
  | [], _, _, _, _, _, _, _, _, hm => by cases hm
  | .tabular t :: _, _, _, hl, _, _, _, _, _, _ => by
    obtain ⟨_, _, _, _, h⟩ := hl _ List.mem_cons_self
    cases h
  | .let_ kw' n' a' x' :: lets, rest, bound, hl, h, kw, n, a, x, hm => by
    simp only [List.cons_append, Misuse.misuseStmts, ge_iff_le, Nat.le_zero_eq, Nat.succ_ne_zero,
      if_false, Bool.or_eq_false_iff] at h
    rcases List.mem_cons.1 hm with hm | hm
    · cases hm; exact ⟨bound, h.1⟩
    · exact misuse_lets lets rest _ (fun s hs => hl s (List.mem_cons_of_mem _ hs)) h.2 kw n a x hm

/-- **Let values.**  In a program `lets ++ query :: rest` that parses, compiles and is K4-free, the
    value of every `let` before the query is `lexOK`, `shapeOK` and translatable (`exprOK`).
    (For the let-RESOLVED pipeline see `parsed_resolved_tabularOK`.) -/
theorem parsed_letValuesOK (src sql : Bytes) (lets rest : List Stmt)
    (hl : ∀ s ∈ lets, ∃ kw n a x, s = Stmt.let_ kw n a x)
    (h : parse src = (lets ++ rest, [])) (hc : compile [] src = .ok sql)
    (hk : k4Free (lets ++ rest) = true) :
    ∀ kw n a x, Stmt.let_ kw n a x ∈ lets → exprOK x = true := by
  intro kw n a x hx
  have hm : Misuse.misuse [] (lets ++ rest) = false := by
    have := ((C13.C13_exact_source [] src).2.1.1 ⟨sql, hc⟩).2
    rw [h] at this
    exact this
  obtain ⟨b, hb⟩ := misuse_lets lets rest [] hl hm kw n a x hx
  have hmem : Stmt.let_ kw n a x ∈ lets ++ rest := List.mem_append_left _ hx
  obtain ⟨_, h2, _⟩ := parsed_facts src _ h _ hmem
  have h3 := k4Free_stmtAll _ hk _ hmem
  exact exprOKin_of_full false ⟨h2.1, h2.2, h3, arOK_of_notBad _ _ x hb⟩

/-- **Deliverable 3 for programs with `let`s.**  If `parse src` reports no error, compilation
    succeeds and the program is K4-free, then the let-RESOLVED query (`resolveLets`: every bound
    name replaced by its parenthesised, itself resolved, value — the pipeline on which
    `C06_subst_program` + `C05_parse_statement` speak about programs with lets) is `tabularOK`. -/
theorem parsed_resolved_tabularOK (src sql : Bytes) (stmts : List Stmt) (h : parse src = (stmts, []))
    (hc : compile [] src = .ok sql) (hk : k4Free stmts = true) :
    ∀ q, resolveLets stmts [] = some q → tabularOK q = true := by
  have hm : Misuse.misuse [] stmts = false := by
    have := ((C13.C13_exact_source [] src).2.1.1 ⟨sql, hc⟩).2
    rw [h] at this
    exact this
  refine resolveLets_tabularOK stmts [] [] (fun _ hkv => by cases hkv) ?_ hm
  intro s hs
  obtain ⟨hg, h2, hne⟩ := parsed_facts src stmts h s hs
  exact ⟨hg, StmtAll.and s h2 (k4Free_stmtAll stmts hk s hs), hne⟩

/-! ### an application: C05 (ParseStatement) for source text -/

/-- what `Compile` returned is the rendering of the chunks `compileChunks` produced -/
theorem compile_ok_chunks (src sql : Bytes) (stmts : List Stmt) (hp : parse src = (stmts, []))
    (hc : compile [] src = .ok sql) : ∃ cs, compileChunks src [] stmts = .ok cs ∧ sql = renderChunks cs := by
  unfold compile at hc
  simp only [hp, List.isEmpty_nil, Bool.not_true, Bool.false_eq_true, if_false] at hc
  cases hr : compileChunks src [] stmts with
  | ok cs =>
    rw [hr] at hc
    simp only [CompileResult.ok.injEq] at hc
    exact ⟨cs, rfl, hc.symm⟩
  | error e =>
    rw [hr] at hc
    cases e <;> cases hc

/-- **C05 (ParseStatement) on source text.**  For a source that is one query, parses, compiles
    and is K4-free: the SQL text `Compile` returns is the rendering of chunks whose tokens the
    reference SQL parser reads as the INTENDED statement — the side condition `tabularOK` of
    `C05_parse_statement` is discharged. -/
theorem C05_parse_statement_source (src sql : Bytes) (t : Tabular)
    (hp : parse src = ([.tabular t], [])) (hc : compile [] src = .ok sql)
    (hk : k4Free [.tabular t] = true) :
    ∃ cs st want, sql = renderChunks cs ∧ parseStatement (toksOf cs) = some st ∧
      Intended.intended src [.tabular t] = some want ∧ statementEq st want = true := by
  obtain ⟨cs, hcs, hsql⟩ := compile_ok_chunks src sql _ hp hc
  have hok := parsed_tabularOK src sql _ hp hc hk t (by simp)
  obtain ⟨st, want, h1, h2, h3⟩ := C05_parse_statement src t cs hok hcs
  exact ⟨cs, st, want, hsql, h1, h2, h3⟩

/-! ### examples, counterexamples (concrete source bytes; `decide +kernel` = evaluation by the kernel,
no axiom beyond `propext` / `Quot.sound`; each input was replayed on the Go implementation) -/

def isOk : CompileResult → Bool
  | .ok _ => true
  | _ => false

theorem isOk_iff (r : CompileResult) : isOk r = true ↔ ∃ sql, r = .ok sql := by
  cases r <;> simp [isOk]

/-- the query (first tabular statement) of a program -/
def queryOf : List Stmt → Option Tabular
  | [] => none
  | .tabular t :: _ => some t
  | _ :: rest => queryOf rest

/-- `t | where a > 1.50 and f(b) in (2, 0x1F) | project x = -a, b | join kind=inner (u | take 5) on k, $left.a == $right.b | summarize c = count() by b | sort by c desc | take 10` -/
def exSrc : Bytes :=
  [116, 32, 124, 32, 119, 104, 101, 114, 101, 32, 97, 32, 62, 32, 49, 46, 53, 48, 32, 97, 110, 100,
   32, 102, 40, 98, 41, 32, 105, 110, 32, 40, 50, 44, 32, 48, 120, 49, 70, 41, 32, 124, 32, 112, 114,
   111, 106, 101, 99, 116, 32, 120, 32, 61, 32, 45, 97, 44, 32, 98, 32, 124, 32, 106, 111, 105, 110,
   32, 107, 105, 110, 100, 61, 105, 110, 110, 101, 114, 32, 40, 117, 32, 124, 32, 116, 97, 107, 101,
   32, 53, 41, 32, 111, 110, 32, 107, 44, 32, 36, 108, 101, 102, 116, 46, 97, 32, 61, 61, 32, 36, 114,
   105, 103, 104, 116, 46, 98, 32, 124, 32, 115, 117, 109, 109, 97, 114, 105, 122, 101, 32, 99, 32, 61,
   32, 99, 111, 117, 110, 116, 40, 41, 32, 98, 121, 32, 98, 32, 124, 32, 115, 111, 114, 116, 32, 98,
   121, 32, 99, 32, 100, 101, 115, 99, 32, 124, 32, 116, 97, 107, 101, 32, 49, 48]

unseal Pql.scanFrom in
theorem ex_parses : (parse exSrc).2 = [] := by decide +kernel
unseal Pql.scanFrom in
theorem ex_compiles : isOk (compile [] exSrc) = true := by decide +kernel
unseal Pql.scanFrom in
theorem ex_k4Free : k4Free (parse exSrc).1 = true := by decide +kernel
unseal Pql.scanFrom in
theorem ex_fnNamesOK : fnNamesOK (parse exSrc).1 = true := by decide +kernel
unseal Pql.scanFrom in
theorem ex_nontrivial : ((queryOf (parse exSrc).1).map fun t => (tablesOf t).length) = some 2 := by decide +kernel

/-- **non-vacuity**: all hypotheses of `C05_parsed_side_conditions` hold of a concrete source with a
    float and a hex literal, a pass-through function, `in`, a unary sign, `project`, a join with a
    nested pipeline and two conditions, `summarize … by`, `sort`, `take` — hence its conclusion -/
theorem ex_side_conditions :
    stmtsLexOK (parse exSrc).1 = true ∧
    ∀ t, .tabular t ∈ (parse exSrc).1 → tabularOK t = true ∧ t.lexOK = true ∧ hasSources t = true := by
  obtain ⟨sql, hc⟩ := (isOk_iff _).1 ex_compiles
  have hp : parse exSrc = ((parse exSrc).1, []) := by rw [← ex_parses]
  exact C05_parsed_side_conditions exSrc sql _ hp hc ex_k4Free

unseal Pql.scanFrom in
/-- cross-check by evaluation -/
theorem ex_direct : stmtsLexOK (parse exSrc).1 = true ∧ (queryOf (parse exSrc).1).map tabularOK = some true := by
  decide +kernel

/-- `let n = 5; let m = n; t | where a > m and f(n) in (m, 2) | project a, m | take n` -/
def letSrc : Bytes :=
  [108, 101, 116, 32, 110, 32, 61, 32, 53, 59, 32, 108, 101, 116, 32, 109, 32, 61, 32, 110, 59, 32,
   116, 32, 124, 32, 119, 104, 101, 114, 101, 32, 97, 32, 62, 32, 109, 32, 97, 110, 100, 32, 102, 40,
   110, 41, 32, 105, 110, 32, 40, 109, 44, 32, 50, 41, 32, 124, 32, 112, 114, 111, 106, 101, 99, 116,
   32, 97, 44, 32, 109, 32, 124, 32, 116, 97, 107, 101, 32, 110]

unseal Pql.scanFrom in
theorem let_hyps : (parse letSrc).2 = [] ∧ isOk (compile [] letSrc) = true ∧ k4Free (parse letSrc).1 = true ∧
    (resolveLets (parse letSrc).1 []).isSome = true := by decide +kernel

/-- non-vacuity of `parsed_resolved_tabularOK` on a program with two (chained) lets -/
theorem let_resolved_ok : ∃ q, resolveLets (parse letSrc).1 [] = some q ∧ tabularOK q = true := by
  obtain ⟨h1, h2, h3, h4⟩ := let_hyps
  obtain ⟨sql, hc⟩ := (isOk_iff _).1 h2
  obtain ⟨q, hq⟩ := Option.isSome_iff_exists.1 h4
  have hp : parse letSrc = ((parse letSrc).1, []) := by rw [← h1]
  exact ⟨q, hq, parsed_resolved_tabularOK letSrc sql _ hp hc h3 q hq⟩

unseal Pql.scanFrom in
/-- cross-check by evaluation -/
theorem let_direct : (resolveLets (parse letSrc).1 []).map tabularOK = some true := by decide +kernel

/-- `t | where Not(a)` (finding K4) -/
def k4Src : Bytes := [116, 32, 124, 32, 119, 104, 101, 114, 101, 32, 78, 111, 116, 40, 97, 41]

unseal Pql.scanFrom in
/-- **`k4Free` is needed** for `shapeOK` / `tabularOK`: `t | where Not(a)` parses, compiles (to
    `… WHERE Not("a")`), all its function names are SQL words, but it is not `tabularOK` -/
theorem k4Free_needed :
    (parse k4Src).2 = [] ∧ isOk (compile [] k4Src) = true ∧ fnNamesOK (parse k4Src).1 = true ∧
    k4Free (parse k4Src).1 = false ∧ (queryOf (parse k4Src).1).map tabularOK = some false := by
  decide +kernel

/-- `t | where $f(a)` (finding K4, second clause) -/
def dollarSrc : Bytes := [116, 32, 124, 32, 119, 104, 101, 114, 101, 32, 36, 102, 40, 97, 41]

unseal Pql.scanFrom in
/-- **`fnNamesOK` (resp. `k4Free`) is needed** for `lexOK`: `t | where $f(a)` parses and compiles (to
    `… WHERE $f("a")`, which SQL reads as a parameter), but is not `lexOK` -/
theorem fnNamesOK_needed :
    (parse dollarSrc).2 = [] ∧ isOk (compile [] dollarSrc) = true ∧ fnNamesOK (parse dollarSrc).1 = false ∧
    noDollarFn (parse dollarSrc).1 = false ∧ k4Free (parse dollarSrc).1 = false ∧
    stmtsLexOK (parse dollarSrc).1 = false := by
  decide +kernel

/-- `t | where not(a, b)` -/
def aritySrc : Bytes := [116, 32, 124, 32, 119, 104, 101, 114, 101, 32, 110, 111, 116, 40, 97, 44, 32, 98, 41]

unseal Pql.scanFrom in
/-- **successful compilation is needed** for `tabularOK`: `t | where not(a, b)` parses, is K4-free
    and `lexOK`, but `Compile` rejects it (a documented misuse) and it is not translatable -/
theorem compile_needed :
    (parse aritySrc).2 = [] ∧ k4Free (parse aritySrc).1 = true ∧ compile [] aritySrc = .error ∧
    stmtsLexOK (parse aritySrc).1 = true ∧ (queryOf (parse aritySrc).1).map tabularOK = some false := by
  decide +kernel

unseal Pql.scanFrom in
/-- **an error-free parse is needed**: `t | where x in ()` and ``t | where `f`(1)`` are parse
    errors (so the empty `in` list and the quoted function name never reach the compiler) -/
theorem in_empty_rejected : (parse [116, 32, 124, 32, 119, 104, 101, 114, 101, 32, 120, 32, 105, 110, 32, 40, 41]).2 ≠ [] := by decide +kernel
unseal Pql.scanFrom in
theorem quoted_call_rejected : (parse [116, 32, 124, 32, 119, 104, 101, 114, 101, 32, 96, 102, 96, 40, 49, 41]).2 ≠ [] := by decide +kernel

/-- ```` `` | where `` == 1 | count ```` -/
def emptyNameSrc : Bytes := [96, 96, 32, 124, 32, 119, 104, 101, 114, 101, 32, 96, 96, 32, 61, 61, 32, 49, 32, 124, 32, 99, 111, 117, 110, 116]

unseal Pql.scanFrom in
/-- **observation** (not a violated side condition): a back-quoted identifier may be empty.  The
    source parses and compiles (to `… FROM "" WHERE coalesce("" = 1, FALSE)`); the tree has a table
    and a column with the empty name; `shapeOK` / `tabularOK` only ask for at least one *part* and
    hold. -/
theorem empty_quoted_name :
    (parse emptyNameSrc).2 = [] ∧ isOk (compile [] emptyNameSrc) = true ∧
    ((queryOf (parse emptyNameSrc).1).map fun | .mk (some i) _ => (i.name, i.quoted) | _ => ([0], false)) = some ([], true) ∧
    (queryOf (parse emptyNameSrc).1).map tabularOK = some true := by
  decide +kernel

end Pql.ParsedOK
