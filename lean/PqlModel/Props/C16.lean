/-
Property C16 — the command-line tool's line loop refines the whole-input specification.
-/
import PqlModel.Lemmas.CliLemmasLast
namespace Pql.C16
open Pql

/-- **C16 (refinement), general form.** For every `compile`, every list of lines (a line may
    even contain newline bytes) and both values of `readErr`, the line loop with its pending
    buffer computes exactly what the specification computes from the whole normalised input. -/
theorem C16_refines_all (compile : Bytes → Option Bytes) (lines : List Bytes) (readErr : Bool) :
    cliRun compile lines readErr = CliSpec.run compile lines readErr := by
  rw [cliRun_eq_cliFrom, specRun_eq_specFrom]
  have := cliFrom_eq_specFrom compile lines readErr {} {} cliRel_init closed_nil
    (by
      show splitStatements [] = [[]]
      exact splitStatements_nosemi [] (by simp [scan, scanFrom_nil]))
  simpa using this

/-- **C16 (refinement).** The line loop refines the whole-input specification, for every
    `compile`, every list of lines in which no line contains a newline byte (what
    `bufio.Scanner` delivers), and both values of `readErr`.  (The hypothesis `hl` is not needed
    for the proof, see `C16_refines_all`.) -/
theorem C16_refines (compile : Bytes → Option Bytes) (lines : List Bytes) (readErr : Bool)
    (_hl : ∀ l ∈ lines, (10 : UInt8) ∉ l) :
    cliRun compile lines readErr = CliSpec.run compile lines readErr :=
  C16_refines_all compile lines readErr

/-- The statement that is still open after `lines`: the text behind the last semicolon token
    of the normalised input. -/
def openStatement (lines : List Bytes) : Bytes := lastPiece (CliSpec.normalise lines)

/-- **C16 (a query at the end of the input, terminated or not).**  Let the last input line be
    `q`, where `q` scans to at least one token and to no semicolon token, and a ';' put
    behind `q` is scanned as a semicolon token (`q` does not end inside a comment, string or
    quoted name); let the statement that `q` completes (the text behind the last semicolon
    token of the earlier lines, then `q`) not be a `let` statement.  If `compile` ignores one
    trailing newline, the specification gives the same result (standard output, number of
    logged errors, exit status) whether the last line is `q;` or `q`. -/
theorem C16_last_terminated_or_not (compile : Bytes → Option Bytes) (lines : List Bytes)
    (q : Bytes) (readErr : Bool)
    (hnl : ∀ x, compile (x ++ [10]) = compile x)
    (htok : scan q ≠ [])
    (hsemi : ∀ t ∈ scan q, t.kind ≠ .semi)
    (hb : (⟨.semi, q.length, q.length + 1, []⟩ : Token) ∈ scan (q ++ [59, 10]))
    (hlet : isLetStatement (openStatement lines ++ q) = false) :
    CliSpec.run compile (lines ++ [q ++ [59]]) readErr =
      CliSpec.run compile (lines ++ [q]) readErr := by
  have hN := closed_normalise lines
  have hP : Closed (openStatement lines) := closed_lastPiece hN
  have hPs : ∀ t ∈ scan (openStatement lines), t.kind ≠ .semi :=
    C15.C15_no_semi_in_piece _ _ (lastPiece_mem _)
  have hscan : scan (openStatement lines ++ q) =
      scan (openStatement lines) ++ (scan q).map (Token.shift (openStatement lines).length) := by
    unfold scan
    rw [scanFrom_append _ q 0 (hP q), scanFrom_eq_map_scan q]
    simp [scan]
  have hq : Reaches (q ++ 59 :: [10]) q.length := by
    have := (reaches_iff_semi_mem q [10] 0).mpr (by simpa [scan] using hb)
    exact this
  have h1 : CliSpec.normalise (lines ++ [q ++ [59]]) =
      CliSpec.normalise lines ++ (q ++ 59 :: [10]) := by
    rw [normalise_concat]; simp
  have h2 : CliSpec.normalise (lines ++ [q]) = CliSpec.normalise lines ++ (q ++ [10]) :=
    normalise_concat lines q
  rw [specRun_eq_specFrom, specRun_eq_specFrom, h1, h2,
    specFrom_append compile {} _ _ readErr (hN _), specFrom_append compile {} _ _ readErr (hN _)]
  have := specFrom_last_terminated_or_not compile
    ((splitStatements (CliSpec.normalise lines)).dropLast.foldl (CliSpec.statement compile) {})
    (openStatement lines ++ q) readErr hnl
    (by
      intro t ht
      rw [hscan] at ht
      rcases List.mem_append.mp ht with ht | ht
      · exact hPs t ht
      · obtain ⟨t', ht', rfl⟩ := List.mem_map.mp ht
        exact hsemi t' ht')
    (by
      have := Reaches.trans (hP (q ++ 59 :: [10])) (by rw [List.drop_left]; exact hq)
      simpa using this)
    (by
      rw [hscan]
      intro h0
      have := (List.append_eq_nil_iff.mp h0).2
      exact htok (List.map_eq_nil_iff.mp this))
    hlet
  simpa [openStatement] using this

/-- The same for the line loop itself (by `C16_refines_all`). -/
theorem C16_last_terminated_or_not_cli (compile : Bytes → Option Bytes) (lines : List Bytes)
    (q : Bytes) (readErr : Bool)
    (hnl : ∀ x, compile (x ++ [10]) = compile x)
    (htok : scan q ≠ [])
    (hsemi : ∀ t ∈ scan q, t.kind ≠ .semi)
    (hb : (⟨.semi, q.length, q.length + 1, []⟩ : Token) ∈ scan (q ++ [59, 10]))
    (hlet : isLetStatement (openStatement lines ++ q) = false) :
    cliRun compile (lines ++ [q ++ [59]]) readErr = cliRun compile (lines ++ [q]) readErr := by
  rw [C16_refines_all, C16_refines_all]
  exact C16_last_terminated_or_not compile lines q readErr hnl htok hsemi hb hlet

/-! sanity tests (evaluated, not theorems) -/

/-- a `compile` that ignores newlines: succeeds on an even number of other bytes -/
private def demoCompile (s : Bytes) : Option Bytes :=
  let t := s.filter (· != 10)
  if t.length % 2 = 0 then some t else none

-- a;'b   /   ;c'd;   /   //x;   /   ef      (a string broken by the end of a line, a comment)
#guard cliRun demoCompile [[97, 59, 39, 98], [59, 99, 39, 100, 59], [47, 47, 120, 59], [101, 102]] false
  = CliSpec.run demoCompile [[97, 59, 39, 98], [59, 99, 39, 100, 59], [47, 47, 120, 59], [101, 102]] false
-- `ab;` and `ab` as the only line
#guard CliSpec.run demoCompile [[97, 98, 59]] false = CliSpec.run demoCompile [[97, 98]] false
-- `htok` is needed: a lone `;` is an (empty, failing) statement, an empty line is nothing
#guard CliSpec.run (fun _ => none) [[59]] false ≠ CliSpec.run (fun _ => none) [[]] false
-- `hb` is needed: in `'x;` the ';' is inside the broken string and reaches `compile`
#guard CliSpec.run demoCompile [[39, 120, 59]] false ≠ CliSpec.run demoCompile [[39, 120]] false
#guard (CliSpec.run (fun _ => none) [[97, 59]] false).nErrors = 1

end Pql.C16
