/-
THE HEADLINE PROPERTIES ON THE INTERPRETATIONS OF THE TRANSLATED GO CODE — part A: the compiler
(C01 – C06).

Every theorem here is a statement about what an IR REGENERATED from the Go source computes when it is
interpreted (`ExprIR.interpCompile`, `ExprIR.interpWriteExpression`, `ExprIR.interpWriteMaybeParen`,
`SplitIR.interpSplit`, `JoinCondIR.interpBuild`, `WriteIR.interpQuote`, `OpIR.runParse … (bodyOf "Parse")`),
obtained from the model-level headline theorem by rewriting with the `…_ir` equality
("model function = interpretation of the regenerated IR").  No hand-model function occurs in a hypothesis
or conclusion except as part of a SPECIFICATION (`Rel.interp`, `Intended.intended`, `tr`, `readSql`, …) or
as a decidable side condition on the parsed tree.

`interpCompile List.reverse opts src` is `(*CompileOptions).Compile(src)` with `opts = none` the nil
options and `some ps` the parameter map `ps` (visited in list order; `IRHeadlinesC.C14_*` shows the order
is irrelevant).  `runParse src.length (scan src) (bodyOf "Parse")` is `parser.Parse(src)`.

Callees that are still MODEL functions inside `interpCompile` (each tied to its own regenerated IR by a
separate theorem, see Lemmas/NoPanicIR.lean): `parser.Parse` (`C07_Parse_ir`), `splitQueries`
(`C02_split_ir`), `(*subquery).write` (`C05_write_ir`) and the `writeExpression` it calls
(`C01_writeExpression_ir`).
-/
import PqlModel.Lemmas.IRHeadlinesAux
import PqlModel.Props.C01LexRender
import PqlModel.Props.C01Syntactic
import PqlModel.Props.C01
import PqlModel.Props.C02EndToEndSource
import PqlModel.Props.C02ProgramNames
import PqlModel.Props.C02Split
import PqlModel.Props.C02SplitIR
import PqlModel.Props.C03
import PqlModel.Props.C04
import PqlModel.Props.C04Shape
import PqlModel.Props.C05NoPlaceholder
import PqlModel.Props.C05Parsed
import PqlModel.Props.C06
import PqlModel.Props.C06Params
import PqlModel.Props.C06Placeholders
import PqlModel.Props.C13
namespace Pql.IRHead
open Pql Sql CompileOracle Intended Pql.ParsedOK Pql.E2E Pql.RT JoinFull
set_option linter.unusedSimpArgs false

/-- `parser.Parse(src)` as interpreted from the regenerated body -/
local notation "ParseIR(" src ")" => OpIR.runParse (List.length src) (scan src) (OpIR.bodyOf "Parse")
/-- `(*CompileOptions).Compile(src)` as interpreted from the regenerated front part and assembly -/
local notation "CompileIR(" opts ", " src ")" => ExprIR.interpCompile List.reverse opts src

/-! ## C01 — the expression writer -/

/-- **C01 (LexRender) on the translated `writeExpression`.**  Whatever chunks the interpretation of the
    regenerated `writeExpression` returns for a `lexOK` expression, their bytes lex under the reference SQL
    lexer to exactly the chunk tokens. -/
theorem C01_lexRender_ir (ctx : Ctx) (e : Expr) (cs : List Chunk) (hscope : ctx.scope = [])
    (hok : e.lexOK = true) (h : ExprIR.interpWriteExpression ctx e = .ok cs) :
    Sql.lex .standard (renderChunks cs) = some (toksOf cs) :=
  C01.C01_lexRender ctx e cs hscope hok ((writeExpr_ir_ok_iff ctx e hok cs).1 h)

/-- **C01 (ParseRoundtrip) on the translated `writeExpression`.**  The tokens of what the interpretation
    writes are read by the reference SQL parser as the intended translation `tr e` (up to `normS`), stopping
    before any follower, at every sufficiently large fuel. -/
theorem C01_parse_roundtrip_ir (ctx : Ctx) (e : Expr) (cs : List Chunk) (want : Sql.SExpr) (rest : List STok)
    (hscope : ctx.scope = []) (hok : e.lexOK = true) (hshape : shapeOK e = true)
    (hw : ExprIR.interpWriteExpression ctx e = .ok cs)
    (ht : CompileOracle.tr (ctx.mode == .join) e = some want) (hrest : C01.Stops rest) :
    ∃ s, normS s = normS want ∧
      ∃ fuel, ∀ fuel', fuel ≤ fuel' → Sql.pExprS fuel' 0 (toksOf cs ++ rest) = some (s, rest) :=
  C01.C01_parse_roundtrip_partial ctx e cs want rest hscope hok hshape ((writeExpr_ir_ok_iff ctx e hok cs).1 hw) ht hrest

/-- … at EVERY fuel at which the SQL reader returns at all -/
theorem C01_parse_roundtrip_anyfuel_ir (ctx : Ctx) (e : Expr) (cs : List Chunk) (want : Sql.SExpr) (rest : List STok)
    (hscope : ctx.scope = []) (hok : e.lexOK = true) (hshape : shapeOK e = true)
    (hw : ExprIR.interpWriteExpression ctx e = .ok cs)
    (ht : CompileOracle.tr (ctx.mode == .join) e = some want) (hrest : C01.Stops rest)
    (fuel : Nat) (s : Sql.SExpr) (r : List STok)
    (hp : Sql.pExprS fuel 0 (toksOf cs ++ rest) = some (s, r)) : normS s = normS want ∧ r = rest :=
  C01.C01_parse_roundtrip_anyfuel ctx e cs want rest hscope hok hshape ((writeExpr_ir_ok_iff ctx e hok cs).1 hw) ht hrest
    fuel s r hp

/-- **C01 (operands are units) on the translated `writeExpressionMaybeParen`.**  What the interpretation
    of the regenerated `writeExpressionMaybeParen` (with `writeExpression` and its callees interpreted)
    writes for an operand is read by the SQL reader's unary level as ONE operand, whatever follows. -/
theorem C01_operand_is_unit_ir (ctx : Ctx) (x : Expr) (cs : List Chunk) (want : Sql.SExpr) (rest : List STok)
    (hscope : ctx.scope = []) (hok : x.lexOK = true) (hshape : shapeOK x = true)
    (hw : ExprIR.interpWriteMaybeParen ctx x = .ok cs)
    (ht : CompileOracle.tr (ctx.mode == .join) x = some want) (hrest : Ends unaryEndTok rest) :
    ∃ s, normS s = normS want ∧
      ∃ fuel, ∀ fuel', fuel ≤ fuel' → Sql.pUnaryS fuel' (toksOf cs ++ rest) = some (s, rest) := by
  rw [ExprIR.C01_writeMaybeParen_ir ctx x (fun _ => good_of_lexOK x hok), liftW_ok_iff] at hw
  cases hb : writeExpr ctx x with
  | error e => rw [hb] at hw; cases hw
  | ok body =>
    rw [hb] at hw
    simp only [Except.map, Except.ok.injEq] at hw
    subst hw
    exact C01.C01_operand_is_unit ctx x body want rest hscope hok hshape hb ht hrest

/-- **C01 (source parentheses never matter) on the translated `writeExpression`** -/
theorem C01_unparen_ir (ctx : Ctx) (e : Expr) (hg : ctx.mode = .join → e.Good) :
    ExprIR.interpWriteExpression ctx (unparen e) = ExprIR.interpWriteExpression ctx e := by
  rw [ExprIR.C01_writeExpression_ir ctx e hg,
    ExprIR.C01_writeExpression_ir ctx (unparen e) (fun h => ExprIR.good_unparen e (hg h)), C01.C01_unparen_write]

/-- **C01 on translated code.**  For every context without scope, every `lexOK`, `shapeOK` expression of
    any depth and whatever the interpretation of the regenerated `writeExpression` returns for it: the bytes
    lex to the chunk tokens, and the reference SQL parser reads them back as the intended translation
    `tr e`, stopping before any follower.  (`lexOK` / `shapeOK`: known finding K4,
    `C01.C01_counterexample_Not`; they hold of every K4-free parsed tree, see C02 below.) -/
theorem C01_on_translated_code (ctx : Ctx) (e : Expr) (cs : List Chunk)
    (hscope : ctx.scope = []) (hok : e.lexOK = true) (hshape : shapeOK e = true)
    (hw : ExprIR.interpWriteExpression ctx e = .ok cs) :
    Sql.lex .standard (renderChunks cs) = some (toksOf cs) ∧
    ∀ (want : Sql.SExpr) (rest : List STok), CompileOracle.tr (ctx.mode == .join) e = some want → C01.Stops rest →
      ∃ s, normS s = normS want ∧
        ∃ fuel, ∀ fuel', fuel ≤ fuel' → Sql.pExprS fuel' 0 (toksOf cs ++ rest) = some (s, rest) :=
  ⟨C01_lexRender_ir ctx e cs hscope hok hw,
   fun want rest ht hrest => C01_parse_roundtrip_ir ctx e cs want rest hscope hok hshape hw ht hrest⟩

/-- non-vacuity: `f($left.x, -(y)) == $right.x` in join mode — the interpretation returns chunks -/
theorem C01_on_translated_code_nonvacuous :
    ∃ cs, ExprIR.interpWriteExpression ExprIR.joinCtx Glue.sample = .ok cs := by
  obtain ⟨_, h2, h3⟩ := ExprIR.C01_writeExpression_ir_nonvacuous
  rw [h2]
  cases hw : writeExpr ExprIR.joinCtx Glue.sample with
  | ok cs => exact ⟨cs, rfl⟩
  | error e => rw [hw] at h3; cases h3

/-! ## C02 / C03 — end to end on source bytes -/

/-- **C02 / C03 (end to end) on the translated `Parse` and `Compile`.**  If the interpretation of the
    regenerated `Parse` returns the single query `t` without error and the interpretation of the translated
    `Compile` (nil options) returns `sql`, then `sql`, read back by the reference SQL reader and evaluated AS
    READ by the reference evaluator, is the table the specification interpreter `Rel.interp` assigns to the
    pipeline — any operators, any number of joins nested to any depth — on every rectangular database.
    Hypotheses: exactly those of `E2EFinal.C02_end_to_end_bytes_raw` (`k4Free` = K4, `namesOk` = K3,
    `tabOpsOk`; counterexamples `E2EFinal.Cex.*`). -/
theorem C02_end_to_end_bytes_raw_ir (src sql : Bytes) (t : Tabular)
    (hp : ParseIR(src) = .ok ([.tabular t], [])) (hc : CompileIR(none, src) = .ok sql)
    (hk : k4Free [.tabular t] = true) (hnames : namesOk t = true) (hops : tabOpsOk t = true) :
    ∃ st, readSql sql = some st ∧ ∀ db, RectDB db → evalStatement db st = Rel.interp src db t :=
  E2EFinal.C02_end_to_end_bytes_raw src sql t ((parse_ir_iff src _).1 hp) ((compile_ir_ok_iff none src sql).1 hc)
    hk hnames hops

/-- … with the intended statement: what is read back IS the intended statement up to `normS` -/
theorem C02_end_to_end_bytes_detail_ir (src sql : Bytes) (t : Tabular)
    (hp : ParseIR(src) = .ok ([.tabular t], [])) (hc : CompileIR(none, src) = .ok sql)
    (hk : k4Free [.tabular t] = true) (hnames : namesOk t = true) (hops : tabOpsOk t = true) :
    ∃ st want, readSql sql = some st ∧ intended src [.tabular t] = some want ∧ statementEq st want = true ∧
      ∀ db, RectDB db →
        evalStatement db (normStatement st) = Rel.interp src db t ∧
        evalStatement db want = Rel.interp src db t :=
  E2EFinal.C02_end_to_end_bytes_detail src sql t ((parse_ir_iff src _).1 hp)
    ((compile_ir_ok_iff none src sql).1 hc) hk hnames hops

/-- **C02 / C06 (end to end, programs with `let` statements) on the translated `Parse` and `Compile`.**
    Hypotheses: exactly those of `E2EFinal.C02_end_to_end_program_bytes_detail`. -/
theorem C02_end_to_end_program_bytes_ir (src sql : Bytes) (lets : List Stmt) (t : Tabular)
    (hp : ParseIR(src) = .ok (lets ++ [.tabular t], [])) (hc : CompileIR(none, src) = .ok sql)
    (hk : k4Free (lets ++ [.tabular t]) = true)
    (hl : IsLets lets) (hjs : envJoinSafe (letsEnv lets []) = true) (hN : tabNamed t)
    (hnames : namesOk (substTabular (letsEnv lets []) t) = true)
    (hops : tabOpsOk (substTabular (letsEnv lets []) t) = true) :
    ∃ st want, readSql sql = some st ∧ noBangStatement st = true ∧
      intended src (lets ++ [.tabular t]) = some want ∧ statementEq st want = true ∧
      ∀ db, RectDB db →
        evalStatement db st = Rel.interp src db (substTabular (letsEnv lets []) t) ∧
        evalStatement db want = Rel.interp src db (substTabular (letsEnv lets []) t) ∧
        Rel.interpProgram src db (lets ++ [.tabular t]) =
          some (Rel.interp src db (substTabular (letsEnv lets []) t)) :=
  E2EFinal.C02_end_to_end_program_bytes_detail src sql lets t ((parse_ir_iff src _).1 hp)
    ((compile_ir_ok_iff none src sql).1 hc) hk hl hjs hN hnames hops

/-- … against `Rel.interpProgram`, without `tabNamed` (implicit column names allowed) -/
theorem C02_end_to_end_program_names_bytes_ir (src sql : Bytes) (lets : List Stmt) (t : Tabular)
    (hp : ParseIR(src) = .ok (lets ++ [.tabular t], [])) (hc : CompileIR(none, src) = .ok sql)
    (hk : k4Free (lets ++ [.tabular t]) = true)
    (hl : IsLets lets) (hjs : envJoinSafe (letsEnv lets []) = true)
    (hnames : namesOk (substTabular (letsEnv lets []) (Rel.nameTabular src t)) = true)
    (hops : tabOpsOk (substTabular (letsEnv lets []) (Rel.nameTabular src t)) = true) :
    ∃ st, readSql sql = some st ∧
      ∀ db, RectDB db → Rel.interpProgram src db (lets ++ [.tabular t]) = some (evalStatement db st) :=
  E2EMore.C02_end_to_end_program_names_bytes src sql lets t ((parse_ir_iff src _).1 hp)
    ((compile_ir_ok_iff none src sql).1 hc) hk hl hjs hnames hops

/-- compile with the TRANSLATED `Compile`, read the text back, evaluate what was read -/
def runBytesIR (src : Bytes) (db : DB) : Option Table :=
  match CompileIR(none, src) with
  | .ok sql => (readSql sql).map (evalStatement db)
  | .error _ => none

theorem runBytesIR_eq : runBytesIR = E2EFinal.runBytes := by
  funext src db
  unfold runBytesIR E2EFinal.runBytes
  rw [ExprIR.C06_compile_ir]
  show (match ExprIR.resultM (compile [] src) with | .ok sql => _ | .error _ => _) = _
  cases compile [] src <;> rfl

/-- **C02 (end to end, functional form) on the translated `Compile`**: under the decidable hypotheses
    `progHyps` (one Boolean), compile-with-the-interpretation, read back, evaluate = the meaning of the
    program the interpretation of `Parse` returns. -/
theorem C02_end_to_end_program_run_ir (src : Bytes) (h : E2EFinal.progHyps src = true) :
    ∃ stmts, ParseIR(src) = .ok (stmts, []) ∧
      ∀ db, RectDB db → (runBytesIR src db).isSome = true ∧ runBytesIR src db = Rel.interpProgram src db stmts := by
  have hp : (parse src).2 = [] := by
    unfold E2EFinal.progHyps at h
    split at h
    · rename_i stmts sql hp _; rw [hp]
    · cases h
  refine ⟨(parse src).1, ?_, ?_⟩
  · rw [OpIR.C07_Parse_ir, ← hp]
  · rw [runBytesIR_eq]
    exact E2EFinal.C02_end_to_end_program_run src h

/-- non-vacuity of the functional form on concrete source bytes (a `let`, a `where`, a `sort`, a `take`;
    a join with a let in its right side) -/
theorem C02_end_to_end_program_run_ir_nonvacuous :
    E2EFinal.progHyps E2EFinal.Ex.exLet1 = true ∧ E2EFinal.progHyps E2EFinal.Ex.exLet3 = true :=
  ⟨E2EFinal.Ex.exLet_hyps.1, E2EFinal.Ex.exLet_hyps.2.2⟩

/-- **C02 (the splitting invariants) on the translated `splitQueries` / `chainSubquery`.**  Whatever heap
    and slice the interpretation of the regenerated IR returns on the empty slice (the call in `Compile`),
    the subqueries it denotes (`SplitImp.abs`): a subquery with ORDER BY / LIMIT never renames columns, and
    reading every subquery as body; ORDER BY; LIMIT and concatenating gives exactly the operator list of
    the pipeline (joins at any depth) — a limit never crosses a sort, filter, projection or aggregation.
    `skeletonOk t` (no nil where the Go code dereferences): needed (`SplitImp.C02_refines_needs_*`), true of
    every parsed tree (`SplitImp.skeletonOk_of_parsed`). -/
theorem C02_split_invariants_ir (src : Bytes) (scope : List (Bytes × List Chunk)) (t : Tabular)
    (hg : SplitImp.skeletonOk t = true) (h : SplitImp.Heap) (dst : List SplitImp.Addr)
    (hr : SplitIR.interpSplit src scope #[] [] t = .ok (h, dst)) :
    (∀ s ∈ SplitImp.abs h dst, (s.sort.isSome ∨ s.take.isSome) →
      canAttachSort s.op = true ∧ ∀ o, s.op = some o → SplitQ.renames o = false) ∧
    (SplitImp.abs h dst).flatMap SplitQ.subClauses = SplitQ.tabClauses t := by
  have hm := SplitIR.C02_split_ir_refines_model_top src scope t hg
  rw [hr] at hm
  have hs : splitQueries src scope [] t = .ok (SplitImp.abs h dst) := by
    cases hq : splitQueries src scope [] t with
    | ok subs =>
      rw [hq] at hm
      simp only [Except.map, SplitIR.liftW, Except.ok.injEq] at hm
      rw [hm]
    | error e =>
      rw [hq] at hm
      cases e <;> simp [Except.map, SplitIR.liftW] at hm
  exact ⟨C02.C02_sort_not_after_rename src scope t _ hs, C02.C02_limit_never_crosses_nested src scope t _ hs⟩

/-- … for every query of a program the interpretation of `Parse` returns without error (the hypothesis
    `skeletonOk` is then a theorem), every scope -/
theorem C02_split_invariants_parsed_ir (src : Bytes) (stmts : List Stmt) (hp : ParseIR(src) = .ok (stmts, []))
    (t : Tabular) (ht : Stmt.tabular t ∈ stmts) (scope : List (Bytes × List Chunk))
    (h : SplitImp.Heap) (dst : List SplitImp.Addr)
    (hr : SplitIR.interpSplit src scope #[] [] t = .ok (h, dst)) :
    (∀ s ∈ SplitImp.abs h dst, (s.sort.isSome ∨ s.take.isSome) →
      canAttachSort s.op = true ∧ ∀ o, s.op = some o → SplitQ.renames o = false) ∧
    (SplitImp.abs h dst).flatMap SplitQ.subClauses = SplitQ.tabClauses t :=
  C02_split_invariants_ir src scope t
    (SplitImp.skeletonOk_of_parsed (show parseTokens src.length (scan src) = (stmts, []) from (parse_ir_iff src _).1 hp) t ht)
    h dst hr

/-- non-vacuity: on `T | join (U) on a` the interpretation of `splitQueries` returns a heap and a slice -/
theorem C02_split_invariants_ir_nonvacuous :
    SplitImp.skeletonOk SplitIR.exJoin = true ∧ ∃ r, SplitIR.interpSplit [] [] #[] [] SplitIR.exJoin = .ok r := by
  refine ⟨by decide, ?_⟩
  rw [SplitIR.C02_split_ir]
  have h : (SplitImp.splitQueriesI [] [] #[] [] SplitIR.exJoin).toBool = true := by decide
  cases hq : SplitImp.splitQueriesI [] [] #[] [] SplitIR.exJoin with
  | ok r => exact ⟨r, rfl⟩
  | error e => rw [hq] at h; cases h

/-- **C02 on translated code**: the end-to-end statement (single query and programs with lets). -/
theorem C02_on_translated_code :
    (∀ (src sql : Bytes) (t : Tabular),
      ParseIR(src) = .ok ([.tabular t], []) → CompileIR(none, src) = .ok sql →
      k4Free [.tabular t] = true → namesOk t = true → tabOpsOk t = true →
      ∃ st, readSql sql = some st ∧ ∀ db, RectDB db → evalStatement db st = Rel.interp src db t) ∧
    (∀ (src sql : Bytes) (lets : List Stmt) (t : Tabular),
      ParseIR(src) = .ok (lets ++ [.tabular t], []) → CompileIR(none, src) = .ok sql →
      k4Free (lets ++ [.tabular t]) = true → IsLets lets → envJoinSafe (letsEnv lets []) = true →
      namesOk (substTabular (letsEnv lets []) (Rel.nameTabular src t)) = true →
      tabOpsOk (substTabular (letsEnv lets []) (Rel.nameTabular src t)) = true →
      ∃ st, readSql sql = some st ∧
        ∀ db, RectDB db → Rel.interpProgram src db (lets ++ [.tabular t]) = some (evalStatement db st)) :=
  ⟨C02_end_to_end_bytes_raw_ir, C02_end_to_end_program_names_bytes_ir⟩

/-! ## C03 — joins -/

/-- **C03 (bare key, conjunction) on the translated `buildJoinCondition` / `rewriteSimpleJoinCondition`.**
    Interpreted from their regenerated bodies: a bare unquoted column `k` after `on` becomes
    `$left.k == $right.k`, a quoted name is left alone, and two conditions become the conjunction of their
    rewritings, in order. -/
theorem C03_join_condition_ir :
    (∀ (name : Bytes) (sp : Span), builtinIdent name = none →
      JoinCondIR.interpRewrite (.qident [⟨name, sp, false⟩]) =
        .ok (.binary (.qident [⟨leftAlias, .zero, false⟩, ⟨name, sp, false⟩]) .zero .eq
          (.qident [⟨rightAlias, .zero, false⟩, ⟨name, sp, false⟩]))) ∧
    (∀ (name : Bytes) (sp : Span),
      JoinCondIR.interpRewrite (.qident [⟨name, sp, true⟩]) = .ok (.qident [⟨name, sp, true⟩])) ∧
    (∀ c1 c2 : Expr, ∃ r1 r2, JoinCondIR.interpRewrite c1 = .ok r1 ∧ JoinCondIR.interpRewrite c2 = .ok r2 ∧
      JoinCondIR.interpBuild (.cons c1 (.cons c2 .nil)) = .ok (.binary r1 .zero .and_ r2)) := by
  refine ⟨fun name sp h => ?_, fun name sp => ?_, fun c1 c2 => ?_⟩
  · rw [JoinCondIR.C03_rewriteSimpleJoinCondition_ir, C03.C03_bare_key_rewrite name sp h]
  · rw [JoinCondIR.C03_rewriteSimpleJoinCondition_ir, C03.C03_quoted_key_not_rewritten]
  · exact ⟨_, _, JoinCondIR.C03_rewriteSimpleJoinCondition_ir c1, JoinCondIR.C03_rewriteSimpleJoinCondition_ir c2,
      by rw [JoinCondIR.C03_buildJoinCondition_ir, C03.C03_two_conditions_anded]⟩

/-- **C03 on translated code.**  (a) the join semantics is part of the end-to-end theorem on the
    interpretations of `Parse` and `Compile` — `Rel.interp` has the join case `joinTables` (nested loop;
    innerunique = distinct left rows; leftouter pads with NULLs), and `t` may contain any number of joins at
    any depth; (b) the join-condition rewriting as interpreted from its regenerated body. -/
theorem C03_on_translated_code :
    (∀ (src sql : Bytes) (t : Tabular),
      ParseIR(src) = .ok ([.tabular t], []) → CompileIR(none, src) = .ok sql →
      k4Free [.tabular t] = true → namesOk t = true → tabOpsOk t = true →
      ∃ st, readSql sql = some st ∧ ∀ db, RectDB db → evalStatement db st = Rel.interp src db t) ∧
    (∀ (name : Bytes) (sp : Span), builtinIdent name = none →
      JoinCondIR.interpRewrite (.qident [⟨name, sp, false⟩]) =
        .ok (.binary (.qident [⟨leftAlias, .zero, false⟩, ⟨name, sp, false⟩]) .zero .eq
          (.qident [⟨rightAlias, .zero, false⟩, ⟨name, sp, false⟩]))) ∧
    (∀ conds : ExprList, JoinCondIR.interpBuild conds = .ok (buildJoinCondition conds)) :=
  ⟨C02_end_to_end_bytes_raw_ir, C03_join_condition_ir.1, JoinCondIR.C03_buildJoinCondition_ir⟩

/-- non-vacuity of (a) with a join: the decidable hypotheses hold of
    `T | join kind=inner (U | where b > 1) on k | summarize c = count() by k = k` -/
theorem C03_on_translated_code_nonvacuous : E2EFinal.bytesHyps E2EFinal.Ex.exJoin = true :=
  E2EFinal.Ex.ex_hyps.2.1

end Pql.IRHead
