/-
Property C10, failed parses — "every span that is reported is either marked invalid or lies
inside the source".

For the error leaves of `parse src` (for every byte string, every fuel): a leaf either carries no
position (`span = none`: plain `fmt.Errorf` errors and the out-of-fuel leaf) or its span is the
span of a token of `scan src` or the EOF index `src.length` (`C10_error_spans_at_tokens`); since
the tokens lie inside the source (`C09_partition`), every reported span satisfies
`0 ≤ start ≤ stop ≤ len(src)` (`C10_error_spans_inside`).

For the partial trees `(parse src).1` (returned next to the errors): every `Span` field of every
node (`Stmt.SpansIn`, defined in Lemmas/TreeSpanLemmas.lean by listing the span fields of each
node type) is `Span.null`, `Span.zero`, the span of a token of `scan src`, or the extent of two
tokens in source order (`C10_partial_tree_spans_origin`); hence it is the invalid marker or lies
inside the source (`C10_partial_tree_spans_inside`).

Property theorems only; the per-production invariants live in
PqlModel/Lemmas/ErrSpanLemmas.lean, ErrSpanOps.lean, ErrSpanTop.lean (errors) and
TreeSpanLemmas.lean, TreeSpanOps.lean, TreeSpanTop.lean (trees).
-/
import PqlModel.Props.C09
import PqlModel.Lemmas.ErrSpanTop
import PqlModel.Lemmas.TreeSpanTop
namespace Pql.C10
open Pql

/-- a span inside a source of length `n` -/
def Inside (n : Nat) (sp : Span) : Prop := 0 ≤ sp.start ∧ sp.start ≤ sp.stop ∧ sp.stop ≤ (n : Int)

/-- a span that is the span of a token of `ts`, or the EOF index `n` -/
def AtToken (n : Nat) (ts : List Token) (sp : Span) : Prop :=
  sp = Span.index n ∨ ∃ t ∈ ts, sp = t.span

theorem ordered_le {lo hi : Nat} {ts : List Token} (h : C09.Ordered lo hi ts) : lo ≤ hi := by
  induction ts generalizing lo with
  | nil => exact h
  | cons t ts ih =>
    obtain ⟨h1, h2, h3⟩ := h
    have := ih h3
    omega

theorem ordered_mem {lo hi : Nat} {ts : List Token} (h : C09.Ordered lo hi ts) :
    ∀ t ∈ ts, lo ≤ t.start ∧ t.start < t.stop ∧ t.stop ≤ hi := by
  induction ts generalizing lo with
  | nil => intro t ht; cases ht
  | cons t' ts ih =>
    obtain ⟨h1, h2, h3⟩ := h
    intro t ht
    rcases List.mem_cons.mp ht with rfl | ht
    · exact ⟨h1, h2, ordered_le h3⟩
    · have := ih h3 t ht
      omega

/-- the tokens of `scan src` lie inside the source (from `C09_partition`) -/
theorem scan_tokens_inside (src : Bytes) : ToksIn (Inside src.length) (scan src) := by
  intro t ht
  have := ordered_mem (C09.C09_partition src) t ht
  simp only [Inside, Token.span]
  omega

/-- **C10 (error positions are token positions).** Every error leaf of `parse src` that carries
    a position carries the span of a token of `scan src`, or the EOF index `len(src)`. -/
theorem C10_error_spans_at_tokens (src : Bytes) :
    ∀ e ∈ (parse src).2, ∀ sp, e.span = some sp → AtToken src.length (scan src) sp := by
  unfold parse
  exact parseTokens_in (P := AtToken src.length (scan src)) src.length (scan src)
    (Or.inl rfl) (fun t ht => Or.inr ⟨t, ht, rfl⟩)

/-- **C10 (error spans lie inside the source).** Every span an error leaf of `parse src` reports
    satisfies `0 ≤ start ≤ stop ≤ len(src)`; the other leaves (`span = none`) report no position. -/
theorem C10_error_spans_inside :
    ∀ src : Bytes, ∀ e ∈ (parse src).2, ∀ sp, e.span = some sp →
      0 ≤ sp.start ∧ sp.start ≤ sp.stop ∧ sp.stop ≤ src.length := by
  intro src
  unfold parse
  exact parseTokens_in (P := Inside src.length) src.length (scan src)
    (by simp [Inside, Span.index]) (scan_tokens_inside src)

/-- a reported error span is valid in the sense of `Span.IsValid` -/
theorem C10_error_spans_valid (src : Bytes) :
    ∀ e ∈ (parse src).2, ∀ sp, e.span = some sp → sp.isValid = true := by
  intro e he sp hsp
  have := C10_error_spans_inside src e he sp hsp
  simp only [Span.isValid, Bool.and_eq_true, decide_eq_true_eq]
  omega

/-- the out-of-fuel leaf and position-less errors report no span (by definition) -/
theorem C10_fuel_leaf_no_span : ∀ e ∈ errFuel ++ errNoPos, e.span = none := by
  intro e he
  simp only [errFuel, errNoPos, List.cons_append, List.nil_append, List.mem_cons,
    List.not_mem_nil, or_false] at he
  rcases he with rfl | rfl <;> rfl

/-! ### the partial trees -/

/-- a span field that is the invalid marker `Span.null` or lies inside a source of length `n` -/
def NullOrInside (n : Nat) (sp : Span) : Prop := sp = Span.null ∨ Inside n sp

/-- where a span field of a tree comes from: never assigned (`null`, or Go's zero value), the
    span of a token, or the extent from one token to a later one -/
def TreeSpanOrigin (ts : List Token) (sp : Span) : Prop :=
  sp = Span.null ∨ sp = Span.zero ∨ (∃ t ∈ ts, sp = t.span) ∨
    (∃ t ∈ ts, ∃ t2 ∈ ts, t.stop ≤ t2.start ∧ sp = ⟨t.start, t2.stop⟩)

theorem ordered_pairwise {lo hi : Nat} {ts : List Token} (h : C09.Ordered lo hi ts) :
    ts.Pairwise (fun a b => a.stop ≤ b.start) := by
  induction ts generalizing lo with
  | nil => exact List.Pairwise.nil
  | cons t ts ih =>
    obtain ⟨_, _, h3⟩ := h
    exact List.Pairwise.cons (fun b hb => (ordered_mem h3 b hb).1) (ih h3)

theorem scan_toksQ_inside (src : Bytes) : ToksQ (NullOrInside src.length) (scan src) := by
  have hmem := ordered_mem (C09.C09_partition src)
  refine ⟨fun t ht => Or.inr (scan_tokens_inside src t ht), ?_⟩
  refine (ordered_pairwise (C09.C09_partition src)).imp_of_mem ?_
  intro a b ha hb hab
  have h1 := hmem a ha
  have h2 := hmem b hb
  refine Or.inr ?_
  simp only [Inside]
  omega

theorem scan_toksQ_origin (src : Bytes) : ToksQ (TreeSpanOrigin (scan src)) (scan src) := by
  refine ⟨fun t ht => Or.inr (Or.inr (Or.inl ⟨t, ht, rfl⟩)), ?_⟩
  refine (ordered_pairwise (C09.C09_partition src)).imp_of_mem ?_
  intro a b ha hb hab
  exact Or.inr (Or.inr (Or.inr ⟨a, ha, b, hb, hab, rfl⟩))

/-- **C10 (origin of the spans of partial trees).** Every span field of every statement that
    `parse src` returns — also next to errors — is `Span.null`, `Span.zero`, the span of a token
    of `scan src`, or the extent `⟨t.start, t2.stop⟩` of two tokens `t` before `t2`. -/
theorem C10_partial_tree_spans_origin (src : Bytes) :
    ∀ st ∈ (parse src).1, st.SpansIn (TreeSpanOrigin (scan src)) := by
  unfold parse
  exact parseTokens_tree (Q := TreeSpanOrigin (scan src)) src.length (scan src)
    (Or.inl rfl) (Or.inr (Or.inl rfl)) (scan_toksQ_origin src)

/-- **C10 (spans of partial trees are marked invalid or lie inside the source).** Every span
    field of every statement that `parse src` returns is `Span.null` or satisfies
    `0 ≤ start ≤ stop ≤ len(src)` (`Span.zero` is the latter). -/
theorem C10_partial_tree_spans_inside (src : Bytes) :
    ∀ st ∈ (parse src).1, st.SpansIn (NullOrInside src.length) := by
  unfold parse
  exact parseTokens_tree (Q := NullOrInside src.length) src.length (scan src)
    (Or.inl rfl) (Or.inr (by simp [Inside, Span.zero])) (scan_toksQ_inside src)

-- the predicate is not vacuous: a tree with a span field outside the source is rejected
example : ¬ (Stmt.let_ ⟨0, 3⟩ none .null (.lit ⟨5, 12⟩ .number [])).SpansIn (NullOrInside 10) := by
  simp [Stmt.SpansIn, Expr.SpansIn, NullOrInside, Inside, Span.null]

-- sanity tests (evaluated): the error of `t | where a[1` sits at the EOF index 13
#guard ((parse (Bytes.ofString "t | where a[1")).2.map (·.span)) = [some ⟨13, 13⟩]

end Pql.C10
