/-
Property C07 (also C08, C10, C13, C15), tie by translation: `firstParse` and `Parse`.

`firstParse` is generic; its regenerated body is interpreted with the productions as functions on an
arbitrary caller state (`Model/ParseIR.lean`, `execFP`): `C07_firstParse_ir` says that for two productions
it computes `firstOfG` — the first production unless it reports not-found, else the second, run in the
state the first one left.  `firstOf`, which `exec` uses for the statement `firstParse(func…, func…)`, is
that function on the interpreter's own state (`firstOf_eq`).

`Parse`: the statement loop over `splitSemi`, the let-or-tabular choice through `firstParse` (the second
function literal runs on the cursor the first one left), the "replace resultError" quirk on a trailing
token, `endSplit`, the final wrapping — the model's `pStatements` / `parseTokens` / `parse` are the
interpretation of the regenerated body (`C07_Parse_ir`, `C07_Parse_tokens_ir`), for every source,
every token list and every loop counter.
-/
import PqlModel.Props.C07OperatorIRJoin
import PqlModel.Lemmas.AccountedStmt
namespace Pql.OpIR
open Pql
set_option linter.unusedSimpArgs false

/-! ### firstParse -/

theorem firstOf_eq (a b : St → M (List Val × St)) (st : St) : firstOf a b st = firstOfG a b st := rfl

macro "fp_simp" : tactic =>
  `(tactic| simp [*, assignAll, assignTo, St.declare, evalCond, eval, evalAll, St.get, bind, Except.bind, execFPBlock, execFP,
      St.leave, pure, Except.pure, rangeFP, stuck, goPanic])

theorem firstParse_run {σ : Type} (env : Env) (a b : σ → M (List Val × σ)) (x : σ) :
    runFirstParse env firstParseBody [a, b] x = firstOfG a b x := by
  unfold runFirstParse firstOfG firstParseBody
  simp only [List.length_cons, List.length_nil, List.range, List.range.loop, List.map, execFPBlock, execFP, entry, St.get,
    List.reverse_cons, List.reverse_nil, List.nil_append, List.find?, beq_self_eq_true, bind, Except.bind, pure, Except.pure,
    List.isEmpty_cons, Bool.false_eq_true, if_false, List.dropLast, rangeFP, St.declare]
  simp
  cases ha : a x with
  | error e => simp [ha]
  | ok r =>
    obtain ⟨vs, x1⟩ := r
    rcases vs with _ | ⟨v, _ | ⟨e, _ | ⟨z, zs⟩⟩⟩
    · fp_simp
    · fp_simp
    · cases he : asErrs e with
      | error er => fp_simp
      | ok es =>
        cases hn : isNF es
        · fp_simp
        · cases hb : b x1 with
          | error e2 => fp_simp
          | ok r2 => fp_simp
    · fp_simp

/-- **firstParse**: for two productions, on every caller state, the regenerated body computes `firstOfG` -/
theorem C07_firstParse_ir {σ : Type} (env : Env) (a b : σ → M (List Val × σ)) (x : σ) :
    runFirstParse env (bodyOf "firstParse") [a, b] x = firstOfG a b x := by
  simp only [bodyOf, firstParse_ir, Option.map_some, Option.getD_some, firstParse_run]

/-- the meaning `exec` gives to the statement `firstParse(func…, func…)` is the interpretation of the
    regenerated body of `firstParse` on the two function literals -/
theorem C07_firstParse_stmt (env : Env) (a b : St → M (List Val × St)) (st : St) :
    firstOf a b st = runFirstParse env (bodyOf "firstParse") [a, b] st := by
  rw [C07_firstParse_ir, firstOf_eq]

/-! ### Parse -/

/-- the interpretation of `Parse`: `Scan(query)` yields `toks`; every production called on a statement's
    sub-parser runs with the fuel the model computes from that sub-parser's tokens (`fuelFor`) -/
def parseEnv (srcLen : Nat) (toks : List Token) : Env :=
  { c := ⟨srcLen⟩, callee := fun _ m args ts => calleeAt ⟨srcLen⟩ (fuelFor ts.length) m args ts, scan := fun _ => toks }

theorem parseEnv_callee (srcLen : Nat) (toks : List Token) (k : Nat) (m : String) (args : List Val) (ts : List Token) :
    (parseEnv srcLen toks).callee k m args ts = calleeAt ⟨srcLen⟩ (fuelFor ts.length) m args ts := rfl
theorem parseEnv_c (srcLen : Nat) (toks : List Token) : (parseEnv srcLen toks).c = ⟨srcLen⟩ := rfl
theorem parseEnv_fuelLoop (srcLen : Nat) (toks : List Token) : (parseEnv srcLen toks).fuelLoop = false := rfl
theorem parseEnv_scan (srcLen : Nat) (toks : List Token) (b : Bytes) : (parseEnv srcLen toks).scan b = toks := rfl

def stmtVals (acc : List Stmt) : List Val := acc.map fun x => .istmt x

theorem toStmts_vals : ∀ acc : List Stmt, toStmts (stmtVals acc) = some acc
  | [] => rfl
  | x :: r => by
    have := toStmts_vals r
    simp only [stmtVals] at this
    simp [stmtVals, toStmts, this]

theorem stmtVals_snoc (acc : List Stmt) (x : Stmt) : stmtVals acc ++ [.istmt x] = stmtVals (acc ++ [x]) := by
  simp [stmtVals]

/-- what `Parse` returned: the statements and the error; a loop out of fuel: the statements so far, the fuel
    leaf after the errors so far -/
def resultParse (r : M (Flow × St)) : M (List Stmt × Errs) := do
  let (f, st) ← r
  match f with
  | .ret [v, e] => pure (← optM ((listOf v).bind toStmts), ← asErrs e)
  | .fuel => pure (← optM ((listOf (← st.get "result")).bind toStmts), (← asErrs (← st.get "resultError")) ++ errFuel)
  | _ => stuck

/-- the state in the statement loop -/
def parseSt (acc : List Stmt) (errs : Errs) (ts : List Token) (u : Option (List Token)) : St :=
  ⟨[("resultError", .errs errs), ("result", .list (stmtVals acc)), ("p", .parser ts u), ("query", .query)], []⟩

/-- what follows the statement loop -/
def parseK (env : Env) (k : Nat) (r : Flow × St) : M (Flow × St) :=
  match r.1 with
  | .next => execBlock env (ParseBody.drop 4) k r.2
  | _ => pure r

theorem parseK_fuel (env : Env) (k : Nat) (st : St) : parseK env k (.fuel, st) = .ok (.fuel, st) := rfl

theorem parseK_next (env : Env) (k : Nat) (acc : List Stmt) (errs : Errs) (ts : List Token) (u : Option (List Token)) :
    resultParse (parseK env k (.next, parseSt acc errs ts u)) = .ok (acc, errs) := by
  unfold parseK parseSt resultParse
  cases errs <;>
    simp [ParseBody, execBlock, exec, evalCond, eval, evalAll, valEq, isNilVal, St.get, St.leave, asErrs, listOf, toStmts_vals,
      optM, bind, Except.bind, pure, Except.pure]

theorem kind_error : TokKind.ofGoName "TokenError" = some .error := by decide

macro "parse_simp" : tactic =>
  `(tactic| ir_simp [*, firstOf, closure, OpIR.toIface, Tabular.isNilB, kind_error, eofTok, stmtVals_snoc, parseK_fuel, parseEnv_callee, parseEnv_c,
      parseEnv_fuelLoop, parseEnv_scan,
      List.append_assoc, mkOpaque_nil])

theorem parse_loop (srcLen : Nat) (toks : List Token) (k : Nat) :
    ∀ (n : Nat) (acc : List Stmt) (errs : Errs) (ts : List Token) (u : Option (List Token)),
      resultParse (runLoop false (execBlock (parseEnv srcLen toks) (loopAt ParseBody 3)) n k (parseSt acc errs ts u) >>=
          parseK (parseEnv srcLen toks) k) =
        .ok (pStatements ⟨srcLen⟩ n acc errs ts)
  | 0, acc, errs, ts, u => by
    simp [runLoop, resultParse, parseK_fuel, parseSt, pStatements, St.get, listOf, toStmts_vals, optM, asErrs,
      bind, Except.bind, pure, Except.pure]
  | n + 1, acc, errs, ts, u => by
    have ih := parse_loop srcLen toks k n
    have hK := parseK_next (parseEnv srcLen toks) k
    simp only [loopAt, ParseBody, List.getElem?_cons_succ, List.getElem?_cons_zero, parseSt, bind, Except.bind] at ih hK ⊢
    unfold runLoop pStatements pStatement
    rcases hsp : splitSemi ts with ⟨sp1, sp2⟩
    simp only []
    cases hn : isNF (pLet ⟨srcLen⟩ (fuelFor sp1.length) sp1).errs
    · -- a let statement (or an error that is not "not found")
      rcases sp2 with _ | ⟨semi, rest⟩ <;> cases hv : (pLet ⟨srcLen⟩ (fuelFor sp1.length) sp1).val <;> parse_simp
    · have hrest := pLet_nf ⟨srcLen⟩ (fuelFor sp1.length) sp1 hn
      cases hn2 : isNF (pTabular ⟨srcLen⟩ (fuelFor sp1.length) sp1).errs
      · rcases sp2 with _ | ⟨semi, rest⟩ <;> cases hv : (pLet ⟨srcLen⟩ (fuelFor sp1.length) sp1).val <;>
          cases hv2 : (pTabular ⟨srcLen⟩ (fuelFor sp1.length) sp1).val <;> parse_simp
      · rcases sp2 with _ | ⟨semi, rest⟩ <;> cases hv : (pLet ⟨srcLen⟩ (fuelFor sp1.length) sp1).val <;>
          cases hv2 : (pTabular ⟨srcLen⟩ (fuelFor sp1.length) sp1).val <;>
          rcases hr2 : (pTabular ⟨srcLen⟩ (fuelFor sp1.length) sp1).rest with _ | ⟨tt, rr⟩ <;> parse_simp

/-- the interpretation of `Parse(query)` when `Scan(query)` yields `toks` and `len(query) = srcLen` -/
def runParse (srcLen : Nat) (toks : List Token) (body : List IStmt) : M (List Stmt × Errs) :=
  resultParse (run (parseEnv srcLen toks) body 0 [("query", .query)])

theorem Parse_run (srcLen : Nat) (toks : List Token) : runParse srcLen toks ParseBody = .ok (parseTokens srcLen toks) := by
  have hsplit : ParseBody = ParseBody.take 3 ++ ([.loop (loopAt ParseBody 3)] ++ ParseBody.drop 4) := rfl
  unfold runParse run parseTokens
  rw [hsplit, execBlock_append]
  have hpre : execBlock (parseEnv srcLen toks) (ParseBody.take 3) 0 (entry [("query", .query)]) =
      .ok (.next, parseSt [] [] toks none) := by
    ir_simp [ParseBody, parseSt, stmtVals, parseEnv_scan]
  rw [hpre]
  have := parse_loop srcLen toks 0 (toks.length + 1) [] [] toks none
  simp only [bind, Except.bind, execBlock_append, execBlock_single, exec, parseSt, St.parser, St.get, List.find?, parseEnv_fuelLoop,
    pure, Except.pure, parseK] at this ⊢
  simp at this ⊢
  exact this

/-- **Parse, on tokens**: for every source length and token list, interpreting the regenerated body of
    `Parse` — `Scan` yielding those tokens — returns exactly the model's statements and error leaves -/
theorem C07_Parse_tokens_ir (srcLen : Nat) (toks : List Token) :
    runParse srcLen toks (bodyOf "Parse") = .ok (parseTokens srcLen toks) := by
  simp only [bodyOf, Parse_ir, Option.map_some, Option.getD_some, Parse_run]

/-- **Parse**: for every source, the model's `parse` is the interpretation of the regenerated body of `Parse`
    (with the model's `scan` for `Scan`) -/
theorem C07_Parse_ir (src : Bytes) : runParse src.length (scan src) (bodyOf "Parse") = .ok (parse src) :=
  C07_Parse_tokens_ir src.length (scan src)

end Pql.OpIR
