/-
Property C03 — joins combine the pipeline so far with the right-hand pipeline.

Specification: the `join` case of `Rel.interpOp` (nested loop of the pipeline so far with the
right-hand pipeline evaluated on its own; innerunique removes duplicate left rows; leftouter
pads unmatched left rows).  The oracle compares it with the reference evaluation of the
emitted SQL on small databases for all three kinds, bare / explicit / mixed conditions,
prefixes, multi-operator right sides, nested and sequential joins.
Proved here about the model: the condition a join is compiled with.
-/
import PqlModel.Model.Compile
import PqlModel.Spec.Rel
namespace Pql.C03
open Pql

/-- **C03 (bare key).** A bare unquoted column name `k` after `on` stands for
    `$left.k == $right.k` — for every name that is not one of the constants true/false/null. -/
theorem C03_bare_key_rewrite (name : Bytes) (sp : Span) (h : builtinIdent name = none) :
    rewriteSimpleJoinCondition (.qident [⟨name, sp, false⟩]) =
      .binary (.qident [⟨leftAlias, .zero, false⟩, ⟨name, sp, false⟩]) .zero .eq
        (.qident [⟨rightAlias, .zero, false⟩, ⟨name, sp, false⟩]) := by
  simp [rewriteSimpleJoinCondition, h]

/-- quoted names and anything that is not a single identifier are left alone -/
theorem C03_quoted_key_not_rewritten (name : Bytes) (sp : Span) :
    rewriteSimpleJoinCondition (.qident [⟨name, sp, true⟩]) = .qident [⟨name, sp, true⟩] := by
  simp [rewriteSimpleJoinCondition]

/-- **C03 (conditions are AND-ed).** Two conditions compile to their conjunction, in order. -/
theorem C03_two_conditions_anded (c1 c2 : Expr) :
    buildJoinCondition (.cons c1 (.cons c2 .nil)) =
      .binary (rewriteSimpleJoinCondition c1) .zero .and_ (rewriteSimpleJoinCondition c2) := by
  simp [buildJoinCondition, buildJoinCondition.go]

/-- the aliases are the documented `$left` / `$right` -/
theorem C03_aliases : Facts.leftJoinTableAlias = "$left" ∧ Facts.rightJoinTableAlias = "$right" := by decide

/-- the three join kinds the parser admits are the ones `splitQueries` handles -/
theorem C03_kinds : Facts.joinTypes = ["inner", "innerunique", "leftouter"] := by decide

end Pql.C03
