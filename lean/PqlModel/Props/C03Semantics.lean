/-
Property C03 — the intended SQL of a join computes the documented join.

  * `joinTables` (Lemmas/JoinSemLink.lean) restates the join case of the pipeline interpreter
    `Rel.interpOp` as a function of the two tables (`C03_interp_join`, by `rfl`).
  * `C03_join_link`: the SELECT of a join link of the intended chain
        SELECT * FROM l AS "$left" [LEFT] JOIN r AS "$right" ON c      (l possibly DISTINCT-ed)
    evaluates, in the reference SQL evaluator, to `joinTables` of the two tables the link reads.
  * the three kinds as statements over lists, the bare key, the AND of several conditions.
  * `C03_chain` (Props/C03Chain.lean): the whole statement of  T | before | join (right) on … | after.
-/
import PqlModel.Lemmas.JoinSemKey
import PqlModel.Props.C01Sem
namespace Pql.C03
open Pql Sql CompileOracle Intended JoinSem

theorem flatMap_congr' {α β} (xs : List α) (f g : α → List β) (h : ∀ x ∈ xs, f x = g x) :
    xs.flatMap f = xs.flatMap g := by
  induction xs with
  | nil => rfl
  | cons x xs ih =>
    simp only [List.flatMap_cons, h x (by simp)]
    rw [ih (fun y hy => h y (by simp [hy]))]

/-! ### 1. the join link -/

/-- The join case of the documented meaning is `joinTables`, for every kind annotation
    (`kindOf none = "innerunique"`; an unknown kind would be read as `inner`, the compiler rejects it). -/
theorem C03_interp_join (src : Bytes) (db : DB) (t : Table) (p k a b : Span) (flavor : Option Ident) (d : Span)
    (right : Tabular) (e f : Span) (conds : ExprList) :
    Rel.interpOp src db t (.join p k a b flavor d right e f conds) =
      joinTables (kindOf flavor == Bytes.ofString "innerunique") (kindOf flavor == Bytes.ofString "leftouter")
        t (Rel.interp src db right) (buildJoinCondition conds) :=
  interpOp_join src db t p k a b flavor d right e f conds

/-- the three documented kinds (and the default) -/
theorem C03_interp_join_kinds (src : Bytes) (db : DB) (t : Table) (p k a b : Span) (d : Span)
    (right : Tabular) (e f : Span) (conds : ExprList) (sp : Span) (q : Bool) :
    Rel.interpOp src db t (.join p k a b none d right e f conds) =
      joinTables true false t (Rel.interp src db right) (buildJoinCondition conds) ∧
    Rel.interpOp src db t (.join p k a b (some ⟨Bytes.ofString "innerunique", sp, q⟩) d right e f conds) =
      joinTables true false t (Rel.interp src db right) (buildJoinCondition conds) ∧
    Rel.interpOp src db t (.join p k a b (some ⟨Bytes.ofString "inner", sp, q⟩) d right e f conds) =
      joinTables false false t (Rel.interp src db right) (buildJoinCondition conds) ∧
    Rel.interpOp src db t (.join p k a b (some ⟨Bytes.ofString "leftouter", sp, q⟩) d right e f conds) =
      joinTables false true t (Rel.interp src db right) (buildJoinCondition conds) := by
  refine ⟨?_, ?_, ?_, ?_⟩ <;> rw [C03_interp_join] <;> congr 1

/-- **C03 (the join link).** The SELECT of a join link evaluates to the documented join of the two
    tables it names: same output columns (left columns, then right columns), same rows in the same
    order; the ON environment is the left row under `$left` followed by the right row under `$right`;
    DISTINCT applies to the left table only; LEFT JOIN pads with one NULL per right column. -/
theorem C03_join_link (src : Bytes) (db : DB) (ctes : List (Bytes × Table)) (a : SubA)
    (unique left : Bool) (l r : Bytes) (cond : Expr) (sel : Select)
    (hsrc : a.source = .join unique left l r cond) (hop : a.op = none) (hsort : a.sort = none)
    (htake : a.take = none) (hsel : selOf src a = some sel) :
    evalSelect db ctes sel = joinTables unique left (lookupTable db ctes l) (lookupTable db ctes r) cond := by
  obtain ⟨c, hc, rfl⟩ := selOf_join src a unique left l r cond sel hsrc hop hsort htake hsel
  exact evalSelect_join db ctes unique left l r cond c hc

/-! ### 2. the three kinds over lists -/

/-- **C03 (inner).** `kind=inner`: the rows are exactly the pairs `l ++ r` with the condition TRUE,
    left-major (for each left row in order, its matching right rows in order), nothing else. -/
theorem C03_inner_all_pairs (lt rt : Table) (cond : Expr) :
    joinTables false false lt rt cond =
      ⟨lt.cols ++ rt.cols,
       lt.rows.flatMap fun l => (rt.rows.filter (condHolds lt.cols rt cond l)).map (l ++ ·)⟩ ∧
    ∀ row, row ∈ (joinTables false false lt rt cond).rows ↔
      ∃ l ∈ lt.rows, ∃ r ∈ rt.rows, condHolds lt.cols rt cond l r = true ∧ row = l ++ r := by
  have h : joinTables false false lt rt cond =
      ⟨lt.cols ++ rt.cols, lt.rows.flatMap fun l => (rt.rows.filter (condHolds lt.cols rt cond l)).map (l ++ ·)⟩ := by
    simp only [joinTables, Bool.false_eq_true, ↓reduceIte]
    congr 1
    apply flatMap_congr'
    intro l _
    rw [joinRow_inner]; rfl
  refine ⟨h, fun row => ?_⟩
  rw [h]
  simp only [List.mem_flatMap, List.mem_map, List.mem_filter]
  constructor
  · rintro ⟨l, hl, r, ⟨hr, hc⟩, rfl⟩; exact ⟨l, hl, r, hr, hc, rfl⟩
  · rintro ⟨l, hl, r, hr, hc, rfl⟩; exact ⟨l, hl, r, ⟨hr, hc⟩, rfl⟩

/-- **C03 (innerunique, the default).** The join of the de-duplicated left table: duplicates of a
    left row are removed first (first occurrences kept, in order), the right side is untouched. -/
theorem C03_innerunique_dedups_left (left : Bool) (lt rt : Table) (cond : Expr) :
    joinTables true left lt rt cond = joinTables false left ⟨lt.cols, distinctRows lt.rows⟩ rt cond ∧
    (distinctRows lt.rows).Nodup ∧ (∀ r, r ∈ distinctRows lt.rows ↔ r ∈ lt.rows) ∧
    (distinctRows lt.rows).Sublist lt.rows :=
  ⟨rfl, distinctRows_spec lt.rows⟩

/-- a left table without duplicate rows: innerunique = inner -/
theorem C03_innerunique_eq_inner_of_nodup (left : Bool) (lt rt : Table) (cond : Expr) (h : lt.rows.Nodup) :
    joinTables true left lt rt cond = joinTables false left lt rt cond := by
  simp only [joinTables, distinctRows_of_nodup lt.rows h, ite_self]

/-- **C03 (leftouter).** Every left row contributes its matching pairs, or — when it has none —
    itself padded with one NULL per right column; so unmatched left rows are kept, and every row
    of the inner join is a row of the left outer join. -/
theorem C03_leftouter_keeps_unmatched (unique : Bool) (lt rt : Table) (cond : Expr) :
    (joinTables unique true lt rt cond).rows =
      ((if unique then distinctRows lt.rows else lt.rows).flatMap fun l =>
        if (matchesOf lt.cols rt cond l).isEmpty then [l ++ rt.cols.map fun _ => Val.null]
        else matchesOf lt.cols rt cond l) ∧
    (∀ l ∈ lt.rows, (∀ r ∈ rt.rows, condHolds lt.cols rt cond l r = false) →
      (l ++ rt.cols.map fun _ => Val.null) ∈ (joinTables unique true lt rt cond).rows) ∧
    (∀ row ∈ (joinTables unique false lt rt cond).rows, row ∈ (joinTables unique true lt rt cond).rows) := by
  have hrows : (joinTables unique true lt rt cond).rows =
      ((if unique then distinctRows lt.rows else lt.rows).flatMap fun l =>
        if (matchesOf lt.cols rt cond l).isEmpty then [l ++ rt.cols.map fun _ => Val.null]
        else matchesOf lt.cols rt cond l) := by
    simp only [joinTables]
    apply flatMap_congr'
    intro l _
    rw [joinRow_eq]; simp [padRow]
  refine ⟨hrows, ?_, ?_⟩
  · intro l hl hno
    rw [hrows, List.mem_flatMap]
    refine ⟨l, ?_, ?_⟩
    · cases unique
      · simpa using hl
      · simpa using (distinctRows_spec lt.rows).2.1 l |>.mpr hl
    · have : matchesOf lt.cols rt cond l = [] := by
        simp only [matchesOf, List.map_eq_nil_iff, List.filter_eq_nil_iff]
        intro r hr; simp [hno r hr]
      simp [this]
  · intro row hrow
    rw [hrows]
    simp only [joinTables, List.mem_flatMap] at hrow ⊢
    obtain ⟨l, hl, hrow⟩ := hrow
    refine ⟨l, hl, ?_⟩
    rw [joinRow_inner] at hrow
    have : (matchesOf lt.cols rt cond l).isEmpty = false := by
      cases hm : matchesOf lt.cols rt cond l with
      | nil => rw [hm] at hrow; cases hrow
      | cons _ _ => rfl
    simp [this, hrow]

/-! ### 3. the bare key and the AND of the conditions -/

/-- **C03 (bare key).** In the ON environment of the pair (l, r), the bare key `k` holds iff SQL `=`
    on the left row's column `k` and the right row's column `k` is TRUE — `$left.k` is looked up in
    the left row only and `$right.k` in the right row only, also when both tables have a column `k`
    (a missing column is an uninterpreted term, never equal to a value). -/
theorem C03_bare_key_semantics (k : Bytes) (sp : Span) (h : builtinIdent k = none)
    (lcols : List Bytes) (l : List Val) (rcols : List Bytes) (r : List Val) :
    Rel.evalP true [] (onEnv lcols l rcols r) (rewriteSimpleJoinCondition (.qident [⟨k, sp, false⟩])) =
      binOp "="
        ((colVal lcols l k).getD (.term (Bytes.ofString "?col:" ++ leftA ++ [46] ++ k)))
        ((colVal rcols r k).getD (.term (Bytes.ofString "?col:" ++ rightA ++ [46] ++ k))) := by
  rw [evalP_bare_key k sp h, lookupCol_left, lookupCol_right]

/-- the join filter (`= TRUE`) cannot tell the plain `=` of a bare key from `coalesce(… = …, FALSE)` -/
theorem C03_bare_key_coalesce (g : List Env) (env : Env) (x : SExpr) :
    (evalS g env (coalesceFalse x) == .bool true) = (evalS g env x == .bool true) := by
  rw [Pql.C01.evalS_coalesceFalse]
  split
  · rename_i hn; rw [hn]; decide
  · rfl

/-- integer keys: the pair matches iff the keys are equal; a NULL key never matches -/
theorem C03_bare_key_int (k : Bytes) (sp : Span) (h : builtinIdent k = none)
    (lcols : List Bytes) (l : List Val) (rcols : List Bytes) (r : List Val) (x y : Int)
    (hl : colVal lcols l k = some (.int x)) (hr : colVal rcols r k = some (.int y)) :
    holds (onEnv lcols l rcols r) (rewriteSimpleJoinCondition (.qident [⟨k, sp, false⟩])) = decide (x = y) := by
  simp only [holds, C03_bare_key_semantics k sp h, hl, hr, Option.getD]
  unfold binOp
  have e1 : ("=" == "AND") = false := by decide
  have e2 : ("=" == "OR") = false := by decide
  have e3 : ("=" == "=") = true := by decide
  simp only [e1, e2, e3, Bool.false_eq_true, ↓reduceIte, cmpVals, Bool.true_or]
  have n1 : (Val.int x == Val.null) = false := by simp
  have n2 : (Val.int y == Val.null) = false := by simp
  simp only [n1, n2, Bool.or_self, Bool.false_eq_true, ↓reduceIte]
  by_cases hxy : x = y
  · subst hxy; simp
  · simp [hxy]

theorem C03_bare_key_null (k : Bytes) (sp : Span) (h : builtinIdent k = none)
    (lcols : List Bytes) (l : List Val) (rcols : List Bytes) (r : List Val)
    (hn : colVal lcols l k = some .null ∨ colVal rcols r k = some .null) :
    holds (onEnv lcols l rcols r) (rewriteSimpleJoinCondition (.qident [⟨k, sp, false⟩])) = false := by
  simp only [holds, C03_bare_key_semantics k sp h]
  unfold binOp
  have e1 : ("=" == "AND") = false := by decide
  have e2 : ("=" == "OR") = false := by decide
  simp only [e1, e2, Bool.false_eq_true, ↓reduceIte]
  rcases hn with hn | hn <;> simp [hn]

/-- **C03 (several conditions are AND-ed).** The join condition holds for a pair iff every listed
    condition (a bare key read as the equality of the two sides) holds. -/
theorem C03_conditions_anded (env : Env) (conds : ExprList) :
    holds env (buildJoinCondition conds) = conds.toList.all fun c => holds env (rewriteSimpleJoinCondition c) :=
  holds_buildJoinCondition env conds

/-! ### non-vacuity: the theorems on a concrete database -/
namespace Ex
def bs (s : String) : Bytes := Bytes.ofString s
def idt (s : String) : Ident := ⟨bs s, .zero, false⟩
/-- T(k, a): a duplicate row, a row without partner, a NULL key -/
def exT : Table := ⟨[bs "k", bs "a"], [[.int 1, .int 10], [.int 1, .int 10], [.int 2, .int 20], [.null, .int 30]]⟩
/-- U(k, b): two partners for key 1, a NULL key -/
def exU : Table := ⟨[bs "k", bs "b"], [[.int 1, .int 100], [.int 3, .int 300], [.int 1, .int 101], [.null, .int 0]]⟩
def exDB : DB := [(bs "T", exT), (bs "U", exU)]
/-- `on k` -/
def keyK : ExprList := .cons (.qident [idt "k"]) .nil
def exLink (u l : Bool) : SubA :=
  { name := subqueryName 1, source := .join u l (bs "T") (bs "U") (buildJoinCondition keyK) }

/-- `C03_join_link` on `T | join kind=innerunique (U) on k`: the duplicate T row is used once, both
    partners are found, NULL keys do not match -/
example : ∃ sel, selOf [] (exLink true false) = some sel ∧
    evalSelect exDB [] sel = ⟨[bs "k", bs "a", bs "k", bs "b"],
      [[.int 1, .int 10, .int 1, .int 100], [.int 1, .int 10, .int 1, .int 101]]⟩ := by
  cases h : selOf [] (exLink true false) with
  | none => exact absurd h (by decide)
  | some sel =>
    refine ⟨sel, rfl, ?_⟩
    rw [C03_join_link [] exDB [] (exLink true false) true false (bs "T") (bs "U") _ sel rfl rfl rfl rfl h]
    decide

/-- inner: the duplicate left row pairs twice -/
example : (joinTables false false exT exU (buildJoinCondition keyK)).rows =
    [[.int 1, .int 10, .int 1, .int 100], [.int 1, .int 10, .int 1, .int 101],
     [.int 1, .int 10, .int 1, .int 100], [.int 1, .int 10, .int 1, .int 101]] := by decide

/-- leftouter: the rows with key 2 and with the NULL key are kept, padded -/
example : (joinTables false true exT exU (buildJoinCondition keyK)).rows =
    [[.int 1, .int 10, .int 1, .int 100], [.int 1, .int 10, .int 1, .int 101],
     [.int 1, .int 10, .int 1, .int 100], [.int 1, .int 10, .int 1, .int 101],
     [.int 2, .int 20, .null, .null], [.null, .int 30, .null, .null]] := by decide

/-- the bare key on a pair of rows whose tables both have a column `k` -/
example : holds (onEnv exT.cols [.int 1, .int 10] exU.cols [.int 1, .int 100])
    (rewriteSimpleJoinCondition (.qident [idt "k"])) = true := by
  rw [show idt "k" = ⟨bs "k", .zero, false⟩ from rfl,
    C03_bare_key_int (bs "k") .zero (by decide) exT.cols _ exU.cols _ 1 1 (by decide) (by decide)]
  decide
end Ex

end Pql.C03
